package main

import (
	"fmt"
	"go/ast"
	"go/token"
	"sort"
	"strings"
)

type param struct {
	name string
	t    *ty
	ptr  bool
}

type fn struct {
	w       *world
	p       *pkg
	file    *ast.File
	fd      *ast.FuncDecl
	goName  string
	relFile string
	line    int

	leanName, status, reason, signature, text string
	root, busy                                bool

	params      []param
	results     []param
	named       bool
	mut         []int // params returned as extra results (written in place by the Go code)
	ret         *ty   // the value a `return` yields: results, then the mutated parameters
	calls       []*fn
	structs     []*structInfo
	assumptions []string

	tmp        int
	nilCmp     map[string]bool
	idxLast    map[string]token.Pos // the position of the last index write to a name
	idxWritten map[string]bool
	fldWritten map[string]bool
	loops      [][]string // carried variables of the enclosing loops, innermost last
}

func (f *fn) callNames() []string {
	var out []string
	for _, c := range f.calls {
		out = append(out, c.goName)
	}
	return out
}

func (w *world) ensure(dir, recv, name string) *fn {
	key := name
	if recv != "" {
		key = recv + "." + name
	}
	full := dir + "|" + key
	if f, ok := w.funcs[full]; ok {
		return f
	}
	p := w.load(dir)
	f := &fn{w: w, p: p, goName: p.name + "." + key, leanName: p.name + "." + key}
	w.funcs[full] = f
	fd := p.funcs[key]
	if fd == nil || fd.Body == nil {
		f.status, f.reason = "missing", "no such function in "+dir
		w.order = append(w.order, f)
		return f
	}
	f.fd, f.file = fd, p.ffile[key]
	pos := w.fset.Position(fd.Pos())
	f.relFile = dir + "/" + baseName(pos.Filename)
	f.line = pos.Line
	f.busy = true
	func() {
		defer func() {
			if r := recover(); r != nil {
				u, ok := r.(unsupported)
				if !ok {
					panic(r)
				}
				f.status, f.reason = "unsupported", u.msg
			}
		}()
		f.translate()
		f.status = "ok"
	}()
	f.busy = false
	w.order = append(w.order, f)
	return f
}

// ---------------------------------------------------------------------------------------------
// environments

type vinfo struct {
	t     *ty
	seq   int
	depth int
}

type env struct {
	vars  map[string]*vinfo
	seq   *int
	depth int
}

func (e *env) clone() *env {
	c := &env{vars: make(map[string]*vinfo, len(e.vars)), seq: e.seq, depth: e.depth}
	for k, v := range e.vars {
		c.vars[k] = v
	}
	return c
}

func (e *env) push() *env {
	c := e.clone()
	c.depth++
	return c
}

func (e *env) declare(name string, t *ty) {
	*e.seq++
	e.vars[name] = &vinfo{t: t, seq: *e.seq, depth: e.depth}
}

func (e *env) refine(name string, t *ty) {
	v := *e.vars[name]
	v.t = t
	e.vars[name] = &v
}

// ---------------------------------------------------------------------------------------------
// the function

func (f *fn) translate() {
	fd := f.fd
	f.nilCmp, f.idxWritten, f.fldWritten = map[string]bool{}, map[string]bool{}, map[string]bool{}
	ast.Inspect(fd.Body, func(n ast.Node) bool {
		switch n := n.(type) {
		case *ast.BinaryExpr:
			if n.Op == token.EQL || n.Op == token.NEQ {
				if isIdent(n.Y, "nil") {
					if id, ok := unparen(n.X).(*ast.Ident); ok {
						f.nilCmp[id.Name] = true
					}
				} else if isIdent(n.X, "nil") {
					if id, ok := unparen(n.Y).(*ast.Ident); ok {
						f.nilCmp[id.Name] = true
					}
				}
			}
		case *ast.AssignStmt:
			for _, l := range n.Lhs {
				f.noteWrite(l)
			}
		case *ast.IncDecStmt:
			f.noteWrite(n.X)
		case *ast.FuncLit:
			f.fail(n, "function literal")
		case *ast.GoStmt, *ast.DeferStmt, *ast.SelectStmt, *ast.SwitchStmt, *ast.TypeSwitchStmt, *ast.LabeledStmt, *ast.SendStmt:
			// (a switch without `fallthrough` / `break` has been rewritten into an if-chain by desugar.go)
			f.fail(n, "statement outside the subset (%T)", n)
		}
		return true
	})

	sc := 0
	e := &env{vars: map[string]*vinfo{}, seq: &sc}
	addParam := func(name string, te ast.Expr, isRecv bool) {
		t := f.typeOf(te, f.p, f.file)
		if t == nil {
			f.fail(te, "parameter type outside the subset")
		}
		_, ptr := te.(*ast.StarExpr)
		if (t.isSliceLike() || t.k == kFunc) && f.nilCmp[name] {
			c := *t
			c.opt = true
			t = &c
		}
		if name == "_" || name == "" {
			name = fmt.Sprintf("_p%d", len(f.params))
		}
		if _, dup := e.vars[name]; dup {
			f.fail(te, "duplicate parameter name")
		}
		f.params = append(f.params, param{name, t, ptr})
		e.declare(name, t)
	}
	if fd.Recv != nil {
		r := fd.Recv.List[0]
		n := ""
		if len(r.Names) == 1 {
			n = r.Names[0].Name
		}
		addParam(n, r.Type, true)
	}
	for _, fl := range fd.Type.Params.List {
		if len(fl.Names) == 0 {
			addParam("", fl.Type, false)
		}
		for _, n := range fl.Names {
			addParam(n.Name, fl.Type, false)
		}
	}
	if fd.Type.Results != nil {
		for _, fl := range fd.Type.Results.List {
			t := f.typeOf(fl.Type, f.p, f.file)
			if t == nil || t.k == kFunc || t.k == kND1 {
				f.fail(fl.Type, "result type outside the subset")
			}
			if len(fl.Names) == 0 {
				f.results = append(f.results, param{"", t, false})
			}
			for _, n := range fl.Names {
				f.named = true
				f.results = append(f.results, param{n.Name, t, false})
			}
		}
	}
	for i, p := range f.params {
		if (p.t.k == kSlice && f.idxWritten[p.name]) || (p.t.k == kStruct && p.ptr && f.fldWritten[p.name]) {
			f.mut = append(f.mut, i)
			f.assumptions = append(f.assumptions, fmt.Sprintf("parameter %s is updated in place by the Go code: returned as an extra result; "+
				"aliasing with the other arguments is out of scope", p.name))
		}
		if p.t.k == kND1 {
			f.assumptions = append(f.assumptions, fmt.Sprintf("%s (data.ND1Float64) is the list of its elements: Len1 = length, Get(idx) = element idx[0], "+
				"index-out-of-range outside 0..Len1-1", p.name))
		}
		if p.t.k == kFunc {
			f.assumptions = append(f.assumptions, fmt.Sprintf("callback %s is a pure total function", p.name))
		}
		if p.t.k == kStruct && p.ptr {
			f.assumptions = append(f.assumptions, fmt.Sprintf("pointer %s is not nil", p.name))
		}
	}
	if p := f.params; len(p) > 0 && p[0].t.k == kND1 && f.idxWritten[p[0].name] {
		f.fail(fd, "writes into an ND array")
	}
	var parts []*ty
	for _, r := range f.results {
		parts = append(parts, r.t)
	}
	for _, i := range f.mut {
		parts = append(parts, f.params[i].t)
	}
	if len(parts) == 1 {
		f.ret = parts[0]
	} else {
		f.ret = &ty{k: kTuple, parts: parts}
	}

	var body strings.Builder
	if f.named {
		for _, r := range f.results {
			if r.name == "_" {
				f.fail(fd, "blank named result")
			}
			if _, dup := e.vars[r.name]; dup {
				f.fail(fd, "result shadows a parameter")
			}
			e.declare(r.name, r.t)
			body.WriteString(ln(1, fmt.Sprintf("let %s : %s := %s", leanIdent(r.name), r.t.lean(), r.t.zero())))
		}
	}
	body.WriteString(f.block(fd.Body.List, e, 1, func(e *env, ind int) string {
		if len(f.results) > 0 && !f.named {
			f.fail(fd, "control reaches the end of a function with unnamed results")
		}
		return f.returnCurrent(fd, e, ind)
	}))

	float := f.ret.usesFloat()
	var ps []string
	for _, p := range f.params {
		if p.t.usesFloat() {
			float = true
		}
		ps = append(ps, fmt.Sprintf("(%s : %s)", leanIdent(p.name), p.t.lean()))
	}
	gen := ""
	if float {
		gen = "{α : Type} [Num α] "
	}
	f.signature = fmt.Sprintf("%s%s : R %s", gen, strings.Join(ps, " "), atom(f.ret.lean()))
	var b strings.Builder
	what := "func " + f.fd.Name.Name
	if f.fd.Recv != nil {
		what = "method " + strings.TrimPrefix(f.goName, f.p.name+".")
	}
	fmt.Fprintf(&b, "/-- %s:%d  %s", f.relFile, f.line, what)
	if len(f.mut) > 0 {
		var ns []string
		for _, i := range f.mut {
			ns = append(ns, f.params[i].name)
		}
		fmt.Fprintf(&b, "; result: the Go results, then the parameters written in place (%s)", strings.Join(ns, ", "))
	}
	b.WriteString(" -/\n")
	fmt.Fprintf(&b, "def %s %s := do\n%s", f.leanName, f.signature, body.String())
	f.text = b.String()
}

func (f *fn) noteWrite(l ast.Expr) {
	switch l := unparen(l).(type) {
	case *ast.IndexExpr:
		if id, ok := unparen(l.X).(*ast.Ident); ok {
			f.idxWritten[id.Name] = true
			if f.idxLast == nil {
				f.idxLast = map[string]token.Pos{}
			}
			if l.Pos() > f.idxLast[id.Name] {
				f.idxLast[id.Name] = l.Pos()
			}
		} else {
			f.fail(l, "indexed assignment to something that is not a variable")
		}
	case *ast.SelectorExpr:
		if id, ok := unparen(l.X).(*ast.Ident); ok {
			f.fldWritten[id.Name] = true
		} else {
			f.fail(l, "field assignment to something that is not a variable")
		}
	case *ast.Ident:
	default:
		f.fail(l, "assignment target outside the subset")
	}
}

func isIdent(e ast.Expr, name string) bool {
	id, ok := unparen(e).(*ast.Ident)
	return ok && id.Name == name
}

func unparen(e ast.Expr) ast.Expr {
	for {
		p, ok := e.(*ast.ParenExpr)
		if !ok {
			return e
		}
		e = p.X
	}
}

func ln(ind int, s string) string { return strings.Repeat("  ", ind) + s + "\n" }

func (f *fn) newTmp() string {
	f.tmp++
	return fmt.Sprintf("_t%d", f.tmp)
}

// ---------------------------------------------------------------------------------------------
// tuples of variables

func tupleText(names []string) string {
	switch len(names) {
	case 0:
		return "()"
	case 1:
		return names[0]
	}
	return "(" + strings.Join(names, ", ") + ")"
}

func proj(v string, i, n int) string {
	if n == 1 {
		return v
	}
	s := v
	for j := 0; j < i; j++ {
		s += ".2"
	}
	if i < n-1 {
		s += ".1"
	}
	return s
}

func (f *fn) tupleType(names []string, e *env) string {
	var parts []*ty
	for _, n := range names {
		parts = append(parts, e.vars[n].t)
	}
	if len(parts) == 1 {
		return parts[0].lean()
	}
	return (&ty{k: kTuple, parts: parts}).lean()
}

func leanNames(names []string) []string {
	out := make([]string, len(names))
	for i, n := range names {
		out[i] = leanIdent(n)
	}
	return out
}

// `let a : A := v.1` … for the variables of a tuple
func (f *fn) unpack(names []string, v string, e *env, ind int) string {
	var b strings.Builder
	for i, n := range names {
		b.WriteString(ln(ind, fmt.Sprintf("let %s : %s := %s", leanIdent(n), e.vars[n].t.lean(), proj(v, i, len(names)))))
	}
	return b.String()
}

// ---------------------------------------------------------------------------------------------
// which outer variables a statement list assigns; whether it can leave its block by return / continue

func (f *fn) assigned(list []ast.Stmt, e *env) []string {
	set := map[string]bool{}
	note := func(x ast.Expr) {
		switch x := unparen(x).(type) {
		case *ast.Ident:
			set[x.Name] = true
		case *ast.IndexExpr:
			if id, ok := unparen(x.X).(*ast.Ident); ok {
				set[id.Name] = true
			}
		case *ast.SelectorExpr:
			if id, ok := unparen(x.X).(*ast.Ident); ok {
				set[id.Name] = true
			}
		}
	}
	for _, s := range list {
		ast.Inspect(s, func(n ast.Node) bool {
			switch n := n.(type) {
			case *ast.AssignStmt:
				for _, l := range n.Lhs {
					note(l)
				}
			case *ast.IncDecStmt:
				note(n.X)
			case *ast.ExprStmt:
				if c, ok := n.X.(*ast.CallExpr); ok {
					for _, a := range c.Args { // arguments a callee may update in place
						if id, ok := unparen(a).(*ast.Ident); ok {
							if v, ok := e.vars[id.Name]; ok && (v.t.k == kSlice || v.t.k == kStruct) {
								set[id.Name] = true
							}
						}
					}
				}
			}
			return true
		})
	}
	var out []string
	for n := range set {
		if _, ok := e.vars[n]; ok {
			out = append(out, n)
		}
	}
	// canonical order: by (Lean) type, then by declaration — swapping the declarations of two variables of different
	// types does not change the carried tuple
	sort.Slice(out, func(i, j int) bool {
		a, b := e.vars[out[i]], e.vars[out[j]]
		if ta, tb := a.t.lean(), b.t.lean(); ta != tb {
			return ta < tb
		}
		return a.seq < b.seq
	})
	return out
}

func escapes(list []ast.Stmt, inNestedLoop bool) bool {
	for _, s := range list {
		switch s := s.(type) {
		case *ast.ReturnStmt:
			return true
		case *ast.BranchStmt:
			if !inNestedLoop {
				return true
			}
		case *ast.ExprStmt:
			if c, ok := s.X.(*ast.CallExpr); ok && isIdent(c.Fun, "panic") {
				continue // a panic ends everything: no continuation needed, and no merge problem either
			}
		case *ast.BlockStmt:
			if escapes(s.List, inNestedLoop) {
				return true
			}
		case *ast.IfStmt:
			if escapes(s.Body.List, inNestedLoop) {
				return true
			}
			if s.Else != nil && escapes([]ast.Stmt{s.Else}, inNestedLoop) {
				return true
			}
		case *ast.ForStmt:
			if escapes(s.Body.List, true) {
				return true
			}
		case *ast.RangeStmt:
			if escapes(s.Body.List, true) {
				return true
			}
		}
	}
	return false
}

func mentions(e ast.Expr, names []string) bool {
	found := false
	ast.Inspect(e, func(n ast.Node) bool {
		if id, ok := n.(*ast.Ident); ok {
			for _, x := range names {
				if x == id.Name {
					found = true
				}
			}
		}
		return true
	})
	return found
}

// ---------------------------------------------------------------------------------------------
// statements. `k` produces what follows the list (end of the function / loop body / branch of a merge).

type cont func(e *env, ind int) string

func (f *fn) wrapRet(v string) string {
	if len(f.loops) > 0 {
		return "pure (Ctl.ret " + atomV(v) + ")"
	}
	return "pure " + atomV(v)
}

func atomV(s string) string {
	if strings.ContainsAny(s, " ") && !(strings.HasPrefix(s, "(") && strings.HasSuffix(s, ")") && balanced(s[1:len(s)-1])) &&
		!(strings.HasPrefix(s, "[") && strings.HasSuffix(s, "]")) {
		return "(" + s + ")"
	}
	return s
}

func balanced(s string) bool {
	d := 0
	for _, c := range s {
		if c == '(' {
			d++
		} else if c == ')' {
			d--
			if d < 0 {
				return false
			}
		}
	}
	return d == 0
}

// the value of a bare `return` / of falling off the end: current values of the named results and of the mutated parameters
func (f *fn) returnCurrent(n ast.Node, e *env, ind int) string {
	var names []string
	for _, r := range f.results {
		names = append(names, leanIdent(r.name))
	}
	for _, i := range f.mut {
		names = append(names, leanIdent(f.params[i].name))
	}
	return ln(ind, f.wrapRet(tupleText(names)))
}

func (f *fn) emitBinds(binds []string, ind int) string {
	var b strings.Builder
	for _, l := range binds {
		b.WriteString(ln(ind, l))
	}
	return b.String()
}

func (f *fn) block(list []ast.Stmt, e *env, ind int, k cont) string {
	if len(list) == 0 {
		return k(e, ind)
	}
	rest := list[1:]
	restK := func(e2 *env, ind2 int) string { return f.block(rest, e2, ind2, k) }
	switch s := list[0].(type) {
	case *ast.EmptyStmt:
		return restK(e, ind)
	case *ast.BlockStmt:
		inner := e.push()
		return f.block(s.List, inner, ind, func(_ *env, ind2 int) string { return restK(e, ind2) })
	case *ast.AssignStmt:
		return f.assign(s, e, ind) + restK(e, ind)
	case *ast.IncDecStmt:
		op := token.ADD
		if s.Tok == token.DEC {
			op = token.SUB
		}
		one := &ast.BasicLit{Kind: token.INT, Value: "1", ValuePos: s.Pos()}
		return f.store(s.X, &ast.BinaryExpr{X: s.X, Op: op, Y: one, OpPos: s.Pos()}, false, e, ind, s) + restK(e, ind)
	case *ast.DeclStmt:
		gd, ok := s.Decl.(*ast.GenDecl)
		if !ok || gd.Tok != token.VAR {
			f.fail(s, "declaration outside the subset")
		}
		var b strings.Builder
		for _, sp := range gd.Specs {
			vs := sp.(*ast.ValueSpec)
			if len(vs.Values) != 0 && len(vs.Values) != len(vs.Names) {
				f.fail(s, "var with a multi-valued initialiser")
			}
			var dt *ty
			if vs.Type != nil {
				dt = f.typeOf(vs.Type, f.p, f.file)
				if dt == nil {
					f.fail(vs.Type, "variable type outside the subset")
				}
			}
			for i, n := range vs.Names {
				t := dt
				text := ""
				if len(vs.Values) > 0 {
					v := f.expr(vs.Values[i], e, dt)
					b.WriteString(f.emitBinds(v.binds, ind))
					text = v.text
					if t == nil {
						t = v.t
					}
				} else {
					if t.k == kStruct || t.k == kFunc {
						f.fail(s, "zero value of a struct / func variable")
					}
					if t.isSliceLike() && f.nilCmp[n.Name] {
						c := *t
						c.opt = true
						t = &c
					}
					text = t.zero()
				}
				b.WriteString(f.declare(n, t, text, e, ind))
			}
		}
		return b.String() + restK(e, ind)
	case *ast.ReturnStmt:
		return f.returnStmt(s, e, ind)
	case *ast.BranchStmt:
		if s.Tok != token.CONTINUE || s.Label != nil || len(f.loops) == 0 {
			f.fail(s, "%s statement", s.Tok)
		}
		return ln(ind, "pure (Ctl.next "+tupleText(leanNames(f.loops[len(f.loops)-1]))+")")
	case *ast.ExprStmt:
		c, ok := s.X.(*ast.CallExpr)
		if !ok {
			f.fail(s, "expression statement")
		}
		if isIdent(c.Fun, "panic") {
			if _, shadow := e.vars["panic"]; shadow {
				f.fail(s, "shadowed builtin")
			}
			return ln(ind, fmt.Sprintf("Except.error %q", panicClassOf(c)))
		}
		return f.callStmt(c, e, ind) + restK(e, ind)
	case *ast.IfStmt:
		return f.ifStmt(s, rest, e, ind, k)
	case *ast.ForStmt:
		return f.forStmt(s, e, ind, restK)
	case *ast.RangeStmt:
		return f.rangeStmt(s, e, ind, restK)
	}
	f.fail(list[0], "statement outside the subset (%T)", list[0])
	return ""
}

// the class harness/cmd/owharness/child.go gives to the message of a panic
func panicClassOf(c *ast.CallExpr) string {
	msg := ""
	if len(c.Args) == 1 {
		if l, ok := c.Args[0].(*ast.BasicLit); ok && l.Kind == token.STRING {
			msg = l.Value
		}
	}
	switch {
	case strings.Contains(msg, "index out of range"), strings.Contains(msg, "slice bounds out of range"):
		return "index-out-of-range"
	case strings.Contains(msg, "nil pointer"), strings.Contains(msg, "invalid memory address"):
		return "nil"
	case strings.Contains(msg, "Size mismatch"):
		return "size-mismatch"
	case strings.Contains(msg, "not contiguous"):
		return "not-contiguous"
	case strings.Contains(msg, "interface conversion"):
		return "type-assertion"
	case strings.Contains(msg, "makeslice"), strings.Contains(msg, "out of memory"):
		return "alloc"
	case strings.Contains(msg, "divide by zero"):
		return "int-div-zero"
	}
	return "other"
}

// `let x : T := text`, declaring x (or re-binding it when it is a variable of the current scope)
func (f *fn) declare(n *ast.Ident, t *ty, text string, e *env, ind int) string {
	if n.Name == "_" {
		return ""
	}
	if old, ok := e.vars[n.Name]; ok {
		if old.depth != e.depth {
			f.fail(n, "declaration of %s shadows an outer variable", n.Name)
		}
		if !old.t.same(t) {
			f.fail(n, "re-declaration of %s with another type", n.Name)
		}
	} else {
		if (t.k == kSlice || t.k == kND1) && !t.opt && f.nilCmp[n.Name] {
			c := *t
			c.opt = true
			t = &c
			text = "some " + atomV(text)
		}
		e.declare(n.Name, t)
	}
	return ln(ind, fmt.Sprintf("let %s : %s := %s", leanIdent(n.Name), e.vars[n.Name].t.lean(), text))
}

func (f *fn) assign(s *ast.AssignStmt, e *env, ind int) string {
	if len(s.Lhs) == 1 && len(s.Rhs) == 1 {
		switch s.Tok {
		case token.DEFINE, token.ASSIGN:
			return f.store(s.Lhs[0], s.Rhs[0], s.Tok == token.DEFINE, e, ind, s)
		}
		var op token.Token
		switch s.Tok {
		case token.ADD_ASSIGN:
			op = token.ADD
		case token.SUB_ASSIGN:
			op = token.SUB
		case token.MUL_ASSIGN:
			op = token.MUL
		case token.QUO_ASSIGN:
			op = token.QUO
		case token.REM_ASSIGN:
			op = token.REM
		default:
			f.fail(s, "assignment operator %s", s.Tok)
		}
		return f.store(s.Lhs[0], &ast.BinaryExpr{X: s.Lhs[0], Op: op, Y: &ast.ParenExpr{X: s.Rhs[0]}, OpPos: s.Pos()}, false, e, ind, s)
	}
	if len(s.Rhs) == 1 && len(s.Lhs) > 1 && (s.Tok == token.DEFINE || s.Tok == token.ASSIGN) {
		c, ok := s.Rhs[0].(*ast.CallExpr)
		if !ok {
			f.fail(s, "multi-valued assignment")
		}
		v := f.expr(c, e, nil)
		if v.t.k != kTuple || len(v.t.parts) != len(s.Lhs) {
			f.fail(s, "assignment count mismatch")
		}
		var b strings.Builder
		b.WriteString(f.emitBinds(v.binds, ind))
		for i, l := range s.Lhs {
			id, ok := l.(*ast.Ident)
			if ix, isIx := unparen(l).(*ast.IndexExpr); isIx && s.Tok == token.ASSIGN {
				// xs[i], … = f(…): the index operands are evaluated before the call (they must be free of panics and of
				// anything the call could change: plain int expressions), the elements are assigned left to right afterwards
				xid, ok := unparen(ix.X).(*ast.Ident)
				if !ok {
					f.fail(s, "indexed assignment outside the subset")
				}
				old, ok := e.vars[xid.Name]
				if !ok || old.t.k != kSlice || old.t.opt {
					f.fail(s, "indexed assignment to %s, which is not a (non-nil-able) slice variable", xid.Name)
				}
				iv := f.expr(ix.Index, e, tInt)
				if iv.t.k != kInt || len(iv.binds) > 0 {
					f.fail(ix.Index, "index of a multi-valued assignment is not a panic-free int expression")
				}
				text := f.coerce(s, proj(v.text, i, len(s.Lhs)), v.t.parts[i], old.t.elem)
				b.WriteString(ln(ind, fmt.Sprintf("let %s ← setIdx %s %s %s", leanIdent(xid.Name), leanIdent(xid.Name), atomV(iv.text), atomV(text))))
				continue
			}
			if !ok {
				f.fail(s, "multi-valued assignment to something that is not a variable")
			}
			text := proj(v.text, i, len(s.Lhs))
			if s.Tok == token.DEFINE {
				b.WriteString(f.declare(id, v.t.parts[i], text, e, ind))
			} else {
				b.WriteString(f.setVar(id, v.t.parts[i], text, e, ind))
			}
		}
		return b.String()
	}
	if len(s.Rhs) == len(s.Lhs) && len(s.Lhs) > 1 && (s.Tok == token.DEFINE || s.Tok == token.ASSIGN) {
		// a, b = x, y: all right-hand sides are evaluated (left to right) before any variable is assigned
		var ids []*ast.Ident
		for _, l := range s.Lhs {
			id, ok := l.(*ast.Ident)
			if !ok {
				f.fail(s, "parallel assignment to something that is not a variable")
			}
			ids = append(ids, id)
		}
		var b strings.Builder
		var tmps []string
		var tys []*ty
		for i, r := range s.Rhs {
			var want *ty
			if old, ok := e.vars[ids[i].Name]; ok {
				want = old.t
			}
			v := f.expr(r, e, want)
			b.WriteString(f.emitBinds(v.binds, ind))
			t := f.newTmp()
			b.WriteString(ln(ind, fmt.Sprintf("let %s : %s := %s", t, v.t.lean(), v.text)))
			tmps = append(tmps, t)
			tys = append(tys, v.t)
		}
		for i, id := range ids {
			if s.Tok == token.DEFINE {
				b.WriteString(f.declare(id, tys[i], tmps[i], e, ind))
			} else {
				b.WriteString(f.setVar(id, tys[i], tmps[i], e, ind))
			}
		}
		return b.String()
	}
	f.fail(s, "parallel assignment")
	return ""
}

func (f *fn) setVar(id *ast.Ident, t *ty, text string, e *env, ind int) string {
	if id.Name == "_" {
		return ""
	}
	old, ok := e.vars[id.Name]
	if !ok {
		f.fail(id, "assignment to %s, which is not a local variable", id.Name)
	}
	text = f.coerce(id, text, t, old.t)
	return ln(ind, fmt.Sprintf("let %s : %s := %s", leanIdent(id.Name), old.t.lean(), text))
}

// a value of type `from` where `to` is expected (nil-able slices / callbacks)
func (f *fn) coerce(n ast.Node, text string, from, to *ty) string {
	if from.same(to) {
		return text
	}
	if from.nonOpt().same(to.nonOpt()) {
		if to.opt {
			return "some " + atomV(text)
		}
		if to.isSliceLike() {
			return "(" + text + ".getD [])" // a nil slice behaves as the empty slice
		}
	}
	if from.k == kND1 && to.k == kSlice && to.elem.k == kFloat && !from.opt && !to.opt {
		return text
	}
	f.fail(n, "type mismatch (%s where %s is expected)", from.lean(), to.lean())
	return ""
}

// lhs = rhs (define: `:=`)
func (f *fn) store(lhs, rhs ast.Expr, define bool, e *env, ind int, at ast.Node) string {
	var b strings.Builder
	switch l := unparen(lhs).(type) {
	case *ast.Ident:
		var want *ty
		if old, ok := e.vars[l.Name]; ok && l.Name != "_" {
			want = old.t
		}
		f.aliasCheck(l.Name, rhs, e)
		v := f.expr(rhs, e, want)
		b.WriteString(f.emitBinds(v.binds, ind))
		if v.t.k == kTuple {
			f.fail(at, "multi-valued expression in a single-valued context")
		}
		if define {
			if _, ok := e.vars[l.Name]; ok && l.Name != "_" {
				b.WriteString(f.setVar(l, v.t, v.text, e, ind)) // `:=` with one name is always a declaration; the scope rule is checked by declare
				return b.String()
			}
			b.WriteString(f.declare(l, v.t, v.text, e, ind))
		} else {
			b.WriteString(f.setVar(l, v.t, v.text, e, ind))
		}
	case *ast.IndexExpr:
		id, ok := unparen(l.X).(*ast.Ident)
		if !ok || define {
			f.fail(at, "indexed assignment outside the subset")
		}
		old, ok := e.vars[id.Name]
		if !ok || old.t.k != kSlice || old.t.opt {
			f.fail(at, "indexed assignment to %s, which is not a (non-nil-able) slice variable", id.Name)
		}
		iv := f.expr(l.Index, e, tInt)
		if iv.t.k != kInt {
			f.fail(l.Index, "index is not an int")
		}
		v := f.expr(rhs, e, old.t.elem)
		b.WriteString(f.emitBinds(iv.binds, ind))
		b.WriteString(f.emitBinds(v.binds, ind))
		text := f.coerce(at, v.text, v.t, old.t.elem)
		b.WriteString(ln(ind, fmt.Sprintf("let %s ← setIdx %s %s %s", leanIdent(id.Name), leanIdent(id.Name), atomV(iv.text), atomV(text))))
	case *ast.SelectorExpr:
		id, ok := unparen(l.X).(*ast.Ident)
		if !ok || define {
			f.fail(at, "field assignment outside the subset")
		}
		old, ok := e.vars[id.Name]
		if !ok || old.t.k != kStruct {
			f.fail(at, "field assignment to %s, which is not a struct variable", id.Name)
		}
		ft := old.t.st.field(l.Sel.Name)
		if ft == nil {
			f.fail(at, "no field %s", l.Sel.Name)
		}
		f.aliasCheck("", rhs, e)
		v := f.expr(rhs, e, ft)
		b.WriteString(f.emitBinds(v.binds, ind))
		text := f.coerce(at, v.text, v.t, ft)
		b.WriteString(ln(ind, fmt.Sprintf("let %s : %s := { %s with %s := %s }", leanIdent(id.Name), old.t.lean(), leanIdent(id.Name), leanIdent(l.Sel.Name), text)))
	default:
		f.fail(at, "assignment target outside the subset")
	}
	return b.String()
}

// a slice that is written by index must not get a second name (Go slices alias; the translation copies values)
func (f *fn) aliasCheck(lhsName string, rhs ast.Expr, e *env) {
	r := unparen(rhs)
	name := ""
	switch r := r.(type) {
	case *ast.Ident:
		name = r.Name
	case *ast.SelectorExpr, *ast.SliceExpr:
		if lhsName != "" && f.idxWritten[lhsName] {
			if v, ok := e.vars[lhsName]; !ok || v.t.isSliceLike() {
				f.fail(rhs, "%s is written by index and would alias another slice", lhsName)
			}
		}
		return
	case *ast.CallExpr: // `ys := append(xs, …)` may share the backing array of xs: no index writes through ys
		if isIdent(r.Fun, "append") && lhsName != "" && f.idxWritten[lhsName] {
			f.fail(rhs, "%s is written by index and may share the backing array of the appended slice (aliasing)", lhsName)
		}
		return
	default:
		return
	}
	v, ok := e.vars[name]
	if !ok || !v.t.isSliceLike() {
		return
	}
	if lhsName == "" && len(f.loops) == 0 && f.idxWritten[name] && f.idxLast[name] < rhs.Pos() {
		// `p.F = xs` after the last index write to xs, outside every loop: xs is finished (built element by element, then stored);
		// the field is never written by index (field assignments only replace the whole slice)
		return
	}
	if f.idxWritten[name] || (lhsName != "" && f.idxWritten[lhsName]) {
		f.fail(rhs, "slice %s gets a second name while one of them is written by index (aliasing)", name)
	}
}

func (f *fn) returnStmt(s *ast.ReturnStmt, e *env, ind int) string {
	if len(s.Results) == 0 {
		if len(f.results) > 0 && !f.named {
			f.fail(s, "bare return with unnamed results")
		}
		return f.returnCurrent(s, e, ind)
	}
	if len(s.Results) != len(f.results) {
		f.fail(s, "return of a multi-valued call")
	}
	var b strings.Builder
	var vals []string
	for i, r := range s.Results {
		v := f.expr(r, e, f.results[i].t)
		b.WriteString(f.emitBinds(v.binds, ind))
		vals = append(vals, f.coerce(r, v.text, v.t, f.results[i].t))
	}
	for _, i := range f.mut {
		vals = append(vals, leanIdent(f.params[i].name))
	}
	b.WriteString(ln(ind, f.wrapRet(tupleText(vals))))
	return b.String()
}

// a call as a statement: its results are dropped; arguments the callee updates in place are re-bound
func (f *fn) callStmt(c *ast.CallExpr, e *env, ind int) string {
	callee, args, binds, _ := f.resolveCall(c, e)
	if callee == nil {
		f.fail(c, "call statement outside the subset")
	}
	var b strings.Builder
	b.WriteString(f.emitBinds(binds, ind))
	t := f.newTmp()
	b.WriteString(ln(ind, fmt.Sprintf("let %s ← %s%s", t, callee.leanName, joinArgs(args))))
	n := len(callee.results) + len(callee.mut)
	for j, pi := range callee.mut {
		// the receiver of a method call is args[0]
		var a ast.Expr
		if callee.fd.Recv != nil {
			if pi == 0 {
				a = c.Fun.(*ast.SelectorExpr).X
			} else {
				a = c.Args[pi-1]
			}
		} else {
			a = c.Args[pi]
		}
		id, ok := unparen(a).(*ast.Ident)
		if !ok {
			f.fail(c, "argument updated in place by %s is not a variable", callee.goName)
		}
		old, ok := e.vars[id.Name]
		if !ok {
			f.fail(c, "argument updated in place by %s is not a local variable", callee.goName)
		}
		b.WriteString(ln(ind, fmt.Sprintf("let %s : %s := %s", leanIdent(id.Name), old.t.lean(), proj(t, len(callee.results)+j, n))))
	}
	return b.String()
}

func joinArgs(args []string) string {
	s := ""
	for _, a := range args {
		s += " " + atomV(a)
	}
	return s
}

// ---------------------------------------------------------------------------------------------
// if

type condRes struct {
	binds  []string
	prop   string
	nilVar string // the whole condition is `nilVar == nil` (nilTrue) or `nilVar != nil`
	nilEq  bool
}

func (f *fn) ifCond(c ast.Expr, e *env) condRes {
	if b, ok := unparen(c).(*ast.BinaryExpr); ok && (b.Op == token.EQL || b.Op == token.NEQ) {
		var other ast.Expr
		if isIdent(b.Y, "nil") {
			other = b.X
		} else if isIdent(b.X, "nil") {
			other = b.Y
		}
		if other != nil {
			if id, ok := unparen(other).(*ast.Ident); ok {
				if v, ok := e.vars[id.Name]; ok && v.t.opt {
					return condRes{nilVar: id.Name, nilEq: b.Op == token.EQL}
				}
			}
		}
	}
	binds, p := f.prop(c, e)
	return condRes{binds: binds, prop: p}
}

func (f *fn) ifStmt(s *ast.IfStmt, rest []ast.Stmt, e *env, ind int, k cont) string {
	if s.Init != nil {
		f.fail(s, "if with an init statement")
	}
	var elseList []ast.Stmt
	if s.Else != nil {
		switch el := s.Else.(type) {
		case *ast.BlockStmt:
			elseList = el.List
		default:
			elseList = []ast.Stmt{el}
		}
	}
	// `a && b` / `a || b` whose right operand can panic (an index, a division, a call) is evaluated as Go does: b only when a
	// does not decide. The statement is the nested `if` that says so — the form a programmer would write by hand:
	//   if a && b { X } else { Y }  ≡  if a { if b { X } else { Y } } else { Y }      if a || b { X } else { Y }  ≡  if a { X } else { if b { X } else { Y } }
	if be, ok := unparen(s.Cond).(*ast.BinaryExpr); ok && (be.Op == token.LAND || be.Op == token.LOR) && f.canPanic(be.Y, e) {
		var elseBlk *ast.BlockStmt
		if s.Else != nil {
			if eb, isBlk := s.Else.(*ast.BlockStmt); isBlk {
				elseBlk = eb
			} else {
				elseBlk = &ast.BlockStmt{Lbrace: s.Else.Pos(), List: []ast.Stmt{s.Else}, Rbrace: s.Else.End()}
			}
		}
		inner := &ast.IfStmt{If: be.Y.Pos(), Cond: be.Y, Body: s.Body}
		if elseBlk != nil {
			inner.Else = elseBlk
		}
		outer := &ast.IfStmt{If: s.If, Cond: be.X}
		if be.Op == token.LAND {
			outer.Body = &ast.BlockStmt{Lbrace: s.Body.Lbrace, List: []ast.Stmt{inner}, Rbrace: s.Body.Rbrace}
			if elseBlk != nil {
				outer.Else = elseBlk
			}
		} else {
			outer.Body = s.Body
			outer.Else = &ast.BlockStmt{Lbrace: s.Body.Lbrace, List: []ast.Stmt{inner}, Rbrace: s.Body.Rbrace}
		}
		return f.ifStmt(outer, rest, e, ind, k)
	}
	c := f.ifCond(s.Cond, e)
	var b strings.Builder
	b.WriteString(f.emitBinds(c.binds, ind))

	// the two branches: statements, and whether the nil-tested variable is known not to be nil there
	type branch struct {
		head   string
		list   []ast.Stmt
		refine bool
	}
	var brs []branch
	opener := ""
	if c.nilVar == "" {
		opener = "if " + c.prop + " then do"
		brs = []branch{{"", s.Body.List, false}, {"else do", elseList, false}}
	} else {
		opener = "match " + leanIdent(c.nilVar) + " with"
		none := branch{"| none => do", s.Body.List, false}
		some := branch{"| some " + leanIdent(c.nilVar) + " => do", elseList, true}
		if !c.nilEq {
			none.list, some.list = elseList, s.Body.List
		}
		brs = []branch{none, some}
	}
	branchEnv := func(br branch) *env {
		inner := e.push()
		if br.refine {
			if mentionsAssigned(br.list, c.nilVar) {
				f.fail(s, "%s is assigned in the branch where it is known not to be nil", c.nilVar)
			}
			inner.refine(c.nilVar, e.vars[c.nilVar].t.nonOpt())
		}
		return inner
	}

	if !escapes(s.Body.List, false) && !escapes(elseList, false) {
		// merge: neither branch can leave
		vars := f.assigned(append(append([]ast.Stmt{}, s.Body.List...), elseList...), e)
		if c.nilVar != "" {
			for _, v := range vars {
				if v == c.nilVar {
					f.fail(s, "%s is assigned under its own nil test", c.nilVar)
				}
			}
		}
		var m strings.Builder
		m.WriteString(ln(ind, "let _m ← ("+opener))
		for _, br := range brs {
			if br.head != "" {
				m.WriteString(ln(ind+1, br.head))
			}
			m.WriteString(f.block(br.list, branchEnv(br), ind+2, func(_ *env, ind2 int) string {
				return ln(ind2, "pure "+tupleText(leanNames(vars)))
			}))
		}
		b.WriteString(strings.TrimSuffix(m.String(), "\n") + ")\n")
		b.WriteString(f.unpack(vars, "_m", e, ind))
		return b.String() + f.block(rest, e, ind, k)
	}

	// continuation form: what follows the `if` is continued in each branch that falls through
	b.WriteString(ln(ind, opener))
	for _, br := range brs {
		if br.head != "" {
			b.WriteString(ln(ind, br.head))
		}
		br := br
		b.WriteString(f.block(br.list, branchEnv(br), ind+1, func(_ *env, ind2 int) string {
			pre := ""
			if br.refine {
				pre = ln(ind2, fmt.Sprintf("let %s : %s := some %s", leanIdent(c.nilVar), e.vars[c.nilVar].t.lean(), leanIdent(c.nilVar)))
			}
			return pre + f.block(rest, e.clone(), ind2, k)
		}))
	}
	return b.String()
}

func indentMore(s string, n int) string {
	lines := strings.Split(strings.TrimSuffix(s, "\n"), "\n")
	for i := range lines {
		lines[i] = strings.Repeat("  ", n) + lines[i]
	}
	return strings.Join(lines, "\n") + "\n"
}

func mentionsAssigned(list []ast.Stmt, name string) bool {
	found := false
	for _, s := range list {
		ast.Inspect(s, func(n ast.Node) bool {
			switch n := n.(type) {
			case *ast.AssignStmt:
				for _, l := range n.Lhs {
					if isIdent(l, name) {
						found = true
					}
				}
			case *ast.IncDecStmt:
				if isIdent(n.X, name) {
					found = true
				}
			}
			return true
		})
	}
	return found
}

// ---------------------------------------------------------------------------------------------
// loops

func (f *fn) loopTail(carried []string, e *env, ind int, after string, restK cont) string {
	var b strings.Builder
	b.WriteString(ln(ind, "match _c with"))
	b.WriteString(ln(ind, "| Ctl.ret _r => "+f.wrapRet("_r")))
	b.WriteString(ln(ind, "| Ctl.next _s => do"))
	b.WriteString(f.unpack(carried, "_s", e, ind+1))
	b.WriteString(after)
	b.WriteString(restK(e, ind+1))
	return b.String()
}

func (f *fn) forStmt(s *ast.ForStmt, e *env, ind int, restK cont) string {
	bad := func(what string) { f.fail(s, "for loop outside the subset (%s)", what) }
	init, ok := s.Init.(*ast.AssignStmt)
	if !ok || len(init.Lhs) != 1 || len(init.Rhs) != 1 || (init.Tok != token.DEFINE && init.Tok != token.ASSIGN) {
		bad("init")
	}
	iv, ok := init.Lhs[0].(*ast.Ident)
	if !ok || iv.Name == "_" {
		bad("init")
	}
	cond, ok := unparen(s.Cond).(*ast.BinaryExpr)
	if s.Cond == nil || !ok || !isIdent(cond.X, iv.Name) {
		bad("condition")
	}
	d := 0
	switch p := s.Post.(type) {
	case *ast.IncDecStmt:
		if isIdent(p.X, iv.Name) {
			d = 1
			if p.Tok == token.DEC {
				d = -1
			}
		}
	case *ast.AssignStmt:
		if len(p.Lhs) == 1 && len(p.Rhs) == 1 && isIdent(p.Lhs[0], iv.Name) {
			if l, ok := p.Rhs[0].(*ast.BasicLit); ok && l.Kind == token.INT && l.Value == "1" {
				if p.Tok == token.ADD_ASSIGN {
					d = 1
				} else if p.Tok == token.SUB_ASSIGN {
					d = -1
				}
			}
		}
	}
	if d == 0 {
		bad("post statement")
	}
	var b strings.Builder
	start := f.expr(init.Rhs[0], e, tInt)
	if start.t.k != kInt {
		bad("the loop variable is not an int")
	}
	b.WriteString(f.emitBinds(start.binds, ind))
	b.WriteString(ln(ind, "let _i0 : Int := "+start.text))
	outer := init.Tok == token.ASSIGN
	if outer {
		if v, ok := e.vars[iv.Name]; !ok || v.t.k != kInt {
			bad("the loop variable is not an int variable")
		}
	} else if _, ok := e.vars[iv.Name]; ok {
		f.fail(s, "loop variable %s shadows an outer variable", iv.Name)
	}
	inner := e.push()
	if !outer {
		inner.declare(iv.Name, tInt)
	}
	carried := f.assigned(s.Body.List, e)
	for _, c := range carried {
		if c == iv.Name {
			bad("the body assigns the loop variable")
		}
	}
	if mentions(cond.Y, carried) {
		bad("the body changes the bound")
	}
	bound := f.expr(cond.Y, e, tInt)
	if len(bound.binds) > 0 || bound.t.k != kInt {
		bad("bound is not a panic-free int expression")
	}
	count := ""
	switch {
	case d == 1 && cond.Op == token.LSS:
		count = fmt.Sprintf("(%s - _i0).toNat", bound.text)
	case d == 1 && cond.Op == token.LEQ:
		count = fmt.Sprintf("(%s - _i0 + 1).toNat", bound.text)
	case d == -1 && cond.Op == token.GTR:
		count = fmt.Sprintf("(_i0 - %s).toNat", bound.text)
	case d == -1 && cond.Op == token.GEQ:
		count = fmt.Sprintf("(_i0 - %s + 1).toNat", bound.text)
	default:
		bad("direction of the comparison")
	}
	b.WriteString(ln(ind, "let _n : Nat := "+count))
	sigma := f.tupleType(carried, e)
	if len(carried) == 0 {
		sigma = "Unit"
	}
	b.WriteString(ln(ind, fmt.Sprintf("let _body : Int → %s → R (Ctl %s %s) := fun %s _s => do", atomProd(sigma), atom(sigma), atom(f.ret.lean()), leanIdent(iv.Name))))
	b.WriteString(f.unpack(carried, "_s", e, ind+2))
	f.loops = append(f.loops, carried)
	b.WriteString(f.block(s.Body.List, inner, ind+2, func(_ *env, ind2 int) string {
		return ln(ind2, "pure (Ctl.next "+tupleText(leanNames(carried))+")")
	}))
	f.loops = f.loops[:len(f.loops)-1]
	b.WriteString(ln(ind, fmt.Sprintf("let _c ← loopN _body (%d) _n _i0 %s", d, tupleText(leanNames(carried)))))
	after := ""
	if outer {
		after = ln(ind+1, fmt.Sprintf("let %s : Int := _i0 + (%d) * (_n : Int)", leanIdent(iv.Name), d))
	}
	b.WriteString(f.loopTail(carried, e, ind, after, restK))
	return b.String()
}

func (f *fn) rangeStmt(s *ast.RangeStmt, e *env, ind int, restK cont) string {
	bad := func(what string) { f.fail(s, "range loop outside the subset (%s)", what) }
	if s.Tok != token.DEFINE && !(s.Key == nil && s.Value == nil) {
		bad("assigns outer variables")
	}
	name := func(x ast.Expr, dflt string) string {
		if x == nil {
			return dflt
		}
		id, ok := x.(*ast.Ident)
		if !ok {
			bad("key / value")
		}
		if id.Name == "_" {
			return dflt
		}
		if _, ok := e.vars[id.Name]; ok {
			f.fail(s, "loop variable %s shadows an outer variable", id.Name)
		}
		return id.Name
	}
	kn, vn := name(s.Key, ""), name(s.Value, "")
	var b strings.Builder
	xs := f.expr(s.X, e, nil)
	if !xs.t.isSliceLike() {
		bad("not over a slice")
	}
	b.WriteString(f.emitBinds(xs.binds, ind))
	xt := xs.t
	xtext := xs.text
	if xt.opt {
		xtext = "(" + xtext + ".getD [])"
		xt = xt.nonOpt()
	}
	elem := xt.elem
	b.WriteString(ln(ind, fmt.Sprintf("let _xs : %s := %s", xt.lean(), xtext)))
	carried := f.assigned(s.Body.List, e)
	baseX := s.X
	if se, ok := unparen(baseX).(*ast.SliceExpr); ok {
		baseX = se.X
	}
	if mentions(baseX, carried) && vn != "" {
		// (without a value variable only the LENGTH of the slice is used, and that is taken once, before the loop: `_xs`)
		bad("the body writes the slice it ranges over")
	}
	inner := e.push()
	kl, vl := "_i", "_v"
	if kn != "" {
		inner.declare(kn, tInt)
		kl = leanIdent(kn)
	}
	if vn != "" {
		inner.declare(vn, elem)
		vl = leanIdent(vn)
	}
	sigma := f.tupleType(carried, e)
	if len(carried) == 0 {
		sigma = "Unit"
	}
	// ONE form for the loops over the elements of a slice: `for i, v := range xs { … }` is rendered as the three-clause loop
	// `for i := 0; i < len(xs); i++ { v := xs[i]; … }` (xs evaluated once, not written by the body: the same elements in the same order)
	b.WriteString(ln(ind, "let _i0 : Int := 0"))
	b.WriteString(ln(ind, "let _n : Nat := ((_xs.length : Int) - _i0).toNat"))
	b.WriteString(ln(ind, fmt.Sprintf("let _body : Int → %s → R (Ctl %s %s) := fun %s _s => do", atomProd(sigma), atom(sigma), atom(f.ret.lean()), kl)))
	b.WriteString(f.unpack(carried, "_s", e, ind+2))
	b.WriteString(ln(ind+2, fmt.Sprintf("let %s ← getIdx _xs %s", vl, kl)))
	f.loops = append(f.loops, carried)
	b.WriteString(f.block(s.Body.List, inner, ind+2, func(_ *env, ind2 int) string {
		return ln(ind2, "pure (Ctl.next "+tupleText(leanNames(carried))+")")
	}))
	f.loops = f.loops[:len(f.loops)-1]
	b.WriteString(ln(ind, fmt.Sprintf("let _c ← loopN _body (1) _n _i0 %s", tupleText(leanNames(carried)))))
	b.WriteString(f.loopTail(carried, e, ind, "", restK))
	return b.String()
}

// evaluating the condition may panic (it binds an operation that can): found by translating it and discarding the result
func (f *fn) canPanic(c ast.Expr, e *env) (res bool) {
	saved := f.tmp
	defer func() {
		f.tmp = saved
		if r := recover(); r != nil {
			if _, ok := r.(unsupported); !ok {
				panic(r)
			}
			res = true // e.g. a nested `||` whose right operand can panic: taken apart when the nested `if` is translated
		}
	}()
	binds, _ := f.prop(c, e)
	return len(binds) > 0
}
