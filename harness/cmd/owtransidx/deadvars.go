package main

import (
	"go/ast"
	"go/token"
)

// ---- WRITE-ONLY LOCALS ARE REMOVED (work package R3), once per file as it is loaded. A local variable of a function that is
// declared once (`var v T`, `var v = e`, `v := e` with a pure `e`), whose address is never taken, and every other occurrence of
// which is in an assignment `v = e` / `v op= e` to the variable itself with a right-hand side that is pure and cannot panic
// (identifiers, literals, + - *, conversions `float64(x)` / `int(x)`, `append(v, pure…)`, `len`) never influences a result or a
// panic of the function: its declaration and those assignments are deleted before translation. (FindRoot's `trialDeltas`, which
// is appended to and never read.) A function with and one without such a variable therefore give the same term.

func elimDeadLocals(fd *ast.FuncDecl) {
	if fd.Body == nil {
		return
	}
	// names that are parameters / results / labels are never candidates
	taken := map[string]bool{}
	for _, fl := range []*ast.FieldList{fd.Recv, fd.Type.Params, fd.Type.Results} {
		if fl == nil {
			continue
		}
		for _, f := range fl.List {
			for _, n := range f.Names {
				taken[n.Name] = true
			}
		}
	}
	decls := map[string]int{}
	ast.Inspect(fd.Body, func(n ast.Node) bool {
		switch s := n.(type) {
		case *ast.FuncLit:
			for _, fl := range []*ast.FieldList{s.Type.Params, s.Type.Results} {
				if fl != nil {
					for _, f := range fl.List {
						for _, n := range f.Names {
							taken[n.Name] = true
						}
					}
				}
			}
		case *ast.ValueSpec:
			for _, id := range s.Names {
				decls[id.Name]++
				if len(s.Names) != 1 {
					taken[id.Name] = true // `var a, b T`: left alone
				}
			}
		case *ast.AssignStmt:
			if s.Tok == token.DEFINE {
				for _, l := range s.Lhs {
					if id, ok := l.(*ast.Ident); ok {
						decls[id.Name]++
						if len(s.Lhs) != 1 {
							taken[id.Name] = true
						}
					}
				}
			}
		case *ast.RangeStmt:
			for _, e := range []ast.Expr{s.Key, s.Value} {
				if id, ok := e.(*ast.Ident); ok {
					taken[id.Name] = true
				}
			}
		case *ast.LabeledStmt:
			taken[s.Label.Name] = true
		}
		return true
	})
	for name, n := range decls {
		if n != 1 || taken[name] || name == "_" {
			continue
		}
		if deadLocal(fd.Body, name) {
			removeLocal(fd.Body, name)
		}
	}
}

// pure and panic-free; `self` may occur only as the first argument of append
func pureNoPanic(e ast.Expr, self string, top bool) bool {
	switch e := e.(type) {
	case *ast.BasicLit:
		return true
	case *ast.Ident:
		return e.Name != self
	case *ast.ParenExpr:
		return pureNoPanic(e.X, self, top)
	case *ast.UnaryExpr:
		return (e.Op == token.SUB || e.Op == token.ADD || e.Op == token.NOT) && pureNoPanic(e.X, self, false)
	case *ast.BinaryExpr:
		switch e.Op {
		case token.ADD, token.SUB, token.MUL, token.LSS, token.LEQ, token.GTR, token.GEQ, token.EQL, token.NEQ, token.LAND, token.LOR:
			return pureNoPanic(e.X, self, false) && pureNoPanic(e.Y, self, false)
		}
	case *ast.CallExpr:
		f, ok := e.Fun.(*ast.Ident)
		if !ok || e.Ellipsis.IsValid() {
			return false
		}
		switch f.Name {
		case "append":
			if !top || len(e.Args) < 1 || !isIdentNamed(e.Args[0], self) {
				return false
			}
			for _, a := range e.Args[1:] {
				if !pureNoPanic(a, self, false) {
					return false
				}
			}
			return true
		case "float64", "int", "len":
			return len(e.Args) == 1 && pureNoPanic(e.Args[0], self, false)
		}
	}
	return false
}

func isIdentNamed(e ast.Expr, name string) bool {
	id, ok := e.(*ast.Ident)
	return ok && id.Name == name
}

// every occurrence of `name` is its declaration or a self-assignment with a pure right-hand side (the built-ins used by
// pureNoPanic must not be shadowed in the function: checked by the caller through `decls` — a local named append / len / … would
// be declared, and then nothing here is removed)
func deadLocal(body *ast.BlockStmt, name string) bool {
	for _, b := range []string{"append", "float64", "int", "len"} {
		shadow := false
		ast.Inspect(body, func(n ast.Node) bool {
			switch s := n.(type) {
			case *ast.ValueSpec:
				for _, id := range s.Names {
					shadow = shadow || id.Name == b
				}
			case *ast.AssignStmt:
				if s.Tok == token.DEFINE {
					for _, l := range s.Lhs {
						shadow = shadow || isIdentNamed(l, b)
					}
				}
			case *ast.Field:
				for _, id := range s.Names {
					shadow = shadow || id.Name == b
				}
			}
			return !shadow
		})
		if shadow {
			return false
		}
	}
	ok := true
	allowed := map[*ast.Ident]bool{}
	ast.Inspect(body, func(n ast.Node) bool {
		switch s := n.(type) {
		case *ast.ValueSpec:
			if len(s.Names) == 1 && s.Names[0].Name == name {
				allowed[s.Names[0]] = true
				for _, v := range s.Values {
					if !pureNoPanic(v, name, false) {
						ok = false
					}
				}
			}
		case *ast.AssignStmt:
			if len(s.Lhs) == 1 && len(s.Rhs) == 1 && isIdentNamed(s.Lhs[0], name) {
				switch s.Tok {
				case token.DEFINE, token.ASSIGN:
					if !pureNoPanic(s.Rhs[0], name, true) {
						ok = false
					}
				case token.ADD_ASSIGN, token.SUB_ASSIGN, token.MUL_ASSIGN:
					if !pureNoPanic(s.Rhs[0], name, false) {
						ok = false
					}
				default:
					ok = false
				}
				allowed[s.Lhs[0].(*ast.Ident)] = true
				if c, isCall := s.Rhs[0].(*ast.CallExpr); isCall && isIdentNamed(c.Fun, "append") && len(c.Args) > 0 {
					if id, isId := c.Args[0].(*ast.Ident); isId && id.Name == name {
						allowed[id] = true
					}
				}
			}
		}
		return ok
	})
	if !ok {
		return false
	}
	ast.Inspect(body, func(n ast.Node) bool {
		if id, isId := n.(*ast.Ident); isId && id.Name == name && !allowed[id] {
			ok = false
		}
		return ok
	})
	return ok
}

func removeLocal(body *ast.BlockStmt, name string) {
	var filter func(list []ast.Stmt) []ast.Stmt
	var visit func(s ast.Stmt)
	filter = func(list []ast.Stmt) []ast.Stmt {
		var out []ast.Stmt
		for _, s := range list {
			drop := false
			switch s := s.(type) {
			case *ast.AssignStmt:
				drop = len(s.Lhs) == 1 && isIdentNamed(s.Lhs[0], name)
			case *ast.DeclStmt:
				if gd, ok := s.Decl.(*ast.GenDecl); ok && gd.Tok == token.VAR {
					var specs []ast.Spec
					for _, sp := range gd.Specs {
						vs := sp.(*ast.ValueSpec)
						if len(vs.Names) == 1 && vs.Names[0].Name == name {
							continue
						}
						specs = append(specs, sp)
					}
					gd.Specs = specs
					drop = len(specs) == 0
				}
			}
			if !drop {
				visit(s)
				out = append(out, s)
			}
		}
		return out
	}
	visit = func(s ast.Stmt) {
		switch s := s.(type) {
		case *ast.BlockStmt:
			s.List = filter(s.List)
		case *ast.IfStmt:
			s.Body.List = filter(s.Body.List)
			if s.Else != nil {
				visit(s.Else)
			}
		case *ast.ForStmt:
			s.Body.List = filter(s.Body.List)
		case *ast.RangeStmt:
			s.Body.List = filter(s.Body.List)
		case *ast.SwitchStmt:
			for _, c := range s.Body.List {
				cc := c.(*ast.CaseClause)
				cc.Body = filter(cc.Body)
			}
		case *ast.LabeledStmt:
			visit(s.Stmt)
		}
	}
	body.List = filter(body.List)
}

// every `append` of the function has the form `v = append(v, …)` (`v := append(v, …)` is not Go): then no two slices built by
// append share storage, and the capacity a slice was made with cannot be observed
func (f *fn) selfAppendsOnly() bool {
	ok := true
	self := map[*ast.CallExpr]bool{}
	ast.Inspect(f.fd.Body, func(n ast.Node) bool {
		if as, isAs := n.(*ast.AssignStmt); isAs && as.Tok == token.ASSIGN && len(as.Lhs) == 1 && len(as.Rhs) == 1 {
			if c, isCall := as.Rhs[0].(*ast.CallExpr); isCall && isIdentNamed(c.Fun, "append") && len(c.Args) > 0 {
				if l, isId := as.Lhs[0].(*ast.Ident); isId && isIdentNamed(c.Args[0], l.Name) {
					self[c] = true
				}
			}
		}
		return true
	})
	ast.Inspect(f.fd.Body, func(n ast.Node) bool {
		if c, isCall := n.(*ast.CallExpr); isCall && isIdentNamed(c.Fun, "append") && !self[c] {
			ok = false
		}
		return ok
	})
	return ok
}
