// owtransidx — regenerates, from the CURRENT Go source of openwater-core, Lean definitions of the small pure functions the
// n-d array index algebra (C01, C02, C03), the HDF5 hyperslab arithmetic (C08), the numerics of util/fn (C18) and the
// calendar helpers of models/functions/dates.go (C19) rest on (the "syntactic tie" for integer / index code: OW/Props/GenTieIndex.lean proves each regenerated definition equal to the
// hand-written model function the property theorems are stated about).
//
//	owtransidx [-repo DIR] OUT.lean     (DIR defaults to $OW_REPO, then /repo; OUT is written only when changed;
//	                                     a JSON report of translated / unsupported functions goes to stdout)
//
// go/parser + go/ast only. Every function of `table` (and, transitively, every function of the module it calls) is
// translated into a definition `OW.Gen.Idx.<pkg>.<Func>` (methods: `<pkg>.<Recv>.<Func>`) in the monad
// `R = Except String`; anything outside the subset makes the function `unsupported: <construct> at file:line` (it is then
// absent from the generated file, and the theorem about it no longer checks). Of two declarations of one name in a
// package (build tags) the one in the alphabetically first file is taken; _test.go files are ignored.
//
// The subset and its semantics (= Go's for this subset; the prelude of the generated file is the fixed, trusted part):
//   - types: int → Int (overflow NOT modelled), uint → Nat (`uint(x)` of an int = x mod 2^64), bool → Bool,
//     float64 → α with [Num α], error → Bool ("err != nil"), []T → List T, [][]T → List (Option (List T)) (inner slices may be
//     nil), a slice / func parameter that the function compares with nil → Option _, `*S` / `S` for a struct S of the
//     package whose fields have these types → a Lean structure with the same field names (pointers assumed non-nil),
//     data.ND1Float64 → List α (the elements; Len1 = length, Get(idx) = element idx[0], panics outside 0..Len1-1),
//     func(float64) float64 → α → α (a pure, total callback).
//   - statements: `:=`, `=`, `op=`, `++`, `--`, `var`, `a[i] = e`, `p.F = e`, `if / else if / else`, `return` (anywhere,
//     also bare with named results), `continue`, `panic(…)`, calls of translated functions, and the loops
//     `for i := a; i < b; i++` (also `<=`, and `i--` with `>=`, `>`; `i = a` for an outer variable; the bound must not be
//     changed by the body, `i` must not be assigned in it) and `for i, v := range xs` / `range xs[k:]` (the body must not
//     write xs). A loop is `loopN` of the prelude applied to a body `index → carried → R (Ctl carried ρ)`:
//     the carried tuple = the outer variables the body assigns, ordered by (Lean) type, then by declaration; `Ctl.ret r` = `return` in the body.
//   - an `if` none of whose branches can `return` / `continue` is a merge `let _m ← if … ; let v := _m.k`; otherwise the
//     statements after it are continued in each branch that falls through.
//   - `X == nil` / `X != nil` as the whole condition of an `if` is `match X with | none => … | some X => …`.
//   - expressions: + - * on int / float64, `/` `%` on int = `goDiv` `goMod` (truncating; zero divisor = panic
//     "int-div-zero"), float `/`, comparisons, && || ! (operands of && || must be free of panics), literals, `a[i]` =
//     `getIdx` (panic "index-out-of-range"), `len`, `make([]T, n)`, `append`, `int(…)`, `uint(…)`, math.Abs, field reads,
//     calls, and a package-level `var T = [...]int{literals}` that no code of its package assigns to (read as that constant
//     list). Operations that can panic are bound (`let _tk ← …`) in Go's evaluation order: operands left to right, the
//     right-hand side of an assignment before the bounds check of its indexed left-hand side.
//   - a function that writes elements of a slice parameter or fields of a pointer parameter returns the updated parameter
//     as an extra result (Go updates in place); ALIASING between such a parameter and any other argument is out of scope,
//     and a slice that is written by index must not be copied to / from another variable.
//
// Assignments are shadowing `let`s in program order, so renaming a local, adding a temporary or swapping independent pure
// assignments yields a definitionally equal (or `simp`-equal) term.
//
// NORMALISATIONS (work package R1; equal programs written differently give the same term):
//   - desugar.go: `if init; cond {…}` ↦ `{ init; if cond {…} }`; `switch` (no `fallthrough` / `break`) ↦ the if-chain it is defined to be;
//   - ONE loop form: `for i, v := range xs {…}` is rendered as `for i := 0; i < len(xs); i++ { v := xs[i]; … }` (`loopN`; `loopRange`
//     stays in the prelude for the lemma `range_loopN0` of OW/Proofs/GenIdx.lean that turns the one into the other);
//   - `if a && b {X} else {Y}` / `if a || b {…}` whose right operand can panic ↦ the nested `if`s that evaluate b only when a does
//     not decide (Go's short-circuit evaluation): three early returns and one merged condition give the same term;
//   - `xs[i], ys[i] = f(…)` (index operands free of panics), and `p.F = xs` after the last index write to xs (outside every loop) are
//     in the subset; a function pulled in only as a callee (not a root of the table) is tagged `@[gen_unfold]` (OW/Gen/Attr.lean).
//   - (work package R3) deadvars.go: a local that is only ever assigned (a pure, panic-free right-hand side; `v = append(v, …)`) and never
//     read is deleted with its assignments before translation (FindRoot's `trialDeltas`); closures.go: calls of a function literal bound
//     once to a local name (one result, one trailing `return`, only ever called) are inlined at the statement that makes them, after
//     `&&` / `||` with a call in the right operand have been taken apart into nested `if`s (brackets' `knot(k)`); arrays `[N]T` are lists
//     of N zero values, `arr[:k]` / `arr[a:b]` of an ARRAY is `sliceTo` / `sliceFrom` (length = capacity, so the bound check is Go's);
//     `make([]T, 0, c)` is the empty slice when every `append` of the function is `v = append(v, …)` (spare capacity cannot be observed);
//     `a, b = x, y` evaluates all right-hand sides first; `for i := range xs` may write `xs` (only its length, taken once, is used);
//     a package-level constant that is one signed literal is read as that literal.
package main

import (
	"encoding/json"
	"flag"
	"fmt"
	"go/ast"
	"go/parser"
	"go/token"
	"os"
	"path/filepath"
	"regexp"
	"sort"
	"strconv"
	"strings"
)

// the functions to translate (roots; callees are pulled in): package directory, receiver type ("" = plain function), name
var table = []struct{ Dir, Recv, Func string }{
	// priority 1: integer helpers and the index algebra of the template
	{"data", "", "Product"},
	{"data", "", "dotProduct"},
	{"data", "", "Multiply"},
	{"data", "", "decrement"},
	{"data", "", "Increment"},
	{"data", "", "Argmax"},
	{"data", "", "Maximum"},
	{"data", "", "max"},
	{"data", "", "Offsets"},
	{"data", "", "IDivMod"},
	{"util/slice", "", "Uniform"},
	{"util/slice", "", "Ones"},
	{"util/slice", "", "Equal"},
	{"data", "NdArrayTypeCommon", "Len"},
	{"data", "NdArrayTypeCommon", "Shape"},
	{"data", "NdArrayTypeCommon", "NDims"},
	{"data", "NdArrayTypeCommon", "NewIndex"},
	{"data", "NdArrayTypeCommon", "Index"},
	{"data", "NdArrayTypeCommon", "Contiguous"},
	{"data", "NdArrayTypeCommon", "Len1"},
	{"data", "NdArrayTypeCommon", "Len2"},
	{"data", "NdArrayTypeCommon", "Len3"},
	{"data", "NdArrayTypeCommon", "SliceInto"},
	// priority 2: hyperslab arithmetic
	{"util/m", "", "MinInt"},
	{"util/m", "", "MaxInt"},
	{"io", "", "sliceSize"},
	{"io", "", "makeHyperslab"},
	{"conv", "", "IntsToUints"},
	{"conv", "", "UintsToInts"},
	// priority 3: util/fn
	{"util/fn", "", "brackets"},
	{"util/fn", "", "Piecewise"},
	{"util/fn", "", "FindRoot"},
	// priority 4: calendar helpers
	{"models/functions", "", "leapYear"},
	{"models/functions", "", "daysInMonth"},
	{"models/functions", "", "_dayOfYear"},
}

type unsupported struct{ msg string }

type pkg struct {
	dir     string
	name    string                   // Lean namespace component (last element of dir)
	files   map[string]*ast.File     // by file name
	funcs   map[string]*ast.FuncDecl // "Name" or "Recv.Name"
	ffile   map[string]*ast.File
	types   map[string]*ast.TypeSpec
	tfile   map[string]*ast.File
	structs map[string]*structInfo    // translated struct types
	vars    map[string]*ast.ValueSpec // package-level `var x = …` with one name and one value
	vfile   map[string]*ast.File
	consts  map[string]ast.Expr // package-level constants that are one signed literal
}

type world struct {
	repo, module string
	fset         *token.FileSet
	pkgs         map[string]*pkg
	funcs        map[string]*fn // by "dir|Recv.Name"
	order        []*fn          // completed translations, callees first
	structOrder  []*structInfo
}

func recvName(fd *ast.FuncDecl) string {
	if fd.Recv == nil || len(fd.Recv.List) != 1 {
		return ""
	}
	t := fd.Recv.List[0].Type
	if s, ok := t.(*ast.StarExpr); ok {
		t = s.X
	}
	if id, ok := t.(*ast.Ident); ok {
		return id.Name
	}
	return "?"
}

func (w *world) load(dir string) *pkg {
	if p, ok := w.pkgs[dir]; ok {
		return p
	}
	p := &pkg{dir: dir, name: dir[strings.LastIndex(dir, "/")+1:], files: map[string]*ast.File{}, funcs: map[string]*ast.FuncDecl{},
		ffile: map[string]*ast.File{}, types: map[string]*ast.TypeSpec{}, tfile: map[string]*ast.File{}, structs: map[string]*structInfo{},
		vars: map[string]*ast.ValueSpec{}, vfile: map[string]*ast.File{}}
	w.pkgs[dir] = p
	names, _ := filepath.Glob(filepath.Join(w.repo, dir, "*.go"))
	sort.Strings(names)
	for _, fn := range names {
		if strings.HasSuffix(fn, "_test.go") {
			continue
		}
		f, err := parser.ParseFile(w.fset, fn, nil, parser.SkipObjectResolution)
		if err != nil {
			continue // a file that does not parse cannot contribute a function; the Go build reports it
		}
		desugarFile(f) // if-with-init and switch statements become blocks and if-chains (desugar.go)
		for _, d := range f.Decls {
			if fd, ok := d.(*ast.FuncDecl); ok {
				elimDeadLocals(fd) // write-only locals are deleted (deadvars.go)
				func() {           // calls of local function literals are inlined (closures.go); a literal outside its subset is left alone
					defer func() {
						if r := recover(); r != nil {
							if _, ok := r.(unsupported); !ok {
								panic(r)
							}
						}
					}()
					inlineClosures(fd)
				}()
			}
		}
		p.files[filepath.Base(fn)] = f
		for _, d := range f.Decls {
			if fd, ok := d.(*ast.FuncDecl); ok {
				key := fd.Name.Name
				if r := recvName(fd); r != "" {
					key = r + "." + key
				}
				if _, dup := p.funcs[key]; !dup {
					p.funcs[key] = fd
					p.ffile[key] = f
				}
				continue
			}
			if gd, ok := d.(*ast.GenDecl); ok && gd.Tok == token.CONST {
				// package-level constants that are one (signed) literal, untyped: `const noBracket = -1`
				for _, sp := range gd.Specs {
					vs := sp.(*ast.ValueSpec)
					if len(vs.Names) == 1 && len(vs.Values) == 1 && vs.Type == nil && isUntypedConst(vs.Values[0]) {
						if p.consts == nil {
							p.consts = map[string]ast.Expr{}
						}
						if _, dup := p.consts[vs.Names[0].Name]; !dup {
							p.consts[vs.Names[0].Name] = vs.Values[0]
						}
					}
				}
			}
			if gd, ok := d.(*ast.GenDecl); ok && gd.Tok == token.VAR {
				for _, sp := range gd.Specs {
					vs := sp.(*ast.ValueSpec)
					if len(vs.Names) == 1 && len(vs.Values) == 1 {
						if _, dup := p.vars[vs.Names[0].Name]; !dup {
							p.vars[vs.Names[0].Name] = vs
							p.vfile[vs.Names[0].Name] = f
						}
					}
				}
			}
			if gd, ok := d.(*ast.GenDecl); ok && gd.Tok == token.TYPE {
				for _, s := range gd.Specs {
					ts := s.(*ast.TypeSpec)
					if _, dup := p.types[ts.Name.Name]; !dup {
						p.types[ts.Name.Name] = ts
						p.tfile[ts.Name.Name] = f
					}
				}
			}
		}
	}
	return p
}

func imports(f *ast.File) map[string]string {
	m := map[string]string{}
	for _, is := range f.Imports {
		path, _ := strconv.Unquote(is.Path.Value)
		name := path[strings.LastIndex(path, "/")+1:]
		if is.Name != nil {
			name = is.Name.Name
		}
		m[name] = path
	}
	return m
}

const prelude = `import OW.Num
import OW.Gen.Attr
/-
GENERATED by harness/cmd/owtransidx from the Go source (data/, util/slice, util/m, conv, io/hdf5_util.go, util/fn) — do not
edit; regenerated on every run. One definition per Go function, in the monad ` + "`R = Except String`" + ` (a Go panic is
` + "`.error \"<class>\"`" + `, classes as in harness/cmd/owharness/child.go). The prelude below (fixed text of the generator) is the
semantics given to the Go constructs of the subset; see the header of harness/cmd/owtransidx/main.go.
-/
set_option linter.unusedVariables false
namespace OW.Gen.Idx
open OW

abbrev R := Except String

/-- how one iteration of a loop body ended: fell through / ` + "`continue`" + ` with the carried variables, or ` + "`return r`" + ` -/
inductive Ctl (σ ρ : Type) where
  | next : σ → Ctl σ ρ
  | ret : ρ → Ctl σ ρ

/-- ` + "`xs[i]`" + ` -/
def getIdx {τ : Type} (xs : List τ) (i : Int) : R τ :=
  if i < 0 then .error "index-out-of-range"
  else match xs[i.toNat]? with
    | some v => .ok v
    | none => .error "index-out-of-range"

/-- ` + "`xs[i] = v`" + ` (Go writes in place; here the updated slice) -/
def setIdx {τ : Type} (xs : List τ) (i : Int) (v : τ) : R (List τ) :=
  if i < 0 ∨ (xs.length : Int) ≤ i then .error "index-out-of-range" else .ok (xs.set i.toNat v)

/-- ` + "`xs[k:]`" + ` -/
def sliceFrom {τ : Type} (xs : List τ) (k : Int) : R (List τ) :=
  if k < 0 ∨ (xs.length : Int) < k then .error "index-out-of-range" else .ok (xs.drop k.toNat)

/-- ` + "`arr[:k]`" + ` of an array (length = capacity) -/
def sliceTo {τ : Type} (xs : List τ) (k : Int) : R (List τ) :=
  if k < 0 ∨ (xs.length : Int) < k then .error "index-out-of-range" else .ok (xs.take k.toNat)

/-- ` + "`make([]T, n)`" + ` with the zero value ` + "`z`" + ` of T -/
def goMake {τ : Type} (n : Int) (z : τ) : R (List τ) :=
  if n < 0 then .error "alloc" else .ok (List.replicate n.toNat z)

/-- Go ` + "`/`" + ` on int: truncation toward zero, run-time panic on a zero divisor -/
def goDiv (a b : Int) : R Int := if b = 0 then .error "int-div-zero" else .ok (a.tdiv b)
/-- Go ` + "`%`" + ` on int -/
def goMod (a b : Int) : R Int := if b = 0 then .error "int-div-zero" else .ok (a.tmod b)

/-- Go ` + "`uint(x)`" + ` for an int x (64-bit): x itself when non-negative, else x + 2^64 -/
def toUint (x : Int) : Nat := if 0 ≤ x then x.toNat else (x + 18446744073709551616).toNat

/-- ` + "`xs.Get(idx)`" + ` of a 1-d array given as the list of its elements (Index(loc) = Σ loc[i]·stride[i] over len(loc)) -/
def nd1Get {τ : Type} (xs : List τ) (idx : List Int) : R τ :=
  match idx with
  | [] => getIdx xs 0
  | [k] => getIdx xs k
  | _ => .error "index-out-of-range"

/-- ` + "`for i := start; <n more iterations>; i += d { s = body i s }`" + `: the three-clause loops of the subset, with the number of
iterations computed on entry (` + "`(hi - lo).toNat`" + ` for ` + "`i < hi`" + `, …; the body changes neither ` + "`i`" + ` nor the bound) -/
def loopN {σ ρ : Type} (body : Int → σ → R (Ctl σ ρ)) (d : Int) : Nat → Int → σ → R (Ctl σ ρ)
  | 0, _, s => pure (Ctl.next s)
  | n + 1, i, s => do
    let c ← body i s
    match c with
    | Ctl.next s' => loopN body d n (i + d) s'
    | Ctl.ret r => pure (Ctl.ret r)

/-- ` + "`for i, v := range xs { s = body i v s }`" + ` (xs evaluated once, not written by the body) -/
def loopRange {τ σ ρ : Type} (body : Int → τ → σ → R (Ctl σ ρ)) : List τ → Int → σ → R (Ctl σ ρ)
  | [], _, s => pure (Ctl.next s)
  | v :: vs, i, s => do
    let c ← body i v s
    match c with
    | Ctl.next s' => loopRange body vs (i + 1) s'
    | Ctl.ret r => pure (Ctl.ret r)

`

type funcReport struct {
	Go          string   `json:"go"`   // "data.Product", "data.NdArrayTypeCommon.Index"
	Lean        string   `json:"lean"` // name in namespace OW.Gen.Idx
	File        string   `json:"file"`
	Line        int      `json:"line"`
	Status      string   `json:"status"` // ok | unsupported | missing
	Reason      string   `json:"reason,omitempty"`
	Signature   string   `json:"signature,omitempty"`
	Calls       []string `json:"calls,omitempty"`
	Assumptions []string `json:"assumptions,omitempty"`
	Root        bool     `json:"root"`
}

func main() {
	repo := flag.String("repo", "", "repository root (default $OW_REPO, then /repo)")
	flag.Parse()
	if *repo == "" {
		*repo = os.Getenv("OW_REPO")
	}
	if *repo == "" {
		*repo = "/repo"
	}
	if flag.NArg() != 1 {
		fmt.Fprintln(os.Stderr, "usage: owtransidx [-repo DIR] OUT.lean")
		os.Exit(2)
	}
	abs, err := filepath.Abs(*repo)
	if err != nil {
		fmt.Fprintln(os.Stderr, err)
		os.Exit(2)
	}
	gm, err := os.ReadFile(filepath.Join(abs, "go.mod"))
	if err != nil {
		fmt.Fprintln(os.Stderr, err)
		os.Exit(2)
	}
	m := regexp.MustCompile(`(?m)^module\s+(\S+)`).FindSubmatch(gm)
	if m == nil {
		fmt.Fprintln(os.Stderr, "no module line in go.mod")
		os.Exit(2)
	}
	w := &world{repo: abs, module: string(m[1]), fset: token.NewFileSet(), pkgs: map[string]*pkg{}, funcs: map[string]*fn{}}
	var roots []*fn
	for _, t := range table {
		f := w.ensure(t.Dir, t.Recv, t.Func)
		f.root = true
		roots = append(roots, f)
	}
	var b strings.Builder
	b.WriteString(prelude)
	emittedStruct := map[*structInfo]bool{}
	var tied []string
	for _, f := range w.order {
		if f.status != "ok" {
			continue
		}
		for _, s := range f.structs {
			if !emittedStruct[s] {
				emittedStruct[s] = true
				b.WriteString(s.text + "\n")
			}
		}
		text := f.text
		if !f.root { // a function pulled in as a callee only: the tie theorems unfold it with `simp only [gen_unfold]`, without naming it
			text = strings.Replace(text, " -/\ndef ", " -/\n@[gen_unfold] def ", 1)
		}
		b.WriteString(text + "\n")
		tied = append(tied, strconv.Quote(f.leanName))
	}
	var reps []funcReport
	seen := map[*fn]bool{}
	add := func(f *fn) {
		if seen[f] {
			return
		}
		seen[f] = true
		r := funcReport{Go: f.goName, Lean: f.leanName, File: f.relFile, Line: f.line, Status: f.status, Reason: f.reason,
			Signature: f.signature, Calls: f.callNames(), Assumptions: f.assumptions, Root: f.root}
		reps = append(reps, r)
		if f.status != "ok" {
			fmt.Fprintf(&b, "-- %s (%s:%d): %s: %s\n\n", f.goName, f.relFile, f.line, f.status, f.reason)
		}
	}
	for _, f := range roots {
		add(f)
	}
	for _, f := range w.order {
		add(f)
	}
	fmt.Fprintf(&b, "/-- the Go functions translated in this run -/\ndef translated : List String := [%s]\n\nend OW.Gen.Idx\n", strings.Join(tied, ", "))
	out := flag.Arg(0)
	old, _ := os.ReadFile(out)
	changed := string(old) != b.String()
	if changed {
		tmp := fmt.Sprintf("%s.%d.tmp", out, os.Getpid())
		if err := os.WriteFile(tmp, []byte(b.String()), 0o644); err != nil {
			fmt.Fprintln(os.Stderr, err)
			os.Exit(2)
		}
		if err := os.Rename(tmp, out); err != nil {
			fmt.Fprintln(os.Stderr, err)
			os.Exit(2)
		}
	}
	js, _ := json.MarshalIndent(map[string]interface{}{"repo": abs, "out": out, "changed": changed, "functions": reps}, "", " ")
	fmt.Println(string(js))
}
