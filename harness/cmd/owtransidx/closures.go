package main

import (
	"fmt"
	"go/ast"
	"go/token"
)

// ---- CALLS OF A LOCAL FUNCTION LITERAL ARE INLINED (work package R3), once per file as it is loaded. A function literal that is
// bound once to a local name (`f := func(k int) float64 { S…; return E }`: exactly one result, a single `return` as the last
// statement, no function literal inside), never assigned again and only ever CALLED, is a block of statements with a value. A
// statement whose controlling expression calls it —
//
//	if C[f(a)] {…}      v := E[f(a)]      v = E[f(a)]      return E[f(a)]
//
// — is rewritten to `{ k' := a; S'…; t := E'; <the statement with t for the call> }` (parameters and locals of the literal renamed
// apart), after `&&` / `||` with a call in the right operand have been taken apart into the nested `if`s that Go's short-circuit
// evaluation defines. This is Go's call semantics when (checked) every variable the literal captures is declared exactly once in
// the enclosing function (the name means the same variable at the definition and at the call), the calls of one statement are
// hoisted in lexical left-to-right order, and no other operand of the statement mentions a variable the literal assigns. The
// definition of the literal is then dropped. What does not fit is left alone (the translator refuses function literals).

type closureInfo struct {
	name   string
	lit    *ast.FuncLit
	body   []ast.Stmt // without the final return
	ret    ast.Expr
	locals map[string]bool // parameters and variables declared in the body
	writes map[string]bool // captured variables the body assigns
}

func inlineClosures(fd *ast.FuncDecl) {
	if fd.Body == nil {
		return
	}
	// candidates: name := func…, defined once
	cands := map[string]*closureInfo{}
	declCount := map[string]int{}
	ast.Inspect(fd.Body, func(n ast.Node) bool {
		switch s := n.(type) {
		case *ast.AssignStmt:
			if s.Tok == token.DEFINE {
				for i, l := range s.Lhs {
					if id, ok := l.(*ast.Ident); ok {
						declCount[id.Name]++
						if len(s.Lhs) == 1 && len(s.Rhs) == 1 {
							if lit, ok := s.Rhs[i].(*ast.FuncLit); ok {
								cands[id.Name] = &closureInfo{name: id.Name, lit: lit}
							}
						}
					}
				}
			}
		case *ast.ValueSpec:
			for _, id := range s.Names {
				declCount[id.Name]++
			}
		case *ast.RangeStmt:
			for _, e := range []ast.Expr{s.Key, s.Value} {
				if id, ok := e.(*ast.Ident); ok && s.Tok == token.DEFINE {
					declCount[id.Name]++
				}
			}
		}
		return true
	})
	for _, fl := range []*ast.FieldList{fd.Recv, fd.Type.Params, fd.Type.Results} {
		if fl != nil {
			for _, f := range fl.List {
				for _, n := range f.Names {
					declCount[n.Name]++
				}
			}
		}
	}
	n := 0
	for name, c := range cands {
		if declCount[name] != 1 || !closureShape(c) || !onlyCalled(fd.Body, c) {
			delete(cands, name)
			continue
		}
		// every captured variable is declared exactly once in the function (the literal's own declarations counted)
		ok := true
		ast.Inspect(c.lit.Body, func(x ast.Node) bool {
			if id, isId := x.(*ast.Ident); isId && !c.locals[id.Name] {
				if dc, known := declCount[id.Name]; known && dc != 1 {
					ok = false
				}
			}
			return ok
		})
		for l := range c.locals {
			if declCount[l] > 1 { // a local of the literal that is also a name of the enclosing function: renamed apart below, fine
				continue
			}
		}
		if !ok {
			delete(cands, name)
		}
	}
	if len(cands) == 0 {
		return
	}
	in := &inliner{cands: cands, n: &n}
	if !in.block(fd.Body) {
		return // some call stands where it cannot be hoisted: nothing is changed (the block method works on a copy of the lists)
	}
	in.commit()
	// drop the definitions
	var strip func(list []ast.Stmt) []ast.Stmt
	strip = func(list []ast.Stmt) []ast.Stmt {
		var out []ast.Stmt
		for _, s := range list {
			if as, ok := s.(*ast.AssignStmt); ok && as.Tok == token.DEFINE && len(as.Lhs) == 1 && len(as.Rhs) == 1 {
				if id, ok := as.Lhs[0].(*ast.Ident); ok && cands[id.Name] != nil {
					if _, isLit := as.Rhs[0].(*ast.FuncLit); isLit {
						continue
					}
				}
			}
			out = append(out, s)
		}
		return out
	}
	var walk func(s ast.Stmt)
	walk = func(s ast.Stmt) {
		switch s := s.(type) {
		case *ast.BlockStmt:
			s.List = strip(s.List)
			for _, x := range s.List {
				walk(x)
			}
		case *ast.IfStmt:
			walk(s.Body)
			if s.Else != nil {
				walk(s.Else)
			}
		case *ast.ForStmt:
			walk(s.Body)
		case *ast.RangeStmt:
			walk(s.Body)
		}
	}
	walk(fd.Body)
}

// one result, parameters named, body = simple statements then one `return E`
func closureShape(c *closureInfo) bool {
	t := c.lit.Type
	if t.Results == nil || len(t.Results.List) != 1 || len(t.Results.List[0].Names) != 0 || t.TypeParams != nil {
		return false
	}
	list := c.lit.Body.List
	if len(list) == 0 {
		return false
	}
	ret, ok := list[len(list)-1].(*ast.ReturnStmt)
	if !ok || len(ret.Results) != 1 {
		return false
	}
	c.body, c.ret = list[:len(list)-1], ret.Results[0]
	c.locals, c.writes = map[string]bool{}, map[string]bool{}
	for _, f := range t.Params.List {
		if len(f.Names) == 0 {
			return false
		}
		for _, n := range f.Names {
			if n.Name == "_" {
				return false
			}
			c.locals[n.Name] = true
		}
	}
	good := true
	for _, s := range c.body {
		ast.Inspect(s, func(x ast.Node) bool {
			switch y := x.(type) {
			case *ast.ReturnStmt, *ast.FuncLit, *ast.BranchStmt, *ast.GoStmt, *ast.DeferStmt, *ast.LabeledStmt:
				good = false
			case *ast.AssignStmt:
				for _, l := range y.Lhs {
					if id, ok := l.(*ast.Ident); ok && y.Tok == token.DEFINE {
						c.locals[id.Name] = true
					}
				}
			case *ast.ValueSpec:
				for _, id := range y.Names {
					c.locals[id.Name] = true
				}
			case *ast.RangeStmt:
				for _, e := range []ast.Expr{y.Key, y.Value} {
					if id, ok := e.(*ast.Ident); ok && y.Tok == token.DEFINE {
						c.locals[id.Name] = true
					}
				}
			}
			return good
		})
	}
	ast.Inspect(c.ret, func(x ast.Node) bool {
		if _, isLit := x.(*ast.FuncLit); isLit {
			good = false
		}
		return good
	})
	if !good {
		return false
	}
	// captured variables the body assigns (by name, by element, by field)
	for _, s := range c.body {
		ast.Inspect(s, func(x ast.Node) bool {
			note := func(e ast.Expr) {
				for {
					switch y := unparenExpr(e).(type) {
					case *ast.IndexExpr:
						e = y.X
						continue
					case *ast.SelectorExpr:
						e = y.X
						continue
					case *ast.StarExpr:
						e = y.X
						continue
					case *ast.Ident:
						if !c.locals[y.Name] {
							c.writes[y.Name] = true
						}
					}
					return
				}
			}
			switch y := x.(type) {
			case *ast.AssignStmt:
				for _, l := range y.Lhs {
					note(l)
				}
			case *ast.IncDecStmt:
				note(y.X)
			}
			return true
		})
	}
	return true
}

// the name occurs only as its definition and as the callee of calls
func onlyCalled(body *ast.BlockStmt, c *closureInfo) bool {
	callee := map[*ast.Ident]bool{}
	ast.Inspect(body, func(x ast.Node) bool {
		if call, ok := x.(*ast.CallExpr); ok {
			if id, ok := call.Fun.(*ast.Ident); ok && id.Name == c.name && len(call.Args) == countParams(c.lit) && !call.Ellipsis.IsValid() {
				callee[id] = true
			}
		}
		return true
	})
	ok, defs := true, 0
	ast.Inspect(body, func(x ast.Node) bool {
		if as, isAs := x.(*ast.AssignStmt); isAs && as.Tok == token.DEFINE && len(as.Lhs) == 1 {
			if id, isId := as.Lhs[0].(*ast.Ident); isId && id.Name == c.name {
				defs++
				callee[id] = true
			}
		}
		if id, isId := x.(*ast.Ident); isId && id.Name == c.name && !callee[id] {
			ok = false
		}
		return ok
	})
	// no call inside the literal itself, nor inside another function literal
	ast.Inspect(c.lit, func(x ast.Node) bool {
		if id, isId := x.(*ast.Ident); isId && id.Name == c.name {
			ok = false
		}
		return ok
	})
	return ok && defs == 1
}

func countParams(lit *ast.FuncLit) int {
	n := 0
	for _, f := range lit.Type.Params.List {
		n += len(f.Names)
	}
	return n
}

type inliner struct {
	cands   map[string]*closureInfo
	n       *int
	pending []func()
}

func (in *inliner) commit() {
	for _, f := range in.pending {
		f()
	}
}

// the calls of candidate literals in an expression, in lexical order; ok = false when one stands under && / || (right operand),
// inside a function literal, or twice the same … (the caller then gives up)
func (in *inliner) calls(e ast.Expr) (out []*ast.CallExpr, ok bool) {
	ok = true
	var walk func(e ast.Node, guarded bool)
	walk = func(e ast.Node, guarded bool) {
		ast.Inspect(e, func(x ast.Node) bool {
			switch y := x.(type) {
			case *ast.FuncLit:
				if x != e {
					for range in.callsIn(y) {
						ok = false
					}
					return false
				}
			case *ast.BinaryExpr:
				if y.Op == token.LAND || y.Op == token.LOR {
					walk(y.X, guarded)
					walk(y.Y, true)
					return false
				}
			case *ast.CallExpr:
				if id, isId := y.Fun.(*ast.Ident); isId && in.cands[id.Name] != nil {
					if guarded {
						ok = false
					}
					for _, a := range y.Args {
						walk(a, guarded)
					}
					out = append(out, y) // arguments first (their calls are hoisted before this one)
					return false
				}
			}
			return true
		})
	}
	walk(e, false)
	return
}

func (in *inliner) callsIn(n ast.Node) []*ast.CallExpr {
	var out []*ast.CallExpr
	ast.Inspect(n, func(x ast.Node) bool {
		if c, ok := x.(*ast.CallExpr); ok {
			if id, isId := c.Fun.(*ast.Ident); isId && in.cands[id.Name] != nil {
				out = append(out, c)
			}
		}
		return true
	})
	return out
}

// `a || b` / `a && b` whose right operand calls a literal: the nested ifs of the short-circuit evaluation
func (in *inliner) splitCond(s *ast.IfStmt) bool {
	be, ok := unparenExpr(s.Cond).(*ast.BinaryExpr)
	if !ok || (be.Op != token.LAND && be.Op != token.LOR) || len(in.callsIn(be.Y)) == 0 {
		return false
	}
	var elseBlk *ast.BlockStmt
	if s.Else != nil {
		if eb, isBlk := s.Else.(*ast.BlockStmt); isBlk {
			elseBlk = eb
		} else {
			elseBlk = &ast.BlockStmt{Lbrace: s.Else.Pos(), List: []ast.Stmt{s.Else}, Rbrace: s.Else.End()}
		}
	}
	inner := &ast.IfStmt{If: be.Y.Pos(), Cond: be.Y, Body: s.Body}
	if elseBlk != nil {
		inner.Else = elseBlk
	}
	innerBlk := &ast.BlockStmt{Lbrace: s.Body.Lbrace, List: []ast.Stmt{inner}, Rbrace: s.Body.Rbrace}
	s.Cond = be.X
	if be.Op == token.LAND {
		s.Body = innerBlk
		if elseBlk != nil {
			s.Else = elseBlk
		}
	} else {
		s.Else = innerBlk
	}
	return true
}

// rewrites the statements of a block in place (through `pending`, applied only when the whole function could be handled)
func (in *inliner) block(b *ast.BlockStmt) bool {
	if b == nil {
		return true
	}
	list := append([]ast.Stmt{}, b.List...)
	for i, s := range list {
		ns, ok := in.stmt(s)
		if !ok {
			return false
		}
		list[i] = ns
	}
	in.pending = append(in.pending, func() { b.List = list })
	return true
}

func (in *inliner) stmt(s ast.Stmt) (ast.Stmt, bool) {
	hoist := func(e *ast.Expr, others ...ast.Expr) ([]ast.Stmt, bool) {
		cs, ok := in.calls(*e)
		if !ok {
			return nil, false
		}
		var pre []ast.Stmt
		for _, c := range cs {
			ci := in.cands[c.Fun.(*ast.Ident).Name]
			// no other operand of the statement may mention what the literal assigns
			rest := append([]ast.Expr{*e}, others...)
			for _, o := range rest {
				bad := false
				ast.Inspect(o, func(x ast.Node) bool {
					if x == ast.Node(c) {
						return false
					}
					if id, isId := x.(*ast.Ident); isId && ci.writes[id.Name] {
						bad = true
					}
					return !bad
				})
				if bad {
					return nil, false
				}
			}
			*in.n++
			suffix := fmt.Sprintf("_c%d", *in.n)
			ren := func(n ast.Node) ast.Node { return renameCopy(n, ci.locals, suffix) }
			i := 0
			for _, f := range ci.lit.Type.Params.List {
				for _, pn := range f.Names {
					pre = append(pre, &ast.AssignStmt{Lhs: []ast.Expr{&ast.Ident{NamePos: c.Pos(), Name: pn.Name + suffix}}, TokPos: c.Pos(), Tok: token.DEFINE,
						Rhs: []ast.Expr{c.Args[i]}})
					i++
				}
			}
			for _, bs := range ci.body {
				pre = append(pre, ren(bs).(ast.Stmt))
			}
			tmp := &ast.Ident{NamePos: c.Pos(), Name: ci.name + "Value" + suffix}
			pre = append(pre, &ast.AssignStmt{Lhs: []ast.Expr{tmp}, TokPos: c.Pos(), Tok: token.DEFINE, Rhs: []ast.Expr{ren(ci.ret).(ast.Expr)}})
			*e = replaceCall(*e, c, &ast.Ident{NamePos: c.Pos(), Name: tmp.Name})
		}
		return pre, true
	}
	wrap := func(pre []ast.Stmt, s ast.Stmt) ast.Stmt {
		if len(pre) == 0 {
			return s
		}
		return &ast.BlockStmt{Lbrace: s.Pos(), List: append(pre, s), Rbrace: s.End()}
	}
	switch s := s.(type) {
	case *ast.BlockStmt:
		return s, in.block(s)
	case *ast.IfStmt:
		if s.Init != nil {
			return s, len(in.callsIn(s)) == 0
		}
		c := *s // work on a copy: nothing is changed unless the whole function can be handled
		for in.splitCond(&c) {
		}
		pre, ok := hoist(&c.Cond)
		if !ok {
			return s, false
		}
		if !in.block(c.Body) {
			return s, false
		}
		if c.Else != nil {
			ne, ok := in.stmt(c.Else)
			if !ok {
				return s, false
			}
			c.Else = ne
		}
		return wrap(pre, &c), true
	case *ast.ForStmt:
		if len(in.callsIn(s)) == 0 {
			return s, true
		}
		for _, part := range []ast.Node{s.Init, s.Cond, s.Post} {
			if part != nil && len(in.callsIn(part)) > 0 {
				return s, false
			}
		}
		return s, in.block(s.Body)
	case *ast.RangeStmt:
		if len(in.callsIn(s.X)) > 0 {
			return s, false
		}
		return s, in.block(s.Body)
	case *ast.AssignStmt:
		if len(in.callsIn(s)) == 0 {
			return s, true
		}
		if len(s.Rhs) != 1 {
			return s, false
		}
		for _, l := range s.Lhs {
			if _, isId := l.(*ast.Ident); !isId {
				return s, false
			}
		}
		if _, isLit := s.Rhs[0].(*ast.FuncLit); isLit {
			return s, len(in.callsIn(s.Rhs[0])) == 0
		}
		c := *s
		c.Rhs = []ast.Expr{s.Rhs[0]}
		pre, ok := hoist(&c.Rhs[0])
		if !ok {
			return s, false
		}
		if c.Tok == token.DEFINE && len(pre) > 0 {
			// the new variable must stay in the enclosing scope: the hoisted statements are spliced, not wrapped — handled by the
			// caller only for blocks; here the statement list is returned as a block only for plain assignments
			return s, false
		}
		return wrap(pre, &c), true
	case *ast.ReturnStmt:
		if len(in.callsIn(s)) == 0 {
			return s, true
		}
		c := *s
		c.Results = append([]ast.Expr{}, s.Results...)
		var pre []ast.Stmt
		for i := range c.Results {
			var others []ast.Expr
			others = append(others, c.Results[i+1:]...)
			p, ok := hoist(&c.Results[i], others...)
			if !ok {
				return s, false
			}
			pre = append(pre, p...)
		}
		return wrap(pre, &c), true
	default:
		return s, len(in.callsIn(s)) == 0
	}
}

// a deep copy of a statement / expression of the literal with its locals renamed apart
func renameCopy(n ast.Node, locals map[string]bool, suffix string) ast.Node {
	var ce func(e ast.Expr) ast.Expr
	var cs func(s ast.Stmt) ast.Stmt
	ce = func(e ast.Expr) ast.Expr {
		switch x := e.(type) {
		case nil:
			return nil
		case *ast.Ident:
			if locals[x.Name] {
				return &ast.Ident{NamePos: x.NamePos, Name: x.Name + suffix}
			}
			return &ast.Ident{NamePos: x.NamePos, Name: x.Name}
		case *ast.BasicLit:
			c := *x
			return &c
		case *ast.ParenExpr:
			return &ast.ParenExpr{Lparen: x.Lparen, X: ce(x.X), Rparen: x.Rparen}
		case *ast.UnaryExpr:
			return &ast.UnaryExpr{OpPos: x.OpPos, Op: x.Op, X: ce(x.X)}
		case *ast.BinaryExpr:
			return &ast.BinaryExpr{X: ce(x.X), OpPos: x.OpPos, Op: x.Op, Y: ce(x.Y)}
		case *ast.IndexExpr:
			return &ast.IndexExpr{X: ce(x.X), Lbrack: x.Lbrack, Index: ce(x.Index), Rbrack: x.Rbrack}
		case *ast.SelectorExpr:
			return &ast.SelectorExpr{X: ce(x.X), Sel: &ast.Ident{NamePos: x.Sel.NamePos, Name: x.Sel.Name}}
		case *ast.CallExpr:
			c := &ast.CallExpr{Fun: ce(x.Fun), Lparen: x.Lparen, Ellipsis: x.Ellipsis, Rparen: x.Rparen}
			for _, a := range x.Args {
				c.Args = append(c.Args, ce(a))
			}
			return c
		case *ast.SliceExpr:
			return &ast.SliceExpr{X: ce(x.X), Lbrack: x.Lbrack, Low: ce(x.Low), High: ce(x.High), Max: ce(x.Max), Slice3: x.Slice3, Rbrack: x.Rbrack}
		case *ast.StarExpr:
			return &ast.StarExpr{Star: x.Star, X: ce(x.X)}
		case *ast.CompositeLit:
			c := &ast.CompositeLit{Type: x.Type, Lbrace: x.Lbrace, Rbrace: x.Rbrace}
			for _, el := range x.Elts {
				c.Elts = append(c.Elts, ce(el))
			}
			return c
		case *ast.KeyValueExpr:
			return &ast.KeyValueExpr{Key: x.Key, Colon: x.Colon, Value: ce(x.Value)}
		}
		panic(unsupported{"expression form inside a function literal that is inlined"})
	}
	cs = func(s ast.Stmt) ast.Stmt {
		switch x := s.(type) {
		case *ast.AssignStmt:
			c := &ast.AssignStmt{TokPos: x.TokPos, Tok: x.Tok}
			for _, l := range x.Lhs {
				c.Lhs = append(c.Lhs, ce(l))
			}
			for _, r := range x.Rhs {
				c.Rhs = append(c.Rhs, ce(r))
			}
			return c
		case *ast.IncDecStmt:
			return &ast.IncDecStmt{X: ce(x.X), TokPos: x.TokPos, Tok: x.Tok}
		case *ast.ExprStmt:
			return &ast.ExprStmt{X: ce(x.X)}
		case *ast.BlockStmt:
			c := &ast.BlockStmt{Lbrace: x.Lbrace, Rbrace: x.Rbrace}
			for _, y := range x.List {
				c.List = append(c.List, cs(y))
			}
			return c
		case *ast.IfStmt:
			c := &ast.IfStmt{If: x.If, Cond: ce(x.Cond), Body: cs(x.Body).(*ast.BlockStmt)}
			if x.Init != nil {
				c.Init = cs(x.Init)
			}
			if x.Else != nil {
				c.Else = cs(x.Else)
			}
			return c
		}
		panic(unsupported{"statement form inside a function literal that is inlined"})
	}
	switch x := n.(type) {
	case ast.Expr:
		return ce(x)
	case ast.Stmt:
		return cs(x)
	}
	return n
}

// e with the call node replaced by the identifier (a copy along the path)
func replaceCall(e ast.Expr, c *ast.CallExpr, by *ast.Ident) ast.Expr {
	if e == ast.Expr(c) {
		return by
	}
	switch x := e.(type) {
	case *ast.ParenExpr:
		return &ast.ParenExpr{Lparen: x.Lparen, X: replaceCall(x.X, c, by), Rparen: x.Rparen}
	case *ast.UnaryExpr:
		return &ast.UnaryExpr{OpPos: x.OpPos, Op: x.Op, X: replaceCall(x.X, c, by)}
	case *ast.BinaryExpr:
		return &ast.BinaryExpr{X: replaceCall(x.X, c, by), OpPos: x.OpPos, Op: x.Op, Y: replaceCall(x.Y, c, by)}
	case *ast.IndexExpr:
		return &ast.IndexExpr{X: replaceCall(x.X, c, by), Lbrack: x.Lbrack, Index: replaceCall(x.Index, c, by), Rbrack: x.Rbrack}
	case *ast.CallExpr:
		n := &ast.CallExpr{Fun: x.Fun, Lparen: x.Lparen, Ellipsis: x.Ellipsis, Rparen: x.Rparen}
		for _, a := range x.Args {
			n.Args = append(n.Args, replaceCall(a, c, by))
		}
		return n
	}
	return e
}
