package main

import (
	"fmt"
	"go/ast"
	"go/token"
	"sort"
	"strings"
)

// `for i := a; i > b; i-- { … }` / `i >= b` ↦ `forRangeDown a b body carried` (i = a, a-1, …, b+1).
//
// ---- `for i := a; i < b; i++ { … }` / `i <= b` with int bounds (any mode): `forRange a b body carried`, where `carried`
// are the outer variables the body assigns (declaration order) and `body : Int → carried → carried` (`forRangeO` and
// `Option carried` when the body may panic). The bounds are evaluated once: the translation checks that the body assigns
// neither the loop variable nor anything the upper bound reads. No break / continue / return in the body.

// the identifiers an expression reads (not those whose length only is read: `xs.Len1()`, `len(xs)` — element
// assignments keep the length)
func identsOf(e ast.Node) map[string]bool {
	m := map[string]bool{}
	ast.Inspect(e, func(x ast.Node) bool {
		if c, ok := x.(*ast.CallExpr); ok {
			if s, ok := c.Fun.(*ast.SelectorExpr); ok && s.Sel.Name == "Len1" && len(c.Args) == 0 {
				if _, ok := s.X.(*ast.Ident); ok {
					return false
				}
			}
			if isIdent(c.Fun, "len") && len(c.Args) == 1 {
				if _, ok := c.Args[0].(*ast.Ident); ok {
					return false
				}
			}
		}
		if id, ok := x.(*ast.Ident); ok {
			m[id.Name] = true
		}
		return true
	})
	return m
}

// the header `for i := a; i > b; i--` (or `>=`): the loop variable runs downward from a
func downHeader(s *ast.ForStmt) (iv *ast.Ident, from, to ast.Expr, incl, ok bool) {
	init, _ := s.Init.(*ast.AssignStmt)
	cond, _ := s.Cond.(*ast.BinaryExpr)
	post, _ := s.Post.(*ast.IncDecStmt)
	if init == nil || cond == nil || post == nil || init.Tok != token.DEFINE || len(init.Lhs) != 1 || len(init.Rhs) != 1 ||
		(cond.Op != token.GTR && cond.Op != token.GEQ) || post.Tok != token.DEC {
		return
	}
	iv, _ = init.Lhs[0].(*ast.Ident)
	c, _ := cond.X.(*ast.Ident)
	p, _ := post.X.(*ast.Ident)
	if iv == nil || c == nil || p == nil || c.Name != iv.Name || p.Name != iv.Name || iv.Name == "_" {
		return
	}
	return iv, init.Rhs[0], cond.Y, cond.Op == token.GEQ, true
}

// the header `for i := a; i < b; i++` (or `<=`): loop variable, bounds, inclusive
func rangeHeader(s *ast.ForStmt) (iv *ast.Ident, lo, hi ast.Expr, incl, ok bool) {
	init, _ := s.Init.(*ast.AssignStmt)
	cond, _ := s.Cond.(*ast.BinaryExpr)
	post, _ := s.Post.(*ast.IncDecStmt)
	if init == nil || cond == nil || post == nil || init.Tok != token.DEFINE || len(init.Lhs) != 1 || len(init.Rhs) != 1 ||
		(cond.Op != token.LSS && cond.Op != token.LEQ) || post.Tok != token.INC {
		return
	}
	iv, _ = init.Lhs[0].(*ast.Ident)
	c, _ := cond.X.(*ast.Ident)
	p, _ := post.X.(*ast.Ident)
	hi = cond.Y
	if sum, ok := unparen(cond.X).(*ast.BinaryExpr); ok && c == nil && iv != nil && sum.Op == token.ADD {
		// `i + e < b` is `i < b - e` (on the integers: Go's int overflow is outside the model); `e` must not mention i
		var other ast.Expr
		if isIdent(unparen(sum.X), iv.Name) {
			c, other = unparen(sum.X).(*ast.Ident), sum.Y
		} else if isIdent(unparen(sum.Y), iv.Name) {
			c, other = unparen(sum.Y).(*ast.Ident), sum.X
		}
		if c != nil && !identsOfAll(other)[iv.Name] && exprText(other) != "" {
			hi = &ast.BinaryExpr{X: cond.Y, OpPos: cond.OpPos, Op: token.SUB, Y: &ast.ParenExpr{Lparen: other.Pos(), X: other, Rparen: other.End()}}
		} else {
			c = nil
		}
	}
	if iv == nil || c == nil || p == nil || c.Name != iv.Name || p.Name != iv.Name || iv.Name == "_" {
		return
	}
	return iv, init.Rhs[0], hi, cond.Op == token.LEQ, true
}

func (k *kernel) rangeFor(s *ast.ForStmt, ind int) {
	iv, loE, hiE, incl, ok := rangeHeader(s)
	down := false
	if !ok {
		iv, loE, hiE, incl, ok = downHeader(s) // loE: the start (upper end), hiE: the bound below
		down = true
	}
	if !ok {
		k.fail(s, "loop header other than `for i := a; i < b; i++` / `i <= b` / `for i := a; i > b; i--` / `i >= b`")
	}
	lo, lop := k.intExpr(loE)
	hi, hip := k.intExpr(hiE)
	if incl && !down {
		hi, hip = paren(hi, hip, pAdd)+" + 1", pAdd
	}
	if incl && down {
		hi, hip = paren(hi, hip, pAdd)+" - 1", pAdd
	}
	bad := false
	ast.Inspect(s.Body, func(x ast.Node) bool {
		switch b := x.(type) {
		case *ast.ReturnStmt:
			bad = true
		case *ast.BranchStmt:
			bad = true
		case *ast.FuncLit:
			return false
		case *ast.ForStmt:
			_ = b
		}
		return true
	})
	if bad {
		k.fail(s, "loop over an int range whose body returns, breaks or continues")
	}
	partial := k.nodePartial(s.Body)
	if partial && !k.partial {
		k.fail(s, "internal: a loop body that may panic in a function that may not")
	}
	if len(k.frames) > k.frameBase && partial {
		k.fail(s, "loop whose body may panic inside a branch that is merged")
	}
	// table entry Lift: the body of a loop in the time loop becomes a definition of its own (`loopBodyN caps… i carried`)
	lift := k.liftLoops && k.mode == mKernel && k.inLoop && !partial && (k.clo == nil || k.clo.loopBody)
	f := &frame{depth: k.sc.depth, seen: map[*variable]bool{}}
	savedFrames := k.frames
	k.frames = append(k.frames, f)
	savedBase, savedOut, savedPartial, savedClo, savedFd := k.frameBase, k.out, k.partial, k.clo, k.fdepth
	k.frameBase = len(k.frames)
	k.partial = partial
	var cb *closureDef
	bodyInd := ind + 2
	if lift {
		cb = &closureDef{capSeen: map[*variable]bool{}, fdepth: k.fdepth + 1, outer: k.clo, loopBody: true}
		k.clo, k.fdepth = cb, cb.fdepth
		k.frames = []*frame{f}
		k.frameBase = 1
		bodyInd = 1
	}
	var body strings.Builder
	k.out = &body
	outer := k.sc
	k.push()
	lv := k.declare(iv, vIntVar)
	k.block(s.Body, bodyInd, func(ind int) {
		k.countLeaf()
		k.line(ind, "%s", nextMark)
	})
	k.sc = outer
	k.out, k.partial, k.clo, k.fdepth = savedOut, savedPartial, savedClo, savedFd
	k.frameBase = savedBase
	k.frames = savedFrames
	if lv.everAssigned || assignsName(s.Body, iv.Name) {
		k.fail(s, "loop over an int range whose body assigns the loop variable %s", iv.Name)
	}
	// the bounds are evaluated once: nothing the upper bound reads, and not the loop variable, is assigned in the body
	reads := identsOf(hiE)
	for _, v := range f.order {
		if reads[v.name] {
			k.fail(s, "loop whose body assigns %s, which the loop condition reads", v.name)
		}
	}
	if len(f.order) == 0 && !partial {
		return // the loop assigns nothing that outlives it
	}
	for _, v := range f.order {
		k.assigned(v)
	}
	sort.SliceStable(f.order, func(i, j int) bool { return declLess(f.order[i], f.order[j]) })
	var names, types []string
	for _, v := range f.order {
		names = append(names, v.lean)
		types = append(types, v.typ())
	}
	tuple, typ := tupleOfNames(names), tupleTypeOf(types)
	k.nloop++
	bodyName, loopName := k.fresh(fmt.Sprintf("body%d", k.nloop)), k.fresh(fmt.Sprintf("loop%d", k.nloop))
	carried := k.fresh("carried")
	atom := func(t string) string { return paren(t, map[bool]int{true: pAtom, false: 0}[len(types) <= 1], pAtom) }
	ret := typ
	if partial {
		ret = "Option " + atom(typ)
	}
	if lift {
		isCarried := map[*variable]bool{}
		for _, v := range f.order {
			isCarried[v] = true
		}
		var caps []*variable
		for _, v := range cb.caps {
			if !isCarried[v] {
				caps = append(caps, v)
			}
		}
		sort.SliceStable(caps, func(i, j int) bool { return declLess(caps[i], caps[j]) })
		name := k.liftName(fmt.Sprintf("loopBody%d", k.nloop))
		rel, line := k.relPos(s)
		abs, absArgs := "", ""
		for _, a := range cb.absFns {
			abs += fmt.Sprintf(" (%s : %s)", a.lean, a.typ)
			absArgs += " " + a.lean
			k.noteAbs(a)
		}
		var d strings.Builder
		fmt.Fprintf(&d, "/-- %s:%d  the body of the loop over `%s`: index, carried values ↦ new carried values -/\n", rel, line, iv.Name)
		fmt.Fprintf(&d, "def %s {α : Type} [Num α]%s%s (%s : Int) (%s : %s) : %s :=\n", name, abs, binderVs(caps), lv.lean, carried, typ, typ)
		for i, v := range f.order {
			fmt.Fprintf(&d, "  let %s : %s := %s%s\n", v.lean, v.typ(), carried, proj(i, len(f.order)))
		}
		d.WriteString(strings.Replace(body.String(), nextMark, tuple, -1))
		h := &helperDef{key: fmt.Sprintf("loop@%d", s.Pos()), lean: name, text: d.String(), rel: rel, line: line}
		k.hs.order = append(k.hs.order, h)
		k.hs.by[h.key] = h
		call := name + absArgs
		for _, v := range caps {
			k.use(v)
			call += " " + v.lean
		}
		comb := "forRange"
		if down {
			comb = "forRangeDown"
		}
		k.line(ind, "let %s : %s := %s %s %s %s %s", loopName, typ, comb, paren(lo, lop, pAtom), paren(hi, hip, pAtom),
			paren(call, map[bool]int{true: pAtom, false: pApp}[call == name], pAtom), tuple)
		for i, v := range f.order {
			k.line(ind, "let %s : %s := %s%s", v.lean, v.typ(), loopName, proj(i, len(f.order)))
		}
		return
	}
	k.line(ind, "let %s : Int → %s → %s := fun %s %s =>", bodyName, atom(typ), ret, lv.lean, carried)
	for i, v := range f.order {
		k.line(ind+2, "let %s : %s := %s%s", v.lean, v.typ(), carried, proj(i, len(f.order)))
	}
	next := tuple
	if partial {
		next = "some " + paren(tuple, map[bool]int{true: pAtom, false: 0}[strings.HasPrefix(tuple, "(") || len(names) == 1], pAtom)
	}
	k.out.WriteString(strings.Replace(body.String(), nextMark, next, -1))
	comb := "forRange"
	if partial {
		comb = "forRangeO"
	}
	if down {
		if partial {
			k.fail(s, "downward loop whose body may panic")
		}
		comb = "forRangeDown"
	}
	call := fmt.Sprintf("%s %s %s %s %s", comb, paren(lo, lop, pAtom), paren(hi, hip, pAtom), bodyName, tuple)
	if !partial {
		k.line(ind, "let %s : %s := %s", loopName, typ, call)
		for i, v := range f.order {
			k.line(ind, "let %s : %s := %s%s", v.lean, v.typ(), loopName, proj(i, len(f.order)))
		}
		return
	}
	// the rest of the enclosing block continues inside the `some` arm (the caller renders it one level deeper)
	k.line(ind, "match %s with", call)
	k.line(ind, "| none => none")
	k.countLeaf()
	k.line(ind, "| some %s =>", loopName)
	for i, v := range f.order {
		k.line(ind+1, "let %s : %s := %s%s", v.lean, v.typ(), loopName, proj(i, len(f.order)))
	}
	k.deeper = true
}

// ---- `for _, v := range xs { … }` over a []float64: `List.foldl body carried xs` (carried = the outer variables the body
// assigns; the key must be blank; no break / continue / return; the body may not panic)
func (k *kernel) rangeOver(s *ast.RangeStmt, ind int) {
	if s.Tok != token.DEFINE || s.Value == nil {
		k.fail(s, "range statement other than `for _, v := range xs`")
	}
	if key, ok := s.Key.(*ast.Ident); !ok || key.Name != "_" {
		k.fail(s, "range statement that uses the index")
	}
	val, ok := s.Value.(*ast.Ident)
	if !ok || val.Name == "_" {
		k.fail(s, "range statement without a value variable")
	}
	xs, xp, kind := k.expr(s.X)
	if kind != 'l' {
		k.fail(s, "range over something other than a []float64")
	}
	bad := false
	ast.Inspect(s.Body, func(x ast.Node) bool {
		switch x.(type) {
		case *ast.ReturnStmt, *ast.BranchStmt:
			bad = true
		case *ast.FuncLit:
			return false
		}
		return true
	})
	if bad || k.nodePartial(s.Body) {
		k.fail(s, "range loop whose body returns, breaks, continues or may panic")
	}
	f := &frame{depth: k.sc.depth, seen: map[*variable]bool{}}
	k.frames = append(k.frames, f)
	savedBase, savedOut := k.frameBase, k.out
	k.frameBase = len(k.frames)
	var body strings.Builder
	k.out = &body
	outer := k.sc
	k.push()
	vv := k.declare(val, vFloat)
	k.block(s.Body, ind+2, func(ind int) {
		k.countLeaf()
		k.line(ind, "%s", nextMark)
	})
	k.sc = outer
	k.out = savedOut
	k.frameBase = savedBase
	k.frames = k.frames[:len(k.frames)-1]
	reads := identsOf(s.X)
	for _, v := range f.order {
		if reads[v.name] {
			k.fail(s, "range loop whose body assigns %s, the slice it ranges over", v.name)
		}
	}
	if len(f.order) == 0 {
		return
	}
	for _, v := range f.order {
		k.assigned(v)
	}
	sort.SliceStable(f.order, func(i, j int) bool { return declLess(f.order[i], f.order[j]) })
	var names, types []string
	for _, v := range f.order {
		names = append(names, v.lean)
		types = append(types, v.typ())
	}
	tuple, typ := tupleOfNames(names), tupleTypeOf(types)
	atomT := paren(typ, map[bool]int{true: pAtom, false: 0}[len(types) <= 1], pAtom)
	k.nloop++
	bodyName, loopName := k.fresh(fmt.Sprintf("body%d", k.nloop)), k.fresh(fmt.Sprintf("loop%d", k.nloop))
	carried := k.fresh("carried")
	k.line(ind, "let %s : %s → α → %s := fun %s %s =>", bodyName, atomT, typ, carried, vv.lean)
	for i, v := range f.order {
		k.line(ind+2, "let %s : %s := %s%s", v.lean, v.typ(), carried, proj(i, len(f.order)))
	}
	k.out.WriteString(strings.Replace(body.String(), nextMark, tuple, -1))
	k.line(ind, "let %s : %s := List.foldl %s %s %s", loopName, typ, bodyName, tuple, paren(xs, xp, pAtom))
	for i, v := range f.order {
		k.line(ind, "let %s : %s := %s%s", v.lean, v.typ(), loopName, proj(i, len(f.order)))
	}
}
