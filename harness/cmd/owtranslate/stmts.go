package main

import (
	"fmt"
	"go/ast"
	"go/token"
	"path/filepath"
	"sort"
	"strings"
)

// ---- statements of the loop body / of a helper (continuation-passing: `rest` renders everything that follows)

// some path through n ends the step (continue) or the helper (return)
func endsPath(n ast.Node) bool {
	found := false
	var walk func(n ast.Node, inner bool)
	walk = func(n ast.Node, inner bool) {
		ast.Inspect(n, func(x ast.Node) bool {
			switch b := x.(type) {
			case *ast.BranchStmt:
				if (b.Tok == token.CONTINUE || b.Tok == token.BREAK) && !inner {
					found = true
				}
			case *ast.ReturnStmt:
				found = true
			case *ast.ExprStmt:
				if c, ok := b.X.(*ast.CallExpr); ok && isIdent(c.Fun, "panic") {
					found = true
				}
			case *ast.ForStmt: // break / continue inside bind to that loop
				if !inner && x != n {
					walk(b.Body, true)
					return false
				}
			case *ast.FuncLit:
				return false
			}
			return !found
		})
	}
	walk(n, false)
	return found
}

func (k *kernel) assigned(v *variable) {
	v.everAssigned = true
	for _, f := range k.frames {
		if v.depth <= f.depth && !f.seen[v] {
			f.seen[v] = true
			f.order = append(f.order, v)
		}
	}
}

// the value of an assignment's right-hand side as a Lean term of type α or Bool
func (k *kernel) rhs(e ast.Expr) (string, vkind) {
	s, _, kind := k.expr(e)
	switch kind {
	case 'f':
		return s, vFloat
	case 'p':
		return "decide (" + s + ")", vBool
	case 'i':
		return s, vIntVar
	case 'l':
		return s, vSlice
	}
	return s, vBool
}

// the kinds of variables that hold a value of the subset
func valueKind(kind vkind) bool {
	return kind == vFloat || kind == vBool || kind == vIntVar || kind == vSlice || kind == vIdxVec
}

// `some v` where the function being rendered may panic
func (k *kernel) wrap(val string) string {
	if !k.partial {
		return val
	}
	return "some " + paren(val, map[bool]int{true: pAtom, false: 0}[closedParen(val)], pAtom)
}

// the text is one parenthesised group
func closedParen(s string) bool {
	if !strings.HasPrefix(s, "(") {
		return false
	}
	depth := 0
	for i, c := range s {
		switch c {
		case '(':
			depth++
		case ')':
			depth--
			if depth == 0 {
				return i == len(s)-1
			}
		}
	}
	return false
}

func (k *kernel) define(ind int, id *ast.Ident, s string, kind vkind) *variable {
	v := k.declare(id, kind)
	if !k.inLoop && k.mode == mKernel && (kind == vFloat || kind == vIntVar || kind == vSlice || kind == vBool) {
		k.preLocals = append(k.preLocals, v)
	}
	if kind == vBool && (s == "true" || s == "false") && len(k.inlining) == 0 && k.singleAssignment(id.Name) {
		v.boolLit = s // a Bool that is a literal on every path (a nil test of a series, …): read as that literal
	}
	k.line(ind, "let %s : %s := %s", v.lean, v.typ(), s)
	if rhs := k.defRhs; rhs != nil {
		k.defRhs = nil
		k.trySink(v, rhs, fmt.Sprintf("let %s : %s := %s", v.lean, v.typ(), s))
	}
	return v
}

// the variable an assignment writes, with the checks on what may be written where
func (k *kernel) target(id *ast.Ident, n ast.Node) *variable {
	v := k.lookup(id.Name)
	if v == nil || !valueKind(v.kind) {
		k.fail(n, "assignment to %s, which is not a float64 or bool variable", id.Name)
	}
	return k.targetVar(v, n)
}

func (k *kernel) targetVar(v *variable, n ast.Node) *variable {
	if v.parent != nil && (v.parent.capturedAt || (k.mode == mKernel && !k.inFinal && k.inLoop && !v.inLoop)) {
		k.fail(n, "assignment to a field of %s, which is declared before the loop or captured by a function literal", v.parent.name)
	}
	if v.capturedAt {
		k.fail(n, "assignment to %s after a function literal has captured it", v.name)
	}
	if k.mode == mKernel && !k.inFinal {
		if k.inLoop && !v.inLoop && !v.state && !v.loopLocal {
			if valueKind(v.kind) && !v.param {
				panic(needHidden{v.declPos}) // retried with this variable as a hidden state
			}
			k.fail(n, "loop-carried variable %s is not returned (hidden state)", v.name)
		}
		if !k.inLoop && v.param && !v.state && !v.reassigned {
			// a parameter assigned before the loop: from here on a pre-loop local (step receives its value on loop entry)
			v.reassigned = true
			k.preLocals = append(k.preLocals, v)
		}
	}
	return v
}

func (k *kernel) assign(ind int, lhs ast.Expr, tok token.Token, rhs ast.Expr, n ast.Node) {
	id, ok := lhs.(*ast.Ident)
	fv := k.fieldVar(lhs) // x.f = e
	if !ok && (fv == nil || tok == token.DEFINE) {
		k.fail(n, "assignment to %T", lhs)
	}
	if ok && tok == token.DEFINE { // x := T{…} / x := y of a struct
		if _, st := k.structLit(rhs); st != nil {
			k.defineStruct(ind, id, st, k.structValues(rhs, st), rhs)
			return
		}
		if sv := k.structVar(rhs); sv != nil {
			k.defineStruct(ind, id, sv.st, k.structValues(rhs, sv.st), rhs)
			return
		}
	}
	if ok && tok == token.ASSIGN {
		if sv := k.lookup(id.Name); sv != nil && sv.kind == vStruct {
			k.assignStruct(ind, sv, rhs, n)
			return
		}
	}
	if tok == token.DEFINE {
		if lit, ok := rhs.(*ast.FuncLit); ok {
			k.closure(id, lit)
			return
		}
		if c, ok := k.constEnv().eval(rhs); ok && !c.typed { // `x := 0`: an untyped integer constant declares an int
			if lit, isInt := intLit(c.v); isInt {
				k.defRhs = rhs
				k.define(ind, id, lit, vIntVar)
				return
			}
		}
		s, kind := k.rhs(rhs)
		k.defRhs = rhs
		k.define(ind, id, s, kind)
		return
	}
	var v *variable
	if fv != nil {
		v = k.targetVar(fv, n)
	} else {
		if tok == token.ASSIGN {
			k.firstWriteInLoop(id, rhs)
		}
		v = k.target(id, n)
	}
	var s string
	if tok == token.ASSIGN && v.kind == vIntVar {
		s, _ = k.intExpr(rhs)
	} else if tok == token.ASSIGN {
		var kind vkind
		s, kind = k.rhs(rhs)
		if kind != v.kind {
			k.fail(n, "assignment of a %s to %s", map[vkind]string{vBool: "bool", vFloat: "float64", vIntVar: "int", vSlice: "[]float64"}[kind], v.name)
		}
	} else if v.kind == vIntVar {
		op := map[token.Token]token.Token{token.ADD_ASSIGN: token.ADD, token.SUB_ASSIGN: token.SUB, token.MUL_ASSIGN: token.MUL,
			token.QUO_ASSIGN: token.QUO, token.REM_ASSIGN: token.REM}[tok]
		if op == token.ILLEGAL {
			k.fail(n, "assignment operator %s", tok)
		}
		s, _ = k.intExpr(&ast.BinaryExpr{X: lhs, OpPos: n.Pos(), Op: op, Y: rhs})
	} else {
		op := map[token.Token]token.Token{token.ADD_ASSIGN: token.ADD, token.SUB_ASSIGN: token.SUB, token.MUL_ASSIGN: token.MUL,
			token.QUO_ASSIGN: token.QUO}[tok]
		if op == token.ILLEGAL {
			k.fail(n, "assignment operator %s", tok)
		}
		s, _ = k.num(&ast.BinaryExpr{X: lhs, OpPos: n.Pos(), Op: op, Y: rhs})
	}
	k.assigned(v)
	k.line(ind, "let %s : %s := %s", v.lean, v.typ(), s)
}

// ASSIGNED-BEFORE-READ: a float64 / bool / int variable declared before the loop that the loop body assigns (plain `=`) at its top
// level — not inside a branch, an inner loop or a function literal, so the assignment is executed in every iteration that gets that
// far and dominates everything after it — before anything in the loop has read it, whose new value does not depend on the old one,
// and which the statements after the loop do not mention, never carries a value from one iteration to the next (nor out of the
// loop): it is a local of `step`, not a hidden state. (Declaring such a variable inside the loop instead gives the same text.)
func (k *kernel) firstWriteInLoop(id *ast.Ident, rhs ast.Expr) {
	v := k.lookup(id.Name)
	if v == nil || k.mode != mKernel || !k.inLoop || k.inFinal || k.clo != nil || k.loopVar == nil {
		return
	}
	if v.inLoop || v.state || v.param || v.loopLocal || v.capturedAt || v.parent != nil || !(v.kind == vFloat || v.kind == vBool || v.kind == vIntVar) {
		return
	}
	if len(k.frames) != 0 || k.sc.depth != k.loopVar.depth+1 || k.liveIn[v] || k.postNames[v.name] {
		return
	}
	if rhs != nil && identsOf(rhs)[v.name] {
		return
	}
	v.loopLocal = true
}

// a, b := f(…)  /  a, b = f(…)
func (k *kernel) multiAssign(ind int, s *ast.AssignStmt) {
	call, ok := s.Rhs[0].(*ast.CallExpr)
	if !ok || (s.Tok != token.DEFINE && s.Tok != token.ASSIGN) {
		k.fail(s, "multiple assignment")
	}
	var ws []*variable
	if wr := k.writingCallee(call); wr != nil {
		ws = k.writtenArgs(call, wr)
		k.allowWrites = true
	}
	text, outs, ok := k.callTyped(call)
	k.allowWrites = false
	if !ok || len(k.callShapes(call, outs)) != len(s.Lhs) {
		k.fail(s, "multiple assignment other than from a helper function with as many results")
	}
	k.ncall++
	tmp := k.fresh(fmt.Sprintf("call%d", k.ncall))
	k.line(ind, "let %s : %s := %s", tmp, tupleTypeOf(outs), text)
	k.bindResultsOf(ind, s, tmp, outs, k.callShapes(call, outs))
	k.bindWritten(ind, s, tmp, len(outs)-len(ws), len(outs), ws)
}

// `a, b := tmp` / `a, b = tmp` for the results of a call held in the tuple `tmp`
func (k *kernel) bindResults(ind int, s *ast.AssignStmt, tmp string, outs []string) {
	k.bindResultsOf(ind, s, tmp, outs, outs)
}

// the Go results of a call (a struct result: its marker), given the flattened Lean types of the results
func (k *kernel) callShapes(call *ast.CallExpr, outs []string) []string {
	if k.closureOf(call.Fun) == nil {
		if r := k.resolveFunc(call.Fun); r != nil {
			if g, ok := k.goResultTypes(r); ok {
				return g
			}
		}
	}
	return outs
}

// shapes: one entry per left-hand side (a struct marker takes as many components of `tmp` as the struct has fields)
func (k *kernel) bindResultsOf(ind int, s *ast.AssignStmt, tmp string, outs, shapes []string) {
	nout := len(outs)
	if len(shapes) != len(s.Lhs) {
		k.fail(s, "the %d results of the call are not all assigned", len(shapes))
	}
	at := 0
	for li, l := range s.Lhs {
		if st := k.w.structByMarker(shapes[li]); st != nil {
			first := at
			at += len(st.fields)
			id, ok := l.(*ast.Ident)
			if !ok {
				k.fail(s, "assignment to %T", l)
			}
			if id.Name == "_" {
				continue
			}
			if _, here := k.sc.vars[id.Name]; s.Tok == token.DEFINE && !here {
				var vals []string
				for j := range st.fields {
					vals = append(vals, tmp+proj(first+j, nout))
				}
				k.defineStruct(ind, id, st, vals, nil)
				continue
			}
			v := k.lookup(id.Name)
			if v == nil || v.kind != vStruct || v.st != st {
				k.fail(s, "assignment of a %s to %s", st.name, id.Name)
			}
			for j, c := range v.fields {
				k.targetVar(c, s)
				k.assigned(c)
				k.line(ind, "let %s : %s := %s", c.lean, c.typ(), tmp+proj(first+j, nout))
			}
			continue
		}
		i := at
		at++
		if fv := k.fieldVar(l); fv != nil && s.Tok == token.ASSIGN {
			v := k.targetVar(fv, s)
			if v.typ() != outs[i] {
				k.fail(s, "assignment of a %s to %s", outs[i], v.name)
			}
			k.assigned(v)
			k.line(ind, "let %s : %s := %s", v.lean, v.typ(), tmp+proj(i, nout))
			continue
		}
		id, ok := l.(*ast.Ident)
		if !ok {
			k.fail(s, "assignment to %T", l)
		}
		if id.Name == "_" {
			continue
		}
		val := tmp + proj(i, nout)
		if _, here := k.sc.vars[id.Name]; s.Tok == token.DEFINE && !here {
			k.define(ind, id, val, kindOfType(outs[i]))
			continue
		}
		v := k.target(id, s)
		if v.typ() != outs[i] {
			k.fail(s, "assignment of a %s to %s", outs[i], v.name)
		}
		k.assigned(v)
		k.line(ind, "let %s : %s := %s", v.lean, v.typ(), val)
	}
}

// const and var declarations
func (k *kernel) localDecl(ind int, d *ast.DeclStmt) {
	gd, ok := d.Decl.(*ast.GenDecl)
	if !ok || (gd.Tok != token.CONST && gd.Tok != token.VAR) {
		k.fail(d, "declaration statement other than const / var")
	}
	for _, s := range gd.Specs {
		vs := s.(*ast.ValueSpec)
		if gd.Tok == token.VAR {
			kind := vFloat
			if st, ptr := k.w.structOf(k.p, vs.Type); vs.Type != nil && st != nil && !ptr && k.lookupType(vs.Type) {
				if len(vs.Values) != 0 && len(vs.Values) != len(vs.Names) {
					k.fail(vs, "var declaration without a value per name")
				}
				for i, n := range vs.Names {
					if len(vs.Values) == 0 {
						k.defineStruct(ind, n, st, nil, nil)
					} else {
						k.defineStruct(ind, n, st, k.structValues(vs.Values[i], st), vs.Values[i])
					}
				}
				continue
			}
			switch {
			case vs.Type == nil:
			case isIdent(vs.Type, "float64"):
			case isIdent(vs.Type, "bool"):
				kind = vBool
			case isIdent(vs.Type, "int"):
				kind = vIntVar
			case k.leanType(vs.Type, k.imp, false) == "List α":
				kind = vSlice
			default:
				k.fail(vs, "variable declaration of a type other than float64 / bool")
			}
			if len(vs.Values) != 0 && len(vs.Values) != len(vs.Names) {
				k.fail(vs, "var declaration without a value per name")
			}
			for i, n := range vs.Names {
				if len(vs.Values) == 0 {
					if vs.Type == nil {
						k.fail(vs, "var declaration without type and value")
					}
					k.define(ind, n, map[vkind]string{vFloat: "Num.zero", vBool: "false", vIntVar: "0", vSlice: "[]"}[kind], kind)
					continue
				}
				var val string
				var vk vkind
				if kind == vIntVar {
					val, _ = k.intExpr(vs.Values[i])
					vk = vIntVar
				} else {
					val, vk = k.rhs(vs.Values[i])
				}
				if vs.Type != nil && vk != kind {
					k.fail(vs, "var declaration whose value is not of the declared type")
				}
				k.defRhs = vs.Values[i]
				k.define(ind, n, val, vk)
			}
			continue
		}
		if len(vs.Names) != len(vs.Values) {
			k.fail(vs, "const declaration without a value per name")
		}
		for i, n := range vs.Names {
			c, ok := k.constEnv().eval(vs.Values[i])
			if ok && vs.Type != nil {
				ok = isIdent(vs.Type, "float64")
				if ok {
					c = &cval{v: round64(c.v), typed: true}
				}
			}
			if !ok {
				k.fail(vs, "constant %s outside the subset", n.Name)
			}
			lit, _ := k.constSpelling(vs.Values[i])
			if bl, isLit := vs.Values[i].(*ast.BasicLit); isLit && bl.Kind == token.FLOAT && rePlain.MatchString(bl.Value) {
				lit = bl.Value
			}
			v := k.declare(n, vConst)
			v.c, v.lit = c, lit
		}
	}
}

func (k *kernel) stmts(list []ast.Stmt, ind int, rest func(ind int)) {
	for i, s := range list {
		if k.partial {
			if n := k.hoistStmt(ind, s); n > 0 { // calls that may panic inside an expression were bound: the rest goes deeper
				k.stmts(list[i:], ind+n, rest)
				return
			}
		}
		switch s := s.(type) {
		case *ast.EmptyStmt:
		case *ast.DeclStmt:
			k.localDecl(ind, s)
		case *ast.AssignStmt:
			if len(s.Lhs) == 2 && len(s.Rhs) == 1 && k.isPartialCall(s) {
				k.partialCall(ind, s, list[i+1:], rest)
				return
			}
			if len(s.Rhs) == 1 {
				if call, ok := s.Rhs[0].(*ast.CallExpr); ok && k.callMayPanic(call) {
					k.bindPartial(ind, s, call, list[i+1:], rest)
					return
				}
				if ix, ok := s.Rhs[0].(*ast.IndexExpr); ok && len(s.Lhs) == 1 && k.tableRead(ix) != nil {
					k.bindTable(ind, s, ix, list[i+1:], rest)
					return
				}
			}
			if len(s.Lhs) > 1 && len(s.Rhs) == 1 {
				k.multiAssign(ind, s)
				continue
			}
			if len(s.Lhs) != 1 || len(s.Rhs) != 1 {
				k.fail(s, "multiple assignment")
			}
			if call, ok := s.Rhs[0].(*ast.CallExpr); ok && (k.structResult(call) || k.writingCallee(call) != nil) {
				// x := f(…) / x = f(…) with one result of struct type, or of a function that also writes into slice arguments
				k.multiAssign(ind, s)
				continue
			}
			if id, ok := s.Lhs[0].(*ast.Ident); ok && s.Tok == token.DEFINE && k.indexVector(ind, id, s.Rhs[0]) {
				continue
			}
			if id, ok := s.Lhs[0].(*ast.Ident); ok && id.Name == "_" && s.Tok == token.ASSIGN { // `_ = e`: evaluated (it must be in the subset), not used
				k.expr(s.Rhs[0])
				continue
			}
			if ix, ok := s.Lhs[0].(*ast.IndexExpr); ok && k.indexAssign(ind, s, ix) {
				continue
			}
			if ix, ok := s.Lhs[0].(*ast.IndexExpr); ok { // idx[0] = i
				x, _ := ix.X.(*ast.Ident)
				r, _ := s.Rhs[0].(*ast.Ident)
				z, _ := ix.Index.(*ast.BasicLit)
				if k.mode != mKernel || !k.inLoop || x == nil || r == nil || z == nil || z.Value != "0" || s.Tok != token.ASSIGN ||
					k.lookup(x.Name) == nil || k.lookup(x.Name).kind != vIdx || k.lookup(r.Name) != k.loopVar || len(k.frames) > 0 ||
					k.sc.depth != k.loopVar.depth+1 {
					k.fail(s, "index assignment other than `idx[0] = <loop variable>` at the top of the loop body")
				}
				k.idxBound = true
				continue
			}
			k.assign(ind, s.Lhs[0], s.Tok, s.Rhs[0], s)
		case *ast.IncDecStmt:
			tok := token.ADD_ASSIGN
			if s.Tok == token.DEC {
				tok = token.SUB_ASSIGN
			}
			k.assign(ind, s.X, tok, &ast.BasicLit{ValuePos: s.Pos(), Kind: token.INT, Value: "1"}, s)
		case *ast.ExprStmt: // out.Set(idx, e)
			call, _ := s.X.(*ast.CallExpr)
			var sel *ast.SelectorExpr
			if call != nil {
				sel, _ = call.Fun.(*ast.SelectorExpr)
			}
			var x *ast.Ident
			if sel != nil {
				x, _ = sel.X.(*ast.Ident)
			}
			if call != nil && isIdent(call.Fun, "panic") && k.lookup("panic") == nil && (k.mode != mKernel || k.inLoop) {
				if len(k.frames) > k.frameBase || !k.partial {
					k.fail(s, "panic inside a branch that is merged")
				}
				k.countLeaf()
				k.line(ind, "none")
				return
			}
			if x != nil && call != nil {
				if v := k.lookup(x.Name); v != nil && v.kind == vList {
					k.listStmt(ind, s, call, sel, v)
					continue
				}
			}
			if x != nil && k.lookup(x.Name) == nil && k.imp[x.Name] == "fmt" && strings.HasPrefix(sel.Sel.Name, "Print") {
				rel, line := k.relPos(s)
				k.ignored = append(k.ignored, fmt.Sprintf("%s:%d", rel, line))
				continue // writes to standard output only
			}
			if call != nil {
				if r := k.resolveFunc(call.Fun); r != nil && printOnly(k.w, r, 0) { // a procedure that only prints
					for _, a := range call.Args { // evaluating the arguments must not be able to panic: variables, literals, idx[0]
						switch a := unparen(a).(type) {
						case *ast.Ident, *ast.BasicLit:
						case *ast.IndexExpr:
							x, _ := a.X.(*ast.Ident)
							z, _ := a.Index.(*ast.BasicLit)
							if x == nil || z == nil || z.Value != "0" || k.lookup(x.Name) == nil || k.lookup(x.Name).kind != vIdx {
								k.fail(a, "argument of a printing procedure that is not a variable, a literal or idx[0]")
							}
						default:
							if k.fieldVar(a) == nil {
								k.fail(a, "argument of a printing procedure that is not a variable, a literal or idx[0]")
							}
						}
					}
					rel, line := k.relPos(s)
					k.ignored = append(k.ignored, fmt.Sprintf("%s:%d", rel, line))
					continue
				}
			}
			if k.isCopyCall(call) {
				k.copyStmt(ind, s, call)
				continue
			}
			if call != nil && k.closureOf(call.Fun) == nil {
				if r := k.resolveFunc(call.Fun); r != nil && k.mode == mKernel && k.inLoop && k.inlinable(r) { // a procedure that writes series
					k.inlineProc(ind, s, call, r, func(ind int) { k.stmts(list[i+1:], ind, rest) })
					return
				}
			}
			if wr := k.writingCallee(call); wr != nil { // a procedure that writes into its slice arguments
				k.writingCallStmt(ind, s, call, wr)
				continue
			}
			if k.mode != mKernel || x == nil || (sel.Sel.Name != "Set" && sel.Sel.Name != "Set1") || len(call.Args) != 2 {
				k.fail(s, "expression statement other than out.Set(idx, e)")
			}
			v := k.lookup(x.Name)
			if v == nil || v.kind != vSeries || k.outVar[v] == nil {
				k.fail(s, "Set on %s, which is not an output series", x.Name)
			}
			k.indexArg(call, sel.Sel.Name == "Set1")
			e, _ := k.num(call.Args[1])
			ov := k.outVar[v]
			k.assigned(ov)
			k.isSet[ov] = true
			k.line(ind, "let %s : α := %s", ov.lean, e)
		case *ast.BranchStmt:
			if k.loopNest > 0 && s.Label == nil && (s.Tok == token.BREAK || s.Tok == token.CONTINUE) {
				if len(k.frames) > k.frameBase {
					k.fail(s, "%s inside a branch that is merged", s.Tok)
				}
				k.countLeaf()
				k.line(ind, "%s", map[bool]string{true: exitMark, false: nextMark}[s.Tok == token.BREAK])
				return
			}
			if s.Tok != token.CONTINUE || s.Label != nil || k.mode != mKernel || !k.inLoop {
				k.fail(s, "%s statement", s.Tok)
			}
			k.leaf(ind)
			return
		case *ast.ForStmt:
			switch {
			case k.mode == mHelper && k.clo == nil && k.constBounded(s):
				var next ast.Stmt
				if i+1 < len(list) {
					next = list[i+1]
				}
				k.boundedFor(s, ind, next)
			case s.Init == nil && s.Post == nil:
				k.whileFor(s, ind)
			default:
				k.rangeFor(s, ind)
			}
			if k.deeper { // the loop may panic: the rest of the block is the `some` arm of its match
				k.deeper = false
				k.stmts(list[i+1:], ind+1, rest)
				return
			}
		case *ast.RangeStmt:
			if f := k.rangeAsFor(s); f != nil { // for i := range xs / for i, v := range xs: the three-clause loop it stands for
				k.rangeFor(f, ind)
				if k.deeper {
					k.deeper = false
					k.stmts(list[i+1:], ind+1, rest)
					return
				}
				continue
			}
			k.rangeOver(s, ind)
		case *ast.ReturnStmt:
			if k.loopNest > 0 && k.retAsBreak[s] { // the statement after the loop returns the same: a `break`
				if len(k.frames) > k.frameBase {
					k.fail(s, "return inside a branch that is merged")
				}
				k.countLeaf()
				k.line(ind, "%s", exitMark)
				return
			}
			if k.mode != mHelper && k.mode != mWhole {
				k.fail(s, "return statement inside the loop or a merged branch")
			}
			if k.loopNest > 0 {
				k.fail(s, "return statement inside a loop")
			}
			k.leafReturn(ind, s)
			return
		case *ast.BlockStmt:
			k.block(s, ind, func(ind int) { k.stmts(list[i+1:], ind, rest) })
			return
		case *ast.IfStmt:
			if s.Init != nil {
				k.fail(s, "if with an init statement")
			}
			cond, _, kind := k.expr(s.Cond)
			if kind == 'f' {
				k.fail(s.Cond, "float64 expression where a condition is expected")
			}
			after := func(ind int) { k.stmts(list[i+1:], ind, rest) }
			switch {
			case cond == "true":
				k.block(s.Body, ind, after)
				return
			case cond == "false":
				if s.Else == nil {
					continue
				}
				k.elseBranch(s.Else, ind, after)
				return
			case endsPath(s) || k.nodePartial(s): // some path ends the step: the rest of the body is rendered inside each branch
				if len(k.frames) > k.frameBase {
					k.fail(s, "continue / break / return inside a branch that is merged")
				}
				saved := k.snapshot()
				k.line(ind, "if %s then", cond)
				k.block(s.Body, ind+1, after)
				k.restore(saved)
				k.line(ind, "else")
				if s.Else == nil {
					after(ind + 1)
				} else {
					k.elseBranch(s.Else, ind+1, after)
				}
				return
			default:
				k.phi(s, cond, ind)
			}
		default:
			k.fail(s, "statement %T", s)
		}
	}
	rest(ind)
}

func (k *kernel) block(b *ast.BlockStmt, ind int, after func(ind int)) {
	outer := k.sc
	k.push()
	k.stmts(b.List, ind, func(ind int) {
		inner := k.sc
		k.sc = outer
		after(ind)
		k.sc = inner
	})
	k.sc = outer
}

func (k *kernel) elseBranch(e ast.Stmt, ind int, after func(ind int)) {
	if b, ok := e.(*ast.BlockStmt); ok {
		k.block(b, ind, after)
		return
	}
	k.stmts([]ast.Stmt{e}, ind, after) // else if
}

func (k *kernel) snapshot() map[*variable]bool {
	m := map[*variable]bool{}
	for v, b := range k.isSet {
		m[v] = b
	}
	return m
}
func (k *kernel) restore(m map[*variable]bool) {
	k.isSet = map[*variable]bool{}
	for v, b := range m {
		k.isSet[v] = b
	}
}

const (
	tupleMark = "\x00TUPLE\x00"
	exitMark  = "\x00EXIT\x00"
	nextMark  = "\x00NEXT\x00"
)

// `for i := 0; i < N; i++ { … }` with a constant bound inside a helper function, `i` not used in the body; `break` and
// `continue` allowed: `boundedLoop body N carried`, where `carried` are the outer variables the body assigns and
// `body : carried → carried × Bool` (true = break)
func (k *kernel) boundedFor(s *ast.ForStmt, ind int, next ast.Stmt) {
	if k.mode != mHelper {
		k.fail(s, "nested loop")
	}
	n, ok := k.constTrip(s)
	if !ok || n > 1000000 {
		k.fail(s, "loop that does not count a constant number of times, or uses its counter in the body")
	}
	// RETURN IN THE LOOP: `return E` where the statement after the loop is `return E` (the same pure expressions) leaves the loop
	// and returns what the statement after it returns — it is the `break` it is rendered as
	var rets []*ast.ReturnStmt
	nested := false
	var scan func(n ast.Node, inner bool)
	scan = func(n ast.Node, inner bool) {
		ast.Inspect(n, func(x ast.Node) bool {
			switch b := x.(type) {
			case *ast.FuncLit:
				return false
			case *ast.ForStmt:
				if x != n {
					scan(b.Body, true)
					return false
				}
			case *ast.RangeStmt:
				if x != n {
					scan(b.Body, true)
					return false
				}
			case *ast.ReturnStmt:
				if inner {
					nested = true
				}
				rets = append(rets, b)
			}
			return true
		})
	}
	scan(s.Body, false)
	if len(rets) > 0 {
		after, _ := next.(*ast.ReturnStmt)
		ok := after != nil && !nested && len(after.Results) > 0
		for _, r := range rets {
			ok = ok && sameReturn(k.w.fset, r, after)
		}
		if ok {
			for _, e := range after.Results {
				ok = ok && pureValue(e)
			}
		}
		if !ok {
			k.fail(s, "bounded loop whose body returns something other than what the statement after the loop returns")
		}
		if k.retAsBreak == nil {
			k.retAsBreak = map[*ast.ReturnStmt]bool{}
		}
		for _, r := range rets {
			k.retAsBreak[r] = true
		}
	}
	f := &frame{depth: k.sc.depth, seen: map[*variable]bool{}}
	k.frames = append(k.frames, f)
	savedBase, savedOut := k.frameBase, k.out
	k.frameBase = len(k.frames)
	k.loopNest++
	var body strings.Builder
	k.out = &body
	k.block(s.Body, ind+2, func(ind int) {
		k.countLeaf()
		k.line(ind, "%s", nextMark)
	})
	k.out = savedOut
	k.loopNest--
	k.frameBase = savedBase
	k.frames = k.frames[:len(k.frames)-1]
	if len(f.order) == 0 {
		return // the loop assigns nothing that outlives it
	}
	for _, v := range f.order {
		k.assigned(v)
	}
	// in declaration order, so that reordering independent assignments keeps the tuple
	sort.SliceStable(f.order, func(i, j int) bool { return declLess(f.order[i], f.order[j]) })
	var names, types []string
	for _, v := range f.order {
		names = append(names, v.lean)
		types = append(types, v.typ())
	}
	tuple, typ := tupleOfNames(names), strings.Join(types, " × ")
	k.nloop++
	bodyName, loopName := k.fresh(fmt.Sprintf("body%d", k.nloop)), k.fresh(fmt.Sprintf("loop%d", k.nloop))
	carried := k.fresh("carried")
	k.line(ind, "let %s : %s → (%s) × Bool := fun %s =>", bodyName, paren(typ, map[bool]int{true: pAtom, false: 0}[len(types) == 1], pAtom), typ, carried)
	for i, v := range f.order {
		k.line(ind+2, "let %s : %s := %s%s", v.lean, v.typ(), carried, proj(i, len(f.order)))
	}
	text := strings.Replace(body.String(), exitMark, "("+tuple+", true)", -1)
	k.out.WriteString(strings.Replace(text, nextMark, "("+tuple+", false)", -1))
	k.line(ind, "let %s : %s := boundedLoop %s %d %s", loopName, typ, bodyName, n, tuple)
	for i, v := range f.order {
		k.line(ind, "let %s : %s := %s%s", v.lean, v.typ(), loopName, proj(i, len(f.order)))
	}
}

// an `if` none of whose paths ends the step: both branches are rendered as blocks ending in the tuple of the outer
// variables (and outputs) that either of them assigns; the merged values are then re-bound (an SSA φ-node).
func (k *kernel) phi(s *ast.IfStmt, cond string, ind int) {
	f := &frame{depth: k.sc.depth, seen: map[*variable]bool{}}
	k.frames = append(k.frames, f)
	savedOut, before := k.out, k.snapshot()
	mark := func(ind int) { k.line(ind, "%s", tupleMark) }
	var thenB, elseB strings.Builder
	k.out = &thenB
	k.block(s.Body, ind+2, mark)
	setThen := k.snapshot()
	k.restore(before)
	k.out = &elseB
	if s.Else == nil {
		mark(ind + 2)
	} else {
		k.elseBranch(s.Else, ind+2, mark)
	}
	setElse := k.snapshot()
	k.out = savedOut
	k.frames = k.frames[:len(k.frames)-1]
	k.restore(before)
	for v := range setThen {
		if setThen[v] && setElse[v] {
			k.isSet[v] = true
		}
	}
	if len(f.order) == 0 {
		return // the statement has no effect on anything that outlives it
	}
	for _, v := range f.order { // propagate to enclosing merges
		k.assigned(v)
	}
	names, types := []string{}, []string{}
	for _, v := range f.order {
		names = append(names, v.lean)
		types = append(types, v.typ())
	}
	tuple := "(" + strings.Join(names, ", ") + ")"
	k.nphi++
	phi := k.fresh(fmt.Sprintf("phi%d", k.nphi))
	k.line(ind, "let %s : %s := if %s then", phi, strings.Join(types, " × "), cond)
	k.out.WriteString(strings.Replace(thenB.String(), tupleMark, tuple, -1))
	k.line(ind+1, "else")
	k.out.WriteString(strings.Replace(elseB.String(), tupleMark, tuple, -1))
	for i, v := range f.order {
		k.line(ind, "let %s : %s := %s%s", v.lean, v.typ(), phi, proj(i, len(f.order)))
	}
}

func proj(i, n int) string {
	if n == 1 {
		return ""
	}
	if i == n-1 {
		return strings.Repeat(".2", i)
	}
	return strings.Repeat(".2", i) + ".1"
}

func tupleOfNames(names []string) string {
	switch len(names) {
	case 0:
		return "()"
	case 1:
		return names[0]
	}
	return "(" + strings.Join(names, ", ") + ")"
}

// the Lean names of variables
func names2(vs []*variable) []string {
	var out []string
	for _, v := range vs {
		out = append(out, v.lean)
	}
	return out
}

func tupleOf(vs []*variable) string {
	names := []string{}
	for _, v := range vs {
		names = append(names, v.lean)
	}
	return tupleOfNames(names)
}

func tupleType(n int) string {
	if n == 0 {
		return "Unit"
	}
	return strings.TrimSuffix(strings.Repeat("α × ", n), " × ")
}

// the type of a step's result: (states) × (outputs), or the non-empty one of the two
func stepType(ns, no int) string {
	if ns > 0 && no > 0 {
		return "(" + tupleType(ns) + ") × (" + tupleType(no) + ")"
	}
	if ns > 0 {
		return tupleType(ns)
	}
	return tupleType(no)
}

// end of one step on this path: the new state and the outputs
func (k *kernel) leaf(ind int) {
	if len(k.frames) > 0 {
		panic("internal: leaf inside a merge")
	}
	k.countLeaf()
	var outs []*variable
	for _, o := range k.outputs {
		ov := k.outVar[o]
		outs = append(outs, ov)
		if !k.isSet[ov] {
			k.always[ov] = false
		}
	}
	sts := k.allStates()
	val := tupleOf(outs)
	switch {
	case len(sts) > 0 && len(outs) > 0:
		val = fmt.Sprintf("(%s, %s)", tupleOf(sts), tupleOf(outs))
	case len(sts) > 0:
		val = tupleOf(sts)
	}
	if k.partial {
		val = "some " + paren(val, map[bool]int{true: pAtom, false: 0}[strings.HasPrefix(val, "(")], pAtom)
	}
	k.line(ind, "%s", val)
}

// `v, err := pkg.F(args…)` of a module function with results (float64, error) that takes whole series
func (k *kernel) isPartialCall(s *ast.AssignStmt) bool {
	call, ok := s.Rhs[0].(*ast.CallExpr)
	if !ok || s.Tok != token.DEFINE || !k.partial || (k.mode == mKernel && k.clo == nil && !k.inLoop) {
		return false
	}
	return k.hasErrResult(k.resolveFunc(call.Fun))
}

// results (float64, error)
func (k *kernel) hasErrResult(r *funcRef) bool {
	if r == nil || r.fd.Type.Results == nil {
		return false
	}
	var res []ast.Expr
	for _, f := range r.fd.Type.Results.List {
		n := len(f.Names)
		if n == 0 {
			n = 1
		}
		for ; n > 0; n-- {
			res = append(res, f.Type)
		}
	}
	return len(res) == 2 && isIdent(res[0], "float64") && isIdent(res[1], "error")
}

// v, err := F(args…); if err != nil { panic(err) }   ↦   match F args… with | none => none | some v => …
func (k *kernel) partialCall(ind int, s *ast.AssignStmt, following []ast.Stmt, rest func(ind int)) {
	call := s.Rhs[0].(*ast.CallExpr)
	r := k.resolveFunc(call.Fun)
	vid, _ := s.Lhs[0].(*ast.Ident)
	eid, _ := s.Lhs[1].(*ast.Ident)
	if vid == nil || eid == nil || vid.Name == "_" || eid.Name == "_" || len(k.frames) > k.frameBase || !k.partial {
		k.fail(s, "call of %s other than `v, err := …` at the top level of the loop body", r.fd.Name.Name)
	}
	okNext := false
	if len(following) > 0 {
		if is, ok := following[0].(*ast.IfStmt); ok && is.Init == nil && is.Else == nil && len(is.Body.List) == 1 {
			c, _ := is.Cond.(*ast.BinaryExpr)
			es, _ := is.Body.List[0].(*ast.ExprStmt)
			if c != nil && es != nil && c.Op == token.NEQ && isIdent(c.X, eid.Name) && isIdent(c.Y, "nil") && k.lookup("nil") == nil {
				if pc, ok := es.X.(*ast.CallExpr); ok && isIdent(pc.Fun, "panic") && k.lookup("panic") == nil && len(pc.Args) == 1 &&
					isIdent(pc.Args[0], eid.Name) {
					okNext = true
				}
			}
		}
	}
	if !okNext {
		k.fail(s, "call of %s not followed by `if err != nil { panic(err) }`", r.fd.Name.Name)
	}
	var args []string
	var kinds []byte
	lists := false
	for _, a := range call.Args {
		if id, ok := a.(*ast.Ident); ok {
			if v := k.lookup(id.Name); v != nil && v.kind == vList { // a table series (a List α)
				k.use(v)
				args = append(args, v.lean)
				kinds = append(kinds, 'l')
				lists = true
				continue
			}
			if v := k.lookup(id.Name); v != nil && v.kind == vSeries {
				isTable := false
				for _, t := range k.tables {
					isTable = isTable || t == v
				}
				if !isTable {
					k.fail(a, "series %s is passed whole to %s and also accessed by element", v.name, r.fd.Name.Name)
				}
				args = append(args, v.lean)
				kinds = append(kinds, 's')
				continue
			}
		}
		e, p := k.num(a)
		args = append(args, paren(e, p, pAtom))
		kinds = append(kinds, 'f')
	}
	key := r.p.dir + "." + r.fd.Name.Name
	var af *abstractFn
	for _, a := range k.absCalls {
		if a.key == key {
			af = a
		}
	}
	if af == nil {
		af = &abstractFn{key: key, lean: k.fresh(r.fd.Name.Name), kinds: kinds}
		if lists {
			for _, c := range kinds {
				af.typ += map[byte]string{'f': "α → ", 'l': "List α → ", 's': "List α → "}[c]
			}
			af.typ += "Option α"
			af.desc = "results (float64, error), takes whole series (lists); none = the error is non-nil, on which the code panics"
		}
		pos := k.w.fset.Position(r.fd.Pos())
		af.rel, _ = filepath.Rel(k.w.repo, pos.Filename)
		af.line = pos.Line
		k.absCalls = append(k.absCalls, af)
	} else if string(af.kinds) != string(kinds) {
		k.fail(s, "calls of %s with different kinds of arguments", r.fd.Name.Name)
	}
	k.noteAbs(af)
	k.line(ind, "match %s %s with", af.lean, strings.Join(args, " "))
	k.line(ind, "| none => none")
	k.countLeaf()
	v := k.declare(vid, vFloat)
	k.declare(eid, vErr)
	k.line(ind, "| some %s =>", v.lean)
	k.stmts(following[1:], ind+1, rest)
}

func (k *kernel) countLeaf() {
	k.leaves++
	if k.leaves > 200 {
		k.fail(k.fn, "more than 200 paths through the body")
	}
}

// `return e1, e2` of a helper
func (k *kernel) leafReturn(ind int, r *ast.ReturnStmt) {
	if len(k.frames) > 0 {
		panic("internal: return inside a merge")
	}
	k.countLeaf()
	if k.mode == mWhole {
		k.wholeLeaf(ind, r)
		return
	}
	if len(r.Results) == 0 {
		if len(k.results) != k.nres || k.nres == 0 {
			k.fail(r, "return without values")
		}
		k.line(ind, "%s", k.wrap(tupleOfNames(append(names2(flatVars(k.results)), k.writtenNames()...))))
		return
	}
	if len(r.Results) == 1 && len(k.writtenVars) > 0 {
		if call, ok := r.Results[0].(*ast.CallExpr); ok && (k.callMayPanic(call) || len(k.w.flatTypes(k.resTypes)) > 1) {
			k.fail(r, "return of a call with several results (or one that may panic) in a function that writes into a slice parameter")
		}
	}
	if len(r.Results) == 1 {
		if call, ok := r.Results[0].(*ast.CallExpr); ok && k.callMayPanic(call) { // return f(…) of a function that may panic
			text, outs := k.partialCallText(call)
			if tupleTypeOf(outs) != tupleTypeOf(k.w.flatTypes(k.resTypes)) || !k.partial {
				k.fail(r, "return of a call whose results are not those of the function")
			}
			k.line(ind, "%s", text)
			return
		}
		if ix, ok := r.Results[0].(*ast.IndexExpr); ok && k.tableRead(ix) != nil && k.nres == 1 && k.partial { // return T[i]
			k.line(ind, "%s", k.tableRead(ix)())
			return
		}
		if call, ok := r.Results[0].(*ast.CallExpr); ok && len(k.w.flatTypes(k.resTypes)) > 1 { // return f(…) with several results
			text, outs, ok := k.callTyped(call)
			if !ok || tupleTypeOf(outs) != tupleTypeOf(k.w.flatTypes(k.resTypes)) {
				k.fail(r, "return of a call whose results are not those of the function")
			}
			k.line(ind, "%s", k.wrap(paren(text, pApp, pAtom)))
			return
		}
	}
	if len(r.Results) != k.nres {
		k.fail(r, "return of %d expressions for %d results", len(r.Results), k.nres)
	}
	var vals []string
	for i, e := range r.Results {
		if st := k.w.structByMarker(k.resTypes[i]); st != nil {
			vals = append(vals, k.structValues(e, st)...)
			continue
		}
		if id, ok := unparen(e).(*ast.Ident); ok && k.mode == mHelper && k.clo == nil && k.resTypes[i] == "List α" {
			if v := k.lookup(id.Name); v != nil && v.param {
				// the caller's variable and the result would share storage: later writes through one would show through the other
				k.fail(r, "helper function that returns its slice parameter %s", id.Name)
			}
		}
		vals = append(vals, k.valueOf(e, k.resTypes[i]))
	}
	k.line(ind, "%s", k.wrap(tupleOfNames(append(vals, k.writtenNames()...))))
}

// an expression of the given Lean type
func (k *kernel) valueOf(e ast.Expr, typ string) string {
	switch typ {
	case "Int":
		s, _ := k.intExpr(e)
		return s
	case "Bool":
		s, _ := k.boolean(e)
		return s
	case "List α":
		s, _, kind := k.expr(e)
		if kind != 'l' {
			k.fail(e, "expression that is not a []float64 where one is expected")
		}
		return s
	}
	s, _ := k.num(e)
	return s
}

// ---- a helper function: float64 parameters ↦ float64 results

func (k *kernel) translateHelper(h *helperDef) string {
	fn := k.fn
	k.sc = &scope{vars: map[string]*variable{}}
	k.inLoop = true // every variable is local
	k.liveIn = map[*variable]bool{}
	k.isSet, k.always, k.outVar = map[*variable]bool{}, map[*variable]bool{}, map[*variable]*variable{}
	k.firstOf = map[*variable]*variable{}
	k.partial = k.nodePartial(fn.Body)
	h.partial = k.partial
	var params []*variable
	pnames, _ := paramFields(fn)
	for pi, n := range pnames {
		if n == nil {
			k.fail(fn, "unnamed parameter")
		}
		kind := kindOfType(h.ins[pi])
		if st := k.w.structByMarker(h.ins[pi]); st != nil {
			if n.Name == "_" {
				k.fail(fn, "unnamed parameter of struct type")
			}
			v := k.declareStruct(n, st)
			v.param = true
			for _, c := range v.fields {
				c.param = true
			}
			params = append(params, v)
			continue
		}
		if n.Name == "_" {
			params = append(params, &variable{kind: kind, name: "_", lean: k.fresh("unused")})
			continue
		}
		v := k.declare(n, kind)
		v.param = true
		if h.ins[pi] == "σ" {
			v.sigma = true
			k.tables = append(k.tables, v)
		}
		params = append(params, v)
	}
	for _, wi := range k.w.writtenParams(&funcRef{k.p, k.file, fn}) {
		if wi >= len(params) || params[wi].kind != vSlice || params[wi].name == "_" {
			k.fail(fn, "internal: written parameter %d is not a named []float64", wi)
		}
		k.writtenVars = append(k.writtenVars, params[wi])
	}
	var body strings.Builder
	k.out = &body
	gouts, _ := k.goResultTypes(&funcRef{k.p, k.file, fn})
	rnames, _ := fields(fn.Type.Results)
	for ri, n := range rnames {
		k.nres++
		k.resTypes = append(k.resTypes, gouts[ri])
		if n == nil {
			continue
		}
		if st := k.w.structByMarker(gouts[ri]); st != nil {
			v := k.defineStruct(1, n, st, nil, nil)
			k.results = append(k.results, v)
			continue
		}
		v := k.declare(n, kindOfType(gouts[ri]))
		k.results = append(k.results, v)
		k.line(1, "let %s : %s := %s", v.lean, gouts[ri], zeroOf(gouts[ri]))
	}
	k.stmts(fn.Body.List, 1, func(ind int) {
		if len(k.results) != k.nres {
			k.fail(fn, "missing return")
		}
		k.countLeaf()
		k.line(ind, "%s", k.wrap(tupleOfNames(append(names2(flatVars(k.results)), k.writtenNames()...))))
	})
	// an int parameter the body does not use is not a parameter of the definition (the time-step counter of a kernel)
	var kept []*variable
	h.drop = make([]bool, len(params))
	for i, v := range params {
		if v.kind == vIntVar && !v.used {
			h.drop[i] = true
			continue
		}
		kept = append(kept, v)
	}
	kept = flatVars(kept)
	h.absFns = k.absCalls
	var b strings.Builder
	fmt.Fprintf(&b, "/-- %s:%d  func %s", h.rel, h.line, fn.Name.Name)
	if k.partial {
		b.WriteString(" (may panic: none)")
	}
	for _, a := range h.absFns {
		fmt.Fprintf(&b, "; %s (%s:%d) is NOT translated: an argument", a.lean, a.rel, a.line)
	}
	b.WriteString(" -/\n")
	abs := ""
	needSigma := false
	for _, a := range h.absFns {
		t := a.typ
		if t == "" { // results (float64, error), takes whole series of the abstract type σ
			needSigma = true
			for _, c := range a.kinds {
				t += map[byte]string{'f': "α → ", 's': "σ → "}[c]
			}
			t += "Option α"
		}
		abs += fmt.Sprintf(" (%s : %s)", a.lean, t)
	}
	for _, t := range h.ins {
		needSigma = needSigma || t == "σ"
	}
	if needSigma {
		abs = " {σ : Type}" + abs
	}
	ret := tupleTypeOf(h.outs)
	if k.partial {
		ret = "Option " + paren(ret, map[bool]int{true: pAtom, false: 0}[len(h.outs) == 1], pAtom)
	}
	fmt.Fprintf(&b, "@[gen_unfold] def %s {α : Type} [Num α]%s%s : %s :=\n%s", h.lean, abs, binderVs(kept), ret, body.String())
	return b.String()
}
