package main

import (
	"go/ast"
	"go/token"
)

// ---- PROCEDURES THAT WRITE SERIES ARE INLINED (work package R3). A call statement `f(args…)` of a function of the module
// without results that takes series (or the index vector) — `writeDate(idx, d, m, y, date, month, year, dayOfYear)` — is
// rendered as the statements of its body, in place: a parameter of a reference type (series, `[]int` index vector, `[]float64`)
// stands for the caller's variable that is passed (the argument must be that variable), a value parameter (float64 / int / bool)
// is a new local bound to the value of its argument. This is Go's call semantics for a body without `return` (a trailing bare
// `return` aside), so moving statements into such a procedure, or inlining it, gives the same `let`s. The body is translated in a
// scope of its own (it sees its parameters and the package level of ITS file, not the caller's locals). No recursion.

func (k *kernel) inlinable(r *funcRef) bool {
	if r == nil || r.fd.Body == nil || r.fd.Recv != nil || r.fd.Type.TypeParams != nil {
		return false
	}
	if r.fd.Type.Results != nil && len(r.fd.Type.Results.List) > 0 {
		return false
	}
	imp := imports(r.f)
	ref := false
	for _, fld := range r.fd.Type.Params.List {
		if len(fld.Names) == 0 {
			return false
		}
		switch {
		case k.isSeriesTypeIn(fld.Type, imp):
			ref = true
		case isIntSlice(fld.Type):
			ref = true
		case isIdent(fld.Type, "float64"), isIdent(fld.Type, "int"), isIdent(fld.Type, "bool"):
		case k.leanType(fld.Type, imp, false) == "List α":
		default:
			return false
		}
	}
	if !ref {
		return false // no series: an ordinary helper function
	}
	// no return other than a bare one at the very end; no function literal (it could return)
	ok := true
	list := r.fd.Body.List
	ast.Inspect(r.fd.Body, func(n ast.Node) bool {
		switch s := n.(type) {
		case *ast.FuncLit:
			ok = false
		case *ast.ReturnStmt:
			if len(s.Results) != 0 || len(list) == 0 || list[len(list)-1] != ast.Stmt(s) {
				ok = false
			}
		}
		return ok
	})
	return ok
}

func isIntSlice(t ast.Expr) bool {
	at, ok := t.(*ast.ArrayType)
	return ok && at.Len == nil && isIdent(at.Elt, "int")
}

func (k *kernel) isSeriesTypeIn(t ast.Expr, imp map[string]string) bool {
	return isSel(t, "data", "ND1Float64") && imp["data"] == k.w.module+"/data"
}

// the call statement `f(args…)`; `after` renders what follows it
func (k *kernel) inlineProc(ind int, s ast.Stmt, call *ast.CallExpr, r *funcRef, after func(ind int)) {
	key := r.p.dir + "." + r.fd.Name.Name
	for _, b := range k.inlining {
		if b == key {
			k.fail(s, "recursive procedure %s", r.fd.Name.Name)
		}
	}
	if len(k.inlining) > 8 {
		k.fail(s, "procedures nested deeper than 8")
	}
	pns, pts := fields(r.fd.Type.Params)
	if len(pns) != len(call.Args) || call.Ellipsis.IsValid() {
		k.fail(s, "call of %s with %d arguments", r.fd.Name.Name, len(call.Args))
	}
	imp := imports(r.f)
	inner := &scope{vars: map[string]*variable{}, depth: k.sc.depth + 1}
	type valueParam struct {
		id   *ast.Ident
		text string
		kind vkind
	}
	var values []valueParam
	seen := map[*variable]bool{}
	for i, pn := range pns {
		a := unparen(call.Args[i])
		switch {
		case k.isSeriesTypeIn(pts[i], imp), isIntSlice(pts[i]), k.leanType(pts[i], imp, false) == "List α":
			id, ok := a.(*ast.Ident)
			var v *variable
			if ok {
				v = k.lookup(id.Name)
			}
			want := map[bool][]vkind{true: {vSeries, vList}, false: {vIdx, vIdxVec}}[k.isSeriesTypeIn(pts[i], imp)]
			if k.leanType(pts[i], imp, false) == "List α" {
				want = []vkind{vSlice}
			}
			good := false
			for _, w := range want {
				good = good || (v != nil && v.kind == w)
			}
			if !good {
				k.fail(a, "argument %d of %s is not the variable of a series / index vector / slice", i+1, r.fd.Name.Name)
			}
			if seen[v] {
				k.fail(a, "%s is passed twice to %s", id.Name, r.fd.Name.Name)
			}
			seen[v] = true
			if assignsName(r.fd.Body, pn.Name) {
				k.fail(s, "procedure %s assigns its parameter %s", r.fd.Name.Name, pn.Name)
			}
			if pn.Name != "_" {
				inner.vars[pn.Name] = v
			}
		case isIdent(pts[i], "int"):
			t, _ := k.intExpr(a)
			values = append(values, valueParam{pn, t, vIntVar})
		case isIdent(pts[i], "bool"):
			t, _ := k.boolean(a)
			values = append(values, valueParam{pn, t, vBool})
		default:
			t, _ := k.num(a)
			values = append(values, valueParam{pn, t, vFloat})
		}
	}
	savedSc, savedP, savedFile, savedImp, savedLits := k.sc, k.p, k.file, k.imp, k.lits
	restore := func() { k.sc, k.p, k.file, k.imp, k.lits = savedSc, savedP, savedFile, savedImp, savedLits }
	k.sc, k.p, k.file, k.imp, k.lits = inner, r.p, r.f, imp, closureLits(r.fd.Body)
	k.inlining = append(k.inlining, key)
	for _, vp := range values {
		if vp.id.Name == "_" {
			continue
		}
		k.define(ind, vp.id, vp.text, vp.kind)
	}
	list := r.fd.Body.List
	if n := len(list); n > 0 {
		if _, ok := list[n-1].(*ast.ReturnStmt); ok {
			list = list[:n-1]
		}
	}
	k.stmts(list, ind, func(ind int) {
		in, inP, inFile, inImp, inLits, depth := k.sc, k.p, k.file, k.imp, k.lits, k.inlining
		restore()
		k.inlining = depth[:len(depth)-1]
		after(ind)
		k.sc, k.p, k.file, k.imp, k.lits, k.inlining = in, inP, inFile, inImp, inLits, depth
	})
	restore()
	k.inlining = k.inlining[:len(k.inlining)-1]
}

var _ = token.NoPos
