package main

import (
	"fmt"
	"go/ast"
	"go/token"
)

// ---- HELPERS THAT WRITE INTO THEIR SLICE PARAMETERS (work package R3). A Go function that assigns elements of a `[]float64`
// parameter (`p[i] = e`, `copy(p[a:b], …)`, or hands `p` to another function that does) changes the caller's slice. Its Lean
// definition returns, after the Go results, the final value of every such parameter (in parameter order), and a call
//
//	f(q, u, n, c)              ↦  let callN := f q u n c;  let q := callN            (an expression statement)
//	r, t = f(R, q, …)          ↦  let callN := f R q …;  let r := callN.1;  let t := callN.2.1;  let q := callN.2.2
//
// re-binds the argument variable. This is what the inlined statements `q[i] = …` give (`let q := sliceSet q i …`), so that moving
// a loop over a slice into a helper function, or inlining it, yields the same term once the helper is unfolded.
// Conditions (else the call is outside the subset): the argument for a written parameter is a slice VARIABLE, and no other
// argument of the call mentions that variable (the lists of the model do not alias); such a call stands at statement level.
// As everywhere in this translator, two different slice variables are taken not to share storage.

// the indices (in paramFields order) of the []float64 parameters the function writes into
func (w *world) writtenParams(r *funcRef) []int {
	return w.writtenParamsRec(r, map[string]bool{})
}

func (w *world) writtenParamsRec(r *funcRef, busy map[string]bool) []int {
	if r == nil || r.fd.Body == nil {
		return nil
	}
	key := r.p.dir + "." + funcName(r.fd)
	if w.writtenMemo == nil {
		w.writtenMemo = map[string][]int{}
	}
	if v, ok := w.writtenMemo[key]; ok {
		return v
	}
	if busy[key] {
		return nil // recursion: refused elsewhere
	}
	busy[key] = true
	defer delete(busy, key)
	pns, pts := paramFields(r.fd)
	idxOf := map[string]int{}
	for i, n := range pns {
		if n == nil || n.Name == "_" {
			continue
		}
		if at, ok := pts[i].(*ast.ArrayType); ok && at.Len == nil && isIdent(at.Elt, "float64") {
			idxOf[n.Name] = i
		}
	}
	written := map[int]bool{}
	if len(idxOf) > 0 {
		// the root identifier of `p`, `p[i]`, `p[a:b]`
		root := func(e ast.Expr) (string, bool) {
			for {
				switch x := unparen(e).(type) {
				case *ast.Ident:
					_, ok := idxOf[x.Name]
					return x.Name, ok
				case *ast.IndexExpr:
					e = x.X
				case *ast.SliceExpr:
					e = x.X
				default:
					return "", false
				}
			}
		}
		imp := imports(r.f)
		ast.Inspect(r.fd.Body, func(n ast.Node) bool {
			switch s := n.(type) {
			case *ast.FuncLit:
				// a literal that writes a parameter: counted as a write (the translator refuses assignments to captured variables anyway)
			case *ast.AssignStmt:
				for _, l := range s.Lhs {
					if _, isIx := unparen(l).(*ast.IndexExpr); isIx {
						if name, ok := root(l); ok {
							written[idxOf[name]] = true
						}
					}
				}
			case *ast.IncDecStmt:
				if _, isIx := unparen(s.X).(*ast.IndexExpr); isIx {
					if name, ok := root(s.X); ok {
						written[idxOf[name]] = true
					}
				}
			case *ast.CallExpr:
				if isIdent(s.Fun, "copy") && len(s.Args) == 2 {
					if name, ok := root(s.Args[0]); ok {
						written[idxOf[name]] = true
					}
					return true
				}
				// handed to a function of the module that writes the corresponding parameter
				var callee *funcRef
				switch f := s.Fun.(type) {
				case *ast.Ident:
					if fd, ok := r.p.funcs[f.Name]; ok {
						callee = &funcRef{r.p, r.p.ffile[f.Name], fd}
					}
				case *ast.SelectorExpr:
					if x, ok := f.X.(*ast.Ident); ok {
						if path, ok := imp[x.Name]; ok && len(path) > len(w.module) && path[:len(w.module)+1] == w.module+"/" {
							p := w.load(path[len(w.module)+1:])
							if fd, ok := p.funcs[f.Sel.Name]; ok {
								callee = &funcRef{p, p.ffile[f.Sel.Name], fd}
							}
						}
					}
				}
				if callee != nil {
					args := callArgs(s, callee)
					for _, wi := range w.writtenParamsRec(callee, busy) {
						if wi < len(args) {
							if name, ok := root(args[wi]); ok {
								written[idxOf[name]] = true
							}
						}
					}
				}
			}
			return true
		})
	}
	var out []int
	for i := range pns {
		if written[i] {
			out = append(out, i)
		}
	}
	w.writtenMemo[key] = out
	return out
}

// the variables a call re-binds: the arguments at the written positions of the callee (checked: slice variables, each mentioned
// by no other argument)
func (k *kernel) writtenArgs(call *ast.CallExpr, r *funcRef) []*variable {
	ws := k.w.writtenParams(r)
	if len(ws) == 0 {
		return nil
	}
	args := callArgs(call, r)
	var out []*variable
	for _, wi := range ws {
		if wi >= len(args) {
			k.fail(call, "call of %s with %d arguments", r.fd.Name.Name, len(args))
		}
		id, ok := unparen(args[wi]).(*ast.Ident)
		var v *variable
		if ok {
			v = k.lookup(id.Name)
		}
		if v == nil || v.kind != vSlice {
			k.fail(call, "argument %d of %s, which the function writes into, is not a []float64 variable", wi+1, r.fd.Name.Name)
		}
		for j, a := range args {
			if j != wi && identsOfAll(a)[id.Name] {
				k.fail(call, "slice %s is written by %s and also mentioned by another argument of the call", id.Name, r.fd.Name.Name)
			}
		}
		out = append(out, v)
	}
	return out
}

// every identifier of an expression (identsOf skips those whose length only is read)
func identsOfAll(e ast.Node) map[string]bool {
	m := map[string]bool{}
	ast.Inspect(e, func(x ast.Node) bool {
		if id, ok := x.(*ast.Ident); ok {
			m[id.Name] = true
		}
		return true
	})
	return m
}

// the module function a call denotes when it writes into slice arguments (nil otherwise; function literals never do: they capture)
func (k *kernel) writingCallee(call *ast.CallExpr) *funcRef {
	if call == nil || k.closureOf(call.Fun) != nil {
		return nil
	}
	r := k.resolveFunc(call.Fun)
	if r == nil || len(k.w.writtenParams(r)) == 0 {
		return nil
	}
	if _, _, ok := k.typedSignature(r); !ok {
		return nil
	}
	return r
}

// after the Go results of a call held in `tmp` (a tuple of nout components, the first ngo of which are the Go results) have been
// bound: the written arguments are re-bound to the remaining components
func (k *kernel) bindWritten(ind int, n ast.Node, tmp string, ngo, nout int, ws []*variable) {
	for j, v := range ws {
		t := k.targetVar(v, n)
		k.use(t)
		k.assigned(t)
		k.w.sliceUse[k.rootName()] = true
		k.line(ind, "let %s : %s := %s%s", t.lean, t.typ(), tmp, proj(ngo+j, nout))
	}
}

// `f(args…)` as a statement, f a function of the module without Go results that writes into slice arguments
func (k *kernel) writingCallStmt(ind int, s *ast.ExprStmt, call *ast.CallExpr, r *funcRef) {
	ws := k.writtenArgs(call, r)
	k.allowWrites = true
	text, outs, ok := k.callTyped(call)
	k.allowWrites = false
	if !ok || len(outs) != len(ws) {
		k.fail(s, "call of %s as a statement: it has results", r.fd.Name.Name)
	}
	if k.lastPartial {
		k.fail(s, "call of %s, which may panic and writes into a slice argument, as a statement", r.fd.Name.Name)
	}
	k.ncall++
	tmp := k.fresh(fmt.Sprintf("call%d", k.ncall))
	k.line(ind, "let %s : %s := %s", tmp, tupleTypeOf(outs), text)
	k.bindWritten(ind, s, tmp, 0, len(outs), ws)
}

// a helper being translated: the current values of the parameters it writes, to be appended to every returned tuple
func (k *kernel) writtenNames() []string {
	var out []string
	for _, v := range k.writtenVars {
		k.use(v)
		out = append(out, v.lean)
	}
	return out
}

var _ = token.NoPos
