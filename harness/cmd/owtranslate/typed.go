package main

import (
	"go/ast"
	"strings"
)

// ---- typed tuples and binders (float64 ↦ α, int ↦ Int, bool ↦ Bool, []float64 / whole series ↦ List α)

func typesOf(vs []*variable) []string {
	var ts []string
	for _, v := range vs {
		ts = append(ts, v.typ())
	}
	return ts
}

func tupleTypeOf(ts []string) string {
	if len(ts) == 0 {
		return "Unit"
	}
	return strings.Join(ts, " × ")
}

func tupleTypeVs(vs []*variable) string { return tupleTypeOf(typesOf(vs)) }

// (a b : α) (n : Int) (xs : List α): consecutive variables of one type share a binder
func binderTyped(names, types []string) string {
	var b strings.Builder
	for i := 0; i < len(names); {
		j := i
		for j < len(names) && types[j] == types[i] {
			j++
		}
		b.WriteString(" (" + strings.Join(names[i:j], " ") + " : " + types[i] + ")")
		i = j
	}
	return b.String()
}

func binderVs(vs []*variable) string {
	var ns []string
	for _, v := range vs {
		ns = append(ns, v.lean)
	}
	return binderTyped(ns, typesOf(vs))
}

// the type of a step's result: (states) × (outputs), or the non-empty one of the two
func stepTypeVs(sts []*variable, no int) string {
	if len(sts) > 0 && no > 0 {
		return "(" + tupleTypeVs(sts) + ") × (" + tupleType(no) + ")"
	}
	if len(sts) > 0 {
		return tupleTypeVs(sts)
	}
	return tupleType(no)
}

// the Lean type of a Go type expression of the subset ("" = outside)
func (k *kernel) leanType(t ast.Expr, imp map[string]string, tables bool) string {
	switch {
	case isIdent(t, "float64"):
		return "α"
	case isIdent(t, "int"):
		return "Int"
	case isIdent(t, "bool"):
		return "Bool"
	}
	if at, ok := t.(*ast.ArrayType); ok && at.Len == nil && isIdent(at.Elt, "float64") {
		return "List α"
	}
	if tables && k.isSeriesType(t, imp) {
		return "List α"
	}
	return ""
}

func kindOfType(t string) vkind {
	if strings.HasPrefix(t, "{") {
		return vStruct
	}
	switch t {
	case "σ":
		return vSeries
	case "Int":
		return vIntVar
	case "Bool":
		return vBool
	case "List α":
		return vSlice
	}
	return vFloat
}

// flattened (name, type expression) pairs of a field list
func fields(fl *ast.FieldList) (names []*ast.Ident, types []ast.Expr) {
	if fl == nil {
		return
	}
	for _, f := range fl.List {
		if len(f.Names) == 0 {
			names = append(names, nil)
			types = append(types, f.Type)
		}
		for _, n := range f.Names {
			names = append(names, n)
			types = append(types, f.Type)
		}
	}
	return
}

// the zero value of a Lean type of the subset
func zeroOf(t string) string {
	switch t {
	case "Int":
		return "0"
	case "Bool":
		return "false"
	case "List α":
		return "[]"
	}
	return "Num.zero"
}
