package main

import (
	"go/ast"
	"go/token"
)

// ---- RANGE LOOPS WITH AN INDEX and `copy` (work package R3)
//
//	for i := range xs { B }        ↦  for i := 0; i < len(xs); i++ { B }
//	for i, v := range xs { B }     ↦  for i := 0; i < len(xs); i++ { v := xs[i]; B }
//
// which is what the Go specification defines the statement to be for a slice `xs`, provided B does not assign `i` (a range loop
// would ignore the assignment) and does not assign the variable `xs` itself (the range expression is evaluated once; element
// assignments `xs[j] = e` are seen by later iterations in both forms). Both conditions are checked; the loop is then rendered as
// the three-clause loop is (`forRange 0 (sliceLen xs) body carried`).
//
//	copy(dst[a:b], src[c:d])       ↦  dst := sliceCopy dst a b src c d      (an omitted low bound is 0, an omitted high bound the length)
//
// with `sliceCopy` of lean/OW/Gen/Prelude.lean (Go copies min(b-a, d-c) elements as if through a temporary, so `dst` and `src`
// may be the same slice). Slice bounds beyond the length (legal in Go up to the capacity) are outside the model, like every
// out-of-range access.

// some statement of the body assigns the variable `name` itself (`name = e`, `name := e`, `name++`, `name, x = …`); element
// assignments `name[i] = e` do not count
func assignsName(body ast.Node, name string) bool {
	found := false
	ast.Inspect(body, func(n ast.Node) bool {
		switch s := n.(type) {
		case *ast.AssignStmt:
			for _, l := range s.Lhs {
				if isIdent(unparen(l), name) {
					found = true
				}
			}
		case *ast.IncDecStmt:
			if isIdent(unparen(s.X), name) {
				found = true
			}
		case *ast.RangeStmt:
			if (s.Key != nil && isIdent(s.Key, name)) || (s.Value != nil && isIdent(s.Value, name)) {
				found = true
			}
		case *ast.UnaryExpr:
			if s.Op == token.AND && isIdent(unparen(s.X), name) {
				found = true
			}
		}
		return !found
	})
	return found
}

// the three-clause loop a range statement with an index stands for (nil: not of that form)
func (k *kernel) rangeAsFor(s *ast.RangeStmt) *ast.ForStmt {
	key, ok := s.Key.(*ast.Ident)
	if !ok || key.Name == "_" || s.Tok != token.DEFINE {
		return nil
	}
	xs, ok := unparen(s.X).(*ast.Ident)
	if !ok {
		return nil
	}
	v := k.lookup(xs.Name)
	if v == nil || (v.kind != vSlice && v.kind != vList) {
		return nil
	}
	if k.lookup("len") != nil {
		k.fail(s, "range loop in a scope that redefines len")
	}
	if assignsName(s.Body, key.Name) {
		k.fail(s, "range loop whose body assigns its index variable %s", key.Name)
	}
	if assignsName(s.Body, xs.Name) {
		k.fail(s, "range loop whose body assigns %s, the slice it ranges over", xs.Name)
	}
	list := s.Body.List
	if val, ok := s.Value.(*ast.Ident); ok && val.Name != "_" {
		if val.Name == key.Name || val.Name == xs.Name {
			k.fail(s, "range loop whose value variable hides its index or its slice")
		}
		elem := &ast.AssignStmt{Lhs: []ast.Expr{val}, TokPos: val.Pos(), Tok: token.DEFINE,
			Rhs: []ast.Expr{&ast.IndexExpr{X: &ast.Ident{NamePos: s.X.Pos(), Name: xs.Name}, Lbrack: s.X.End(),
				Index: &ast.Ident{NamePos: s.X.End(), Name: key.Name}, Rbrack: s.X.End()}}}
		// the element is read at the start of the iteration; a body that never mentions it must still be a valid Go block
		list = append([]ast.Stmt{elem}, list...)
	} else if s.Value != nil && !isIdent(s.Value, "_") {
		return nil
	}
	one := &ast.BasicLit{ValuePos: key.Pos(), Kind: token.INT, Value: "0"}
	return &ast.ForStmt{For: s.For,
		Init: &ast.AssignStmt{Lhs: []ast.Expr{key}, TokPos: key.Pos(), Tok: token.DEFINE, Rhs: []ast.Expr{one}},
		Cond: &ast.BinaryExpr{X: &ast.Ident{NamePos: key.Pos(), Name: key.Name}, OpPos: key.End(), Op: token.LSS,
			Y: &ast.CallExpr{Fun: &ast.Ident{NamePos: s.X.Pos(), Name: "len"}, Lparen: s.X.Pos(),
				Args: []ast.Expr{&ast.Ident{NamePos: s.X.Pos(), Name: xs.Name}}, Rparen: s.X.End()}},
		Post: &ast.IncDecStmt{X: &ast.Ident{NamePos: key.Pos(), Name: key.Name}, TokPos: key.End(), Tok: token.INC},
		Body: &ast.BlockStmt{Lbrace: s.Body.Lbrace, List: list, Rbrace: s.Body.Rbrace}}
}

func (k *kernel) isCopyCall(call *ast.CallExpr) bool {
	return call != nil && isIdent(call.Fun, "copy") && k.lookup("copy") == nil && len(call.Args) == 2 && !call.Ellipsis.IsValid()
}

// `xs`, `xs[a:b]`, `xs[a:]`, `xs[:b]`, `xs[:]` of a []float64 variable: the variable and the bounds as Lean Int atoms
func (k *kernel) sliceOperand(e ast.Expr) (v *variable, lo, hi string) {
	e = unparen(e)
	var loE, hiE ast.Expr
	if se, ok := e.(*ast.SliceExpr); ok {
		if se.Slice3 || se.Max != nil {
			k.fail(e, "three-index slice expression")
		}
		e, loE, hiE = unparen(se.X), se.Low, se.High
	}
	id, ok := e.(*ast.Ident)
	if ok {
		v = k.lookup(id.Name)
	}
	if v == nil || (v.kind != vSlice && v.kind != vList) {
		k.fail(e, "operand of copy that is not a []float64 variable or a slice expression of one")
	}
	k.use(v)
	lo, hi = "0", "(sliceLen "+v.lean+")"
	if loE != nil {
		s, p := k.intExpr(loE)
		lo = paren(s, p, pAtom)
	}
	if hiE != nil {
		s, p := k.intExpr(hiE)
		hi = paren(s, p, pAtom)
	}
	return
}

// copy(dst[a:b], src[c:d]) as a statement
func (k *kernel) copyStmt(ind int, s ast.Stmt, call *ast.CallExpr) {
	src, slo, shi := k.sliceOperand(call.Args[1])
	dst, dlo, dhi := k.sliceOperand(call.Args[0])
	if dst.kind != vSlice {
		k.fail(s, "copy into a series")
	}
	t := k.targetVar(dst, s)
	k.w.sliceUse[k.rootName()] = true
	k.assigned(t)
	k.line(ind, "let %s : List α := sliceCopy %s %s %s %s %s %s", t.lean, t.lean, dlo, dhi, src.lean, slo, shi)
}

// two return statements with the same source text (comments and layout aside)
func sameReturn(fset *token.FileSet, a, b *ast.ReturnStmt) bool {
	if len(a.Results) != len(b.Results) {
		return false
	}
	for i := range a.Results {
		if exprText(a.Results[i]) != exprText(b.Results[i]) {
			return false
		}
	}
	return true
}

// a canonical text of an expression of identifiers, literals, selectors, parentheses, unary and binary operators ("" otherwise)
func exprText(e ast.Expr) string {
	switch e := e.(type) {
	case *ast.Ident:
		return e.Name
	case *ast.BasicLit:
		return e.Value
	case *ast.ParenExpr:
		return exprText(e.X)
	case *ast.SelectorExpr:
		if x := exprText(e.X); x != "" {
			return x + "." + e.Sel.Name
		}
	case *ast.UnaryExpr:
		if x := exprText(e.X); x != "" {
			return "(" + e.Op.String() + x + ")"
		}
	case *ast.BinaryExpr:
		x, y := exprText(e.X), exprText(e.Y)
		if x != "" && y != "" {
			return "(" + x + e.Op.String() + y + ")"
		}
	}
	return ""
}

// evaluating the expression has no effect and cannot panic: identifiers, literals, field selections and arithmetic on them
func pureValue(e ast.Expr) bool { return exprText(e) != "" && !containsDiv(e) }

func containsDiv(e ast.Expr) bool {
	found := false
	ast.Inspect(e, func(n ast.Node) bool {
		if b, ok := n.(*ast.BinaryExpr); ok && (b.Op == token.QUO || b.Op == token.REM) {
			found = true // an integer division may panic
		}
		return !found
	})
	return found
}
