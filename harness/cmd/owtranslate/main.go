// owtranslate — regenerates, from the CURRENT Go source of openwater-core, a Lean definition of the loop body of each
// simple time-stepping kernel (the "syntactic tie": OW/Props/GenTie.lean proves that each regenerated definition equals
// the hand-written model's step function, so every theorem about the hand-written model is re-attached on every run to
// what the source says now).
//
//	owtranslate [-repo DIR] OUT.lean        (DIR defaults to $OW_REPO, then /repo; OUT is written only when changed;
//	                                         a JSON report of tied / unsupported kernels goes to stdout)
//
// Supported subset (anything else ⇒ the kernel is reported "unsupported: <construct> at file:line" and skipped):
//   - parameters: data.ND1Float64 series and float64 scalars; results: float64 (named or not)
//   - before the loop: `n := xs.Len1()`, `idx := []int{0}`, float / bool declarations and assignments (`:=`, `var`), local
//     `const`, `if` statements that only assign (merged like in the loop), `if cond { return }` guards (the kernel returns
//     before writing anything), `xs.Get(idx)` with the untouched `idx := []int{0}` / `xs.Get1(0)` (the FIRST element of a
//     series: an extra argument `xs0` of guard/pre/init; the Go code panics on an empty series), and ONE returning branch
//     `if cond { [x =] Callee(args…); return … }` that hands the whole run to another kernel function of the module
//     (DELEGATION: the callee is translated with the nil-pattern of the call into the nested namespace `delegate`, and
//     `delegates / delegateInit / delegateStep / delegateFinal` express its run in terms of this function's parameters and
//     series). A returning branch that is not of that form is recorded as `abstractBranch` (its condition is translated,
//     its body is NOT: reported as such). A function whose whole body is one call of another kernel function (a wrapper
//     binding a function-valued parameter, e.g. sednetGullyOrig) is a delegation with condition `true`.
//   - ONE loop `for i := 0; i < n; i++ { … }`; in it: `idx[0] = i`, float / bool `:=  =  +=  -=  *=  /=`, `var`,
//     `a, b := f(…)`, `if / else if / else`, `continue`, `xs.Get(idx)` / `xs.Get1(i)` (current element),
//     `out.Set(idx, e)` / `out.Set1(i, e)`. A variable assigned in the loop, carried to the next iteration and not returned
//     is a HIDDEN state (appended to the state tuple of `init` and `step`).
//   - expressions: + - * /, unary minus, comparisons, && || !, literals, true / false, named constants (package-level,
//     local, imported from packages of the same module, math.Pi …; constant expressions are folded EXACTLY with go/constant
//     and rounded once to float64; a constant defined by one plain decimal literal keeps that literal's spelling),
//     math.Min/Max/Abs/Exp/Pow/Log/Log10/Tanh/Cos/Sqrt/Floor/Ceil/NaN/IsNaN, m.MinFloat64/MaxFloat64, and calls of
//     HELPER functions of the module whose parameters and results are all float64 (translated to a Lean `def` of the same
//     namespace: statements as in the loop plus `return` anywhere; no recursion). A helper outside the subset (e.g. one
//     that loops) called directly from the kernel body becomes an ABSTRACT function argument of guard/pre/init/step
//     (reported as such: its body is not tied).
//   - in a helper: `for i := 0; i < N; i++ { … }` with a constant N, `i` unused, `break` / `continue` allowed
//     (`boundedLoop body N carried`, the carried tuple = the outer variables the body assigns, in declaration order)
//   - `v, err := pkg.F(args…); if err != nil { panic(err) }` with F a function of the module with results (float64, error)
//     that takes whole series (fn.Piecewise): F is NOT translated, it is an argument of `step` of type
//     α → σ → … → Option α (σ: the abstract type of a whole series); `panic(…)` ends the step with `none` (`step` then
//     returns an Option); fmt.Print* statements are ignored; an `int` parameter is accepted when the body does not use it
//   - after the loop: one `return` of variables (the state variables, in order)
//
// Semantics the translation relies on (= Go's for this subset): operands are pure, so evaluation order is irrelevant
// except for the association of float operations, which is the AST's (Go precedence, left-associative); every float64
// operation rounds once (no fused multiply-add on amd64); assignments are emitted as shadowing `let`s in program order,
// so renaming a local, adding a temporary or swapping independent assignments yields a definitionally equal term.
package main

import (
	"encoding/json"
	"flag"
	"fmt"
	"go/ast"
	"go/constant"
	"go/parser"
	"go/token"
	"os"
	"path/filepath"
	"regexp"
	"sort"
	"strconv"
	"strings"
)

// the kernels to translate: package directory, function, and whether `series != nil` tests may be taken as true
// (the generated wrappers always pass allocated arrays; recorded in the output as an assumption).
var table = []struct {
	Dir, Func string
	NonNil    bool
}{
	{"models/rr", "runoffCoefficient", false},
	{"models/routing", "muskingum", false},
	{"models/routing", "LumpedConstituentTransport", true},
	{"models/routing", "constituentDecay", false},
	{"models/routing", "instreamCoarseSediment", false},
	{"models/routing", "instreamParticulateNutrient", false},
	{"models/routing", "instreamDissolvedNutrient", false},
	{"models/routing", "instreamFineSediment", false},
	{"models/routing", "lag", false},
	{"models/conversion", "applyScaling", false},
	{"models/conversion", "depthToRate", false},
	{"models/conversion", "fixedPartition", false},
	{"models/conversion", "variablePartition", false},
	{"models/conversion", "ratingPartition", false},
	{"models/functions", "sum", false},
	{"models/functions", "gate", false},
	{"models/functions", "computeProportion", false},
	{"models/functions", "partitionDemand", false},
	{"models/generation", "emcDWC", false},
	{"models/generation", "fixedConcentration", false},
	{"models/generation", "passLoadIfFlow", false},
	{"models/generation", "dissolvedNutrients", false},
	{"models/generation", "particulateNutrients", false},
	{"models/generation", "bankErosion", false},
	{"models/generation", "usleFine", false},
	{"models/generation", "sednetGullyOrig", false},
	{"models/generation", "sednetGullyDerm", false},
	{"models/rr", "simhyd", false},
	{"models/rr", "surm", false},
	{"models/rr", "gr4j", false},
	{"models/rr", "sacramento", false},
	{"models/routing", "storageRouting", false},
	{"models/storage", "storageParticulateTrapping", false},
	{"models/storage", "storageDissolvedDecay", false},
	{"models/storage", "storageTrapAll", false},
	{"models/storage", "storageWaterBalance", false},
	{"models/functions", "baseflowFilter", false},
	{"models/functions", "inputNode", false},
	{"models/functions", "dateGenerator", false},
	{"models/climate", "climateVariables", false},
}

type unsupported struct{ msg string }

// ---------------------------------------------------------------------------------------------
// packages and constants

type cval struct {
	v     constant.Value
	typed bool // typed float64 constant: rounded to float64 after every operation
}

type pkg struct {
	dir    string
	files  map[string]*ast.File // by file name
	consts map[string]*ast.ValueSpec
	cfile  map[string]*ast.File
	cidx   map[string]int
	memo   map[string]*cval
	busy   map[string]bool
	funcs  map[string]*ast.FuncDecl // package-level functions (no methods)
	ffile  map[string]*ast.File
	types  map[string]*ast.TypeSpec
}

type world struct {
	repo, module string
	fset         *token.FileSet
	pkgs         map[string]*pkg
}

func (w *world) load(dir string) *pkg {
	if p, ok := w.pkgs[dir]; ok {
		return p
	}
	p := &pkg{dir: dir, files: map[string]*ast.File{}, consts: map[string]*ast.ValueSpec{}, cfile: map[string]*ast.File{},
		cidx: map[string]int{}, memo: map[string]*cval{}, busy: map[string]bool{}, funcs: map[string]*ast.FuncDecl{},
		ffile: map[string]*ast.File{}, types: map[string]*ast.TypeSpec{}}
	w.pkgs[dir] = p
	names, _ := filepath.Glob(filepath.Join(w.repo, dir, "*.go"))
	sort.Strings(names)
	for _, fn := range names {
		if strings.HasSuffix(fn, "_test.go") {
			continue
		}
		f, err := parser.ParseFile(w.fset, fn, nil, parser.SkipObjectResolution)
		if err != nil {
			continue // a file that does not parse cannot contribute a kernel or a constant; the Go build reports it
		}
		p.files[filepath.Base(fn)] = f
		for _, d := range f.Decls {
			if fd, ok := d.(*ast.FuncDecl); ok && fd.Recv == nil {
				if _, dup := p.funcs[fd.Name.Name]; !dup {
					p.funcs[fd.Name.Name] = fd
					p.ffile[fd.Name.Name] = f
				}
				continue
			}
			gd, ok := d.(*ast.GenDecl)
			if ok && gd.Tok == token.TYPE {
				for _, s := range gd.Specs {
					ts := s.(*ast.TypeSpec)
					p.types[ts.Name.Name] = ts
				}
			}
			if !ok || gd.Tok != token.CONST {
				continue
			}
			for _, s := range gd.Specs {
				vs := s.(*ast.ValueSpec)
				for i, n := range vs.Names {
					p.consts[n.Name] = vs
					p.cfile[n.Name] = f
					p.cidx[n.Name] = i
				}
			}
		}
	}
	return p
}

func imports(f *ast.File) map[string]string {
	m := map[string]string{}
	for _, is := range f.Imports {
		path, _ := strconv.Unquote(is.Path.Value)
		name := path[strings.LastIndex(path, "/")+1:]
		if is.Name != nil {
			name = is.Name.Name
		}
		m[name] = path
	}
	return m
}

func round64(v constant.Value) constant.Value {
	f, _ := constant.Float64Val(constant.ToFloat(v))
	return constant.MakeFloat64(f)
}

// constant evaluation with Go's rules: untyped arithmetic exact, integer division for two integer operands, typed
// float64 operands and results rounded to float64. `lookup` resolves identifiers (nil, false ⇒ not a constant).
type constEnv struct {
	w      *world
	p      *pkg
	file   *ast.File
	locals func(name string) (*cval, bool, bool) // value, isConst, shadowsPackageLevel
}

func (ce constEnv) eval(e ast.Expr) (*cval, bool) {
	switch e := e.(type) {
	case *ast.BasicLit:
		if e.Kind == token.INT || e.Kind == token.FLOAT {
			return &cval{v: constant.MakeFromLiteral(e.Value, e.Kind, 0)}, true
		}
	case *ast.ParenExpr:
		return ce.eval(e.X)
	case *ast.Ident:
		if ce.locals != nil {
			if c, isConst, shadows := ce.locals(e.Name); shadows {
				return c, isConst
			}
		}
		return ce.p.constant(ce.w, e.Name)
	case *ast.SelectorExpr:
		if x, ok := e.X.(*ast.Ident); ok {
			if ce.locals != nil {
				if _, _, shadows := ce.locals(x.Name); shadows {
					return nil, false
				}
			}
			path, ok := imports(ce.file)[x.Name]
			if ok && strings.HasPrefix(path, ce.w.module+"/") {
				return ce.w.load(strings.TrimPrefix(path, ce.w.module+"/")).constant(ce.w, e.Sel.Name)
			}
			if lit, isMath := mathConsts[e.Sel.Name]; ok && path == "math" && isMath {
				return &cval{v: constant.MakeFromLiteral(lit, token.FLOAT, 0)}, true
			}
		}
	case *ast.UnaryExpr:
		if e.Op == token.SUB || e.Op == token.ADD {
			if x, ok := ce.eval(e.X); ok {
				r := &cval{v: constant.UnaryOp(e.Op, x.v, 0), typed: x.typed}
				return r, true
			}
		}
	case *ast.BinaryExpr:
		switch e.Op {
		case token.ADD, token.SUB, token.MUL, token.QUO:
		default:
			return nil, false
		}
		x, ok1 := ce.eval(e.X)
		if !ok1 {
			return nil, false
		}
		y, ok2 := ce.eval(e.Y)
		if !ok2 {
			return nil, false
		}
		xv, yv, typed := x.v, y.v, x.typed || y.typed
		if typed {
			xv, yv = round64(xv), round64(yv)
		}
		op := e.Op
		if op == token.QUO {
			if constant.Sign(yv) == 0 {
				return nil, false
			}
			if xv.Kind() == constant.Int && yv.Kind() == constant.Int {
				op = token.QUO_ASSIGN // integer division
			}
		}
		r := constant.BinaryOp(xv, op, yv)
		if r.Kind() == constant.Unknown {
			return nil, false
		}
		if typed {
			r = round64(r)
		}
		return &cval{v: r, typed: typed}, true
	case *ast.CallExpr: // float64(constant)
		if f, ok := e.Fun.(*ast.Ident); ok && f.Name == "float64" && len(e.Args) == 1 {
			if ce.locals != nil {
				if _, _, shadows := ce.locals("float64"); shadows {
					return nil, false
				}
			}
			if x, ok := ce.eval(e.Args[0]); ok {
				return &cval{v: round64(x.v), typed: true}, true
			}
		}
	}
	return nil, false
}

func (p *pkg) constant(w *world, name string) (*cval, bool) {
	if c, ok := p.memo[name]; ok {
		return c, c != nil
	}
	vs, ok := p.consts[name]
	if !ok || p.busy[name] || p.cidx[name] >= len(vs.Values) { // implicit repetition / iota: not in the subset
		return nil, false
	}
	p.busy[name] = true
	defer delete(p.busy, name)
	c, ok := constEnv{w: w, p: p, file: p.cfile[name]}.eval(vs.Values[p.cidx[name]])
	if ok && vs.Type != nil {
		if t, isId := vs.Type.(*ast.Ident); isId && t.Name == "float64" {
			c = &cval{v: round64(c.v), typed: true}
		} else {
			ok = false
		}
	}
	if !ok {
		p.memo[name] = nil
		return nil, false
	}
	p.memo[name] = c
	return c, true
}

// the untyped constants of package math (src/math/const.go), digit for digit
var mathConsts = map[string]string{
	"E":      "2.71828182845904523536028747135266249775724709369995957496696763",
	"Pi":     "3.14159265358979323846264338327950288419716939937510582097494459",
	"Phi":    "1.61803398874989484820458683436563811772030917980576286213544862",
	"Sqrt2":  "1.41421356237309504880168872420969807856967187537694807317667974",
	"SqrtE":  "1.64872127070012814684865078781416357165377610071014801157507931",
	"SqrtPi": "1.77245385090551602729816748334114518279754945612238712821380779",
	"Ln2":    "0.693147180559945309417232121458176568075500134360255254120680009",
	"Ln10":   "2.30258509299404568401799145468436420760110148862877297603332790",
}

var (
	rePlain = regexp.MustCompile(`^[0-9]+\.[0-9]+$`)
	reDot   = regexp.MustCompile(`^[0-9]+\.$`)
	reInt   = regexp.MustCompile(`^(0|[1-9][0-9]*)$`)
	reFloat = regexp.MustCompile(`^[0-9]+\.[0-9]+([eE][+-]?[0-9]+)?$|^[0-9]+[eE][+-]?[0-9]+$`)
)

// the correctly rounded float64 value of a constant as a Lean literal (shortest decimal that round-trips)
func leanOfValue(v constant.Value) string {
	f, _ := constant.Float64Val(constant.ToFloat(v))
	s := strconv.FormatFloat(f, 'f', -1, 64)
	if f < 0 {
		return "(" + s + ")"
	}
	return s
}

func main() {
	repo := flag.String("repo", "", "repository root (default $OW_REPO, then /repo)")
	flag.Parse()
	if *repo == "" {
		*repo = os.Getenv("OW_REPO")
	}
	if *repo == "" {
		*repo = "/repo"
	}
	if flag.NArg() != 1 {
		fmt.Fprintln(os.Stderr, "usage: owtranslate [-repo DIR] OUT.lean")
		os.Exit(2)
	}
	abs, err := filepath.Abs(*repo)
	if err != nil {
		fmt.Fprintln(os.Stderr, err)
		os.Exit(2)
	}
	gm, err := os.ReadFile(filepath.Join(abs, "go.mod"))
	if err != nil {
		fmt.Fprintln(os.Stderr, err)
		os.Exit(2)
	}
	m := regexp.MustCompile(`(?m)^module\s+(\S+)`).FindSubmatch(gm)
	if m == nil {
		fmt.Fprintln(os.Stderr, "no module line in go.mod")
		os.Exit(2)
	}
	w := &world{repo: abs, module: string(m[1]), fset: token.NewFileSet(), pkgs: map[string]*pkg{}}
	var b strings.Builder
	b.WriteString("import OW.Num\n/-\nGENERATED by harness/cmd/owtranslate from the Go source of the kernels — do not edit; regenerated on every run.\n" +
		"One namespace per Go function: `guard` (early return before the loop), `pre` (values computed before the loop),\n" +
		"`init` (state on loop entry), `step` (one iteration). Assignments are shadowing `let`s in program order; an `if` that\n" +
		"cannot end the step is a merge `let phiN := if … then (…) else (…)`; an output not set on a path keeps `Num.zero`.\n-/\n" +
		"set_option linter.unusedVariables false\nnamespace OW.Gen.K\nopen OW\n\n" +
		"/-- `for i := 0; i < n; i++ { c = body c; if <break> { break } }`: `body` returns the new carried values and whether the loop is left -/\n" +
		"def boundedLoop {σ : Type} (body : σ → σ × Bool) : Nat → σ → σ\n  | 0, c => c\n  | n + 1, c => let r := body c; if r.2 then r.1 else boundedLoop body n r.1\n\n")
	var reps []report
	var tied []string
	for _, t := range table {
		text, rep := translateOne(w, t.Dir, t.Func, t.NonNil)
		reps = append(reps, rep)
		if rep.Status == "ok" {
			b.WriteString(text + "\n")
			tied = append(tied, strconv.Quote(t.Func))
		} else {
			fmt.Fprintf(&b, "-- %s (%s): %s: %s\n\n", t.Func, t.Dir, rep.Status, rep.Reason)
		}
	}
	fmt.Fprintf(&b, "/-- the Go functions translated in this run -/\ndef translated : List String := [%s]\n\nend OW.Gen.K\n", strings.Join(tied, ", "))
	out := flag.Arg(0)
	old, _ := os.ReadFile(out)
	changed := string(old) != b.String()
	if changed {
		tmp := fmt.Sprintf("%s.%d.tmp", out, os.Getpid())
		if err := os.WriteFile(tmp, []byte(b.String()), 0o644); err != nil {
			fmt.Fprintln(os.Stderr, err)
			os.Exit(2)
		}
		if err := os.Rename(tmp, out); err != nil {
			fmt.Fprintln(os.Stderr, err)
			os.Exit(2)
		}
	}
	js, _ := json.MarshalIndent(map[string]interface{}{"repo": abs, "out": out, "changed": changed, "kernels": reps}, "", " ")
	fmt.Println(string(js))
}
