// owtranslate — regenerates, from the CURRENT Go source of openwater-core, a Lean definition of the loop body of each
// simple time-stepping kernel (the "syntactic tie": OW/Props/GenTie.lean proves that each regenerated definition equals
// the hand-written model's step function, so every theorem about the hand-written model is re-attached on every run to
// what the source says now).
//
//	owtranslate [-repo DIR] OUT.lean        (DIR defaults to $OW_REPO, then /repo; OUT is written only when changed;
//	                                         a JSON report of tied / unsupported kernels goes to stdout)
//
// Supported subset (anything else ⇒ the kernel is reported "unsupported: <construct> at file:line" and skipped):
//   - parameters: data.ND1Float64 series and float64 scalars; results: float64 (named or not)
//   - before the loop: `n := xs.Len1()`, `idx := []int{0}`, float declarations/assignments, local `const`,
//     `if cond { return }` guards (the kernel returns before writing anything)
//   - ONE loop `for i := 0; i < n; i++ { … }`; in it: `idx[0] = i`, float `:=  =  +=  -=  *=  /=`, `if / else if / else`,
//     `continue`, `xs.Get(idx)` / `xs.Get1(i)` (current element), `out.Set(idx, e)` / `out.Set1(i, e)`
//   - expressions: + - * /, unary minus, comparisons, && || !, literals, named constants (package-level, local, imported from
//     packages of the same module; constant expressions are folded EXACTLY with go/constant and rounded once to float64),
//     math.Min/Max/Abs/Exp/Pow/Log/Log10/Tanh/Cos/Sqrt/Floor/Ceil, m.MinFloat64/MaxFloat64
//   - after the loop: one `return` of variables (the state variables, in order)
//
// Semantics the translation relies on (= Go's for this subset): operands are pure, so evaluation order is irrelevant
// except for the association of float operations, which is the AST's (Go precedence, left-associative); every float64
// operation rounds once (no fused multiply-add on amd64); assignments are emitted as shadowing `let`s in program order,
// so renaming a local, adding a temporary or swapping independent assignments yields a definitionally equal term.
package main

import (
	"encoding/json"
	"flag"
	"fmt"
	"go/ast"
	"go/constant"
	"go/parser"
	"go/token"
	"os"
	"path/filepath"
	"regexp"
	"sort"
	"strconv"
	"strings"
)

// the kernels to translate: package directory, function, and whether `series != nil` tests may be taken as true
// (the generated wrappers always pass allocated arrays; recorded in the output as an assumption).
var table = []struct {
	Dir, Func string
	NonNil    bool
}{
	{"models/rr", "runoffCoefficient", false},
	{"models/routing", "muskingum", false},
	{"models/routing", "LumpedConstituentTransport", true},
	{"models/routing", "constituentDecay", false},
	{"models/routing", "instreamCoarseSediment", false},
	{"models/routing", "instreamParticulateNutrient", false},
	{"models/routing", "instreamDissolvedNutrient", false},
	{"models/routing", "instreamFineSediment", false},
	{"models/routing", "lag", false},
	{"models/conversion", "applyScaling", false},
	{"models/conversion", "depthToRate", false},
	{"models/conversion", "fixedPartition", false},
	{"models/conversion", "variablePartition", false},
	{"models/conversion", "ratingPartition", false},
	{"models/functions", "sum", false},
	{"models/functions", "gate", false},
	{"models/functions", "computeProportion", false},
	{"models/functions", "partitionDemand", false},
	{"models/generation", "emcDWC", false},
	{"models/generation", "fixedConcentration", false},
	{"models/generation", "passLoadIfFlow", false},
	{"models/generation", "dissolvedNutrients", false},
	{"models/generation", "particulateNutrients", false},
	{"models/generation", "bankErosion", false},
	{"models/generation", "usleFine", false},
}

type unsupported struct{ msg string }

// ---------------------------------------------------------------------------------------------
// packages and constants

type cval struct {
	v     constant.Value
	typed bool // typed float64 constant: rounded to float64 after every operation
}

type pkg struct {
	dir    string
	files  map[string]*ast.File // by file name
	consts map[string]*ast.ValueSpec
	cfile  map[string]*ast.File
	cidx   map[string]int
	memo   map[string]*cval
	busy   map[string]bool
}

type world struct {
	repo, module string
	fset         *token.FileSet
	pkgs         map[string]*pkg
}

func (w *world) load(dir string) *pkg {
	if p, ok := w.pkgs[dir]; ok {
		return p
	}
	p := &pkg{dir: dir, files: map[string]*ast.File{}, consts: map[string]*ast.ValueSpec{}, cfile: map[string]*ast.File{},
		cidx: map[string]int{}, memo: map[string]*cval{}, busy: map[string]bool{}}
	w.pkgs[dir] = p
	names, _ := filepath.Glob(filepath.Join(w.repo, dir, "*.go"))
	sort.Strings(names)
	for _, fn := range names {
		if strings.HasSuffix(fn, "_test.go") {
			continue
		}
		f, err := parser.ParseFile(w.fset, fn, nil, parser.SkipObjectResolution)
		if err != nil {
			continue // a file that does not parse cannot contribute a kernel or a constant; the Go build reports it
		}
		p.files[filepath.Base(fn)] = f
		for _, d := range f.Decls {
			gd, ok := d.(*ast.GenDecl)
			if !ok || gd.Tok != token.CONST {
				continue
			}
			for _, s := range gd.Specs {
				vs := s.(*ast.ValueSpec)
				for i, n := range vs.Names {
					p.consts[n.Name] = vs
					p.cfile[n.Name] = f
					p.cidx[n.Name] = i
				}
			}
		}
	}
	return p
}

func imports(f *ast.File) map[string]string {
	m := map[string]string{}
	for _, is := range f.Imports {
		path, _ := strconv.Unquote(is.Path.Value)
		name := path[strings.LastIndex(path, "/")+1:]
		if is.Name != nil {
			name = is.Name.Name
		}
		m[name] = path
	}
	return m
}

func round64(v constant.Value) constant.Value {
	f, _ := constant.Float64Val(constant.ToFloat(v))
	return constant.MakeFloat64(f)
}

// constant evaluation with Go's rules: untyped arithmetic exact, integer division for two integer operands, typed
// float64 operands and results rounded to float64. `lookup` resolves identifiers (nil, false ⇒ not a constant).
type constEnv struct {
	w      *world
	p      *pkg
	file   *ast.File
	locals func(name string) (*cval, bool, bool) // value, isConst, shadowsPackageLevel
}

func (ce constEnv) eval(e ast.Expr) (*cval, bool) {
	switch e := e.(type) {
	case *ast.BasicLit:
		if e.Kind == token.INT || e.Kind == token.FLOAT {
			return &cval{v: constant.MakeFromLiteral(e.Value, e.Kind, 0)}, true
		}
	case *ast.ParenExpr:
		return ce.eval(e.X)
	case *ast.Ident:
		if ce.locals != nil {
			if c, isConst, shadows := ce.locals(e.Name); shadows {
				return c, isConst
			}
		}
		return ce.p.constant(ce.w, e.Name)
	case *ast.SelectorExpr:
		if x, ok := e.X.(*ast.Ident); ok {
			if ce.locals != nil {
				if _, _, shadows := ce.locals(x.Name); shadows {
					return nil, false
				}
			}
			path, ok := imports(ce.file)[x.Name]
			if ok && strings.HasPrefix(path, ce.w.module+"/") {
				return ce.w.load(strings.TrimPrefix(path, ce.w.module+"/")).constant(ce.w, e.Sel.Name)
			}
		}
	case *ast.UnaryExpr:
		if e.Op == token.SUB || e.Op == token.ADD {
			if x, ok := ce.eval(e.X); ok {
				r := &cval{v: constant.UnaryOp(e.Op, x.v, 0), typed: x.typed}
				return r, true
			}
		}
	case *ast.BinaryExpr:
		switch e.Op {
		case token.ADD, token.SUB, token.MUL, token.QUO:
		default:
			return nil, false
		}
		x, ok1 := ce.eval(e.X)
		if !ok1 {
			return nil, false
		}
		y, ok2 := ce.eval(e.Y)
		if !ok2 {
			return nil, false
		}
		xv, yv, typed := x.v, y.v, x.typed || y.typed
		if typed {
			xv, yv = round64(xv), round64(yv)
		}
		op := e.Op
		if op == token.QUO {
			if constant.Sign(yv) == 0 {
				return nil, false
			}
			if xv.Kind() == constant.Int && yv.Kind() == constant.Int {
				op = token.QUO_ASSIGN // integer division
			}
		}
		r := constant.BinaryOp(xv, op, yv)
		if r.Kind() == constant.Unknown {
			return nil, false
		}
		if typed {
			r = round64(r)
		}
		return &cval{v: r, typed: typed}, true
	case *ast.CallExpr: // float64(constant)
		if f, ok := e.Fun.(*ast.Ident); ok && f.Name == "float64" && len(e.Args) == 1 {
			if ce.locals != nil {
				if _, _, shadows := ce.locals("float64"); shadows {
					return nil, false
				}
			}
			if x, ok := ce.eval(e.Args[0]); ok {
				return &cval{v: round64(x.v), typed: true}, true
			}
		}
	}
	return nil, false
}

func (p *pkg) constant(w *world, name string) (*cval, bool) {
	if c, ok := p.memo[name]; ok {
		return c, c != nil
	}
	vs, ok := p.consts[name]
	if !ok || p.busy[name] || p.cidx[name] >= len(vs.Values) { // implicit repetition / iota: not in the subset
		return nil, false
	}
	p.busy[name] = true
	defer delete(p.busy, name)
	c, ok := constEnv{w: w, p: p, file: p.cfile[name]}.eval(vs.Values[p.cidx[name]])
	if ok && vs.Type != nil {
		if t, isId := vs.Type.(*ast.Ident); isId && t.Name == "float64" {
			c = &cval{v: round64(c.v), typed: true}
		} else {
			ok = false
		}
	}
	if !ok {
		p.memo[name] = nil
		return nil, false
	}
	p.memo[name] = c
	return c, true
}

var (
	reInt   = regexp.MustCompile(`^(0|[1-9][0-9]*)$`)
	reFloat = regexp.MustCompile(`^[0-9]+\.[0-9]+([eE][+-]?[0-9]+)?$|^[0-9]+[eE][+-]?[0-9]+$`)
)

// the correctly rounded float64 value of a constant as a Lean literal (shortest decimal that round-trips)
func leanOfValue(v constant.Value) string {
	f, _ := constant.Float64Val(constant.ToFloat(v))
	s := strconv.FormatFloat(f, 'f', -1, 64)
	if f < 0 {
		return "(" + s + ")"
	}
	return s
}

// ---------------------------------------------------------------------------------------------
// one kernel

type vkind int

const (
	vFloat vkind = iota
	vSeries
	vLen
	vIdx
	vLoop
	vConst
)

type variable struct {
	kind   vkind
	name   string // Go name
	lean   string
	c      *cval
	depth  int  // scope depth of the declaration
	inLoop bool // declared inside the loop body
	state  bool
	param  bool
	isOut  bool // the per-step value of an output series
}

type scope struct {
	vars   map[string]*variable
	parent *scope
	depth  int
}

type frame struct { // a φ-merge in progress: which outer variables the branches assign
	depth int
	order []*variable
	seen  map[*variable]bool
}

type kernel struct {
	w       *world
	p       *pkg
	file    *ast.File
	fn      *ast.FuncDecl
	imp     map[string]string
	nonNil  bool
	sc      *scope
	leanOf  map[token.Pos]string
	used    map[string]bool
	scalars []*variable // float64 parameters in order
	series  []*variable // series parameters in order
	results []*variable // named results
	inputs  []*variable
	outputs []*variable
	outVar  map[*variable]*variable // series → its per-step value variable
	states  []*variable
	preLets []string // pre-loop lets (already rendered)
	guards  []struct {
		nLets int
		cond  string
	}
	preLocals []*variable // pre-loop float locals, declaration order
	liveIn    map[*variable]bool
	loopVar   *variable
	idxBound  bool
	inLoop    bool
	out       *strings.Builder
	frames    []*frame
	isSet     map[*variable]bool
	always    map[*variable]bool
	leaves    int
	assumed   []string
	nphi      int
}

func (k *kernel) fail(n ast.Node, format string, a ...interface{}) {
	pos := k.w.fset.Position(n.Pos())
	rel, _ := filepath.Rel(k.w.repo, pos.Filename)
	panic(unsupported{fmt.Sprintf("%s at %s:%d", fmt.Sprintf(format, a...), rel, pos.Line)})
}

var leanKeywords = map[string]bool{"at": true, "in": true, "end": true, "from": true, "fun": true, "let": true, "have": true, "show": true,
	"then": true, "else": true, "if": true, "do": true, "match": true, "with": true, "where": true, "open": true, "def": true, "by": true,
	"for": true, "return": true, "local": true, "private": true, "instance": true, "structure": true, "class": true, "deriving": true,
	"namespace": true, "section": true, "variable": true, "universe": true, "theorem": true, "example": true, "import": true,
	"mutual": true, "macro": true, "syntax": true, "notation": true, "infix": true, "prefix": true, "postfix": true, "using": true,
	"extends": true, "calc": true, "nomatch": true, "nofun": true, "try": true, "catch": true, "finally": true, "unless": true,
	"break": true, "continue": true, "mut": true, "Type": true, "Prop": true, "Sort": true, "forall": true, "exists": true, "abbrev": true,
	"inductive": true, "opaque": true, "axiom": true, "set_option": true, "attribute": true, "export": true, "suffices": true, "obtain": true}

func (k *kernel) fresh(base string) string {
	name := base
	for i := 1; k.used[name]; i++ {
		name = fmt.Sprintf("%s_%d", base, i)
	}
	k.used[name] = true
	if leanKeywords[name] {
		return "«" + name + "»"
	}
	return name
}

func (k *kernel) push() {
	k.sc = &scope{vars: map[string]*variable{}, parent: k.sc, depth: k.sc.depth + 1}
}

func (k *kernel) lookup(name string) *variable {
	for s := k.sc; s != nil; s = s.parent {
		if v, ok := s.vars[name]; ok {
			return v
		}
	}
	return nil
}

func (k *kernel) declare(id *ast.Ident, kind vkind) *variable {
	if id.Name == "_" {
		k.fail(id, "blank identifier")
	}
	if _, dup := k.sc.vars[id.Name]; dup && kind != vConst {
		// `x := e` of an existing variable of the same scope is a compile error in Go for a single left-hand side
		k.fail(id, "redeclaration of %s", id.Name)
	}
	v := &variable{kind: kind, name: id.Name, depth: k.sc.depth, inLoop: k.inLoop}
	if kind == vFloat || kind == vSeries {
		l, ok := k.leanOf[id.Pos()]
		if !ok {
			l = k.fresh(id.Name)
			k.leanOf[id.Pos()] = l
		}
		v.lean = l
	}
	k.sc.vars[id.Name] = v
	return v
}

func (k *kernel) constEnv() constEnv {
	return constEnv{w: k.w, p: k.p, file: k.file, locals: func(name string) (*cval, bool, bool) {
		if v := k.lookup(name); v != nil {
			return v.c, v.kind == vConst, true
		}
		return nil, false, false
	}}
}

func (k *kernel) line(ind int, format string, a ...interface{}) {
	k.out.WriteString(strings.Repeat("  ", ind))
	fmt.Fprintf(k.out, format, a...)
	k.out.WriteString("\n")
}

// ---- expressions: (text, precedence, isBool); precedence 100 atom, 99 application, 70 * /, 65 + -, 50 comparison (Prop)

const (
	pAtom = 100
	pApp  = 99
	pMul  = 70
	pAdd  = 65
	pCmp  = 50
	pAnd  = 35
	pOr   = 30
)

func paren(s string, prec, min int) string {
	if prec < min {
		return "(" + s + ")"
	}
	return s
}

var mathFns = map[string]struct {
	lean string
	n    int
}{"Min": {"Num.gmin", 2}, "Max": {"Num.gmax", 2}, "Abs": {"Num.abs", 1}, "Exp": {"Num.exp", 1}, "Pow": {"Num.pow", 2},
	"Log": {"Num.log", 1}, "Log10": {"Num.log10", 1}, "Tanh": {"Num.tanh", 1}, "Cos": {"Num.cos", 1}, "Sqrt": {"Num.sqrt", 1},
	"Floor": {"Num.floor", 1}, "Ceil": {"Num.ceil", 1}}

func (k *kernel) num(e ast.Expr) (string, int) {
	s, p, kind := k.expr(e)
	if kind != 'f' {
		k.fail(e, "boolean expression where a float64 is expected")
	}
	return s, p
}

func (k *kernel) boolean(e ast.Expr) (string, int) { // as a Lean Bool
	s, p, kind := k.expr(e)
	switch kind {
	case 'b':
		return s, p
	case 'p':
		return "decide (" + s + ")", pApp
	}
	k.fail(e, "float64 expression where a condition is expected")
	return "", 0
}

// kind: 'f' float, 'p' Prop (a comparison), 'b' Bool
func (k *kernel) expr(e ast.Expr) (string, int, byte) {
	if lit, ok := e.(*ast.BasicLit); ok { // a literal keeps its source spelling when Lean reads it the same way
		if lit.Kind == token.INT && reInt.MatchString(lit.Value) {
			return lit.Value, pAtom, 'f'
		}
		if lit.Kind == token.FLOAT && reFloat.MatchString(lit.Value) {
			return strings.ToLower(lit.Value), pAtom, 'f'
		}
	}
	if c, ok := k.constEnv().eval(e); ok { // a constant sub-expression is folded exactly, as the Go compiler does
		return leanOfValue(c.v), pAtom, 'f'
	}
	switch e := e.(type) {
	case *ast.ParenExpr:
		return k.expr(e.X)
	case *ast.Ident:
		v := k.lookup(e.Name)
		if v == nil || v.kind != vFloat {
			k.fail(e, "identifier %s is not a float64 variable or constant of the subset", e.Name)
		}
		if !v.inLoop && !v.param && !v.state && k.inLoop {
			k.liveIn[v] = true
		}
		return v.lean, pAtom, 'f'
	case *ast.UnaryExpr:
		switch e.Op {
		case token.SUB:
			s, p := k.num(e.X)
			return "(-" + paren(s, p, pAtom) + ")", pAtom, 'f'
		case token.ADD:
			return k.expr(e.X)
		case token.NOT:
			s, p := k.boolean(e.X)
			return "!" + paren(s, p, pAtom), pApp, 'b'
		}
	case *ast.BinaryExpr:
		switch e.Op {
		case token.ADD, token.SUB, token.MUL, token.QUO:
			prec := pAdd
			if e.Op == token.MUL || e.Op == token.QUO {
				prec = pMul
			}
			l, lp := k.num(e.X)
			r, rp := k.num(e.Y)
			return paren(l, lp, prec) + " " + e.Op.String() + " " + paren(r, rp, prec+1), prec, 'f'
		case token.LSS, token.LEQ, token.GTR, token.GEQ:
			op := map[token.Token]string{token.LSS: "<", token.LEQ: "≤", token.GTR: ">", token.GEQ: "≥"}[e.Op]
			l, lp := k.num(e.X)
			r, rp := k.num(e.Y)
			return paren(l, lp, pCmp+1) + " " + op + " " + paren(r, rp, pCmp+1), pCmp, 'p'
		case token.EQL, token.NEQ:
			if s, ok := k.nilTest(e); ok {
				return s, pAtom, 'b'
			}
			l, lp := k.num(e.X)
			r, rp := k.num(e.Y)
			s := "Num.feq " + paren(l, lp, pAtom) + " " + paren(r, rp, pAtom)
			if e.Op == token.NEQ {
				return "!(" + s + ")", pApp, 'b'
			}
			return s, pApp, 'b'
		case token.LAND, token.LOR:
			prec, op := pAnd, "&&"
			if e.Op == token.LOR {
				prec, op = pOr, "||"
			}
			l, lp := k.boolean(e.X)
			r, rp := k.boolean(e.Y)
			return paren(l, lp, prec) + " " + op + " " + paren(r, rp, prec+1), prec, 'b'
		}
	case *ast.CallExpr:
		if f, ok := e.Fun.(*ast.Ident); ok {
			k.fail(e, "call of function %s", f.Name)
		}
		sel, ok := e.Fun.(*ast.SelectorExpr)
		if !ok {
			break
		}
		x, ok := sel.X.(*ast.Ident)
		if !ok {
			break
		}
		if v := k.lookup(x.Name); v != nil {
			if v.kind == vSeries && (sel.Sel.Name == "Get" || sel.Sel.Name == "Get1") && len(e.Args) == 1 {
				k.indexArg(e, sel.Sel.Name == "Get1")
				if k.outVar[v] != nil {
					k.fail(e, "read of output series %s", v.name)
				}
				return v.lean, pAtom, 'f'
			}
			break
		}
		path := k.imp[x.Name]
		var args []string
		switch {
		case path == "math" && mathFns[sel.Sel.Name].n == len(e.Args):
			args = append(args, mathFns[sel.Sel.Name].lean)
		case path == k.w.module+"/util/m" && len(e.Args) == 2 && sel.Sel.Name == "MinFloat64":
			args = append(args, "Num.pmin")
		case path == k.w.module+"/util/m" && len(e.Args) == 2 && sel.Sel.Name == "MaxFloat64":
			args = append(args, "Num.pmax")
		default:
			k.fail(e, "call of %s.%s", x.Name, sel.Sel.Name)
		}
		for _, a := range e.Args {
			s, p := k.num(a)
			args = append(args, paren(s, p, pAtom))
		}
		return strings.Join(args, " "), pApp, 'f'
	}
	k.fail(e, "expression %T", e)
	return "", 0, 0
}

// `series != nil` / `series == nil` under the non-nil assumption of the table
func (k *kernel) nilTest(e *ast.BinaryExpr) (string, bool) {
	x, ok1 := e.X.(*ast.Ident)
	y, ok2 := e.Y.(*ast.Ident)
	if !ok1 || !ok2 || y.Name != "nil" || k.lookup("nil") != nil {
		return "", false
	}
	v := k.lookup(x.Name)
	if v == nil || v.kind != vSeries {
		return "", false
	}
	if !k.nonNil {
		k.fail(e, "nil test of series %s (not assumed non-nil in the kernel table)", x.Name)
	}
	note := "series " + v.name + " is never nil"
	found := false
	for _, a := range k.assumed {
		found = found || a == note
	}
	if !found {
		k.assumed = append(k.assumed, note)
	}
	if e.Op == token.NEQ {
		return "true", true
	}
	return "false", true
}

// the argument of Get/Set must denote the current step: `idx` after `idx[0] = i`, or the loop variable for Get1/Set1
func (k *kernel) indexArg(call *ast.CallExpr, one bool) {
	if !k.inLoop {
		k.fail(call, "series access outside the loop")
	}
	id, ok := call.Args[0].(*ast.Ident)
	if !ok {
		k.fail(call, "series access at a computed index")
	}
	v := k.lookup(id.Name)
	if one && v != nil && v == k.loopVar {
		return
	}
	if !one && v != nil && v.kind == vIdx && k.idxBound {
		return
	}
	k.fail(call, "series access at an index other than the loop index")
}

// ---- statements of the loop body (continuation-passing: `rest` renders everything that follows)

func hasContinue(n ast.Node) bool {
	found := false
	ast.Inspect(n, func(x ast.Node) bool {
		if b, ok := x.(*ast.BranchStmt); ok && b.Tok == token.CONTINUE {
			found = true
		}
		return !found
	})
	return found
}

func (k *kernel) assigned(v *variable) {
	for _, f := range k.frames {
		if v.depth <= f.depth && !f.seen[v] {
			f.seen[v] = true
			f.order = append(f.order, v)
		}
	}
}

func (k *kernel) assign(ind int, lhs ast.Expr, tok token.Token, rhs ast.Expr, n ast.Node) {
	id, ok := lhs.(*ast.Ident)
	if !ok {
		k.fail(n, "assignment to %T", lhs)
	}
	if tok == token.DEFINE {
		s, _ := k.num(rhs)
		v := k.declare(id, vFloat)
		if !k.inLoop {
			k.preLocals = append(k.preLocals, v)
		}
		k.line(ind, "let %s : α := %s", v.lean, s)
		return
	}
	v := k.lookup(id.Name)
	if v == nil || v.kind != vFloat {
		k.fail(n, "assignment to %s, which is not a float64 variable", id.Name)
	}
	if k.inLoop && !v.inLoop && !v.state {
		k.fail(n, "loop-carried variable %s is not returned (hidden state)", v.name)
	}
	if !k.inLoop && v.param && !v.state {
		k.fail(n, "assignment to parameter %s before the loop", v.name)
	}
	var s string
	if tok == token.ASSIGN {
		s, _ = k.num(rhs)
	} else {
		op := map[token.Token]token.Token{token.ADD_ASSIGN: token.ADD, token.SUB_ASSIGN: token.SUB, token.MUL_ASSIGN: token.MUL,
			token.QUO_ASSIGN: token.QUO}[tok]
		if op == token.ILLEGAL {
			k.fail(n, "assignment operator %s", tok)
		}
		s, _ = k.num(&ast.BinaryExpr{X: id, OpPos: n.Pos(), Op: op, Y: rhs})
	}
	k.assigned(v)
	k.line(ind, "let %s : α := %s", v.lean, s)
}

func (k *kernel) localConst(d *ast.DeclStmt) {
	gd, ok := d.Decl.(*ast.GenDecl)
	if !ok || gd.Tok != token.CONST {
		k.fail(d, "declaration statement other than const")
	}
	for _, s := range gd.Specs {
		vs := s.(*ast.ValueSpec)
		if len(vs.Names) != len(vs.Values) {
			k.fail(vs, "const declaration without a value per name")
		}
		for i, n := range vs.Names {
			c, ok := k.constEnv().eval(vs.Values[i])
			if ok && vs.Type != nil {
				t, isId := vs.Type.(*ast.Ident)
				ok = isId && t.Name == "float64"
				if ok {
					c = &cval{v: round64(c.v), typed: true}
				}
			}
			if !ok {
				k.fail(vs, "constant %s outside the subset", n.Name)
			}
			k.declare(n, vConst).c = c
		}
	}
}

func (k *kernel) stmts(list []ast.Stmt, ind int, rest func(ind int)) {
	for i, s := range list {
		switch s := s.(type) {
		case *ast.EmptyStmt:
		case *ast.DeclStmt:
			k.localConst(s)
		case *ast.AssignStmt:
			if len(s.Lhs) != 1 || len(s.Rhs) != 1 {
				k.fail(s, "multiple assignment")
			}
			if ix, ok := s.Lhs[0].(*ast.IndexExpr); ok { // idx[0] = i
				x, _ := ix.X.(*ast.Ident)
				r, _ := s.Rhs[0].(*ast.Ident)
				z, _ := ix.Index.(*ast.BasicLit)
				if x == nil || r == nil || z == nil || z.Value != "0" || s.Tok != token.ASSIGN || k.lookup(x.Name) == nil ||
					k.lookup(x.Name).kind != vIdx || k.lookup(r.Name) != k.loopVar || len(k.frames) > 0 || k.sc.depth != k.loopVar.depth+1 {
					k.fail(s, "index assignment other than `idx[0] = <loop variable>` at the top of the loop body")
				}
				k.idxBound = true
				continue
			}
			k.assign(ind, s.Lhs[0], s.Tok, s.Rhs[0], s)
		case *ast.IncDecStmt:
			tok := token.ADD_ASSIGN
			if s.Tok == token.DEC {
				tok = token.SUB_ASSIGN
			}
			k.assign(ind, s.X, tok, &ast.BasicLit{ValuePos: s.Pos(), Kind: token.INT, Value: "1"}, s)
		case *ast.ExprStmt: // out.Set(idx, e)
			call, _ := s.X.(*ast.CallExpr)
			var sel *ast.SelectorExpr
			if call != nil {
				sel, _ = call.Fun.(*ast.SelectorExpr)
			}
			var x *ast.Ident
			if sel != nil {
				x, _ = sel.X.(*ast.Ident)
			}
			if x == nil || (sel.Sel.Name != "Set" && sel.Sel.Name != "Set1") || len(call.Args) != 2 {
				k.fail(s, "expression statement other than out.Set(idx, e)")
			}
			v := k.lookup(x.Name)
			if v == nil || v.kind != vSeries || k.outVar[v] == nil {
				k.fail(s, "Set on %s, which is not an output series", x.Name)
			}
			k.indexArg(call, sel.Sel.Name == "Set1")
			e, _ := k.num(call.Args[1])
			ov := k.outVar[v]
			k.assigned(ov)
			k.isSet[ov] = true
			k.line(ind, "let %s : α := %s", ov.lean, e)
		case *ast.BranchStmt:
			if s.Tok != token.CONTINUE || s.Label != nil {
				k.fail(s, "%s statement", s.Tok)
			}
			k.leaf(ind)
			return
		case *ast.BlockStmt:
			k.block(s, ind, func(ind int) { k.stmts(list[i+1:], ind, rest) })
			return
		case *ast.IfStmt:
			if s.Init != nil {
				k.fail(s, "if with an init statement")
			}
			cond, _, kind := k.expr(s.Cond)
			if kind == 'f' {
				k.fail(s.Cond, "float64 expression where a condition is expected")
			}
			after := func(ind int) { k.stmts(list[i+1:], ind, rest) }
			switch {
			case cond == "true":
				k.block(s.Body, ind, after)
				return
			case cond == "false":
				if s.Else == nil {
					continue
				}
				k.elseBranch(s.Else, ind, after)
				return
			case hasContinue(s): // some path ends the step: the rest of the body is rendered inside each branch
				saved := k.snapshot()
				k.line(ind, "if %s then", cond)
				k.block(s.Body, ind+1, after)
				k.restore(saved)
				k.line(ind, "else")
				if s.Else == nil {
					after(ind + 1)
				} else {
					k.elseBranch(s.Else, ind+1, after)
				}
				return
			default:
				k.phi(s, cond, ind)
			}
		default:
			k.fail(s, "statement %T", s)
		}
	}
	rest(ind)
}

func (k *kernel) block(b *ast.BlockStmt, ind int, after func(ind int)) {
	outer := k.sc
	k.push()
	k.stmts(b.List, ind, func(ind int) {
		inner := k.sc
		k.sc = outer
		after(ind)
		k.sc = inner
	})
	k.sc = outer
}

func (k *kernel) elseBranch(e ast.Stmt, ind int, after func(ind int)) {
	if b, ok := e.(*ast.BlockStmt); ok {
		k.block(b, ind, after)
		return
	}
	k.stmts([]ast.Stmt{e}, ind, after) // else if
}

func (k *kernel) snapshot() map[*variable]bool {
	m := map[*variable]bool{}
	for v, b := range k.isSet {
		m[v] = b
	}
	return m
}
func (k *kernel) restore(m map[*variable]bool) {
	k.isSet = map[*variable]bool{}
	for v, b := range m {
		k.isSet[v] = b
	}
}

const tupleMark = "\x00TUPLE\x00"

// an `if` none of whose paths ends the step: both branches are rendered as blocks ending in the tuple of the outer
// variables (and outputs) that either of them assigns; the merged values are then re-bound (an SSA φ-node).
func (k *kernel) phi(s *ast.IfStmt, cond string, ind int) {
	f := &frame{depth: k.sc.depth, seen: map[*variable]bool{}}
	k.frames = append(k.frames, f)
	savedOut, before := k.out, k.snapshot()
	mark := func(ind int) { k.line(ind, "%s", tupleMark) }
	var thenB, elseB strings.Builder
	k.out = &thenB
	k.block(s.Body, ind+2, mark)
	setThen := k.snapshot()
	k.restore(before)
	k.out = &elseB
	if s.Else == nil {
		mark(ind + 2)
	} else {
		k.elseBranch(s.Else, ind+2, mark)
	}
	setElse := k.snapshot()
	k.out = savedOut
	k.frames = k.frames[:len(k.frames)-1]
	k.restore(before)
	for v := range setThen {
		if setThen[v] && setElse[v] {
			k.isSet[v] = true
		}
	}
	if len(f.order) == 0 {
		return // the statement has no effect on anything that outlives it
	}
	for _, v := range f.order { // propagate to enclosing merges
		k.assigned(v)
	}
	names, types := []string{}, []string{}
	for _, v := range f.order {
		names = append(names, v.lean)
		types = append(types, "α")
	}
	tuple := "(" + strings.Join(names, ", ") + ")"
	k.nphi++
	phi := k.fresh(fmt.Sprintf("phi%d", k.nphi))
	k.line(ind, "let %s : %s := if %s then", phi, strings.Join(types, " × "), cond)
	k.out.WriteString(strings.Replace(thenB.String(), tupleMark, tuple, -1))
	k.line(ind+1, "else")
	k.out.WriteString(strings.Replace(elseB.String(), tupleMark, tuple, -1))
	for i, v := range f.order {
		k.line(ind, "let %s : α := %s%s", v.lean, phi, proj(i, len(f.order)))
	}
}

func proj(i, n int) string {
	if n == 1 {
		return ""
	}
	if i == n-1 {
		return strings.Repeat(".2", i)
	}
	return strings.Repeat(".2", i) + ".1"
}

func tupleOf(vs []*variable) string {
	if len(vs) == 0 {
		return "()"
	}
	names := []string{}
	for _, v := range vs {
		names = append(names, v.lean)
	}
	if len(names) == 1 {
		return names[0]
	}
	return "(" + strings.Join(names, ", ") + ")"
}

func tupleType(n int) string {
	if n == 0 {
		return "Unit"
	}
	return strings.TrimSuffix(strings.Repeat("α × ", n), " × ")
}

// end of one step on this path: the new state and the outputs
func (k *kernel) leaf(ind int) {
	if len(k.frames) > 0 {
		panic("internal: leaf inside a merge")
	}
	k.leaves++
	if k.leaves > 64 {
		k.fail(k.fn, "more than 64 paths through the loop body")
	}
	var outs []*variable
	for _, o := range k.outputs {
		ov := k.outVar[o]
		outs = append(outs, ov)
		if !k.isSet[ov] {
			k.always[ov] = false
		}
	}
	switch {
	case len(k.states) > 0 && len(outs) > 0:
		k.line(ind, "(%s, %s)", tupleOf(k.states), tupleOf(outs))
	case len(k.states) > 0:
		k.line(ind, "%s", tupleOf(k.states))
	default:
		k.line(ind, "%s", tupleOf(outs))
	}
}

// ---- the function

type report struct {
	Func      string   `json:"func"`
	File      string   `json:"file"`
	Line      int      `json:"line"`
	Status    string   `json:"status"` // "ok" | "unsupported" | "missing"
	Reason    string   `json:"reason,omitempty"`
	Params    []string `json:"params,omitempty"`
	PreLive   []string `json:"pre_locals,omitempty"`
	States    []string `json:"states,omitempty"`
	Inputs    []string `json:"inputs,omitempty"`
	Outputs   []string `json:"outputs,omitempty"`
	NotAlways []string `json:"outputs_not_set_on_every_path,omitempty"`
	Unused    []string `json:"series_not_accessed,omitempty"`
	Guard     bool     `json:"guard"`
	Assumed   []string `json:"assumed,omitempty"`
	Paths     int      `json:"paths,omitempty"`
}

func isSel(e ast.Expr, x, sel string) bool {
	s, ok := e.(*ast.SelectorExpr)
	if !ok {
		return false
	}
	id, ok := s.X.(*ast.Ident)
	return ok && id.Name == x && s.Sel.Name == sel
}

func (k *kernel) translate() (text string, rep report) {
	fn := k.fn
	pos := k.w.fset.Position(fn.Pos())
	rel, _ := filepath.Rel(k.w.repo, pos.Filename)
	rep = report{Func: fn.Name.Name, File: rel, Line: pos.Line}
	if fn.Recv != nil || fn.Type.TypeParams != nil || fn.Body == nil {
		k.fail(fn, "method, generic function or missing body")
	}
	k.sc = &scope{vars: map[string]*variable{}}
	// parameters
	for _, fld := range fn.Type.Params.List {
		for _, n := range fld.Names {
			switch {
			case isSel(fld.Type, "data", "ND1Float64") && k.imp["data"] == k.w.module+"/data":
				v := k.declare(n, vSeries)
				v.param = true
				k.series = append(k.series, v)
			case func() bool { t, ok := fld.Type.(*ast.Ident); return ok && t.Name == "float64" }():
				v := k.declare(n, vFloat)
				v.param = true
				k.scalars = append(k.scalars, v)
			default:
				k.fail(fld, "parameter %s of a type other than float64 / data.ND1Float64", n.Name)
			}
		}
		if len(fld.Names) == 0 {
			k.fail(fld, "unnamed parameter")
		}
	}
	nres := 0
	if fn.Type.Results != nil {
		for _, fld := range fn.Type.Results.List {
			if t, ok := fld.Type.(*ast.Ident); !ok || t.Name != "float64" {
				k.fail(fld, "result of a type other than float64")
			}
			if len(fld.Names) == 0 {
				nres++
			}
			for _, n := range fld.Names {
				nres++
				v := k.declare(n, vFloat)
				k.results = append(k.results, v)
				k.preLocals = append(k.preLocals, v)
				k.preLets = append(k.preLets, fmt.Sprintf("let %s : α := Num.zero", v.lean))
			}
		}
	}
	// which series are read, which are written (syntactic pre-pass), and the final return
	read, written := map[string]bool{}, map[string]bool{}
	ast.Inspect(fn.Body, func(n ast.Node) bool {
		if c, ok := n.(*ast.CallExpr); ok {
			if s, ok := c.Fun.(*ast.SelectorExpr); ok {
				if x, ok := s.X.(*ast.Ident); ok {
					switch s.Sel.Name {
					case "Get", "Get1", "Len1":
						read[x.Name] = true
					case "Set", "Set1":
						written[x.Name] = true
					}
				}
			}
		}
		return true
	})
	k.outVar = map[*variable]*variable{}
	for _, s := range k.series {
		switch {
		case written[s.name]:
			ov := &variable{kind: vFloat, name: s.name, lean: k.fresh(s.name + "'"), isOut: true}
			k.outVar[s] = ov
			k.outputs = append(k.outputs, s)
		case read[s.name]:
			k.inputs = append(k.inputs, s)
		default:
			rep.Unused = append(rep.Unused, s.name)
		}
	}
	body := fn.Body.List
	// the final return determines the state variables
	var ret *ast.ReturnStmt
	if n := len(body); n > 0 {
		if r, ok := body[n-1].(*ast.ReturnStmt); ok {
			ret, body = r, body[:n-1]
		}
	}
	stateOf := func(r *ast.ReturnStmt) []*variable {
		var vs []*variable
		if r == nil || len(r.Results) == 0 {
			if nres != len(k.results) {
				k.fail(fn, "missing return values")
			}
			return append(vs, k.results...)
		}
		for _, e := range r.Results {
			id, ok := e.(*ast.Ident)
			var v *variable
			if ok {
				v = k.lookup(id.Name)
			}
			if v == nil || v.kind != vFloat {
				k.fail(r, "returned expression that is not a float64 variable")
			}
			for _, o := range vs {
				if o == v {
					k.fail(r, "variable %s returned twice", v.name)
				}
			}
			vs = append(vs, v)
		}
		return vs
	}
	// find the loop
	loopAt := -1
	for i, s := range body {
		if _, ok := s.(*ast.ForStmt); ok {
			if loopAt >= 0 {
				k.fail(s, "second loop")
			}
			loopAt = i
		}
	}
	if loopAt < 0 {
		k.fail(fn, "no loop over the series")
	}
	if loopAt != len(body)-1 {
		k.fail(body[loopAt+1], "statement after the loop other than the final return")
	}
	// pre-loop statements; the state variables may be declared there, so they are resolved afterwards
	k.liveIn = map[*variable]bool{}
	var pre strings.Builder
	k.out = &pre
	flush := func() {
		for _, l := range strings.Split(strings.TrimRight(pre.String(), "\n"), "\n") {
			if l != "" {
				k.preLets = append(k.preLets, l)
			}
		}
		pre.Reset()
	}
	var guardRets []*ast.ReturnStmt
	for _, s := range body[:loopAt] {
		switch s := s.(type) {
		case *ast.DeclStmt:
			k.localConst(s)
		case *ast.IfStmt: // guard: if cond { return }
			r, _ := func() (*ast.ReturnStmt, bool) {
				if s.Init != nil || s.Else != nil || len(s.Body.List) != 1 {
					return nil, false
				}
				r, ok := s.Body.List[0].(*ast.ReturnStmt)
				return r, ok
			}()
			if r == nil {
				k.fail(s, "if statement before the loop other than `if cond { return }`")
			}
			c, _ := k.boolean(s.Cond)
			flush()
			k.guards = append(k.guards, struct {
				nLets int
				cond  string
			}{len(k.preLets), c})
			guardRets = append(guardRets, r)
		case *ast.AssignStmt:
			if len(s.Lhs) != 1 || len(s.Rhs) != 1 {
				k.fail(s, "multiple assignment")
			}
			id, _ := s.Lhs[0].(*ast.Ident)
			if id != nil && s.Tok == token.DEFINE {
				if c, ok := s.Rhs[0].(*ast.CallExpr); ok && len(c.Args) == 0 { // n := xs.Len1()
					if sel, ok := c.Fun.(*ast.SelectorExpr); ok && sel.Sel.Name == "Len1" {
						if x, ok := sel.X.(*ast.Ident); ok && k.lookup(x.Name) != nil && k.lookup(x.Name).kind == vSeries {
							k.declare(id, vLen)
							continue
						}
					}
				}
				if c, ok := s.Rhs[0].(*ast.CompositeLit); ok && len(c.Elts) == 1 { // idx := []int{0}
					at, _ := c.Type.(*ast.ArrayType)
					z, _ := c.Elts[0].(*ast.BasicLit)
					if at != nil && at.Len == nil && z != nil && z.Value == "0" {
						if t, ok := at.Elt.(*ast.Ident); ok && t.Name == "int" {
							k.declare(id, vIdx)
							continue
						}
					}
				}
			}
			k.assign(0, s.Lhs[0], s.Tok, s.Rhs[0], s)
		default:
			k.fail(s, "statement %T before the loop", s)
		}
	}
	flush()
	k.states = stateOf(ret)
	for _, v := range k.states {
		v.state = true
	}
	for _, r := range guardRets { // a guard must return the (unchanged) state
		if len(r.Results) != 0 || len(k.states) != 0 {
			k.fail(r, "early return in a kernel with state")
		}
	}
	// the loop header: for i := 0; i < n; i++
	loop := body[loopAt].(*ast.ForStmt)
	init, _ := loop.Init.(*ast.AssignStmt)
	cond, _ := loop.Cond.(*ast.BinaryExpr)
	post, _ := loop.Post.(*ast.IncDecStmt)
	okHeader := init != nil && cond != nil && post != nil && init.Tok == token.DEFINE && len(init.Lhs) == 1 && cond.Op == token.LSS &&
		post.Tok == token.INC
	var iv *ast.Ident
	if okHeader {
		iv, _ = init.Lhs[0].(*ast.Ident)
		z, _ := init.Rhs[0].(*ast.BasicLit)
		c, _ := cond.X.(*ast.Ident)
		p, _ := post.X.(*ast.Ident)
		okHeader = iv != nil && z != nil && z.Value == "0" && c != nil && p != nil && c.Name == iv.Name && p.Name == iv.Name
		if n, isId := cond.Y.(*ast.Ident); okHeader && isId {
			okHeader = k.lookup(n.Name) != nil && k.lookup(n.Name).kind == vLen
		} else if okHeader {
			call, _ := cond.Y.(*ast.CallExpr)
			okHeader = false
			if call != nil && len(call.Args) == 0 {
				if sel, ok := call.Fun.(*ast.SelectorExpr); ok && sel.Sel.Name == "Len1" {
					x, _ := sel.X.(*ast.Ident)
					okHeader = x != nil && k.lookup(x.Name) != nil && k.lookup(x.Name).kind == vSeries
				}
			}
		}
	}
	if !okHeader {
		k.fail(loop, "loop header other than `for i := 0; i < n; i++` over a series length")
	}
	k.push()
	k.loopVar = k.declare(iv, vLoop)
	k.inLoop = true
	k.isSet, k.always = map[*variable]bool{}, map[*variable]bool{}
	for _, o := range k.outputs {
		k.always[k.outVar[o]] = true
	}
	var step strings.Builder
	k.out = &step
	for _, o := range k.outputs {
		k.line(1, "let %s : α := Num.zero", k.outVar[o].lean)
	}
	k.block(loop.Body, 1, k.leaf)

	// ---- render
	var live []*variable
	for _, v := range k.preLocals {
		if k.liveIn[v] && !v.state {
			live = append(live, v)
		}
	}
	var params []*variable
	for _, v := range k.scalars {
		if !v.state {
			params = append(params, v)
		}
	}
	binder := func(vs []*variable) string {
		if len(vs) == 0 {
			return ""
		}
		names := []string{}
		for _, v := range vs {
			names = append(names, v.lean)
		}
		return " (" + strings.Join(names, " ") + " : α)"
	}
	names := func(vs []*variable) []string {
		r := []string{}
		for _, v := range vs {
			r = append(r, v.name)
		}
		return r
	}
	var b strings.Builder
	fmt.Fprintf(&b, "namespace %s\n", k.fresh0(fn.Name.Name))
	fmt.Fprintf(&b, "/- %s:%d  func %s\n", rel, pos.Line, fn.Name.Name)
	fmt.Fprintf(&b, "   scalar parameters: %s\n   state (returned, in order): %s\n   inputs: %s\n", strings.Join(names(k.scalars), " "),
		strings.Join(names(k.states), " "), strings.Join(names(k.inputs), " "))
	var outDesc []string
	for _, o := range k.outputs {
		d := o.name
		if !k.always[k.outVar[o]] {
			d += " (NOT set on every path: keeps the array's 0)"
			rep.NotAlways = append(rep.NotAlways, o.name)
		}
		outDesc = append(outDesc, d)
	}
	fmt.Fprintf(&b, "   outputs: %s\n", strings.Join(outDesc, ", "))
	if len(rep.Unused) > 0 {
		fmt.Fprintf(&b, "   series neither read nor written: %s\n", strings.Join(rep.Unused, " "))
	}
	for _, a := range k.assumed {
		fmt.Fprintf(&b, "   assumed: %s\n", a)
	}
	b.WriteString("-/\n")
	all := binder(k.scalars)
	// guard
	fmt.Fprintf(&b, "/-- the kernel returns before the loop (no output is written) -/\ndef guard {α : Type} [Num α]%s : Bool :=\n", all)
	if len(k.guards) == 0 {
		b.WriteString("  false\n")
	} else {
		done, closing := 0, ""
		for gi, g := range k.guards {
			for _, l := range k.preLets[done:g.nLets] {
				b.WriteString("  " + l + "\n")
			}
			done = g.nLets
			if gi == len(k.guards)-1 {
				b.WriteString("  " + g.cond + closing + "\n")
			} else {
				b.WriteString("  (" + g.cond + ") || (\n")
				closing += ")"
			}
		}
	}
	// pre
	if len(live) > 0 {
		fmt.Fprintf(&b, "/-- values computed before the loop and used in it: %s -/\ndef pre {α : Type} [Num α]%s : %s :=\n",
			strings.Join(names(live), ", "), all, tupleType(len(live)))
		for _, l := range k.preLets {
			b.WriteString("  " + l + "\n")
		}
		b.WriteString("  " + tupleOf(live) + "\n")
	}
	if len(k.states) > 0 {
		fmt.Fprintf(&b, "/-- the state variables on entry to the loop -/\ndef init {α : Type} [Num α]%s : %s :=\n", all, tupleType(len(k.states)))
		for _, l := range k.preLets {
			b.WriteString("  " + l + "\n")
		}
		b.WriteString("  " + tupleOf(k.states) + "\n")
	}
	ret0 := ""
	switch {
	case len(k.states) > 0 && len(k.outputs) > 0:
		ret0 = "(" + tupleType(len(k.states)) + ") × (" + tupleType(len(k.outputs)) + ")"
	case len(k.states) > 0:
		ret0 = tupleType(len(k.states))
	default:
		ret0 = tupleType(len(k.outputs))
	}
	fmt.Fprintf(&b, "/-- one iteration: parameters, pre-loop values, state, inputs at this step ↦ %s -/\n", map[bool]string{true: "(new state, outputs at this step)", false: "outputs at this step"}[len(k.states) > 0 && len(k.outputs) > 0])
	fmt.Fprintf(&b, "def step {α : Type} [Num α]%s%s%s%s : %s :=\n", binder(params), binder(live), binder(k.states), binder(k.inputs), ret0)
	b.WriteString(step.String())
	fmt.Fprintf(&b, "end %s\n", k.fresh0(fn.Name.Name))
	rep.Status = "ok"
	rep.Params, rep.PreLive, rep.States, rep.Inputs, rep.Outputs = names(params), names(live), names(k.states), names(k.inputs), names(k.outputs)
	rep.Guard, rep.Assumed, rep.Paths = len(k.guards) > 0, k.assumed, k.leaves
	return b.String(), rep
}

func (k *kernel) fresh0(name string) string {
	if leanKeywords[name] {
		return "«" + name + "»"
	}
	return name
}

func translateOne(w *world, dir, fname string, nonNil bool) (text string, rep report) {
	rep = report{Func: fname, File: dir, Status: "missing", Reason: "function not found in " + dir}
	p := w.load(dir)
	files := []string{}
	for n := range p.files {
		files = append(files, n)
	}
	sort.Strings(files)
	for _, n := range files {
		f := p.files[n]
		for _, d := range f.Decls {
			fd, ok := d.(*ast.FuncDecl)
			if !ok || fd.Name.Name != fname || fd.Recv != nil {
				continue
			}
			k := &kernel{w: w, p: p, file: f, fn: fd, imp: imports(f), nonNil: nonNil, leanOf: map[token.Pos]string{}, used: map[string]bool{}}
			func() {
				defer func() {
					if r := recover(); r != nil {
						u, ok := r.(unsupported)
						if !ok {
							panic(r)
						}
						pos := w.fset.Position(fd.Pos())
						rel, _ := filepath.Rel(w.repo, pos.Filename)
						text, rep = "", report{Func: fname, File: rel, Line: pos.Line, Status: "unsupported", Reason: u.msg}
					}
				}()
				text, rep = k.translate()
			}()
			return
		}
	}
	return
}

func main() {
	repo := flag.String("repo", "", "repository root (default $OW_REPO, then /repo)")
	flag.Parse()
	if *repo == "" {
		*repo = os.Getenv("OW_REPO")
	}
	if *repo == "" {
		*repo = "/repo"
	}
	if flag.NArg() != 1 {
		fmt.Fprintln(os.Stderr, "usage: owtranslate [-repo DIR] OUT.lean")
		os.Exit(2)
	}
	abs, err := filepath.Abs(*repo)
	if err != nil {
		fmt.Fprintln(os.Stderr, err)
		os.Exit(2)
	}
	gm, err := os.ReadFile(filepath.Join(abs, "go.mod"))
	if err != nil {
		fmt.Fprintln(os.Stderr, err)
		os.Exit(2)
	}
	m := regexp.MustCompile(`(?m)^module\s+(\S+)`).FindSubmatch(gm)
	if m == nil {
		fmt.Fprintln(os.Stderr, "no module line in go.mod")
		os.Exit(2)
	}
	w := &world{repo: abs, module: string(m[1]), fset: token.NewFileSet(), pkgs: map[string]*pkg{}}
	var b strings.Builder
	b.WriteString("import OW.Num\n/-\nGENERATED by harness/cmd/owtranslate from the Go source of the kernels — do not edit; regenerated on every run.\n" +
		"One namespace per Go function: `guard` (early return before the loop), `pre` (values computed before the loop),\n" +
		"`init` (state on loop entry), `step` (one iteration). Assignments are shadowing `let`s in program order; an `if` that\n" +
		"cannot end the step is a merge `let phiN := if … then (…) else (…)`; an output not set on a path keeps `Num.zero`.\n-/\n" +
		"set_option linter.unusedVariables false\nnamespace OW.Gen.K\nopen OW\n\n")
	var reps []report
	var tied []string
	for _, t := range table {
		text, rep := translateOne(w, t.Dir, t.Func, t.NonNil)
		reps = append(reps, rep)
		if rep.Status == "ok" {
			b.WriteString(text + "\n")
			tied = append(tied, strconv.Quote(t.Func))
		} else {
			fmt.Fprintf(&b, "-- %s (%s): %s: %s\n\n", t.Func, t.Dir, rep.Status, rep.Reason)
		}
	}
	fmt.Fprintf(&b, "/-- the Go functions translated in this run -/\ndef translated : List String := [%s]\n\nend OW.Gen.K\n", strings.Join(tied, ", "))
	out := flag.Arg(0)
	old, _ := os.ReadFile(out)
	changed := string(old) != b.String()
	if changed {
		tmp := fmt.Sprintf("%s.%d.tmp", out, os.Getpid())
		if err := os.WriteFile(tmp, []byte(b.String()), 0o644); err != nil {
			fmt.Fprintln(os.Stderr, err)
			os.Exit(2)
		}
		if err := os.Rename(tmp, out); err != nil {
			fmt.Fprintln(os.Stderr, err)
			os.Exit(2)
		}
	}
	js, _ := json.MarshalIndent(map[string]interface{}{"repo": abs, "out": out, "changed": changed, "kernels": reps}, "", " ")
	fmt.Println(string(js))
}
