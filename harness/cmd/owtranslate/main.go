// owtranslate — regenerates, from the CURRENT Go source of openwater-core, a Lean definition of the loop body of each
// simple time-stepping kernel (the "syntactic tie": OW/Props/GenTie.lean proves that each regenerated definition equals
// the hand-written model's step function, so every theorem about the hand-written model is re-attached on every run to
// what the source says now).
//
//	owtranslate [-repo DIR] OUT.lean        (DIR defaults to $OW_REPO, then /repo; OUT is written only when changed;
//	                                         a JSON report of tied / unsupported kernels goes to stdout)
//
// Supported subset (anything else ⇒ the kernel is reported "unsupported: <construct> at file:line" and skipped):
//   - parameters: data.ND1Float64 series and float64 scalars; results: float64 (named or not)
//   - before the loop: `n := xs.Len1()`, `idx := []int{0}`, float / bool declarations and assignments (`:=`, `var`), local
//     `const`, `if` statements that only assign (merged like in the loop), `if cond { return }` guards (the kernel returns
//     before writing anything), `xs.Get(idx)` with the untouched `idx := []int{0}` / `xs.Get1(0)` (the FIRST element of a
//     series: an extra argument `xs0` of guard/pre/init; the Go code panics on an empty series), and ONE returning branch
//     `if cond { [x =] Callee(args…); return … }` that hands the whole run to another kernel function of the module
//     (DELEGATION: the callee is translated with the nil-pattern of the call into the nested namespace `delegate`, and
//     `delegates / delegateInit / delegateStep / delegateFinal` express its run in terms of this function's parameters and
//     series). A returning branch that is not of that form is recorded as `abstractBranch` (its condition is translated,
//     its body is NOT: reported as such). A function whose whole body is one call of another kernel function (a wrapper
//     binding a function-valued parameter, e.g. sednetGullyOrig) is a delegation with condition `true`.
//   - ONE loop `for i := 0; i < n; i++ { … }`; in it: `idx[0] = i`, float / bool `:=  =  +=  -=  *=  /=`, `var`,
//     `a, b := f(…)`, `if / else if / else`, `continue`, `xs.Get(idx)` / `xs.Get1(i)` (current element),
//     `out.Set(idx, e)` / `out.Set1(i, e)`. A variable assigned in the loop, carried to the next iteration and not returned
//     is a HIDDEN state (appended to the state tuple of `init` and `step`).
//   - expressions: + - * /, unary minus, comparisons, && || !, literals, true / false, named constants (package-level,
//     local, imported from packages of the same module, math.Pi …; constant expressions are folded EXACTLY with go/constant
//     and rounded once to float64; a constant defined by one plain decimal literal keeps that literal's spelling),
//     math.Min/Max/Abs/Exp/Pow/Log/Log10/Tanh/Cos/Sqrt/Floor/Ceil/NaN/IsNaN, m.MinFloat64/MaxFloat64, and calls of
//     HELPER functions of the module whose parameters and results are all float64 (translated to a Lean `def` of the same
//     namespace: statements as in the loop plus `return` anywhere; no recursion). A helper outside the subset (e.g. one
//     that loops) called directly from the kernel body becomes an ABSTRACT function argument of guard/pre/init/step
//     (reported as such: its body is not tied).
//   - in a helper: `for i := 0; i < N; i++ { … }` with a constant N, `i` unused, `break` / `continue` allowed
//     (`boundedLoop body N carried`, the carried tuple = the outer variables the body assigns, in declaration order)
//   - `v, err := pkg.F(args…); if err != nil { panic(err) }` with F a function of the module with results (float64, error)
//     that takes whole series (fn.Piecewise): F is NOT translated, it is an argument of `step` of type
//     α → σ → … → Option α (σ: the abstract type of a whole series); `panic(…)` ends the step with `none` (`step` then
//     returns an Option); fmt.Print* statements are ignored; an `int` parameter is accepted when the body does not use it
//   - after the loop: one `return` of variables (the state variables, in order)
//
// Extensions for the stateful / slice-using kernels (typed.go, ints.go, calls.go, loops.go, stmts2.go, partial.go, whole.go; the
// vocabulary is defined once in the hand-written lean/OW/Gen/Prelude.lean):
//   - TYPES: float64 ↦ α, bool ↦ Bool, int ↦ Int (64-bit overflow is outside the model), []float64 ↦ List α. Parameters, results,
//     state variables, pre-loop values and helper signatures may have any of these types; an int parameter a body does not use is
//     dropped (the time-step counter passed to calcOutflow). `int(x)` ↦ Num.toInt, `float64(i)` ↦ Num.ofInt, int `/ %` ↦
//     Int.tdiv / Int.tmod, `m.MinInt/MaxInt` ↦ minInt / maxInt, `x := <integer literal>` declares an int (as in Go).
//   - SLICES: `make([]float64, n)` ↦ mkSlice n, `[]float64{…}`, `xs[i]` ↦ sliceGet xs i, `xs[i] = e` ↦ xs := sliceSet xs i e,
//     `len(xs)` ↦ sliceLen xs. OUT-OF-RANGE accesses (Go panics) are NOT modelled: sliceGet returns the default value, sliceSet
//     leaves the list unchanged (reported as such).
//   - LOOPS over an int range, anywhere (before the time loop, in it, in helpers): `for i := a; i < b; i++` / `i <= b` ↦
//     `forRange a b body carried` (carried = the outer variables the body assigns, declaration order; bounds evaluated once: the
//     body may not assign what the bound reads; no break / continue / return). The time loop is the LAST top-level loop whose bound
//     is the length of a series.
//   - a parameter assigned before the loop (storageRouting: bias, x) is from then on a pre-loop value (a component of `pre`, an
//     argument of `step` in place of the parameter).
//   - FUNCTION LITERALS bound to a local name are lambda-lifted to definitions (`<helper>_<name>`); the captured variables become
//     leading parameters (declaration order) and may not be assigned after the literal (Go captures by reference).
//   - PANICS: `panic(…)` anywhere ends the path with `none`; a function (helper, literal, step) that can reach one returns an
//     Option, its callers bind it at statement level (`x := f(…)`, `a, b = f(…)`, `return f(…)`): `match f … with | none => none |
//     some r => <rest>`; an `if` that contains such a call is rendered in continuation-passing form like one that returns.
//   - a module function that CANNOT be translated (function-typed parameters: fn.FindRoot) is an ABSTRACT argument of the
//     definitions that reach it, of type `args → Option results` (function literals are passed with their captured variables
//     applied); reported as abstract — the tie theorem instantiates it with the hand-written model of that function.
//   - WHOLE-FUNCTION mode (table entry Whole: lag, storageTrapAll, inputNode — no time loop of the standard shape): every series
//     is a List α (`Len1` ↦ sliceLen, `Get(idx)` ↦ sliceGet, `Set` ↦ sliceSet, `idx := []int{e}` / `idx[0] = e` ↦ an Int,
//     `CopyFrom` ↦ copyFrom); the definition `run` returns the returned values and then the written series.
//   - package-level tables `var T = [...]int{…}` that no code of the package assigns: `x := T[i]` / `return T[i]` ↦ `intTable
//     [..] i` (none = index out of range, a Go panic).
//   - `for cond { … }` / `for { … break … }` in the time loop (sub-step loops): body and condition are lifted to definitions
//     `loopBodyN`, `loopCondN` (leading parameters: abstract functions, fuels of inner loops, the outer variables they read, in
//     declaration order); `match whileLoop (loopCondN …) (loopBodyN …) fuelN carried with | none => none | some … => …` with an
//     explicit fuel parameter of `step` per loop (Lean needs a termination measure; the ties hold for every fuel).
//   - `for i := a; i > b; i--` / `i >= b` ↦ forRangeDown; `for _, v := range xs` over a []float64 ↦ List.foldl.
//   - table entry Lift (sacramento): the bodies of the int-range loops inside the time loop are lifted to definitions
//     `loopBodyN caps… i carried` as well (the tie of such a kernel is by `rfl` against a copy kept in OW/Proofs, see
//     OW/Props/GenTieSacramento.lean).
//   - statements after the time loop: the definition `final` (parameters, pre-loop values, final state ↦ returned values).
//   - TABLE series: a series parameter that is read at a constant index vector (`idxC := []int{e}` never assigned element-wise),
//     passed to a local function literal or to a configuration check is a `List α` parameter of the definitions;
//     `t.Get(idxC)` ↦ `tableGet t idxC : Option α` (none = out of range, a Go panic), bound like a call that may panic — also
//     before the loop, where guard / pre / init then return Options.
//   - `err := check(args…); if err != nil { [print…;] return }` before the loop with `check` a module function whose only result
//     is an error: an early return; `check` is NOT translated (an abstract argument `check : args → Bool`, true = non-nil
//     error). An early return in a kernel with named results leaves them at their zero values (reported in the doc of guard).
//   - a delegating branch may first build a temporary series element-wise from series parameters
//     (`X := data.NewArray1DFloat64(S.Len1()); X.CopyFrom(S); data.AddToFloat64Array(X, T)`): the callee reads `S + T` at
//     every step in place of X (data/gen-arrayops.go itself is not translated: reported).
//   - a call of a function that may panic inside an expression (`out.Set(idx, float64(f(…)))`, `if d > f(…)`) is bound first, in
//     evaluation order, and refused in the right operand of && / ||.
//
// NORMALISATIONS (work package R1): equal programs written differently are rendered as the same (definitionally equal) Lean term,
// so that a behaviour-preserving refactoring of the source does not invalidate the tie theorems. None of them touches float arithmetic
// (no reassociation, no commuting of operands, no dropping of `+ 0.0`):
//   - desugar.go (applied to every file as it is loaded): `if init; cond {…}` ↦ `{ init; if cond {…} }`; `switch` (with or without a
//     tag, `default` anywhere; no `fallthrough`, no `break`) ↦ the if-chain Go defines it to be.
//   - SINKING (sink.go): a float64 / bool / int variable declared at the top level before the loop, never assigned again, whose
//     defining expression reads only never-assigned parameters, constants and other such variables through pure operations is a
//     `let` at the top of `step` / `final` (no component of `pre`): hoisting a loop-invariant expression, or moving it back into the
//     loop, gives the same term up to zeta-reduction. BLOCK SINKING: when values are left over (assigned several times before the
//     loop, parameters assigned there) and the statements before the loop read no series, cannot panic and read no parameter that
//     the loop carries, ALL of them are rendered at the top of `step` (the state variables are re-bound to the incoming state
//     afterwards) and there is no `pre` (storageRouting).
//   - a Bool variable that is the literal true / false on its only assignment (`useAvModel := false`, `hasLateral := xs != nil` under
//     the nil pattern of the call) is read as that literal (a dead branch is not rendered, a nil series under it is not read).
//   - the time loop may be written on the index vector: `for idx := []int{0}; idx[0] < n; idx[0]++`.
//   - STRUCTS of float64 / int / bool fields are flattened into one variable per field, methods are functions of their receiver
//     (structs.go); a helper may return several values, take such structs, and hand series on whole (abstract type σ) to a function
//     with an error result; a procedure that only prints is ignored (like the print statements themselves); `_ = e` is evaluated and
//     dropped.
//   - every helper function / function literal is tagged `@[gen_unfold]` (lean/OW/Gen/Attr.lean): the tie proofs unfold "whatever
//     helpers the source has now" with `simp only [gen_unfold]` instead of naming them.
//
// NORMALISATIONS AND FURTHER FORMS (work package R3; the equalities used are Go's own definitions of the constructs, integer index
// arithmetic — never float arithmetic — and liveness facts that the generated text itself would refute if they were wrong):
//   - ASSIGNED BEFORE READ (stmts.go, firstWriteInLoop): a float64 / bool / int variable declared before the time loop that the loop body
//     assigns at its top level (plain `=`, right-hand side not mentioning it) before anything in the loop has read it, and that the
//     statements after the loop do not mention, is a local of `step` — NOT a hidden state (gr4j's Ps, Es, Pr, Perc). Declaring such a
//     variable inside the loop gives the same text.
//   - HELPERS THAT WRITE INTO A []float64 PARAMETER (inplace.go): the definition returns the final value of every such parameter after
//     the Go results, the call re-binds the argument variable (`f(q, u, n, c)` ↦ `let callN := f q u n c; let q := callN`); the
//     argument must be a slice variable no other argument mentions; a helper may not return its own slice parameter.
//   - `for i := range xs` / `for i, v := range xs` over a slice variable (ranges.go) ↦ the three-clause loop they stand for
//     (`forRange 0 (sliceLen xs) …`, `v := xs[i]` first); count-down loops before the time loop; `copy(dst[a:b], src[c:d])` ↦
//     `sliceCopy` of the prelude; the body of an int-range loop may not assign its loop variable.
//   - a loop that counts a constant number of times without using its counter (`for i := 0; i < 40; i++`, `for r := 40; r > 0; r--`)
//     is `boundedLoop body N`; `return E` inside it, when the statement after the loop is `return E` (the same pure expressions), is
//     the `break` it is rendered as.
//   - a loop condition `i + e < b` (e loop-invariant) is `i < b - e` (on the integers; Go's int overflow is outside the model).
//   - PROCEDURES THAT WRITE SERIES (inline.go): a call statement `f(args…)` of a function without results that takes series / the index
//     vector (`writeDate(idx, d, m, y, date, …)`) is rendered as the statements of its body in place (reference parameters stand for the
//     caller's variables, value parameters are new locals; no `return` except a trailing bare one; no recursion).
//
// Semantics the translation relies on (= Go's for this subset): operands are pure, so evaluation order is irrelevant
// except for the association of float operations, which is the AST's (Go precedence, left-associative); every float64
// operation rounds once (no fused multiply-add on amd64); assignments are emitted as shadowing `let`s in program order,
// so renaming a local, adding a temporary or swapping independent assignments yields a definitionally equal term.
package main

import (
	"encoding/json"
	"flag"
	"fmt"
	"go/ast"
	"go/constant"
	"go/parser"
	"go/token"
	"os"
	"path/filepath"
	"regexp"
	"sort"
	"strconv"
	"strings"
)

// the kernels to translate: package directory, function, and whether `series != nil` tests may be taken as true
// (the generated wrappers always pass allocated arrays; recorded in the output as an assumption).
var table = []struct {
	Dir, Func string
	NonNil    bool
	Whole     bool // no time loop of the standard shape: translated as a whole, series as lists
	Lift      bool // the bodies of the int-range loops inside the time loop are lifted to definitions of their own
}{
	{"models/rr", "runoffCoefficient", false, false, false},
	{"models/routing", "muskingum", false, false, false},
	{"models/routing", "LumpedConstituentTransport", true, false, false},
	{"models/routing", "constituentDecay", false, false, false},
	{"models/routing", "instreamCoarseSediment", false, false, false},
	{"models/routing", "instreamParticulateNutrient", false, false, false},
	{"models/routing", "instreamDissolvedNutrient", false, false, false},
	{"models/routing", "instreamFineSediment", false, false, false},
	{"models/routing", "lag", false, true, false},
	{"models/conversion", "applyScaling", false, false, false},
	{"models/conversion", "depthToRate", false, false, false},
	{"models/conversion", "fixedPartition", false, false, false},
	{"models/conversion", "variablePartition", false, false, false},
	{"models/conversion", "ratingPartition", false, false, false},
	{"models/functions", "sum", false, false, false},
	{"models/functions", "gate", false, false, false},
	{"models/functions", "computeProportion", false, false, false},
	{"models/functions", "partitionDemand", false, false, false},
	{"models/generation", "emcDWC", false, false, false},
	{"models/generation", "fixedConcentration", false, false, false},
	{"models/generation", "passLoadIfFlow", false, false, false},
	{"models/generation", "dissolvedNutrients", false, false, false},
	{"models/generation", "particulateNutrients", false, false, false},
	{"models/generation", "bankErosion", false, false, false},
	{"models/generation", "usleFine", false, false, false},
	{"models/generation", "sednetGullyOrig", false, false, false},
	{"models/generation", "sednetGullyDerm", false, false, false},
	{"models/rr", "simhyd", false, false, false},
	{"models/rr", "surm", false, false, false},
	{"models/rr", "gr4j", false, false, false},
	{"models/rr", "sacramento", false, false, true},
	{"models/routing", "storageRouting", false, false, false},
	{"models/storage", "storageParticulateTrapping", false, false, false},
	{"models/storage", "storageDissolvedDecay", false, false, false},
	{"models/storage", "storageTrapAll", false, true, false},
	{"models/storage", "storageWaterBalance", false, false, false},
	{"models/functions", "baseflowFilter", false, false, false},
	{"models/functions", "inputNode", false, true, false},
	{"models/functions", "dateGenerator", false, false, false},
	{"models/climate", "climateVariables", false, false, false},
}

type unsupported struct{ msg string }

// ---------------------------------------------------------------------------------------------
// packages and constants

type cval struct {
	v     constant.Value
	typed bool // typed float64 constant: rounded to float64 after every operation
}

type pkg struct {
	dir     string
	files   map[string]*ast.File // by file name
	consts  map[string]*ast.ValueSpec
	cfile   map[string]*ast.File
	cidx    map[string]int
	memo    map[string]*cval
	busy    map[string]bool
	itabs   map[string]*intTab
	funcs   map[string]*ast.FuncDecl // package-level functions (no methods)
	ffile   map[string]*ast.File
	methods map[string]*ast.FuncDecl // "T.m": the methods of the package's named types (receiver T or *T)
	mfile   map[string]*ast.File
	types   map[string]*ast.TypeSpec
}

type world struct {
	repo, module string
	fset         *token.FileSet
	pkgs         map[string]*pkg
	partialMemo  map[string]bool
	current      string          // the table entry being translated
	sliceUse     map[string]bool // table entries whose translation indexes a []float64
	derivedUse   map[string]bool // table entries whose translation renders data.AddToFloat64Array / CopyFrom on a temporary series
	structs      map[string]*structInfo
	writtenMemo  map[string][]int // function ↦ the indices of the []float64 parameters it writes into (inplace.go)
}

func (w *world) load(dir string) *pkg {
	if p, ok := w.pkgs[dir]; ok {
		return p
	}
	p := &pkg{dir: dir, files: map[string]*ast.File{}, consts: map[string]*ast.ValueSpec{}, cfile: map[string]*ast.File{},
		cidx: map[string]int{}, memo: map[string]*cval{}, busy: map[string]bool{}, funcs: map[string]*ast.FuncDecl{},
		ffile: map[string]*ast.File{}, types: map[string]*ast.TypeSpec{}, methods: map[string]*ast.FuncDecl{}, mfile: map[string]*ast.File{}}
	w.pkgs[dir] = p
	names, _ := filepath.Glob(filepath.Join(w.repo, dir, "*.go"))
	sort.Strings(names)
	for _, fn := range names {
		if strings.HasSuffix(fn, "_test.go") {
			continue
		}
		f, err := parser.ParseFile(w.fset, fn, nil, parser.SkipObjectResolution)
		if err != nil {
			continue // a file that does not parse cannot contribute a kernel or a constant; the Go build reports it
		}
		desugarFile(f) // if-with-init and switch statements become blocks and if-chains (desugar.go)
		p.files[filepath.Base(fn)] = f
		for _, d := range f.Decls {
			if fd, ok := d.(*ast.FuncDecl); ok && fd.Recv == nil {
				if _, dup := p.funcs[fd.Name.Name]; !dup {
					p.funcs[fd.Name.Name] = fd
					p.ffile[fd.Name.Name] = f
				}
				continue
			}
			if fd, ok := d.(*ast.FuncDecl); ok {
				if n := funcName(fd); n != fd.Name.Name {
					if _, dup := p.methods[n]; !dup {
						p.methods[n] = fd
						p.mfile[n] = f
					}
				}
				continue
			}
			gd, ok := d.(*ast.GenDecl)
			if ok && gd.Tok == token.TYPE {
				for _, s := range gd.Specs {
					ts := s.(*ast.TypeSpec)
					p.types[ts.Name.Name] = ts
				}
			}
			if !ok || gd.Tok != token.CONST {
				continue
			}
			for _, s := range gd.Specs {
				vs := s.(*ast.ValueSpec)
				for i, n := range vs.Names {
					p.consts[n.Name] = vs
					p.cfile[n.Name] = f
					p.cidx[n.Name] = i
				}
			}
		}
	}
	return p
}

func imports(f *ast.File) map[string]string {
	m := map[string]string{}
	for _, is := range f.Imports {
		path, _ := strconv.Unquote(is.Path.Value)
		name := path[strings.LastIndex(path, "/")+1:]
		if is.Name != nil {
			name = is.Name.Name
		}
		m[name] = path
	}
	return m
}

func round64(v constant.Value) constant.Value {
	f, _ := constant.Float64Val(constant.ToFloat(v))
	return constant.MakeFloat64(f)
}

// constant evaluation with Go's rules: untyped arithmetic exact, integer division for two integer operands, typed
// float64 operands and results rounded to float64. `lookup` resolves identifiers (nil, false ⇒ not a constant).
type constEnv struct {
	w      *world
	p      *pkg
	file   *ast.File
	locals func(name string) (*cval, bool, bool) // value, isConst, shadowsPackageLevel
}

func (ce constEnv) eval(e ast.Expr) (*cval, bool) {
	switch e := e.(type) {
	case *ast.BasicLit:
		if e.Kind == token.INT || e.Kind == token.FLOAT {
			return &cval{v: constant.MakeFromLiteral(e.Value, e.Kind, 0)}, true
		}
	case *ast.ParenExpr:
		return ce.eval(e.X)
	case *ast.Ident:
		if ce.locals != nil {
			if c, isConst, shadows := ce.locals(e.Name); shadows {
				return c, isConst
			}
		}
		return ce.p.constant(ce.w, e.Name)
	case *ast.SelectorExpr:
		if x, ok := e.X.(*ast.Ident); ok {
			if ce.locals != nil {
				if _, _, shadows := ce.locals(x.Name); shadows {
					return nil, false
				}
			}
			path, ok := imports(ce.file)[x.Name]
			if ok && strings.HasPrefix(path, ce.w.module+"/") {
				return ce.w.load(strings.TrimPrefix(path, ce.w.module+"/")).constant(ce.w, e.Sel.Name)
			}
			if lit, isMath := mathConsts[e.Sel.Name]; ok && path == "math" && isMath {
				return &cval{v: constant.MakeFromLiteral(lit, token.FLOAT, 0)}, true
			}
		}
	case *ast.UnaryExpr:
		if e.Op == token.SUB || e.Op == token.ADD {
			if x, ok := ce.eval(e.X); ok {
				r := &cval{v: constant.UnaryOp(e.Op, x.v, 0), typed: x.typed}
				return r, true
			}
		}
	case *ast.BinaryExpr:
		switch e.Op {
		case token.ADD, token.SUB, token.MUL, token.QUO:
		default:
			return nil, false
		}
		x, ok1 := ce.eval(e.X)
		if !ok1 {
			return nil, false
		}
		y, ok2 := ce.eval(e.Y)
		if !ok2 {
			return nil, false
		}
		xv, yv, typed := x.v, y.v, x.typed || y.typed
		if typed {
			xv, yv = round64(xv), round64(yv)
		}
		op := e.Op
		if op == token.QUO {
			if constant.Sign(yv) == 0 {
				return nil, false
			}
			if xv.Kind() == constant.Int && yv.Kind() == constant.Int {
				op = token.QUO_ASSIGN // integer division
			}
		}
		r := constant.BinaryOp(xv, op, yv)
		if r.Kind() == constant.Unknown {
			return nil, false
		}
		if typed {
			r = round64(r)
		}
		return &cval{v: r, typed: typed}, true
	case *ast.CallExpr: // float64(constant)
		if f, ok := e.Fun.(*ast.Ident); ok && f.Name == "float64" && len(e.Args) == 1 {
			if ce.locals != nil {
				if _, _, shadows := ce.locals("float64"); shadows {
					return nil, false
				}
			}
			if x, ok := ce.eval(e.Args[0]); ok {
				return &cval{v: round64(x.v), typed: true}, true
			}
		}
	}
	return nil, false
}

func (p *pkg) constant(w *world, name string) (*cval, bool) {
	if c, ok := p.memo[name]; ok {
		return c, c != nil
	}
	vs, ok := p.consts[name]
	if !ok || p.busy[name] || p.cidx[name] >= len(vs.Values) { // implicit repetition / iota: not in the subset
		return nil, false
	}
	p.busy[name] = true
	defer delete(p.busy, name)
	c, ok := constEnv{w: w, p: p, file: p.cfile[name]}.eval(vs.Values[p.cidx[name]])
	if ok && vs.Type != nil {
		if t, isId := vs.Type.(*ast.Ident); isId && t.Name == "float64" {
			c = &cval{v: round64(c.v), typed: true}
		} else {
			ok = false
		}
	}
	if !ok {
		p.memo[name] = nil
		return nil, false
	}
	p.memo[name] = c
	return c, true
}

// the untyped constants of package math (src/math/const.go), digit for digit
var mathConsts = map[string]string{
	"E":      "2.71828182845904523536028747135266249775724709369995957496696763",
	"Pi":     "3.14159265358979323846264338327950288419716939937510582097494459",
	"Phi":    "1.61803398874989484820458683436563811772030917980576286213544862",
	"Sqrt2":  "1.41421356237309504880168872420969807856967187537694807317667974",
	"SqrtE":  "1.64872127070012814684865078781416357165377610071014801157507931",
	"SqrtPi": "1.77245385090551602729816748334114518279754945612238712821380779",
	"Ln2":    "0.693147180559945309417232121458176568075500134360255254120680009",
	"Ln10":   "2.30258509299404568401799145468436420760110148862877297603332790",
}

var (
	rePlain = regexp.MustCompile(`^[0-9]+\.[0-9]+$`)
	reDot   = regexp.MustCompile(`^[0-9]+\.$`)
	reInt   = regexp.MustCompile(`^(0|[1-9][0-9]*)$`)
	reFloat = regexp.MustCompile(`^[0-9]+\.[0-9]+([eE][+-]?[0-9]+)?$|^[0-9]+[eE][+-]?[0-9]+$`)
)

// the correctly rounded float64 value of a constant as a Lean literal (shortest decimal that round-trips)
func leanOfValue(v constant.Value) string {
	f, _ := constant.Float64Val(constant.ToFloat(v))
	s := strconv.FormatFloat(f, 'f', -1, 64)
	if f < 0 {
		return "(" + s + ")"
	}
	return s
}

func main() {
	repo := flag.String("repo", "", "repository root (default $OW_REPO, then /repo)")
	nsFlag := flag.String("ns", "OW.Gen.K", "namespace of the generated definitions (development only)")
	flag.Parse()
	if *repo == "" {
		*repo = os.Getenv("OW_REPO")
	}
	if *repo == "" {
		*repo = "/repo"
	}
	if flag.NArg() != 1 {
		fmt.Fprintln(os.Stderr, "usage: owtranslate [-repo DIR] OUT.lean")
		os.Exit(2)
	}
	abs, err := filepath.Abs(*repo)
	if err != nil {
		fmt.Fprintln(os.Stderr, err)
		os.Exit(2)
	}
	gm, err := os.ReadFile(filepath.Join(abs, "go.mod"))
	if err != nil {
		fmt.Fprintln(os.Stderr, err)
		os.Exit(2)
	}
	m := regexp.MustCompile(`(?m)^module\s+(\S+)`).FindSubmatch(gm)
	if m == nil {
		fmt.Fprintln(os.Stderr, "no module line in go.mod")
		os.Exit(2)
	}
	w := &world{repo: abs, module: string(m[1]), fset: token.NewFileSet(), pkgs: map[string]*pkg{}, partialMemo: map[string]bool{}, sliceUse: map[string]bool{}, derivedUse: map[string]bool{}}
	var b strings.Builder
	b.WriteString("import OW.Num\nimport OW.Gen.Prelude\nimport OW.Gen.Attr\n/-\nGENERATED by harness/cmd/owtranslate from the Go source of the kernels — do not edit; regenerated on every run.\n" +
		"One namespace per Go function: `guard` (early return before the loop), `pre` (values computed before the loop),\n" +
		"`init` (state on loop entry), `step` (one iteration). Assignments are shadowing `let`s in program order; an `if` that\n" +
		"cannot end the step is a merge `let phiN := if … then (…) else (…)`; an output not set on a path keeps `Num.zero`.\n-/\n" +
		"set_option linter.unusedVariables false\nnamespace " + *nsFlag + "\nopen OW OW.Gen.Prelude\n\n" +
		"/-- `for i := 0; i < n; i++ { c = body c; if <break> { break } }`: `body` returns the new carried values and whether the loop is left -/\n" +
		"def boundedLoop {σ : Type} (body : σ → σ × Bool) : Nat → σ → σ\n  | 0, c => c\n  | n + 1, c => let r := body c; if r.2 then r.1 else boundedLoop body n r.1\n\n")
	var reps []report
	var tied []string
	for _, t := range table {
		w.current = t.Func
		text, rep := translateOne(w, t.Dir, t.Func, t.NonNil, t.Whole, t.Lift)
		if rep.Status == "ok" && !rep.Whole {
			if w.sliceUse[t.Func] {
				rep.NotModelled = append(rep.NotModelled, "out-of-range slice accesses (Go panic): sliceGet returns the default value, sliceSet leaves the list unchanged")
			}
			if len(rep.Fuel) > 0 {
				rep.NotModelled = append(rep.NotModelled, "termination of the sub-step loops: they are rendered with explicit fuel ("+strings.Join(rep.Fuel, ", ")+"); step is none also when the fuel runs out")
			}
			if w.derivedUse[t.Func] {
				rep.NotModelled = append(rep.NotModelled, "data.NewArray1DFloat64 / CopyFrom / data.AddToFloat64Array on a temporary series are rendered as the element-wise copy / sum (data/gen-arrayops.go is not translated)")
			}
		}
		reps = append(reps, rep)
		if rep.Status == "ok" {
			b.WriteString(text + "\n")
			tied = append(tied, strconv.Quote(t.Func))
		} else {
			fmt.Fprintf(&b, "-- %s (%s): %s: %s\n\n", t.Func, t.Dir, rep.Status, rep.Reason)
		}
	}
	fmt.Fprintf(&b, "/-- the Go functions translated in this run -/\ndef translated : List String := [%s]\n\nend %s\n", strings.Join(tied, ", "), *nsFlag)
	out := flag.Arg(0)
	old, _ := os.ReadFile(out)
	changed := string(old) != b.String()
	if changed {
		tmp := fmt.Sprintf("%s.%d.tmp", out, os.Getpid())
		if err := os.WriteFile(tmp, []byte(b.String()), 0o644); err != nil {
			fmt.Fprintln(os.Stderr, err)
			os.Exit(2)
		}
		if err := os.Rename(tmp, out); err != nil {
			fmt.Fprintln(os.Stderr, err)
			os.Exit(2)
		}
	}
	js, _ := json.MarshalIndent(map[string]interface{}{"repo": abs, "out": out, "changed": changed, "kernels": reps}, "", " ")
	fmt.Println(string(js))
}
