package main

import (
	"fmt"
	"go/ast"
	"go/token"
	"strings"
)

// ---- a branch (or a whole body) that hands the run to another kernel function of the module

type delegation struct {
	nLets      int
	cond       string
	whole      bool
	callee     string
	rel        string
	line       int
	sub        *kernel
	subText    string
	scalarArgs map[string]string    // callee float64 parameter → argument (an atom)
	seriesArg  map[string]*variable // callee series parameter → this function's series (absent: nil)
	seriesExpr map[string]string    // callee series parameter → per-step expression over this function's input series (a derived temporary)
	seriesDesc map[string]string
	lhs        []*variable // the variables that receive the callee's results
	retText    string      // the tuple this branch returns, in terms of the variables in scope after the call
	nret       int
}

func (d *delegation) describe() string {
	what := "branch `if " + d.cond + "`"
	if d.whole {
		what = "whole body"
	}
	return fmt.Sprintf("%s at %s:%d runs %s", what, d.rel, d.line, d.callee)
}

// `if cond { [x =] Callee(…); return … }` before the loop: a delegation when the callee is a kernel function inside the
// subset, else an abstract branch (condition translated, body not)
func (k *kernel) returningBranch(s *ast.IfStmt, cond string, last *ast.ReturnStmt) {
	rel, line := k.relPos(s)
	why := "the body is not `[x =] Callee(args…); return …` with a kernel function of the module as callee"
	// leading statements that build a temporary series element-wise from series parameters:
	//   X := data.NewArray1DFloat64(S.Len1()); X.CopyFrom(S); data.AddToFloat64Array(X, T)   ↦   X at step t = S + T
	bodyList := s.Body.List
	k.derived = map[string]string{}
	for len(bodyList) > 2 && k.derivedSeriesStmt(bodyList[0]) {
		bodyList = bodyList[1:]
	}
	if len(bodyList) == 2 {
		var call *ast.CallExpr
		var lhs []ast.Expr
		tok := token.ILLEGAL
		switch st := bodyList[0].(type) {
		case *ast.ExprStmt:
			call, _ = st.X.(*ast.CallExpr)
		case *ast.AssignStmt:
			if len(st.Rhs) == 1 && (st.Tok == token.ASSIGN || st.Tok == token.DEFINE) {
				call, _ = st.Rhs[0].(*ast.CallExpr)
				lhs, tok = st.Lhs, st.Tok
			}
		}
		if call != nil {
			if r := k.resolveFunc(call.Fun); r != nil && k.isKernelFunc(r) {
				saved := k.sc
				func() {
					defer func() {
						if rec := recover(); rec != nil {
							u, ok := rec.(unsupported)
							if !ok {
								panic(rec)
							}
							why = "callee " + r.fd.Name.Name + " outside the subset: " + u.msg
							k.sc = saved
						}
					}()
					k.push()
					k.deleg = k.delegate(call, r, lhs, tok, last, cond, false)
					k.sc = saved
				}()
				if k.deleg != nil {
					return
				}
			}
		}
	}
	k.abstracts = append(k.abstracts, abstractBranch{nLets: len(k.preLets), cond: cond, why: why, rel: rel, line: line})
}

func (k *kernel) delegate(call *ast.CallExpr, r *funcRef, lhs []ast.Expr, tok token.Token, ret *ast.ReturnStmt, cond string,
	whole bool) *delegation {
	d := &delegation{nLets: len(k.preLets), cond: cond, whole: whole, callee: r.fd.Name.Name, scalarArgs: map[string]string{},
		seriesArg: map[string]*variable{}, seriesExpr: map[string]string{}, seriesDesc: map[string]string{}}
	d.rel, d.line = k.relPos(call)
	ps := k.flatten(r)
	if len(ps) != len(call.Args) || call.Ellipsis.IsValid() {
		k.fail(call, "call of %s with %d arguments", d.callee, len(call.Args))
	}
	nilS, fb := map[string]bool{}, map[string]*funcRef{}
	passedOut := map[*variable]bool{}
	for i, pa := range ps {
		a := call.Args[i]
		switch pa.kind {
		case 's':
			if isIdent(a, "nil") && k.lookup("nil") == nil {
				nilS[pa.name] = true
				continue
			}
			id, _ := a.(*ast.Ident)
			var v *variable
			if id != nil {
				if e, ok := k.derived[id.Name]; ok && k.lookup(id.Name) == nil { // a temporary series built element-wise
					d.seriesExpr[pa.name] = e
					d.seriesDesc[pa.name] = id.Name + " (= " + e + " at every step)"
					k.w.derivedUse[k.w.current] = true
					continue
				}
				v = k.lookup(id.Name)
			}
			if v == nil || v.kind != vSeries || v.isNil {
				k.fail(a, "series argument of %s that is not a series parameter of this function or nil", d.callee)
			}
			d.seriesArg[pa.name] = v
		case 'f':
			s, p := k.num(a)
			d.scalarArgs[pa.name] = paren(s, p, pAtom)
		case 'F':
			fr := k.resolveFunc(a)
			if fr == nil {
				k.fail(a, "function argument of %s that is not a function of the module", d.callee)
			}
			fb[pa.name] = fr
		default:
			k.fail(a, "argument %d of %s has a type outside the subset", i+1, d.callee)
		}
	}
	var subRep report
	d.subText, subRep, d.sub = runKernel(func() *kernel {
		return &kernel{w: k.w, p: r.p, file: r.f, fn: r.fd, imp: imports(r.f), nonNil: true, sub: true, nsName: "delegate",
			nilSeries: nilS, funcBind: fb, hs: newHelperSet(), leanOf: map[token.Pos]string{}, used: map[string]bool{}}
	})
	_ = subRep
	sub := d.sub
	switch {
	case !sub.hasLoop:
		k.fail(call, "delegation to %s, which itself delegates", d.callee)
	case len(sub.guards) > 0 || sub.deleg != nil || len(sub.abstracts) > 0:
		k.fail(call, "delegation to %s, which has an early return", d.callee)
	case len(sub.hidden) > 0 || len(sub.firsts) > 0 || len(sub.abstractFns()) > 0 || sub.partial || len(sub.absCalls) > 0:
		k.fail(call, "delegation to %s, which has hidden state, reads first elements or has an abstract helper", d.callee)
	}
	// the callee's series in terms of this function's
	for _, s := range sub.inputs {
		if _, ok := d.seriesExpr[s.name]; ok {
			continue
		}
		v := d.seriesArg[s.name]
		if k.outVar[v] != nil {
			k.fail(call, "series %s is written by this function and read by %s", v.name, d.callee)
		}
	}
	for _, s := range sub.outputs {
		if _, ok := d.seriesExpr[s.name]; ok {
			k.fail(call, "the temporary series passed as %s is written by %s", s.name, d.callee)
		}
		v := d.seriesArg[s.name]
		if k.outVar[v] == nil || passedOut[v] {
			k.fail(call, "series %s is written by %s: not an output of this function, or passed twice", v.name, d.callee)
		}
		passedOut[v] = true
	}
	// results
	if len(lhs) != len(sub.states) && !(len(lhs) == 0 && len(sub.states) == 0) {
		k.fail(call, "the %d results of %s are not all assigned", len(sub.states), d.callee)
	}
	for _, l := range lhs {
		id, ok := l.(*ast.Ident)
		if !ok {
			k.fail(l, "assignment to %T", l)
		}
		var v *variable
		if _, here := k.sc.vars[id.Name]; tok == token.DEFINE && !here {
			v = k.declare(id, vFloat)
		} else {
			v = k.lookup(id.Name)
			if v == nil || v.kind != vFloat {
				k.fail(l, "assignment to %s, which is not a float64 variable", id.Name)
			}
		}
		d.lhs = append(d.lhs, v)
	}
	if whole {
		return d
	}
	// what the branch returns
	if len(ret.Results) == 0 {
		if len(k.results) != k.nres {
			k.fail(ret, "return without values")
		}
		d.retText, d.nret = tupleOf(k.results), k.nres
	} else {
		if len(ret.Results) != k.nres {
			k.fail(ret, "return of %d expressions for %d results", len(ret.Results), k.nres)
		}
		var vals []string
		for _, e := range ret.Results {
			s, _ := k.num(e)
			vals = append(vals, s)
		}
		d.retText, d.nret = tupleOfNames(vals), k.nres
	}
	return d
}

// component i of the n states / j of the m outputs of a step result named r
func stateProj(r string, i, ns, no int) string {
	if no > 0 {
		return r + ".1" + proj(i, ns)
	}
	return r + proj(i, ns)
}

func outProj(r string, j, ns, no int) string {
	if ns > 0 {
		return r + ".2" + proj(j, no)
	}
	return r + proj(j, no)
}

func (k *kernel) renderDelegation(all, preLets string) string {
	d, sub := k.deleg, k.deleg.sub
	var b strings.Builder
	b.WriteString(d.subText)
	subParams, subLive := sub.stepParams()
	ns, no := len(sub.states), len(sub.outputs)
	argsOf := func(vs []*variable) string {
		var s []string
		for _, v := range vs {
			s = append(s, d.scalarArgs[v.name])
		}
		if len(s) == 0 {
			return ""
		}
		return " " + strings.Join(s, " ")
	}
	var maps []string
	for _, s := range sub.series {
		if e, ok := d.seriesDesc[s.name]; ok {
			maps = append(maps, s.name+" := "+e)
		} else if v, ok := d.seriesArg[s.name]; ok {
			maps = append(maps, s.name+" := "+v.name)
		} else {
			maps = append(maps, s.name+" := nil")
		}
	}
	what := fmt.Sprintf("the branch at %s:%d is taken: the whole run is that of `%s` (series: %s); guard / pre / init / step describe the run when this is false",
		d.rel, d.line, d.callee, strings.Join(maps, ", "))
	if d.whole {
		what = fmt.Sprintf("the whole body (%s:%d) is one call of `%s` (series: %s)", d.rel, d.line, d.callee, strings.Join(maps, ", "))
	}
	fmt.Fprintf(&b, "/-- %s -/\ndef delegates {α : Type} [Num α]%s : Bool :=\n%s  %s\n", what, all, preLets, d.cond)
	// state binders of the callee, named apart from everything of this function
	var stNames []string
	for _, s := range sub.states {
		stNames = append(stNames, k.fresh("d_"+s.name))
	}
	stBinder := ""
	if ns > 0 {
		stBinder = " (" + strings.Join(stNames, " ") + " : α)"
	}
	if ns > 0 {
		fmt.Fprintf(&b, "/-- the state of `%s` on entry to its loop -/\ndef delegateInit {α : Type} [Num α]%s : %s :=\n%s  delegate.init%s\n",
			d.callee, all, tupleType(ns), preLets, argsOf(sub.scalars))
	}
	// one iteration
	var outs []string
	for _, o := range k.outputs {
		val := "Num.zero"
		for j, so := range sub.outputs {
			if d.seriesArg[so.name] == o {
				val = outProj("r", j, ns, no)
			}
		}
		outs = append(outs, val)
	}
	var ins []string
	for _, s := range sub.inputs {
		if e, ok := d.seriesExpr[s.name]; ok {
			ins = append(ins, "("+e+")")
			continue
		}
		ins = append(ins, d.seriesArg[s.name].lean)
	}
	fmt.Fprintf(&b, "/-- one iteration of the loop of `%s`, in terms of this function's parameters and series (an output it does not write keeps `Num.zero`) -/\n", d.callee)
	fmt.Fprintf(&b, "def delegateStep {α : Type} [Num α]%s%s%s : %s :=\n%s", all, stBinder, binder(k.inputs), stepType(ns, len(k.outputs)), preLets)
	liveArgs := ""
	if len(subLive) > 0 {
		fmt.Fprintf(&b, "  let p : %s := delegate.pre%s\n", tupleType(len(subLive)), argsOf(sub.scalars))
		for i := range subLive {
			liveArgs += " p" + proj(i, len(subLive))
		}
	}
	tail := ""
	if ns > 0 {
		tail += " " + strings.Join(stNames, " ")
	}
	if len(ins) > 0 {
		tail += " " + strings.Join(ins, " ")
	}
	fmt.Fprintf(&b, "  let r : %s := delegate.step%s%s%s\n", stepType(ns, no), argsOf(subParams), liveArgs, tail)
	stExpr := "r"
	if ns > 0 && no > 0 {
		stExpr = "r.1"
	}
	switch {
	case ns > 0 && len(k.outputs) > 0:
		fmt.Fprintf(&b, "  (%s, %s)\n", stExpr, tupleOfNames(outs))
	case ns > 0:
		fmt.Fprintf(&b, "  %s\n", stExpr)
	default:
		fmt.Fprintf(&b, "  %s\n", tupleOfNames(outs))
	}
	if !d.whole && d.nret > 0 {
		fmt.Fprintf(&b, "/-- what the branch returns, given the final state of `%s` -/\ndef delegateFinal {α : Type} [Num α]%s%s : %s :=\n%s",
			d.callee, all, stBinder, tupleType(d.nret), preLets)
		for i, v := range d.lhs {
			fmt.Fprintf(&b, "  let %s : α := %s\n", v.lean, stNames[i])
		}
		fmt.Fprintf(&b, "  %s\n", d.retText)
	}
	return b.String()
}

// one of the statements that build a temporary series element-wise from series parameters (see returningBranch)
func (k *kernel) derivedSeriesStmt(st ast.Stmt) bool {
	seriesExpr := func(e ast.Expr) (string, bool) {
		id, ok := e.(*ast.Ident)
		if !ok {
			return "", false
		}
		if x, ok := k.derived[id.Name]; ok && k.lookup(id.Name) == nil {
			return x, true
		}
		if v := k.lookup(id.Name); v != nil && v.kind == vSeries && !v.isNil && k.outVar[v] == nil {
			return v.lean, true
		}
		return "", false
	}
	dataPkg := func(e ast.Expr, name string) bool {
		return isSel(e, "data", name) && k.lookup("data") == nil && k.imp["data"] == k.w.module+"/data"
	}
	switch st := st.(type) {
	case *ast.AssignStmt: // X := data.NewArray1DFloat64(S.Len1())
		if st.Tok != token.DEFINE || len(st.Lhs) != 1 || len(st.Rhs) != 1 {
			return false
		}
		id, ok := st.Lhs[0].(*ast.Ident)
		c, ok2 := st.Rhs[0].(*ast.CallExpr)
		if !ok || !ok2 || !dataPkg(c.Fun, "NewArray1DFloat64") || len(c.Args) != 1 || k.lookup(id.Name) != nil {
			return false
		}
		if lc, ok := c.Args[0].(*ast.CallExpr); ok && len(lc.Args) == 0 {
			if sel, ok := lc.Fun.(*ast.SelectorExpr); ok && sel.Sel.Name == "Len1" {
				if _, ok := seriesExpr(sel.X); ok {
					k.derived[id.Name] = "Num.zero"
					return true
				}
			}
		}
	case *ast.ExprStmt:
		c, ok := st.X.(*ast.CallExpr)
		if !ok {
			return false
		}
		if sel, ok := c.Fun.(*ast.SelectorExpr); ok && sel.Sel.Name == "CopyFrom" && len(c.Args) == 1 { // X.CopyFrom(S)
			if id, ok := sel.X.(*ast.Ident); ok {
				if _, isDerived := k.derived[id.Name]; isDerived && k.lookup(id.Name) == nil {
					if e, ok := seriesExpr(c.Args[0]); ok {
						k.derived[id.Name] = e
						return true
					}
				}
			}
		}
		if dataPkg(c.Fun, "AddToFloat64Array") && len(c.Args) == 2 { // data.AddToFloat64Array(X, T): X[i] += T[i]
			if id, ok := c.Args[0].(*ast.Ident); ok {
				if cur, isDerived := k.derived[id.Name]; isDerived && k.lookup(id.Name) == nil {
					if e, ok := seriesExpr(c.Args[1]); ok {
						k.derived[id.Name] = cur + " + " + e
						return true
					}
				}
			}
		}
	}
	return false
}
