package main

import (
	"go/ast"
	"go/token"
	"strings"
)

// ---- SINKING of pre-loop values. A float64 / bool / int variable declared at the top level of the function before the loop,
// never assigned again, whose defining expression reads only parameters that are never assigned, constants and other such
// variables (through pure operations: arithmetic, math.*, total helper functions) is a function of the parameters alone. It is
// rendered as a `let` at the top of `step` (and `final`) instead of as a component of `pre`, so that hoisting a loop-invariant
// expression out of the loop, or moving it back in, yields the same term up to zeta-reduction.

type sunkLet struct {
	v    *variable
	text string
	deps []*variable
}

func (k *kernel) trySink(v *variable, rhs ast.Expr, text string) {
	if k.mode != mKernel || k.inLoop || k.inFinal || k.clo != nil || len(k.frames) > 0 || k.preInd != 0 || k.prePartial || k.sc.depth != 0 {
		return
	}
	if !(v.kind == vFloat || v.kind == vBool || v.kind == vIntVar) || v.state || v.hidden || k.retNames[v.name] || !k.singleAssignment(v.name) {
		return
	}
	deps, ok := k.pureDeps(rhs)
	if !ok {
		return
	}
	v.sunk = true
	k.sunkLets = append(k.sunkLets, sunkLet{v, text, deps})
}

// the sunk variables an expression reads; false when it reads anything that is not a function of the parameters alone
func (k *kernel) pureDeps(e ast.Expr) ([]*variable, bool) {
	var deps []*variable
	ok := true
	var walk func(e ast.Expr)
	walk = func(e ast.Expr) {
		if !ok || e == nil {
			return
		}
		switch e := e.(type) {
		case *ast.BasicLit:
		case *ast.ParenExpr:
			walk(e.X)
		case *ast.UnaryExpr:
			if e.Op == token.AND || e.Op == token.ARROW {
				ok = false
				return
			}
			walk(e.X)
		case *ast.BinaryExpr:
			walk(e.X)
			walk(e.Y)
		case *ast.Ident:
			v := k.lookup(e.Name)
			switch {
			case v == nil: // a package-level constant, true / false
				if _, isFunc := k.p.funcs[e.Name]; isFunc {
					ok = false
				}
			case v.kind == vConst || v.boolLit != "":
			case v.sunk:
				deps = append(deps, v)
			case v.param && (v.kind == vFloat || v.kind == vBool || v.kind == vIntVar) && !v.state && !v.reassigned && k.singleAssignment(v.name):
			default:
				ok = false
			}
		case *ast.SelectorExpr: // pkg.CONSTANT
			x, isId := e.X.(*ast.Ident)
			if !isId || k.lookup(x.Name) != nil {
				ok = false
				return
			}
			if _, isConst := k.constEnv().eval(e); !isConst {
				ok = false
			}
		case *ast.CallExpr:
			if e.Ellipsis.IsValid() {
				ok = false
				return
			}
			pureFn := false
			switch f := unparen(e.Fun).(type) {
			case *ast.Ident:
				if k.lookup(f.Name) == nil && (f.Name == "float64" || f.Name == "int") && len(e.Args) == 1 {
					pureFn = true
				}
			case *ast.SelectorExpr:
				if x, isId := f.X.(*ast.Ident); isId && k.lookup(x.Name) == nil {
					path := k.imp[x.Name]
					if path == "math" && (mathFns[f.Sel.Name].lean != "" || f.Sel.Name == "IsNaN") {
						pureFn = true
					}
					if path == k.w.module+"/util/m" {
						switch f.Sel.Name {
						case "MinFloat64", "MaxFloat64", "MinInt", "MaxInt":
							pureFn = true
						}
					}
				}
			}
			if !pureFn {
				if r := k.resolveFunc(e.Fun); r != nil && k.closureOf(e.Fun) == nil {
					if h, done := k.hs.by[r.p.dir+"."+r.fd.Name.Name]; done && h.abstract == "" && !h.partial && len(h.absFns) == 0 {
						pureFn = true
					}
				}
			}
			if !pureFn {
				ok = false
				return
			}
			for _, a := range e.Args {
				walk(a)
			}
		default:
			ok = false
		}
	}
	walk(e)
	return deps, ok
}

// the sunk lets the loop body (or the statements after the loop) needs, in program order, rendered one level deep
func (k *kernel) sunkText() string {
	need := map[*variable]bool{}
	for i := len(k.sunkLets) - 1; i >= 0; i-- {
		l := k.sunkLets[i]
		if k.liveIn[l.v] || need[l.v] {
			need[l.v] = true
			for _, d := range l.deps {
				need[d] = true
			}
		}
	}
	var b strings.Builder
	for _, l := range k.sunkLets {
		if need[l.v] {
			b.WriteString("  " + l.text + "\n")
		}
	}
	return b.String()
}

// ---- syntactic facts about the names of a function body

// names that are declared more than once, or assigned after their declaration, anywhere in the function being translated
// (function literals included; parameters and named results count as one declaration)
func (k *kernel) scanAssignments() {
	k.assignedTwice = map[string]bool{}
	decl := map[string]int{}
	note := func(e ast.Expr, define bool) {
		if ix, ok := e.(*ast.IndexExpr); ok {
			e = ix.X
		}
		if sel, ok := e.(*ast.SelectorExpr); ok { // a field of a struct variable
			e = sel.X
		}
		id, ok := e.(*ast.Ident)
		if !ok || id.Name == "_" {
			return
		}
		if define {
			decl[id.Name]++
			if decl[id.Name] > 1 {
				k.assignedTwice[id.Name] = true
			}
			return
		}
		k.assignedTwice[id.Name] = true
	}
	for _, fl := range []*ast.FieldList{k.fn.Type.Params, k.fn.Type.Results} {
		if fl == nil {
			continue
		}
		for _, f := range fl.List {
			for _, n := range f.Names {
				decl[n.Name]++
			}
		}
	}
	ast.Inspect(k.fn.Body, func(n ast.Node) bool {
		switch s := n.(type) {
		case *ast.AssignStmt:
			for _, l := range s.Lhs {
				_, isId := l.(*ast.Ident)
				note(l, s.Tok == token.DEFINE && isId)
			}
		case *ast.IncDecStmt:
			note(s.X, false)
		case *ast.RangeStmt:
			if s.Key != nil {
				note(s.Key, s.Tok == token.DEFINE)
			}
			if s.Value != nil {
				note(s.Value, s.Tok == token.DEFINE)
			}
		case *ast.ValueSpec:
			for _, id := range s.Names {
				note(id, true)
			}
		case *ast.FuncLit:
			for _, fl := range []*ast.FieldList{s.Type.Params, s.Type.Results} {
				if fl == nil {
					continue
				}
				for _, f := range fl.List {
					for _, id := range f.Names {
						note(id, true)
					}
				}
			}
		case *ast.UnaryExpr:
			if s.Op == token.AND { // &x: may be written through the pointer
				note(s.X, false)
			}
		}
		return true
	})
}

func (k *kernel) singleAssignment(name string) bool {
	if k.assignedTwice == nil {
		k.scanAssignments()
	}
	return !k.assignedTwice[name]
}

// a module function without results whose body only prints (fmt.Print*), possibly through other such functions
func printOnly(w *world, r *funcRef, depth int) bool {
	if r == nil || r.fd.Body == nil || r.fd.Type.Results != nil && len(r.fd.Type.Results.List) > 0 || depth > 4 {
		return false
	}
	imp := imports(r.f)
	locals := map[string]bool{}
	if r.fd.Type.Params != nil {
		for _, f := range r.fd.Type.Params.List {
			for _, n := range f.Names {
				locals[n.Name] = true
			}
		}
	}
	for _, s := range r.fd.Body.List {
		es, ok := s.(*ast.ExprStmt)
		if !ok {
			return false
		}
		c, ok := es.X.(*ast.CallExpr)
		if !ok {
			return false
		}
		pure := true
		for _, a := range c.Args { // the arguments are evaluated: they must not call anything
			ast.Inspect(a, func(x ast.Node) bool {
				if _, isCall := x.(*ast.CallExpr); isCall {
					pure = false
				}
				return pure
			})
		}
		if !pure {
			return false
		}
		switch f := c.Fun.(type) {
		case *ast.SelectorExpr:
			x, ok := f.X.(*ast.Ident)
			if !ok || locals[x.Name] || imp[x.Name] != "fmt" || !strings.HasPrefix(f.Sel.Name, "Print") {
				return false
			}
		case *ast.Ident:
			fd, ok := r.p.funcs[f.Name]
			if !ok || locals[f.Name] || !printOnly(w, &funcRef{r.p, r.p.ffile[f.Name], fd}, depth+1) {
				return false
			}
		default:
			return false
		}
	}
	return true
}
