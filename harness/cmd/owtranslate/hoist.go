package main

import (
	"fmt"
	"go/ast"
	"go/token"
)

// ---- calls of functions that may panic INSIDE an expression (`out.Set(idx, float64(f(…)))`, `if d > f(…) {`): each such
// call is bound first, in evaluation order (arguments before the call, left operand before right), by
// `match f … with | none => none | some t => …`, and the expression then reads `t`. A call in the right operand of && / ||
// is refused (it would be evaluated unconditionally).

type hoistedCall struct {
	name, typ string
}

func (k *kernel) hoistExpr(ind *int, e ast.Expr, top bool) {
	switch e := e.(type) {
	case *ast.ParenExpr:
		k.hoistExpr(ind, e.X, top)
	case *ast.UnaryExpr:
		k.hoistExpr(ind, e.X, false)
	case *ast.IndexExpr:
		k.hoistExpr(ind, e.X, false)
		k.hoistExpr(ind, e.Index, false)
	case *ast.BinaryExpr:
		k.hoistExpr(ind, e.X, false)
		if (e.Op == token.LAND || e.Op == token.LOR) && k.nodePartial(e.Y) {
			k.fail(e.Y, "call of a function that may panic in the right operand of %s", e.Op)
		}
		k.hoistExpr(ind, e.Y, false)
	case *ast.CallExpr:
		if isIdent(e.Fun, "panic") {
			return
		}
		for _, a := range e.Args {
			if _, isLit := a.(*ast.FuncLit); !isLit {
				k.hoistExpr(ind, a, false)
			}
		}
		if top || k.hoisted[e] != nil || !k.callMayPanic(e) {
			return
		}
		if len(k.frames) > k.frameBase || !k.partial {
			k.fail(e, "call of a function that may panic inside a branch that is merged (or in a function judged total)")
		}
		text, outs := k.partialCallText(e)
		if len(outs) != 1 {
			k.fail(e, "call with %d results inside an expression", len(outs))
		}
		k.ncall++
		tmp := k.fresh(fmt.Sprintf("call%d", k.ncall))
		k.line(*ind, "match %s with", text)
		k.line(*ind, "| none => none")
		k.countLeaf()
		k.line(*ind, "| some %s =>", tmp)
		*ind++
		if k.hoisted == nil {
			k.hoisted = map[*ast.CallExpr]*hoistedCall{}
		}
		k.hoisted[e] = &hoistedCall{tmp, outs[0]}
	}
}

// binds the calls that may panic inside the expressions of one statement; returns how much deeper the rest is rendered
func (k *kernel) hoistStmt(ind int, s ast.Stmt) int {
	start := ind
	switch s := s.(type) {
	case *ast.ExprStmt:
		k.hoistExpr(&ind, s.X, true)
	case *ast.AssignStmt:
		for _, r := range s.Rhs {
			k.hoistExpr(&ind, r, len(s.Rhs) == 1)
		}
	case *ast.IfStmt:
		if s.Init == nil {
			k.hoistExpr(&ind, s.Cond, false)
		}
	case *ast.ReturnStmt:
		for _, r := range s.Results {
			k.hoistExpr(&ind, r, len(s.Results) == 1)
		}
	}
	return ind - start
}
