package main

import (
	"fmt"
	"go/ast"
	"go/token"
	"path/filepath"
	"sort"
	"strings"
)

// ---- the function

type report struct {
	Func             string   `json:"func"`
	File             string   `json:"file"`
	Line             int      `json:"line"`
	Status           string   `json:"status"` // "ok" | "unsupported" | "missing"
	Reason           string   `json:"reason,omitempty"`
	Params           []string `json:"params,omitempty"`
	PreLive          []string `json:"pre_locals,omitempty"`
	States           []string `json:"states,omitempty"`
	Hidden           []string `json:"hidden_states,omitempty"`
	Firsts           []string `json:"first_elements,omitempty"`
	Inputs           []string `json:"inputs,omitempty"`
	Outputs          []string `json:"outputs,omitempty"`
	NotAlways        []string `json:"outputs_not_set_on_every_path,omitempty"`
	Unused           []string `json:"series_not_accessed,omitempty"`
	Guard            bool     `json:"guard"`
	Helpers          []string `json:"helpers,omitempty"`
	AbstractHelpers  []string `json:"abstract_helpers,omitempty"`  // NOT translated: arguments of the definitions
	AbstractBranches []string `json:"abstract_branches,omitempty"` // NOT translated: only the condition is
	Delegation       string   `json:"delegation,omitempty"`
	Assumed          []string `json:"assumed,omitempty"`
	Paths            int      `json:"paths,omitempty"`
	Fuel             []string `json:"fuel_parameters,omitempty"` // sub-step loops: explicit fuel arguments of step
	Whole            bool     `json:"whole_function,omitempty"`  // translated as a whole (series as lists), not per step
	NotModelled      []string `json:"not_modelled,omitempty"`
}

type abstractBranch struct {
	nLets     int
	cond, why string
	rel       string
	line      int
}

type paramInfo struct {
	name string
	kind byte // 's' series, 'f' float64, 'F' function-valued, '?' other
}

func (k *kernel) isSeriesType(t ast.Expr, imp map[string]string) bool {
	return isSel(t, "data", "ND1Float64") && imp["data"] == k.w.module+"/data"
}

func isSel(e ast.Expr, x, sel string) bool {
	s, ok := e.(*ast.SelectorExpr)
	if !ok {
		return false
	}
	id, ok := s.X.(*ast.Ident)
	return ok && id.Name == x && s.Sel.Name == sel
}

// the function type a parameter type denotes (a named `type T func(float64, …) (float64, …)` of the package)
func funcTypeOf(p *pkg, t ast.Expr) *ast.FuncType {
	if ft, ok := t.(*ast.FuncType); ok {
		return ft
	}
	if id, ok := t.(*ast.Ident); ok {
		if ts, ok := p.types[id.Name]; ok {
			if ft, ok := ts.Type.(*ast.FuncType); ok {
				return ft
			}
		}
	}
	return nil
}

func (k *kernel) flatten(r *funcRef) []paramInfo {
	var out []paramInfo
	imp := imports(r.f)
	for _, fld := range r.fd.Type.Params.List {
		kind := byte('?')
		switch {
		case k.isSeriesType(fld.Type, imp):
			kind = 's'
		case isIdent(fld.Type, "float64"):
			kind = 'f'
		case funcTypeOf(r.p, fld.Type) != nil:
			kind = 'F'
		}
		if len(fld.Names) == 0 {
			out = append(out, paramInfo{"", '?'})
		}
		for _, n := range fld.Names {
			out = append(out, paramInfo{n.Name, kind})
		}
	}
	return out
}

// which identifiers have Get/Get1/Len1, resp. Set/Set1, called on them (syntactic)
func seriesRoles(body ast.Node) (read, written map[string]bool) {
	read, written = map[string]bool{}, map[string]bool{}
	ast.Inspect(body, func(n ast.Node) bool {
		if c, ok := n.(*ast.CallExpr); ok {
			if s, ok := c.Fun.(*ast.SelectorExpr); ok {
				if x, ok := s.X.(*ast.Ident); ok {
					switch s.Sel.Name {
					case "Get", "Get1", "Len1":
						read[x.Name] = true
					case "Set", "Set1":
						written[x.Name] = true
					}
				}
			}
		}
		return true
	})
	return
}

func (k *kernel) translate() (text string, rep report) {
	fn := k.fn
	pos := k.w.fset.Position(fn.Pos())
	rel, _ := filepath.Rel(k.w.repo, pos.Filename)
	rep = report{Func: fn.Name.Name, File: rel, Line: pos.Line}
	if fn.Recv != nil || fn.Type.TypeParams != nil || fn.Body == nil {
		k.fail(fn, "method, generic function or missing body")
	}
	k.sc = &scope{vars: map[string]*variable{}}
	k.firstOf = map[*variable]*variable{}
	k.liveIn = map[*variable]bool{}
	k.outVar = map[*variable]*variable{}
	k.isSet, k.always = map[*variable]bool{}, map[*variable]bool{}
	body := fn.Body.List
	// the final return determines the state variables
	var ret *ast.ReturnStmt
	if n := len(body); n > 0 {
		if r, ok := body[n-1].(*ast.ReturnStmt); ok {
			ret, body = r, body[:n-1]
		}
	}
	k.retNames = map[string]bool{}
	if ret != nil {
		for _, e := range ret.Results {
			if id, ok := e.(*ast.Ident); ok {
				k.retNames[id.Name] = true
			}
		}
	}
	// parameters
	k.idx = scanIndexVectors(fn.Body)
	seriesNames := map[string]bool{}
	for _, fld := range fn.Type.Params.List {
		for _, n := range fld.Names {
			if k.isSeriesType(fld.Type, k.imp) {
				seriesNames[n.Name] = true
			}
		}
	}
	tabs := k.scanTables(seriesNames)
	for _, fld := range fn.Type.Params.List {
		for _, n := range fld.Names {
			switch {
			case k.isSeriesType(fld.Type, k.imp) && tabs[n.Name]: // a table: read at constant indices / passed whole
				v := k.declare(n, vList)
				v.param = true
				k.scalars = append(k.scalars, v)
				k.tableSeries = append(k.tableSeries, v)
			case k.isSeriesType(fld.Type, k.imp):
				v := k.declare(n, vSeries)
				v.param = true
				v.isNil = k.nilSeries[n.Name]
				k.series = append(k.series, v)
			case isIdent(fld.Type, "float64"):
				v := k.declare(n, vFloat)
				v.param = true
				v.state = k.retNames[n.Name] // a parameter cannot be redeclared in the function's outermost block
				k.scalars = append(k.scalars, v)
			case isIdent(fld.Type, "int"):
				v := k.declare(n, vIntVar)
				v.param = true
				v.state = k.retNames[n.Name]
				k.scalars = append(k.scalars, v)
			case k.leanType(fld.Type, k.imp, false) == "List α":
				v := k.declare(n, vSlice)
				v.param = true
				v.state = k.retNames[n.Name]
				k.scalars = append(k.scalars, v)
			case funcTypeOf(k.p, fld.Type) != nil:
				if _, _, ok := floatSignature(funcTypeOf(k.p, fld.Type)); !ok || k.funcBind[n.Name] == nil {
					k.fail(fld, "function-valued parameter %s (translated only through the callers that bind it to a function)", n.Name)
				}
				v := k.declare(n, vFunc)
				v.param = true
				v.fn = k.funcBind[n.Name]
			default:
				k.fail(fld, "parameter %s of a type other than float64 / data.ND1Float64", n.Name)
			}
		}
		if len(fld.Names) == 0 {
			k.fail(fld, "unnamed parameter")
		}
	}
	if fn.Type.Results != nil {
		for _, fld := range fn.Type.Results.List {
			lt := k.leanType(fld.Type, k.imp, false)
			if lt == "" {
				k.fail(fld, "result of a type other than float64")
			}
			if len(fld.Names) == 0 {
				k.nres++
			}
			for _, n := range fld.Names {
				k.nres++
				v := k.declare(n, kindOfType(lt))
				k.results = append(k.results, v)
				k.preLocals = append(k.preLocals, v)
				k.preLets = append(k.preLets, fmt.Sprintf("let %s : %s := %s", v.lean, lt, zeroOf(lt)))
			}
		}
	}
	// which series are read, which are written: here, and by the kernel functions this one hands its series to
	read, written := seriesRoles(fn.Body)
	ast.Inspect(fn.Body, func(n ast.Node) bool {
		c, ok := n.(*ast.CallExpr)
		if !ok {
			return true
		}
		r := k.resolveFunc(c.Fun)
		if r == nil || r.fd.Body == nil || k.hasErrResult(r) {
			return true
		}
		ps := k.flatten(r)
		if len(ps) != len(c.Args) {
			return true
		}
		cr, cw := seriesRoles(r.fd.Body)
		for i, pa := range ps {
			if id, ok := c.Args[i].(*ast.Ident); ok && pa.kind == 's' {
				if v := k.lookup(id.Name); v != nil && v.kind == vSeries {
					read[id.Name] = read[id.Name] || cr[pa.name]
					written[id.Name] = written[id.Name] || cw[pa.name]
				}
			}
		}
		return true
	})
	// series handed whole to a function with an error result (tables)
	whole := map[string]bool{}
	ast.Inspect(fn.Body, func(n ast.Node) bool {
		if as, ok := n.(*ast.AssignStmt); ok && len(as.Lhs) == 2 && len(as.Rhs) == 1 {
			if c, ok := as.Rhs[0].(*ast.CallExpr); ok {
				if r := k.resolveFunc(c.Fun); k.hasErrResult(r) {
					for _, a := range c.Args {
						if id, ok := a.(*ast.Ident); ok {
							whole[id.Name] = true
						}
					}
				}
			}
		}
		if es, ok := n.(*ast.ExprStmt); ok {
			if c, ok := es.X.(*ast.CallExpr); ok && isIdent(c.Fun, "panic") {
				k.partial = true
			}
		}
		if c, ok := n.(*ast.CallExpr); ok { // a series handed to a helper function that only passes it on
			if r := k.resolveFunc(c.Fun); r != nil && !k.hasErrResult(r) {
				if ins, _, ok := k.typedSignature(r); ok {
					args := callArgs(c, r)
					for i, a := range args {
						if id, isId := a.(*ast.Ident); isId && i < len(ins) && ins[i] == "σ" {
							whole[id.Name] = true
						}
					}
				}
			}
		}
		return true
	})
	for _, s := range k.series {
		switch {
		case s.isNil:
		case whole[s.name] && !written[s.name] && !read[s.name]:
			k.tables = append(k.tables, s)
		case written[s.name]:
			ov := &variable{kind: vFloat, name: s.name, lean: k.fresh(s.name + "'"), isOut: true}
			k.outVar[s] = ov
			k.outputs = append(k.outputs, s)
		case read[s.name]:
			k.inputs = append(k.inputs, s)
		default:
			k.unused = append(k.unused, s.name)
		}
	}
	stateOf := func(r *ast.ReturnStmt) []*variable {
		var vs []*variable
		if r == nil || len(r.Results) == 0 {
			if k.nres != len(k.results) {
				k.fail(fn, "missing return values")
			}
			return append(vs, k.results...)
		}
		for _, e := range r.Results {
			id, ok := e.(*ast.Ident)
			var v *variable
			if ok {
				v = k.lookup(id.Name)
			}
			if v == nil || !(v.kind == vFloat || v.kind == vIntVar || v.kind == vSlice) {
				k.fail(r, "returned expression that is not a float64 variable")
			}
			for _, o := range vs {
				if o == v {
					k.fail(r, "variable %s returned twice", v.name)
				}
			}
			vs = append(vs, v)
		}
		return vs
	}
	var pre strings.Builder
	k.out = &pre
	flush := func() {
		for _, l := range strings.Split(strings.TrimRight(pre.String(), "\n"), "\n") {
			if l != "" {
				k.preLets = append(k.preLets, l)
			}
		}
		pre.Reset()
	}

	// a wrapper: the whole body is one call of another kernel function
	if es, ok := onlyStmt(body).(*ast.ExprStmt); ok && ret == nil && k.nres == 0 {
		if call, ok := es.X.(*ast.CallExpr); ok {
			if r := k.resolveFunc(call.Fun); r != nil && k.isKernelFunc(r) {
				k.deleg = k.delegate(call, r, nil, token.ILLEGAL, nil, "true", true)
				return k.render(rel, pos.Line, &rep)
			}
		}
	}

	// find the loop: the LAST top-level loop whose header is `for i := 0; i < <length of a series>; i++`
	loopAt := -1
	lenNames := map[string]bool{}
	for i, s := range body {
		if as, ok := s.(*ast.AssignStmt); ok && len(as.Lhs) == 1 && len(as.Rhs) == 1 && as.Tok == token.DEFINE {
			if c, ok := as.Rhs[0].(*ast.CallExpr); ok {
				if sel, ok := c.Fun.(*ast.SelectorExpr); ok && sel.Sel.Name == "Len1" {
					if id, ok := as.Lhs[0].(*ast.Ident); ok {
						lenNames[id.Name] = true
					}
				}
			}
		}
		if f, ok := s.(*ast.ForStmt); ok {
			if _, _, _, _, down := downHeader(f); down {
				continue // a count-down loop over an int range before the time loop
			}
			if _, _, hi, incl, ok := rangeHeader(f); ok && !incl {
				isLen := false
				if id, ok := hi.(*ast.Ident); ok && lenNames[id.Name] {
					isLen = true
				}
				if c, ok := hi.(*ast.CallExpr); ok {
					if sel, ok := c.Fun.(*ast.SelectorExpr); ok && sel.Sel.Name == "Len1" {
						isLen = true
					}
				}
				if !isLen {
					continue // a loop over an int range before the time loop
				}
			}
			if loopAt >= 0 {
				k.fail(s, "second loop")
			}
			loopAt = i
		}
	}
	if loopAt < 0 {
		k.fail(fn, "no loop over the series")
	}
	postStmts := body[loopAt+1:] // statements after the loop: the definition `final`
	k.postNames = map[string]bool{}
	for _, s := range postStmts {
		for n := range identsOf(s) {
			k.postNames[n] = true
		}
	}
	if ret != nil {
		for n := range identsOf(ret) {
			k.postNames[n] = true
		}
	}
	k.hasLoop = true
	// pre-loop statements; the state variables may be declared there, so they are resolved afterwards
	var guardRets []*ast.ReturnStmt
	preList := body[:loopAt]
	var scanned []ast.Stmt // a returning branch (guard, delegation, abstract branch) is not part of guard / pre / init
	for _, s := range preList {
		if is, ok := s.(*ast.IfStmt); !ok || !endsPath(is) {
			scanned = append(scanned, s)
		}
	}
	k.prePartial = k.nodePartial(&ast.BlockStmt{List: scanned})
	k.partial = k.prePartial
	for _, s := range preList {
		switch s := s.(type) {
		case *ast.DeclStmt:
			k.localDecl(k.preInd, s)
		case *ast.ForStmt, *ast.RangeStmt:
			k.stmts([]ast.Stmt{s}, k.preInd, func(int) {})
		case *ast.ExprStmt:
			if call, ok := s.X.(*ast.CallExpr); ok && (k.isCopyCall(call) || k.writingCallee(call) != nil) { // copy(dst[a:b], src[c:d]), f(slice, …)
				k.stmts([]ast.Stmt{s}, k.preInd, func(int) {})
				continue
			}
			k.fail(s, "statement %T before the loop", s)
		case *ast.IfStmt:
			if s.Init != nil {
				k.fail(s, "if with an init statement")
			}
			if !endsPath(s) { // only assigns: merged like in the loop
				k.stmts([]ast.Stmt{s}, k.preInd, func(int) {})
				continue
			}
			last, _ := lastStmt(s.Body).(*ast.ReturnStmt)
			if s.Else != nil || last == nil || endsPath(&ast.BlockStmt{List: s.Body.List[:len(s.Body.List)-1]}) {
				k.fail(s, "if statement before the loop that returns on some paths only, or has an else")
			}
			c, _ := k.boolean(s.Cond)
			flush()
			nonPrint := 0
			for _, bs := range s.Body.List {
				if !k.isPrint(bs) {
					nonPrint++
				}
			}
			if nonPrint == 1 { // guard: if cond { [print…;] return }
				if k.deleg != nil || len(k.abstracts) > 0 {
					k.fail(s, "early return after a delegating branch")
				}
				for _, bs := range s.Body.List {
					if k.isPrint(bs) {
						rel, line := k.relPos(bs)
						k.ignored = append(k.ignored, fmt.Sprintf("%s:%d", rel, line))
					}
				}
				for _, v := range k.results {
					if v.everAssigned {
						k.fail(s, "early return after the named result %s has been assigned", v.name)
					}
				}
				k.guards = append(k.guards, guardRec{len(k.preLets), c, k.preInd})
				guardRets = append(guardRets, last)
				continue
			}
			if k.deleg != nil || len(k.abstracts) > 0 || len(k.guards) > 0 {
				k.fail(s, "second returning branch before the loop")
			}
			k.returningBranch(s, c, last)
		case *ast.AssignStmt:
			if len(s.Rhs) == 1 {
				if call, ok := s.Rhs[0].(*ast.CallExpr); ok && k.callMayPanic(call) { // x := f(…) that may panic: the rest goes deeper
					k.bindPartial(k.preInd, s, call, nil, func(ind int) { k.preInd = ind })
					continue
				}
			}
			if len(s.Lhs) > 1 && len(s.Rhs) == 1 {
				k.multiAssign(k.preInd, s)
				continue
			}
			if len(s.Lhs) != 1 || len(s.Rhs) != 1 {
				k.fail(s, "multiple assignment")
			}
			if ix, ok := s.Lhs[0].(*ast.IndexExpr); ok {
				if x, ok := ix.X.(*ast.Ident); ok && k.lookup(x.Name) != nil && k.lookup(x.Name).kind == vSlice {
					k.stmts([]ast.Stmt{s}, k.preInd, func(int) {})
					continue
				}
			}
			id, _ := s.Lhs[0].(*ast.Ident)
			if id != nil && s.Tok == token.DEFINE {
				if c, ok := s.Rhs[0].(*ast.CallExpr); ok && len(c.Args) == 0 { // n := xs.Len1()
					if sel, ok := c.Fun.(*ast.SelectorExpr); ok && sel.Sel.Name == "Len1" {
						if x, ok := sel.X.(*ast.Ident); ok && k.lookup(x.Name) != nil && k.lookup(x.Name).kind == vSeries {
							if k.lookup(x.Name).isNil {
								k.fail(s, "length of series %s, which is nil at this call", x.Name)
							}
							k.declare(id, vLen)
							continue
						}
					}
				}
				if k.idx.constIdx[id.Name] && k.indexVector(k.preInd, id, s.Rhs[0]) { // a constant index vector
					k.preLocals = append(k.preLocals, k.lookup(id.Name))
					continue
				}
				if c, ok := s.Rhs[0].(*ast.CompositeLit); ok && len(c.Elts) == 1 { // idx := []int{0}
					at, _ := c.Type.(*ast.ArrayType)
					z, _ := c.Elts[0].(*ast.BasicLit)
					if at != nil && at.Len == nil && z != nil && z.Value == "0" {
						if t, ok := at.Elt.(*ast.Ident); ok && t.Name == "int" {
							k.declare(id, vIdx)
							continue
						}
					}
				}
				if c, ok := s.Rhs[0].(*ast.CallExpr); ok && errOnly(k.resolveFunc(c.Fun)) { // err := check(…)
					k.configCheck(id, c)
					continue
				}
			}
			k.assign(k.preInd, s.Lhs[0], s.Tok, s.Rhs[0], s)
		default:
			k.fail(s, "statement %T before the loop", s)
		}
	}
	flush()
	k.states = stateOf(ret)
	for _, v := range k.states {
		if v.hidden {
			k.fail(ret, "internal: hidden state %s is returned", v.name)
		}
		v.state = true
	}
	for _, r := range guardRets { // a guard must return the (unchanged) state, or the zero values of the named results
		named := len(k.results) > 0 && len(k.results) == len(k.states)
		if len(r.Results) != 0 || (len(k.states) != 0 && !named) {
			k.fail(r, "early return in a kernel with state")
		}
		if len(k.states) != 0 {
			k.guardZero = true
		}
	}
	// the loop header: for i := 0; i < n; i++
	loop := body[loopAt].(*ast.ForStmt)
	init, _ := loop.Init.(*ast.AssignStmt)
	cond, _ := loop.Cond.(*ast.BinaryExpr)
	post, _ := loop.Post.(*ast.IncDecStmt)
	okHeader := init != nil && cond != nil && post != nil && init.Tok == token.DEFINE && len(init.Lhs) == 1 && cond.Op == token.LSS &&
		post.Tok == token.INC
	var iv *ast.Ident
	if okHeader {
		iv, _ = init.Lhs[0].(*ast.Ident)
		z, _ := init.Rhs[0].(*ast.BasicLit)
		c, _ := cond.X.(*ast.Ident)
		p, _ := post.X.(*ast.Ident)
		okHeader = iv != nil && z != nil && z.Value == "0" && c != nil && p != nil && c.Name == iv.Name && p.Name == iv.Name
		if n, isId := cond.Y.(*ast.Ident); okHeader && isId {
			okHeader = k.lookup(n.Name) != nil && k.lookup(n.Name).kind == vLen
		} else if okHeader {
			call, _ := cond.Y.(*ast.CallExpr)
			okHeader = false
			if call != nil && len(call.Args) == 0 {
				if sel, ok := call.Fun.(*ast.SelectorExpr); ok && sel.Sel.Name == "Len1" {
					x, _ := sel.X.(*ast.Ident)
					okHeader = x != nil && k.lookup(x.Name) != nil && k.lookup(x.Name).kind == vSeries && !k.lookup(x.Name).isNil
				}
			}
		}
	}
	// the same loop written on the index vector itself: for idx := []int{0}; idx[0] < n; idx[0]++
	var idxIv *ast.Ident
	if !okHeader && init != nil && cond != nil && post != nil && init.Tok == token.DEFINE && len(init.Lhs) == 1 && len(init.Rhs) == 1 &&
		cond.Op == token.LSS && post.Tok == token.INC {
		id, _ := init.Lhs[0].(*ast.Ident)
		cl, _ := init.Rhs[0].(*ast.CompositeLit)
		elem0 := func(e ast.Expr) bool {
			ix, ok := e.(*ast.IndexExpr)
			if !ok || id == nil {
				return false
			}
			z, _ := ix.Index.(*ast.BasicLit)
			return isIdent(ix.X, id.Name) && z != nil && z.Value == "0"
		}
		if id != nil && id.Name != "_" && cl != nil && len(cl.Elts) == 1 && elem0(cond.X) && elem0(post.X) && k.lookup("int") == nil {
			at, _ := cl.Type.(*ast.ArrayType)
			z, _ := cl.Elts[0].(*ast.BasicLit)
			if at != nil && at.Len == nil && isIdent(at.Elt, "int") && z != nil && z.Value == "0" && k.lenExpr(cond.Y) {
				okHeader, idxIv = true, id
			}
		}
	}
	if !okHeader {
		k.fail(loop, "loop header other than `for i := 0; i < n; i++` over a series length")
	}
	k.partial = k.nodePartial(loop.Body)
	k.push()
	if idxIv != nil {
		k.declare(idxIv, vIdx)
		k.idxBound = true
		k.loopVar = &variable{kind: vLoop, name: "", depth: k.sc.depth, inLoop: true}
	} else {
		k.loopVar = k.declare(iv, vLoop)
	}
	k.inLoop = true
	for _, o := range k.outputs {
		k.always[k.outVar[o]] = true
	}
	var step strings.Builder
	k.out = &step
	for _, o := range k.outputs {
		k.line(1, "let %s : α := Num.zero", k.outVar[o].lean)
	}
	loopScope := k.sc
	k.block(loop.Body, 1, k.leaf)
	k.stepText = step.String()
	if len(postStmts) > 0 {
		// the statements after the loop see the final state (and the pre-loop values they read)
		if ret != nil && len(ret.Results) != 0 && len(k.states) != len(ret.Results) {
			k.fail(postStmts[0], "statements after the loop in a function that returns expressions")
		}
		stepPartial := k.partial
		k.sc = loopScope.parent
		k.inFinal = true
		k.postPartial = k.nodePartial(&ast.BlockStmt{List: postStmts})
		k.partial = k.postPartial
		k.frames, k.frameBase, k.loopNest = nil, 0, 0
		var fin strings.Builder
		k.out = &fin
		k.stmts(postStmts, 1, func(ind int) {
			k.countLeaf()
			k.line(ind, "%s", k.wrap(tupleOf(k.states)))
		})
		k.postText = fin.String()
		k.partial = stepPartial
		k.inFinal = false
	}
	return k.render(rel, pos.Line, &rep)
}

// the length of a series: a variable bound to `xs.Len1()`, or that call
func (k *kernel) lenExpr(e ast.Expr) bool {
	if n, isId := e.(*ast.Ident); isId {
		return k.lookup(n.Name) != nil && k.lookup(n.Name).kind == vLen
	}
	call, _ := e.(*ast.CallExpr)
	if call != nil && len(call.Args) == 0 {
		if sel, ok := call.Fun.(*ast.SelectorExpr); ok && sel.Sel.Name == "Len1" {
			x, _ := sel.X.(*ast.Ident)
			return x != nil && k.lookup(x.Name) != nil && k.lookup(x.Name).kind == vSeries && !k.lookup(x.Name).isNil
		}
	}
	return false
}

func onlyStmt(l []ast.Stmt) ast.Stmt {
	if len(l) == 1 {
		return l[0]
	}
	return nil
}

func lastStmt(b *ast.BlockStmt) ast.Stmt {
	if len(b.List) == 0 {
		return nil
	}
	return b.List[len(b.List)-1]
}

// a function of the module with at least one series parameter
func (k *kernel) isKernelFunc(r *funcRef) bool {
	for _, p := range k.flatten(r) {
		if p.kind == 's' {
			return r.fd.Body != nil
		}
	}
	return false
}

func names(vs []*variable) []string {
	r := []string{}
	for _, v := range vs {
		r = append(r, v.name)
	}
	return r
}

func binder(vs []*variable) string {
	return binderVs(vs)
}

func (k *kernel) abstractFns() []*helperDef {
	var r []*helperDef
	for _, h := range k.hs.order {
		if h.abstract != "" {
			r = append(r, h)
		}
	}
	return r
}

// the parameters of step: the scalars that are not states; the pre-loop locals the loop reads
func (k *kernel) stepParams() (params, live []*variable) {
	for _, v := range k.preLocals {
		if k.liveIn[v] && !v.state && !v.sunk {
			live = append(live, v)
		}
	}
	// BLOCK SINKING: what is left (values assigned more than once before the loop, parameters assigned there) is still a
	// function of the parameters alone when the statements before the loop read no series and no parameter that the loop
	// carries, and cannot panic: then ALL of them are rendered at the top of step / final (the state variables are re-bound to
	// the incoming state after them) and there is no `pre`
	if !k.blockDecided {
		k.blockDecided = true
		ok := len(live) > 0 && !k.prePartial && len(k.firsts) == 0 && !k.preReadsStateParam && k.preInd == 0 && k.hasLoop
		for _, v := range live {
			ok = ok && (v.kind == vFloat || v.kind == vBool || v.kind == vIntVar)
		}
		for _, v := range k.preLocals {
			ok = ok && v.kind != vSlice
		}
		for _, l := range k.preLets {
			ok = ok && !strings.Contains(l, "match ")
		}
		k.blockSunk = ok
	}
	if k.blockSunk {
		live = nil
	}
	for _, v := range k.scalars {
		if !v.state && (!v.reassigned || k.blockSunk) {
			params = append(params, v)
		}
	}
	return
}

func (k *kernel) render(rel string, line int, rep *report) (string, report) {
	fn := k.fn
	// an int parameter the body does not use is not a parameter of the definitions
	var scal []*variable
	for _, v := range k.scalars {
		if v.kind == vIntVar && !v.used && !v.state {
			k.ints = append(k.ints, v.name)
			continue
		}
		scal = append(scal, v)
	}
	k.scalars = scal
	params, live := k.stepParams()
	sts := k.allStates()
	var b strings.Builder
	ns := k.nsName
	if ns == "" {
		ns = fresh0(fn.Name.Name)
	}
	fmt.Fprintf(&b, "namespace %s\n", ns)
	fmt.Fprintf(&b, "/- %s:%d  func %s\n", rel, line, fn.Name.Name)
	fmt.Fprintf(&b, "   scalar parameters: %s\n   state (returned, in order): %s\n   inputs: %s\n", strings.Join(names(k.scalars), " "),
		strings.Join(names(k.states), " "), strings.Join(names(k.inputs), " "))
	var outDesc []string
	for _, o := range k.outputs {
		d := o.name
		if k.hasLoop && !k.always[k.outVar[o]] {
			d += " (NOT set on every path: keeps the array's 0)"
			rep.NotAlways = append(rep.NotAlways, o.name)
		}
		outDesc = append(outDesc, d)
	}
	fmt.Fprintf(&b, "   outputs: %s\n", strings.Join(outDesc, ", "))
	if len(k.hidden) > 0 {
		fmt.Fprintf(&b, "   hidden state (carried between iterations, not returned; appended to the state): %s\n", strings.Join(names(k.hidden), " "))
	}
	if len(k.firsts) > 0 {
		fmt.Fprintf(&b, "   first elements read before the loop (the code panics on an empty series): %s\n", strings.Join(names(k.firsts), " "))
	}
	if len(k.unused) > 0 {
		fmt.Fprintf(&b, "   series neither read nor written: %s\n", strings.Join(k.unused, " "))
	}
	var nilNames []string
	for _, s := range k.series {
		if s.isNil {
			nilNames = append(nilNames, s.name)
		}
	}
	if len(nilNames) > 0 {
		fmt.Fprintf(&b, "   series that are nil at this call: %s\n", strings.Join(nilNames, " "))
	}
	var bound []string
	for n := range k.funcBind {
		bound = append(bound, n+" := "+k.funcBind[n].fd.Name.Name)
	}
	sort.Strings(bound)
	if len(bound) > 0 {
		fmt.Fprintf(&b, "   function-valued parameters bound at this call: %s\n", strings.Join(bound, ", "))
	}
	for _, a := range k.assumed {
		fmt.Fprintf(&b, "   assumed: %s\n", a)
	}
	if len(k.ints) > 0 {
		fmt.Fprintf(&b, "   int parameters (not used by the body): %s\n", strings.Join(k.ints, " "))
	}
	if len(k.tables) > 0 {
		fmt.Fprintf(&b, "   series passed whole to a function (abstract type σ): %s\n", strings.Join(names(k.tables), " "))
	}
	for _, a := range k.absCalls {
		if a.typ != "" {
			fmt.Fprintf(&b, "   ABSTRACT function (NOT translated, an argument of step: %s): %s (%s:%d)\n", a.desc, a.lean, a.rel, a.line)
			continue
		}
		fmt.Fprintf(&b, "   ABSTRACT function with an error result (NOT translated, an argument of step; none = the error is non-nil, "+
			"on which the code panics): %s (%s:%d)\n", a.lean, a.rel, a.line)
	}
	if k.partial {
		b.WriteString("   some path of the loop body panics: step returns an Option (none = panic)\n")
	}
	if len(k.ignored) > 0 {
		fmt.Fprintf(&b, "   print statements ignored (standard output only): %s\n", strings.Join(k.ignored, " "))
	}
	for _, h := range k.abstractFns() {
		fmt.Fprintf(&b, "   ABSTRACT helper (NOT translated, an argument of the definitions): %s (%s:%d): %s\n", h.lean, h.rel, h.line, h.abstract)
	}
	b.WriteString("-/\n")
	// helpers
	abs := ""
	for _, h := range k.hs.order {
		if h.abstract != "" {
			if h.typ != "" {
				abs += fmt.Sprintf(" (%s : %s)", h.lean, h.typ)
			} else {
				abs += fmt.Sprintf(" (%s : %s)", h.lean, strings.Repeat("α → ", h.nin)+tupleType(h.nout))
			}
			rep.AbstractHelpers = append(rep.AbstractHelpers, h.lean+": "+h.abstract)
			continue
		}
		b.WriteString(h.text)
		rep.Helpers = append(rep.Helpers, h.lean)
	}
	all := binder(k.scalars) + binder(k.firsts) + abs
	preLets := func(n int) string {
		var s strings.Builder
		for _, l := range k.preLets[:n] {
			s.WriteString("  " + l + "\n")
		}
		return s.String()
	}
	if k.deleg != nil {
		b.WriteString(k.renderDelegation(all, preLets(k.deleg.nLets)))
		rep.Delegation = k.deleg.describe()
		for _, a := range k.deleg.sub.assumed {
			rep.Assumed = append(rep.Assumed, "in "+k.deleg.callee+": "+a)
		}
	}
	for _, a := range k.abstracts {
		fmt.Fprintf(&b, "/-- the returning branch `if … { … }` at %s:%d is taken. Its body is NOT translated (%s):\n"+
			"guard / pre / init / step describe the run when this is false. -/\n", a.rel, a.line, a.why)
		fmt.Fprintf(&b, "def abstractBranch {α : Type} [Num α]%s : Bool :=\n%s  %s\n", all, preLets(a.nLets), a.cond)
		rep.AbstractBranches = append(rep.AbstractBranches, fmt.Sprintf("%s:%d: %s", a.rel, a.line, a.why))
	}
	if k.hasLoop {
		// guard
		indent := func(ind int) string { return strings.Repeat("  ", 1+ind) }
		optPre := func(t string, n int) string {
			if !k.prePartial {
				return t
			}
			return "Option " + paren(t, map[bool]int{true: pAtom, false: 0}[n == 1], pAtom)
		}
		wrapPre := func(val string) string {
			if !k.prePartial {
				return val
			}
			return "some " + paren(val, map[bool]int{true: pAtom, false: 0}[closedParen(val)], pAtom)
		}
		switch {
		case len(k.guards) == 0:
			fmt.Fprintf(&b, "/-- the kernel returns before the loop (no output is written) -/\ndef guard {α : Type} [Num α]%s : Bool :=\n  false\n", all)
		case k.prePartial:
			if len(k.guards) != 1 {
				k.fail(fn, "several early returns in a kernel whose pre-loop statements may panic")
			}
			g := k.guards[0]
			zero := ""
			if k.guardZero {
				zero = "; the named results keep their zero values"
			}
			fmt.Fprintf(&b, "/-- the kernel returns before the loop (no output is written%s); none = a pre-loop statement panics -/\n"+
				"def guard {α : Type} [Num α]%s : Option Bool :=\n%s%ssome (%s)\n", zero, all, preLets(g.nLets), indent(g.ind), g.cond)
		default:
			zero := ""
			if k.guardZero {
				zero = "; the named results keep their zero values"
			}
			fmt.Fprintf(&b, "/-- the kernel returns before the loop (no output is written%s) -/\ndef guard {α : Type} [Num α]%s : Bool :=\n", zero, all)
			done, closing := 0, ""
			for gi, g := range k.guards {
				for _, l := range k.preLets[done:g.nLets] {
					b.WriteString("  " + l + "\n")
				}
				done = g.nLets
				if gi == len(k.guards)-1 {
					b.WriteString("  " + g.cond + closing + "\n")
				} else {
					b.WriteString("  (" + g.cond + ") || (\n")
					closing += ")"
				}
			}
		}
		// pre
		if len(live) > 0 {
			fmt.Fprintf(&b, "/-- values computed before the loop and used in it: %s -/\ndef pre {α : Type} [Num α]%s : %s :=\n",
				strings.Join(names(live), ", "), all, optPre(tupleTypeVs(live), len(live)))
			b.WriteString(preLets(len(k.preLets)))
			b.WriteString(indent(k.preInd) + wrapPre(tupleOf(live)) + "\n")
		}
		if len(sts) > 0 {
			fmt.Fprintf(&b, "/-- the state variables on entry to the loop -/\ndef init {α : Type} [Num α]%s : %s :=\n", all,
				optPre(tupleTypeVs(sts), len(sts)))
			b.WriteString(preLets(len(k.preLets)))
			b.WriteString(indent(k.preInd) + wrapPre(tupleOf(sts)) + "\n")
		}
		fmt.Fprintf(&b, "/-- one iteration: parameters, pre-loop values, state, inputs at this step ↦ %s -/\n",
			map[bool]string{true: "(new state, outputs at this step)", false: "outputs at this step"}[len(sts) > 0 && len(k.outputs) > 0])
		sigma, ret := "", stepTypeVs(sts, len(k.outputs))
		needSigma := len(k.tables) > 0
		for _, a := range k.absCalls {
			if a.typ != "" {
				sigma += fmt.Sprintf(" (%s : %s)", a.lean, a.typ)
				rep.AbstractHelpers = append(rep.AbstractHelpers, fmt.Sprintf("%s (%s:%d): %s", a.lean, a.rel, a.line, a.desc))
				continue
			}
			needSigma = true
			t := ""
			for _, c := range a.kinds {
				t += map[byte]string{'f': "α → ", 's': "σ → "}[c]
			}
			sigma += fmt.Sprintf(" (%s : %sOption α)", a.lean, t)
			rep.AbstractHelpers = append(rep.AbstractHelpers, fmt.Sprintf("%s (%s:%d): results (float64, error), takes whole series", a.lean, a.rel, a.line))
		}
		if needSigma {
			sigma = " {σ : Type}" + sigma
		}
		sigmaFinal := sigma
		if len(k.fuels) > 0 {
			sigma += " (" + strings.Join(k.fuels, " ") + " : Nat)"
			rep.Fuel = k.fuels
		}
		if k.partial {
			ret = "Option (" + ret + ")"
		}
		tables := ""
		if len(k.tables) > 0 {
			tables = strings.Replace(binder(k.tables), " : α)", " : σ)", 1)
		}
		stBinder, sunk := binder(sts), k.sunkText()
		if k.blockSunk { // the incoming state under fresh names; the state variables are re-bound after the pre-loop lets
			var in []*variable
			rebind := ""
			for _, v := range sts {
				c := *v
				c.lean = k.fresh(v.lean + "_in")
				in = append(in, &c)
				rebind += fmt.Sprintf("  let %s : %s := %s\n", v.lean, v.typ(), c.lean)
			}
			stBinder, sunk = binder(in), preLets(len(k.preLets))+rebind
		}
		fmt.Fprintf(&b, "def step {α : Type} [Num α]%s%s%s%s%s%s%s : %s :=\n", sigma, binder(params), abs, binder(live), stBinder,
			binder(k.inputs), tables, ret)
		b.WriteString(sunk)
		b.WriteString(k.stepText)
		if k.postText != "" {
			fret := tupleTypeVs(k.states)
			if k.postPartial {
				fret = "Option " + paren(fret, map[bool]int{true: pAtom, false: 0}[len(k.states) == 1], pAtom)
			}
			fmt.Fprintf(&b, "/-- the statements after the loop: parameters, pre-loop values, final state ↦ the returned values -/\n")
			fmt.Fprintf(&b, "def final {α : Type} [Num α]%s%s%s%s%s : %s :=\n%s", sigmaFinal, binder(params), abs, binder(live), stBinder, fret, sunk+k.postText)
		}
	}
	fmt.Fprintf(&b, "end %s\n", ns)
	rep.Status = "ok"
	rep.Params, rep.PreLive, rep.States, rep.Inputs, rep.Outputs = names(params), names(live), names(k.states), names(k.inputs), names(k.outputs)
	rep.Hidden, rep.Firsts, rep.Unused = names(k.hidden), names(k.firsts), k.unused
	if len(rep.Hidden) == 0 {
		rep.Hidden = nil
	}
	if len(rep.Firsts) == 0 {
		rep.Firsts = nil
	}
	rep.Guard, rep.Assumed, rep.Paths = len(k.guards) > 0, append(rep.Assumed, k.assumed...), k.leaves
	return b.String(), *rep
}

// translate with retries: a loop-carried local that is not returned is found while translating the loop; the
// translation is then repeated with that variable as a hidden state
func runKernel(mk func() *kernel) (text string, rep report, k *kernel) {
	want := map[token.Pos]bool{}
	for attempt := 0; ; attempt++ {
		k = mk()
		k.wantHidden = want
		var again bool
		func() {
			defer func() {
				if r := recover(); r != nil {
					nh, ok := r.(needHidden)
					if !ok || attempt > 16 {
						panic(r)
					}
					want[nh.pos] = true
					again = true
				}
			}()
			text, rep = k.translate()
		}()
		if !again {
			return
		}
	}
}

func translateOne(w *world, dir, fname string, nonNil, whole, lift bool) (text string, rep report) {
	rep = report{Func: fname, File: dir, Status: "missing", Reason: "function not found in " + dir}
	p := w.load(dir)
	fd, ok := p.funcs[fname]
	if !ok {
		return
	}
	f := p.ffile[fname]
	func() {
		defer func() {
			if r := recover(); r != nil {
				u, ok := r.(unsupported)
				if !ok {
					panic(r)
				}
				pos := w.fset.Position(fd.Pos())
				rel, _ := filepath.Rel(w.repo, pos.Filename)
				text, rep = "", report{Func: fname, File: rel, Line: pos.Line, Status: "unsupported", Reason: u.msg}
			}
		}()
		if whole {
			k := &kernel{w: w, p: p, file: f, fn: fd, imp: imports(f), nonNil: nonNil, hs: newHelperSet(), leanOf: map[token.Pos]string{},
				used: map[string]bool{}, lits: closureLits(fd.Body), whole: true}
			text, rep = k.translateWhole()
			return
		}
		text, rep, _ = runKernel(func() *kernel {
			return &kernel{w: w, p: p, file: f, fn: fd, imp: imports(f), nonNil: nonNil, hs: newHelperSet(), leanOf: map[token.Pos]string{},
				used: map[string]bool{}, lits: closureLits(fd.Body), liftLoops: lift}
		})
	}()
	return
}
