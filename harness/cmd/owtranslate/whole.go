package main

import (
	"fmt"
	"go/ast"
	"strings"
)

// ---- whole-function mode: a kernel that has no time loop of the standard shape (lag: several loops over computed
// indices; storageTrapAll, inputNode: bulk copies). The function is translated as a whole into the definition `run`:
// every series parameter is a `List α` (a series that is written is also a result, after the returned values, in parameter
// order); `xs.Len1()` ↦ `sliceLen xs`, `xs.Get(idx)` ↦ `sliceGet xs idx`, `xs.Set(idx, e)` ↦ `xs := sliceSet xs idx e`,
// `idx := []int{e}` / `idx[0] = e` ↦ an Int, `out.CopyFrom(in)` ↦ `out := copyFrom out in`. Out-of-range accesses (a Go
// panic) are NOT modelled: `sliceGet` returns the default value, `sliceSet` leaves the list unchanged.

func (k *kernel) translateWhole() (text string, rep report) {
	fn := k.fn
	pos := k.w.fset.Position(fn.Pos())
	rel := k.relOf(pos.Filename)
	rep = report{Func: fn.Name.Name, File: rel, Line: pos.Line}
	if fn.Recv != nil || fn.Type.TypeParams != nil || fn.Body == nil {
		k.fail(fn, "method, generic function or missing body")
	}
	k.mode = mWhole
	k.sc = &scope{vars: map[string]*variable{}}
	k.inLoop = true
	k.liveIn = map[*variable]bool{}
	k.isSet, k.always, k.outVar = map[*variable]bool{}, map[*variable]bool{}, map[*variable]*variable{}
	k.firstOf = map[*variable]*variable{}
	k.partial = k.nodePartial(fn.Body)
	var params []*variable
	pnames, ptypes := fields(fn.Type.Params)
	for i, n := range pnames {
		if n == nil || n.Name == "_" {
			k.fail(fn, "unnamed parameter")
		}
		var v *variable
		if k.isSeriesType(ptypes[i], k.imp) {
			v = k.declare(n, vList)
			k.lists = append(k.lists, v)
		} else {
			lt := k.leanType(ptypes[i], k.imp, false)
			if lt == "" {
				k.fail(n, "parameter %s of a type outside the subset", n.Name)
			}
			v = k.declare(n, kindOfType(lt))
		}
		v.param = true
		params = append(params, v)
	}
	var body strings.Builder
	k.out = &body
	rnames, rtypes := fields(fn.Type.Results)
	for i, n := range rnames {
		lt := k.leanType(rtypes[i], k.imp, false)
		if lt == "" {
			k.fail(fn, "result of a type outside the subset")
		}
		k.nres++
		k.resTypes = append(k.resTypes, lt)
		if n != nil {
			v := k.declare(n, kindOfType(lt))
			k.results = append(k.results, v)
			k.line(1, "let %s : %s := %s", v.lean, lt, zeroOf(lt))
		}
	}
	// which series are written (syntactic): they are results too
	_, written := seriesRoles(fn.Body)
	ast.Inspect(fn.Body, func(n ast.Node) bool {
		if c, ok := n.(*ast.CallExpr); ok {
			if s, ok := c.Fun.(*ast.SelectorExpr); ok && s.Sel.Name == "CopyFrom" {
				if x, ok := s.X.(*ast.Ident); ok {
					written[x.Name] = true
				}
			}
		}
		return true
	})
	for _, l := range k.lists {
		l.written = written[l.name]
	}
	k.stmts(fn.Body.List, 1, func(ind int) {
		if len(k.results) != k.nres {
			k.fail(fn, "missing return")
		}
		k.countLeaf()
		k.wholeLeaf(ind, nil)
	})
	var outs, ins []*variable
	for _, l := range k.lists {
		if l.written {
			outs = append(outs, l)
		} else {
			ins = append(ins, l)
		}
	}
	resTypes := append([]string{}, k.resTypes...)
	for range outs {
		resTypes = append(resTypes, "List α")
	}
	ret := tupleTypeOf(resTypes)
	if k.partial {
		ret = "Option " + paren(ret, map[bool]int{true: pAtom, false: 0}[len(resTypes) == 1], pAtom)
	}
	var kept []*variable
	for _, v := range params {
		if v.kind == vIntVar && !v.used {
			continue
		}
		kept = append(kept, v)
	}
	ns := fresh0(fn.Name.Name)
	var b strings.Builder
	fmt.Fprintf(&b, "namespace %s\n", ns)
	fmt.Fprintf(&b, "/- %s:%d  func %s — translated as a WHOLE (series as lists; no per-step form)\n", rel, pos.Line, fn.Name.Name)
	fmt.Fprintf(&b, "   series read: %s\n   series written (parameter = content on entry; also results, after the returned values): %s\n",
		strings.Join(names(ins), " "), strings.Join(names(outs), " "))
	fmt.Fprintf(&b, "   results: %s\n", ret)
	b.WriteString("   out-of-range accesses (a Go panic) are NOT modelled: sliceGet returns the default value, sliceSet leaves the list unchanged\n")
	if len(k.ignored) > 0 {
		fmt.Fprintf(&b, "   print statements ignored (standard output only): %s\n", strings.Join(k.ignored, " "))
	}
	b.WriteString("-/\n")
	for _, h := range k.hs.order {
		b.WriteString(h.text)
		rep.Helpers = append(rep.Helpers, h.lean)
	}
	abs := ""
	for _, a := range k.absCalls {
		abs += fmt.Sprintf(" (%s : %s)", a.lean, a.typ)
		rep.AbstractHelpers = append(rep.AbstractHelpers, fmt.Sprintf("%s (%s:%d): %s", a.lean, a.rel, a.line, a.desc))
	}
	fmt.Fprintf(&b, "/-- the whole function -/\ndef run {α : Type} [Num α]%s%s : %s :=\n%s", abs, binderVs(kept), ret, body.String())
	fmt.Fprintf(&b, "end %s\n", ns)
	rep.Status = "ok"
	rep.Whole = true
	rep.Params = names(kept)
	rep.Inputs, rep.Outputs = names(ins), names(outs)
	rep.Paths = k.leaves
	rep.NotModelled = []string{"out-of-range slice / series accesses (Go panic): the generated definition is total there"}
	return b.String(), rep
}

func (k *kernel) relOf(file string) string {
	rel := file
	if strings.HasPrefix(file, k.w.repo+"/") {
		rel = strings.TrimPrefix(file, k.w.repo+"/")
	}
	return rel
}

// end of the function on this path: the returned values, then the written series
func (k *kernel) wholeLeaf(ind int, r *ast.ReturnStmt) {
	var vals []string
	if r == nil || len(r.Results) == 0 {
		if len(k.results) != k.nres {
			k.fail(k.fn, "return without values")
		}
		for _, v := range k.results {
			vals = append(vals, v.lean)
		}
	} else {
		if len(r.Results) != k.nres {
			k.fail(r, "return of %d expressions for %d results", len(r.Results), k.nres)
		}
		for i, e := range r.Results {
			vals = append(vals, k.valueOf(e, k.resTypes[i]))
		}
	}
	for _, l := range k.lists {
		if l.written {
			vals = append(vals, l.lean)
		}
	}
	k.line(ind, "%s", k.wrap(tupleOfNames(vals)))
}

// `for cond { … }` / `for { … }`: see while.go
