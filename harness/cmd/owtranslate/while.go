package main

import (
	"fmt"
	"go/ast"
	"sort"
	"strings"
)

// ---- `for cond { … }` / `for { … break … }` in the body of the time loop (sub-step loops):
//
//	match whileLoop (loopCondN caps…) (loopBodyN fns… fuels… caps…) fuelN carried with | none => none | some loopN => <rest>
//
// `carried` = the outer variables the body assigns (declaration order). The body and the condition are lifted to definitions
// of the namespace: `loopBodyN … carried : Option (carried × Bool)` (true = break, none = a panic), `loopCondN … carried :
// Bool` (constantly true without a condition); their leading parameters are the abstract functions and the fuels of inner
// loops they reach and the outer variables they read (declaration order). Lean needs a termination measure: `fuelN : Nat`
// is an explicit parameter of `step` (none also when the fuel runs out); the tie theorems hold for every fuel.
func (k *kernel) whileFor(s *ast.ForStmt, ind int) {
	if k.mode != mKernel || !k.inLoop || (k.clo != nil && !k.clo.loopBody) {
		k.fail(s, "loop without an int range outside the body of the time loop")
	}
	if !k.partial || len(k.frames) > k.frameBase {
		k.fail(s, "loop without an int range inside a branch that is merged")
	}
	bad := false
	ast.Inspect(s.Body, func(x ast.Node) bool {
		switch x.(type) {
		case *ast.ReturnStmt:
			bad = true
		case *ast.FuncLit:
			return false
		}
		return true
	})
	if bad {
		k.fail(s, "loop whose body returns")
	}
	fuel := fmt.Sprintf("fuel%d", len(k.fuels)+1)
	k.fuels = append(k.fuels, fuel)
	for c := k.clo; c != nil; c = c.outer {
		c.fuels = append(c.fuels, fuel)
	}
	k.nloop++
	n := k.nloop
	bodyName, condName, loopName := k.liftName(fmt.Sprintf("loopBody%d", n)), k.liftName(fmt.Sprintf("loopCond%d", n)), k.fresh(fmt.Sprintf("loop%d", n))
	carried := k.fresh("carried")

	// the body, rendered as a definition of its own
	f := &frame{depth: k.sc.depth, seen: map[*variable]bool{}}
	savedFrames, savedBase, savedOut, savedClo, savedFd, savedNest := k.frames, k.frameBase, k.out, k.clo, k.fdepth, k.loopNest
	cb := &closureDef{name: bodyName, capSeen: map[*variable]bool{}, fdepth: k.fdepth + 1, outer: k.clo, loopBody: true}
	k.frames = []*frame{f}
	k.frameBase = 1
	k.loopNest = 1
	k.clo, k.fdepth = cb, cb.fdepth
	var body strings.Builder
	k.out = &body
	k.block(s.Body, 1, func(ind int) {
		k.countLeaf()
		k.line(ind, "%s", nextMark)
	})
	// the condition
	cc := &closureDef{name: condName, capSeen: map[*variable]bool{}, fdepth: savedFd + 1, outer: savedClo, loopBody: true}
	k.clo = cc
	condText := "true"
	if s.Cond != nil {
		condText, _ = k.boolean(s.Cond)
	}
	k.frames, k.frameBase, k.out, k.clo, k.fdepth, k.loopNest = savedFrames, savedBase, savedOut, savedClo, savedFd, savedNest

	for _, v := range f.order {
		k.assigned(v)
	}
	sort.SliceStable(f.order, func(i, j int) bool { return declLess(f.order[i], f.order[j]) })
	isCarried := map[*variable]bool{}
	var names, types []string
	for _, v := range f.order {
		names = append(names, v.lean)
		types = append(types, v.typ())
		isCarried[v] = true
	}
	tuple, typ := tupleOfNames(names), tupleTypeOf(types)
	atomT := paren(typ, map[bool]int{true: pAtom, false: 0}[len(types) <= 1], pAtom)
	capsOf := func(c *closureDef) []*variable {
		var r []*variable
		for _, v := range c.caps {
			if !isCarried[v] {
				r = append(r, v)
			}
		}
		sort.SliceStable(r, func(i, j int) bool { return declLess(r[i], r[j]) })
		return r
	}
	bodyCaps, condCaps := capsOf(cb), capsOf(cc)
	unpack := func(b *strings.Builder) {
		for i, v := range f.order {
			fmt.Fprintf(b, "  let %s : %s := %s%s\n", v.lean, v.typ(), carried, proj(i, len(f.order)))
		}
	}
	rel, line := k.relPos(s)
	abs, absArgs := "", ""
	for _, a := range cb.absFns {
		abs += fmt.Sprintf(" (%s : %s)", a.lean, a.typ)
		absArgs += " " + a.lean
	}
	fuels, fuelArgs := "", ""
	if len(cb.fuels) > 0 {
		fuels = " (" + strings.Join(cb.fuels, " ") + " : Nat)"
		fuelArgs = " " + strings.Join(cb.fuels, " ")
	}
	var d strings.Builder
	fmt.Fprintf(&d, "/-- %s:%d  the body of the sub-step loop `for %s { … }`: carried values ↦ new carried values and whether the loop is left (none = panic) -/\n",
		rel, line, map[bool]string{true: "…", false: ""}[s.Cond != nil])
	fmt.Fprintf(&d, "def %s {α : Type} [Num α]%s%s%s (%s : %s) : Option (%s × Bool) :=\n", bodyName, abs, fuels, binderVs(bodyCaps), carried, typ, atomT)
	unpack(&d)
	text := strings.Replace(body.String(), exitMark, "some ("+tuple+", true)", -1)
	d.WriteString(strings.Replace(text, nextMark, "some ("+tuple+", false)", -1))
	fmt.Fprintf(&d, "/-- %s:%d  the condition of that loop -/\n", rel, line)
	fmt.Fprintf(&d, "def %s {α : Type} [Num α]%s (%s : %s) : Bool :=\n", condName, binderVs(condCaps), carried, typ)
	if s.Cond != nil {
		unpack(&d)
	}
	fmt.Fprintf(&d, "  %s\n", condText)
	h := &helperDef{key: fmt.Sprintf("loop@%d", s.Pos()), lean: bodyName, text: d.String(), rel: rel, line: line}
	k.hs.order = append(k.hs.order, h)
	k.hs.by[h.key] = h
	// the loop, where it stands
	useAll := func(vs []*variable) string {
		r := ""
		for _, v := range vs {
			k.use(v)
			r += " " + v.lean
		}
		return r
	}
	for _, a := range cb.absFns {
		k.noteAbs(a)
	}
	condCall := condName + useAll(condCaps)
	bodyCall := bodyName + absArgs + fuelArgs + useAll(bodyCaps)
	k.line(ind, "match whileLoop %s %s %s %s with", paren(condCall, map[bool]int{true: pAtom, false: pApp}[len(condCaps) == 0], pAtom),
		paren(bodyCall, map[bool]int{true: pAtom, false: pApp}[bodyCall == bodyName], pAtom), fuel, tuple)
	k.line(ind, "| none => none")
	k.countLeaf()
	k.line(ind, "| some %s =>", loopName)
	for i, v := range f.order {
		k.line(ind+1, "let %s : %s := %s%s", v.lean, v.typ(), loopName, proj(i, len(f.order)))
	}
	k.deeper = true
}

// a name for a lifted definition of the namespace
func (k *kernel) liftName(base string) string {
	name := base
	for i := 0; reservedDefs[name] || k.hs.names[name] || k.used[name]; i++ {
		name = base + strings.Repeat("'", i+1)
	}
	k.hs.names[name] = true
	k.used[name] = true
	return name
}
