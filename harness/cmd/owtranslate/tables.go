package main

import (
	"go/ast"
	"go/token"
)

// ---- index vectors and table series of a kernel in per-step form
//
// An index vector `X := []int{e}` is the TIME index when the body assigns `X[0] = …` somewhere; otherwise it is a constant
// index (a Lean Int). A series parameter is a TABLE (a `List α` parameter of the definitions, not a per-step input) when it
// is read at a constant index vector, passed to a local function literal, or passed to a function whose only result is an
// error (a configuration check). `t.Get(idxC)` on a table is `tableGet t idxC : Option α` (none = index out of range, a Go
// panic), bound like a call of a function that may panic.

type idxInfo struct {
	timeIdx  map[string]bool // index vectors assigned element-wise
	constIdx map[string]bool // index vectors never assigned
}

func scanIndexVectors(body ast.Node) idxInfo {
	info := idxInfo{map[string]bool{}, map[string]bool{}}
	decl := map[string]bool{}
	ast.Inspect(body, func(n ast.Node) bool {
		if inc, ok := n.(*ast.IncDecStmt); ok { // idx[0]++
			if ix, ok := inc.X.(*ast.IndexExpr); ok {
				if x, ok := ix.X.(*ast.Ident); ok {
					info.timeIdx[x.Name] = true
				}
			}
			return true
		}
		as, ok := n.(*ast.AssignStmt)
		if !ok || len(as.Lhs) != 1 || len(as.Rhs) != 1 {
			return true
		}
		if id, ok := as.Lhs[0].(*ast.Ident); ok && as.Tok == token.DEFINE {
			if c, ok := as.Rhs[0].(*ast.CompositeLit); ok && len(c.Elts) == 1 {
				if at, ok := c.Type.(*ast.ArrayType); ok && at.Len == nil && isIdent(at.Elt, "int") {
					decl[id.Name] = true
				}
			}
		}
		if ix, ok := as.Lhs[0].(*ast.IndexExpr); ok {
			if x, ok := ix.X.(*ast.Ident); ok {
				info.timeIdx[x.Name] = true
			}
		}
		return true
	})
	for n := range decl {
		if !info.timeIdx[n] {
			info.constIdx[n] = true
		}
	}
	return info
}

// the only result of the function is an error
func errOnly(r *funcRef) bool {
	if r == nil || r.fd.Type.Results == nil {
		return false
	}
	_, ts := fields(r.fd.Type.Results)
	return len(ts) == 1 && isIdent(ts[0], "error")
}

// the series parameters used as tables (syntactic)
func (k *kernel) scanTables(series map[string]bool) map[string]bool {
	tab := map[string]bool{}
	ast.Inspect(k.fn.Body, func(n ast.Node) bool {
		c, ok := n.(*ast.CallExpr)
		if !ok {
			return true
		}
		if sel, ok := c.Fun.(*ast.SelectorExpr); ok && sel.Sel.Name == "Get" && len(c.Args) == 1 {
			x, ok1 := sel.X.(*ast.Ident)
			a, ok2 := c.Args[0].(*ast.Ident)
			if ok1 && ok2 && series[x.Name] && k.idx.constIdx[a.Name] {
				tab[x.Name] = true
			}
			return true
		}
		isLit := false
		if id, ok := c.Fun.(*ast.Ident); ok && k.lits[id.Name] != nil {
			isLit = true
		}
		if isLit || errOnly(k.resolveFuncStatic(c.Fun)) {
			for _, a := range c.Args {
				if id, ok := a.(*ast.Ident); ok && series[id.Name] {
					tab[id.Name] = true
				}
			}
		}
		return true
	})
	return tab
}

// fmt.Print* statement
func (k *kernel) isPrint(s ast.Stmt) bool {
	es, ok := s.(*ast.ExprStmt)
	if !ok {
		return false
	}
	c, ok := es.X.(*ast.CallExpr)
	if !ok {
		return false
	}
	sel, ok := c.Fun.(*ast.SelectorExpr)
	if !ok {
		return false
	}
	x, ok := sel.X.(*ast.Ident)
	return ok && k.lookup(x.Name) == nil && k.imp[x.Name] == "fmt" && len(sel.Sel.Name) >= 5 && sel.Sel.Name[:5] == "Print"
}

// `err := check(args…)` of a module function whose only result is an error: the function is NOT translated (an abstract
// argument `check : args → Bool`, true = the error is non-nil); `err` is that Bool
func (k *kernel) configCheck(id *ast.Ident, call *ast.CallExpr) {
	r := k.resolveFunc(call.Fun)
	_, ptypes := fields(r.fd.Type.Params)
	if len(ptypes) != len(call.Args) || call.Ellipsis.IsValid() {
		k.fail(call, "call of %s with %d arguments", r.fd.Name.Name, len(call.Args))
	}
	imp := imports(r.f)
	var typs, args []string
	for i, a := range call.Args {
		lt := k.leanType(ptypes[i], imp, true)
		if lt == "" {
			k.fail(a, "argument %d of %s has a type outside the subset", i+1, r.fd.Name.Name)
		}
		typs = append(typs, lt)
		args = append(args, k.argOf(a, lt))
	}
	key := r.p.dir + "." + r.fd.Name.Name
	h, ok := k.hs.by[key]
	if !ok {
		name := fresh0(r.fd.Name.Name)
		for i := 0; reservedDefs[name] || k.hs.names[name] || k.used[name]; i++ {
			name = r.fd.Name.Name + "_fn"
		}
		k.hs.names[name] = true
		k.used[name] = true
		typ := ""
		for _, t := range typs {
			typ += t + " → "
		}
		h = &helperDef{key: key, lean: name, nin: len(typs), nout: 1, ins: typs, outs: []string{"Bool"},
			abstract: "its only result is an error: true = the error is non-nil", typ: typ + "Bool"}
		pos := k.w.fset.Position(r.fd.Pos())
		h.rel = k.relOf(pos.Filename)
		h.line = pos.Line
		k.hs.by[key] = h
		k.hs.order = append(k.hs.order, h)
	}
	v := k.declare(id, vErrFlag)
	k.line(k.preInd, "let %s : Bool := %s %s", v.lean, h.lean, joinArgs(args))
}

func joinArgs(a []string) string {
	s := ""
	for i, x := range a {
		if i > 0 {
			s += " "
		}
		s += x
	}
	return s
}
