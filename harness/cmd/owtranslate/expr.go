package main

import (
	"go/ast"
	"go/token"
	"strings"
)

// ---- expressions: (text, precedence, kind); precedence 100 atom, 99 application, 70 * /, 65 + -, 50 comparison (Prop)

const (
	pAtom = 100
	pApp  = 99
	pMul  = 70
	pAdd  = 65
	pCmp  = 50
	pAnd  = 35
	pOr   = 30
)

func paren(s string, prec, min int) string {
	if prec < min {
		return "(" + s + ")"
	}
	return s
}

var mathFns = map[string]struct {
	lean string
	n    int
}{"Min": {"Num.gmin", 2}, "Max": {"Num.gmax", 2}, "Abs": {"Num.abs", 1}, "Exp": {"Num.exp", 1}, "Pow": {"Num.pow", 2},
	"Log": {"Num.log", 1}, "Log10": {"Num.log10", 1}, "Tanh": {"Num.tanh", 1}, "Cos": {"Num.cos", 1}, "Sqrt": {"Num.sqrt", 1},
	"Floor": {"Num.floor", 1}, "Ceil": {"Num.ceil", 1}, "NaN": {"Num.nan", 0}}

func (k *kernel) num(e ast.Expr) (string, int) {
	s, p, kind := k.expr(e)
	if kind != 'f' {
		k.fail(e, "boolean expression where a float64 is expected")
	}
	return s, p
}

func (k *kernel) boolean(e ast.Expr) (string, int) { // as a Lean Bool
	s, p, kind := k.expr(e)
	switch kind {
	case 'b':
		return s, p
	case 'p':
		return "decide (" + s + ")", pApp
	}
	k.fail(e, "float64 expression where a condition is expected")
	return "", 0
}

// a named constant defined by ONE plain decimal literal keeps that literal's spelling
func (k *kernel) constSpelling(e ast.Expr) (string, bool) {
	ofSpec := func(p *pkg, name string) (string, bool) {
		vs, ok := p.consts[name]
		if !ok || p.cidx[name] >= len(vs.Values) || (vs.Type != nil && !isIdent(vs.Type, "float64")) {
			return "", false
		}
		lit, ok := vs.Values[p.cidx[name]].(*ast.BasicLit)
		if ok && lit.Kind == token.FLOAT && rePlain.MatchString(lit.Value) {
			return lit.Value, true
		}
		return "", false
	}
	switch e := e.(type) {
	case *ast.ParenExpr:
		return k.constSpelling(e.X)
	case *ast.Ident:
		if v := k.lookup(e.Name); v != nil {
			return v.lit, v.kind == vConst && v.lit != ""
		}
		return ofSpec(k.p, e.Name)
	case *ast.SelectorExpr:
		x, ok := e.X.(*ast.Ident)
		if !ok || k.lookup(x.Name) != nil {
			return "", false
		}
		if path, ok := k.imp[x.Name]; ok && strings.HasPrefix(path, k.w.module+"/") {
			return ofSpec(k.w.load(strings.TrimPrefix(path, k.w.module+"/")), e.Sel.Name)
		}
	}
	return "", false
}

// kind: 'f' float, 'p' Prop (a comparison), 'b' Bool
func (k *kernel) expr(e ast.Expr) (string, int, byte) {
	if k.isInt(e) {
		s, p := k.intExpr(e)
		return s, p, 'i'
	}
	if lit, ok := e.(*ast.BasicLit); ok { // a literal keeps its source spelling when Lean reads it the same way
		if lit.Kind == token.INT && reInt.MatchString(lit.Value) {
			return lit.Value, pAtom, 'f'
		}
		if lit.Kind == token.FLOAT && reFloat.MatchString(lit.Value) {
			return strings.ToLower(lit.Value), pAtom, 'f'
		}
		if lit.Kind == token.FLOAT && reDot.MatchString(lit.Value) { // `0.` is the float literal `0.0`
			return lit.Value + "0", pAtom, 'f'
		}
	}
	if s, ok := k.constSpelling(e); ok {
		return s, pAtom, 'f'
	}
	if c, ok := k.constEnv().eval(e); ok { // a constant sub-expression is folded exactly, as the Go compiler does
		return leanOfValue(c.v), pAtom, 'f'
	}
	switch e := e.(type) {
	case *ast.ParenExpr:
		return k.expr(e.X)
	case *ast.Ident:
		v := k.lookup(e.Name)
		if v == nil && (e.Name == "true" || e.Name == "false") {
			return e.Name, pAtom, 'b'
		}
		if v != nil && v.kind == vBool {
			if v.boolLit != "" {
				return v.boolLit, pAtom, 'b'
			}
			k.use(v)
			return v.lean, pAtom, 'b'
		}
		if v != nil && (v.kind == vSlice || v.kind == vList) {
			k.use(v)
			return v.lean, pAtom, 'l'
		}
		if v == nil || v.kind != vFloat {
			k.fail(e, "identifier %s is not a float64 variable or constant of the subset", e.Name)
		}
		k.use(v)
		return v.lean, pAtom, 'f'
	case *ast.UnaryExpr:
		switch e.Op {
		case token.SUB:
			s, p := k.num(e.X)
			return "(-" + paren(s, p, pAtom) + ")", pAtom, 'f'
		case token.ADD:
			return k.expr(e.X)
		case token.NOT:
			s, p := k.boolean(e.X)
			return "!" + paren(s, p, pAtom), pApp, 'b'
		}
	case *ast.BinaryExpr:
		switch e.Op {
		case token.ADD, token.SUB, token.MUL, token.QUO:
			prec := pAdd
			if e.Op == token.MUL || e.Op == token.QUO {
				prec = pMul
			}
			l, lp := k.num(e.X)
			r, rp := k.num(e.Y)
			return paren(l, lp, prec) + " " + e.Op.String() + " " + paren(r, rp, prec+1), prec, 'f'
		case token.LSS, token.LEQ, token.GTR, token.GEQ:
			op := map[token.Token]string{token.LSS: "<", token.LEQ: "≤", token.GTR: ">", token.GEQ: "≥"}[e.Op]
			if k.isInt(e.X) || k.isInt(e.Y) {
				l, lp := k.intExpr(e.X)
				r, rp := k.intExpr(e.Y)
				return paren(l, lp, pCmp+1) + " " + op + " " + paren(r, rp, pCmp+1), pCmp, 'p'
			}
			l, lp := k.num(e.X)
			r, rp := k.num(e.Y)
			return paren(l, lp, pCmp+1) + " " + op + " " + paren(r, rp, pCmp+1), pCmp, 'p'
		case token.EQL, token.NEQ:
			if s, ok := k.nilTest(e); ok {
				return s, pAtom, 'b'
			}
			if x, ok := e.X.(*ast.Ident); ok && isIdent(e.Y, "nil") && k.lookup("nil") == nil {
				if v := k.lookup(x.Name); v != nil && v.kind == vErrFlag { // err != nil of a configuration check
					k.use(v)
					if e.Op == token.NEQ {
						return v.lean, pAtom, 'b'
					}
					return "!" + v.lean, pApp, 'b'
				}
			}
			if k.isInt(e.X) || k.isInt(e.Y) {
				l, lp := k.intExpr(e.X)
				r, rp := k.intExpr(e.Y)
				op := map[token.Token]string{token.EQL: "=", token.NEQ: "≠"}[e.Op]
				return paren(l, lp, pCmp+1) + " " + op + " " + paren(r, rp, pCmp+1), pCmp, 'p'
			}
			l, lp := k.num(e.X)
			r, rp := k.num(e.Y)
			s := "Num.feq " + paren(l, lp, pAtom) + " " + paren(r, rp, pAtom)
			if e.Op == token.NEQ {
				return "!(" + s + ")", pApp, 'b'
			}
			return s, pApp, 'b'
		case token.LAND, token.LOR:
			prec, op := pAnd, "&&"
			if e.Op == token.LOR {
				prec, op = pOr, "||"
			}
			l, lp := k.boolean(e.X)
			r, rp := k.boolean(e.Y)
			return paren(l, lp, prec) + " " + op + " " + paren(r, rp, prec+1), prec, 'b'
		}
	case *ast.SelectorExpr: // x.f of a struct variable
		if c := k.fieldVar(e); c != nil {
			k.use(c)
			switch c.kind {
			case vBool:
				return c.lean, pAtom, 'b'
			case vIntVar:
				return c.lean, pAtom, 'i'
			}
			return c.lean, pAtom, 'f'
		}
	case *ast.IndexExpr:
		if s, ok := k.sliceRead(e); ok {
			return s, pApp, 'f'
		}
	case *ast.CompositeLit:
		if at, ok := e.Type.(*ast.ArrayType); ok && at.Len == nil && isIdent(at.Elt, "float64") && k.lookup("float64") == nil {
			var els []string
			for _, el := range e.Elts {
				if _, isKV := el.(*ast.KeyValueExpr); isKV {
					k.fail(e, "keyed slice literal")
				}
				s, _ := k.num(el)
				els = append(els, s)
			}
			return "[" + strings.Join(els, ", ") + "]", pAtom, 'l'
		}
	case *ast.CallExpr:
		if h := k.hoisted[e]; h != nil {
			return h.name, pAtom, map[string]byte{"α": 'f', "Bool": 'b', "List α": 'l', "Int": 'i'}[h.typ]
		}
		if k.conversion(e, "float64") { // float64(i) of an int (a constant argument was folded above)
			if k.isInt(e.Args[0]) {
				s, p := k.intExpr(e.Args[0])
				return "Num.ofInt " + paren(s, p, pAtom), pApp, 'f'
			}
			return k.expr(e.Args[0])
		}
		if isIdent(e.Fun, "make") && k.lookup("make") == nil && len(e.Args) == 2 {
			if at, ok := e.Args[0].(*ast.ArrayType); ok && at.Len == nil && isIdent(at.Elt, "float64") {
				s, p := k.intExpr(e.Args[1])
				return "mkSlice " + paren(s, p, pAtom), pApp, 'l'
			}
		}
		if s, outs, ok := k.callTyped(e); ok {
			if len(outs) != 1 {
				k.fail(e, "call with %d results where one float64 is expected", len(outs))
			}
			switch outs[0] {
			case "Bool":
				return s, pApp, 'b'
			case "List α":
				return s, pApp, 'l'
			case "Int":
				return s, pApp, 'i'
			}
			return s, pApp, 'f'
		}
		if f, ok := e.Fun.(*ast.Ident); ok {
			k.fail(e, "call of function %s", f.Name)
		}
		sel, ok := e.Fun.(*ast.SelectorExpr)
		if !ok {
			break
		}
		x, ok := sel.X.(*ast.Ident)
		if !ok {
			break
		}
		if v := k.lookup(x.Name); v != nil {
			if v.kind == vList && (sel.Sel.Name == "Get" || sel.Sel.Name == "Get1") && len(e.Args) == 1 {
				if !k.whole {
					k.fail(e, "table read inside an expression of a function judged total")
				}
				k.use(v)
				return "sliceGet " + v.lean + " " + k.listIndex(e, sel.Sel.Name == "Get1"), pApp, 'f'
			}
			if v.kind == vSeries && (sel.Sel.Name == "Get" || sel.Sel.Name == "Get1") && len(e.Args) == 1 {
				if v.isNil {
					k.fail(e, "read of series %s, which is nil at this call", v.name)
				}
				if k.outVar[v] != nil {
					k.fail(e, "read of output series %s", v.name)
				}
				if !k.inLoop && k.mode == mKernel && k.firstIndex(e, sel.Sel.Name == "Get1") {
					return k.first(v).lean, pAtom, 'f'
				}
				k.indexArg(e, sel.Sel.Name == "Get1")
				return v.lean, pAtom, 'f'
			}
			break
		}
		path := k.imp[x.Name]
		var args []string
		switch {
		case path == "math" && sel.Sel.Name == "IsNaN" && len(e.Args) == 1:
			s, p := k.num(e.Args[0])
			return "Num.isNaN " + paren(s, p, pAtom), pApp, 'b'
		case path == "math" && mathFns[sel.Sel.Name].lean != "" && mathFns[sel.Sel.Name].n == len(e.Args):
			args = append(args, mathFns[sel.Sel.Name].lean)
		case path == k.w.module+"/util/m" && len(e.Args) == 2 && sel.Sel.Name == "MinFloat64":
			args = append(args, "Num.pmin")
		case path == k.w.module+"/util/m" && len(e.Args) == 2 && sel.Sel.Name == "MaxFloat64":
			args = append(args, "Num.pmax")
		default:
			k.fail(e, "call of %s.%s", x.Name, sel.Sel.Name)
		}
		for _, a := range e.Args {
			s, p := k.num(a)
			args = append(args, paren(s, p, pAtom))
		}
		if len(args) == 1 {
			return args[0], pAtom, 'f'
		}
		return strings.Join(args, " "), pApp, 'f'
	}
	k.fail(e, "expression %T", e)
	return "", 0, 0
}

// `series != nil` / `series == nil`: decided by the call site for a sub-kernel, else under the non-nil assumption of the table
func (k *kernel) nilTest(e *ast.BinaryExpr) (string, bool) {
	x, ok1 := e.X.(*ast.Ident)
	y, ok2 := e.Y.(*ast.Ident)
	if !ok1 || !ok2 || y.Name != "nil" || k.lookup("nil") != nil {
		return "", false
	}
	v := k.lookup(x.Name)
	if v == nil || v.kind != vSeries {
		return "", false
	}
	if v.isNil {
		if e.Op == token.NEQ {
			return "false", true
		}
		return "true", true
	}
	if !k.nonNil {
		k.fail(e, "nil test of series %s (not assumed non-nil in the kernel table)", x.Name)
	}
	note := "series " + v.name + " is never nil"
	found := false
	for _, a := range k.assumed {
		found = found || a == note
	}
	if !found {
		k.assumed = append(k.assumed, note)
	}
	if e.Op == token.NEQ {
		return "true", true
	}
	return "false", true
}

// the argument of Get/Set must denote the current step: `idx` after `idx[0] = i`, or the loop variable for Get1/Set1
func (k *kernel) indexArg(call *ast.CallExpr, one bool) {
	if !k.inLoop {
		k.fail(call, "series access outside the loop")
	}
	id, ok := call.Args[0].(*ast.Ident)
	if !ok {
		k.fail(call, "series access at a computed index")
	}
	v := k.lookup(id.Name)
	if one && v != nil && v == k.loopVar {
		return
	}
	if !one && v != nil && v.kind == vIdx && k.idxBound {
		return
	}
	k.fail(call, "series access at an index other than the loop index")
}

// before the loop: `xs.Get(idx)` with the untouched `idx := []int{0}`, or `xs.Get1(0)`
func (k *kernel) firstIndex(call *ast.CallExpr, one bool) bool {
	if one {
		lit, ok := call.Args[0].(*ast.BasicLit)
		return ok && lit.Kind == token.INT && lit.Value == "0"
	}
	id, ok := call.Args[0].(*ast.Ident)
	if !ok {
		return false
	}
	v := k.lookup(id.Name)
	return v != nil && v.kind == vIdx // idx is only ever written by `idx[0] = i` inside the loop
}

func (k *kernel) first(s *variable) *variable {
	if f, ok := k.firstOf[s]; ok {
		return f
	}
	f := &variable{kind: vFloat, name: s.name + "[0]", lean: k.fresh(s.name + "0"), param: true}
	k.firstOf[s] = f
	k.firsts = append(k.firsts, f)
	return f
}
