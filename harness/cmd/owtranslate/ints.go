package main

import (
	"go/ast"
	"go/constant"
	"go/token"
	"strings"
)

// ---- int expressions (Go int ↦ Lean Int; 64-bit overflow is outside the model) and slices ([]float64 ↦ List α)

func unparen(e ast.Expr) ast.Expr {
	for {
		p, ok := e.(*ast.ParenExpr)
		if !ok {
			return e
		}
		e = p.X
	}
}

// a conversion `T(x)` / `(T)(x)` to the predeclared type T
func (k *kernel) conversion(e *ast.CallExpr, t string) bool {
	return isIdent(unparen(e.Fun), t) && len(e.Args) == 1 && k.lookup(t) == nil
}

// the expression has Go type int (syntactic: an untyped constant takes its type from the other operand)
func (k *kernel) isInt(e ast.Expr) bool {
	switch e := e.(type) {
	case *ast.ParenExpr:
		return k.isInt(e.X)
	case *ast.Ident:
		v := k.lookup(e.Name)
		return v != nil && (v.kind == vIntVar || v.kind == vIdxVec || (v.kind == vLoop && v.lean != "") || (v.kind == vLen && k.mode == mWhole))
	case *ast.SelectorExpr:
		if c := k.fieldVar(e); c != nil {
			return c.kind == vIntVar
		}
	case *ast.UnaryExpr:
		return (e.Op == token.SUB || e.Op == token.ADD) && k.isInt(e.X)
	case *ast.BinaryExpr:
		switch e.Op {
		case token.REM:
			return true
		case token.ADD, token.SUB, token.MUL, token.QUO:
			return k.isInt(e.X) || k.isInt(e.Y)
		}
	case *ast.IndexExpr:
		if x, ok := e.X.(*ast.Ident); ok && k.lookup(x.Name) == nil {
			return k.p.intTable(x.Name) != nil
		}
	case *ast.CallExpr:
		if h := k.hoisted[e]; h != nil {
			return h.typ == "Int"
		}
		if k.conversion(e, "int") {
			return true
		}
		if isIdent(e.Fun, "len") && k.lookup("len") == nil {
			return true
		}
		if sel, ok := e.Fun.(*ast.SelectorExpr); ok {
			if x, ok := sel.X.(*ast.Ident); ok {
				if v := k.lookup(x.Name); v != nil {
					return v.kind == vList && sel.Sel.Name == "Len1"
				}
				if k.imp[x.Name] == k.w.module+"/util/m" && (sel.Sel.Name == "MinInt" || sel.Sel.Name == "MaxInt") {
					return true
				}
			}
		}
		if c := k.closureOf(e.Fun); c != nil {
			return len(c.outs) == 1 && c.outs[0] == "Int"
		}
		if r := k.resolveFunc(e.Fun); r != nil {
			_, outs, ok := k.typedSignature(r)
			return ok && len(outs) == 1 && outs[0] == "Int"
		}
	}
	return false
}

func intLit(v constant.Value) (string, bool) {
	if v.Kind() != constant.Int {
		return "", false
	}
	s := v.ExactString()
	if strings.HasPrefix(s, "-") {
		return "(" + s + ")", true
	}
	return s, true
}

// an expression of Go type int as a Lean Int term
func (k *kernel) intExpr(e ast.Expr) (string, int) {
	if c, ok := k.constEnv().eval(e); ok && !c.typed {
		if s, ok := intLit(c.v); ok {
			return s, pAtom
		}
	}
	switch e := e.(type) {
	case *ast.ParenExpr:
		return k.intExpr(e.X)
	case *ast.Ident:
		v := k.lookup(e.Name)
		if v != nil && k.isInt(e) {
			k.use(v)
			return v.lean, pAtom
		}
	case *ast.SelectorExpr:
		if c := k.fieldVar(e); c != nil && c.kind == vIntVar {
			k.use(c)
			return c.lean, pAtom
		}
	case *ast.UnaryExpr:
		switch e.Op {
		case token.SUB:
			s, p := k.intExpr(e.X)
			return "(-" + paren(s, p, pAtom) + ")", pAtom
		case token.ADD:
			return k.intExpr(e.X)
		}
	case *ast.BinaryExpr:
		switch e.Op {
		case token.ADD, token.SUB, token.MUL:
			prec := pAdd
			if e.Op == token.MUL {
				prec = pMul
			}
			l, lp := k.intExpr(e.X)
			r, rp := k.intExpr(e.Y)
			return paren(l, lp, prec) + " " + e.Op.String() + " " + paren(r, rp, prec+1), prec
		case token.QUO, token.REM: // Go's integer division truncates toward zero
			l, lp := k.intExpr(e.X)
			r, rp := k.intExpr(e.Y)
			return map[token.Token]string{token.QUO: "Int.tdiv ", token.REM: "Int.tmod "}[e.Op] + paren(l, lp, pAtom) + " " + paren(r, rp, pAtom), pApp
		}
	case *ast.IndexExpr: // a package-level table of int constants: out of range is a Go panic
		k.fail(e, "table lookup outside a statement `x := T[i]` / `return T[i]`")
	case *ast.CallExpr:
		if h := k.hoisted[e]; h != nil && h.typ == "Int" {
			return h.name, pAtom
		}
		if k.conversion(e, "int") {
			if k.isInt(e.Args[0]) {
				return k.intExpr(e.Args[0])
			}
			s, p := k.num(e.Args[0])
			return "Num.toInt " + paren(s, p, pAtom), pApp
		}
		if isIdent(e.Fun, "len") && len(e.Args) == 1 {
			s, p, kind := k.expr(e.Args[0])
			if kind != 'l' {
				k.fail(e, "len of something other than a []float64")
			}
			return "sliceLen " + paren(s, p, pAtom), pApp
		}
		if sel, ok := e.Fun.(*ast.SelectorExpr); ok {
			if x, ok := sel.X.(*ast.Ident); ok {
				if v := k.lookup(x.Name); v != nil && v.kind == vList && sel.Sel.Name == "Len1" && len(e.Args) == 0 {
					k.use(v)
					return "sliceLen " + v.lean, pApp
				}
				if k.lookup(x.Name) == nil && k.imp[x.Name] == k.w.module+"/util/m" && len(e.Args) == 2 {
					a, ap := k.intExpr(e.Args[0])
					b, bp := k.intExpr(e.Args[1])
					switch sel.Sel.Name {
					case "MinInt":
						return "minInt " + paren(a, ap, pAtom) + " " + paren(b, bp, pAtom), pApp
					case "MaxInt":
						return "maxInt " + paren(a, ap, pAtom) + " " + paren(b, bp, pAtom), pApp
					}
				}
			}
		}
		if s, outs, ok := k.callTyped(e); ok {
			if len(outs) != 1 || outs[0] != "Int" {
				k.fail(e, "call where one int is expected")
			}
			return s, pApp
		}
	}
	k.fail(e, "int expression %T outside the subset", e)
	return "", 0
}

// ---- package-level tables `var T = [...]int{…}` (never assigned: checked syntactically over the package)

type intTab struct {
	vals []string
}

func (p *pkg) intTable(name string) *intTab {
	if t, ok := p.itabs[name]; ok {
		return t
	}
	if p.itabs == nil {
		p.itabs = map[string]*intTab{}
	}
	p.itabs[name] = nil
	var found *intTab
	n := 0
	for _, f := range p.files {
		for _, d := range f.Decls {
			gd, ok := d.(*ast.GenDecl)
			if !ok || gd.Tok != token.VAR {
				continue
			}
			for _, s := range gd.Specs {
				vs := s.(*ast.ValueSpec)
				for i, id := range vs.Names {
					if id.Name != name {
						continue
					}
					n++
					if vs.Type != nil || i >= len(vs.Values) {
						continue
					}
					cl, ok := vs.Values[i].(*ast.CompositeLit)
					if !ok {
						continue
					}
					at, ok := cl.Type.(*ast.ArrayType)
					if !ok || !isIdent(at.Elt, "int") {
						continue
					}
					t := &intTab{}
					good := true
					for _, el := range cl.Elts {
						bl, ok := el.(*ast.BasicLit)
						if !ok || bl.Kind != token.INT || !reInt.MatchString(bl.Value) {
							good = false
						}
						if ok {
							t.vals = append(t.vals, bl.Value)
						}
					}
					if good {
						found = t
					}
				}
			}
		}
	}
	if n != 1 || found == nil {
		return nil
	}
	// never written: no assignment `name = …`, `name[i] = …`, no `&name`, anywhere in the package
	written := false
	for _, f := range p.files {
		ast.Inspect(f, func(x ast.Node) bool {
			switch s := x.(type) {
			case *ast.AssignStmt:
				for _, l := range s.Lhs {
					if ix, ok := l.(*ast.IndexExpr); ok {
						l = ix.X
					}
					if isIdent(l, name) {
						written = true
					}
				}
			case *ast.IncDecStmt:
				l := s.X
				if ix, ok := l.(*ast.IndexExpr); ok {
					l = ix.X
				}
				if isIdent(l, name) {
					written = true
				}
			case *ast.UnaryExpr:
				if s.Op == token.AND && isIdent(unparen(s.X), name) {
					written = true
				}
			}
			return true
		})
	}
	if written {
		return nil
	}
	p.itabs[name] = found
	return found
}
