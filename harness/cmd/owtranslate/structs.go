package main

import (
	"go/ast"
	"go/token"
	"strings"
)

// ---- STRUCTS of float64 / int / bool fields are FLATTENED: a variable of such a type is one Lean variable per field
// (`res.outflowLoad` ↦ `res_outflowLoad`), a parameter of such a type one parameter per field, a result one component per field,
// a struct literal / `var x T` the definition of every field (a field that is not mentioned: its zero value), `x.f = e` an
// assignment to that field's variable, `a = b` a field-wise copy. A method `func (r T) m(…)` / `func (r *T) m(…)` is a function whose
// first parameter is the receiver (a pointer receiver only when the method does not assign through it). Gathering values in a struct,
// or moving a computation into a method of one, therefore yields the same `let`s as the code on plain variables.

type structInfo struct {
	key    string // package directory + "." + type name
	name   string
	fields []string
	types  []string // Lean types of the fields
}

func structMarker(st *structInfo) string { return "{" + st.key + "}" }

func (w *world) structByMarker(t string) *structInfo {
	if strings.HasPrefix(t, "{") && strings.HasSuffix(t, "}") {
		return w.structs[t[1:len(t)-1]]
	}
	return nil
}

// the struct type a type expression of package p denotes: `T` or `*T` with T a struct of float64 / int / bool fields
func (w *world) structOf(p *pkg, t ast.Expr) (st *structInfo, pointer bool) {
	if s, ok := t.(*ast.StarExpr); ok {
		t, pointer = s.X, true
	}
	id, ok := t.(*ast.Ident)
	if !ok {
		return nil, false
	}
	ts, ok := p.types[id.Name]
	if !ok || ts.TypeParams != nil || ts.Assign.IsValid() {
		return nil, false
	}
	stt, ok := ts.Type.(*ast.StructType)
	if !ok || stt.Fields == nil || len(stt.Fields.List) == 0 {
		return nil, false
	}
	key := p.dir + "." + id.Name
	if w.structs == nil {
		w.structs = map[string]*structInfo{}
	}
	if s, ok := w.structs[key]; ok {
		return s, pointer
	}
	s := &structInfo{key: key, name: id.Name}
	for _, f := range stt.Fields.List {
		lt := ""
		switch {
		case isIdent(f.Type, "float64"):
			lt = "α"
		case isIdent(f.Type, "int"):
			lt = "Int"
		case isIdent(f.Type, "bool"):
			lt = "Bool"
		}
		if lt == "" || len(f.Names) == 0 || f.Tag != nil {
			w.structs[key] = nil
			return nil, false
		}
		for _, n := range f.Names {
			if n.Name == "_" {
				w.structs[key] = nil
				return nil, false
			}
			s.fields = append(s.fields, n.Name)
			s.types = append(s.types, lt)
		}
	}
	w.structs[key] = s
	return s, pointer
}

// Lean types with every struct marker replaced by the types of its fields
func (w *world) flatTypes(ts []string) []string {
	var out []string
	for _, t := range ts {
		if st := w.structByMarker(t); st != nil {
			out = append(out, st.types...)
		} else {
			out = append(out, t)
		}
	}
	return out
}

// variables with every struct variable replaced by its field variables
func flatVars(vs []*variable) []*variable {
	var out []*variable
	for _, v := range vs {
		if v.kind == vStruct {
			out = append(out, v.fields...)
		} else {
			out = append(out, v)
		}
	}
	return out
}

func declLess(a, b *variable) bool {
	if a.declPos != b.declPos {
		return a.declPos < b.declPos
	}
	return a.declSub < b.declSub
}

// a variable of struct type: its field variables are named <name>_<field>
func (k *kernel) declareStruct(id *ast.Ident, st *structInfo) *variable {
	v := k.declare(id, vStruct)
	v.st = st
	for i, f := range st.fields {
		c := &variable{kind: kindOfType(st.types[i]), name: id.Name + "." + f, lean: k.fresh(id.Name + "_" + f), depth: v.depth, inLoop: v.inLoop,
			declPos: v.declPos, declSub: i + 1, fdepth: v.fdepth, parent: v}
		v.fields = append(v.fields, c)
	}
	return v
}

// `x.f` with x a struct variable: the variable of that field
func (k *kernel) fieldVar(e ast.Expr) *variable {
	sel, ok := e.(*ast.SelectorExpr)
	if !ok {
		return nil
	}
	x, ok := unparen(sel.X).(*ast.Ident)
	if !ok {
		return nil
	}
	v := k.lookup(x.Name)
	if v == nil || v.kind != vStruct {
		return nil
	}
	for i, f := range v.st.fields {
		if f == sel.Sel.Name {
			return v.fields[i]
		}
	}
	return nil
}

// the struct variable an expression names
func (k *kernel) structVar(e ast.Expr) *variable {
	e = unparen(e)
	if u, ok := e.(*ast.UnaryExpr); ok && u.Op == token.AND { // &x passed to a pointer parameter that is only read
		e = unparen(u.X)
	}
	id, ok := e.(*ast.Ident)
	if !ok {
		return nil
	}
	if v := k.lookup(id.Name); v != nil && v.kind == vStruct {
		return v
	}
	return nil
}

// the struct type of a composite literal `T{…}` / `&T{…}` of this package
func (k *kernel) structLit(e ast.Expr) (*ast.CompositeLit, *structInfo) {
	e = unparen(e)
	cl, ok := e.(*ast.CompositeLit)
	if !ok || cl.Type == nil {
		return nil, nil
	}
	if id, ok := cl.Type.(*ast.Ident); ok && k.lookup(id.Name) == nil {
		if st, ptr := k.w.structOf(k.p, cl.Type); st != nil && !ptr {
			return cl, st
		}
	}
	return nil, nil
}

// the values of the fields of a struct-typed expression (a struct variable or a struct literal), as Lean terms in field order
func (k *kernel) structValues(e ast.Expr, st *structInfo) []string {
	if v := k.structVar(e); v != nil {
		if v.st != st {
			k.fail(e, "struct value of type %s where %s is expected", v.st.name, st.name)
		}
		var out []string
		for _, c := range v.fields {
			k.use(c)
			out = append(out, c.lean)
		}
		return out
	}
	cl, lst := k.structLit(e)
	if cl == nil || lst != st {
		k.fail(e, "expression that is not a variable or a literal of struct type %s", st.name)
	}
	vals := make([]string, len(st.fields))
	for i, t := range st.types {
		vals[i] = zeroOf(t)
	}
	for i, el := range cl.Elts {
		idx, val := i, el
		if kv, ok := el.(*ast.KeyValueExpr); ok {
			key, ok := kv.Key.(*ast.Ident)
			idx = -1
			if ok {
				for j, f := range st.fields {
					if f == key.Name {
						idx = j
					}
				}
			}
			val = kv.Value
		}
		if idx < 0 || idx >= len(st.fields) {
			k.fail(el, "element of a struct literal that is not a field of %s", st.name)
		}
		vals[idx] = k.valueOf(val, st.types[idx])
	}
	return vals
}

// `x := T{…}` / `x := y` / `var x T` / `var x = T{…}`: the definition of every field variable (vals nil: zero values)
func (k *kernel) defineStruct(ind int, id *ast.Ident, st *structInfo, vals []string, src ast.Expr) *variable {
	v := k.declareStruct(id, st)
	// the source expressions of the fields, for sinking (a literal only)
	var srcs []ast.Expr
	if cl, lst := k.structLit(src); cl != nil && lst == st {
		srcs = make([]ast.Expr, len(st.fields))
		for i, el := range cl.Elts {
			if kv, ok := el.(*ast.KeyValueExpr); ok {
				if key, ok := kv.Key.(*ast.Ident); ok {
					for j, f := range st.fields {
						if f == key.Name {
							srcs[j] = kv.Value
						}
					}
				}
			} else if i < len(srcs) {
				srcs[i] = el
			}
		}
	}
	for i, c := range v.fields {
		val := zeroOf(st.types[i])
		if vals != nil {
			val = vals[i]
		}
		if !k.inLoop && k.mode == mKernel {
			k.preLocals = append(k.preLocals, c)
		}
		k.line(ind, "let %s : %s := %s", c.lean, c.typ(), val)
		if srcs != nil && srcs[i] != nil {
			k.trySink(c, srcs[i], "let "+c.lean+" : "+c.typ()+" := "+val)
		} else if srcs != nil || vals == nil {
			k.trySink(c, &ast.BasicLit{Kind: token.INT, Value: "0"}, "let "+c.lean+" : "+c.typ()+" := "+val)
		}
	}
	return v
}

// `a = b` of struct variables / `a = T{…}`
func (k *kernel) assignStruct(ind int, v *variable, rhs ast.Expr, n ast.Node) {
	vals := k.structValues(rhs, v.st)
	// all values are read before any field is written (a literal may read the variable it is assigned to)
	tmp := make([]string, len(vals))
	for i, c := range v.fields {
		k.targetVar(c, n)
		tmp[i] = k.fresh(c.lean + "_new")
		k.line(ind, "let %s : %s := %s", tmp[i], c.typ(), vals[i])
	}
	for i, c := range v.fields {
		k.assigned(c)
		k.line(ind, "let %s : %s := %s", c.lean, c.typ(), tmp[i])
	}
}

// the Go parameters of a function, the receiver of a method first
func paramFields(fd *ast.FuncDecl) (names []*ast.Ident, types []ast.Expr) {
	if fd.Recv != nil {
		n, t := fields(fd.Recv)
		names, types = append(names, n...), append(types, t...)
	}
	n, t := fields(fd.Type.Params)
	return append(names, n...), append(types, t...)
}

// the arguments of a call in the order of paramFields: the receiver expression of a method call first
func callArgs(e *ast.CallExpr, r *funcRef) []ast.Expr {
	if r != nil && r.fd.Recv != nil {
		if sel, ok := e.Fun.(*ast.SelectorExpr); ok {
			return append([]ast.Expr{sel.X}, e.Args...)
		}
	}
	return e.Args
}

// a method with a pointer receiver (or any function with a pointer-to-struct parameter) must not assign through the pointer
func assignsThrough(fd *ast.FuncDecl, name string) bool {
	found := false
	check := func(e ast.Expr) {
		e = unparen(e)
		if sel, ok := e.(*ast.SelectorExpr); ok {
			e = unparen(sel.X)
		}
		if st, ok := e.(*ast.StarExpr); ok {
			e = unparen(st.X)
		}
		if isIdent(e, name) {
			found = true
		}
	}
	ast.Inspect(fd.Body, func(n ast.Node) bool {
		switch s := n.(type) {
		case *ast.AssignStmt:
			if s.Tok != token.DEFINE {
				for _, l := range s.Lhs {
					check(l)
				}
			}
		case *ast.IncDecStmt:
			check(s.X)
		case *ast.UnaryExpr:
			if s.Op == token.AND {
				check(s.X)
			}
		}
		return !found
	})
	return found
}

// the Lean types of the results of a function, one entry per Go result (a struct result: its marker)
func (k *kernel) goResultTypes(r *funcRef) ([]string, bool) {
	imp := imports(r.f)
	_, rts := fields(r.fd.Type.Results)
	var out []string
	for _, t := range rts {
		if st, ptr := k.w.structOf(r.p, t); st != nil && !ptr {
			out = append(out, structMarker(st))
			continue
		}
		lt := k.leanType(t, imp, false)
		if lt == "" {
			return nil, false
		}
		out = append(out, lt)
	}
	return out, true
}

// the text is one token (an identifier, a literal) or one parenthesised group
func isAtom(s string) bool {
	if closedParen(s) {
		return true
	}
	return !strings.ContainsAny(s, " ")
}

// the type expression names a type of the package (no local variable of that name)
func (k *kernel) lookupType(t ast.Expr) bool {
	if s, ok := t.(*ast.StarExpr); ok {
		t = s.X
	}
	id, ok := t.(*ast.Ident)
	return ok && k.lookup(id.Name) == nil
}

// the call is of a module function (or method) with exactly one result, of struct type
func (k *kernel) structResult(call *ast.CallExpr) bool {
	if k.closureOf(call.Fun) != nil {
		return false
	}
	r := k.resolveFunc(call.Fun)
	if r == nil {
		return false
	}
	g, ok := k.goResultTypes(r)
	return ok && len(g) == 1 && k.w.structByMarker(g[0]) != nil
}

// every occurrence of the (series) parameter in the body is as a direct argument of a call: the function only hands it on
func passedWholeOnly(fd *ast.FuncDecl, name string) bool {
	if fd.Body == nil {
		return false
	}
	asArg := map[*ast.Ident]bool{}
	ast.Inspect(fd.Body, func(n ast.Node) bool {
		if c, ok := n.(*ast.CallExpr); ok {
			for _, a := range c.Args {
				if id, ok := a.(*ast.Ident); ok && id.Name == name {
					asArg[id] = true
				}
			}
		}
		return true
	})
	ok, seen := true, false
	ast.Inspect(fd.Body, func(n ast.Node) bool {
		if id, isId := n.(*ast.Ident); isId && id.Name == name {
			seen = true
			if !asArg[id] {
				ok = false
			}
		}
		return ok
	})
	return ok && seen
}
