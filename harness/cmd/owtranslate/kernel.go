package main

import (
	"fmt"
	"go/ast"
	"go/token"
	"path/filepath"
	"strings"
)

// ---------------------------------------------------------------------------------------------
// one kernel (or one helper function)

type vkind int

const (
	vFloat vkind = iota
	vSeries
	vLen
	vIdx
	vLoop
	vConst
	vBool
	vFunc
	vInt     // an int parameter: may not be used
	vErr     // the error result of an abstract partial call
	vIntVar  // a Go int variable (Lean Int)
	vSlice   // a Go []float64 (Lean List α)
	vIdxVec  // an index vector `[]int{e}`: a Lean Int holding its element 0
	vList    // whole-function mode: a series as a list (Lean List α)
	vClosure // a function literal bound to a local name (lambda-lifted to a definition of the namespace)
	vIntTab  // a package-level array of int constants
	vErrFlag // the error result of a configuration check, as a Bool (true = non-nil)
	vStruct  // a struct of float64 / int / bool fields: flattened into one variable per field (structs.go)
)

const (
	mKernel = iota
	mHelper
	mWhole // the whole function, series as lists (no time loop of the standard shape)
)

type variable struct {
	kind         vkind
	name         string // Go name
	lean         string
	c            *cval
	lit          string // a local constant defined by one plain decimal literal: its spelling
	depth        int    // scope depth of the declaration
	inLoop       bool   // declared inside the loop body
	state        bool
	hidden       bool // loop-carried, not returned
	param        bool
	isOut        bool // the per-step value of an output series
	isNil        bool // a series parameter that is nil at this call site
	declPos      token.Pos
	fn           *funcRef // vFunc: the function bound to this function-valued parameter
	used         bool     // referenced by a translated expression
	everAssigned bool
	written      bool // vList: Set / CopyFrom is called on it
	reassigned   bool // a parameter assigned before the loop: from then on a pre-loop local
	clo          *closureDef
	fdepth       int         // nesting depth of function literals at the declaration
	capturedAt   bool        // captured by a function literal: may not be assigned afterwards
	st           *structInfo // vStruct: its type
	fields       []*variable // vStruct: the variables of its fields
	parent       *variable   // the struct variable this is a field of
	declSub      int         // position among the field variables of one struct (same declPos)
	sigma        bool        // a series parameter of a helper that the helper only passes on whole: abstract type σ
	boolLit      string      // a Bool variable that is the literal `true` / `false` (assigned once)
	sunk         bool        // a pre-loop value computed from parameters only, assigned once: a `let` at the top of step / final
	loopLocal    bool        // declared before the loop, but assigned at the top level of the loop body before any read in it and not read
	//                          after the loop: its value never crosses an iteration, it is a local of `step` (no hidden state)
}

func (v *variable) typ() string {
	if v.sigma {
		return "σ"
	}
	switch v.kind {
	case vBool, vErrFlag:
		return "Bool"
	case vIntVar, vIdxVec, vInt, vLoop:
		return "Int"
	case vSlice, vList:
		return "List α"
	}
	return "α"
}

type funcRef struct {
	p  *pkg
	f  *ast.File
	fd *ast.FuncDecl
}

type scope struct {
	vars   map[string]*variable
	parent *scope
	depth  int
}

type frame struct { // a φ-merge in progress: which outer variables the branches assign
	depth int
	order []*variable
	seen  map[*variable]bool
}

// the helper functions translated for one namespace, in emission order (callees first)
type helperDef struct {
	key, lean, text string
	nin, nout       int
	ins, outs       []string      // Lean types of the parameters and results
	drop            []bool        // int parameters the body does not use (not parameters of the definition)
	partial         bool          // may panic: the result is an Option
	absFns          []*abstractFn // functions that are not translated, reached from the body: leading parameters
	abstract        string        // non-empty: not translated (reason); an argument of guard/pre/init/step
	typ             string        // abstract: the Lean type when it is not all-float64
	rel             string
	line            int
}

type helperSet struct {
	order []*helperDef
	by    map[string]*helperDef
	busy  map[string]bool
	names map[string]bool
}

func newHelperSet() *helperSet {
	return &helperSet{by: map[string]*helperDef{}, busy: map[string]bool{}, names: map[string]bool{}}
}

var reservedDefs = map[string]bool{"guard": true, "pre": true, "init": true, "step": true, "delegate": true, "delegates": true,
	"delegateInit": true, "delegateStep": true, "delegateFinal": true, "abstractBranch": true, "translated": true, "final": true, "run": true}

type needHidden struct{ pos token.Pos }

type guardRec struct {
	nLets int
	cond  string
	ind   int // the pre-loop lets are this much deeper here
}

type kernel struct {
	w       *world
	p       *pkg
	file    *ast.File
	fn      *ast.FuncDecl
	imp     map[string]string
	nonNil  bool
	mode    int
	sub     bool // translated as the callee of a delegation
	nsName  string
	hs      *helperSet
	sc      *scope
	leanOf  map[token.Pos]string
	used    map[string]bool
	scalars []*variable // float64 parameters in order
	series  []*variable // series parameters in order
	results []*variable // named results
	nres    int
	inputs  []*variable
	outputs []*variable
	outVar  map[*variable]*variable // series → its per-step value variable
	states  []*variable
	hidden  []*variable
	firsts  []*variable // first-element pseudo parameters
	firstOf map[*variable]*variable
	preLets []string // pre-loop lets (already rendered)
	guards  []guardRec

	nilSeries  map[string]bool     // series parameters that are nil at this call site (sub-kernels)
	funcBind   map[string]*funcRef // function-valued parameters bound at this call site
	wantHidden map[token.Pos]bool
	retNames   map[string]bool
	deleg      *delegation
	abstracts  []abstractBranch
	hasLoop    bool

	preLocals []*variable // pre-loop float locals, declaration order
	liveIn    map[*variable]bool
	loopVar   *variable
	idxBound  bool
	inLoop    bool
	out       *strings.Builder
	frames    []*frame
	isSet     map[*variable]bool
	always    map[*variable]bool
	leaves    int
	assumed   []string
	nphi      int
	nloop     int
	loopNest  int // bounded loops of a helper being rendered
	frameBase int // merges opened outside the innermost bounded loop
	ncall     int
	unused    []string
	stepText  string
	refd      map[string]bool
	ints      []string      // int parameters (unused)
	partial   bool          // some path of the loop body panics: step returns an Option
	absCalls  []*abstractFn // functions with an error result, called on whole series: arguments of step
	tables    []*variable   // series passed whole to such a function
	ignored   []string      // print statements

	resTypes           []string // Lean types of the results of the function being rendered
	clo                *closureDef
	fdepth             int
	helperOf           string // the helper function being translated (prefix of its function literals' names)
	lits               map[string]*ast.FuncLit
	allowPartial       bool // the next call may be of a function that may panic (statement level)
	lastPartial        bool
	deeper             bool        // the statement just rendered opened a `some` arm: the rest of the block goes one level deeper
	whole              bool        // whole-function mode
	lists              []*variable // whole mode: the series, as lists
	params             []*variable // all value parameters in order (typed)
	postText           string      // statements after the loop: the definition `final`
	postPartial        bool
	nfuel              int
	hoisted            map[*ast.CallExpr]*hoistedCall
	idx                idxInfo
	tableSeries        []*variable // series parameters used as tables: List α parameters
	preInd             int         // the pre-loop lets are rendered this much deeper (inside `some` arms of calls that may panic)
	prePartial         bool        // a pre-loop statement may panic: guard / pre / init are Options
	guardZero          bool        // the early return leaves the named results at their zero values
	inFinal            bool        // rendering the statements after the loop
	fuels              []string    // fuel parameters of step (one per sub-step loop)
	usesSlices         bool
	liftLoops          bool // table entry Lift
	preReadsStateParam bool // a statement before the loop reads a parameter that is also a state
	blockSunk          bool // ALL statements before the loop are `let`s at the top of step / final (no `pre`)
	blockDecided       bool
	defRhs             ast.Expr                 // the source expression of the declaration `define` is about to render
	sunkLets           []sunkLet                // the pre-loop values that are `let`s at the top of step / final, in program order
	assignedTwice      map[string]bool          // names declared or assigned more than once in the function (syntactic)
	derived            map[string]string        // temporary series of a delegating branch: per-step expression
	postNames          map[string]bool          // the identifiers the statements after the loop (and the final return) mention
	retAsBreak         map[*ast.ReturnStmt]bool // `return E` inside a bounded loop that is followed by `return E`: rendered as `break`
	inlining           []string                 // the procedures being inlined (inline.go)
	allowWrites        bool                     // the next call may be of a function that writes into slice arguments (statement level)
	writtenVars        []*variable              // a helper being translated: the []float64 parameters it writes into (returned after the results)
}

// a function of the module with results (float64, error), not translated: `step` takes it as an argument of type
// α → σ → … → Option α (none = the error is non-nil), σ the abstract type of a whole series
type abstractFn struct {
	key, lean string
	kinds     []byte // 'f' float64, 's' whole series
	typ       string // when set: the Lean type (kinds unused)
	desc      string
	rel       string
	line      int
}

func (k *kernel) fail(n ast.Node, format string, a ...interface{}) {
	pos := k.w.fset.Position(n.Pos())
	rel, _ := filepath.Rel(k.w.repo, pos.Filename)
	panic(unsupported{fmt.Sprintf("%s at %s:%d", fmt.Sprintf(format, a...), rel, pos.Line)})
}

func (k *kernel) relPos(n ast.Node) (string, int) {
	pos := k.w.fset.Position(n.Pos())
	rel, _ := filepath.Rel(k.w.repo, pos.Filename)
	return rel, pos.Line
}

var leanKeywords = map[string]bool{"at": true, "in": true, "end": true, "from": true, "fun": true, "let": true, "have": true, "show": true,
	"then": true, "else": true, "if": true, "do": true, "match": true, "with": true, "where": true, "open": true, "def": true, "by": true,
	"for": true, "return": true, "local": true, "private": true, "instance": true, "structure": true, "class": true, "deriving": true,
	"namespace": true, "section": true, "variable": true, "universe": true, "theorem": true, "example": true, "import": true,
	"mutual": true, "macro": true, "syntax": true, "notation": true, "infix": true, "prefix": true, "postfix": true, "using": true,
	"extends": true, "calc": true, "nomatch": true, "nofun": true, "try": true, "catch": true, "finally": true, "unless": true,
	"break": true, "continue": true, "mut": true, "Type": true, "Prop": true, "Sort": true, "forall": true, "exists": true, "abbrev": true,
	"inductive": true, "opaque": true, "axiom": true, "set_option": true, "attribute": true, "export": true, "suffices": true, "obtain": true}

func (k *kernel) fresh(base string) string {
	name := base
	for i := 1; k.used[name]; i++ {
		name = fmt.Sprintf("%s_%d", base, i)
	}
	k.used[name] = true
	if leanKeywords[name] {
		return "«" + name + "»"
	}
	return name
}

func fresh0(name string) string {
	if leanKeywords[name] {
		return "«" + name + "»"
	}
	return name
}

func (k *kernel) push() {
	k.sc = &scope{vars: map[string]*variable{}, parent: k.sc, depth: k.sc.depth + 1}
}

func (k *kernel) lookup(name string) *variable {
	for s := k.sc; s != nil; s = s.parent {
		if v, ok := s.vars[name]; ok {
			return v
		}
	}
	return nil
}

func (k *kernel) declare(id *ast.Ident, kind vkind) *variable {
	if id.Name == "_" {
		k.fail(id, "blank identifier")
	}
	if _, dup := k.sc.vars[id.Name]; dup && kind != vConst {
		// `x := e` of an existing variable of the same scope is a compile error in Go for a single left-hand side
		k.fail(id, "redeclaration of %s", id.Name)
	}
	v := &variable{kind: kind, name: id.Name, depth: k.sc.depth, inLoop: k.inLoop, declPos: id.Pos(), fdepth: k.fdepth}
	if kind == vFloat || kind == vSeries || kind == vBool || kind == vIntVar || kind == vSlice || kind == vIdxVec || kind == vList || kind == vErrFlag {
		l, ok := k.leanOf[id.Pos()]
		if !ok {
			l = k.fresh(id.Name)
			k.leanOf[id.Pos()] = l
		}
		v.lean = l
	}
	if kind == vStruct && !k.inLoop && k.wantHidden[id.Pos()] {
		k.fail(id, "loop-carried variable %s of struct type", id.Name)
	}
	if (kind == vFloat || kind == vIntVar || kind == vSlice || kind == vBool) && !k.inLoop && k.wantHidden[id.Pos()] {
		v.state, v.hidden = true, true
		k.hidden = append(k.hidden, v)
	}
	k.sc.vars[id.Name] = v
	return v
}

func (k *kernel) allStates() []*variable {
	return append(append([]*variable{}, k.states...), k.hidden...)
}

func (k *kernel) constEnv() constEnv {
	return constEnv{w: k.w, p: k.p, file: k.file, locals: func(name string) (*cval, bool, bool) {
		if v := k.lookup(name); v != nil {
			return v.c, v.kind == vConst, true
		}
		return nil, false, false
	}}
}

func (k *kernel) line(ind int, format string, a ...interface{}) {
	k.out.WriteString(strings.Repeat("  ", ind))
	fmt.Fprintf(k.out, format, a...)
	k.out.WriteString("\n")
}

// ---- functions of the module: helpers (all-float64 signature) and kernels (series parameters)

func isIdent(e ast.Expr, name string) bool {
	id, ok := e.(*ast.Ident)
	return ok && id.Name == name
}

// the function a call expression's Fun denotes, when it is a package-level function of the module
func (k *kernel) resolveFunc(fun ast.Expr) *funcRef {
	switch f := fun.(type) {
	case *ast.Ident:
		if v := k.lookup(f.Name); v != nil {
			if v.kind == vFunc {
				return v.fn
			}
			return nil
		}
		if fd, ok := k.p.funcs[f.Name]; ok {
			return &funcRef{k.p, k.p.ffile[f.Name], fd}
		}
	case *ast.SelectorExpr:
		x, ok := f.X.(*ast.Ident)
		if ok {
			if v := k.lookup(x.Name); v != nil && v.kind == vStruct { // a method of a struct variable
				p := k.w.load(strings.SplitN(v.st.key, ".", 2)[0])
				if fd, ok := p.methods[v.st.name+"."+f.Sel.Name]; ok {
					return &funcRef{p, p.mfile[v.st.name+"."+f.Sel.Name], fd}
				}
				return nil
			}
		}
		if !ok || k.lookup(x.Name) != nil {
			return nil
		}
		path, ok := k.imp[x.Name]
		if ok && strings.HasPrefix(path, k.w.module+"/") && path != k.w.module+"/util/m" {
			p := k.w.load(strings.TrimPrefix(path, k.w.module+"/"))
			if fd, ok := p.funcs[f.Sel.Name]; ok {
				return &funcRef{p, p.ffile[f.Sel.Name], fd}
			}
		}
	}
	return nil
}

// (number of float64 parameters, number of float64 results, true) when every parameter and result is a float64
func floatSignature(ft *ast.FuncType) (int, int, bool) {
	nin, nout := 0, 0
	count := func(fl *ast.FieldList, n *int) bool {
		if fl == nil {
			return true
		}
		for _, fld := range fl.List {
			if !isIdent(fld.Type, "float64") {
				return false
			}
			if len(fld.Names) == 0 {
				*n++
			}
			*n += len(fld.Names)
		}
		return true
	}
	if !count(ft.Params, &nin) || !count(ft.Results, &nout) {
		return 0, 0, false
	}
	return nin, nout, true
}

// the Lean definition of a helper function (translated on first use; callees are emitted first)
func (k *kernel) helper(call ast.Node, r *funcRef) *helperDef {
	key := r.p.dir + "." + funcName(r.fd)
	if h, ok := k.hs.by[key]; ok {
		k.reference(call, h)
		return h
	}
	if k.hs.busy[key] {
		k.fail(call, "recursive helper function %s", r.fd.Name.Name)
	}
	ins, outs, ok := k.typedSignature(r)
	if !ok {
		k.fail(call, "call of function %s, whose parameters and results are not all float64", r.fd.Name.Name)
	}
	nin, nout := len(ins), len(outs)
	_, _, allFloat := floatSignature(r.fd.Type)
	name := fresh0(strings.Replace(funcName(r.fd), ".", "_", 1))
	for i := 0; reservedDefs[name] || k.hs.names[name]; i++ {
		name = fmt.Sprintf("%s_fn%s", strings.Replace(funcName(r.fd), ".", "_", 1), strings.Repeat("'", i))
	}
	k.hs.names[name] = true
	h := &helperDef{key: key, lean: name, nin: nin, nout: nout, ins: ins, outs: outs}
	pos := k.w.fset.Position(r.fd.Pos())
	h.rel, _ = filepath.Rel(k.w.repo, pos.Filename)
	h.line = pos.Line
	k.hs.busy[key] = true
	hk := &kernel{w: k.w, p: r.p, file: r.f, fn: r.fd, imp: imports(r.f), mode: mHelper, hs: k.hs, leanOf: map[token.Pos]string{},
		used: map[string]bool{}, helperOf: name, lits: closureLits(r.fd.Body)}
	func() {
		defer func() {
			if rec := recover(); rec != nil {
				u, isU := rec.(unsupported)
				// only the kernel's own body may fall back to an abstract function argument
				if !isU || k.mode != mKernel || k.sub || !allFloat {
					panic(rec)
				}
				h.abstract = u.msg
			}
		}()
		h.text = hk.translateHelper(h)
	}()
	delete(k.hs.busy, key)
	k.hs.by[key] = h
	k.hs.order = append(k.hs.order, h)
	k.reference(call, h)
	return h
}

// the name of a function, `T.m` for a method of T / *T
func funcName(fd *ast.FuncDecl) string {
	if fd.Recv != nil && len(fd.Recv.List) == 1 {
		t := fd.Recv.List[0].Type
		if s, ok := t.(*ast.StarExpr); ok {
			t = s.X
		}
		if id, ok := t.(*ast.Ident); ok {
			return id.Name + "." + fd.Name.Name
		}
	}
	return fd.Name.Name
}

// a Lean local of the same name would capture the reference
func (k *kernel) reference(call ast.Node, h *helperDef) {
	if k.refd == nil {
		k.refd = map[string]bool{}
	}
	if k.used[h.lean] && !k.refd[h.lean] {
		k.fail(call, "helper function %s has the name of a local variable", h.lean)
	}
	k.used[h.lean] = true
	k.refd[h.lean] = true
}
