package main

import (
	"fmt"
	"go/ast"
	"go/constant"
	"go/token"
	"path/filepath"
	"strings"
)

// ---- statement-level calls of functions that may panic: `match f … with | none => none | some r => <rest>`

// `t.Get(idxC)` on a table series (per-step form): out of range is a Go panic
func (k *kernel) tableGetCall(call *ast.CallExpr) *variable {
	sel, ok := call.Fun.(*ast.SelectorExpr)
	if !ok || sel.Sel.Name != "Get" || len(call.Args) != 1 || k.whole {
		return nil
	}
	x, ok := sel.X.(*ast.Ident)
	if !ok {
		return nil
	}
	if v := k.lookup(x.Name); v != nil && v.kind == vList {
		return v
	}
	return nil
}

func (k *kernel) callMayPanic(call *ast.CallExpr) bool {
	if k.tableGetCall(call) != nil {
		return true
	}
	if c := k.closureOf(call.Fun); c != nil {
		return c.partial
	}
	if isIdent(call.Fun, "panic") {
		return false
	}
	r := k.resolveFunc(call.Fun)
	if r == nil || k.hasErrResult(r) {
		return false
	}
	if _, _, ok := k.typedSignature(r); ok {
		return k.w.funcPartial(k, r, map[ast.Node]bool{})
	}
	if k.isKernelFunc(r) {
		return false
	}
	return true // not translated: an abstract function
}

// the call as a Lean term of type `Option (results)`
func (k *kernel) partialCallText(call *ast.CallExpr) (string, []string) {
	if v := k.tableGetCall(call); v != nil {
		k.use(v)
		return "tableGet " + v.lean + " " + k.listIndex(call, false), []string{"α"}
	}
	k.allowPartial = true
	text, outs, ok := k.callTyped(call)
	k.allowPartial = false
	if ok {
		if !k.lastPartial {
			k.fail(call, "internal: call judged to panic whose translation is total")
		}
		return text, outs
	}
	return k.abstractCall(call)
}

func (k *kernel) bindPartial(ind int, s *ast.AssignStmt, call *ast.CallExpr, following []ast.Stmt, rest func(ind int)) {
	if len(k.frames) > k.frameBase || !k.partial {
		k.fail(s, "call of a function that may panic inside a branch that is merged (or in a function judged total)")
	}
	compound := map[token.Token]string{token.ADD_ASSIGN: "+", token.SUB_ASSIGN: "-", token.MUL_ASSIGN: "*"}[s.Tok]
	if s.Tok != token.DEFINE && s.Tok != token.ASSIGN && (compound == "" || len(s.Lhs) != 1) {
		k.fail(s, "assignment operator %s with a call that may panic", s.Tok)
	}
	var ws []*variable
	if wr := k.writingCallee(call); wr != nil {
		ws = k.writtenArgs(call, wr)
		k.allowWrites = true
	}
	text, outs := k.partialCallText(call)
	k.allowWrites = false
	shapes := k.callShapes(call, outs)
	if len(shapes) != len(s.Lhs) {
		k.fail(s, "the %d results of the call are not all assigned", len(shapes))
	}
	k.ncall++
	tmp := k.fresh(fmt.Sprintf("call%d", k.ncall))
	k.line(ind, "match %s with", text)
	k.line(ind, "| none => none")
	k.countLeaf()
	k.line(ind, "| some %s =>", tmp)
	if compound != "" { // x += f(…)
		id, ok := s.Lhs[0].(*ast.Ident)
		if !ok {
			k.fail(s, "assignment to %T", s.Lhs[0])
		}
		v := k.target(id, s)
		if v.typ() != outs[0] || (v.kind != vFloat && v.kind != vIntVar) {
			k.fail(s, "assignment of a %s to %s", outs[0], v.name)
		}
		k.use(v)
		k.assigned(v)
		k.line(ind+1, "let %s : %s := %s %s %s", v.lean, v.typ(), v.lean, compound, tmp)
	} else {
		k.bindResultsOf(ind+1, s, tmp, outs, shapes)
	}
	k.bindWritten(ind+1, s, tmp, len(outs)-len(ws), len(outs), ws)
	k.stmts(following, ind+1, rest)
}

// a call of a module function that is NOT translated (function-typed parameters, …): an argument of the enclosing
// definitions, of type `args → Option results` (`none` = it panics; a function argument is a local function literal,
// passed with its captured variables applied)
func (k *kernel) abstractCall(call *ast.CallExpr) (string, []string) {
	r := k.resolveFunc(call.Fun)
	if r == nil {
		k.fail(call, "call of a function outside the module")
	}
	_, ptypes := fields(r.fd.Type.Params)
	if len(ptypes) != len(call.Args) || call.Ellipsis.IsValid() {
		k.fail(call, "call of %s with %d arguments", r.fd.Name.Name, len(call.Args))
	}
	imp := imports(r.f)
	var typs, args []string
	for i, a := range call.Args {
		if funcTypeOf(r.p, ptypes[i]) != nil {
			c := k.closureOf(a)
			if c == nil {
				k.fail(a, "function argument of %s that is not a local function literal", r.fd.Name.Name)
			}
			ret := tupleTypeOf(c.outs)
			if c.partial {
				ret = "Option " + paren(ret, map[bool]int{true: pAtom, false: 0}[len(c.outs) == 1], pAtom)
			}
			typs = append(typs, "("+strings.Join(append(append([]string{}, c.ins...), ret), " → ")+")")
			var caps []string
			for _, a := range c.absFns {
				k.noteAbs(a)
				caps = append(caps, a.lean)
			}
			caps = append(caps, k.closureCaps(c)...)
			if len(caps) == 0 {
				args = append(args, c.lean)
			} else {
				args = append(args, "("+c.lean+" "+strings.Join(caps, " ")+")")
			}
			continue
		}
		lt := k.leanType(ptypes[i], imp, false)
		if lt == "" {
			k.fail(a, "argument %d of %s has a type outside the subset", i+1, r.fd.Name.Name)
		}
		typs = append(typs, lt)
		args = append(args, k.argOf(a, lt))
	}
	var outs []string
	_, rtypes := fields(r.fd.Type.Results)
	for _, t := range rtypes {
		lt := k.leanType(t, imp, false)
		if lt == "" {
			k.fail(call, "result of %s of a type outside the subset", r.fd.Name.Name)
		}
		outs = append(outs, lt)
	}
	if len(outs) == 0 {
		k.fail(call, "call of %s, which has no result", r.fd.Name.Name)
	}
	typ := strings.Join(typs, " → ") + " → Option " + paren(tupleTypeOf(outs), map[bool]int{true: pAtom, false: 0}[len(outs) == 1], pAtom)
	key := r.p.dir + "." + r.fd.Name.Name
	var af *abstractFn
	for _, a := range k.absCalls {
		if a.key == key {
			af = a
		}
	}
	if af == nil {
		af = &abstractFn{key: key, lean: k.fresh(r.fd.Name.Name), typ: typ}
		pos := k.w.fset.Position(r.fd.Pos())
		af.rel, _ = filepath.Rel(k.w.repo, pos.Filename)
		af.line = pos.Line
		af.desc = "not translated (parameters of function type); none = it panics, or a function passed to it does"
		k.absCalls = append(k.absCalls, af)
	} else if af.typ != typ {
		k.fail(call, "calls of %s with different kinds of arguments", r.fd.Name.Name)
	}
	k.noteAbs(af)
	return af.lean + " " + strings.Join(args, " "), outs
}

// ---- package-level tables of int constants: `x := T[i]` / `return T[i]`; out of range is a Go panic (`none`)

func (k *kernel) tableRead(ix *ast.IndexExpr) func() string {
	x, ok := ix.X.(*ast.Ident)
	if !ok || k.lookup(x.Name) != nil {
		return nil
	}
	t := k.p.intTable(x.Name)
	if t == nil {
		return nil
	}
	return func() string {
		i, ip := k.intExpr(ix.Index)
		return "intTable [" + strings.Join(t.vals, ", ") + "] " + paren(i, ip, pAtom)
	}
}

func (k *kernel) bindTable(ind int, s *ast.AssignStmt, ix *ast.IndexExpr, following []ast.Stmt, rest func(ind int)) {
	if len(k.frames) > k.frameBase || !k.partial {
		k.fail(s, "table lookup inside a branch that is merged (or in a function judged total)")
	}
	k.ncall++
	tmp := k.fresh(fmt.Sprintf("call%d", k.ncall))
	k.line(ind, "match %s with", k.tableRead(ix)())
	k.line(ind, "| none => none")
	k.countLeaf()
	k.line(ind, "| some %s =>", tmp)
	k.bindResults(ind+1, s, tmp, []string{"Int"})
	k.stmts(following, ind+1, rest)
}

// ---- index vectors and slices

// `idx := []int{e}` outside the step form: a Lean Int holding element 0
func (k *kernel) indexVector(ind int, id *ast.Ident, rhs ast.Expr) bool {
	c, ok := rhs.(*ast.CompositeLit)
	if !ok || len(c.Elts) != 1 || (k.mode == mKernel && k.clo == nil && !k.idx.constIdx[id.Name]) {
		return false
	}
	at, _ := c.Type.(*ast.ArrayType)
	if at == nil || at.Len != nil || !isIdent(at.Elt, "int") {
		return false
	}
	e, _ := k.intExpr(c.Elts[0])
	v := k.declare(id, vIdxVec)
	k.line(ind, "let %s : Int := %s", v.lean, e)
	return true
}

// `xs[i] = e` of a []float64, `idx[0] = e` of an index vector
func (k *kernel) indexAssign(ind int, s *ast.AssignStmt, ix *ast.IndexExpr) bool {
	x, ok := ix.X.(*ast.Ident)
	if !ok {
		return false
	}
	v := k.lookup(x.Name)
	if v == nil {
		return false
	}
	switch v.kind {
	case vSlice:
		if s.Tok != token.ASSIGN {
			k.fail(s, "assignment operator %s on a slice element", s.Tok)
		}
		k.target(x, s)
		k.w.sliceUse[k.w.current] = true
		i, ip := k.intExpr(ix.Index)
		e, ep := k.num(s.Rhs[0])
		k.use(v)
		k.assigned(v)
		k.line(ind, "let %s : List α := sliceSet %s %s %s", v.lean, v.lean, paren(i, ip, pAtom), paren(e, ep, pAtom))
		return true
	case vIdxVec:
		z, _ := ix.Index.(*ast.BasicLit)
		if z == nil || z.Value != "0" || s.Tok != token.ASSIGN {
			k.fail(s, "assignment to an index vector other than `idx[0] = e`")
		}
		k.target(x, s)
		e, _ := k.intExpr(s.Rhs[0])
		k.assigned(v)
		k.line(ind, "let %s : Int := %s", v.lean, e)
		return true
	}
	return false
}

// Set / Set1 / CopyFrom on a whole series
func (k *kernel) listStmt(ind int, s ast.Stmt, call *ast.CallExpr, sel *ast.SelectorExpr, v *variable) {
	if v.capturedAt {
		k.fail(s, "write to series %s after a function literal has captured it", v.name)
	}
	switch {
	case (sel.Sel.Name == "Set" || sel.Sel.Name == "Set1") && len(call.Args) == 2:
		i := k.listIndex(call, sel.Sel.Name == "Set1")
		e, ep := k.num(call.Args[1])
		k.use(v)
		k.line(ind, "let %s : List α := sliceSet %s %s %s", v.lean, v.lean, i, paren(e, ep, pAtom))
	case sel.Sel.Name == "CopyFrom" && len(call.Args) == 1:
		src, sp, kind := k.expr(call.Args[0])
		if kind != 'l' {
			k.fail(s, "CopyFrom of something other than a series")
		}
		k.use(v)
		k.line(ind, "let %s : List α := copyFrom %s %s", v.lean, v.lean, paren(src, sp, pAtom))
	default:
		k.fail(s, "method %s on a series", sel.Sel.Name)
	}
	v.written = true
	k.assigned(v)
}

// a loop that counts a constant number of times and does not use its counter in the body (the bounded loop of a helper):
// `for i := A; i < B; i++` (`<=`) or `for i := A; i > B; i--` (`>=`) with integer constants A, B — B-A (resp. A-B) iterations,
// whichever way it counts
func (k *kernel) constBounded(s *ast.ForStmt) bool {
	_, ok := k.constTrip(s)
	return ok
}

func (k *kernel) constTrip(s *ast.ForStmt) (int64, bool) {
	iv, from, to, incl, ok := rangeHeader(s)
	down := false
	if !ok {
		iv, from, to, incl, ok = downHeader(s)
		down = true
	}
	if !ok {
		return 0, false
	}
	cint := func(e ast.Expr) (int64, bool) {
		c, ok := k.constEnv().eval(e)
		if !ok || c.typed || c.v.Kind() != constant.Int {
			return 0, false
		}
		return constant.Int64Val(c.v)
	}
	a, ok1 := cint(from)
	b, ok2 := cint(to)
	if !ok1 || !ok2 || a < -1000000 || a > 1000000 || b < -1000000 || b > 1000000 {
		return 0, false
	}
	n := b - a
	if down {
		n = a - b
	}
	if incl {
		n++
	}
	if n < 0 {
		n = 0
	}
	uses := false
	ast.Inspect(s.Body, func(x ast.Node) bool {
		if id, ok := x.(*ast.Ident); ok && id.Name == iv.Name {
			uses = true
		}
		return true
	})
	return n, !uses
}
