package main

import (
	"go/ast"
)

// ---- which code may panic (syntactic): a `panic(…)` statement, a call of a module function / local function literal
// that may panic, or a call of a function that is not translated (abstract: its body is unknown). Slice and series
// indexing is NOT counted: out-of-range accesses are outside the model (the generated definitions are total there).

// the function literals bound to local names in a function body: name ↦ literal (a name bound twice is dropped)
func closureLits(body ast.Node) map[string]*ast.FuncLit {
	m := map[string]*ast.FuncLit{}
	dup := map[string]bool{}
	ast.Inspect(body, func(n ast.Node) bool {
		as, ok := n.(*ast.AssignStmt)
		if !ok || len(as.Lhs) != 1 || len(as.Rhs) != 1 {
			return true
		}
		id, ok1 := as.Lhs[0].(*ast.Ident)
		lit, ok2 := as.Rhs[0].(*ast.FuncLit)
		if ok1 && ok2 {
			if _, seen := m[id.Name]; seen {
				dup[id.Name] = true
			}
			m[id.Name] = lit
		}
		return true
	})
	for n := range dup {
		delete(m, n)
	}
	return m
}

func (k *kernel) nodePartial(n ast.Node) bool {
	return k.w.nodePartial(k, n, k.lits, map[ast.Node]bool{})
}

func (w *world) nodePartial(k *kernel, n ast.Node, lits map[string]*ast.FuncLit, busy map[ast.Node]bool) bool {
	if n == nil || busy[n] {
		return false
	}
	busy[n] = true
	found := false
	ast.Inspect(n, func(x ast.Node) bool {
		if found {
			return false
		}
		switch c := x.(type) {
		case *ast.ForStmt:
			if c.Init == nil && c.Post == nil { // a sub-step loop: rendered with fuel (none = out of fuel)
				found = true
				return false
			}
		case *ast.FuncLit:
			return x == n // a literal is judged where it is called
		case *ast.IndexExpr: // a package-level table of int constants: out of range is a panic
			if id, ok := c.X.(*ast.Ident); ok && k.p.intTable(id.Name) != nil {
				found = true
				return false
			}
		case *ast.CallExpr:
			if k.hoisted[c] != nil { // already bound before the statement
				return false
			}
			if isIdent(c.Fun, "panic") {
				found = true
				return false
			}
			if sel, ok := c.Fun.(*ast.SelectorExpr); ok && sel.Sel.Name == "Get" && len(c.Args) == 1 && !k.whole {
				if a, ok := c.Args[0].(*ast.Ident); ok && k.idx.constIdx[a.Name] { // a table read at a constant index
					found = true
					return false
				}
			}
			if id, ok := c.Fun.(*ast.Ident); ok {
				if lit, ok := lits[id.Name]; ok {
					if w.nodePartial(k, lit, lits, busy) {
						found = true
					}
					return !found
				}
			}
			if r := k.resolveFuncStatic(c.Fun); r != nil {
				if w.funcPartial(k, r, busy) {
					found = true
				}
			}
		}
		return !found
	})
	return found
}

// a module function may panic: its body does, or it is outside the typed subset (then it is an abstract function)
func (w *world) funcPartial(k *kernel, r *funcRef, busy map[ast.Node]bool) bool {
	key := r.p.dir + "." + r.fd.Name.Name
	if v, ok := w.partialMemo[key]; ok {
		return v
	}
	if r.fd.Body == nil {
		return true
	}
	if printOnly(w, r, 0) {
		return false
	}
	if k.hasErrResult(r) { // `v, err := F(…); if err != nil { panic(err) }`: the panic statement is found by itself
		return false
	}
	if _, _, ok := k.typedSignature(r); !ok {
		if k.inlinable(r) { // a procedure that is rendered in place: judged by its body
			if busy[r.fd.Body] {
				return false
			}
			sub := &kernel{w: w, p: r.p, file: r.f, fn: r.fd, imp: imports(r.f), sc: &scope{vars: map[string]*variable{}}}
			res := w.nodePartial(sub, r.fd.Body, closureLits(r.fd.Body), busy)
			w.partialMemo[key] = res
			return res
		}
		if k.isKernelFunc(r) {
			return false // delegation: judged by the translation of the callee
		}
		w.partialMemo[key] = true
		return true
	}
	sub := &kernel{w: w, p: r.p, file: r.f, fn: r.fd, imp: imports(r.f), sc: &scope{vars: map[string]*variable{}}}
	res := w.nodePartial(sub, r.fd.Body, closureLits(r.fd.Body), busy)
	if !busy[r.fd.Body] || true {
		w.partialMemo[key] = res
	}
	return res
}

// like resolveFunc, for the syntactic scan (local variables of the scanned function are not known: a local that
// shadows a package-level function makes the scan err on the side of "may panic")
func (k *kernel) resolveFuncStatic(fun ast.Expr) *funcRef {
	switch f := fun.(type) {
	case *ast.Ident:
		if k.sc != nil {
			if v := k.lookup(f.Name); v != nil {
				if v.kind == vFunc {
					return v.fn
				}
				return nil
			}
		}
		if fd, ok := k.p.funcs[f.Name]; ok {
			return &funcRef{k.p, k.p.ffile[f.Name], fd}
		}
	case *ast.SelectorExpr:
		return k.resolveFunc(fun)
	}
	return nil
}
