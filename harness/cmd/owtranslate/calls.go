package main

import (
	"fmt"
	"go/ast"
	"go/token"
	"path/filepath"
	"sort"
	"strings"
)

// ---- references to variables: live-in marking (pre-loop value read by the loop) and capture by a function literal

func (k *kernel) use(v *variable) {
	v.used = true
	if k.mode == mKernel && !k.inLoop && !k.inFinal && v.param && v.state {
		k.preReadsStateParam = true // the value on entry of a parameter that the loop carries: not available inside step
	}
	if k.mode == mKernel && !v.inLoop && !v.loopLocal && (!v.param || v.reassigned) && !v.state && (k.inLoop || k.inFinal) && k.liveIn != nil {
		k.liveIn[v] = true
	}
	for c := k.clo; c != nil; c = c.outer {
		if v.fdepth >= c.fdepth || v.kind == vClosure {
			break
		}
		if !c.capSeen[v] {
			c.capSeen[v] = true
			c.caps = append(c.caps, v)
		}
		if !c.loopBody {
			v.capturedAt = true
		}
	}
}

// ---- typed signatures: float64 / int / bool / []float64 parameters and results

func (k *kernel) typedSignature(r *funcRef) (ins, outs []string, ok bool) {
	if r == nil || r.fd.Body == nil || r.fd.Type.TypeParams != nil {
		return nil, nil, false
	}
	imp := imports(r.f)
	pns, pts := paramFields(r.fd)
	for i, t := range pts {
		if st, ptr := k.w.structOf(r.p, t); st != nil { // a struct parameter (a method's receiver): one parameter per field
			if ptr && (pns[i] == nil || assignsThrough(r.fd, pns[i].Name)) {
				return nil, nil, false
			}
			ins = append(ins, structMarker(st))
			continue
		}
		if k.isSeriesType(t, imp) && pns[i] != nil && passedWholeOnly(r.fd, pns[i].Name) { // a series the function only hands on: σ
			ins = append(ins, "σ")
			continue
		}
		lt := k.leanType(t, imp, false)
		if lt == "" {
			return nil, nil, false
		}
		ins = append(ins, lt)
	}
	gouts, ok := k.goResultTypes(r)
	if !ok {
		return nil, nil, false
	}
	outs = k.w.flatTypes(gouts)
	for range k.w.writtenParams(r) { // the final values of the slice parameters the function writes into (inplace.go)
		outs = append(outs, "List α")
	}
	return ins, outs, len(outs) > 0
}

// an argument of the given Lean type, as an atom
func (k *kernel) argOf(a ast.Expr, typ string) string {
	if st := k.w.structByMarker(typ); st != nil {
		var atoms []string
		for _, s := range k.structValues(a, st) {
			atoms = append(atoms, paren(s, map[bool]int{true: pAtom, false: 0}[isAtom(s)], pAtom))
		}
		return strings.Join(atoms, " ")
	}
	switch typ {
	case "σ":
		if id, ok := unparen(a).(*ast.Ident); ok {
			if v := k.lookup(id.Name); v != nil && v.kind == vSeries {
				for _, t := range k.tables {
					if t == v {
						return v.lean
					}
				}
			}
		}
		k.fail(a, "argument that is not a series passed whole where one is expected")
	case "Int":
		s, p := k.intExpr(a)
		return paren(s, p, pAtom)
	case "Bool":
		s, p := k.boolean(a)
		return paren(s, p, pAtom)
	case "List α":
		s, p, kind := k.expr(a)
		if kind != 'l' {
			k.fail(a, "argument that is not a []float64 / whole series where one is expected")
		}
		return paren(s, p, pAtom)
	}
	s, p := k.num(a)
	return paren(s, p, pAtom)
}

// a call of a helper function of the module, of a bound function-valued parameter or of a local function literal:
// `name a b c`, the Lean types of its results. A callee that may panic (result `Option …`) is accepted only where the
// caller has said so (statement level: `x := f(…)`, `a, b = f(…)`, `return f(…)`).
func (k *kernel) callTyped(e *ast.CallExpr) (string, []string, bool) {
	allow, allowW := k.allowPartial, k.allowWrites
	k.allowPartial, k.allowWrites = false, false
	if c := k.closureOf(e.Fun); c != nil {
		if c.partial && !allow {
			k.fail(e, "call of %s, which may panic, inside an expression", c.name)
		}
		if len(e.Args) != len(c.ins) || e.Ellipsis.IsValid() {
			k.fail(e, "call of %s with %d arguments", c.name, len(e.Args))
		}
		args := []string{c.lean + explicitAlpha(c.h, c.caps)}
		for _, a := range c.absFns {
			k.noteAbs(a)
			args = append(args, a.lean)
		}
		args = append(args, k.closureCaps(c)...)
		for i, a := range e.Args {
			args = append(args, k.argOf(a, c.ins[i]))
		}
		k.lastPartial = c.partial
		return strings.Join(args, " "), c.outs, true
	}
	r := k.resolveFunc(e.Fun)
	if r == nil {
		return "", nil, false
	}
	if _, _, ok := k.typedSignature(r); !ok {
		return "", nil, false
	}
	if len(k.w.writtenParams(r)) > 0 && !allowW {
		k.fail(e, "call of %s, which writes into a slice argument, inside an expression", r.fd.Name.Name)
	}
	h := k.helper(e, r)
	goArgs := callArgs(e, r)
	if len(goArgs) != h.nin || e.Ellipsis.IsValid() {
		k.fail(e, "call of %s with %d arguments", h.lean, len(e.Args))
	}
	if h.partial && !allow {
		k.fail(e, "call of %s, which may panic, inside an expression", h.lean)
	}
	args := []string{h.lean + explicitAlpha(h, nil)}
	for _, a := range h.absFns {
		args = append(args, k.needAbs(a).lean)
	}
	for i, a := range goArgs {
		if h.drop != nil && h.drop[i] {
			continue // an int parameter the callee does not use
		}
		args = append(args, k.argOf(a, h.ins[i]))
	}
	k.lastPartial = h.partial
	return strings.Join(args, " "), h.outs, true
}

// a definition none of whose parameters and results mentions α (int / bool helpers): α is given explicitly at the call
func explicitAlpha(h *helperDef, caps []*variable) string {
	if h == nil || len(h.absFns) > 0 {
		return ""
	}
	for i, t := range h.ins {
		if (h.drop == nil || !h.drop[i]) && (t == "α" || t == "List α" || strings.HasPrefix(t, "{")) {
			return ""
		}
	}
	for _, t := range h.outs {
		if t == "α" || t == "List α" {
			return ""
		}
	}
	for _, v := range caps {
		if t := v.typ(); t == "α" || t == "List α" {
			return ""
		}
	}
	return " (α := α)"
}

// an abstract function is referenced here: every enclosing function literal takes it as a parameter
func (k *kernel) noteAbs(a *abstractFn) {
	for c := k.clo; c != nil; c = c.outer {
		seen := false
		for _, b := range c.absFns {
			seen = seen || b == a
		}
		if !seen {
			c.absFns = append(c.absFns, a)
		}
	}
}

// an abstract function of a callee is an abstract function of the caller
func (k *kernel) needAbs(a *abstractFn) *abstractFn {
	for _, b := range k.absCalls {
		if b.key == a.key {
			k.noteAbs(b)
			return b
		}
	}
	b := &abstractFn{key: a.key, lean: k.fresh(a.lean), kinds: a.kinds, typ: a.typ, rel: a.rel, line: a.line, desc: a.desc}
	k.absCalls = append(k.absCalls, b)
	k.noteAbs(b)
	return b
}

// `xs[i]` of a []float64 (out of range is a Go panic: the generated definition returns the default value there)
func (k *kernel) sliceRead(e *ast.IndexExpr) (string, bool) {
	x, ok := e.X.(*ast.Ident)
	if !ok {
		return "", false
	}
	v := k.lookup(x.Name)
	if v == nil || v.kind != vSlice {
		return "", false
	}
	k.use(v)
	k.w.sliceUse[k.rootName()] = true
	i, ip := k.intExpr(e.Index)
	return "sliceGet " + v.lean + " " + paren(i, ip, pAtom), true
}

// the index argument of Get / Set on a whole series: an index vector `[]int{e}` (its current element 0), or an int for Get1 / Set1
func (k *kernel) listIndex(call *ast.CallExpr, one bool) string {
	if one {
		s, p := k.intExpr(call.Args[0])
		return paren(s, p, pAtom)
	}
	id, ok := call.Args[0].(*ast.Ident)
	if ok {
		if v := k.lookup(id.Name); v != nil && v.kind == vIdxVec {
			k.use(v)
			return v.lean
		}
	}
	k.fail(call, "series access at something other than a one-element index vector")
	return ""
}

// ---- function literals bound to a local name: lambda-lifted to a definition of the namespace. The captured variables
// (in declaration order) become leading parameters; a captured variable may not be assigned after the literal (Go
// captures by reference, the definition by value).

type closureDef struct {
	loopBody   bool          // the lifted body / condition of a sub-step loop (captures the current values: no by-reference issue)
	fuels      []string      // fuel parameters of sub-step loops inside
	absFns     []*abstractFn // abstract functions reached from the body: leading parameters
	name, lean string
	ins, outs  []string
	partial    bool
	caps       []*variable
	capSeen    map[*variable]bool
	fdepth     int
	outer      *closureDef
	h          *helperDef
}

func (k *kernel) closureOf(fun ast.Expr) *closureDef {
	id, ok := fun.(*ast.Ident)
	if !ok {
		return nil
	}
	if v := k.lookup(id.Name); v != nil && v.kind == vClosure {
		return v.clo
	}
	return nil
}

// the captured variables of a closure as arguments at a use site (each use is a use of the captured variable)
func (k *kernel) closureCaps(c *closureDef) []string {
	var args []string
	for _, v := range c.caps {
		k.use(v)
		args = append(args, v.lean)
	}
	return args
}

type fnCtx struct {
	mode                int
	results             []*variable
	nres                int
	resTypes            []string
	partial             bool
	frames              []*frame
	frameBase, loopNest int
	inLoop              bool
	out                 *strings.Builder
	fdepth              int
	clo                 *closureDef
	loopVar             *variable
	sc                  *scope
}

func (k *kernel) saveCtx() fnCtx {
	return fnCtx{k.mode, k.results, k.nres, k.resTypes, k.partial, k.frames, k.frameBase, k.loopNest, k.inLoop, k.out, k.fdepth, k.clo,
		k.loopVar, k.sc}
}

func (k *kernel) restoreCtx(c fnCtx) {
	k.mode, k.results, k.nres, k.resTypes, k.partial, k.frames, k.frameBase, k.loopNest, k.inLoop, k.out, k.fdepth, k.clo, k.loopVar, k.sc =
		c.mode, c.results, c.nres, c.resTypes, c.partial, c.frames, c.frameBase, c.loopNest, c.inLoop, c.out, c.fdepth, c.clo, c.loopVar, c.sc
}

// `name := func(params) results { body }`
func (k *kernel) closure(id *ast.Ident, lit *ast.FuncLit) {
	if len(k.frames) > 0 {
		k.fail(lit, "function literal inside a branch that is merged")
	}
	c := &closureDef{name: id.Name, capSeen: map[*variable]bool{}, fdepth: k.fdepth + 1, outer: k.clo}
	c.partial = k.nodePartial(lit.Body)
	saved := k.saveCtx()
	wasKernelPre := k.mode == mKernel && !k.inLoop
	k.mode, k.results, k.nres, k.resTypes, k.partial, k.frames, k.frameBase, k.loopNest, k.inLoop = mHelper, nil, 0, nil, c.partial, nil, 0, 0, true
	k.fdepth, k.clo, k.loopVar = c.fdepth, c, nil
	var body strings.Builder
	k.out = &body
	k.push()
	pnames, ptypes := fields(lit.Type.Params)
	var params []*variable
	for i, n := range pnames {
		lt := k.leanType(ptypes[i], k.imp, true)
		if n == nil || lt == "" {
			k.fail(lit, "function literal with an unnamed parameter or a parameter type outside the subset")
		}
		c.ins = append(c.ins, lt)
		if n.Name == "_" {
			params = append(params, &variable{kind: kindOfType(lt), name: "_", lean: k.fresh("unused")})
			continue
		}
		kind := kindOfType(lt)
		if k.isSeriesType(ptypes[i], k.imp) {
			kind = vList
		}
		v := k.declare(n, kind)
		v.param = true
		params = append(params, v)
	}
	rnames, rtypes := fields(lit.Type.Results)
	if len(rnames) == 0 {
		k.fail(lit, "function literal without results")
	}
	for i, n := range rnames {
		lt := k.leanType(rtypes[i], k.imp, false)
		if lt == "" {
			k.fail(lit, "function literal with a result type outside the subset")
		}
		c.outs = append(c.outs, lt)
		k.nres++
		k.resTypes = append(k.resTypes, lt)
		if n != nil {
			v := k.declare(n, kindOfType(lt))
			k.results = append(k.results, v)
			k.line(2, "let %s : %s := %s", v.lean, lt, zeroOf(lt))
		}
	}
	k.stmts(lit.Body.List, 2, func(ind int) {
		if len(k.results) != k.nres {
			k.fail(lit, "missing return")
		}
		k.countLeaf()
		k.line(ind, "%s", k.wrap(tupleOf(k.results)))
	})
	k.restoreCtx(saved)
	// the definition
	sort.SliceStable(c.caps, func(i, j int) bool { return declLess(c.caps[i], c.caps[j]) })
	name := id.Name
	if k.helperOf != "" {
		name = k.helperOf + "_" + id.Name
	}
	name = fresh0(name)
	for i := 0; reservedDefs[name] || k.hs.names[name] || k.used[name]; i++ {
		name = fmt.Sprintf("%s_fn%s", strings.Trim(name, "«»"), strings.Repeat("'", i))
	}
	k.hs.names[name] = true
	k.used[name] = true
	c.lean = name
	h := &helperDef{key: fmt.Sprintf("closure@%d", lit.Pos()), lean: name, nin: len(c.ins), nout: len(c.outs), ins: c.ins, outs: c.outs, partial: c.partial}
	pos := k.w.fset.Position(lit.Pos())
	h.rel, _ = filepath.Rel(k.w.repo, pos.Filename)
	h.line = pos.Line
	var b strings.Builder
	fmt.Fprintf(&b, "/-- %s:%d  function literal `%s`", h.rel, h.line, id.Name)
	if len(c.caps) > 0 {
		fmt.Fprintf(&b, " (captured, not assigned afterwards: %s)", strings.Join(names(c.caps), " "))
	}
	b.WriteString(" -/\n")
	ret := tupleTypeOf(c.outs)
	if c.partial {
		ret = "Option " + paren(ret, map[bool]int{true: pAtom, false: 0}[len(c.outs) == 1], pAtom)
	}
	text := body.String()
	// the body was rendered two levels deep (as inside a `let`): a definition's body is one level deep
	var lines []string
	for _, l := range strings.Split(strings.TrimRight(text, "\n"), "\n") {
		lines = append(lines, strings.TrimPrefix(l, "  "))
	}
	abs := ""
	for _, a := range c.absFns {
		if a.typ == "" {
			k.fail(lit, "function literal that reaches %s, an abstract function over an abstract series type", a.lean)
		}
		abs += fmt.Sprintf(" (%s : %s)", a.lean, a.typ)
	}
	h.absFns = c.absFns
	fmt.Fprintf(&b, "@[gen_unfold] def %s {α : Type} [Num α]%s%s%s : %s :=\n%s\n", name, abs, binderVs(c.caps), binderVs(params), ret, strings.Join(lines, "\n"))
	h.text = b.String()
	c.h = h
	k.hs.order = append(k.hs.order, h)
	k.hs.by[h.key] = h
	v := k.declare(id, vClosure)
	v.clo = c
	v.fdepth = k.fdepth
	_ = wasKernelPre
	_ = token.NoPos
}

// the kernel (table entry) this function is translated for
func (k *kernel) rootName() string { return k.w.current }
