package hdf5

import (
	"errors"
	"math/bits"
)

// SpaceClass is the class of a dataspace.
type SpaceClass int

const (
	S_NO_CLASS SpaceClass = -1
	S_SCALAR   SpaceClass = 0
	S_SIMPLE   SpaceClass = 1
	S_NULL     SpaceClass = 2
)

type selKind int

const (
	selAll selKind = iota
	selNone
	selHyper
)

// Dataspace is a simple dataspace (extent dims) with one selection.
type Dataspace struct {
	Identifier
	dims    []uint
	maxdims []uint
	kind    selKind
	// regular hyperslab (kind == selHyper), one entry per dimension
	offset, stride, count, block []uint
}

func newSpace(dims, maxdims []uint) *Dataspace {
	return &Dataspace{Identifier: newID(), dims: append([]uint{}, dims...), maxdims: append([]uint{}, maxdims...)}
}

// CreateSimpleDataspace creates a simple dataspace (H5Screate_simple); maxDims nil means "same as dims".
// A dimension may be 0. The first lines reproduce gonum's wrapper, which takes `&dims[0]` of a non-nil slice.
func CreateSimpleDataspace(dims, maxDims []uint) (*Dataspace, error) {
	rank := 0
	if dims != nil {
		rank = len(dims)
		_ = dims[0] // gonum: c_dims = &dims[0] (panics on an empty non-nil slice)
	}
	if maxDims != nil {
		rank = len(maxDims)
		_ = maxDims[0]
	}
	if len(dims) != len(maxDims) && (dims != nil && maxDims != nil) {
		return nil, errors.New("lengths of dims and maxDims do not match")
	}
	call("H5Screate_simple", false)
	if rank > 32 || (rank > 0 && dims == nil) {
		return nil, errors.New("failed to create dataspace")
	}
	if maxDims == nil {
		maxDims = dims
	}
	for i := range dims {
		if maxDims[i] < dims[i] {
			return nil, errors.New("failed to create dataspace")
		}
	}
	return newSpace(dims, maxDims), nil
}

// Copy returns a copy of the dataspace with its selection (H5Scopy).
func (s *Dataspace) Copy() (*Dataspace, error) {
	call("H5Scopy", false)
	c := newSpace(s.dims, s.maxdims)
	c.kind = s.kind
	c.offset = append([]uint{}, s.offset...)
	c.stride = append([]uint{}, s.stride...)
	c.count = append([]uint{}, s.count...)
	c.block = append([]uint{}, s.block...)
	return c, nil
}

// Close releases the dataspace (H5Sclose).
func (s *Dataspace) Close() error { return s.closeWith("H5Sclose", false, nil) }

// IsSimple reports whether the dataspace is simple (always, here).
func (s *Dataspace) IsSimple() bool {
	call("H5Sis_simple", false)
	return true
}

// SimpleExtentNDims returns the rank (H5Sget_simple_extent_ndims).
func (s *Dataspace) SimpleExtentNDims() int {
	call("H5Sget_simple_extent_ndims", false)
	return len(s.dims)
}

// SimpleExtentNPoints returns the number of elements of the extent.
func (s *Dataspace) SimpleExtentNPoints() int {
	call("H5Sget_simple_extent_npoints", false)
	n := 1
	for _, d := range s.dims {
		n *= int(d)
	}
	return n
}

// SimpleExtentDims returns the extent and the maximum extent (H5Sget_simple_extent_dims).
// gonum takes `&dims[0]`, so a rank-0 dataspace panics there.
func (s *Dataspace) SimpleExtentDims() (dims, maxdims []uint, err error) {
	rank := s.SimpleExtentNDims()
	dims = make([]uint, rank)
	maxdims = make([]uint, rank)
	_, _ = dims[0], maxdims[0]
	call("H5Sget_simple_extent_dims", false)
	copy(dims, s.dims)
	copy(maxdims, s.maxdims)
	return
}

// SelectAll selects the whole extent (H5Sselect_all).
func (s *Dataspace) SelectAll() error {
	call("H5Sselect_all", false)
	s.kind = selAll
	return nil
}

// SelectHyperslab replaces the selection by one regular hyperslab (H5Sselect_hyperslab with H5S_SELECT_SET):
// along dimension u the coordinates offset[u] + k*stride[u] + b for k < count[u], b < block[u].
// nil stride / block mean all ones. The selection is NOT checked against the extent here (HDF5 checks at transfer).
func (s *Dataspace) SelectHyperslab(offset, stride, count, block []uint) error {
	rank := len(offset)
	if rank == 0 {
		// gonum: H5Soffset_simple(id, NULL) — resets the selection offset, nothing else
		call("H5Soffset_simple", false)
		return nil
	}
	if rank != s.SimpleExtentNDims() {
		return errors.New("size of offset does not match extent")
	}
	_ = count[0] // gonum: &count[0]
	if stride != nil {
		_ = stride[0]
	}
	if block != nil {
		_ = block[0]
	}
	call("H5Sselect_hyperslab", false)
	if len(count) < rank || (stride != nil && len(stride) < rank) || (block != nil && len(block) < rank) {
		// the C library would read past the end of the Go slice
		return errf("H5Sselect_hyperslab", "argument shorter than the rank")
	}
	st := make([]uint, rank)
	bl := make([]uint, rank)
	for u := 0; u < rank; u++ {
		st[u], bl[u] = 1, 1
		if stride != nil {
			st[u] = stride[u]
		}
		if block != nil {
			bl[u] = block[u]
		}
		if st[u] == 0 {
			return errf("H5Sselect_hyperslab", "invalid stride==0 value")
		}
		if count[u] > 1 && st[u] < bl[u] {
			return errf("H5Sselect_hyperslab", "hyperslab blocks overlap")
		}
	}
	for u := 0; u < rank; u++ {
		if count[u] == 0 || bl[u] == 0 {
			s.kind = selNone
			s.offset, s.stride, s.count, s.block = nil, nil, nil, nil
			return nil
		}
	}
	s.kind = selHyper
	s.offset = append([]uint{}, offset...)
	s.stride = st
	s.count = append([]uint{}, count[:rank]...)
	s.block = bl
	return nil
}

// dimWithin: do all coordinates offset + k*stride + b (k < count, b < block; count, block ≥ 1) lie below extent?
// Written without any arithmetic that can wrap around.
func dimWithin(offset, stride, count, block, extent uint) bool {
	if offset >= extent || block > extent-offset {
		return false
	}
	if count == 1 {
		return true
	}
	room := extent - offset - block // how far the last block may start after the first
	hi, lo := bits.Mul64(uint64(count-1), uint64(stride))
	return hi == 0 && lo <= uint64(room)
}

// valid reports whether the selection lies within the extent (H5S_SELECT_VALID).
func (s *Dataspace) valid() bool {
	if s.kind != selHyper {
		return true
	}
	for u := range s.dims {
		if !dimWithin(s.offset[u], s.stride[u], s.count[u], s.block[u], s.dims[u]) {
			return false
		}
	}
	return true
}

// npoints returns the number of selected elements (H5Sget_select_npoints); ok=false when it does not fit an int.
func (s *Dataspace) npoints() (n int, ok bool) {
	switch s.kind {
	case selNone:
		return 0, true
	case selAll:
		sz, ok := byteSize(s.dims, 1)
		return sz, ok
	}
	per := make([]uint, len(s.dims))
	for u := range s.dims {
		hi, lo := bits.Mul64(uint64(s.count[u]), uint64(s.block[u]))
		if hi != 0 {
			return 0, false
		}
		per[u] = uint(lo)
	}
	return byteSize(per, 1)
}

// byteSize = product(dims) * elemSize with overflow detection (bounded to 2^40 to keep the stub's files sane).
func byteSize(dims []uint, elemSize uint) (int, bool) {
	for _, d := range dims {
		if d == 0 {
			return 0, true
		}
	}
	n := uint64(elemSize)
	for _, d := range dims {
		hi, lo := bits.Mul64(n, uint64(d))
		if hi != 0 || lo > 1<<40 {
			return 0, false
		}
		n = lo
	}
	return int(n), true
}

// linear returns, for a VALID selection, the row-major linear element index (within the extent) of every selected
// element, in the order HDF5 traverses a selection: increasing coordinates, last dimension fastest.
func (s *Dataspace) linear() []int {
	rank := len(s.dims)
	if s.kind == selNone {
		return nil
	}
	// per-dimension coordinate lists
	per := make([][]uint, rank)
	for u := 0; u < rank; u++ {
		if s.kind == selAll {
			per[u] = make([]uint, s.dims[u])
			for i := range per[u] {
				per[u][i] = uint(i)
			}
			continue
		}
		for k := uint(0); k < s.count[u]; k++ {
			for b := uint(0); b < s.block[u]; b++ {
				per[u] = append(per[u], s.offset[u]+k*s.stride[u]+b)
			}
		}
	}
	total := 1
	for u := 0; u < rank; u++ {
		total *= len(per[u])
	}
	out := make([]int, 0, total)
	if total == 0 {
		return out
	}
	pos := make([]int, rank)
	for {
		lin := 0
		for u := 0; u < rank; u++ {
			lin = lin*int(s.dims[u]) + int(per[u][pos[u]])
		}
		out = append(out, lin)
		u := rank - 1
		for ; u >= 0; u-- {
			pos[u]++
			if pos[u] < len(per[u]) {
				break
			}
			pos[u] = 0
		}
		if u < 0 {
			return out
		}
	}
}
