package hdf5

import (
	"compress/zlib"
	"fmt"
	"reflect"
)

// TypeClass is the class of a datatype (values of H5T_class_t).
type TypeClass int

const (
	T_NO_CLASS  TypeClass = -1
	T_INTEGER   TypeClass = 0
	T_FLOAT     TypeClass = 1
	T_TIME      TypeClass = 2
	T_STRING    TypeClass = 3
	T_BITFIELD  TypeClass = 4
	T_OPAQUE    TypeClass = 5
	T_COMPOUND  TypeClass = 6
	T_REFERENCE TypeClass = 7
	T_ENUM      TypeClass = 8
	T_VLEN      TypeClass = 9
	T_ARRAY     TypeClass = 10
	T_NCLASSES  TypeClass = 11
)

// TypeDesc describes a stored datatype: class, element size in bytes, signedness of integers.
type TypeDesc struct {
	Class  TypeClass
	Size   uint
	Signed bool
}

// Datatype is a datatype handle.
type Datatype struct {
	Identifier
	d TypeDesc
}

func predefined(c TypeClass, size uint, signed bool) *Datatype {
	return &Datatype{Identifier: newID(), d: TypeDesc{c, size, signed}}
}

// Predefined native types with the sizes of the C types on LP64 Linux (int = 4 bytes, long = 8 bytes).
var (
	T_NATIVE_INT8   = predefined(T_INTEGER, 1, true)
	T_NATIVE_INT16  = predefined(T_INTEGER, 2, true)
	T_NATIVE_INT32  = predefined(T_INTEGER, 4, true)
	T_NATIVE_INT64  = predefined(T_INTEGER, 8, true)
	T_NATIVE_UINT8  = predefined(T_INTEGER, 1, false)
	T_NATIVE_UINT16 = predefined(T_INTEGER, 2, false)
	T_NATIVE_UINT32 = predefined(T_INTEGER, 4, false)
	T_NATIVE_UINT64 = predefined(T_INTEGER, 8, false)
	T_NATIVE_INT    = predefined(T_INTEGER, 4, true)  // C int
	T_NATIVE_UINT   = predefined(T_INTEGER, 4, false) // C unsigned
	T_NATIVE_LONG   = predefined(T_INTEGER, 8, true)
	T_NATIVE_ULONG  = predefined(T_INTEGER, 8, false)
	T_NATIVE_FLOAT  = predefined(T_FLOAT, 4, true)
	T_NATIVE_DOUBLE = predefined(T_FLOAT, 8, true)
	T_C_S1          = predefined(T_STRING, 1, false) // one-character string; Copy + SetSize(n) gives a fixed-length string
)

// the Go type gonum reports for a class (its table: every integer is `int`, every float `float32`)
var typeClassToGoType = map[TypeClass]reflect.Type{
	T_INTEGER: reflect.TypeOf(int(0)),
	T_FLOAT:   reflect.TypeOf(float32(0)),
	T_STRING:  reflect.TypeOf(""),
}

// NewDatatypeFromValue is NewDataTypeFromType(reflect.TypeOf(v)).
func NewDatatypeFromValue(v interface{}) (*Datatype, error) {
	return NewDataTypeFromType(reflect.TypeOf(v))
}

// NewDataTypeFromType maps a Go type to a native HDF5 type exactly as gonum does: note Go int / uint
// (8 bytes on amd64) map to H5T_NATIVE_INT / H5T_NATIVE_UINT (4 bytes).
func NewDataTypeFromType(t reflect.Type) (*Datatype, error) {
	var base *Datatype
	switch t.Kind() {
	case reflect.Int:
		base = T_NATIVE_INT
	case reflect.Int8:
		base = T_NATIVE_INT8
	case reflect.Int16:
		base = T_NATIVE_INT16
	case reflect.Int32:
		base = T_NATIVE_INT32
	case reflect.Int64:
		base = T_NATIVE_INT64
	case reflect.Uint:
		base = T_NATIVE_UINT
	case reflect.Uint8:
		base = T_NATIVE_UINT8
	case reflect.Uint16:
		base = T_NATIVE_UINT16
	case reflect.Uint32:
		base = T_NATIVE_UINT32
	case reflect.Uint64:
		base = T_NATIVE_UINT64
	case reflect.Float32:
		base = T_NATIVE_FLOAT
	case reflect.Float64:
		base = T_NATIVE_DOUBLE
	case reflect.Ptr:
		return NewDataTypeFromType(t.Elem())
	default:
		return nil, fmt.Errorf("hdf5stub: Go type %v is not supported (strings, bools, arrays, slices, structs are not modelled)", t)
	}
	return base.Copy()
}

// CreateDatatype creates a fixed-length string type of the given size (H5Tcreate); other classes are not modelled.
func CreateDatatype(class TypeClass, size int) (*Datatype, error) {
	if class != T_STRING || size <= 0 {
		return nil, fmt.Errorf("hdf5stub: only CreateDatatype(T_STRING, size>0) is modelled, got %v, %d", class, size)
	}
	call("H5Tcreate", false)
	return &Datatype{Identifier: newID(), d: TypeDesc{T_STRING, uint(size), false}}, nil
}

// Copy copies a datatype (H5Tcopy).
func (t *Datatype) Copy() (*Datatype, error) {
	call("H5Tcopy", false)
	return &Datatype{Identifier: newID(), d: t.d}, nil
}

// Close releases the datatype handle (H5Tclose).
func (t *Datatype) Close() error { return t.closeWith("H5Tclose", false, nil) }

// Class returns the class (H5Tget_class).
func (t *Datatype) Class() TypeClass {
	call("H5Tget_class", false)
	return t.d.Class
}

// Size returns the element size in bytes (H5Tget_size).
func (t *Datatype) Size() uint {
	call("H5Tget_size", false)
	return t.d.Size
}

// SetSize sets the length of a fixed-length string type (H5Tset_size).
func (t *Datatype) SetSize(sz int) error {
	call("H5Tset_size", false)
	if t.d.Class != T_STRING || sz <= 0 {
		return errf("H5Tset_size", "only the size of a string type can be set (to a positive value)")
	}
	t.d.Size = uint(sz)
	return nil
}

// GoType returns gonum's Go type for the class of t.
func (t *Datatype) GoType() reflect.Type { return typeClassToGoType[t.Class()] }

// Equal compares two datatypes (H5Tequal).
func (t *Datatype) Equal(o *Datatype) bool {
	call("H5Tequal", false)
	return t.d == o.d
}

// ---- property lists (inert) ---------------------------------------------------------------------------------

// Compression levels (gonum re-exports zlib's).
const (
	NoCompression      = zlib.NoCompression
	BestSpeed          = zlib.BestSpeed
	BestCompression    = zlib.BestCompression
	DefaultCompression = zlib.DefaultCompression
)

// PropType is a property list class.
type PropType int

// PropList is a property list; the stub records nothing.
type PropList struct {
	Identifier
}

var (
	P_DEFAULT        *PropList = &PropList{}
	P_DATASET_CREATE PropType  = 1
	P_DATASET_ACCESS PropType  = 2
)

// NewPropList creates a property list (H5Pcreate).
func NewPropList(cls PropType) (*PropList, error) {
	call("H5Pcreate", false)
	return &PropList{newID()}, nil
}

// Close releases the property list (H5Pclose).
func (p *PropList) Close() error { return p.closeWith("H5Pclose", false, nil) }

// SetChunk is accepted and ignored (H5Pset_chunk).
func (p *PropList) SetChunk(dims []uint) error {
	if len(dims) <= 0 {
		return fmt.Errorf("number of dimensions must be same size as the rank of the dataset, but zero received")
	}
	call("H5Pset_chunk", false)
	return nil
}

// SetDeflate is accepted and ignored (H5Pset_deflate).
func (p *PropList) SetDeflate(level int) error {
	call("H5Pset_deflate", false)
	return nil
}
