package hdf5

import (
	"fmt"
	"sync/atomic"
)

// Hook, when non-nil, is called at the start of every library call: op is the name of the libhdf5 function the
// real wrapper would call, mutating says whether the call can change a file (create/write/flush/close of a file opened
// for writing, open for writing). libhdf5 is not thread-safe: a caller must hold its lock at every call, exclusively
// at the mutating ones.
var Hook func(op string, mutating bool)

func call(op string, mutating bool) {
	if h := Hook; h != nil {
		h(op, mutating)
	}
}

// Error is what the stub returns where libhdf5 returns a negative status.
type Error struct {
	Op  string // libhdf5 function
	Msg string
}

func (e *Error) Error() string { return "hdf5stub: " + e.Op + ": " + e.Msg }

func errf(op, format string, a ...interface{}) error {
	return &Error{Op: op, Msg: fmt.Sprintf(format, a...)}
}

// DisplayErrors switches libhdf5's automatic error printing (nothing to do here).
func DisplayErrors(on bool) error {
	call("H5Eset_auto", false)
	return nil
}

// Identifier mirrors gonum's handle wrapper: id is non-zero while the handle is open.
type Identifier struct {
	id int64
}

var lastID int64

func newID() Identifier { return Identifier{atomic.AddInt64(&lastID, 1)} }

// ID returns the handle number (0 after Close).
func (i Identifier) ID() int64 { return i.id }

// closeWith mirrors gonum: closing a closed handle is a no-op that does not reach the library.
func (i *Identifier) closeWith(op string, mutating bool, fn func() error) error {
	if i.id == 0 {
		return nil
	}
	call(op, mutating)
	var err error
	if fn != nil {
		err = fn()
	}
	i.id = 0
	return err
}

// Version of the modelled library (informational).
type Version struct {
	Major, Minor, Release uint
}

func (v Version) String() string { return fmt.Sprintf("%d.%d.%d", v.Major, v.Minor, v.Release) }

// LibVersion reports the HDF5 release whose documented semantics the stub follows.
func LibVersion() (Version, error) {
	call("H5get_libversion", false)
	return Version{1, 10, 0}, nil
}
