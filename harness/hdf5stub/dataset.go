package hdf5

import (
	"fmt"
	"reflect"
	"unsafe"
)

// Dataset is an open dataset.
type Dataset struct {
	Identifier
	fs   *fileState
	node *Node
}

// Close closes the dataset handle (H5Dclose).
func (s *Dataset) Close() error {
	return s.closeWith("H5Dclose", s.fs != nil && s.fs.writable, nil)
}

// Space returns a copy of the dataset's dataspace with everything selected (H5Dget_space).
func (s *Dataset) Space() *Dataspace {
	call("H5Dget_space", false)
	return newSpace(s.node.Dims, s.node.Dims)
}

// Datatype returns a copy of the dataset's datatype (H5Dget_type).
func (s *Dataset) Datatype() (*Datatype, error) {
	call("H5Dget_type", false)
	return &Datatype{Identifier: newID(), d: s.node.Type}, nil
}

// plain reports whether values of type t contain no pointers (so that their memory is their value).
func plain(t reflect.Type) bool {
	switch t.Kind() {
	case reflect.Int, reflect.Int8, reflect.Int16, reflect.Int32, reflect.Int64,
		reflect.Uint, reflect.Uint8, reflect.Uint16, reflect.Uint32, reflect.Uint64,
		reflect.Float32, reflect.Float64:
		return true
	case reflect.Array:
		return plain(t.Elem())
	}
	return false
}

// buffer returns the memory gonum would hand to H5Dread/H5Dwrite as a byte slice: the elements of a slice (or of a
// pointer to a slice), an array or a scalar behind a pointer. Unlike C, its length is known and is checked.
func buffer(data interface{}) ([]byte, error) {
	v := reflect.Indirect(reflect.ValueOf(data))
	switch v.Kind() {
	case reflect.Slice:
		if !plain(v.Type().Elem()) {
			return nil, fmt.Errorf("hdf5stub: buffer element type %v is not modelled", v.Type().Elem())
		}
		n := v.Len() * int(v.Type().Elem().Size())
		if n == 0 {
			return nil, nil
		}
		return unsafe.Slice((*byte)(v.UnsafePointer()), n), nil
	case reflect.Array, reflect.Int, reflect.Int8, reflect.Int16, reflect.Int32, reflect.Int64,
		reflect.Uint, reflect.Uint8, reflect.Uint16, reflect.Uint32, reflect.Uint64, reflect.Float32, reflect.Float64:
		if !plain(v.Type()) || !v.CanAddr() {
			return nil, fmt.Errorf("hdf5stub: buffer of type %v is not modelled (pass a pointer)", v.Type())
		}
		n := int(v.Type().Size())
		if n == 0 {
			return nil, nil
		}
		return unsafe.Slice((*byte)(unsafe.Pointer(v.UnsafeAddr())), n), nil
	}
	return nil, fmt.Errorf("hdf5stub: buffer of kind %v is not modelled", v.Kind())
}

// transfer is H5Dread / H5Dwrite as gonum calls them: the memory datatype IS the dataset's datatype, so elements
// are copied byte for byte (a Go element type of another width is reinterpreted, not converted).
func (s *Dataset) transfer(op string, write bool, data interface{}, memspace, filespace *Dataspace) error {
	call("H5Dget_type", false) // gonum: dtype, err := s.Datatype()
	call(op, write)
	call("H5Tclose", false) // gonum: defer dtype.Close()
	if s.id == 0 {
		return errf(op, "dataset is closed")
	}
	if write && !s.fs.writable {
		return errf(op, "file is open read-only")
	}
	file := filespace
	if file == nil || file.id == 0 {
		file = newSpace(s.node.Dims, s.node.Dims) // H5S_ALL
	} else if !reflect.DeepEqual(append([]uint{}, file.dims...), append([]uint{}, s.node.Dims...)) {
		return errf(op, "file dataspace extent %v differs from the dataset's %v", file.dims, s.node.Dims)
	}
	mem := memspace
	if mem == nil || mem.id == 0 {
		mem = file // H5S_ALL: the file dataspace and its selection describe the memory buffer too
	}
	nm, okm := mem.npoints()
	nf, okf := file.npoints()
	if !okm || !okf || nm != nf {
		return errf(op, "src and dest dataspaces have different number of elements selected")
	}
	if !mem.valid() {
		return errf(op, "memory selection+offset not within extent")
	}
	if !file.valid() {
		return errf(op, "file selection+offset not within extent")
	}
	if nf == 0 {
		return nil
	}
	buf, err := buffer(data)
	if err != nil {
		return err
	}
	size := int(s.node.Type.Size)
	mi, fi := mem.linear(), file.linear()
	for _, m := range mi {
		if (m+1)*size > len(buf) {
			return errf(op, "buffer of %d bytes is too small for the memory selection (libhdf5 would access memory out of bounds)", len(buf))
		}
	}
	for k := range fi {
		fb := s.node.Data[fi[k]*size : (fi[k]+1)*size]
		mb := buf[mi[k]*size : (mi[k]+1)*size]
		if write {
			copy(fb, mb)
		} else {
			copy(mb, fb)
		}
	}
	return nil
}

// ReadSubset reads the selected elements of the file space into the selected elements of the memory space.
func (s *Dataset) ReadSubset(data interface{}, memspace, filespace *Dataspace) error {
	return s.transfer("H5Dread", false, data, memspace, filespace)
}

// Read reads the whole dataset.
func (s *Dataset) Read(data interface{}) error { return s.ReadSubset(data, nil, nil) }

// WriteSubset writes the selected elements of the memory space to the selected elements of the file space.
func (s *Dataset) WriteSubset(data interface{}, memspace, filespace *Dataspace) error {
	return s.transfer("H5Dwrite", true, data, memspace, filespace)
}

// Write writes the whole dataset.
func (s *Dataset) Write(data interface{}) error { return s.WriteSubset(data, nil, nil) }
