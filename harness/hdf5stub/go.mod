module gonum.org/v1/hdf5

go 1.23
