package hdf5

import (
	"bufio"
	"bytes"
	"encoding/gob"
	"fmt"
	"os"
	"sort"
	"strings"
	"sync/atomic"
)

// File access flags (values of H5F_ACC_*).
const (
	F_ACC_RDONLY  int = 0x0000
	F_ACC_RDWR    int = 0x0001
	F_ACC_TRUNC   int = 0x0002
	F_ACC_EXCL    int = 0x0004
	F_ACC_DEBUG   int = 0x0008
	F_ACC_CREAT   int = 0x0010
	F_ACC_DEFAULT int = 0xffff
)

// Scope of a flush.
type Scope int

const (
	F_SCOPE_LOCAL  Scope = 0
	F_SCOPE_GLOBAL Scope = 1
)

// GType is the kind of an object in a group (values of H5G_obj_t).
type GType int

const (
	H5G_UNKNOWN GType = -1
	H5G_GROUP   GType = 0
	H5G_DATASET GType = 1
	H5G_TYPE    GType = 2
	H5G_LINK    GType = 3
	H5G_UDLINK  GType = 4
)

func (typ GType) String() string {
	switch typ {
	case H5G_UNKNOWN:
		return "unknown"
	case H5G_GROUP:
		return "group"
	case H5G_DATASET:
		return "dataset"
	case H5G_TYPE:
		return "type"
	case H5G_LINK:
		return "link"
	case H5G_UDLINK:
		return "udlink"
	}
	return fmt.Sprintf("GType(%d)", int(typ))
}

// Node is one object of the file tree (exported fields only because encoding/gob needs them).
type Node struct {
	IsGroup  bool
	Children map[string]*Node // groups
	Type     TypeDesc         // datasets
	Dims     []uint           // datasets
	Data     []byte           // datasets: len = product(Dims) * Type.Size, row-major, native (little-endian) bytes
}

const magic = "OWVERIF-HDF5-STUB 1\n"

// fileState is what all handles derived from one OpenFile/CreateFile share.
type fileState struct {
	name     string
	root     *Node
	writable bool
}

func readTree(name string) (*Node, error) {
	b, err := os.ReadFile(name)
	if err != nil {
		return nil, err
	}
	if !bytes.HasPrefix(b, []byte(magic)) {
		return nil, fmt.Errorf("not an HDF5 (stub format) file")
	}
	root := &Node{}
	if err := gob.NewDecoder(bytes.NewReader(b[len(magic):])).Decode(root); err != nil {
		return nil, fmt.Errorf("corrupt file: %v", err)
	}
	return root, nil
}

var tmpCounter int64

// persist writes the tree to a temporary file in the same directory and renames it over the target: another process
// sees either the old or the new contents, never a partial file.
func (fs *fileState) persist() error {
	tmp := fmt.Sprintf("%s.tmp-%d-%d", fs.name, os.Getpid(), atomic.AddInt64(&tmpCounter, 1))
	f, err := os.OpenFile(tmp, os.O_WRONLY|os.O_CREATE|os.O_EXCL, 0o644)
	if err != nil {
		return err
	}
	w := bufio.NewWriter(f)
	w.WriteString(magic)
	err = gob.NewEncoder(w).Encode(fs.root)
	if err == nil {
		err = w.Flush()
	}
	if cerr := f.Close(); err == nil {
		err = cerr
	}
	if err == nil {
		err = os.Rename(tmp, fs.name)
	}
	if err != nil {
		os.Remove(tmp)
	}
	return err
}

// CommonFG is the part shared by files and groups: a position in a file's tree.
type CommonFG struct {
	Identifier
	fs   *fileState
	node *Node
}

// File is an open file; as a CommonFG it stands for the root group.
type File struct {
	CommonFG
}

// Group is an open group.
type Group struct {
	CommonFG
}

// CreateFile creates a file (H5Fcreate). F_ACC_TRUNC replaces an existing file, F_ACC_EXCL refuses to.
// The new (empty) file exists on disk when the call returns.
func CreateFile(name string, flags int) (*File, error) {
	call("H5Fcreate", true)
	if flags&F_ACC_EXCL != 0 {
		if _, err := os.Stat(name); err == nil {
			return nil, fmt.Errorf("error creating hdf5 file: %s", errf("H5Fcreate", "file exists: %s", name))
		}
	}
	fs := &fileState{name: name, root: &Node{IsGroup: true, Children: map[string]*Node{}}, writable: true}
	if err := fs.persist(); err != nil {
		return nil, fmt.Errorf("error creating hdf5 file: %s", errf("H5Fcreate", "unable to create file: %v", err))
	}
	return &File{CommonFG{newID(), fs, fs.root}}, nil
}

// OpenFile opens an existing file (H5Fopen) read-only or, with F_ACC_RDWR, for reading and writing.
func OpenFile(name string, flags int) (*File, error) {
	writable := flags&F_ACC_RDWR != 0
	call("H5Fopen", writable)
	root, err := readTree(name)
	if err != nil {
		return nil, fmt.Errorf("error opening hdf5 file: %s", errf("H5Fopen", "unable to open file %s: %v", name, err))
	}
	if writable {
		if f, err := os.OpenFile(name, os.O_WRONLY, 0); err != nil {
			return nil, fmt.Errorf("error opening hdf5 file: %s", errf("H5Fopen", "unable to open file %s for writing: %v", name, err))
		} else {
			f.Close()
		}
	}
	fs := &fileState{name: name, root: root, writable: writable}
	return &File{CommonFG{newID(), fs, root}}, nil
}

// IsHDF5 reports whether name is a file this stub can open.
func IsHDF5(name string) bool {
	call("H5Fis_hdf5", false)
	_, err := readTree(name)
	return err == nil
}

// Close closes the file (H5Fclose); a file opened for writing is written back here.
func (f *File) Close() error {
	return f.closeWith("H5Fclose", f.fs != nil && f.fs.writable, func() error {
		if f.fs.writable {
			if err := f.fs.persist(); err != nil {
				return errf("H5Fclose", "unable to write file: %v", err)
			}
		}
		return nil
	})
}

// Flush writes a writable file back now (H5Fflush).
func (f *File) Flush(scope Scope) error {
	call("H5Fflush", f.fs.writable)
	if f.fs.writable {
		if err := f.fs.persist(); err != nil {
			return errf("H5Fflush", "unable to write file: %v", err)
		}
	}
	return nil
}

// FileName returns the name the file was opened with (H5Fget_name).
func (f *File) FileName() string {
	call("H5Fget_name", false)
	return f.fs.name
}

// Close closes the group handle (H5Gclose).
func (g *Group) Close() error {
	return g.closeWith("H5Gclose", g.fs != nil && g.fs.writable, nil)
}

func splitPath(name string) (absolute bool, parts []string) {
	absolute = strings.HasPrefix(name, "/")
	for _, p := range strings.Split(name, "/") {
		if p != "" && p != "." {
			parts = append(parts, p)
		}
	}
	return
}

// walk resolves a (relative or absolute) path of existing objects.
func (g *CommonFG) walk(parts []string, absolute bool) *Node {
	n := g.node
	if absolute {
		n = g.fs.root
	}
	for _, p := range parts {
		if n == nil || !n.IsGroup {
			return nil
		}
		n = n.Children[p]
	}
	return n
}

// OpenGroup opens an existing group (H5Gopen2); "/" is the root group.
func (g *CommonFG) OpenGroup(name string) (*Group, error) {
	call("H5Gopen2", false)
	abs, parts := splitPath(name)
	n := g.walk(parts, abs)
	if n == nil || !n.IsGroup {
		return nil, errf("H5Gopen2", "group not found: %s", name)
	}
	return &Group{CommonFG{newID(), g.fs, n}}, nil
}

// OpenDataset opens an existing dataset (H5Dopen2).
func (g *CommonFG) OpenDataset(name string) (*Dataset, error) {
	call("H5Dopen2", false)
	abs, parts := splitPath(name)
	n := g.walk(parts, abs)
	if n == nil || n.IsGroup || len(parts) == 0 {
		return nil, errf("H5Dopen2", "dataset not found: %s", name)
	}
	return &Dataset{Identifier: newID(), fs: g.fs, node: n}, nil
}

// parentFor resolves all but the last component (which must not exist yet) for a create call.
func (g *CommonFG) parentFor(op, name string) (*Node, string, error) {
	if !g.fs.writable {
		return nil, "", errf(op, "file is open read-only")
	}
	abs, parts := splitPath(name)
	if len(parts) == 0 {
		return nil, "", errf(op, "no name given")
	}
	parent := g.walk(parts[:len(parts)-1], abs)
	if parent == nil || !parent.IsGroup {
		return nil, "", errf(op, "intermediate group not found in %s", name)
	}
	last := parts[len(parts)-1]
	if _, ok := parent.Children[last]; ok {
		return nil, "", errf(op, "name already exists: %s", name)
	}
	return parent, last, nil
}

// CreateGroup creates a group (H5Gcreate2); intermediate groups are not created.
func (g *CommonFG) CreateGroup(name string) (*Group, error) {
	call("H5Gcreate2", true)
	parent, last, err := g.parentFor("H5Gcreate2", name)
	if err != nil {
		return nil, err
	}
	n := &Node{IsGroup: true, Children: map[string]*Node{}}
	parent.Children[last] = n
	return &Group{CommonFG{newID(), g.fs, n}}, nil
}

// CreateDataset creates a dataset filled with zeros (H5Dcreate2 with default properties).
func (g *CommonFG) CreateDataset(name string, dtype *Datatype, dspace *Dataspace) (*Dataset, error) {
	return g.CreateDatasetWith(name, dtype, dspace, P_DEFAULT)
}

// CreateDatasetWith is CreateDataset with a dataset-creation property list (ignored by the stub).
func (g *CommonFG) CreateDatasetWith(name string, dtype *Datatype, dspace *Dataspace, dcpl *PropList) (*Dataset, error) {
	call("H5Dcreate2", true)
	if dtype == nil || dspace == nil || dtype.id == 0 || dspace.id == 0 {
		return nil, errf("H5Dcreate2", "invalid datatype or dataspace handle")
	}
	parent, last, err := g.parentFor("H5Dcreate2", name)
	if err != nil {
		return nil, err
	}
	n := &Node{Type: dtype.d, Dims: append([]uint{}, dspace.dims...)}
	size, ok := byteSize(n.Dims, n.Type.Size)
	if !ok {
		return nil, errf("H5Dcreate2", "dataset too large")
	}
	n.Data = make([]byte, size)
	parent.Children[last] = n
	return &Dataset{Identifier: newID(), fs: g.fs, node: n}, nil
}

func (g *CommonFG) names() []string {
	out := make([]string, 0, len(g.node.Children))
	for k := range g.node.Children {
		out = append(out, k)
	}
	sort.Strings(out) // H5_INDEX_NAME, H5_ITER_INC
	return out
}

// NumObjects returns the number of links in the group (H5Gget_info).
func (g *CommonFG) NumObjects() (uint, error) {
	call("H5Gget_info", false)
	return uint(len(g.node.Children)), nil
}

// ObjectNameByIndex returns the idx-th name in increasing name order (H5Lget_name_by_idx).
func (g *CommonFG) ObjectNameByIndex(idx uint) (string, error) {
	call("H5Lget_name_by_idx", false)
	names := g.names()
	if idx >= uint(len(names)) {
		return "", fmt.Errorf("could not get name")
	}
	return names[idx], nil
}

// ObjectTypeByIndex returns the kind of the idx-th object (H5Gget_objtype_by_idx).
func (g *CommonFG) ObjectTypeByIndex(idx uint) (GType, error) {
	call("H5Gget_objtype_by_idx", false)
	names := g.names()
	if idx >= uint(len(names)) {
		return H5G_UNKNOWN, fmt.Errorf("could not get object type")
	}
	if g.node.Children[names[idx]].IsGroup {
		return H5G_GROUP, nil
	}
	return H5G_DATASET, nil
}

// LinkExists reports whether a link of that name exists in the group (H5Lexists).
func (g *CommonFG) LinkExists(name string) bool {
	call("H5Lexists", false)
	abs, parts := splitPath(name)
	return len(parts) > 0 && g.walk(parts, abs) != nil
}
