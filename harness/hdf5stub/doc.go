// Package hdf5 is a pure-Go stand-in for gonum.org/v1/hdf5 (no libhdf5 in this sandbox).
package hdf5
