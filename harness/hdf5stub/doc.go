// Package hdf5 is a pure-Go stand-in for gonum.org/v1/hdf5 (this sandbox has no libhdf5).
//
// It is a MODEL of the library and therefore part of the trusted base of properties C07/C08: it implements exactly the
// API subset that github.com/flowmatters/openwater-core/io (and cmd/ow-sim, cmd/ow-inspect) use, with the semantics
// of HDF5 written from the HDF5 reference manual and of the gonum wrapper written from its source
// (gonum.org/v1/hdf5@v0.0.0-20210714002203-8c5d23bc6946), including the places where the wrapper itself panics
// (`&dims[0]` on an empty slice) and the fact that gonum's Dataset.Read/Write pass the DATASET's datatype as the
// memory datatype, so the buffer is copied byte for byte without conversion (see dataset.go).
//
// What is modelled
//   - a file = a tree of groups and datasets; a dataset = (datatype, dims, raw little-endian bytes, row-major);
//     files are (re)written atomically (temp file + rename) on File.Close / Flush / CreateFile in a private
//     on-disk format (magic line + gob), so that separate processes exchange files through the same stub;
//   - simple dataspaces, the "all" and "none" selections and ONE regular hyperslab with H5S_SELECT_SET:
//     along each dimension the selected coordinates are offset + k*stride + b, k < count, b < block; the selection is
//     traversed in row-major (C) order of coordinates; a selection may be made beyond the extent, the error is raised
//     by the transfer (H5Dread/H5Dwrite: "selection+offset not within extent"); count 0 or block 0 selects nothing;
//     stride 0 and overlapping blocks (count > 1, stride < block) are refused;
//   - H5Dread/H5Dwrite: the numbers of selected elements of memory and file space must agree, both selections must
//     lie within their extents; a nil memory space means "same space and selection as the file space", a nil file space
//     means the whole dataset; a new dataset reads as zeros (default fill value);
//   - datatypes: the native integer and floating-point types with their C sizes on LP64 Linux (Go int/uint map to
//     H5T_NATIVE_INT/UINT = 4 bytes, exactly as gonum's NewDataTypeFromType does) and fixed-length strings;
//   - property lists are inert (deflate / chunk are accepted and ignored).
//
// What is NOT modelled: attributes, tables, compound / variable-length / reference types, links, extendible
// datasets, datatype conversion (gonum never asks for one), the delayed close of a file that still has open
// objects (the stub persists at File.Close), libhdf5's refusal of a deflate filter on a non-chunked dataset.
// Where the C library would read or write memory out of bounds (buffer smaller than the memory selection) the stub
// returns an error instead.
//
// Every entry point that stands for one or more libhdf5 calls first calls Hook (when non-nil) with the name of the C
// function and whether the call can modify a file; the harness uses it to assert the caller's lock state.
package hdf5
