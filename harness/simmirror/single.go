// Package sim (import path owverif/simmirror) mirrors the UNEXPORTED request types of
// github.com/flowmatters/openwater-core/sim (single.go) so that the harness can decode a request with Go's own
// encoding/json exactly as RunSingleModelJSON does. Package name and type names are the same as in the real package
// because encoding/json puts them into its error texts ("… into Go struct field modelInput.Inputs.Values of type
// float64", "… of type sim.modelInputs"), and those texts are what the runner logs.
// Property C17 checks (correspondence on every request) that the two decoders agree.
package sim

import (
	"encoding/json"
	"io"
)

type (
	singleModel struct {
		Name       string
		Inputs     modelInputs
		States     modelValues
		Parameters modelValues
	}

	modelInputs []modelInput

	modelInput struct {
		Name   string
		Values []float64
	}

	modelValues []modelValue
	modelValue  struct {
		Name  string
		Value float64
	}
)

// Input / Value / Request: exported views of the decoded request.
type Input struct {
	Name   string
	Values []float64 // nil when absent or null
}

type Value struct {
	Name  string
	Value float64
}

type Request struct {
	Name       string
	Inputs     []Input
	States     []Value
	Parameters []Value
}

// Decode does what RunSingleModelJSON does with its reader: one json.NewDecoder(r).Decode into a singleModel.
func Decode(r io.Reader) (*Request, error) {
	var m singleModel
	decoder := json.NewDecoder(r)
	err := decoder.Decode(&m)
	if err != nil {
		return nil, err
	}
	req := &Request{Name: m.Name}
	for _, in := range m.Inputs {
		req.Inputs = append(req.Inputs, Input{in.Name, in.Values})
	}
	for _, s := range m.States {
		req.States = append(req.States, Value{s.Name, s.Value})
	}
	for _, p := range m.Parameters {
		req.Parameters = append(req.Parameters, Value{p.Name, p.Value})
	}
	return req, nil
}
