// Package iotest runs, against the pure-Go HDF5 stub, the cases of /repo/io/hdf5_test.go that create their own files
// (TestWrite3DFloat64Whole, TestWriteTwice, TestWrite3DInt32Whole, TestWrite3DFloat64Partial), plus direct tests of the
// stub's hyperslab semantics. The cases that need /repo/test/files/test_hdf5.h5 (TestReadStrings, TestGetDatasetNames,
// TestGetGroupNames, TestExists, TestReadDouble, TestRead3DInts) cannot run here: that file is a real HDF5 file and
// there is no libhdf5 in this sandbox; their shape (groups, names, fixed-length strings, sub-selection) is reproduced
// on a file written through the stub in TestNamesStringsAndSelection.
//
//	cd /verif/harness && go test ./iotest/
package iotest

import (
	"math"
	"os"
	"path/filepath"
	"reflect"
	"testing"

	"github.com/flowmatters/openwater-core/data"
	owio "github.com/flowmatters/openwater-core/io"
	"gonum.org/v1/hdf5"
)

func tmp(t *testing.T, name string) string {
	return filepath.Join(t.TempDir(), name)
}

func TestWrite3DFloat64Whole(t *testing.T) {
	fn := tmp(t, "_test_write_whole.h5")
	ref := owio.H5RefFloat64{Filename: fn, Dataset: "float64_3d"}
	theData, err := data.ARangeFloat64(1000).Reshape([]int{10, 20, 5})
	if err != nil {
		t.Fatal(err)
	}
	indices := [][]int{{0, 0, 0}, {5, 14, 2}, {7, 3, 4}, {9, 19, 4}}
	if err := ref.Write(theData); err != nil {
		t.Fatal(err)
	}
	read, err := owio.H5RefFloat64{Filename: fn, Dataset: "float64_3d"}.Load()
	if err != nil {
		t.Fatal(err)
	}
	if !reflect.DeepEqual(read.Shape(), []int{10, 20, 5}) {
		t.Fatalf("shape %v", read.Shape())
	}
	for _, idx := range indices {
		if read.Get(idx) != theData.Get(idx) {
			t.Errorf("at %v: %v != %v", idx, read.Get(idx), theData.Get(idx))
		}
	}
}

func TestWriteTwice(t *testing.T) {
	fn := tmp(t, "_test_write_twice.h5")
	ref := owio.H5RefFloat64{Filename: fn, Dataset: "float64_1d"}
	theData := data.ARangeFloat64(10)
	if err := ref.Write(theData); err != nil {
		t.Fatal(err)
	}
	read, err := ref.Load()
	if err != nil || !reflect.DeepEqual(read.Shape(), []int{10}) || read.Get([]int{4}) != 4.0 {
		t.Fatalf("first read: %v %v", err, read)
	}
	newData := data.NewArray1DFloat64(10)
	data.ScaleFloat64Array(newData, theData, 2)
	if err := ref.Write(newData); err != nil {
		t.Fatal(err)
	}
	read, err = ref.Load()
	if err != nil || !reflect.DeepEqual(read.Shape(), []int{10}) || read.Get([]int{4}) != 8.0 {
		t.Fatalf("second read: %v %v", err, read)
	}
}

func TestWrite3DInt32Whole(t *testing.T) {
	fn := tmp(t, "_test_write_whole.h5")
	ref := owio.H5RefInt32{Filename: fn, Dataset: "NESTED/int32_3d"}
	theData, err := data.ARangeInt32(1000).Reshape([]int{10, 20, 5})
	if err != nil {
		t.Fatal(err)
	}
	if err := ref.Write(theData); err != nil {
		t.Fatal(err)
	}
	read, err := ref.Load()
	if err != nil {
		t.Fatal(err)
	}
	if !reflect.DeepEqual(read.Shape(), []int{10, 20, 5}) {
		t.Fatalf("shape %v", read.Shape())
	}
	for _, idx := range [][]int{{0, 0, 0}, {5, 14, 2}, {7, 3, 4}, {9, 19, 4}} {
		if read.Get(idx) != theData.Get(idx) {
			t.Errorf("at %v: %v != %v", idx, read.Get(idx), theData.Get(idx))
		}
	}
}

func TestWrite3DFloat64Partial(t *testing.T) {
	fn := tmp(t, "_test_write_partial.h5")
	ref := owio.H5RefFloat64{Filename: fn, Dataset: "float64_3d"}
	theData, _ := data.ARangeFloat64(1000).Reshape([]int{10, 20, 5})
	slice := theData.Slice([]int{0, 0, 0}, []int{10, 1, 1}, []int{1, 1, 1})
	if err := ref.Create(theData.Shape(), math.NaN(), false); err != nil {
		t.Fatal(err)
	}
	for d2 := 0; d2 < 20; d2++ {
		for d3 := 0; d3 < 5; d3++ {
			if err := ref.WriteSlice(slice, []int{0, d2, d3}); err != nil {
				t.Fatal(err)
			}
		}
	}
	read, err := ref.Load()
	if err != nil || !reflect.DeepEqual(read.Shape(), []int{10, 20, 5}) {
		t.Fatalf("%v %v", err, read.Shape())
	}
	for d2 := 0; d2 < 20; d2++ {
		for d3 := 0; d3 < 5; d3++ {
			for _, i := range []int{0, 5, 7, 9} {
				if read.Get([]int{i, d2, d3}) != theData.Get([]int{i, 0, 0}) {
					t.Fatalf("at %d %d %d", i, d2, d3)
				}
			}
		}
	}
}

// The shape of the read-only tests of /repo/io/hdf5_test.go on a file produced through the stub.
func TestNamesStringsAndSelection(t *testing.T) {
	fn := tmp(t, "names.h5")
	f, err := hdf5.CreateFile(fn, hdf5.F_ACC_TRUNC)
	if err != nil {
		t.Fatal(err)
	}
	g, err := f.CreateGroup("simple")
	if err != nil {
		t.Fatal(err)
	}
	if _, err := g.CreateGroup("sub_group"); err != nil {
		t.Fatal(err)
	}
	// fixed-length strings
	strs := []string{"one string", "two strings", "three strings", "more"}
	const L = 16
	st, _ := hdf5.CreateDatatype(hdf5.T_STRING, L)
	sp, _ := hdf5.CreateSimpleDataspace([]uint{uint(len(strs))}, nil)
	ds, err := g.CreateDataset("strings", st, sp)
	if err != nil {
		t.Fatal(err)
	}
	raw := make([]byte, L*len(strs))
	for i, s := range strs {
		copy(raw[i*L:], s)
	}
	if err := ds.Write(&raw); err != nil {
		t.Fatal(err)
	}
	ds.Close()
	f.Close()
	dbl := data.ARangeFloat64(8)
	data.ScaleFloat64Array(dbl, dbl, 2)
	if err := (owio.H5RefFloat64{Filename: fn, Dataset: "simple/doubles"}).Write(dbl); err != nil {
		t.Fatal(err)
	}
	i3, _ := data.ARangeInt32(200).Reshape([]int{5, 10, 4})
	if err := (owio.H5RefInt32{Filename: fn, Dataset: "ints3d"}).Write(i3); err != nil {
		t.Fatal(err)
	}

	got, err := owio.H5RefFloat64{Filename: fn, Dataset: "simple/strings"}.LoadText()
	if err != nil || !reflect.DeepEqual(got, strs) {
		t.Fatalf("LoadText: %v %q", err, got)
	}
	names, err := owio.H5RefFloat64{Filename: fn, Dataset: "simple"}.GetDatasets()
	if err != nil || !reflect.DeepEqual(names, []string{"doubles", "strings"}) {
		t.Fatalf("GetDatasets: %v %v", err, names)
	}
	groups, err := owio.H5RefFloat64{Filename: fn, Dataset: "simple"}.GetGroups()
	if err != nil || !reflect.DeepEqual(groups, []string{"sub_group"}) {
		t.Fatalf("GetGroups: %v %v", err, groups)
	}
	for path, want := range map[string]bool{"simple": true, "simple/strings": true, "simple/doubles": true,
		"simple/notpresent": false, "notpresent": false, "simple/sub_group": true, "ints3d": true} {
		if (owio.H5RefFloat64{Filename: fn, Dataset: path}).Exists() != want {
			t.Errorf("Exists(%s) != %v", path, want)
		}
	}
	sub, err := owio.H5RefFloat64{Filename: fn, Dataset: "simple/doubles", Slice: [][]int{{2, 6, 1}}}.Load()
	if err != nil || !reflect.DeepEqual(sub.Shape(), []int{4}) || sub.Get([]int{0}) != 4 || sub.Get([]int{3}) != 10 {
		t.Fatalf("subset: %v %v", err, sub)
	}
	s3, err := owio.H5RefInt32{Filename: fn, Dataset: "ints3d", Slice: [][]int{nil, {2, 6, 1}, {1, 3, 1}}}.Load()
	if err != nil || !reflect.DeepEqual(s3.Shape(), []int{5, 4, 2}) {
		t.Fatalf("subset3: %v %v", err, s3.Shape())
	}
	if s3.Get([]int{1, 3, 0}) != 61 || s3.Get([]int{3, 1, 1}) != 134 {
		t.Fatalf("subset3 values %v %v", s3.Get([]int{1, 3, 0}), s3.Get([]int{3, 1, 1}))
	}
}

// Hyperslab semantics of the stub itself, case by case from the HDF5 definition.
func TestStubHyperslab(t *testing.T) {
	fn := tmp(t, "slab.h5")
	f, _ := hdf5.CreateFile(fn, hdf5.F_ACC_TRUNC)
	dt, _ := hdf5.NewDatatypeFromValue(int32(0))
	sp, _ := hdf5.CreateSimpleDataspace([]uint{4, 6}, nil)
	ds, err := f.CreateDataset("d", dt, sp)
	if err != nil {
		t.Fatal(err)
	}
	all := make([]int32, 24)
	for i := range all {
		all[i] = int32(i)
	}
	if err := ds.Write(&all); err != nil {
		t.Fatal(err)
	}
	read := func(off, str, cnt, blk []uint, n int) ([]int32, error) {
		fsp := ds.Space()
		if err := fsp.SelectHyperslab(off, str, cnt, blk); err != nil {
			return nil, err
		}
		msp, _ := hdf5.CreateSimpleDataspace([]uint{uint(n)}, nil)
		out := make([]int32, n)
		return out, ds.ReadSubset(&out, msp, fsp)
	}
	got, err := read([]uint{1, 0}, []uint{2, 3}, []uint{2, 2}, []uint{1, 2}, 8)
	want := []int32{6, 7, 9, 10, 18, 19, 21, 22} // rows 1,3 × cols {0,1,3,4}
	if err != nil || !reflect.DeepEqual(got, want) {
		t.Fatalf("strided blocks: %v %v", err, got)
	}
	if _, err := read([]uint{0, 0}, []uint{1, 2}, []uint{1, 4}, []uint{1, 1}, 4); err == nil {
		t.Fatal("selection beyond the extent must fail at the transfer") // cols 0,2,4,6
	}
	if _, err := read([]uint{0, 0}, []uint{1, 1}, []uint{1, 3}, []uint{1, 1}, 4); err == nil {
		t.Fatal("different numbers of selected elements must fail")
	}
	if _, err := read([]uint{0, 0}, []uint{1, 0}, []uint{1, 3}, []uint{1, 1}, 3); err == nil {
		t.Fatal("stride 0 must be refused")
	}
	if _, err := read([]uint{0, 0}, []uint{1, 1}, []uint{1, 2}, []uint{1, 2}, 4); err == nil {
		t.Fatal("overlapping blocks must be refused")
	}
	if got, err := read([]uint{0, 9}, []uint{1, 1}, []uint{1, 0}, []uint{1, 1}, 0); err != nil || len(got) != 0 {
		t.Fatalf("count 0 selects nothing: %v", err)
	}
	ds.Close()
	f.Close()
	if _, err := os.Stat(fn); err != nil {
		t.Fatal(err)
	}
	if _, err := (owio.H5RefInt32{Filename: fn, Dataset: "nope"}).Load(); err == nil {
		t.Fatal("missing dataset must be an error")
	}
	if _, err := (owio.H5RefInt32{Filename: fn + "x", Dataset: "d"}).Load(); err == nil {
		t.Fatal("missing file must be an error")
	}
}
