// C driver for the exported entry point RunSingleModel of libopenwater.so (C03).
// Reads W-family case bodies (one per line) on stdin, places every array in a malloc'ed buffer between guard
// zones, calls RunSingleModel and prints `ok outCells nO outT outputs… N nS states… canary=<ok|broken>`.
#define _GNU_SOURCE
#include <stdio.h>
#include <stdlib.h>
#include <string.h>
#include <stdint.h>
#include <unistd.h>
#include "libopenwater.h"

#define GUARD 256
static const double CANARY = -7.25e301;

typedef struct { double *base; double *data; size_t n; } buf_t;

static buf_t mk(size_t n) {
  buf_t b; b.n = n;
  b.base = (double*)malloc((n + 2 * GUARD) * sizeof(double));
  for (size_t i = 0; i < n + 2 * GUARD; i++) b.base[i] = CANARY;
  b.data = b.base + GUARD;
  return b;
}
static int intact(buf_t b) {
  for (size_t i = 0; i < GUARD; i++)
    if (memcmp(&b.base[i], &CANARY, 8) || memcmp(&b.base[GUARD + b.n + i], &CANARY, 8)) return 0;
  return 1;
}
static char *tok(char **p) {
  while (**p == ' ') (*p)++;
  if (!**p || **p == '\n') return NULL;
  char *s = *p;
  while (**p && **p != ' ' && **p != '\n') (*p)++;
  if (**p) { **p = 0; (*p)++; }
  return s;
}
static long ti(char **p) { char *t = tok(p); return t ? strtol(t, NULL, 10) : 0; }
static double tf(char **p) { char *t = tok(p); uint64_t u = t ? strtoull(t + 1, NULL, 10) : 0; double d; memcpy(&d, &u, 8); return d; }
static FILE *proto;
static void pf(double d) { uint64_t u; memcpy(&u, &d, 8); fprintf(proto, " f%llu", (unsigned long long)u); }

int main(void) {
  /* the library prints diagnostics on fd 1 (fmt.Println in some kernels): keep them off the protocol stream */
  int fd = dup(1);
  dup2(2, 1);
  proto = fdopen(fd, "w");
  char *line = NULL; size_t cap = 0;
  while (getline(&line, &cap, stdin) > 0) {
    char *p = line;
    char *model = tok(&p);
    if (!model) continue;
    tok(&p); /* backend */
    long nspec = ti(&p); for (long i = 0; i < nspec; i++) ti(&p);
    long nRows = ti(&p), nSets = ti(&p);
    buf_t P = mk(nRows * nSets); for (long i = 0; i < nRows * nSets; i++) P.data[i] = tf(&p);
    long nB = ti(&p), nI = ti(&p), T = ti(&p);
    buf_t I = mk(nB * nI * T); for (long i = 0; i < nB * nI * T; i++) I.data[i] = tf(&p);
    long init = ti(&p), N = ti(&p), nS = ti(&p);
    buf_t S = mk(N * nS);
    for (long i = 0; i < N * nS; i++) S.data[i] = init ? 0.0 : tf(&p);
    long oc = ti(&p), nO = ti(&p), oT = ti(&p);
    buf_t O = mk(oc * nO * oT); for (long i = 0; i < oc * nO * oT; i++) O.data[i] = tf(&p);
    RunSingleModel(model, I.data, nB, nI, T, P.data, nRows, nSets, S.data, N, nS, O.data, oc, nO, oT, init ? 1 : 0);
    fprintf(proto, "ok %ld %ld %ld", oc, nO, oT);
    for (long i = 0; i < oc * nO * oT; i++) pf(O.data[i]);
    fprintf(proto, " %ld %ld", N, nS);
    for (long i = 0; i < N * nS; i++) pf(S.data[i]);
    /* inputs and parameters must be unchanged: print a checksum-free verdict by re-parsing is not possible here; the
       harness compares with its own copy, so print them as well */
    fprintf(proto, " | P");
    for (long i = 0; i < nRows * nSets; i++) pf(P.data[i]);
    fprintf(proto, " | I");
    for (long i = 0; i < nB * nI * T; i++) pf(I.data[i]);
    fprintf(proto, " | canary=%s\n", (intact(P) && intact(I) && intact(S) && intact(O)) ? "ok" : "broken");
    fflush(proto);
    free(P.base); free(I.base); free(S.base); free(O.base);
  }
  return 0;
}
