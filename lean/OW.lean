import OW.Util.Dates
import OW.Spec.Calendar
import OW.Props.C19
