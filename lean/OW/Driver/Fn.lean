import OW.Driver.Proto
import OW.Util.Piecewise
import OW.Util.FindRoot
/- Protocol handlers for util/fn: `FR` (FindRoot) and `PW` (Piecewise). Owned by the C18 work. -/
namespace OW.Driver.Fn
open OW OW.Proto

def handleFR (_args : Toks) : String := "bad-op"
def handlePW (_args : Toks) : String := "bad-op"

end OW.Driver.Fn
