import OW.Driver.Proto
import OW.Util.Piecewise
import OW.Util.FindRoot
import OW.Util.ExprFn
/- Protocol handlers for util/fn: `FR` (FindRoot) and `PW` (Piecewise). Owned by the C18 work.

`FR id mono L <expr> hasD [<dexpr>] initialX minX maxX tol conv maxIter`
      → `ok x delta nf evals… nd devals… | <exit tag>` | `panic other`
   (`mono`, `L` are oracle hints for the Go side: function non-decreasing by construction, Lipschitz bound; the
    model ignores them. `evals`/`devals` in call order.)
`PW id x nx xs… ny ys…` → `val y` | `err` | `panic index-out-of-range`
-/
namespace OW.Driver.Fn
open OW OW.Proto OW.ExprFn

def popExpr (ts : Toks) : Option (Expr Float × Toks) := parse parseF (ts.length + 1) ts

def popOptExpr (hasD : Nat) (ts : Toks) : Option (Option (Expr Float) × Toks) :=
  if hasD == 1 then
    match popExpr ts with
    | some (d, ts) => some (some d, ts)
    | none => none
  else some (none, ts)

def handleFR (args : Toks) : String :=
  match (do
    let (_mono, ts) ← popN args
    let (_l, ts) ← popF ts
    let (e, ts) ← popExpr ts
    let (hasD, ts) ← popN ts
    let (d, ts) ← popOptExpr hasD ts
    let (initialX, ts) ← popF ts
    let (minX, ts) ← popF ts
    let (maxX, ts) ← popF ts
    let (tol, ts) ← popF ts
    let (conv, ts) ← popF ts
    let (maxIter, _) ← popI ts
    pure (e, d, initialX, minX, maxX, tol, conv, maxIter)) with
  | none => "bad-op"
  | some (e, d, initialX, minX, maxX, tol, conv, maxIter) =>
    -- `for iteration := 0; iteration < maxIterations` with a negative limit runs zero times
    match OW.Fn.findRoot e.eval (d.map (fun (e : Expr Float) => e.eval)) initialX minX maxX tol conv maxIter.toNat with
    | .error c => "panic " ++ c
    | .ok r => joinToks ["ok", fmtF r.x, fmtF r.delta, fmtFs r.evals.reverse, fmtFs r.devals.reverse] ++ " | " ++ r.exit.name

def handlePW (args : Toks) : String :=
  match (do
    let (x, ts) ← popF args
    let (xs, ts) ← popFs ts
    let (ys, _) ← popFs ts
    pure (x, xs, ys)) with
  | none => "bad-op"
  | some (x, xs, ys) =>
    match OW.Fn.piecewise x xs ys with
    | .val y => "val " ++ fmtF y
    | .err => "err"
    | .panic c => "panic " ++ c

end OW.Driver.Fn
