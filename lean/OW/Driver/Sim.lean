import OW.Driver.Proto
import OW.Kernels.Registry
import OW.Sim.Graph
import OW.Sim.Writer
/-
`SIM id gmp jit T G M sel×4 {name nP nI nS hasIn batches nodes…}×M L {10 ints}×L`
  (`nP = -1`: a model with table-valued parameters, every node's parameter column is length-prefixed)
  → `ok {name created ds(outputs) ds(inputs) ds(states) extra}×M | ref=… late=…`   (ds = 0 | 1 rank dims… values…)
The result printed is `owsim` (the implementation-shaped semantics under the earliest-writer schedule) with the kernel
models of `Kernels.find`; after ` | ` the driver reports whether the specification `refSem` and the latest-writer
schedule give the same result on this line. A graph that is not `ValidGraph` is refused (`invalid-graph`): batches,
link order and ranges (incl. `srcVar` below the number of outputs of the source model, see `probeNOutputs`), pairwise
different model names, dataset shapes.

`SIMTRACE id kind G n {ev a b}×n` → `ok accept | ok reject <i> | ok incomplete`: the hook trace of a real ow-sim
execution replayed through `OW.Sim.Writer.step`.
-/
namespace OW.Driver.Sim
open OW OW.Proto OW.Sim

def kernelRun : RunFn Float := fun name p ins st =>
  match Kernels.find (α := Float) name with
  | none => ⟨[], [], some "no-model"⟩
  | some m =>
    match m.run p ins st with
    | .ok o => ⟨o.outputs, o.states, none⟩
    | .error e => ⟨[], [], some e⟩

def popName : Toks → Option (String × Toks)
  | [] => none
  | t :: ts => some (t, ts)

/-- one node. `nP ≥ 0`: `nP` parameter values; `nP < 0` (a model with table-valued parameters): the node's PACKED
parameter column, length-prefixed (`[nPts, inputAmount[nPts], proportion[nPts]]`, each node its own table length — the
kernel models take exactly this column; the padding of the file's parameter table to the model-wide maximum of each
dimension is the wrapper's layout, `OW/Sim/WrapperNdTables.lean`) -/
def popNode (nP : Int) (nS nI T : Nat) (hasIn : Bool) (ts : Toks) :
    Option ((List Float × List Float × List (List Float)) × Toks) := do
  let (p, ts) ← if nP < 0 then popFs ts else popMany popF nP.toNat ts
  let (s, ts) ← popMany popF nS ts
  if hasIn then
    let (ins, ts) ← popMany (popMany popF T) nI ts
    pure ((p, s, ins), ts)
  else pure ((p, s, []), ts)

def popModel (T : Nat) (ts : Toks) : Option (ModelData Float × Toks) := do
  let (name, ts) ← popName ts
  let (nP, ts) ← popI ts
  let (nI, ts) ← popN ts
  let (nS, ts) ← popN ts
  let (hi, ts) ← popN ts
  let (batches, ts) ← popNs ts
  let n := totalOf batches
  let (nodes, ts) ← popMany (popNode nP nS nI T (hi == 1)) n ts
  pure ({ name := name, nInputs := nI, nOutputs := 0, batches := batches
          params := nodes.map (·.1), states := nodes.map (·.2.1)
          inputs := if hi == 1 then some (nodes.map (·.2.2)) else none }, ts)

def popLink (ts : Toks) : Option (Link × Toks) := do
  let (v, ts) ← popMany popN 10 ts
  match v with
  | [a, b, c, d, e, f, g, h, i, j] => pure (⟨a, b, c, d, e, f, g, h, i, j⟩, ts)
  | _ => none

def parse (ts : Toks) : Option (Graph Float) := do
  let (_gmp, ts) ← popN ts
  let (_jit, ts) ← popN ts
  let (T, ts) ← popN ts
  let (_G, ts) ← popN ts
  let (M, ts) ← popN ts
  let (s0, ts) ← popNs ts
  let (s1, ts) ← popNs ts
  let (s2, ts) ← popNs ts
  let (s3, ts) ← popNs ts
  let (models, ts) ← popMany (popModel T) M ts
  let (links, _) ← popList popLink ts
  let nm := fun (is : List Nat) => is.map fun i => match models[i]? with
    | some md => md.name
    | none => "NoSuchModel"
  pure { T := T, models := models, links := links
         sel := { outputsFor := nm s0, noOutputsFor := nm s1, inputsFor := nm s2, noInputsFor := nm s3 } }

/-- The protocol line does not carry the number of output variables of a model type (ow-sim takes it from the
catalogue's `Description().Outputs`). The driver takes `ModelData.nOutputs` from the kernel model itself: the number of
output series it returns for the first node of the model that runs without error on its own parameters, states and
stored inputs (the K correspondence ties the kernel models' output lists to the real models'; the count does not depend
on the input values). A model without nodes cannot be the source of a valid link, its count stays 0. -/
def probeNOutputs (g : Graph Float) (md : ModelData Float) : Nat :=
  ((List.range (totalOf md.batches)).findSome? fun r =>
    let res := kernelRun md.name (md.params.getD r []) (baseInputs g md r) (md.states.getD r [])
    if res.err.isNone then some res.outputs.length else none).getD 0

def withNOutputs (g : Graph Float) : Graph Float :=
  { g with models := g.models.map fun md => { md with nOutputs := probeNOutputs g md } }

def fmtDS (dims : List Nat) (vals : List Float) : String :=
  joinToks ("1" :: toString dims.length :: dims.map toString ++ vals.map fmtF)

/-- the datasets of one model as the harness dumps them from the output file -/
def fmtModel (g : Graph Float) (md : ModelData Float) (mo : ModelOut Float) : Except String String :=
  if !mo.created then .ok (mo.name ++ " 0 0 0 0 0")
  else
    match mo.rows.find? (fun r => match r with | some r => r.err.isSome | none => false) with
    | some (some r) => .error ("panic " ++ r.err.getD "other")
    | _ =>
      if mo.rows.any (·.isNone) then .error "unwritten-row"
      else
        let rows := mo.rows.filterMap id
        let n := rows.length
        let first := rows.head?
        let outs : String :=
          if writeOutputs g md then
            let nO := match first with | some r => (r.outputs.getD []).length | none => 0
            fmtDS [n, nO, g.simLen] (rows.flatMap fun r => (r.outputs.getD []).flatten)
          else "0"
        let ins : String :=
          if writeInputs g md then
            fmtDS [n, md.nInputs, g.simLen] (rows.flatMap fun r => (r.inputs.getD []).flatten)
          else "0"
        let nS := match first with | some r => r.states.length | none => 0
        let sts := fmtDS [n, nS] (rows.flatMap (·.states))
        .ok (joinToks [mo.name, "1", outs, ins, sts, "0"])

def firstError : List (Except String String) → Option String
  | [] => none
  | .error e :: _ => some e
  | .ok _ :: rest => firstError rest

def fmtResult (g : Graph Float) (res : Result Float) : String :=
  let parts := (g.models.zip res).map fun (md, mo) => fmtModel g md mo
  match firstError parts with
  | some e => e
  | none => joinToks ("ok" :: parts.map fun p => match p with | .ok s => s | .error e => e)

def handle (args : Toks) : String :=
  match (parse args).map withNOutputs with
  | none => "bad-op"
  | some g =>
    if !decide (ValidGraph g) then "invalid-graph"
    else
      let impl := fmtResult g (owsim kernelRun g)
      let ref := fmtResult g (refSem kernelRun g)
      let late := fmtResult g (owsimSched kernelRun g (lateSchedule g.genCount))
      impl ++ " | " ++ (if ref == impl then "ref=agree" else "ref=DISAGREE") ++ " " ++
        (if late == impl then "late=agree" else "late=DISAGREE")

/-! ### trace validation -/

def popEvent (ts : Toks) : Option ((String × Int × Int) × Toks) := do
  let (ev, ts) ← popName ts
  let (a, ts) ← popI ts
  let (b, ts) ← popI ts
  pure ((ev, a, b), ts)

def handleTrace (args : Toks) : String :=
  match (do
    let (_kind, ts) ← popN args
    let (G, ts) ← popN ts
    let (evs, _) ← popList popEvent ts
    pure (G, evs)) with
  | none => "bad-op"
  | some (G, evs) => "ok " ++ Writer.verdict G evs

end OW.Driver.Sim
