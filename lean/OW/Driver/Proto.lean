/-
Line protocol helpers for the model driver (core Lean only).
A float is `f<decimal of IEEE bits>`, an int is decimal, a list is its length followed by its items.
-/
namespace OW.Proto

abbrev Toks := List String

def fmtF (x : Float) : String := "f" ++ toString x.toBits.toNat

def parseF (s : String) : Option Float :=
  if s.startsWith "f" then
    match (s.drop 1).toNat? with
    | some n => some (Float.ofBits n.toUInt64)
    | none => none
  else none

def parseI (s : String) : Option Int := s.toInt?

def popI : Toks → Option (Int × Toks)
  | [] => none
  | t :: ts => (parseI t).map (·, ts)

def popN : Toks → Option (Nat × Toks)
  | [] => none
  | t :: ts => t.toNat?.map (·, ts)

def popF : Toks → Option (Float × Toks)
  | [] => none
  | t :: ts => (parseF t).map (·, ts)

def popMany {α} (pop : Toks → Option (α × Toks)) : Nat → Toks → Option (List α × Toks)
  | 0, ts => some ([], ts)
  | n + 1, ts => do
    let (x, ts) ← pop ts
    let (xs, ts) ← popMany pop n ts
    pure (x :: xs, ts)

/-- length-prefixed list -/
def popList {α} (pop : Toks → Option (α × Toks)) (ts : Toks) : Option (List α × Toks) := do
  let (n, ts) ← popN ts
  popMany pop n ts

def popIs := popList popI
def popFs := popList popF
def popNs := popList popN

def fmtIs (xs : List Int) : String :=
  " ".intercalate (toString xs.length :: xs.map toString)

def fmtFs (xs : List Float) : String :=
  " ".intercalate (toString xs.length :: xs.map fmtF)

def joinToks (xs : List String) : String := " ".intercalate xs

end OW.Proto
