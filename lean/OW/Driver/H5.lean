import OW.Driver.Proto
import OW.Sim.H5
/-
`H5U id ss <slice Is> <size>` / `H5U id mh <sel> <dims Is>`: `sliceSize` / `makeHyperslab` directly.
`H5 id eltype nops op…`: one line = one program of io calls on a fresh file; element values are small non-negative
integers, the model runs at `Int`; `narrow` (element types int, uint) as described in OW/Sim/H5.lean.
Output: per op `ok …` / `err <class>` / `panic <class>` separated by ` ; `, halting at the first panic, then the dump
of the file `D …`.
-/
namespace OW.Driver.H5
open OW.Proto OW.Nd OW.Sim.H5

def popOptIs (ts : Toks) : Option (Option Idx × Toks) := do
  let (f, ts) ← popN ts
  if f == 0 then pure (none, ts) else do
    let (s, ts) ← popIs ts
    pure (some s, ts)

/-- `n entry*` with entry = `0` (nil) | `1 k items` -/
def popSelList (ts : Toks) : Option (Sel × Toks) := do
  let (n, ts) ← popN ts
  popMany popOptIs n ts

/-- `0` (Slice == nil) | `1 n entry*` -/
def popSel (ts : Toks) : Option (Option Sel × Toks) := do
  let (f, ts) ← popN ts
  if f == 0 then pure (none, ts) else do
    let (s, ts) ← popSelList ts
    pure (some s, ts)

def fmtNs (xs : List Nat) : String := " ".intercalate (toString xs.length :: xs.map toString)

def fmtR (r : R String) : String :=
  match r with
  | .ok s => "ok " ++ s
  | .error e => "panic " ++ e

def handleU (args : Toks) : String :=
  match args with
  | "ss" :: ts =>
    match (do let (sl, ts) ← popIs ts; let (size, _) ← popI ts; pure (sl, size)) with
    | some (sl, size) => fmtR ((sliceSize sl size).map toString)
    | none => "bad-op"
  | "mh" :: ts =>
    match (do let (sel, ts) ← popSelList ts; let (dims, _) ← popIs ts; pure (sel, dims)) with
    | some (sel, dims) =>
      fmtR ((makeHyperslab sel dims).map fun s => joinToks [fmtNs s.offset, fmtNs s.stride, fmtNs s.count, fmtNs s.block])
    | none => "bad-op"
  | _ => "bad-op"

structure St where
  narrow : Bool := false
  heap : Heap Int := []
  arrs : Array (Option Arr) := #[]
  disk : Disk := none
  out : Array String := #[]
  halted : Bool := false

def fmtRes {α} (f : α → String) : Res α → String × Bool
  | .ok a => (let s := f a; if s == "" then "ok" else "ok " ++ s, false)
  | .err c => ("err " ++ c, false)
  | .panic c => ("panic " ++ c, true)

def getArr (s : St) (i : Nat) : Option Arr := (s.arrs[i]?).join

/-- apply a chain of slices -/
def sliceChain (a : Arr) : List (Idx × Idx × Option Idx) → R Arr
  | [] => .ok a
  | (loc, dims, step) :: rest => do
    let b ← slice a loc dims step
    sliceChain b rest

def popSliceReq (ts : Toks) : Option ((Idx × Idx × Option Idx) × Toks) := do
  let (loc, ts) ← popIs ts
  let (dims, ts) ← popIs ts
  let (step, ts) ← popOptIs ts
  pure ((loc, dims, step), ts)

/-- one op: returns (state', text, panicked, remaining tokens) -/
def runOp (s : St) (ts : Toks) : Option (St × String × Bool × Toks) :=
  match ts with
  | [] => none
  | op :: ts =>
    match op with
    | "arr" => do
      let (vals, ts) ← popIs ts
      let (dims, ts) ← popIs ts
      let (n, ts) ← popN ts
      let (chain, ts) ← popMany popSliceReq n ts
      let (h', sid) := alloc s.heap vals
      let r : R Arr := do
        let a ← fromStore h' sid dims
        sliceChain a chain
      match r with
      | .ok a => pure ({ s with heap := h', arrs := s.arrs.push (some a) }, "ok " ++ fmtIs a.v.dims, false, ts)
      | .error e => pure ({ s with heap := h', arrs := s.arrs.push none }, "panic " ++ e, true, ts)
    | "create" => do
      let (path, ts) ← ts.head?.map (·, ts.tail)
      let (shape, ts) ← popIs ts
      let (d, r) := create s.disk path shape
      let (txt, p) := fmtRes (fun _ => "") r
      pure ({ s with disk := d }, txt, p, ts)
    | "write" => do
      let (path, ts) ← ts.head?.map (·, ts.tail)
      let (ai, ts) ← popN ts
      match getArr s ai with
      | none => pure (s, "skip", false, ts)
      | some a =>
        let (d, r) := write s.narrow s.heap a s.disk path
        let (txt, p) := fmtRes (fun _ => "") r
        pure ({ s with disk := d }, txt, p, ts)
    | "wslice" => do
      let (path, ts) ← ts.head?.map (·, ts.tail)
      let (ai, ts) ← popN ts
      let (loc, ts) ← popIs ts
      match getArr s ai with
      | none => pure (s, "skip", false, ts)
      | some a =>
        let (d, r) := writeSlice s.narrow s.heap a s.disk path loc
        let (txt, p) := fmtRes (fun _ => "") r
        pure ({ s with disk := d }, txt, p, ts)
    | "load" => do
      let (path, ts) ← ts.head?.map (·, ts.tail)
      let (sel, ts) ← popSel ts
      let (txt, p) := fmtRes (fun (sv : Idx × List Int) => fmtIs sv.1 ++ " " ++ fmtIs sv.2) (load s.narrow s.disk path sel)
      pure (s, txt, p, ts)
    | "shape" => do
      let (path, ts) ← ts.head?.map (·, ts.tail)
      let (txt, p) := fmtRes fmtIs (shapeOf s.disk path)
      pure (s, txt, p, ts)
    | "exists" => do
      let (path, ts) ← ts.head?.map (·, ts.tail)
      pure (s, if pathExists s.disk path then "ok 1" else "ok 0", false, ts)
    | "datasets" => do
      let (path, ts) ← ts.head?.map (·, ts.tail)
      let (txt, p) := fmtRes (fun (l : List String) => joinToks (toString l.length :: l)) (listGroup s.disk path isDs)
      pure (s, txt, p, ts)
    | "groups" => do
      let (path, ts) ← ts.head?.map (·, ts.tail)
      let (txt, p) := fmtRes (fun (l : List String) => joinToks (toString l.length :: l)) (listGroup s.disk path (fun o => !isDs o))
      pure (s, txt, p, ts)
    | _ => none

/-- the `k` programs of a `par` op, one after the other -/
def goPar (run : Nat → St → Toks → St × Toks) : Nat → St → Toks → St × Toks
  | 0, s, ts => (s, ts)
  | k + 1, s, ts =>
    match popN ts with
    | none => ({ s with out := s.out.push "bad-op", halted := true }, ts)
    | some (m, ts) =>
      let (s, ts) := run m s ts
      goPar run k s ts

/-- `nops op…` (first argument: fuel ≥ number of tokens); a `par k prog…` op runs its `k` programs one after the other
(they address disjoint datasets of an existing file, so every schedule the package lock admits gives the same results
and the same file). -/
def runProg : Nat → Nat → St → Toks → St × Toks
  | 0, _, s, ts => (s, ts)
  | _, 0, s, ts => (s, ts)
  | fuel + 1, n + 1, s, ts =>
    if s.halted then (s, ts) else
    match ts with
    | "par" :: ts' =>
      match popN ts' with
      | none => ({ s with out := s.out.push "bad-op", halted := true }, ts)
      | some (k, ts') =>
        let (s, ts') := goPar (runProg fuel) k s ts'
        runProg fuel n s ts'
    | _ =>
      match runOp s ts with
      | none => ({ s with out := s.out.push "bad-op", halted := true }, ts)
      | some (s, txt, p, ts') =>
        let s := { s with out := s.out.push txt }
        if p then ({ s with halted := true }, ts') else runProg fuel n s ts'

def fmtPath (p : Path) : String := if p.isEmpty then "/" else "/".intercalate p

def fmtDisk : Disk → String
  | none => "D nofile"
  | some t =>
    joinToks ("D" :: toString t.length :: (sortTree t).map fun (p, o) =>
      match o with
      | .group => "G " ++ fmtPath p
      | .ds s v => joinToks ["S", fmtPath p, fmtNs s, fmtIs v])

def handle (args : Toks) : String :=
  match args with
  | elt :: rest =>
    match popN rest with
    | none => "bad-op"
    | some (nops, ts) =>
      let (s, _) := runProg (ts.length + 1) nops { narrow := elt == "int" || elt == "uint" } ts
      " ; ".intercalate (s.out.toList ++ (if s.halted then ["halt"] else []) ++ [fmtDisk s.disk])
  | _ => "bad-op"

end OW.Driver.H5
