import OW.Driver.Proto
import OW.Sim.Json
/-
Driver handlers of property C17 (core Lean only).

`JSA id arr <shape Is> <vals Fs> nslices (loc Is, dims Is, step optIs)* shiftDim`  → `ok <tokens>` | `panic <class>`
`JSA id val <F>`                                                                   → `ok <tokens>`
`JSON id split xreq D <decoded request | E xmsg> C <catalogue entry | none> I <init> K <key> U <run result>`
                                                                                   → `w <ndocs> <tokens>… end <ending>`
JSON value tokens: `N` null, `f<bits>` number, `S<hex>` string, `A n v…` array, `O n (S<hex> v)…` object with keys sorted.
Strings travel as `x<hex of UTF-8>`.
-/
namespace OW.Driver.Json
open OW.Proto OW.Nd OW.Sim.Json

/-! ### float64 as the glue sees it -/

def pow2 (n : Nat) : Nat := 1 <<< n

/-- `strconv.FormatFloat(x, 'f', 6, 64)` (what `%f` prints): exact decimal expansion, round half to even -/
def fmtF6 (x : Float) : String :=
  let bits := x.toBits.toNat
  let neg := bits / pow2 63 == 1
  let e := (bits / pow2 52) % 2048
  let frac := bits % pow2 52
  if e == 2047 then
    if frac != 0 then "NaN" else if neg then "-Inf" else "+Inf"
  else
    -- value = m · 2^(ex - 1075)
    let m := if e == 0 then frac else frac + pow2 52
    let ex := if e == 0 then 1 else e
    let q : Nat :=
      if ex ≥ 1075 then m * pow2 (ex - 1075) * 1000000
      else
        let num := m * 1000000
        let den := pow2 (1075 - ex)
        let q := num / den
        let r := num % den
        if 2 * r > den ∨ (2 * r == den ∧ q % 2 == 1) then q + 1 else q
    let s := toString q
    let s := if s.length < 7 then "".pushn '0' (7 - s.length) ++ s else s
    (if neg then "-" else "") ++ (s.take (s.length - 6)).toString ++ "." ++ (s.drop (s.length - 6)).toString

instance : JNum Float where
  zero := 0.0
  isNaN x := x.isNaN
  isPosInf x := x.isInf && x > 0
  isNegInf x := x.isInf && x < 0
  fmt6 := fmtF6

/-! ### strings as hex -/

def hexDigit (n : Nat) : Char := if n < 10 then Char.ofNat (48 + n) else Char.ofNat (87 + n)

def toHex (s : String) : String :=
  s.toUTF8.foldl (fun acc b => (acc.push (hexDigit (b.toNat / 16))).push (hexDigit (b.toNat % 16))) ""

def hexVal (c : Char) : Option Nat :=
  if '0' ≤ c ∧ c ≤ '9' then some (c.toNat - 48)
  else if 'a' ≤ c ∧ c ≤ 'f' then some (c.toNat - 87)
  else none

def fromHexChars : List Char → ByteArray → Option ByteArray
  | [], acc => some acc
  | [_], _ => none
  | a :: b :: rest, acc => do
    let x ← hexVal a
    let y ← hexVal b
    fromHexChars rest (acc.push (UInt8.ofNat (16 * x + y)))

/-- `x<hex>` → string -/
def parseX (tok : String) : Option String :=
  match tok.toList with
  | 'x' :: cs => do
    let bytes ← fromHexChars cs ByteArray.empty
    String.fromUTF8? bytes
  | _ => none

def popX : Toks → Option (String × Toks)
  | [] => none
  | t :: ts => (parseX t).map (·, ts)

/-! ### JSON value → tokens -/

/-- insertion sort of key/value pairs by key (byte-wise = code-point order, as `encoding/json` sorts map keys) -/
def insertKV (k : String) (v : List String) : List (String × List String) → List (String × List String)
  | [] => [(k, v)]
  | (k', v') :: rest => if k < k' then (k, v) :: (k', v') :: rest else (k', v') :: insertKV k v rest

mutual
  def tokens : JVal Float → List String
    | .null => ["N"]
    | .num x => [fmtF x]
    | .str s => ["S" ++ toHex s]
    | .arr xs => "A" :: toString xs.length :: tokensList xs
    | .obj ks vs =>
      let kv := (ks.zip (tokensEach vs)).foldl (fun acc (k, v) => insertKV k v acc) []
      "O" :: toString kv.length :: kv.flatMap fun (k, v) => ("S" ++ toHex k) :: v
  def tokensList : List (JVal Float) → List String
    | [] => []
    | x :: xs => tokens x ++ tokensList xs
  def tokensEach : List (JVal Float) → List (List String)
    | [] => []
    | x :: xs => tokens x :: tokensEach xs
end

/-! ### JSA -/

def popOptIs (ts : Toks) : Option (Option Idx × Toks) := do
  let (f, ts) ← popN ts
  if f == 0 then pure (none, ts) else do
    let (s, ts) ← popIs ts
    pure (some s, ts)

def popSlices : Nat → Toks → Option (List (Idx × Idx × Option Idx) × Toks)
  | 0, ts => some ([], ts)
  | n + 1, ts => do
    let (loc, ts) ← popIs ts
    let (dims, ts) ← popIs ts
    let (step, ts) ← popOptIs ts
    let (rest, ts) ← popSlices n ts
    pure ((loc, dims, step) :: rest, ts)

def fmtRes (r : R (List (JVal Float))) : String :=
  match r with
  | .ok xs => joinToks ("ok" :: tokens (.arr xs))
  | .error e => "panic " ++ e

def handleJSA (args : Toks) : String :=
  match args with
  | "val" :: ts =>
    match popF ts with
    | some (x, _) => joinToks ("ok" :: tokens (jsonSafeValue x))
    | none => "bad-op"
  | "arr" :: ts =>
    match (do
      let (shape, ts) ← popIs ts
      let (vals, ts) ← popFs ts
      let (ns, ts) ← popN ts
      let (sls, ts) ← popSlices ns ts
      let (sd, _) ← popI ts
      pure (shape, vals, sls, sd)) with
    | none => "bad-op"
    | some (shape, vals, sls, sd) =>
      let (h, sid) := alloc ([] : Heap Float) vals
      fmtRes (do
        let root ← fromStore h sid shape
        let a ← sls.foldlM (fun a (loc, dims, step) => slice a loc dims step) root
        jsonSafeArray h a sd)
  | _ => "bad-op"

/-! ### JSON -/

def popReqInput (ts : Toks) : Option (ReqInput Float × Toks) := do
  let (name, ts) ← popX ts
  match ts with
  | "N" :: ts => pure ({ name := name, values := none }, ts)
  | "V" :: ts => do
    let (vs, ts) ← popFs ts
    pure ({ name := name, values := some vs }, ts)
  | _ => none

def popReqValue (ts : Toks) : Option (ReqValue Float × Toks) := do
  let (name, ts) ← popX ts
  let (v, ts) ← popF ts
  pure ({ name := name, value := v }, ts)

def popParamDesc (ts : Toks) : Option (ParamDesc Float × Toks) := do
  let (name, ts) ← popX ts
  let (v, ts) ← popF ts
  pure ({ name := name, default := v }, ts)

def expect (tok : String) : Toks → Option Toks
  | t :: ts => if t == tok then some ts else none
  | [] => none

def popDecoded (ts : Toks) : Option ((ParsedRequest Float ⊕ String) × Toks) :=
  match ts with
  | "E" :: ts => do
    let (msg, ts) ← popX ts
    pure (.inr msg, ts)
  | "R" :: ts => do
    let (name, ts) ← popX ts
    let (ins, ts) ← popList popReqInput ts
    let (sts, ts) ← popList popReqValue ts
    let (ps, ts) ← popList popReqValue ts
    pure (.inl { name := name, inputs := ins, states := sts, parameters := ps }, ts)
  | _ => none

def popCat (ts : Toks) : Option (Option (ModelDesc Float) × Toks) :=
  match ts with
  | "none" :: ts => some (none, ts)
  | "desc" :: ts => do
    let (ps, ts) ← popList popParamDesc ts
    let (ins, ts) ← popList popX ts
    let (sts, ts) ← popList popX ts
    let (outs, ts) ← popList popX ts
    pure (some { params := ps, inputs := ins, states := sts, outputs := outs }, ts)
  | _ => none

def popMatrix (ts : Toks) : Option (List (List Float) × Toks) := do
  let (n, ts) ← popN ts
  let (t, ts) ← popN ts
  popMany (popMany popF t) n ts

def popInit (ts : Toks) : Option (Option (Except String Unit) × Toks) :=
  match ts with
  | "-" :: ts => some (none, ts)
  | "ok" :: ts => some (some (.ok ()), ts)
  | "panic" :: cls :: ts => some (some (.error cls), ts)
  | _ => none

def popRun (ts : Toks) : Option (Option (RunRes Float) × Toks) :=
  match ts with
  | "-" :: ts => some (none, ts)
  | "ok" :: ts => do
    let (outs, ts) ← popMatrix ts
    let (st, ts) ← popFs ts
    pure (some (.ok outs st), ts)
  | "panic" :: cls :: ts => some (some (.panic cls), ts)
  | "died" :: cls :: ts => some (some (.died cls), ts)
  | _ => none

def bitsEq (a b : List Float) : Bool := a.map (·.toBits) == b.map (·.toBits)

def fmtEnding : Ending → String
  | .returned => "returned"
  | .panicked cls => "panicked " ++ cls
  | .died cls => "died " ++ cls

/-- a process killed by a panic in another goroutine is what the harness reports as `panic <class>` -/
def fmtResponse (r : Response Float) : String :=
  match r.ending with
  | .died cls => "panic " ++ cls
  | e => joinToks ("w" :: toString r.written.length :: (r.written.flatMap tokens) ++ ["end", fmtEnding e])

def handleJSON (args : Toks) : String :=
  match (do
    let (split, ts) ← popN args
    let ts ← (match ts with | _ :: ts => some ts | [] => none)   -- the request bytes (hex): not read by the model
    let ts ← expect "D" ts
    let (req, ts) ← popDecoded ts
    let ts ← expect "C" ts
    let (cat, ts) ← popCat ts
    let ts ← expect "I" ts
    let (ini, ts) ← popInit ts
    let ts ← expect "K" ts
    let (kp, ts) ← popFs ts
    let (kin, ts) ← popMatrix ts
    let ts ← expect "U" ts
    let (run, _) ← popRun ts
    pure (split, req, cat, ini, kp, kin, run)) with
  | none => "bad-op"
  | some (split, req, cat, ini, kp, kin, run) =>
    let name := match req with | .inl m => m.name | .inr _ => ""
    -- the catalogue and the kernel as the one-entry tables the harness filled by direct calls
    let catF : String → Option (ModelDesc Float) := fun n => if n == name then cat else none
    let K : Kernel Float :=
      { init := fun p => match ini with
          | some r => if bitsEq p kp then r else .error "table-miss"
          | none => .error "table-miss"
        run := fun p ins => match run with
          | some r => if bitsEq p kp && ins.length == kin.length && bitsEq ins.flatten kin.flatten
                        && (ins.zip kin).all (fun (a, b) => a.length == b.length) then r else .died "table-miss"
          | none => .died "table-miss" }
    fmtResponse (respond catF K (split == 1) req)

end OW.Driver.Json
