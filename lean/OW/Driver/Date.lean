import OW.Driver.Proto
import OW.Util.Dates
namespace OW.Driver.Date
open OW.Proto OW.Dates

/-- `DATE id d m y n` → `ok n (d m y doy)*` | `panic` -/
def handle (args : Toks) : String :=
  match (do
    let (d, ts) ← popI args
    let (m, ts) ← popI ts
    let (y, ts) ← popI ts
    let (n, _) ← popN ts
    pure (d, m, y, n)) with
  | none => "bad-op"
  | some (d, m, y, n) =>
    match run n ⟨d, m, y⟩ with
    | none => "panic index-out-of-range"
    | some rows =>
      joinToks ("ok" :: toString n :: rows.flatMap fun r => [toString r.date, toString r.month, toString r.year, toString r.doy])

end OW.Driver.Date
