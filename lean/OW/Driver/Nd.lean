import OW.Driver.Proto
import OW.Nd.Array
import OW.Nd.CInt
/-
`ND id backend eltype nops op…`: one line = one program on a fresh heap; element values are integers representable in
all 8 element types, so the model runs at `α = Int` — EXCEPT that programs of the `int` / `uint` instantiations may write
values outside the 32-bit range: the C back-end of these two holds `C.int` / `C.uint` (32 bit) where the Go back-end holds
64 bit. That width is modelled here (`OW/Nd/CInt.lean`): for `eltype ∈ {int, uint}` the storages created by `cwrap` are
narrowed after every operation (= narrowing on every write through a C-backed view).
Output: per op `ok …` / `err <class>` / `panic <class>` separated by `;`, the run halts at the first panic;
then the dump of all storages `H n (len vals…)…`.
-/
namespace OW.Driver.Nd
open OW.Proto OW.Nd

structure St where
  heap : Heap Int := []
  views : Array (Option Arr) := #[]
  out : Array String := #[]
  halted : Bool := false
  /-- `some signed` for the `int` / `uint` instantiations (C element type 32 bit wide), `none` otherwise -/
  narrow : Option Bool := none
  /-- the storages that are C buffers (created by `cwrap`) -/
  cSids : List Nat := []

def fmtArr (a : Arr) : String :=
  joinToks [toString a.sid, toString a.base, toString a.len, (if a.isC then "1" else "0"),
    fmtIs a.v.orig, fmtIs a.v.dims, toString a.v.start, fmtIs a.v.offset, fmtIs a.v.step, fmtIs a.v.offStep]

def popOptIs (ts : Toks) : Option (Option Idx × Toks) := do
  let (f, ts) ← popN ts
  if f == 0 then pure (none, ts) else do
    let (s, ts) ← popIs ts
    pure (some s, ts)

/-- result of one op: text, new heap, optionally a new view slot -/
structure OpRes where
  text : String
  heap : Option (Heap Int) := none
  newView : Option (Option Arr) := none
  panic : Bool := false
  /-- the op wrapped a new C buffer: its storage id -/
  cSid : Option Nat := none

def ofR {β} (r : R β) (k : β → OpRes) : OpRes :=
  match r with
  | .ok b => k b
  | .error e => { text := "panic " ++ e, panic := true }

def getView (s : St) (i : Nat) : Option Arr := (s.views[i]?).join

def fmtSlice (h : Heap Int) (sl : Slice Int) : String :=
  match sl with
  | .fresh vs => "fresh " ++ fmtIs vs
  | .alias sid lo n =>
    match sliceVals h (.alias sid lo n) with
    | .ok vs => joinToks ["alias", toString sid, toString lo, fmtIs vs]
    | .error e => "panic " ++ e

def reshapeRes (r : R (Heap Int × (String ⊕ Arr))) : OpRes :=
  ofR r fun (h, x) =>
    match x with
    | .inl e => { text := "err " ++ e, heap := some h, newView := some none }
    | .inr a => { text := "ok " ++ fmtArr a, heap := some h, newView := some (some a) }

/-- parse and run one op; returns remaining tokens -/
def runOp (s : St) (ts : Toks) : Option (OpRes × Toks) :=
  match ts with
  | [] => none
  | op :: ts =>
    let h := s.heap
    let withView (ts : Toks) (k : Arr → Toks → Option (OpRes × Toks)) : Option (OpRes × Toks) := do
      let (vi, ts) ← popN ts
      match getView s vi with
      | some a => k a ts
      | none =>
        -- the view does not exist (its creation failed): parse the rest of the op anyway
        match k default ts with
        | some (_, ts') => some ({ text := "skip" }, ts')
        | none => none
    match op with
    | "new" => do
      let (dims, ts) ← popIs ts
      pure (ofR (newArray 0 h dims) fun (h', a) => { text := "ok " ++ fmtArr a, heap := some h', newView := some (some a) }, ts)
    | "gslice" => do
      let (vals, ts) ← popIs ts
      let (dims, ts) ← popIs ts
      let (h', sid) := alloc h vals
      pure (ofR (fromStore h' sid dims) fun a => { text := "ok " ++ fmtArr a, heap := some h', newView := some (some a) }, ts)
    | "cwrap" => do
      let (vals, ts) ← popIs ts
      let (dims, ts) ← popIs ts
      let (h', sid) := alloc h vals
      pure (ofR (fromC h' sid dims) fun a => { text := "ok " ++ fmtArr a, heap := some h', newView := some (some a), cSid := some sid }, ts)
    | "slice" => withView ts fun a ts => do
      let (loc, ts) ← popIs ts
      let (dims, ts) ← popIs ts
      let (step, ts) ← popOptIs ts
      pure (ofR (slice a loc dims step) fun b => { text := "ok " ++ fmtArr b, newView := some (some b) }, ts)
    | "get" => withView ts fun a ts => do
      let (loc, ts) ← popIs ts
      pure (ofR (get h a loc) fun x => { text := "ok " ++ toString x }, ts)
    | "set" => withView ts fun a ts => do
      let (loc, ts) ← popIs ts
      let (x, ts) ← popI ts
      pure (ofR (set h a loc x) fun h' => { text := "ok", heap := some h' }, ts)
    | "apply" => withView ts fun a ts => do
      let (loc, ts) ← popIs ts
      let (dim, ts) ← popI ts
      let (step, ts) ← popI ts
      let (vals, ts) ← popIs ts
      pure (ofR (apply h a loc dim step vals) fun h' => { text := "ok", heap := some h' }, ts)
    | "aslice" => withView ts fun a ts => do
      let (loc, ts) ← popIs ts
      let (step, ts) ← popOptIs ts
      let (si, ts) ← popN ts
      match getView s si with
      | none => pure ({ text := "skip" }, ts)
      | some src => pure (ofR (applySlice h a loc step src) fun h' => { text := "ok", heap := some h' }, ts)
    | "copy" => withView ts fun a ts => do
      let (si, ts) ← popN ts
      match getView s si with
      | none => pure ({ text := "skip" }, ts)
      | some src => pure (ofR (copyFrom h a src) fun h' => { text := "ok", heap := some h' }, ts)
    | "unroll" => withView ts fun a ts =>
      pure (ofR (unroll h a) fun sl => { text := "ok " ++ fmtSlice h sl }, ts)
    | "reshape" => withView ts fun a ts => do
      let (shape, ts) ← popIs ts
      pure (reshapeRes (reshape h a shape), ts)
    | "rfast" => withView ts fun a ts => do
      let (shape, ts) ← popIs ts
      pure (reshapeRes (reshapeFast h a shape), ts)
    | "must" => withView ts fun a ts => do
      let (shape, ts) ← popIs ts
      pure (ofR (mustReshape h a shape) fun (h', b) => { text := "ok " ++ fmtArr b, heap := some h', newView := some (some b) }, ts)
    | "contig" => withView ts fun a ts =>
      pure (ofR a.v.contiguous fun b => { text := "ok " ++ (if b then "1" else "0") }, ts)
    | "get1" => withView ts fun a ts => do
      let (i, ts) ← popI ts
      pure (ofR (get1 h a i) fun x => { text := "ok " ++ toString x }, ts)
    | "set1" => withView ts fun a ts => do
      let (i, ts) ← popI ts
      let (x, ts) ← popI ts
      pure (ofR (set1 h a i x) fun h' => { text := "ok", heap := some h' }, ts)
    | "apply1" => withView ts fun a ts => do
      let (i, ts) ← popI ts
      let (step, ts) ← popI ts
      let (vals, ts) ← popIs ts
      pure (ofR (apply1 h a i step vals) fun h' => { text := "ok", heap := some h' }, ts)
    | "get2" => withView ts fun a ts => do
      let (i, ts) ← popI ts
      let (j, ts) ← popI ts
      pure (ofR (get h a [i, j]) fun x => { text := "ok " ++ toString x }, ts)
    | "set2" => withView ts fun a ts => do
      let (i, ts) ← popI ts
      let (j, ts) ← popI ts
      let (x, ts) ← popI ts
      pure (ofR (set h a [i, j] x) fun h' => { text := "ok", heap := some h' }, ts)
    | "get3" => withView ts fun a ts => do
      let (i, ts) ← popI ts
      let (j, ts) ← popI ts
      let (k, ts) ← popI ts
      pure (ofR (get h a [i, j, k]) fun x => { text := "ok " ++ toString x }, ts)
    | "set3" => withView ts fun a ts => do
      let (i, ts) ← popI ts
      let (j, ts) ← popI ts
      let (k, ts) ← popI ts
      let (x, ts) ← popI ts
      pure (ofR (set h a [i, j, k] x) fun h' => { text := "ok", heap := some h' }, ts)
    | "max" => withView ts fun a ts =>
      pure (ofR (extremum (fun v r => decide (v > r)) h a) fun x => { text := "ok " ++ toString x }, ts)
    | "min" => withView ts fun a ts =>
      pure (ofR (extremum (fun v r => decide (v < r)) h a) fun x => { text := "ok " ++ toString x }, ts)
    | "scale" => withView ts fun a ts => do
      let (si, ts) ← popN ts
      let (k, ts) ← popI ts
      match getView s si with
      | none => pure ({ text := "skip" }, ts)
      | some src => pure (ofR (zipWithInto (fun _ x => x * k) h a src) fun h' => { text := "ok", heap := some h' }, ts)
    | "addto" => withView ts fun a ts => do
      let (si, ts) ← popN ts
      match getView s si with
      | none => pure ({ text := "skip" }, ts)
      | some src => pure (ofR (zipWithInto (fun d x => d + x) h a src) fun h' => { text := "ok", heap := some h' }, ts)
    | "len" => withView ts fun a ts => do
      let (ax, ts) ← popI ts
      pure (ofR (if ax < 0 then oob else a.v.len ax.toNat) fun x => { text := "ok " ++ toString x }, ts)
    | "shape" => withView ts fun a ts =>
      pure ({ text := "ok " ++ fmtIs a.v.dims }, ts)
    | _ => none

def runProg : Nat → St → Toks → St
  | 0, s, _ => s
  | n + 1, s, ts =>
    if s.halted then s else
    match runOp s ts with
    | none => { s with out := s.out.push "bad-op", halted := true }
    | some (r, ts') =>
      let s := { s with out := s.out.push r.text }
      let s := match r.cSid with | some sid => { s with cSids := sid :: s.cSids } | none => s
      let s := match r.heap with
        | some h =>
          match s.narrow with
          | some signed => { s with heap := narrowHeap signed s.cSids h }   -- C.int / C.uint are 32 bit wide
          | none => { s with heap := h }
        | none => s
      let s := match r.newView with | some v => { s with views := s.views.push v } | none => s
      if r.panic then { s with halted := true } else runProg n s ts'

def fmtHeap (h : Heap Int) : String :=
  joinToks ("H" :: toString h.length :: h.map fmtIs)

def handle (args : Toks) : String :=
  match args with
  | _backend :: elt :: rest =>
    match popN rest with
    | none => "bad-op"
    | some (nops, ts) =>
      let narrow : Option Bool := if elt == "int" then some true else if elt == "uint" then some false else none
      let s := runProg nops { narrow := narrow } ts
      " ; ".intercalate s.out.toList ++ " ; " ++ (if s.halted then "halt" else fmtHeap s.heap)
  | _ => "bad-op"

end OW.Driver.Nd

namespace OW.Driver.Nd
open OW.Proto OW.Nd

/-- `NDPAIR id tag elt nops …` with `root` ops: run on Go-backed and on C-backed roots -/
def handlePair (args : Toks) : String :=
  handle (args.map fun t => if t == "root" then "gslice" else t) ++ " || " ++
  handle (args.map fun t => if t == "root" then "cwrap" else t)

def fmtR (r : R String) : String :=
  match r with
  | .ok s => "ok " ++ s
  | .error e => "panic " ++ e

/-- apply `increment` k times -/
def incK : Nat → Idx → Idx → R Idx
  | 0, v, _ => .ok v
  | k + 1, v, w => do let v' ← increment v w; incK k v' w

/-- `NI id fn args…` -/
def handleNI (args : Toks) : String :=
  match args with
  | "offsets" :: ts =>
    match popIs ts with
    | some (d, _) => fmtR ((offsets d).map fmtIs)
    | none => "bad-op"
  | "idivmod" :: ts =>
    match (do let (n, ts) ← popI ts; let (a, ts) ← popIs ts; let (b, _) ← popIs ts; pure (n, a, b)) with
    | some (n, a, b) => fmtR ((idivmod n a b).map fmtIs)
    | none => "bad-op"
  | "increment" :: ts =>
    match (do let (k, ts) ← popN ts; let (a, ts) ← popIs ts; let (b, _) ← popIs ts; pure (k, a, b)) with
    | some (k, a, b) => fmtR ((incK k a b).map fmtIs)
    | none => "bad-op"
  | "product" :: ts =>
    match popIs ts with
    | some (d, _) => "ok " ++ toString (productL d)
    | none => "bad-op"
  | "multiply" :: ts =>
    match (do let (a, ts) ← popIs ts; let (b, _) ← popIs ts; pure (a, b)) with
    | some (a, b) => fmtR ((multiply a b).map fmtIs)
    | none => "bad-op"
  | "argmax" :: ts =>
    match popIs ts with
    | some (d, _) => fmtR ((argmax d).map toString)
    | none => "bad-op"
  | "maximum" :: ts =>
    match popIs ts with
    | some (d, _) => fmtR ((maximum d).map toString)
    | none => "bad-op"
  | _ => "bad-op"

end OW.Driver.Nd
