import OW.Driver.Proto
import OW.Driver.Kernel
import OW.Sim.Wrapper
/-
`W id Model backend nPar (spec: -1 | k)… nRows nSets params… nBlocks nI T inputs… init N nS states… outCells nO outT outputs…`
  → `ok outCells nO outT outputs… N nS states…` | `panic <class>`
One vectorised `Run` call through the real wrapper = one line (C04, C05).
-/
namespace OW.Driver.Wrapper
open OW OW.Proto OW.Sim

def popGrid (rows cols : Nat) (ts : Toks) : Option (List (List Float) × Toks) :=
  popMany (popMany popF cols) rows ts

def popCube (a b c : Nat) (ts : Toks) : Option (List (List (List Float)) × Toks) :=
  popMany (popMany (popMany popF c) b) a ts

def fmtCube (x : List (List (List Float))) : List String :=
  x.flatMap fun m => m.flatMap fun r => r.map fmtF

def handle (args : Toks) : String :=
  match args with
  | name :: _backend :: rest =>
    match (do
      let (spec, ts) ← popIs rest
      let (nRows, ts) ← popN ts
      let (nSets, ts) ← popN ts
      let (params, ts) ← popGrid nRows nSets ts
      let (nB, ts) ← popN ts
      let (nI, ts) ← popN ts
      let (T, ts) ← popN ts
      let (inputs, ts) ← popCube nB nI T ts
      let (init, ts) ← popN ts
      let (N, ts) ← popN ts
      let (nS, ts) ← popN ts
      let (states, ts) ← popGrid (if init == 1 then 0 else N) nS ts
      let (oc, ts) ← popN ts
      let (nO, ts) ← popN ts
      let (oT, ts) ← popN ts
      let (outs, _) ← popCube oc nO oT ts
      pure (spec, params, inputs, init, N, states, outs, T)) with
    | none => "bad-op"
    | some (spec, params, inputs, init, N, states, outs, _T) =>
      match Kernels.find (α := Float) name with
      | none => "panic no-model"
      | some km =>
        let pspec : ParamSpec := spec.map fun k => if k < 0 then none else some k.toNat
        let x : RunIn Float := { params := params, inputs := inputs,
                                 states := if init == 1 then none else some states, nCells := N, outputs := outs }
        match Sim.run km pspec x with
        | .error e => "panic " ++ e
        | .ok r =>
          let oc := r.outputs.length
          let nO := (r.outputs.head?.map (·.length)).getD 0
          let oT := ((r.outputs.head?.bind (·.head?)).map (·.length)).getD 0
          let nS := (r.states.head?.map (·.length)).getD 0
          joinToks (["ok", toString oc, toString nO, toString oT] ++ fmtCube r.outputs ++
            [toString r.states.length, toString nS] ++ r.states.flatMap (·.map fmtF) ++
            -- in the model the frame and per-cell independence hold by construction; the real code is checked in the worker
            ["||", "frame=ok", "cells=ok"])
  | _ => "bad-op"

/-- family CABI: the library runs inside a C caller; a Go panic there kills the caller: `panic crash` whatever the class -/
def handleCabi (args : Toks) : String :=
  let r := handle args
  if r.startsWith "panic" then "panic crash" else r

end OW.Driver.Wrapper
