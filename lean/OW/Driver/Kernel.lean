import OW.Driver.Proto
import OW.Kernels.Registry
/-
`K id Model init np p… ni T in… ns s…`  →  `ok no T out… ns states… [| tags]`  |  `panic <class>`
One real `Run` call on one cell = one line. Used by every kernel-level family (K, KSPLIT, KHIST, …).
-/
namespace OW.Driver.Kernel
open OW OW.Proto

def popSeries (ts : Toks) : Option (List (List Float) × Toks) := do
  let (ni, ts) ← popN ts
  let (t, ts) ← popN ts
  popMany (popMany popF t) ni ts

def fmtRes (r : KRes Float) (T : Nat) : String :=
  match r with
  | .error e => "panic " ++ e
  | .ok o =>
    let body := joinToks ("ok" :: toString o.outputs.length :: toString T :: (o.outputs.flatMap (·.map fmtF)) ++ [fmtFs o.states])
    if o.tags.isEmpty then body else body ++ " | " ++ joinToks o.tags

/-- run one call; returns result and T -/
def runCall (name : String) (init : Nat) (p : List Float) (ins : List (List Float)) (st : List Float) : KRes Float :=
  match Kernels.find (α := Float) name with
  | none => .error "no-model"
  | some m =>
    if init == 1 then
      match m.init p with
      | .error e => .error e
      | .ok s0 => m.run p ins s0
    else m.run p ins st

def handle (args : Toks) : String :=
  match args with
  | name :: rest =>
    match (do
      let (init, ts) ← popN rest
      let (p, ts) ← popFs ts
      let (ins, ts) ← popSeries ts
      let (st, _) ← popFs ts
      pure (init, p, ins, st)) with
    | none => "bad-op"
    | some (init, p, ins, st) =>
      let T := match ins with | s :: _ => s.length | [] => 0
      fmtRes (runCall name init p ins st) T
  | _ => "bad-op"

end OW.Driver.Kernel
