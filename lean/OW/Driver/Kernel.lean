import OW.Driver.Proto
import OW.Kernels.Registry
/-
`K id Model init np p… ni T in… ns s…`  →  `ok no T out… ns states… [| tags]`  |  `panic <class>`
One real `Run` call on one cell = one line. Used by every kernel-level family (K, KSPLIT, KHIST, …).
-/
namespace OW.Driver.Kernel
open OW OW.Proto

def popSeries (ts : Toks) : Option (List (List Float) × Toks) := do
  let (ni, ts) ← popN ts
  let (t, ts) ← popN ts
  popMany (popMany popF t) ni ts

def fmtRes (r : KRes Float) (T : Nat) : String :=
  match r with
  | .error e => "panic " ++ e
  | .ok o =>
    let body := joinToks ("ok" :: toString o.outputs.length :: toString T :: (o.outputs.flatMap (·.map fmtF)) ++ [fmtFs o.states])
    if o.tags.isEmpty then body else body ++ " | " ++ joinToks o.tags

/-- run one call; returns result and T -/
def runCall (name : String) (init : Nat) (p : List Float) (ins : List (List Float)) (st : List Float) : KRes Float :=
  match Kernels.find (α := Float) name with
  | none => .error "no-model"
  | some m =>
    if init == 1 then
      match m.init p with
      | .error e => .error e
      | .ok s0 => m.run p ins s0
    else m.run p ins st

def handle (args : Toks) : String :=
  match args with
  | name :: rest =>
    match (do
      let (init, ts) ← popN rest
      let (p, ts) ← popFs ts
      let (ins, ts) ← popSeries ts
      let (st, _) ← popFs ts
      pure (init, p, ins, st)) with
    | none => "bad-op"
    | some (init, p, ins, st) =>
      let T := match ins with | s :: _ => s.length | [] => 0
      fmtRes (runCall name init p ins st) T
  | _ => "bad-op"

end OW.Driver.Kernel

namespace OW.Driver.Kernel
open OW OW.Proto

/-- parse the common `Model init p ins st` prefix -/
def popCall (ts : Toks) : Option ((String × Nat × List Float × List (List Float) × List Float) × Toks) :=
  match ts with
  | name :: rest => do
    let (init, ts) ← popN rest
    let (p, ts) ← popFs ts
    let (ins, ts) ← popSeries ts
    let (st, ts) ← popFs ts
    pure ((name, init, p, ins, st), ts)
  | [] => none

def fmtOk (o : KOut Float) (T : Nat) : String :=
  joinToks (toString o.outputs.length :: toString T :: (o.outputs.flatMap (·.map fmtF)) ++ [fmtFs o.states])

/-- split a list at the cumulative positions `ks` -/
def splitAts {β} (xs : List β) : List Nat → Nat → List (List β)
  | [], _ => [xs]
  | k :: ks, done => xs.take (k - done) :: splitAts (xs.drop (k - done)) ks k

/-- `KSPLIT id Model init p ins st nsplit k1 … kn` → `ok <whole> ## <split>`:
the whole period in one call, and the same period in consecutive calls that carry the final states forward. -/
def handleSplit (args : Toks) : String :=
  match popCall args with
  | none => "bad-op"
  | some ((name, init, p, ins, st), ts) =>
    match popNs ts with
    | none => "bad-op"
    | some (ks, _) =>
      let T := match ins with | s :: _ => s.length | [] => 0
      match runCall name init p ins st with
      | .error e => "panic " ++ e
      | .ok whole =>
        -- consecutive segments
        let segs : List (List (List Float)) :=
          -- per segment: the slice of every input series
          let cuts := ks
          let perInput := ins.map fun s => splitAts s cuts 0
          (List.range (ks.length + 1)).map fun j => perInput.map fun parts => parts[j]?.getD []
        let rec go (segs : List (List (List Float))) (first : Bool) (st : List Float) (nOut : Nat)
            (acc : List (List Float)) : Except String (List (List Float) × List Float) :=
          match segs with
          | [] => .ok (acc, st)
          | sg :: rest =>
            match runCall name (if first then init else 0) p sg st with
            | .error e => .error e
            | .ok r =>
              let acc' := if acc.isEmpty then r.outputs else (acc.zip r.outputs).map fun (a, b) => a ++ b
              go rest false r.states nOut acc'
        match go segs true st whole.outputs.length [] with
        | .error e => "panic " ++ e
        | .ok (outs, sf) =>
          "ok " ++ fmtOk whole T ++ " ## " ++ fmtOk { outputs := outs, states := sf } T
    
/-- `KHIST id nruns (slot ntoks call…)…` → `ok (status result…)…` one result per run. The model is history-free:
every run is computed from its own parameters, states and inputs only. -/
def handleHist (args : Toks) : String :=
  match popN args with
  | none => "bad-op"
  | some (n, ts) =>
    let rec go : Nat → Toks → List String → String
      | 0, _, acc => joinToks ("ok" :: acc.reverse)
      | k + 1, ts, acc =>
        match (do
          let (_slot, ts) ← popN ts
          let (len, ts) ← popN ts
          pure (ts.take len, ts.drop len)) with
        | none => "bad-op"
        | some (call, rest) =>
          match popCall call with
          | none => "bad-op"
          | some ((name, init, p, ins, st), _) =>
            let T := match ins with | s :: _ => s.length | [] => 0
            -- a panic in a kernel goroutine kills the process: the whole history reports it
            match runCall name init p ins st with
            | .error e => "panic " ++ e
            | .ok o => go k rest (("run " ++ fmtOk o T) :: acc)
    go n ts []

end OW.Driver.Kernel

namespace OW.Driver.Kernel
/-- `KLIST id` → names of all kernel models in the registry -/
def handleList (_ : OW.Proto.Toks) : String :=
  OW.Proto.joinToks ("ok" :: (OW.Kernels.all (α := Float)).map (·.name))
end OW.Driver.Kernel
