import OW.Driver.Proto
import OW.Driver.Date
import OW.Driver.Kernel
import OW.Driver.Fn
import OW.Driver.Nd
import OW.Driver.Wrapper
import OW.Driver.Json
import OW.Driver.H5
import OW.Driver.Sim
namespace OW.Driver
open OW.Proto

/-- family name → handler of the remaining tokens (after the case id) -/
def dispatch (fam : String) (args : Toks) : String :=
  match fam with
  | "DATE" => Date.handle args
  | "K" => Kernel.handle args
  | "KSPEC" => Kernel.handle args
  | "KLIST" => Kernel.handleList args
  | "KSPLIT" => Kernel.handleSplit args
  | "KHIST" => Kernel.handleHist args
  | "W" => Wrapper.handle args
  | "CABI" => Wrapper.handleCabi args
  | "ND" => Nd.handle args
  | "NDPAIR" => Nd.handlePair args
  | "NI" => Nd.handleNI args
  | "FR" => Fn.handleFR args
  | "PW" => Fn.handlePW args
  | "JSON" => Json.handleJSON args
  | "JSA" => Json.handleJSA args
  | "H5" => H5.handle args
  | "H5U" => H5.handleU args
  | "SIM" => Sim.handle args
  | "SIMTRACE" => Sim.handleTrace args
  | _ => "bad-family"

def handleLine (line : String) : String :=
  match (line.trimAscii.toString.splitOn " ").filter (· ≠ "") with
  | fam :: id :: args => id ++ " " ++ dispatch fam args
  | _ => "? bad-line"

end OW.Driver
