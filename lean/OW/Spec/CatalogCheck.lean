/-!
C09, catalogue part — what it means that the real model catalogue lists what the OW-SPEC blocks declare.

Hand-written, core Lean only. The DATA (one `Model` per OW-SPEC block as read by the independent extractor
`harness/cmd/owextract`, one `Model` per key of the real `sim.Catalog` as dumped by `owharness catalog`) is
regenerated into `OW/Gen/Catalog.lean` on every run of `bin/check C09`; there `checkCatalog specs descs = true`
is evaluated by the Lean kernel (`decide`), and `checkCatalog_sound` below turns that Boolean into the readable
statement `∀ s ∈ specs, ∃ d ∈ descs, Agrees s d`.

Numbers (default, range bounds) are IEEE-754 bit patterns of the float64 values, as `Nat`, so equality is
decidable by computation (`+0` and `-0` differ; no NaN occurs in a spec).
-/
namespace OW.Spec.Catalog

/-- One parameter: of a spec block (`name[dims]: '[lo,hi] text, default=x'`; a missing default is 0, a missing
range `[0,0]`, an empty bound is an open end) or of a `sim.ParameterDescription`. -/
structure Par where
  name : String
  dims : List String
  default : Nat
  lo : Nat
  hi : Nat
  loOpen : Bool
  hiOpen : Bool
deriving DecidableEq, Repr

/-- One model: of a spec block (`name` = `type` = the declared name, `pkg` = import path of the file's directory)
or of the catalogue (`name` = key in `sim.Catalog`, `type`/`pkg` = the Go type its factory builds). -/
structure Model where
  name : String
  type : String
  pkg : String
  params : List Par
  inputs : List String
  states : List String
  outputs : List String
deriving DecidableEq, Repr

/-- A spec range is compared only when both ends are closed. A range with an open end (`[0,]`) cannot be produced by
the present generator at all (known finding `catalog:<Model>.<param>:half-open-range`, reported by the check's
oracle channel); it is exempt here so that this theorem speaks about everything else. -/
def Par.closed (s : Par) : Bool := !s.loOpen && !s.hiOpen

def Par.matches (s d : Par) : Bool :=
  d.name == s.name && d.dims == s.dims && d.default == s.default &&
  (!s.closed || (d.lo == s.lo && d.hi == s.hi && !d.loOpen && !d.hiOpen))

/-- same length, pointwise `Par.matches`, in order -/
def parsMatch : List Par → List Par → Bool
  | [], [] => true
  | s :: ss, d :: ds => s.matches d && parsMatch ss ds
  | _, _ => false

def Model.matches (s d : Model) : Bool :=
  d.name == s.name && d.type == s.type && d.pkg == s.pkg && parsMatch s.params d.params &&
  d.inputs == s.inputs && d.states == s.states && d.outputs == s.outputs

def noDup : List String → Bool
  | [] => true
  | x :: xs => !xs.contains x && noDup xs

/-- Every spec model is in the catalogue under its name with a matching description; no two spec blocks declare
the same name (their registrations would overwrite each other). -/
def checkCatalog (specs descs : List Model) : Bool :=
  noDup (specs.map (·.name)) && specs.all (fun s => descs.any (fun d => s.matches d))

/-! ### What the Boolean means -/

/-- Parameter `d` of the catalogue lists what parameter `s` of the spec declares. -/
structure ParAgrees (s d : Par) : Prop where
  name : d.name = s.name
  dims : d.dims = s.dims
  default : d.default = s.default
  range : s.loOpen = false → s.hiOpen = false → d.lo = s.lo ∧ d.hi = s.hi ∧ d.loOpen = false ∧ d.hiOpen = false

/-- The parameter lists agree position by position (same length, same order). -/
inductive ParsAgree : List Par → List Par → Prop
  | nil : ParsAgree [] []
  | cons {s d ss ds} : ParAgrees s d → ParsAgree ss ds → ParsAgree (s :: ss) (d :: ds)

/-- Catalogue entry `d` is spec model `s`: registered under the spec's name, built from the type of that name in
the spec's package, and its Description lists the spec's parameters, inputs, states and outputs in spec order. -/
structure Agrees (s d : Model) : Prop where
  name : d.name = s.name
  type : d.type = s.type
  pkg : d.pkg = s.pkg
  params : ParsAgree s.params d.params
  inputs : d.inputs = s.inputs
  states : d.states = s.states
  outputs : d.outputs = s.outputs

theorem Par.matches_sound {s d : Par} (h : s.matches d = true) : ParAgrees s d := by
  simp only [Par.matches, Par.closed, Bool.and_eq_true, Bool.or_eq_true, beq_iff_eq,
    Bool.not_eq_eq_eq_not, Bool.not_true, Bool.and_eq_false_imp] at h
  obtain ⟨⟨⟨h1, h2⟩, h3⟩, h4⟩ := h
  refine ⟨h1, h2, h3, ?_⟩
  intro a b
  rcases h4 with h4 | h4
  · rw [a] at h4
    simp at h4
    rw [b] at h4
    exact absurd h4 (by decide)
  · obtain ⟨⟨⟨x, y⟩, z⟩, w⟩ := h4
    exact ⟨x, y, z, w⟩

theorem parsMatch_sound : ∀ {ss ds : List Par}, parsMatch ss ds = true → ParsAgree ss ds
  | [], [], _ => .nil
  | s :: ss, d :: ds, h => by
    simp only [parsMatch, Bool.and_eq_true] at h
    exact .cons (Par.matches_sound h.1) (parsMatch_sound h.2)
  | [], _ :: _, h => by simp [parsMatch] at h
  | _ :: _, [], h => by simp [parsMatch] at h

theorem ParsAgree.length_eq {ss ds : List Par} (h : ParsAgree ss ds) : ds.length = ss.length := by
  induction h with
  | nil => rfl
  | cons _ _ ih => simp [ih]

theorem ParsAgree.names_eq {ss ds : List Par} (h : ParsAgree ss ds) : ds.map (·.name) = ss.map (·.name) := by
  induction h with
  | nil => rfl
  | cons h _ ih => simp [ih, h.name]

theorem Model.matches_sound {s d : Model} (h : s.matches d = true) : Agrees s d := by
  simp only [Model.matches, Bool.and_eq_true, beq_iff_eq] at h
  obtain ⟨⟨⟨⟨⟨⟨h1, h2⟩, h3⟩, h4⟩, h5⟩, h6⟩, h7⟩ := h
  exact ⟨h1, h2, h3, parsMatch_sound h4, h5, h6, h7⟩

/-- The readable content of `checkCatalog specs descs = true`. -/
theorem checkCatalog_sound {specs descs : List Model} (h : checkCatalog specs descs = true) :
    ∀ s ∈ specs, ∃ d ∈ descs, Agrees s d := by
  simp only [checkCatalog, Bool.and_eq_true, List.all_eq_true, List.any_eq_true] at h
  intro s hs
  obtain ⟨d, hd, hm⟩ := h.2 s hs
  exact ⟨d, hd, Model.matches_sound hm⟩

end OW.Spec.Catalog
