/-
Independent specification of the proleptic Gregorian calendar (not derived from the Go code):
leap rule, month lengths, and the day ordinal (days since 0001-01-01 = 1).
-/
namespace OW.Spec.Calendar

def isLeap (y : Int) : Prop := y % 4 = 0 ∧ (y % 100 ≠ 0 ∨ y % 400 = 0)

instance (y : Int) : Decidable (isLeap y) := by unfold isLeap; infer_instance

def monthLen (m y : Int) : Int :=
  if m = 2 then (if isLeap y then 29 else 28)
  else if m = 4 ∨ m = 6 ∨ m = 9 ∨ m = 11 then 30 else 31

/-- days of the year before month `m` (1-based) -/
def daysBefore (m y : Int) : Int :=
  (if m = 1 then 0 else if m = 2 then 31 else if m = 3 then 59 else if m = 4 then 90
   else if m = 5 then 120 else if m = 6 then 151 else if m = 7 then 181 else if m = 8 then 212
   else if m = 9 then 243 else if m = 10 then 273 else if m = 11 then 304 else 334)
  + (if m > 2 ∧ isLeap y then 1 else 0)

def Valid (d m y : Int) : Prop := 1 ≤ m ∧ m ≤ 12 ∧ 1 ≤ d ∧ d ≤ monthLen m y

instance (d m y : Int) : Decidable (Valid d m y) := by unfold Valid; infer_instance

/-- number of days from 0001-01-01 (ordinal 1); floor division, so it is right for y ≤ 0 as well -/
def ordinal (d m y : Int) : Int :=
  365 * (y - 1) + (y - 1) / 4 - (y - 1) / 100 + (y - 1) / 400 + daysBefore m y + d

end OW.Spec.Calendar
