import OW.Kernels.Basic
/-
Independent specification of the daily GR4J model, written from

  C. Perrin, C. Michel, V. Andréassian (2003), "Improvement of a parsimonious model for streamflow simulation",
  J. Hydrology 279, 275–289, §3 and appendix (eqs. 1–22),

NOT from models/rr/gr4j.go. Core Lean only, generic in `Num α`: executable at `Float` (differential run against the
Go implementation, family KSPEC) and unfolded to real arithmetic at `ℝ` (theorems in OW/Props/C15.lean).

Notation of the paper: P rainfall, E potential evapotranspiration, Pn/En net rainfall / net evapotranspiration,
S production store (capacity x1), Ps/Es the part of Pn entering / of En leaving it, Perc percolation,
Pr = Perc + (Pn − Ps) the water reaching the routing part, split 90 % / 10 % through the unit hydrographs
UH1 (time base x4) and UH2 (time base 2·x4), F groundwater exchange (coefficient x2), R routing store
(capacity x3), Qr its outflow, Qd the direct branch, Q = Qr + Qd.

Two points where a daily *implementation* needs a convention the paper leaves open; both are stated here and are
part of what the theorems quantify over:
* the unit hydrographs are convolutions over past days; their state is carried as the vector of *pending
  deliveries* (`pend[j]` = water already committed to arrive j+1 days from now), which is the information the
  convolution needs from the past. A model state therefore is (S, R, pending UH2 deliveries, pending UH1 deliveries).
* `tanhArg`: the reference implementations (e.g. airGR `frun_GR4J.f`: `IF(WS.GT.13.) WS=13.`) cap the argument of
  tanh at 13 (tanh 13 = 1 − 1.0·10⁻¹¹). `published` uses the equations as printed (no cap), `safeguarded` the
  capped argument; `cap_inactive` (C15) shows they coincide whenever |P − E| ≤ 13·x1.
-/
namespace OW.Spec.GR4J
open OW

variable {α : Type} [Num α]

/-! ### Unit hydrographs (eqs. 9–17) -/

/-- S-curve of UH1: 0 for t ≤ 0, (t/x4)^(5/2) for 0 < t < x4, 1 for t ≥ x4 -/
def SH1 (x4 t : α) : α :=
  if t ≤ 0 then 0
  else if t < x4 then Num.pow (t / x4) 2.5
  else 1

/-- S-curve of UH2: 0 for t ≤ 0, ½(t/x4)^(5/2) for 0 < t ≤ x4, 1 − ½(2 − t/x4)^(5/2) for x4 < t < 2·x4, 1 for t ≥ 2·x4 -/
def SH2 (x4 t : α) : α :=
  if t ≤ 0 then 0
  else if t ≤ x4 then 0.5 * Num.pow (t / x4) 2.5
  else if t < 2 * x4 then 1 - 0.5 * Num.pow (2 - t / x4) 2.5
  else 1

/-- ordinate j (j = 1, 2, …) of UH1: SH1(j) − SH1(j−1) -/
def UH1 (x4 : α) (j : Nat) : α := SH1 x4 (Num.ofNat j) - SH1 x4 (Num.ofNat (j - 1))

/-- ordinate j (j = 1, 2, …) of UH2: SH2(j) − SH2(j−1) -/
def UH2 (x4 : α) (j : Nat) : α := SH2 x4 (Num.ofNat j) - SH2 x4 (Num.ofNat (j - 1))

/-- number of non-zero ordinates: ⌈x4⌉ for UH1 -/
def nUH1 (x4 : α) : Nat := (Num.toInt (Num.ceil x4)).toNat
/-- ⌈2·x4⌉ for UH2 -/
def nUH2 (x4 : α) : Nat := (Num.toInt (Num.ceil (2 * x4))).toNat

/-- One day of a unit hydrograph with ordinates `ord 1, ord 2, …` and today's input `x`:
water arriving k days from today (k = 0 is today) is what was pending for that day plus `x · ord (k+1)`;
today's arrival is delivered, the rest stays pending. Returns (delivered, new pending vector of the same length). -/
def uhDay (ord : Nat → α) (pend : List α) (x : α) : α × List α :=
  let arriving : Nat → α := fun k => pend.getD k 0 + x * ord (k + 1)
  (arriving 0, (List.range pend.length).map (fun j => arriving (j + 1)))

/-! ### Production store (eqs. 1–8) -/

def sq (y : α) : α := y * y
def pow4 (y : α) : α := sq y * sq y

/-- net rainfall Pn -/
def Pn (P E : α) : α := if E ≤ P then P - E else 0
/-- net evapotranspiration capacity En -/
def En (P E : α) : α := if E ≤ P then 0 else E - P

/-- Ps = x1 (1 − (S/x1)²) tanh(Pn/x1) / (1 + (S/x1) tanh(Pn/x1))   (eq. 3) -/
def Ps (tanhArg : α → α) (x1 S pn : α) : α :=
  let t := Num.tanh (tanhArg (pn / x1))
  x1 * (1 - sq (S / x1)) * t / (1 + S / x1 * t)

/-- Es = S (2 − S/x1) tanh(En/x1) / (1 + (1 − S/x1) tanh(En/x1))   (eq. 4) -/
def Es (tanhArg : α → α) (x1 S en : α) : α :=
  let t := Num.tanh (tanhArg (en / x1))
  S * (2 - S / x1) * t / (1 + (1 - S / x1) * t)

/-- Perc = S {1 − [1 + (4/9 · S/x1)⁴]^(−1/4)}   (eq. 6) -/
def Perc (x1 S : α) : α := S * (1 - Num.pow (1 + pow4 (4 / 9 * (S / x1))) (-0.25))

/-! ### Routing (eqs. 18–22) -/

/-- F = x2 (R/x3)^(7/2)   (eq. 18) -/
def F (x2 x3 R : α) : α := x2 * Num.pow (R / x3) 3.5

/-- Qr = R {1 − [1 + (R/x3)⁴]^(−1/4)}   (eq. 20) -/
def Qr (x3 R : α) : α := R * (1 - Num.pow (1 + pow4 (R / x3)) (-0.25))

structure State (α : Type) where
  S : α
  R : α
  /-- pending deliveries of UH2 (10 % branch) -/
  pend1 : List α
  /-- pending deliveries of UH1 (90 % branch) -/
  pend9 : List α

structure Day (α : Type) where
  Q : α
  Qr : α
  Qd : α

/-- one day -/
def day (tanhArg : α → α) (x1 x2 x3 x4 : α) (st : State α) (pe : α × α) : State α × Day α :=
  let P := pe.1
  let E := pe.2
  let pn := Pn P E
  let en := En P E
  let ps := Ps tanhArg x1 st.S pn
  let es := Es tanhArg x1 st.S en
  let S1 := st.S - es + ps                       -- eq. 5
  let perc := Perc x1 S1
  let S2 := S1 - perc                            -- eq. 7
  let pr := perc + (pn - ps)                     -- eq. 8
  let u9 := uhDay (UH1 x4) st.pend9 (0.9 * pr)   -- Q9
  let u1 := uhDay (UH2 x4) st.pend1 (0.1 * pr)   -- Q1
  let f := F x2 x3 st.R
  let R1 := Num.gmax 0 (st.R + u9.1 + f)         -- eq. 19
  let qr := Qr x3 R1
  let R2 := R1 - qr                              -- eq. 21
  let qd := Num.gmax 0 (u1.1 + f)                -- eq. 22
  (⟨S2, R2, u1.2, u9.2⟩, ⟨qr + qd, qr, qd⟩)

/-- the equations as printed -/
def tanhArgPublished : α → α := fun w => w
/-- argument of tanh capped at 13 (numerical safeguard of the reference implementations) -/
def tanhArgSafeguarded : α → α := fun w => if (13 : α) < w then 13 else w

def run (tanhArg : α → α) (x1 x2 x3 x4 : α) (st : State α) (pe : List (α × α)) : State α × List (Day α) :=
  scan (day tanhArg x1 x2 x3 x4) st pe

/-- empty stores, unit-hydrograph memories of length ⌈x4⌉ and ⌈2·x4⌉ -/
def initState (x4 : α) : State α := ⟨0, 0, zeros (nUH2 x4), zeros (nUH1 x4)⟩

/-- the same state-row layout as the implementation, so both can be run on the same protocol line:
[S, R, n1, n2, pending UH2 (n2 values), pending UH1 (n1 values)] -/
def row (st : State α) : List α :=
  [st.S, st.R, Num.ofNat st.pend9.length, Num.ofNat st.pend1.length] ++ st.pend1 ++ st.pend9

def mkModel (name : String) (tanhArg : α → α) : KModel α where
  name := name
  init := fun p =>
    match p with
    | [_, _, _, x4] => .ok (row (initState x4))
    | _ => .error "arity"
  run := fun p ins st =>
    match p, ins, st with
    | [x1, x2, x3, x4], [rain, pet], s :: r :: n1f :: n2f :: rest =>
      let n1 := (Num.toInt n1f).toNat
      let n2 := (Num.toInt n2f).toNat
      if n1 = 0 ∨ n2 = 0 ∨ rest.length < n1 + n2 then .error "arity"
      else
        let res := run tanhArg x1 x2 x3 x4 ⟨s, r, rest.take n2, (rest.drop n2).take n1⟩ (rain.zip pet)
        .ok { outputs := [res.2.map (·.Q)], states := row res.1 }
    | _, _, _ => .error "arity"

/-- the specification as a runnable model (safeguarded tanh argument) -/
def model : KModel α := mkModel "GR4J#spec" tanhArgSafeguarded
/-- the equations exactly as printed -/
def modelPublished : KModel α := mkModel "GR4J#published" tanhArgPublished

end OW.Spec.GR4J
