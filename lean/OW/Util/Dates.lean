/-
Model of /repo/models/functions/dates.go (DateGenerator kernel), core Lean only.

Go `int` is modelled by `Int`; Go `%` truncates toward zero → `Int.tmod`.
A Go panic (index out of range on DAYS_IN_MONTH) is `none`.
-/
namespace OW.Dates

/-- `leapYear` in dates.go, branch for branch. -/
def leapYear (y : Int) : Bool :=
  if y.tmod 4 != 0 then false
  else if y.tmod 100 != 0 then true
  else if y.tmod 400 == 0 then true
  else false

/-- `DAYS_IN_MONTH` -/
def dimTable : List Int := [31, 28, 31, 30, 31, 30, 31, 31, 30, 31, 30, 31]

/-- `daysInMonth(month, year)`; `none` = index-out-of-range panic. -/
def daysInMonth (m y : Int) : Option Int :=
  if m == 2 && leapYear y then some 29
  else if m - 1 < 0 then none
  else dimTable[(m - 1).toNat]?

/-- the `for mi := 1; mi < m; mi++` loop of `_dayOfYear`, counting `mi` upward with fuel. -/
def doyLoop (y m : Int) : Nat → Int → Int → Option Int
  | 0, _, acc => some acc
  | fuel + 1, mi, acc =>
    if mi < m then
      match daysInMonth mi y with
      | none => none
      | some k => doyLoop y m fuel (mi + 1) (acc + k)
    else some acc

/-- `_dayOfYear(d, m, y)` -/
def dayOfYear (d m y : Int) : Option Int :=
  match doyLoop y m (m - 1).toNat 1 0 with
  | none => none
  | some s => some (s + d)

structure Date where
  d : Int
  m : Int
  y : Int
  deriving Repr, DecidableEq

structure Row where
  date : Int
  month : Int
  year : Int
  doy : Int
  deriving Repr, DecidableEq

/-- One iteration of the `for i` loop of `dateGenerator`: the emitted row and the next (d,m,y). -/
def step (t : Date) : Option (Row × Date) :=
  match dayOfYear t.d t.m t.y with
  | none => none
  | some doy =>
    match daysInMonth t.m t.y with
    | none => none
    | some dim =>
      let d1 := t.d + 1
      let d2 := if d1 > dim then 1 else d1
      let m2 := if d1 > dim then t.m + 1 else t.m
      let m3 := if m2 > 12 then 1 else m2
      let y3 := if m2 > 12 then t.y + 1 else t.y
      some (⟨t.d, t.m, t.y, doy⟩, ⟨d2, m3, y3⟩)

/-- `dateGenerator` for `n` ticks. `none` = the Go code panics somewhere in the run. -/
def run : Nat → Date → Option (List Row)
  | 0, _ => some []
  | n + 1, t =>
    match step t with
    | none => none
    | some (r, t') =>
      match run n t' with
      | none => none
      | some rs => some (r :: rs)

end OW.Dates
