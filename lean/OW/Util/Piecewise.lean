import OW.Num
/- util/fn/piecewise.go — `brackets` and `Piecewise`, line by line; tables as lists. -/
namespace OW.Fn
open OW

/-- the `for j = 1; j < n; j++` loop of `brackets`: `rest` = xs from index `j` on. Returns `(i, j)` with `i = j-1`. -/
def bracketLoop {α} [Num α] (x : α) : List α → Nat → Option (Nat × Nat)
  | [], _ => none
  | v :: rest, j => if x ≤ v then some (j - 1, j) else bracketLoop x rest (j + 1)

/-- `brackets(x, xs)`: `.error` = Go panic (empty table → index out of range), `.ok none` = (-1,-1). -/
def brackets {α} [Num α] (x : α) (xs : List α) : Except String (Option (Nat × Nat)) :=
  match xs with
  | [] => .error "index-out-of-range"
  | x0 :: rest =>
    if x < x0 then .ok none
    else
      let last := (x0 :: rest).getLast?.getD x0
      if last < x then .ok none
      else .ok (bracketLoop x rest 1)

inductive PwRes (α : Type) where
  | val : α → PwRes α        -- a number
  | err : PwRes α            -- `err != nil` ("Couldn't find brackets")
  | panic : String → PwRes α -- Go panic

/-- `Piecewise(x, xs, ys)` -/
def piecewise {α} [Num α] (x : α) (xs ys : List α) : PwRes α :=
  match brackets x xs with
  | .error e => .panic e
  | .ok none => .err
  | .ok (some (i, j)) =>
    match xs[i]?, xs[j]?, ys[i]?, ys[j]? with
    | some x0, some x1, some y0, some y1 =>
      let frac := (x - x0) / (x1 - x0)
      -- repair fixes/piecewise_knot.diff: exact at the right knot, and the rounded interpolant never passes `y1`
      if Num.feq x x1 then .val y1
      else
        let y := y0 + frac * (y1 - y0)
        if (y0 ≤ y1 ∧ y1 < y) ∨ (y1 ≤ y0 ∧ y < y1) then .val y1 else .val y
    | _, _, _, _ => .panic "index-out-of-range"

end OW.Fn
