import OW.Num
/- util/fn/root.go — `FindRoot`, line by line; the iteration loop takes `maxIterations` as fuel.
Ghost components (not results of the Go function): `evals` = every point at which `fn` was called,
`devals` = every point at which `fn_dx` was called, both most recent first. The harness wraps the real
callbacks to log the same points, so the ghosts are part of the correspondence. -/
namespace OW.Fn
open OW

structure Bracket (α : Type) where
  minX : α
  minDelta : α
  maxX : α
  maxDelta : α

/-- `halvingX := maxX - (maxX-minX)*0.5` -/
def halvingX {α} [Num α] (b : Bracket α) : α := b.maxX - (b.maxX - b.minX) * 0.5

/-- `bisectionX := maxX - (maxX-minX)*maxDelta/(maxDelta-minDelta)` (the secant point), then clamped into
`[minX, maxX]` by two comparisons (repair fixes/findroot_secant_clamp.diff: in floating point the unclamped value can
round to one ulp outside the bracket; a NaN from `0/0` passes through both comparisons unchanged). -/
def secantX {α} [Num α] (b : Bracket α) : α :=
  let s := b.maxX - (b.maxX - b.minX) * b.maxDelta / (b.maxDelta - b.minDelta)
  if s < b.minX then b.minX else if b.maxX < s then b.maxX else s

/-- `trialXs` of one iteration -/
def trialXs {α} [Num α] (f' : Option (α → α)) (x delta : α) (b : Bracket α) : List α :=
  let base := [halvingX b, secantX b]
  match f' with
  | none => base
  | some d =>
    let deriv := d x
    if !(Num.feq deriv 0.0) then
      let nr := x - delta / deriv
      if b.minX < nr ∧ nr < b.maxX then base ++ [nr] else base
    else base

/-- state of the `for _, trial := range trialXs` loop -/
structure Inner (α : Type) where
  b : Bracket α          -- minTrialX, minTrialDelta, maxTrialX, maxTrialDelta
  hit : Nat              -- hitConvergenceLimit
  evals : List α         -- ghost

/-- ghost: which `return` of the Go function was taken -/
inductive Exit where
  | fuel   -- the `for iteration` loop ran out (final `return`)
  | tol    -- `math.Abs(trialDelta) < tolerance`
  | conv   -- `hitConvergenceLimit == len(trialXs)`
  deriving DecidableEq, Repr

def Exit.name : Exit → String
  | .fuel => "fuel" | .tol => "tol" | .conv => "conv"

/-- result: `(x, delta)` of the Go function + ghosts (`b` = the bracket on exit) -/
structure Res (α : Type) where
  x : α
  delta : α
  evals : List α
  devals : List α
  b : Bracket α
  exit : Exit

/-- one trial; `.inl (x, delta, state)` = early `return` -/
def trialStep {α} [Num α] (f : α → α) (tol conv x : α) (s : Inner α) (trial : α) : (α × α × Inner α) ⊕ Inner α :=
  let hit := if Num.abs (x - trial) < conv then s.hit + 1 else s.hit
  let trialDelta := f trial
  if Num.abs trialDelta < tol then .inl (trial, trialDelta, { s with evals := trial :: s.evals })
  else
    let b := s.b
    let b' : Bracket α :=
      if trialDelta < 0.0 then
        (if b.minX < trial ∧ trial ≤ b.maxX then { b with minX := trial, minDelta := trialDelta } else b)
      else
        (if trial < b.maxX ∧ b.minX ≤ trial then { b with maxX := trial, maxDelta := trialDelta } else b)
    .inr { b := b', hit := hit, evals := trial :: s.evals }

def trialLoop {α} [Num α] (f : α → α) (tol conv x : α) : Inner α → List α → (α × α × Inner α) ⊕ Inner α
  | s, [] => .inr s
  | s, t :: ts =>
    match trialStep f tol conv x s t with
    | .inl r => .inl r
    | .inr s' => trialLoop f tol conv x s' ts

/-- `x, delta` chosen after the trial loop: the end with the smaller residual -/
def pick {α} [Num α] (nb : Bracket α) : α × α :=
  if Num.abs nb.minDelta ≤ nb.maxDelta then (nb.minX, nb.minDelta) else (nb.maxX, nb.maxDelta)

/-- the `for iteration` loop -/
def iterate {α} [Num α] (f : α → α) (f' : Option (α → α)) (tol conv : α) :
    Nat → α → α → Bracket α → List α → List α → Res α
  | 0, x, delta, b, ev, dev => ⟨x, delta, ev, dev, b, .fuel⟩
  | fuel + 1, x, delta, b, ev, dev =>
    let ts := trialXs f' x delta b
    let dev' := if f'.isSome then x :: dev else dev
    match trialLoop f tol conv x { b := b, hit := 0, evals := ev } ts with
    | .inl (rx, rd, s) => ⟨rx, rd, s.evals, dev', s.b, .tol⟩
    | .inr s =>
      let p := pick s.b
      if s.hit == ts.length then ⟨p.1, p.2, s.evals, dev', s.b, .conv⟩
      else iterate f f' tol conv fuel p.1 p.2 s.b s.evals dev'

/-- `FindRoot(fn, fn_dx, initialX, minX, maxX, tolerance, convergenceLimit, maxIterations)`;
`.error` = `panic("Invalid range")`. Evaluation order of the prologue: `fn(initialX)`, `fn(maxX)`, `fn(minX)`. -/
def findRoot {α} [Num α] (f : α → α) (f' : Option (α → α)) (initialX minX maxX tol conv : α) (maxIter : Nat) :
    Except String (Res α) :=
  let delta := f initialX
  let maxDelta := f maxX
  let minDelta := f minX
  if 0 < minDelta ∨ maxDelta < 0 then .error "other"
  else .ok (iterate f f' tol conv maxIter initialX delta ⟨minX, minDelta, maxX, maxDelta⟩ [minX, maxX, initialX] [])

end OW.Fn
