import OW.Num
/- util/fn/root.go — `FindRoot`, line by line; the iteration loop takes `maxIterations` as fuel. -/
namespace OW.Fn
open OW

structure Bracket (α : Type) where
  minX : α
  minDelta : α
  maxX : α
  maxDelta : α

/-- `trialXs` of one iteration -/
def trialXs {α} [Num α] (f' : Option (α → α)) (x delta : α) (b : Bracket α) : List α :=
  let halvingX := b.maxX - (b.maxX - b.minX) * 0.5
  let bisectionX := b.maxX - (b.maxX - b.minX) * b.maxDelta / (b.maxDelta - b.minDelta)
  let base := [halvingX, bisectionX]
  match f' with
  | none => base
  | some d =>
    let deriv := d x
    if !(Num.feq deriv 0.0) then
      let nr := x - delta / deriv
      if b.minX < nr ∧ nr < b.maxX then base ++ [nr] else base
    else base

/-- state of the `for _, trial := range trialXs` loop -/
structure Inner (α : Type) where
  b : Bracket α          -- minTrialX, minTrialDelta, maxTrialX, maxTrialDelta
  hit : Nat              -- hitConvergenceLimit
  evals : List α := []   -- ghost: points at which `fn` was evaluated (most recent first)

/-- one trial; `.inl (x, delta)` = early `return` -/
def trialStep {α} [Num α] (f : α → α) (tol conv x : α) (s : Inner α) (trial : α) : (α × α) ⊕ Inner α :=
  let hit := if Num.abs (x - trial) < conv then s.hit + 1 else s.hit
  let trialDelta := f trial
  if Num.abs trialDelta < tol then .inl (trial, trialDelta)
  else
    let b := s.b
    let b' : Bracket α :=
      if trialDelta < 0.0 then
        (if b.minX < trial ∧ trial ≤ b.maxX then { b with minX := trial, minDelta := trialDelta } else b)
      else
        (if trial < b.maxX ∧ b.minX ≤ trial then { b with maxX := trial, maxDelta := trialDelta } else b)
    .inr { b := b', hit := hit, evals := trial :: s.evals }

def trialLoop {α} [Num α] (f : α → α) (tol conv x : α) : Inner α → List α → (α × α) ⊕ Inner α
  | s, [] => .inr s
  | s, t :: ts =>
    match trialStep f tol conv x s t with
    | .inl r => .inl r
    | .inr s' => trialLoop f tol conv x s' ts

/-- the `for iteration` loop; returns `(x, delta)` -/
def iterate {α} [Num α] (f : α → α) (f' : Option (α → α)) (tol conv : α) :
    Nat → α → α → Bracket α → α × α
  | 0, x, delta, _ => (x, delta)
  | fuel + 1, x, delta, b =>
    let ts := trialXs f' x delta b
    match trialLoop f tol conv x { b := b, hit := 0 } ts with
    | .inl r => r
    | .inr s =>
      let nb := s.b
      let (x', delta') :=
        if Num.abs nb.minDelta ≤ nb.maxDelta then (nb.minX, nb.minDelta) else (nb.maxX, nb.maxDelta)
      if s.hit == ts.length then (x', delta')
      else iterate f f' tol conv fuel x' delta' nb

/-- `FindRoot(fn, fn_dx, initialX, minX, maxX, tolerance, convergenceLimit, maxIterations)`;
`.error` = `panic("Invalid range")`. -/
def findRoot {α} [Num α] (f : α → α) (f' : Option (α → α)) (initialX minX maxX tol conv : α) (maxIter : Nat) :
    Except String (α × α) :=
  let delta := f initialX
  let maxDelta := f maxX
  let minDelta := f minX
  if 0 < minDelta ∨ maxDelta < 0 then .error "other"
  else .ok (iterate f f' tol conv maxIter initialX delta ⟨minX, minDelta, maxX, maxDelta⟩)

end OW.Fn
