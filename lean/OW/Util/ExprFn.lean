import OW.Num
/-
A small expression language for test functions of one variable, shared by the Go harness
(harness/cmd/owharness/fam_fn.go, `exprEval`) and the Lean driver. Arithmetic and comparisons only, so the two
evaluators agree bit for bit. Tokens (prefix notation, self-delimiting):

  x | c <float> | + a b | - a b | * a b | / a b | neg a | abs a | max a b | min a b | ite a b t e

`max a b` = `if b < a then a else b`, `min a b` = `if b < a then b else a` (plain comparisons, like util/m),
`ite a b t e` = `if a < b then t else e`.
-/
namespace OW.ExprFn
open OW

inductive Expr (α : Type) where
  | x : Expr α
  | c : α → Expr α
  | add : Expr α → Expr α → Expr α
  | sub : Expr α → Expr α → Expr α
  | mul : Expr α → Expr α → Expr α
  | div : Expr α → Expr α → Expr α
  | neg : Expr α → Expr α
  | abs : Expr α → Expr α
  | max : Expr α → Expr α → Expr α
  | min : Expr α → Expr α → Expr α
  | ite : Expr α → Expr α → Expr α → Expr α → Expr α

def Expr.eval {α} [Num α] : Expr α → α → α
  | .x, v => v
  | .c k, _ => k
  | .add a b, v => a.eval v + b.eval v
  | .sub a b, v => a.eval v - b.eval v
  | .mul a b, v => a.eval v * b.eval v
  | .div a b, v => a.eval v / b.eval v
  | .neg a, v => - a.eval v
  | .abs a, v => Num.abs (a.eval v)
  | .max a b, v => Num.pmax (a.eval v) (b.eval v)
  | .min a b, v => Num.pmin (a.eval v) (b.eval v)
  | .ite a b t e, v => if a.eval v < b.eval v then t.eval v else e.eval v

/-- parse one expression from a token stream; `lit` parses a constant token; fuel bounds the recursion -/
def parse {α} (lit : String → Option α) : Nat → List String → Option (Expr α × List String)
  | 0, _ => none
  | _, [] => none
  | fuel + 1, t :: ts =>
    let bin (mk : Expr α → Expr α → Expr α) : Option (Expr α × List String) := do
      let (a, ts) ← parse lit fuel ts
      let (b, ts) ← parse lit fuel ts
      pure (mk a b, ts)
    let un (mk : Expr α → Expr α) : Option (Expr α × List String) := do
      let (a, ts) ← parse lit fuel ts
      pure (mk a, ts)
    match t with
    | "x" => some (.x, ts)
    | "c" =>
      match ts with
      | k :: ts => (lit k).map fun v => (.c v, ts)
      | [] => none
    | "+" => bin .add
    | "-" => bin .sub
    | "*" => bin .mul
    | "/" => bin .div
    | "neg" => un .neg
    | "abs" => un .abs
    | "max" => bin .max
    | "min" => bin .min
    | "ite" => do
      let (a, ts) ← parse lit fuel ts
      let (b, ts) ← parse lit fuel ts
      let (c, ts) ← parse lit fuel ts
      let (d, ts) ← parse lit fuel ts
      pure (.ite a b c d, ts)
    | _ => none

end OW.ExprFn
