import OW.Kernels.Basic
import OW.Util.Piecewise
/-
models/storage/storage.go — `storageWaterBalance`, line by line, AFTER the repair
/verif/fixes/storage_rain_evap_accounting.diff (D10): the reported rainfall / evaporation volumes are accumulated on the
ACCEPTED sub-step (after the inner trial loop) and carry `units.MILLIMETRES_TO_METRES`, so that they are in the
declared unit (m^3.s^-1 after the division by deltaT) and the water balance of property C13 closes.

Shape of the Go code:
  for every timestep i:
    timeRemaining := deltaT; subtimestep := deltaT
    for timeRemaining > 0 {                                  -- `outer`   (fuel `fo`)
      subtimestep = math.Min(timeRemaining, subtimestep*2)
      estOutflow = releaseRate(demand, volume); area = cappedPiecewise(volume, areas)
      for { trial …; break | halve }                         -- `trial`   (fuel `fi`)
      accumulate, update volume, spill, timeRemaining -= subtimestep
    }
Both loops are fuelled recursions: `.error "fuel"` if the fuel runs out (never observed; see OW/Props/C13.lean for the
termination theorem), `.error "other"` where the Go code panics with a message of class `other`.

What the kernel reads of the state row [currentVolume, level, area]: ONLY currentVolume. `initialLevel` and
`initialArea` are never read (level/area are recomputed from the final volume); the dead `autoAdjustDemand` branch
(`autoAdjustDemand := false`) and the inputs targetMinimumVolume (never read) / targetMinimumCapacity (read into
`targetMaxVol`, which only the dead branch uses) do not influence any output.
-/
namespace OW.Kernels.Storage
open OW

/-- MIN_TIMESTEP_SECONDS_NEGATIVE -/
def minStepNeg {α} [Num α] : α := 6
/-- MIN_TIMESTEP_SECONDS_POSITIVE -/
def minStepPos {α} [Num α] : α := 60
/-- ALLOWED_REL_ERROR_RELEASE_RATE -/
def allowedRel {α} [Num α] : α := 1e-5
/-- ALLOWED_ABS_ERROR_RELEASE_RATE = ESSENTIALLY_ZERO_RELEASE_RATE -/
def allowedAbs {α} [Num α] : α := 1e-4
/-- units.MILLIMETRES_TO_METRES -/
def mmToM {α} [Num α] : α := 1e-3

/-- the per-cell tables (slices of length nLVA of the parameter column) and the three values read once at the top -/
structure Tables (α : Type) where
  levels : List α
  volumes : List α
  areas : List α
  minRelease : List α
  maxRelease : List α
  /-- `volumes.Get(idxCurve0)` -/
  volCurveMin : α
  /-- `volumes.Get(idxCurveN)` -/
  volCurveMax : α
  /-- `minRelease.Get(idxCurveN)` -/
  maxSpill : α

/-- `ys.Get(idx)`; out of range is a Go panic -/
def getAt {α} (ys : List α) (i : Nat) : Except String α :=
  match ys[i]? with
  | some v => .ok v
  | none => .error "index-out-of-range"

/-- the closure `cappedPiecewise(vol, ys)` -/
def cappedPiecewise {α} [Num α] (t : Tables α) (vol : α) (ys : List α) : Except String α :=
  if vol < t.volCurveMin then getAt ys 0
  else if t.volCurveMax < vol then getAt ys (t.volumes.length - 1)
  else
    match Fn.piecewise vol t.volumes ys with
    | .val v => .ok v
    | .err => .error "other"          -- `panic(err)`
    | .panic e => .error e

/-- the closure `releaseRate(demand, vol)` -/
def releaseRate {α} [Num α] (t : Tables α) (demand vol : α) : Except String α := do
  let minRel ← cappedPiecewise t vol t.minRelease
  if demand < minRel then pure minRel
  else
    let maxRel ← cappedPiecewise t vol t.maxRelease
    if maxRel < demand then pure maxRel
    else pure demand

/-- the closure `releaseRatesCloseEnough(a, b)` -/
def releaseRatesCloseEnough {α} [Num α] (a b : α) : Bool :=
  let absError := Num.abs (a - b)
  if absError < allowedAbs then true
  else if Num.abs a < allowedAbs && Num.abs b < allowedAbs then true
  else
    let relError := absError / a
    if allowedRel < relError then false else true

/-- add a branch tag once -/
def tag (tags : List String) (s : String) : List String := if tags.contains s then tags else s :: tags

/-- what the inner trial loop leaves behind when it `break`s -/
structure Accepted (α : Type) where
  /-- the accepted `subtimestep` -/
  sub : α
  avgOutflow : α
  avgArea : α
  /-- ghost: release at the start volume -/
  estOutflow : α
  /-- ghost: release at the trial end volume -/
  estOutflowAfter : α
  /-- ghost: the trial end volume at which `estOutflowAfter` was evaluated -/
  trialVol : α
  /-- ghost: the last `testVol` (≥ 0 on acceptance) -/
  testVol : α
  tags : List String

/-- the inner `for { … }` trial loop; `sub` = current `subtimestep` -/
def trial {α} [Num α] (t : Tables α) (inflow demand netFlux volume estOutflow area : α) :
    Nat → α → List String → Except String (Accepted α)
  | 0, _, _ => .error "fuel"
  | fuel + 1, sub, tags =>
    let testVol := volume + ((inflow - estOutflow) + (netFlux * area)) * sub
    if testVol < 0 then
      if sub ≤ minStepNeg then .error "other"       -- panic("testVol < 0.0 and subtimestep <= MIN_TIMESTEP_SECONDS")
      else
        -- halved here AND again at the bottom of the loop body
        let sub1 := Num.gmax (sub * 0.5) minStepNeg
        trial t inflow demand netFlux volume estOutflow area fuel (Num.gmax (sub1 * 0.5) minStepNeg) (tag tags "negative-retry")
    else do
      let avgArea ← cappedPiecewise t ((testVol + volume) / 2) t.areas
      let testVol2 := volume + ((inflow - estOutflow) + (netFlux * avgArea)) * sub
      let estOutflowAfter ← releaseRate t demand testVol2
      let avgOutflow := (estOutflowAfter + estOutflow) / 2
      let testVol3 := volume + ((inflow - avgOutflow) + (netFlux * avgArea)) * sub
      if 0 ≤ testVol3 then
        if releaseRatesCloseEnough estOutflow avgOutflow then
          pure ⟨sub, avgOutflow, avgArea, estOutflow, estOutflowAfter, testVol2, testVol3, tag tags "accept"⟩
        else if sub ≤ minStepPos then
          pure ⟨sub, avgOutflow, avgArea, estOutflow, estOutflowAfter, testVol2, testVol3, tag tags "floor"⟩
        else
          trial t inflow demand netFlux volume estOutflow area fuel (Num.gmax (sub * 0.5) minStepNeg) (tag tags "halve")
      else if sub ≤ minStepNeg then .error "other"  -- panic("testVol < 0.0 and subtimestep <= MIN_TIMESTEP_SECONDS_NEGATIVE")
      else
        trial t inflow demand netFlux volume estOutflow area fuel (Num.gmax (sub * 0.5) minStepNeg) (tag tags "negative-retry-avg")

/-- ghost record of one accepted sub-step -/
structure SubStep (α : Type) where
  volBefore : α
  acc : Accepted α
  /-- volume after the update, before spilling -/
  volUpdated : α
  /-- `excessOutflowVolume` (0 when the spill branch is not taken) -/
  excess : α
  volAfter : α

/-- the spill block: returns (excessOutflowVolume, new volume, spilled?) -/
def spill {α} [Num α] (t : Tables α) (volume avgOutflow sub : α) : α × α × Bool :=
  if t.volCurveMax < volume then
    let overTopRatio := Num.gmin (volume / t.volCurveMax) 2
    let excessOutflow := Num.gmax ((overTopRatio * t.maxSpill) - avgOutflow) 0
    let excessOutflowVolume := excessOutflow * sub
    let excessOutflowVolume := Num.gmax (Num.gmin excessOutflowVolume (volume - t.volCurveMax)) 0
    (excessOutflowVolume, volume - excessOutflowVolume, true)
  else (Num.zero, volume, false)

/-- locals of the `for timeRemaining > 0` loop that survive an iteration -/
structure Loop (α : Type) where
  timeRemaining : α
  subtimestep : α
  volume : α
  outflowVolume : α
  rainfallVol : α
  evaporationVol : α
  tags : List String
  /-- ghost: accepted sub-steps, most recent first (only when `keep`) -/
  trace : List (SubStep α)

/-- body of the `for timeRemaining > 0 { … }` loop: one accepted sub-step -/
def outerBody {α} [Num α] (t : Tables α) (keep : Bool) (fi : Nat) (inflow demand rainfallPerSecond petPerSecond netFlux : α)
    (s : Loop α) : Except String (Loop α) := do
  let sub0 := Num.gmin s.timeRemaining (s.subtimestep * 2)
  let estOutflow ← releaseRate t demand s.volume
  let area ← cappedPiecewise t s.volume t.areas
  let a ← trial t inflow demand netFlux s.volume estOutflow area fi sub0 s.tags
  let outflowVolume := s.outflowVolume + a.avgOutflow * a.sub
  -- repaired accounting: on the accepted sub-step, in metres
  let rainfallVol := s.rainfallVol + rainfallPerSecond * mmToM * a.avgArea * a.sub
  let evaporationVol := s.evaporationVol + petPerSecond * mmToM * a.avgArea * a.sub
  let volume := s.volume + (inflow + (netFlux * a.avgArea) - a.avgOutflow) * a.sub
  if volume < 0 then .error "other"            -- panic(err) with err == nil
  else
    let sp := spill t volume a.avgOutflow a.sub
    pure { timeRemaining := s.timeRemaining - a.sub, subtimestep := a.sub, volume := sp.2.1,
           outflowVolume := outflowVolume + sp.1, rainfallVol := rainfallVol, evaporationVol := evaporationVol,
           tags := if sp.2.2 then tag a.tags "spill" else a.tags,
           trace := if keep then ⟨s.volume, a, volume, sp.1, sp.2.1⟩ :: s.trace else s.trace }

/-- the `for timeRemaining > 0 { … }` loop of one timestep -/
def outer {α} [Num α] (t : Tables α) (keep : Bool) (fi : Nat) (inflow demand rainfallPerSecond petPerSecond netFlux : α) :
    Nat → Loop α → Except String (Loop α)
  | 0, _ => .error "fuel"
  | fo + 1, s =>
    if 0 < s.timeRemaining then
      match outerBody t keep fi inflow demand rainfallPerSecond petPerSecond netFlux s with
      | .error e => .error e
      | .ok s' => outer t keep fi inflow demand rainfallPerSecond petPerSecond netFlux fo s'
    else .ok s

/-- outputs of one timestep (+ ghost trace) -/
structure StepOut (α : Type) where
  volume : α
  outflow : α
  rainfallVolume : α
  evaporationVolume : α
  /-- ghost: accepted sub-steps in execution order -/
  trace : List (SubStep α)

/-- inputs of one timestep: (rainfall, pet, inflow, demand) -/
abbrev StepIn (α : Type) := α × α × α × α

/-- body of `for i := 0; i < n; i++`; state = (volume, tags) -/
def step {α} [Num α] (t : Tables α) (keep : Bool) (fo fi : Nat) (deltaT : α) (volume : α) (tags : List String) (i : StepIn α) :
    Except String (α × List String × StepOut α) := do
  let (rainfall, pet, inflow, demand) := i
  let rainfallPerSecond := rainfall / deltaT
  let petPerSecond := pet / deltaT
  let netFlux := (rainfallPerSecond - petPerSecond) * mmToM
  let r ← outer t keep fi inflow demand rainfallPerSecond petPerSecond netFlux fo
    { timeRemaining := deltaT, subtimestep := deltaT, volume := volume, outflowVolume := 0,
      rainfallVol := 0, evaporationVol := 0, tags := tags, trace := [] }
  pure (r.volume, r.tags,
    { volume := r.volume, outflow := r.outflowVolume / deltaT, rainfallVolume := r.rainfallVol / deltaT,
      evaporationVolume := r.evaporationVol / deltaT, trace := r.trace.reverse })

/-- the loop over the timesteps -/
def steps {α} [Num α] (t : Tables α) (keep : Bool) (fo fi : Nat) (deltaT : α) :
    α → List String → List (StepIn α) → Except String (α × List String × List (StepOut α))
  | volume, tags, [] => pure (volume, tags, [])
  | volume, tags, i :: rest => do
    let (v, tg, o) ← step t keep fo fi deltaT volume tags i
    let (v', tg', os) ← steps t keep fo fi deltaT v tg rest
    pure (v', tg', o :: os)

/-- `volumes.Maximum()` of data/gen-arrays_go.go: starts from the first element, replaces on `v > res` -/
def maximum {α} [Num α] : List α → Option α
  | [] => none
  | v :: rest => some (rest.foldl (fun res x => if res < x then x else res) v)

inductive Config where
  | ok
  /-- checkStorageConfiguration returned an error: the kernel PRINTS it and returns zero values -/
  | invalid

/-- `checkStorageConfiguration(nLVA, volumes)` (called after the three table reads at the top) -/
def checkConfig {α} [Num α] (nLVA : Int) (volumes : List α) : Except String Config :=
  if nLVA == 0 then .ok .invalid
  else
    match maximum volumes with
    | none => .error "index-out-of-range"
    | some m => if m ≤ 0 then .ok .invalid else .ok .ok

/-- build the tables: the three `Get`s at the top of storageWaterBalance panic on an empty table -/
def mkTables {α} [Num α] (levels volumes areas minRelease maxRelease : List α) : Except String (Tables α) := do
  let n := volumes.length
  let v0 ← getAt volumes 0
  let vN ← getAt volumes (n - 1)
  let sp ← getAt minRelease (n - 1)
  pure ⟨levels, volumes, areas, minRelease, maxRelease, v0, vN, sp⟩

structure RunOut (α : Type) where
  outs : List (StepOut α)
  volume : α
  level : α
  area : α
  tags : List String

/-- `storageWaterBalance` for a valid configuration -/
def run {α} [Num α] (t : Tables α) (keep : Bool) (fo fi : Nat) (deltaT : α) (initialVolume : α) (ins : List (StepIn α)) :
    Except String (RunOut α) := do
  let (v, tags, outs) ← steps t keep fo fi deltaT initialVolume [] ins
  let level ← cappedPiecewise t v t.levels
  let area ← cappedPiecewise t v t.areas
  pure ⟨outs, v, level, area, tags⟩

/-- fuel of the outer / inner loop used by the driver (the termination theorem of OW/Props/C13.lean gives
`⌈Δt/6⌉ + 2` and `⌈log₂(Δt/6)⌉ + 2`; Δt ≤ 86400 → 14402 and 16) -/
def fuelOuter : Nat := 400000
def fuelInner : Nat := 4000

def splitTables {α} (n : Nat) (xs : List α) : List α × List α × List α × List α × List α :=
  (xs.take n, (xs.drop n).take n, (xs.drop (2 * n)).take n, (xs.drop (3 * n)).take n, (xs.drop (4 * n)).take n)

def model {α} [Num α] : KModel α where
  name := "Storage"
  init := fun _ => .ok [Num.zero, Num.zero, Num.zero]
  run := fun p ins st =>
    match p, ins, st with
    | deltaT :: nLVAf :: tbl, [rainfall, pet, inflow, demand, _targetMinimumVolume, _targetMinimumCapacity], [currentVolume, _level, _area] =>
      let nLVA := Num.toInt nLVAf
      if nLVA < 0 then .error "arity"
      else
        let n := nLVA.toNat
        if tbl.length != 5 * n then .error "arity"
        else
          let (levels, volumes, areas, minRelease, maxRelease) := splitTables n tbl
          match mkTables levels volumes areas minRelease maxRelease with
          | .error e => .error e
          | .ok t =>
            match checkConfig nLVA volumes with
            | .error e => .error e
            | .ok .invalid =>
              -- `fmt.Println(err); return`: outputs stay zero, the three states are overwritten with zero values
              let z := zeros rainfall.length
              .ok { outputs := [z, z, z, z], states := [Num.zero, Num.zero, Num.zero], tags := ["config-invalid"] }
            | .ok .ok =>
              match run t false fuelOuter fuelInner deltaT currentVolume (zip4 rainfall pet inflow demand) with
              | .error e => .error e
              | .ok r =>
                .ok { outputs := [r.outs.map (·.volume), r.outs.map (·.outflow), r.outs.map (·.rainfallVolume),
                                  r.outs.map (·.evaporationVolume)],
                      states := [r.volume, r.level, r.area], tags := r.tags.reverse }
    | _, _, _ => .error "arity"

end OW.Kernels.Storage
