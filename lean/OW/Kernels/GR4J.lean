import OW.Kernels.Basic
/-
models/rr/gr4j.go — gr4j, initGR4J, extractGR4JStates, packGR4JStates, expression by expression
(as repaired: packGR4JStates stores `r` in slot 1; SH2 is evaluated piecewise at t = (i+1)/x4).

State row of one cell: [S, R, n1, n2, q1[0..n2), q9[0..n1)].
Go constant expressions `5.0/2.0`, `7.0/2.0` are the exact doubles 2.5, 3.5; `4.0/9.0` is the correctly rounded
quotient, which is also what the IEEE division `4/9` of the two exact doubles returns, so the model writes `4 / 9`
(bit-identical at Float, and the rational 4/9 at ℝ).
-/
namespace OW.Kernels.GR4J
open OW

variable {α : Type} [Num α]

/-- `SH1[i]` after the loop and the overwrite `SH1[n1-1] = 1.0` -/
def sh1At (x4 : α) (n1 i : Nat) : α :=
  if i + 1 = n1 then 1.0 else Num.pow (Num.ofNat (i + 1) / x4) 2.5

/-- `UH1[0] = SH1[0]`, `UH1[i] = SH1[i] - SH1[i-1]` -/
def uh1At (x4 : α) (n1 i : Nat) : α :=
  if i = 0 then sh1At x4 n1 0 else sh1At x4 n1 i - sh1At x4 n1 (i - 1)

def uh1 (x4 : α) (n1 : Nat) : List α := (List.range n1).map (uh1At x4 n1)

/-- `SH2[i]` after the loop (piecewise in t = (i+1)/x4) and the overwrite `SH2[n2-1] = 1.0` -/
def sh2At (x4 : α) (n2 i : Nat) : α :=
  if i + 1 = n2 then 1.0
  else
    let t := Num.ofNat (i + 1) / x4
    if t ≤ 1 then 0.5 * Num.pow (Num.ofNat (i + 1) / x4) 2.5
    else if t < 2 then 1 - 0.5 * Num.pow (2 - Num.ofNat (i + 1) / x4) 2.5
    else 1.0

def uh2At (x4 : α) (n2 i : Nat) : α :=
  if i = 0 then sh2At x4 n2 0 else sh2At x4 n2 i - sh2At x4 n2 (i - 1)

def uh2 (x4 : α) (n2 : Nat) : List α := (List.range n2).map (uh2At x4 n2)

structure State (α : Type) where
  S : α
  R : α
  q1 : List α
  q9 : List α

/-- per-day results; everything except `runoff` is a ghost (not printed), used by the theorems -/
structure Out (α : Type) where
  runoff : α
  /-- evaporation taken from the production store -/
  es : α
  /-- water entering the two unit hydrographs (Perc + Pn − Ps) -/
  pr : α
  /-- groundwater exchange term `ech` -/
  ech : α
  qr : α
  qd : α
  tags : List String

/-- `q[i] = q[i] + (Pr * f * UH[i])` for all i -/
def addUH (pr f : α) (q uh : List α) : List α := List.zipWith (fun qi u => qi + (pr * f * u)) q uh

/-- `for i := 1; i < n; i++ { q[i-1] = q[i] }; q[n-1] = 0.0` (n ≥ 1) -/
def shift (q : List α) : List α := q.tail ++ [0.0]

/-- `q[0]` (the lists have length n ≥ 1 on every path that reaches the loop) -/
def head0 (q : List α) : α := q.headD 0.0

/-- `ws = x / x1; if ws > 13.0 { ws = 13.0 }` -/
def capWs (x1 x : α) : α :=
  let ws := x / x1
  if (13.0 : α) < ws then 13.0 else ws

/-- the production branch: (Ps, Es, Pr) before percolation -/
def production (x1 s rain pet : α) : α × α × α :=
  if pet < rain then
    let netRainfall := rain - pet
    let ws := capWs x1 netRainfall
    let ps := (x1 * (1 - Num.pow (s / x1) 2.0) * Num.tanh ws) / (1.0 + (s / x1) * Num.tanh ws)
    (ps, 0.0, netRainfall - ps)
  else
    let netET := pet - rain
    let ws := capWs x1 netET
    let tws := Num.tanh ws
    let es := (s * (2 - s / x1) * tws) / (1 + (1 - s / x1) * tws)
    (0.0, es, 0.0)

/-- `Perc = S * (1 - pow(1 + pow((4.0/9.0)*(S/x1), 4.0), -0.25))` -/
def percolation (x1 s : α) : α :=
  s * (1 - Num.pow (1 + Num.pow ((4 / 9) * (s / x1)) 4.0) (-0.25))

/-- `Qr = R - R/pow(1 + pow(R/x3, 4.0), 0.25)` -/
def routingOutflow (x3 r : α) : α :=
  r - r / Num.pow (1 + Num.pow (r / x3) 4.0) 0.25

def stepTags (x1 : α) (rain pet r1 tp : α) : List String :=
  (if pet < rain then (if (13.0 : α) < (rain - pet) / x1 then ["P>E", "ws_cap"] else ["P>E"])
   else (if (13.0 : α) < (pet - rain) / x1 then ["P<=E", "ws_cap"] else ["P<=E"])) ++
  (if r1 < 0 then ["R_clip"] else ["R_noclip"]) ++ (if (0 : α) < tp then ["Tp_pos"] else ["Tp_nonpos"])

/-- one iteration of the day loop -/
def step (x1 x2 x3 : α) (uH1 uH2 : List α) (st : State α) (i : α × α) : State α × Out α :=
  let rain := i.1
  let pet := i.2
  -- production
  let prod := production x1 st.S rain pet
  let ps := prod.1
  let es := prod.2.1
  let pr0 := prod.2.2
  let s1 := st.S - es + ps
  let perc := percolation x1 s1
  let s2 := s1 - perc
  let pr := perc + pr0
  -- unit hydrographs
  let q9a := addUH pr 0.9 st.q9 uH1
  let q1a := addUH pr 0.1 st.q1 uH2
  let q9v := head0 q9a
  let q1v := head0 q1a
  -- routing
  let ech := x2 * Num.pow (st.R / x3) 3.5
  let r1 := st.R + q9v + ech
  let r2 := if r1 < 0 then 0.0 else r1
  let qr := routingOutflow x3 r2
  let r3 := r2 - qr
  let tp := q1v + ech
  let qd := if (0 : α) < tp then q1v + ech else 0.0
  let qtot := qr + qd
  (⟨s2, r3, shift q1a, shift q9a⟩, ⟨qtot, es, pr, ech, qr, qd, stepTags x1 rain pet r1 tp⟩)

def run (x1 x2 x3 x4 : α) (n1 n2 : Nat) (st : State α) (xs : List (α × α)) : State α × List (Out α) :=
  scan (step x1 x2 x3 (uh1 x4 n1) (uh2 x4 n2)) st xs

/-- `initGR4J`: n1 = int(ceil(x4)), n2 = int(ceil(2*x4)), all stores zero -/
def initState (x4 : α) : State α × Nat × Nat :=
  let n1 := (Num.toInt (Num.ceil x4)).toNat
  let n2 := (Num.toInt (Num.ceil (2 * x4))).toNat
  (⟨0.0, 0.0, zeros n2, zeros n1⟩, n1, n2)

/-- `packGR4JStates` -/
def pack (st : State α) (n1 n2 : Nat) : List α :=
  [st.S, st.R, Num.ofNat n1, Num.ofNat n2] ++ st.q1 ++ st.q9

def dedup (xs : List String) : List String :=
  xs.foldl (fun acc x => if acc.contains x then acc else acc ++ [x]) []

def model : KModel α where
  name := "GR4J"
  init := fun p =>
    match p with
    | [_, _, _, x4] => let r := initState x4; .ok (pack r.1 r.2.1 r.2.2)
    | _ => .error "arity"
  run := fun p ins st =>
    match p, ins, st with
    | [x1, x2, x3, x4], [rain, pet], s :: r :: n1f :: n2f :: rest =>
      let n1i := Num.toInt n1f
      let n2i := Num.toInt n2f
      -- SH1[n1-1] / SH2[n2-1] with n = 0 is an index panic (extract accepts a zero-length slice)
      if n1i ≤ 0 ∨ n2i ≤ 0 then .error "index-out-of-range"
      else
        let n1 := n1i.toNat
        let n2 := n2i.toNat
        -- a longer row is accepted (extract slices q1/q9 out of it, trailing columns are ignored; pack returns
        -- 4+n1+n2 values); a shorter one is a slice panic
        if rest.length < n1 + n2 then .error "index-out-of-range"
        else
          let st0 : State α := ⟨s, r, rest.take n2, (rest.drop n2).take n1⟩
          let res := run x1 x2 x3 x4 n1 n2 st0 (rain.zip pet)
          .ok { outputs := [res.2.map (·.runoff)], states := pack res.1 n1 n2,
                tags := dedup (res.2.flatMap (·.tags)) ++ ["n1=" ++ toString n1, "n2=" ++ toString n2] }
    | _, _, _ => .error "arity"

end OW.Kernels.GR4J
