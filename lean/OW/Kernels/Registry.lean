import OW.Kernels.Groups.Constituent
import OW.Kernels.Groups.FlowRouting
import OW.Kernels.Groups.Conversion
import OW.Kernels.Groups.RR
import OW.Kernels.Groups.Storage
import OW.Kernels.Groups.Climate
import OW.Kernels.Groups.Misc
/- All kernel models, by catalogue name. -/
namespace OW.Kernels

def all {α} [Num α] : List (KModel α) :=
  Groups.Constituent.models ++ Groups.FlowRouting.models ++ Groups.Conversion.models ++
  Groups.RR.models ++ Groups.Storage.models ++ Groups.Climate.models ++ Groups.Misc.models

def find {α} [Num α] (name : String) : Option (KModel α) :=
  all.find? (·.name == name)

end OW.Kernels
