import OW.Kernels.LumpedConstituent
import OW.Kernels.Muskingum
import OW.Kernels.Coeff
/- All kernel models, by catalogue name. -/
namespace OW.Kernels

def all {α} [Num α] : List (KModel α) :=
  [ LumpedConstituent.model, Muskingum.model, Coeff.model ]

def find {α} [Num α] (name : String) : Option (KModel α) :=
  all.find? (·.name == name)

end OW.Kernels
