import OW.Kernels.Basic
/- models/rr/surm.go — surm, expression by expression. State row: [SoilMoistureStore, Groundwater, TotalStore]. -/
namespace OW.Kernels.Surm
open OW

variable {α : Type} [Num α]

structure Params (α : Type) where
  bfac : α
  coeff : α
  dseep : α
  fcFrac : α
  fimp : α
  rfac : α
  smax : α
  sq : α
  thres : α

structure State (α : Type) where
  sms : α
  gw : α
  total : α

structure Out (α : Type) where
  runoff : α
  quickflow : α
  baseflow : α
  store : α
  /-- ghost: the `et` local (taken from the soil store, per unit pervious area) -/
  et : α
  tags : List String

def step (p : Params α) (st : State α) (i : α × α) : State α × Out α :=
  let fperv := 1 - p.fimp
  let fieldCapacity := p.fcFrac * p.smax
  let rainThisTS := i.1
  let petThisTS := i.2
  let imperviousRunoff := Num.gmax (rainThisTS - p.thres) 0.0
  let quickflow0 : α := 0.0 + imperviousRunoff * p.fimp
  let maxInfiltration := p.coeff * Num.exp (-p.sq * st.sms / p.smax)
  let infiltration := Num.gmin maxInfiltration rainThisTS
  let infiltrationExcess := fperv * (rainThisTS - infiltration)
  let sms1 := st.sms + infiltration
  let saturationExcess := Num.gmax (sms1 - p.smax) 0.0 * fperv
  let sms2 := if p.smax < sms1 then p.smax else sms1
  let perviousQuickflow := infiltrationExcess + saturationExcess
  let quickflow := quickflow0 + perviousQuickflow
  let et := Num.gmax (Num.gmin (10 * sms2 / p.smax) petThisTS) 0.0
  let sms3 := sms2 - et
  let recharge := p.rfac * Num.gmax (sms3 - fieldCapacity) 0.0
  let gw1 := st.gw + recharge
  let sms4 := sms3 - recharge
  let seep := p.dseep * gw1
  let gw2 := Num.gmax (gw1 - seep) 0.0
  let baseflow0 := p.bfac * gw2
  let gw3 := Num.gmax (gw2 - baseflow0) 0.0
  let baseflow := baseflow0 * fperv
  let runoff := quickflow + baseflow
  let totalStore := sms4 + gw3
  (⟨sms4, gw3, totalStore⟩,
   ⟨runoff, quickflow, baseflow, totalStore, et,
    (if p.smax < sms1 then ["sat_excess"] else ["no_sat"]) ++
    (if maxInfiltration < rainThisTS then ["inf_limited"] else ["inf_all"]) ++
    (if fieldCapacity < sms3 then ["recharge"] else ["no_recharge"])⟩)

def run (p : Params α) (st : State α) (xs : List (α × α)) : State α × List (Out α) := scan (step p) st xs

def dedup (xs : List String) : List String :=
  xs.foldl (fun acc x => if acc.contains x then acc else acc ++ [x]) []

def model : KModel α where
  name := "Surm"
  init := fun _ => .ok [Num.zero, Num.zero, Num.zero]
  run := fun p ins st =>
    match p, ins, st with
    | [a, b, c, d, e, f, g, h, k], [rain, pet], [s, gw, tot] =>
      let res := run ⟨a, b, c, d, e, f, g, h, k⟩ ⟨s, gw, tot⟩ (rain.zip pet)
      .ok { outputs := [res.2.map (·.runoff), res.2.map (·.quickflow), res.2.map (·.baseflow), res.2.map (·.store)],
            states := [res.1.sms, res.1.gw, res.1.total], tags := dedup (res.2.flatMap (·.tags)) }
    | _, _, _ => .error "arity"

end OW.Kernels.Surm
