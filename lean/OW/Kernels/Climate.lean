import OW.Kernels.Basic
/-
models/climate/climate_variables.go — `climateVariables` and its helpers, line by line.

Goff-Gratch saturation vapour pressure (two branches: over water for T > 0, over ice otherwise), Magnus-type dew point,
barometric pressure, humidity ratio, enthalpy, and the wet-bulb bisection (`for i := 0; i < 40; i++ { … if |dx| < acc { break } }`)
as structural recursion on the literal bound 40.

Uses pow / log10 / log → correspondence class rtol = 1e-9 (libm differences), not bit-exact.
-/
namespace OW.Kernels.Climate
open OW

/-- `calcVaporPressure(temperature)` (VaporPressure_GoffGratch), kPa -/
def vaporPressure {α} [Num α] (temperature : α) : α :=
  let a1 : α := -7.90298
  let a2 : α := 5.02808
  let a3 : α := -0.00000013816
  let a4 : α := 11.344
  let a5 : α := 0.0081328
  let a6 : α := -3.49149
  let b1 : α := -9.09718
  let b2 : α := -3.56654
  let b3 : α := 0.876793
  let b4 : α := 0.0060273
  let ta := temperature + 273.16
  if 0 < temperature then -- above freezing
    let z := 373.16 / ta
    let p1 := (z - 1) * a1
    let p2 := Num.log10 z * a2
    let p3 := ((Num.pow 10 ((1 - (1 / z)) * a4)) - 1) * a3
    let p4 := ((Num.pow 10 (a6 * (z - 1))) - 1) * a5
    101.325 * Num.pow 10 (p1 + p2 + p3 + p4)
  else -- below freezing
    let z := 273.16 / ta
    let p1 := b1 * (z - 1)
    let p2 := b2 * Num.log10 z
    let p3 := b3 * (1 - (1 / z))
    let p4 := Num.log10 b4
    101.325 * Num.pow 10 (p1 + p2 + p3 + p4)

/-- `calcDewPoint(temperature, humidity)` -/
def dewPoint {α} [Num α] (temperature humidity : α) : α :=
  let humidity := if humidity ≤ 0 then 0.0001 else humidity -- use 0.01% as minimum humidity
  let ea := vaporPressure temperature * humidity / 100      -- actual vapour pressure
  if 0 < ea then
    let func := Num.log (ea / 0.6108)
    237.3 * func / (17.27 - func)
  else Num.nan

/-- `barometricPressure(elevation)`, kPa -/
def barometricPressure {α} [Num α] (elevation : α) : α :=
  101.3 * Num.pow ((293 - 0.0065 * elevation) / 293) 5.26

/-- `calcHumidityRatio(vaporPressure, atmPressure)` -/
def humidityRatio {α} [Num α] (vp atmPressure : α) : α :=
  0.62198 * vp / (atmPressure - vp)

/-- `calcHumidityRatioActual(tDryBulb, humidityPC, atmPressure)` -/
def humidityRatioActual {α} [Num α] (tDryBulb humidityPC atmPressure : α) : α :=
  let vpSat := vaporPressure tDryBulb
  let result := humidityRatio vpSat atmPressure
  result * humidityPC / 100

/-- `calcEnthalpy(tDryBulb, humidityRatio)` -/
def enthalpy {α} [Num α] (tDryBulb w : α) : α :=
  1.006 * tDryBulb + (1.84 * tDryBulb + 2501) * w

/-- required accuracy `acc` of the bisection -/
def acc {α} [Num α] : α := 0.0001

/-- The bisection loop of `calcWetBulb`, generic in the function `f` whose level `h` is searched
(`f xmid` = enthalpy of saturated air at `xmid`). State (rtb, dx); `n` = iterations left. -/
def bisect {α} [Num α] (f : α → α) (h : α) : Nat → α → α → α
  | 0, rtb, _ => rtb
  | n + 1, rtb, dx =>
    let dx := dx * 0.5
    let xmid := rtb + dx
    let fmid := f xmid
    let rtb := if 0 < h - fmid then xmid else rtb
    if Num.abs dx < acc then rtb       -- convergence found: break
    else bisect f h n rtb dx

/-- saturated-air enthalpy at temperature `x` and pressure `p` (the three lines `psat`, `wstar`, `fmid`) -/
def satEnthalpy {α} [Num α] (pAtmosphere x : α) : α :=
  let psat := vaporPressure x
  let wstar := humidityRatio psat pAtmosphere
  enthalpy x wstar

/-- `calcWetBulb(tDryBulb, tDewPoint, hEnthalpy, pAtmosphere)` -/
def wetBulb {α} [Num α] (tDryBulb tDewPoint hEnthalpy pAtmosphere : α) : α :=
  bisect (satEnthalpy pAtmosphere) hEnthalpy 40 tDewPoint (tDryBulb - tDewPoint)

structure Out (α : Type) where
  vaporPressure : α
  dewPoint : α
  wetBulb : α
  deltaT : α

/-- body of the loop over the days -/
def sample {α} [Num α] (pa : α) (dryBulbTemp relativeHumidity : α) : Out α :=
  let vp := vaporPressure dryBulbTemp
  let tdew := dewPoint dryBulbTemp relativeHumidity
  let e := enthalpy dryBulbTemp (humidityRatioActual dryBulbTemp relativeHumidity pa)
  let twetBulbTemp := wetBulb dryBulbTemp tdew e pa
  ⟨vp, tdew, twetBulbTemp, dryBulbTemp - twetBulbTemp⟩

def run {α} [Num α] (elevation : α) (xs : List (α × α)) : List (Out α) :=
  let pa := barometricPressure elevation
  xs.map fun (t, rh) => sample pa t rh

def model {α} [Num α] : KModel α where
  name := "ClimateVariables"
  init := fun _ => .ok []
  run := fun p ins st =>
    match p, ins, st with
    | [elevation], [dryBulb, humidity], [] =>
      let r := run elevation (dryBulb.zip humidity)
      let tags :=
        (if (dryBulb.any fun t => decide (0 < t)) then ["water"] else []) ++
        (if (dryBulb.any fun t => !decide (0 < t)) then ["ice"] else []) ++
        (if (r.any fun o => decide (o.dewPoint < o.wetBulb)) then ["wet>dew"] else []) ++
        (if (r.any fun o => Num.feq o.dewPoint o.wetBulb) then ["wet=dew"] else []) ++
        (if (r.any fun o => decide (o.deltaT < 0)) then ["dew>dry"] else [])
      .ok { outputs := [r.map (·.vaporPressure), r.map (·.dewPoint), r.map (·.wetBulb), r.map (·.deltaT)],
            states := [], tags := tags }
    | _, _, _ => .error "arity"

end OW.Kernels.Climate
