import OW.Kernels.Basic
/- models/storage/trap_all.go — storageTrapAll, line by line.
`trappedMass.CopyFrom(inflowMass)`, then element 0 gets the initial stored mass added; `outflowMass` is never written;
the stored mass becomes 0. NOTE: no Δt anywhere — the trapped series is in the units of the inflow series
(the spec labels the input kg·s⁻¹ and the output kg; the budget below is in the units of the input). -/
namespace OW.Kernels.StorageTrapAll
open OW

/-- trapped series; `none` = empty series: there is no element 0, the code returns the stored mass unchanged -/
def trapped {α} [Num α] (inflowMass : List α) (initialStoredMass : α) : Option (List α) :=
  match inflowMass with
  | [] => none
  | x :: xs => some ((x + initialStoredMass) :: xs)

def model {α} [Num α] : KModel α where
  name := "StorageTrapAll"
  init := fun _ => .ok [Num.zero]
  run := fun p ins st =>
    match p, ins, st with
    | [], [a, _b, _c, _d], [sm] =>
      match trapped a sm with
      | none => .ok { outputs := [[], []], states := [sm], tags := ["trapall-empty"] }
      | some t => .ok { outputs := [t, zeros a.length], states := [0.0], tags := ["trapall"] }
    | _, _, _ => .error "arity"

end OW.Kernels.StorageTrapAll
