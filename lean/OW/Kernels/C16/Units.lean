import OW.Num
/-
conv/units/*.go and conv/rough/quantities.go — the unit constants used by the conversion / generation kernels.
Go evaluates constant expressions exactly and rounds once, so each constant is written as the exactly-rounded literal;
`OW/Proofs/C16Units.lean` proves (at ℝ) that the literal is the value of the Go constant expression.
-/
namespace OW.Kernels.Units
open OW

/-- `MILLIMETRES_TO_METRES = 1e-3` -/
def millimetresToMetres {α} [Num α] : α := 0.001
/-- `METRES_TO_MILLIMETRES = 1e3` -/
def metresToMillimetres {α} [Num α] : α := 1000
/-- `TONNES_TO_KG = 1e3` -/
def tonnesToKg {α} [Num α] : α := 1000
/-- `KG_TO_MILLIGRAM = 1e6` -/
def kgToMilligram {α} [Num α] : α := 1000000
/-- `MILLIGRAM_TO_KG = 1e-6` -/
def milligramToKg {α} [Num α] : α := 0.000001
/-- `LITRES_TO_CUBIC_METRES = 1e-3` -/
def litresToCubicMetres {α} [Num α] : α := 0.001
/-- `CUBIC_METRES_TO_LITRES = 1e3` -/
def cubicMetresToLitres {α} [Num α] : α := 1000
/-- `MEGA_LITRES_TO_LITRES = 1e6` -/
def megaLitresToLitres {α} [Num α] : α := 1000000
/-- `MG_PER_LITRE_TO_KG_PER_M3 = MILLIGRAM_TO_KG / LITRES_TO_CUBIC_METRES` (exact constant arithmetic: 1e-6/1e-3 = 1e-3) -/
def mgPerLitreToKgPerM3 {α} [Num α] : α := 0.001
/-- `PERCENT_TO_PROPORTION = 0.01` -/
def percentToProportion {α} [Num α] : α := 0.01
/-- `SQUARE_METRES_TO_HECTARES = 1e-4` -/
def squareMetresToHectares {α} [Num α] : α := 0.0001
/-- `SECONDS_PER_DAY = 24 * 60 * 60` -/
def secondsPerDay {α} [Num α] : α := 86400
/-- `CUBIC_METRES_PER_SECOND_TO_MEGA_LITRES_PER_DAY = (60 * 60 * 24) * 1e-3` (exact: 86.4) -/
def cumecsToMegaLitresPerDay {α} [Num α] : α := 86.4
/-- `rough.DAYS_PER_YEAR = 365.25` -/
def daysPerYear {α} [Num α] : α := 365.25

end OW.Kernels.Units
