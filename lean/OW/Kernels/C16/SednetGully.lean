import OW.Kernels.Basic
import OW.Kernels.C16.Units
/-
models/generation/{sednet_gully.go, sednet_gully_alt.go} — sednetGully with the two export functions
gullyLoadOrig / gullyLoadDerm, line by line. The `continue` branches set only fineLoad/coarseLoad; generatedFine and
generatedCoarse stay as allocated (zero). (models/generation/gully.go is entirely commented out: nothing to model.)
-/
namespace OW.Kernels.SednetGully
open OW

structure Params (α : Type) where
  yearDisturbance : α
  gullyEndYear : α
  area : α
  averageGullyActivityFactor : α
  annualAverageSedimentSupply : α
  percentFine : α
  managementPracticeFactor : α
  longtermRunoffFactor : α
  dailyRunoffPowerFactor : α
  sdrFine : α
  sdrCoarse : α
  timestepInSeconds : α

structure Out (α : Type) where
  fineLoad : α
  coarseLoad : α
  generatedFine : α
  generatedCoarse : α

/-- `type gullyExportFn func(dailyRunoff, annualRunoff, area, propFine, activityFactor, managementPracticeFactor, annualLoad,
annualSupply, longTermRunoffFactor, dailyRunoffPowerfactor) (fine, coarse)` -/
abbrev ExportFn (α : Type) := α → α → α → α → α → α → α → α → α → α → α × α

/-- `dailyRunoffFactor` of gullyLoadOrig -/
def dailyRunoffFactor {α} [Num α] (dailyRunoff longTermRunoffFactor dailyRunoffPowerfactor : α) : α :=
  if longTermRunoffFactor > 0 then
    let dailyRunoffPowerfactor := if dailyRunoffPowerfactor ≤ 0 then 1 else dailyRunoffPowerfactor
    Num.pow dailyRunoff dailyRunoffPowerfactor / longTermRunoffFactor
  else 1.0

def gullyLoadOrig {α} [Num α] : ExportFn α :=
  fun dailyRunoff _annualRunoff _area propFine activityFactor managementPracticeFactor _annualLoad annualSupply
      longTermRunoffFactor dailyRunoffPowerfactor =>
  let annualToDailyAdjustmentFactor : α := 1 / 365.25
  let thisYearsSedimentSupply := annualSupply
  let dailyRunoffFactor := dailyRunoffFactor dailyRunoff longTermRunoffFactor dailyRunoffPowerfactor
  let fine := annualToDailyAdjustmentFactor * dailyRunoffFactor * propFine * activityFactor * managementPracticeFactor * thisYearsSedimentSupply * Units.tonnesToKg
  let coarse := annualToDailyAdjustmentFactor * dailyRunoffFactor * (1 - propFine) * thisYearsSedimentSupply * managementPracticeFactor * Units.tonnesToKg
  (fine, coarse)

def gullyLoadDerm {α} [Num α] : ExportFn α :=
  fun runoffRate annualRunoff area propFine activityFactor managementPracticeFactor annualLoad _annualSupply
      _longTermRunoffFactor _dailyRunoffPowerfactor =>
  let dailyRunoffDepth := (runoffRate / area) * Units.metresToMillimetres * Units.secondsPerDay
  let annualSupplyAfterManagement := managementPracticeFactor * annualLoad
  let fine := (dailyRunoffDepth / annualRunoff) * propFine * activityFactor * annualSupplyAfterManagement
  let coarse := (dailyRunoffDepth / annualRunoff) * (1 - propFine) * annualSupplyAfterManagement
  (fine, coarse)

/-- `activityFactor` of the timestep -/
def activityFactor {α} [Num α] (p : Params α) (yr : α) : α :=
  if yr > p.gullyEndYear then p.averageGullyActivityFactor else 1.0

/-- loop body; inputs (quickflow, year, annualRunoff, annualLoad) -/
def step {α} [Num α] (expFn : ExportFn α) (p : Params α) (x : α × α × α × α) : Out α :=
  let (runoffRate, yr, annualRunoff, annualLoad) := x
  let propFine := p.percentFine / 100
  if yr < p.yearDisturbance then ⟨0, 0, Num.zero, Num.zero⟩
  else
    let activityFactor := activityFactor p yr
    if Num.feq runoffRate 0 || Num.feq annualRunoff 0 then ⟨0, 0, Num.zero, Num.zero⟩
    else
      let loads := expFn runoffRate annualRunoff p.area propFine activityFactor p.managementPracticeFactor
        annualLoad p.annualAverageSedimentSupply p.longtermRunoffFactor p.dailyRunoffPowerFactor
      let fine := loads.1 / p.timestepInSeconds
      let coarse := loads.2 / p.timestepInSeconds
      ⟨fine * (p.sdrFine * 0.01), coarse * (p.sdrCoarse * 0.01), fine, coarse⟩

def run {α} [Num α] (expFn : ExportFn α) (p : Params α) (q yr ar al : List α) : List (Out α) :=
  (zip4 q yr ar al).map (step expFn p)

def mk {α} [Num α] (name : String) (expFn : ExportFn α) : KModel α where
  name := name
  init := fun _ => .ok []
  run := fun p ins st =>
    match p, ins, st with
    | [yd, ge, area, af, supply, pf, mpf, ltrf, drpf, sf, sc, ts], [q, yr, ar, al], [] =>
      let P : Params α := ⟨yd, ge, area, af, supply, pf, mpf, ltrf, drpf, sf, sc, ts⟩
      let r := run expFn P q yr ar al
      let xs := zip4 q yr ar al
      .ok { outputs := [r.map (·.fineLoad), r.map (·.coarseLoad), r.map (·.generatedFine), r.map (·.generatedCoarse)],
            states := [],
            tags := (if xs.any (fun x => x.2.1 < yd) then ["gully:before-disturbance"] else []) ++
                    (if xs.any (fun x => !(x.2.1 < yd) && (Num.feq x.1 0 || Num.feq x.2.2.1 0)) then ["gully:no-runoff"] else []) ++
                    (if xs.any (fun x => !(x.2.1 < yd) && !(Num.feq x.1 0 || Num.feq x.2.2.1 0) && x.2.1 > ge) then ["gully:after-end-year"] else []) ++
                    (if xs.any (fun x => !(x.2.1 < yd) && !(Num.feq x.1 0 || Num.feq x.2.2.1 0) && !(x.2.1 > ge)) then ["gully:active"] else []) ++
                    (if ltrf > 0 then (if drpf ≤ 0 then ["gully:power-defaulted"] else ["gully:power"]) else ["gully:no-longterm-factor"]) }
    | _, _, _ => .error "arity"

def model {α} [Num α] : KModel α := mk "DynamicSednetGully" gullyLoadOrig
def modelAlt {α} [Num α] : KModel α := mk "DynamicSednetGullyAlt" gullyLoadDerm

end OW.Kernels.SednetGully
