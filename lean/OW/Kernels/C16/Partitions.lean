import OW.Kernels.Basic
import OW.Util.Piecewise
/-
models/conversion/{fixed_partition.go, var_partition.go, rating_partition.go} and models/functions/partition_demand.go
— line by line.
-/
namespace OW.Kernels.FixedPartition
open OW

/-- loop body: `output1 = incoming*fraction; output2 = incoming*(1-fraction)` -/
def step {α} [Num α] (fraction incoming : α) : α × α := (incoming * fraction, incoming * (1 - fraction))

def run {α} [Num α] (fraction : α) (input : List α) : List (α × α) := input.map (step fraction)

def model {α} [Num α] : KModel α where
  name := "FixedPartition"
  init := fun _ => .ok []
  run := fun p ins st =>
    match p, ins, st with
    | [fraction], [input], [] =>
      let r := run fraction input
      .ok { outputs := [r.map (·.1), r.map (·.2)], states := [] }
    | _, _, _ => .error "arity"

end OW.Kernels.FixedPartition

namespace OW.Kernels.VariablePartition
open OW

def step {α} [Num α] (x : α × α) : α × α :=
  let (incoming, frac) := x
  (incoming * frac, incoming * (1 - frac))

def run {α} [Num α] (input fraction : List α) : List (α × α) := (input.zip fraction).map step

def model {α} [Num α] : KModel α where
  name := "VariablePartition"
  init := fun _ => .ok []
  run := fun p ins st =>
    match p, ins, st with
    | [], [input, fraction], [] =>
      let r := run input fraction
      .ok { outputs := [r.map (·.1), r.map (·.2)], states := [] }
    | _, _, _ => .error "arity"

end OW.Kernels.VariablePartition

namespace OW.Kernels.RatingCurvePartition
open OW

/-- loop body of `ratingPartition`: `panic(err)` when Piecewise finds no bracket, `panic("nan")` on NaN (both class
"other"); a panic inside Piecewise (empty table) keeps its class. -/
def step {α} [Num α] (inputAmount proportion : List α) (incoming : α) : Except String (α × α) :=
  match Fn.piecewise incoming inputAmount proportion with
  | .panic e => .error e
  | .err => .error "other"
  | .val frac =>
    if Num.isNaN frac || Num.isNaN incoming then .error "other"
    else .ok (incoming * frac, incoming * (1 - frac))

/-- the loop: stops at the first panicking timestep -/
def run {α} [Num α] (inputAmount proportion : List α) : List α → Except String (List (α × α))
  | [] => .ok []
  | x :: rest =>
    match step inputAmount proportion x with
    | .error e => .error e
    | .ok o =>
      match run inputAmount proportion rest with
      | .error e => .error e
      | .ok os => .ok (o :: os)

/-- the parameter column of one cell: `nPts`, then `nPts` rows of `inputAmount`, then `nPts` rows of `proportion`
(generated wrapper: `npts := int(m.nPts.Get1(i))`, tables sliced to `npts` rows) -/
def decode {α} [Num α] (p : List α) : Option (List α × List α) :=
  match p with
  | [] => none
  | nPts :: rest =>
    let n := (Num.toInt nPts).toNat
    if rest.length == 2 * n then some (rest.take n, rest.drop n) else none

def model {α} [Num α] : KModel α where
  name := "RatingCurvePartition"
  init := fun _ => .ok []
  run := fun p ins st =>
    match decode p, ins, st with
    | some (xs, ys), [input], [] =>
      match run xs ys input with
      | .error e => .error e
      | .ok r => .ok { outputs := [r.map (·.1), r.map (·.2)], states := [],
                       tags := (if input.any (fun x => xs.any (fun v => Num.feq x v)) then ["rating:on-node"] else []) ++
                               (if input.any (fun x => !(xs.any (fun v => Num.feq x v))) then ["rating:interior"] else []) }
    | _, _, _ => .error "arity"

end OW.Kernels.RatingCurvePartition

namespace OW.Kernels.PartitionDemand
open OW

/-- `ext := math.Min(dmd, inp); out := math.Max(inp-ext, 0.0)`; returns (outflow, extraction) -/
def step {α} [Num α] (x : α × α) : α × α :=
  let (inp, dmd) := x
  let ext := Num.gmin dmd inp
  let out := Num.gmax (inp - ext) 0.0
  (out, ext)

def run {α} [Num α] (input demand : List α) : List (α × α) := (input.zip demand).map step

def model {α} [Num α] : KModel α where
  name := "PartitionDemand"
  init := fun _ => .ok []
  run := fun p ins st =>
    match p, ins, st with
    | [], [input, demand], [] =>
      let r := run input demand
      .ok { outputs := [r.map (·.1), r.map (·.2)], states := [],
            tags := (if (input.zip demand).any (fun x => x.2 < x.1) then ["demand:met"] else []) ++
                    (if (input.zip demand).any (fun x => x.1 < x.2) then ["demand:short"] else []) ++
                    (if demand.any (fun d => d < 0) then ["demand:negative"] else []) }
    | _, _, _ => .error "arity"

end OW.Kernels.PartitionDemand
