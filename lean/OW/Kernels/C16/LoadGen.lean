import OW.Kernels.Basic
import OW.Kernels.C16.Units
/-
models/generation/{emc_dwc.go, fixed_concentration.go, pass_load_if_flow.go, dissolved_nutrients.go,
particulate_nutrients.go} — line by line. Early returns leave the (zero-initialised) outputs untouched.
-/
namespace OW.Kernels.EmcDwc
open OW

structure Out (α : Type) where
  quickLoad : α
  slowLoad : α
  totalLoad : α

def step {α} [Num α] (emc dwc : α) (x : α × α) : Out α :=
  let (qf, sf) := x
  let ql := qf * emc * Units.mgPerLitreToKgPerM3
  let sl := sf * dwc * Units.mgPerLitreToKgPerM3
  let total := ql + sl
  ⟨ql, sl, total⟩

def run {α} [Num α] (emc dwc : α) (quickflow slowflow : List α) : List (Out α) :=
  if Num.feq emc 0.0 && Num.feq dwc 0.0 then
    List.replicate quickflow.length ⟨Num.zero, Num.zero, Num.zero⟩
  else (quickflow.zip slowflow).map (step emc dwc)

def model {α} [Num α] : KModel α where
  name := "EmcDwc"
  init := fun _ => .ok []
  run := fun p ins st =>
    match p, ins, st with
    | [emc, dwc], [qf, sf], [] =>
      let r := run emc dwc qf sf
      .ok { outputs := [r.map (·.quickLoad), r.map (·.slowLoad), r.map (·.totalLoad)], states := [],
            tags := [if Num.feq emc 0.0 && Num.feq dwc 0.0 then "emcdwc:zero-return" else "emcdwc:loop"] }
    | _, _, _ => .error "arity"

end OW.Kernels.EmcDwc

namespace OW.Kernels.FixedConcentration
open OW

def run {α} [Num α] (conc : α) (flow : List α) : List α :=
  if Num.feq conc 0.0 then zeros flow.length
  else flow.map (fun f => f * conc * Units.mgPerLitreToKgPerM3)

def model {α} [Num α] : KModel α where
  name := "FixedConcentration"
  init := fun _ => .ok []
  run := fun p ins st =>
    match p, ins, st with
    | [conc], [flow], [] =>
      .ok { outputs := [run conc flow], states := [],
            tags := [if Num.feq conc 0.0 then "fixedconc:zero-return" else "fixedconc:loop"] }
    | _, _, _ => .error "arity"

end OW.Kernels.FixedConcentration

namespace OW.Kernels.PassLoadIfFlow
open OW

/-- `EFFECTIVELY_ZERO = 1e-8` -/
def effectivelyZero {α} [Num α] : α := 0.00000001

def step {α} [Num α] (scalingFactor : α) (x : α × α) : α :=
  let (f, l) := x
  if f > effectivelyZero then l * scalingFactor else 0.0

def run {α} [Num α] (scalingFactor : α) (flow inputLoad : List α) : List α :=
  if Num.feq scalingFactor 0.0 then zeros flow.length
  else (flow.zip inputLoad).map (step scalingFactor)

def model {α} [Num α] : KModel α where
  name := "PassLoadIfFlow"
  init := fun _ => .ok []
  run := fun p ins st =>
    match p, ins, st with
    | [sf], [flow, load], [] =>
      .ok { outputs := [run sf flow load], states := [],
            tags := if Num.feq sf 0.0 then ["passload:zero-return"] else
              (if flow.any (fun f => f > effectivelyZero) then ["passload:flow"] else []) ++
              (if flow.any (fun f => !(f > effectivelyZero)) then ["passload:noflow"] else []) }
    | _, _, _ => .error "arity"

end OW.Kernels.PassLoadIfFlow

namespace OW.Kernels.DissolvedNutrients
open OW

structure Out (α : Type) where
  quick : α
  slow : α
  total : α

/-- `cumecs_to_lpd := float64(units.SECONDS_PER_DAY) * units.CUBIC_METRES_TO_LITRES` — a constant expression (8.64e7) -/
def cumecsToLpd {α} [Num α] : α := 86400000

def step {α} [Num α] (dissConstEMC dissConstDWC : α) (x : α × α) : Out α :=
  let (qf, sf) := x
  let dailyConstituentEMCmgL := dissConstEMC
  let quickflowLitres := qf * cumecsToLpd
  let slowflowLitres := sf * cumecsToLpd
  let quickLoadKg := dailyConstituentEMCmgL * quickflowLitres * Units.milligramToKg
  let slowLoadKg := dissConstDWC * slowflowLitres * Units.milligramToKg
  ⟨quickLoadKg / Units.secondsPerDay, slowLoadKg / Units.secondsPerDay, (quickLoadKg + slowLoadKg) / Units.secondsPerDay⟩

def run {α} [Num α] (emc dwc : α) (quickflow slowflow : List α) : List (Out α) :=
  (quickflow.zip slowflow).map (step emc dwc)

def model {α} [Num α] : KModel α where
  name := "SednetDissolvedNutrientGeneration"
  init := fun _ => .ok []
  run := fun p ins st =>
    match p, ins, st with
    | [emc, dwc], [qf, sf], [] =>
      let r := run emc dwc qf sf
      .ok { outputs := [r.map (·.quick), r.map (·.slow), r.map (·.total)], states := [] }
    | _, _, _ => .error "arity"

end OW.Kernels.DissolvedNutrients

namespace OW.Kernels.ParticulateNutrients
open OW

structure Params (α : Type) where
  area : α
  nutSurfSoilConc : α
  hillDeliveryRatio : α
  nutrientEnrichmentRatio : α
  nutSubSoilConc : α
  nutrientEnrichmentRatioGully : α
  gullyDeliveryRatio : α
  nutrientDWC : α
  doPCreamsEnrichment : α

structure Out (α : Type) where
  quick : α
  slow : α
  total : α
  hillslope : α
  gully : α

/-- inputs (fineSheet, coarseSheet, fineGully, coarseGully, slowflow) -/
def step {α} [Num α] (p : Params α) (x : α × α × α × α × α) : Out α :=
  let (fineSheet, coarseSheet, fineGully, coarseGully, slowflow) := x
  let hillslopeErosionLoadKg := fineSheet + coarseSheet
  let gullyErosionLoadKg := fineGully + coarseGully
  -- both branches of `if Do_P_CREAMS_Enrichment > 0.5` compute the same expressions
  let (hillslopeLoadKg, gullyLoadKg) :=
    if p.doPCreamsEnrichment > 0.5 then
      (hillslopeErosionLoadKg * p.nutSurfSoilConc * p.nutrientEnrichmentRatio * (p.hillDeliveryRatio * Units.percentToProportion),
       gullyErosionLoadKg * p.nutSubSoilConc * p.nutrientEnrichmentRatioGully * (p.gullyDeliveryRatio * Units.percentToProportion))
    else
      (hillslopeErosionLoadKg * p.nutSurfSoilConc * p.nutrientEnrichmentRatio * (p.hillDeliveryRatio * Units.percentToProportion),
       gullyErosionLoadKg * p.nutSubSoilConc * p.nutrientEnrichmentRatioGully * (p.gullyDeliveryRatio * Units.percentToProportion))
  let totalParticulateLoadKg := hillslopeLoadKg + gullyLoadKg
  let quickLoad := totalParticulateLoadKg
  let slowLoad := slowflow * p.nutrientDWC * Units.mgPerLitreToKgPerM3
  ⟨quickLoad, slowLoad, quickLoad + slowLoad, hillslopeLoadKg, gullyLoadKg⟩

def run {α} [Num α] (p : Params α) (a b c d e : List α) : List (Out α) := (zip5 a b c d e).map (step p)

def model {α} [Num α] : KModel α where
  name := "SednetParticulateNutrientGeneration"
  init := fun _ => .ok []
  run := fun p ins st =>
    match p, ins, st with
    | [area, nsc, hdr, ner, nssc, nerg, gdr, dwc, creams], [a, b, c, d, e], [] =>
      let r := run ⟨area, nsc, hdr, ner, nssc, nerg, gdr, dwc, creams⟩ a b c d e
      .ok { outputs := [r.map (·.quick), r.map (·.slow), r.map (·.total), r.map (·.hillslope), r.map (·.gully)],
            states := [], tags := [if creams > 0.5 then "partnut:creams" else "partnut:normal"] }
    | _, _, _ => .error "arity"

end OW.Kernels.ParticulateNutrients
