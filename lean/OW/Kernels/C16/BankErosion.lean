import OW.Kernels.Basic
import OW.Kernels.C16.Units
/- models/generation/bank_erosion.go — meanAnnualBankErosion and bankErosion, line by line. -/
namespace OW.Kernels.BankErosion
open OW

structure Params (α : Type) where
  riparianVegPercent : α
  maxRiparianVegEffectiveness : α
  soilErodibility : α
  bankErosionCoeff : α
  linkSlope : α
  bankFullFlow : α
  bankMgtFactor : α
  sedBulkDensity : α
  bankHeight : α
  linkLength : α
  dailyFlowPowerFactor : α
  longTermAvDailyFlow : α
  soilPercentFine : α
  durationInSeconds : α

def meanAnnualBankErosion {α} [Num α] (p : Params α) : α :=
  let densityWater : α := 1000.0
  let gravity : α := 9.81
  let bankErodability := (1 - Num.gmin (p.riparianVegPercent / 100) (p.maxRiparianVegEffectiveness / 100)) * (p.soilErodibility / 100)
  let retreatRateMperYr := p.bankErosionCoeff * densityWater * gravity * p.linkSlope * p.bankFullFlow * p.bankMgtFactor
  let massConversion := p.sedBulkDensity * p.bankHeight * p.linkLength
  massConversion * retreatRateMperYr * bankErodability

/-- `LinkDischargeFactor` of one timestep; input (downstreamFlowVolume, totalVolume) -/
def linkDischargeFactor {α} [Num α] (p : Params α) (outflow totalVolume : α) : α :=
  if totalVolume ≤ 0 || outflow ≤ 0 || p.longTermAvDailyFlow ≤ 0 then 0
  else Num.pow (outflow * p.durationInSeconds) p.dailyFlowPowerFactor / p.longTermAvDailyFlow

/-- ghost: `BankErosionTotal_kg_per_Second` -/
def totalKgPerSecond {α} [Num α] (p : Params α) (meanAnnual : α) (x : α × α) : α :=
  let (outflow, totalVolume) := x
  let ldf := linkDischargeFactor p outflow totalVolume
  let bankErosionTperDay := (meanAnnual * ldf) / Units.daysPerYear
  bankErosionTperDay * Units.tonnesToKg / p.durationInSeconds

/-- (fine, coarse) -/
def step {α} [Num α] (p : Params α) (meanAnnual : α) (x : α × α) : α × α :=
  let total := totalKgPerSecond p meanAnnual x
  (total * (p.soilPercentFine * Units.percentToProportion),
   total * (1 - (p.soilPercentFine * Units.percentToProportion)))

def run {α} [Num α] (p : Params α) (downstreamFlowVolume totalVolume : List α) : List (α × α) :=
  let meanAnnual := meanAnnualBankErosion p
  (downstreamFlowVolume.zip totalVolume).map (step p meanAnnual)

def model {α} [Num α] : KModel α where
  name := "BankErosion"
  init := fun _ => .ok []
  run := fun p ins st =>
    match p, ins, st with
    | [a, b, c, d, e, f, g, h, i, j, k, l, m, n], [q, v], [] =>
      let pp : Params α := ⟨a, b, c, d, e, f, g, h, i, j, k, l, m, n⟩
      let r := run pp q v
      .ok { outputs := [r.map (·.1), r.map (·.2)], states := [],
            tags := (if (q.zip v).any (fun x => x.2 ≤ 0 || x.1 ≤ 0 || l ≤ 0) then ["bank:no-discharge"] else []) ++
                    (if (q.zip v).any (fun x => !(x.2 ≤ 0 || x.1 ≤ 0 || l ≤ 0)) then ["bank:discharge"] else []) }
    | _, _, _ => .error "arity"

end OW.Kernels.BankErosion
