import OW.Kernels.Basic
import OW.Kernels.C16.Units
/-
models/conversion/{scale.go, delivery_ratio.go, depthtorate.go} and
models/functions/{input.go, sum.go, gate.go, compute_proportion.go, baseflow.go} — line by line.

Early returns (`if scale == 0.0 { return }`) leave the output series untouched; the generated wrapper hands the
kernel a freshly allocated (zero-initialised) output array, so the model returns `zeros T`.
-/
namespace OW.Kernels.Scaling
open OW

/-- `applyScaling(input, scale, output)` — shared by ApplyScalingFactor and DeliveryRatio -/
def run {α} [Num α] (scale : α) (input : List α) : List α :=
  if Num.feq scale 0.0 then zeros input.length
  else input.map (fun incoming => incoming * scale)

def mk {α} [Num α] (name : String) : KModel α where
  name := name
  init := fun _ => .ok []
  run := fun p ins st =>
    match p, ins, st with
    | [scale], [input], [] =>
      .ok { outputs := [run scale input], states := [],
            tags := [if Num.feq scale 0.0 then "scale:zero-return" else "scale:loop"] }
    | _, _, _ => .error "arity"

def model {α} [Num α] : KModel α := mk "ApplyScalingFactor"
def deliveryRatio {α} [Num α] : KModel α := mk "DeliveryRatio"

end OW.Kernels.Scaling

namespace OW.Kernels.DepthToRate
open OW

/-- `conversion := units.MILLIMETRES_TO_METRES * area / deltaT` -/
def conversion {α} [Num α] (deltaT area : α) : α := Units.millimetresToMetres * area / deltaT

def run {α} [Num α] (deltaT area : α) (inputs : List α) : List α :=
  if Num.feq area 0.0 then zeros inputs.length
  else
    let conversion := conversion deltaT area
    inputs.map (fun x => x * conversion)

def model {α} [Num α] : KModel α where
  name := "DepthToRate"
  init := fun _ => .ok []
  run := fun p ins st =>
    match p, ins, st with
    | [deltaT, area], [input], [] =>
      .ok { outputs := [run deltaT area input], states := [],
            tags := [if Num.feq area 0.0 then "d2r:zero-return" else "d2r:loop"] }
    | _, _, _ => .error "arity"

end OW.Kernels.DepthToRate

namespace OW.Kernels.InputNode
open OW

/-- `output.CopyFrom(input)` -/
def run {α} (input : List α) : List α := input

def model {α} [Num α] : KModel α where
  name := "Input"
  init := fun _ => .ok []
  run := fun p ins st =>
    match p, ins, st with
    | [], [input], [] => .ok { outputs := [run input], states := [] }
    | _, _, _ => .error "arity"

end OW.Kernels.InputNode

namespace OW.Kernels.Sum
open OW

def step {α} [Num α] (i : α × α) : α := i.1 + i.2

def run {α} [Num α] (i1 i2 : List α) : List α := (i1.zip i2).map step

def model {α} [Num α] : KModel α where
  name := "Sum"
  init := fun _ => .ok []
  run := fun p ins st =>
    match p, ins, st with
    | [], [i1, i2], [] => .ok { outputs := [run i1 i2], states := [] }
    | _, _, _ => .error "arity"

end OW.Kernels.Sum

namespace OW.Kernels.Gate
open OW

/-- `if t > 0 { outgoing = i } else { outgoing = 0.0 }` -/
def step {α} [Num α] (x : α × α) : α :=
  let (t, i) := x
  if t > 0 then i else 0.0

def run {α} [Num α] (trigger incoming : List α) : List α := (trigger.zip incoming).map step

def model {α} [Num α] : KModel α where
  name := "Gate"
  init := fun _ => .ok []
  run := fun p ins st =>
    match p, ins, st with
    | [], [trigger, incoming], [] =>
      .ok { outputs := [run trigger incoming], states := [],
            tags := (if trigger.any (fun t => t > 0) then ["gate:open"] else []) ++
                    (if trigger.any (fun t => !(t > 0)) then ["gate:closed"] else []) }
    | _, _, _ => .error "arity"

end OW.Kernels.Gate

namespace OW.Kernels.ComputeProportion
open OW

def step {α} [Num α] (resultOnZeroDenominator : α) (x : α × α) : α :=
  let (n, d) := x
  if Num.feq d 0.0 then resultOnZeroDenominator else n / d

def run {α} [Num α] (r : α) (numerator denominator : List α) : List α := (numerator.zip denominator).map (step r)

def model {α} [Num α] : KModel α where
  name := "ComputeProportion"
  init := fun _ => .ok []
  run := fun p ins st =>
    match p, ins, st with
    | [r], [n, d], [] =>
      .ok { outputs := [run r n d], states := [],
            tags := (if d.any (fun x => Num.feq x 0.0) then ["prop:zero-denominator"] else []) ++
                    (if d.any (fun x => !(Num.feq x 0.0)) then ["prop:divide"] else []) }
    | _, _, _ => .error "arity"

end OW.Kernels.ComputeProportion

namespace OW.Kernels.BaseflowFilter
open OW

/-- the loop body of `baseflowFilter` is empty: both outputs stay as allocated (zero) -/
def run {α} [Num α] (streamflow : List α) : List α × List α := (zeros streamflow.length, zeros streamflow.length)

def model {α} [Num α] : KModel α where
  name := "BaseflowFilter"
  init := fun _ => .ok []
  run := fun p ins st =>
    match p, ins, st with
    | [], [streamflow], [] => let r := run streamflow; .ok { outputs := [r.1, r.2], states := [] }
    | _, _, _ => .error "arity"

end OW.Kernels.BaseflowFilter
