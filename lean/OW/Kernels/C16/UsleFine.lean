import OW.Kernels.Basic
import OW.Kernels.C16.Units
/- models/generation/uslefine.go — usleFine, line by line (including the dead `useAvModel` branch). -/
namespace OW.Kernels.UsleFine
open OW

structure Params (α : Type) where
  s : α
  p : α
  rainThreshold : α
  alpha : α
  beta : α
  eta : α
  a1 : α
  a2 : α
  a3 : α
  dwc : α
  avK : α
  avLS : α
  avFines : α
  area : α
  maxConc : α
  usleHSDRFine : α
  usleHSDRCoarse : α
  timeStepInSeconds : α

structure In (α : Type) where
  qf : α
  sf : α
  rain : α
  klsc : α
  klscFine : α
  cFactor : α
  doy : α

structure Out (α : Type) where
  quickLoadFine : α
  slowLoadFine : α
  quickLoadCoarse : α
  slowLoadCoarse : α
  totalFineLoad : α
  totalCoarseLoad : α
  generatedLoadFine : α
  generatedLoadCoarse : α

/-- `2 * math.Pi` (constant expression, rounded once to 0x401921FB54442D18) -/
def twoPi {α} [Num α] : α := 6.283185307179586476925286766559

/-- the rainfall erosivity `R` of the day -/
def rFactor {α} [Num α] (p : Params α) (rain doy : α) : α :=
  let scanlonToYTerm := Num.cos (twoPi * (doy - 15) / 365)
  if rain > p.rainThreshold then p.alpha * (1 + p.eta * scanlonToYTerm) * Num.pow rain p.beta else 0.0

/-- `qf * units.CUBIC_METRES_PER_SECOND_TO_MEGA_LITRES_PER_DAY * units.MEGA_LITRES_TO_LITRES` -/
def litresPerDay {α} [Num α] (qf : α) : α := qf * Units.cumecsToMegaLitresPerDay * Units.megaLitresToLitres

/-- `(rateFine, rateCoarse)` for assignment (t/ha/day), after the optional maximum-concentration adjustment;
only evaluated inside the event checker -/
def adjustedRates {α} [Num α] (p : Params α) (qf fine coarse : α) : α × α :=
  let currentFineSedMassKg := fine * p.area * Units.squareMetresToHectares * Units.tonnesToKg
  let sedimentConcMgPerLFine := (currentFineSedMassKg * Units.kgToMilligram) / litresPerDay qf
  if sedimentConcMgPerLFine > p.maxConc then
    let allowedFineSedMassKg := p.maxConc * litresPerDay qf / Units.kgToMilligram
    let concPropAdj := allowedFineSedMassKg / currentFineSedMassKg
    (fine * concPropAdj, coarse * concPropAdj)
  else (fine, coarse)

def step {α} [Num α] (p : Params α) (i : In α) : Out α :=
  let loadS := p.dwc * i.sf * Units.mgPerLitreToKgPerM3
  let useAvModel := false
  let theKLSCval := if useAvModel then p.avK * p.avLS * i.cFactor else i.klsc
  let theKLSCClayval := if useAvModel then theKLSCval * (p.avFines / 100) else i.klscFine
  let r := rFactor p i.rain i.doy
  let total := r * theKLSCval
  let fine := r * theKLSCClayval
  let coarse := total - fine
  if i.qf > 0 && total > 0 then
    let rates := adjustedRates p i.qf fine coarse
    let rateFine := rates.1
    let rateCoarse := rates.2
    let loadKgFine := rateFine * p.area * Units.squareMetresToHectares * Units.tonnesToKg
    let loadKgCoarse := rateCoarse * p.area * Units.squareMetresToHectares * Units.tonnesToKg
    let afterHSDRFine := loadKgFine * (p.usleHSDRFine * 0.01)
    let afterHSDRCoarse := loadKgCoarse * (p.usleHSDRCoarse * 0.01)
    let loadQ := afterHSDRFine / p.timeStepInSeconds
    let coarseQuick := afterHSDRCoarse / p.timeStepInSeconds
    ⟨loadQ, loadS, coarseQuick, 0.0, loadQ + loadS, coarseQuick + 0.0,
     loadKgFine / p.timeStepInSeconds, loadKgCoarse / p.timeStepInSeconds⟩
  else
    let loadQ : α := 0
    let zero : α := 0.0
    let coarseQuick := zero / p.timeStepInSeconds
    ⟨loadQ, loadS, coarseQuick, 0.0, loadQ + loadS, coarseQuick + 0.0,
     zero / p.timeStepInSeconds, zero / p.timeStepInSeconds⟩

def mkIn {α} : α × α × α × α × α → α × α → In α
  | (qf, sf, rain, klsc, klscFine), (c, doy) => ⟨qf, sf, rain, klsc, klscFine, c, doy⟩

def run {α} [Num α] (p : Params α) (xs : List (In α)) : List (Out α) := xs.map (step p)

def model {α} [Num α] : KModel α where
  name := "USLEFineSedimentGeneration"
  init := fun _ => .ok []
  run := fun p ins st =>
    match p, ins, st with
    | [s, pp, rt, alpha, beta, eta, a1, a2, a3, dwc, avK, avLS, avFines, area, maxConc, hf, hc, ts],
      [qf, sf, rain, klsc, klscFine, cf, doy], [] =>
      let P : Params α := ⟨s, pp, rt, alpha, beta, eta, a1, a2, a3, dwc, avK, avLS, avFines, area, maxConc, hf, hc, ts⟩
      let xs := ((zip5 qf sf rain klsc klscFine).zip (cf.zip doy)).map (fun x => mkIn x.1 x.2)
      let r := run P xs
      let ev (i : In α) : Bool := i.qf > 0 && rFactor P i.rain i.doy * i.klsc > 0
      let capped (i : In α) : Bool :=
        ev i && ((rFactor P i.rain i.doy * i.klscFine) * area * Units.squareMetresToHectares * Units.tonnesToKg * Units.kgToMilligram) / litresPerDay i.qf > maxConc
      .ok { outputs := [r.map (·.quickLoadFine), r.map (·.slowLoadFine), r.map (·.quickLoadCoarse), r.map (·.slowLoadCoarse),
                        r.map (·.totalFineLoad), r.map (·.totalCoarseLoad), r.map (·.generatedLoadFine), r.map (·.generatedLoadCoarse)],
            states := [],
            tags := (if xs.any (fun i => i.rain > rt) then ["usle:erosive-rain"] else []) ++
                    (if xs.any (fun i => !(i.rain > rt)) then ["usle:no-erosive-rain"] else []) ++
                    (if xs.any ev then ["usle:event"] else []) ++
                    (if xs.any (fun i => !ev i) then ["usle:no-event"] else []) ++
                    (if xs.any capped then ["usle:maxconc-cap"] else []) ++
                    (if xs.any (fun i => ev i && !capped i) then ["usle:uncapped"] else []) }
    | _, _, _ => .error "arity"

end OW.Kernels.UsleFine
