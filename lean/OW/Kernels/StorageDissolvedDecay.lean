import OW.Kernels.Basic
import OW.Kernels.LumpedConstituent
/- models/storage/dissolved_decay.go — storageDissolvedDecay, line by line.
`doStorageDecay < 0.5` delegates to LumpedConstituentTransport with a nil lateral series (treated as 0.0 after
fix D9), x = 0, pointInput = 0.0 and a nil pointSourceLoad; `decayedMass` is then never written. -/
namespace OW.Kernels.StorageDissolvedDecay
open OW

structure Out (α : Type) where
  decayedMass : α
  outflowMass : α
  /-- ghost: mass dropped by the lumped model's `workingVol < MINIMUM_VOLUME` branch (decay disabled only) -/
  flushed : α

/-- decay disabled: one step of LumpedConstituentTransport with lateralLoad = 0.0, pointInput = 0.0.
inputs (inflowMass, storageInflow, storageOutflow, storageVolume) -/
def stepOff {α} [Num α] (deltaT : α) (storedMass : α) (i : α × α × α × α) : α × Out α :=
  let (inflowMass, _storageInflow, storageOutflow, storageVolume) := i
  let r := LumpedConstituent.step 0.0 deltaT storedMass (inflowMass, 0.0, storageOutflow, storageVolume)
  (r.1, ⟨Num.zero, r.2.outflowLoad, r.2.flushed⟩)

/-- decay enabled (not part of C12: this branch is not conservative, it has no working-volume mixing) -/
def stepOn {α} [Num α] (deltaT bankFullFlow medianFloodResidenceTime : α) (storedMass : α) (i : α × α × α × α) :
    α × Out α :=
  let (inflowMass, _storageInflow, outflowRate, storageVol) := i
  let upstreamFlowMass := inflowMass * deltaT
  let (dailyDecayedConstituentLoad, availLoadForOutflow) :=
    if outflowRate < bankFullFlow then
      (storedMass, upstreamFlowMass)
    else
      let totalConstsituentLoad := upstreamFlowMass + storedMass
      if medianFloodResidenceTime ≤ 0 then
        ((0 : α), upstreamFlowMass + storedMass)
      else
        let propLost := Num.gmin 1 (medianFloodResidenceTime / 5)
        let decayed := propLost * totalConstsituentLoad
        (decayed, totalConstsituentLoad - decayed)
  let concentration := availLoadForOutflow / storageVol
  let constituentRateInOutflow := concentration * outflowRate
  let storedMass := storedMass - dailyDecayedConstituentLoad
  let storedMass := storedMass - deltaT * constituentRateInOutflow
  (storedMass, ⟨dailyDecayedConstituentLoad, constituentRateInOutflow, Num.zero⟩)

def step {α} [Num α] (deltaT doStorageDecay bankFullFlow medianFloodResidenceTime : α) :
    α → α × α × α × α → α × Out α :=
  if doStorageDecay < 0.5 then stepOff deltaT else stepOn deltaT bankFullFlow medianFloodResidenceTime

def run {α} [Num α] (deltaT doStorageDecay bankFullFlow medianFloodResidenceTime : α) (storedMass : α)
    (xs : List (α × α × α × α)) : α × List (Out α) :=
  scan (step deltaT doStorageDecay bankFullFlow medianFloodResidenceTime) storedMass xs

def model {α} [Num α] : KModel α where
  name := "StorageDissolvedDecay"
  init := fun _ => .ok [Num.zero]
  run := fun p ins st =>
    match p, ins, st with
    | [dt, dsd, _ari, bff, mfrt], [a, b, c, d], [sm] =>
      let xs := zip4 a b c d
      let r := run dt dsd bff mfrt sm xs
      let low := fun (i : α × α × α × α) => i.2.2.1 * dt + i.2.2.2 < LumpedConstituent.minimumVolume
      .ok { outputs := [r.2.map (·.decayedMass), r.2.map (·.outflowMass)], states := [r.1],
            tags := if dsd < 0.5 then
                      ["dissolved:off"] ++ (if xs.any low then ["dissolved:flush"] else []) ++
                        (if xs.any (fun i => !low i) then ["dissolved:normal"] else [])
                    else ["dissolved:on"] }
    | _, _, _ => .error "arity"

end OW.Kernels.StorageDissolvedDecay
