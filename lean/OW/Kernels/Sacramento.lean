import OW.Kernels.Basic
/-
models/rr/sacramento.go — sacramento, makeUnitHydrograph, expression by expression, AS REPAIRED by
/verif/fixes/sacramento-adimp-ratio.diff (`if ratio < 0 { ratio = 0 }` in the drainage loop) and
/verif/fixes/sacramento-fracp-clamp.diff (primary share of the free-water percolation `min(1, hpl·2·ratlp/(ratlp+ratls))`),
both as in the NWS original (`IF(RATIO.LT.0.) RATIO=0.`, `IF(FRACP.GT.1.0) FRACP=1.0`).

State row of one cell: [UprTensionWater, UprFreeWater, LwrTensionWater, LwrPrimaryFreeWater, LwrSupplFreeWater,
AdditionalImperviousStore]. Inside one call the code works on `alzfpc = LwrPrimaryFreeWater·(1+side)` and
`alzfsc = LwrSupplFreeWater·(1+side)` (computed once before the loop and carried from step to step) and on the
unit-hydrograph buffer `qq` (zero at the start of every call: it is not part of the state row).
`VERY_SMALL = 0.0`, `pdn20 = 5.08`, `pdnor = 25.4`, `nunit = 5`; `0.5*pdnor` is the exact constant 12.7.
The two nested loops (`ii := itime..2`, `inc := 1..ninc`) are structural recursion on the remaining count.
-/
namespace OW.Kernels.Sacramento
open OW

variable {α : Type} [Num α]

structure Params (α : Type) where
  lzpk : α
  lzsk : α
  uzk : α
  uztwm : α
  uzfwm : α
  lztwm : α
  lzfsm : α
  lzfpm : α
  pfree : α
  rexp : α
  zperc : α
  side : α
  ssout : α
  pctim : α
  adimp : α
  sarva : α
  rserv : α
  uh1 : α
  uh2 : α
  uh3 : α
  uh4 : α
  uh5 : α

/-- `makeUnitHydrograph`: the five proportions divided by their sum (`sumSlice` starts from 0.0) -/
def makeUnitHydrograph (p : Params α) : List α :=
  let sum := 0.0 + p.uh1 + p.uh2 + p.uh3 + p.uh4 + p.uh5
  [p.uh1 / sum, p.uh2 / sum, p.uh3 / sum, p.uh4 / sum, p.uh5 / sum]

/-- loop-invariant locals computed before the time loop -/
structure Consts (α : Type) where
  dro : List α
  saved : α
  alzfsm : α
  alzfpm : α
  pbase : α

def consts (p : Params α) : Consts α :=
  let saved := p.rserv * (p.lzfpm + p.lzfsm)
  let alzfsm := p.lzfsm * (1.0 + p.side)
  let alzfpm := p.lzfpm * (1.0 + p.side)
  ⟨makeUnitHydrograph p, saved, alzfsm, alzfpm, alzfsm * p.lzsk + alzfpm * p.lzpk⟩

/-- what is carried from time step to time step -/
structure State (α : Type) where
  uztwc : α
  uzfwc : α
  lztwc : α
  /-- LwrPrimaryFreeWater as last written (alzfpc/(1+side) after a step) -/
  lzfpc : α
  lzfsc : α
  adimc : α
  alzfsc : α
  alzfpc : α
  qq : List α

/-- the variables updated by the drainage and percolation loop -/
structure Inner (α : Type) where
  alzfpc : α
  alzfsc : α
  uzfwc : α
  lztwc : α
  adimc : α
  flobf : α
  flosf : α
  floin : α
  roimp : α
  tags : List String

/-- one pass of `for inc := 1; inc <= ninc; inc++ { … }` -/
def incBody (p : Params α) (c : Consts α) (uztwc pinc dinc duz dlzp dlzs hpl : α) (v : Inner α) : Inner α :=
  -- as repaired (fixes/sacramento-adimp-ratio.diff): the ADIMP saturation ratio is not allowed to go negative
  let ratio0 := (v.adimc - uztwc) / p.lztwm
  let ratio := if ratio0 < 0 then 0 else ratio0
  let addro0 := pinc * ratio * ratio
  -- baseflow from the lower zone, primary
  let bfp := if (0.0 : α) < v.alzfpc then v.alzfpc * dlzp else 0.0
  let alzfpc1 := if (0.0 : α) < v.alzfpc then v.alzfpc else 0.0
  let flobf1 := v.flobf + bfp
  let alzfpc2 := alzfpc1 - bfp
  -- supplementary
  let bfs := if (0.0 : α) < v.alzfsc then v.alzfsc * dlzs else 0.0
  let alzfsc1 := if (0.0 : α) < v.alzfsc then v.alzfsc else 0.0
  let alzfsc2 := alzfsc1 - bfs
  let flobf2 := flobf1 + bfs
  -- upper zone: percolation and interflow
  let uz : α × α × α × α × α × List String :=   -- (uzfwc, floin, lztwc, alzfsc, alzfpc, tags)
    if (0.0 : α) < v.uzfwc then
      let lzair := p.lztwm - v.lztwc + c.alzfsm - alzfsc2 + c.alzfpm - alzfpc2
      let perc0 := (c.pbase * dinc * v.uzfwc) / p.uzfwm
      let perc := if (0.0 : α) < lzair then
          Num.gmin lzair (Num.gmin v.uzfwc
            (perc0 * (1.0 + (p.zperc * Num.pow (1.0 - (alzfpc2 + alzfsc2 + v.lztwc) / (c.alzfpm + c.alzfsm + p.lztwm)) p.rexp))))
        else 0.0
      let uzfwc1 := if (0.0 : α) < lzair then v.uzfwc - perc else v.uzfwc
      let del := duz * uzfwc1
      let floin1 := v.floin + del
      let uzfwc2 := uzfwc1 - del
      let perctw0 := Num.gmin (perc * (1.0 - p.pfree)) (p.lztwm - v.lztwc)
      let percfw0 := perc - perctw0
      let lzair2 := c.alzfsm - alzfsc2 + c.alzfpm - alzfpc2
      let perctw := if lzair2 < percfw0 then perctw0 + percfw0 - lzair2 else perctw0
      let percfw := if lzair2 < percfw0 then lzair2 else percfw0
      let lztwc1 := v.lztwc + perctw
      if (0.0 : α) < percfw then
        let ratlp := 1.0 - alzfpc2 / c.alzfpm
        let ratls := 1.0 - alzfsc2 / c.alzfsm
        -- as repaired (fixes/sacramento-fracp-clamp.diff): the primary share of the percolation is at most one
        let fracp := Num.gmin 1.0 (hpl * (ratlp + ratlp) / (ratlp + ratls))
        let percs0 := Num.gmin (c.alzfsm - alzfsc2) (percfw * (1.0 - fracp))
        let alzfsc3 := alzfsc2 + percs0
        let percs := if c.alzfsm < alzfsc3 then percs0 - alzfsc3 + c.alzfsm else percs0
        let alzfsc4 := if c.alzfsm < alzfsc3 then c.alzfsm else alzfsc3
        let alzfpc3 := alzfpc2 + percfw - percs
        let alzfsc5 := if c.alzfpm < alzfpc3 then alzfsc4 + alzfpc3 - c.alzfpm else alzfsc4
        let alzfpc4 := if c.alzfpm < alzfpc3 then c.alzfpm else alzfpc3
        (uzfwc2, floin1, lztwc1, alzfsc5, alzfpc4,
          ["uzfw", "percfw"] ++ (if (0.0 : α) < lzair then ["lzair"] else ["lz_full"]) ++
          (if lzair2 < percfw0 then ["percfw_excess"] else []) ++
          (if c.alzfsm < alzfsc3 then ["spill_s"] else []) ++ (if c.alzfpm < alzfpc3 then ["spill_p"] else []) ++
          (if (1.0 : α) < hpl * (ratlp + ratlp) / (ratlp + ratls) then ["fracp_clamped"] else []))
      else
        (uzfwc2, floin1, lztwc1, alzfsc2, alzfpc2,
          ["uzfw", "no_percfw"] ++ (if (0.0 : α) < lzair then ["lzair"] else ["lz_full"]) ++
          (if lzair2 < percfw0 then ["percfw_excess"] else []))
    else (v.uzfwc, v.floin, v.lztwc, alzfsc2, alzfpc2, ["uzfw_empty"])
  let uzfwc3 := uz.1
  let floin2 := uz.2.1
  let lztwc2 := uz.2.2.1
  let alzfsc6 := uz.2.2.2.1
  let alzfpc5 := uz.2.2.2.2.1
  -- fill the upper zone free water with the tension water spill
  let pavI := pinc - p.uzfwm + uzfwc3
  let uzfwc4 := if (0.0 : α) < pinc then (if pavI ≤ 0 then uzfwc3 + pinc else p.uzfwm) else uzfwc3
  let flosf1 := if (0.0 : α) < pinc then (if pavI ≤ 0 then v.flosf else v.flosf + pavI) else v.flosf
  let addro := if (0.0 : α) < pinc then (if pavI ≤ 0 then addro0 else addro0 + pavI * (1.0 - addro0 / pinc)) else addro0
  let adimc1 := v.adimc + pinc - addro
  let roimp1 := v.roimp + addro * p.adimp
  ⟨alzfpc5, alzfsc6, uzfwc4, lztwc2, adimc1, flobf2, flosf1, floin2, roimp1,
    v.tags ++ uz.2.2.2.2.2 ++ (if (0.0 : α) < pinc then (if pavI ≤ 0 then ["fill"] else ["surface"]) else ["no_pinc"]) ++
    (if (0.0 : α) < v.alzfpc then [] else ["alzfpc_empty"]) ++ (if (0.0 : α) < v.alzfsc then [] else ["alzfsc_empty"]) ++
    (if ratio0 < 0 then ["ratio_clamped"] else [])⟩

/-- `for inc := 1; inc <= ninc; inc++` as recursion on the number of passes left -/
def incLoop (p : Params α) (c : Consts α) (uztwc pinc dinc duz dlzp dlzs hpl : α) : Nat → Inner α → Inner α
  | 0, v => v
  | n + 1, v => incLoop p c uztwc pinc dinc duz dlzp dlzs hpl n (incBody p c uztwc pinc dinc duz dlzp dlzs hpl v)

/-- `1 - pow(1-k, dinc)` unless k ≥ 1 -/
def fracRate (k dinc : α) : α := if k < 1.0 then 1.0 - Num.pow (1.0 - k) dinc else 1.0

/-- one pass of `for ii := itime; ii <= 2; ii++ { … }` for given `adj`, `pav` -/
def iiBody (p : Params α) (c : Consts α) (uztwc hpl adj pav : α) (v : Inner α) : Inner α :=
  let ninc : Int := Num.toInt (Num.floor ((v.uzfwc * adj + pav) * 0.2)) + 1
  let dinc0 : α := 1.0 / Num.ofInt ninc
  let pinc := pav * dinc0
  let dinc := dinc0 * adj
  let duz := if ninc = 1 ∧ (1.0 : α) ≤ adj then p.uzk else fracRate p.uzk dinc
  let dlzp := if ninc = 1 ∧ (1.0 : α) ≤ adj then p.lzpk else fracRate p.lzpk dinc
  let dlzs := if ninc = 1 ∧ (1.0 : α) ≤ adj then p.lzsk else fracRate p.lzsk dinc
  let v' := { v with tags := v.tags ++ (if ninc = 1 ∧ (1.0 : α) ≤ adj then ["rates_direct"] else ["rates_pow"]) ++
                (if ninc = 1 then ["ninc=1"] else if ninc ≤ 0 then ["ninc<=0"] else ["ninc>1"]) }
  incLoop p c uztwc pinc dinc duz dlzp dlzs hpl ninc.toNat v'

structure Out (α : Type) where
  actualET : α
  runoff : α
  imperviousRunoff : α
  surfaceRunoff : α
  baseflow : α
  /-- ghost: the five evaporation parts -/
  e1 : α
  e2 : α
  e3 : α
  e4 : α
  e5 : α
  /-- ghost: channel loss `min(ssout, flwbf+flwsf)` is qfBefore − qfAfter; baseflowFraction -/
  baseflowFraction : α
  tags : List String

/-- `qq[j]*dro[j]` summed from 0.0, j = 0..4 -/
def convolve (qq dro : List α) : α := (List.zipWith (fun q d => q * d) qq dro).foldl (fun acc x => acc + x) 0.0

/-- results of the channel stage of one time step -/
structure Channel (α : Type) where
  qq : List α
  lzfpc : α
  lzfsc : α
  qf : α
  bf : α
  e4 : α
  baseflowFraction : α
  tags : List String

/-- everything after the drainage loops: scaling to the pervious area, unit hydrograph, channel losses,
baseflow split (the code from `flosf = flosf * (1. - pctim - adimp)` to the output assignments) -/
def channel (p : Params α) (c : Consts α) (qq : List α) (evapt : α) (v2 : Inner α) : Channel α :=
  let flosf := v2.flosf * (1.0 - p.pctim - p.adimp)
  let floin := v2.floin * (1.0 - p.pctim - p.adimp)
  let flobf := v2.flobf * (1.0 - p.pctim - p.adimp)
  let lzfsc := v2.alzfsc / (1.0 + p.side)
  let lzfpc := v2.alzfpc / (1.0 + p.side)
  let q0 := flosf + v2.roimp + floin
  let qqNow := q0 :: qq.tail
  let flwsf := convolve qqNow c.dro
  let qq' := q0 :: qqNow.dropLast
  let flwbf0 := flobf / (1.0 + p.side)
  let flwbf := if flwbf0 < 0.0 then 0.0 else flwbf0
  let qf0 := flwbf + flwsf
  let baseflowFraction := if (0.0 : α) < qf0 then flwbf / qf0 else 0.0
  let qf1 := Num.gmax 0.0 (qf0 - p.ssout)
  let e4 := Num.gmin (evapt * p.sarva) qf1
  let qf := qf1 - e4
  let bf := baseflowFraction * qf
  ⟨qq', lzfpc, lzfsc, qf, bf, e4, baseflowFraction,
    (if (0.0 : α) < qf0 then [] else ["qf0=0"]) ++ (if flwbf0 < 0.0 then ["flwbf<0"] else [])⟩

/-- one iteration of the time loop -/
def step (p : Params α) (c : Consts α) (st : State α) (i : α × α) : State α × Out α :=
  let pliq := i.1
  let evapt := i.2
  -- evaporation from the upper zone
  let e1a := if (0.0 : α) < p.uztwm then evapt * st.uztwc / p.uztwm else 0.0
  let e1b := if st.uztwc < e1a then st.uztwc else e1a
  let uztwc1 := if st.uztwc < e1a then 0.0 else st.uztwc - e1a
  let e2a := if st.uztwc < e1a then Num.gmin (evapt - e1b) st.uzfwc else 0.0
  let uzfwc1 := if st.uztwc < e1a then st.uzfwc - e2a else st.uzfwc
  -- free water → tension water if relatively fuller
  let a1 := if (0.0 : α) < p.uztwm then uztwc1 / p.uztwm else 1.0
  let b1 := if (0.0 : α) < p.uzfwm then uzfwc1 / p.uzfwm else 1.0
  let a2 := (uztwc1 + uzfwc1) / (p.uztwm + p.uzfwm)
  let uztwc2 := if a1 < b1 then p.uztwm * a2 else uztwc1
  let uzfwc2 := if a1 < b1 then p.uzfwm * a2 else uzfwc1
  -- evaporation from ADIMP area and lower zone tension water
  let e3a := if (0.0 : α) < p.uztwm + p.lztwm then
      Num.gmin ((evapt - e1b - e2a) * st.lztwc / (p.uztwm + p.lztwm)) st.lztwc else 0.0
  let e5a := if (0.0 : α) < p.uztwm + p.lztwm then
      Num.gmin (e1b + (evapt - e1b - e2a) * (st.adimc - e1b - uztwc2) / (p.uztwm + p.lztwm)) st.adimc else 0.0
  let lztwc1 := st.lztwc - e3a
  let adimc1 := st.adimc - e5a
  let e1 := e1b * (1 - p.adimp - p.pctim)
  let e2 := e2a * (1 - p.adimp - p.pctim)
  let e3 := e3a * (1 - p.adimp - p.pctim)
  let e5 := e5a * p.adimp
  -- resupply of lower zone tension water from free water
  let a3 := if (0.0 : α) < p.lztwm then lztwc1 / p.lztwm else 1.0
  let b3 := if (0.0 : α) < c.alzfpm + c.alzfsm - c.saved + p.lztwm then
      (st.alzfpc + st.alzfsc - c.saved + lztwc1) / (c.alzfpm + c.alzfsm - c.saved + p.lztwm) else 1.0
  let del := (b3 - a3) * p.lztwm
  let lztwc2 := if a3 < b3 then lztwc1 + del else lztwc1
  let alzfsc0 := if a3 < b3 then st.alzfsc - del else st.alzfsc
  let alzfpc1 := if a3 < b3 then (if alzfsc0 < 0 then st.alzfpc + alzfsc0 else st.alzfpc) else st.alzfpc
  let alzfsc1 := if a3 < b3 then (if alzfsc0 < 0 then 0.0 else alzfsc0) else alzfsc0
  -- impervious runoff, filling of the upper zone tension water
  let roimp0 := pliq * p.pctim
  let pav0 := pliq + uztwc2 - p.uztwm
  let adimc2 := if pav0 < 0 then adimc1 + pliq else adimc1 + p.uztwm - uztwc2
  let uztwc3 := if pav0 < 0 then uztwc2 + pliq else p.uztwm
  let pav := if pav0 < 0 then 0.0 else pav0
  -- number of increments
  let adj := if pav ≤ 5.08 then 1.0
             else if pav < 25.4 then 0.5 * Num.sqrt (pav / 25.4) else 1.0 - 12.7 / pav
  let hpl := c.alzfpm / (c.alzfpm + c.alzfsm)
  let v0 : Inner α := ⟨alzfpc1, alzfsc1, uzfwc2, lztwc2, adimc2, 0.0, 0.0, 0.0, roimp0, []⟩
  let v2 := if pav ≤ 5.08 then iiBody p c uztwc3 hpl adj pav v0
            else iiBody p c uztwc3 hpl (1.0 - adj) 0.0 (iiBody p c uztwc3 hpl adj pav v0)
  let ch := channel p c st.qq evapt v2
  (⟨uztwc3, v2.uzfwc, v2.lztwc, ch.lzfpc, ch.lzfsc, v2.adimc, v2.alzfsc, v2.alzfpc, ch.qq⟩,
   ⟨e1 + e2 + e3 + ch.e4 + e5, ch.qf, v2.roimp, ch.qf - ch.bf, ch.bf, e1, e2, e3, ch.e4, e5, ch.baseflowFraction,
    v2.tags ++ (if st.uztwc < e1a then ["uztw_dry"] else ["uztw_ok"]) ++ (if a1 < b1 then ["uz_transfer"] else []) ++
    (if a3 < b3 then (if alzfsc0 < 0 then ["lz_resupply", "lz_resupply_primary"] else ["lz_resupply"]) else []) ++
    (if pav0 < 0 then ["pav<0"] else ["pav>=0"]) ++
    (if pav ≤ 5.08 then ["itime=2"] else if pav < 25.4 then ["itime=1", "adj_sqrt"] else ["itime=1", "adj_big"]) ++
    ch.tags⟩)

def run (p : Params α) (st : State α) (xs : List (α × α)) : State α × List (Out α) := scan (step p (consts p)) st xs

def dedup (xs : List String) : List String :=
  xs.foldl (fun acc x => if acc.contains x then acc else acc ++ [x]) []

def model : KModel α where
  name := "Sacramento"
  init := fun _ => .ok (zeros 6)
  run := fun p ins st =>
    match p, ins, st with
    | [lzpk, lzsk, uzk, uztwm, uzfwm, lztwm, lzfsm, lzfpm, pfree, rexp, zperc, side, ssout, pctim, adimp, sarva, rserv,
        uh1, uh2, uh3, uh4, uh5], [rain, pet], [s0, s1, s2, s3, s4, s5] =>
      let pp : Params α := ⟨lzpk, lzsk, uzk, uztwm, uzfwm, lztwm, lzfsm, lzfpm, pfree, rexp, zperc, side, ssout, pctim,
        adimp, sarva, rserv, uh1, uh2, uh3, uh4, uh5⟩
      let st0 : State α := ⟨s0, s1, s2, s3, s4, s5, s4 * (1.0 + side), s3 * (1.0 + side), zeros 5⟩
      let res := run pp st0 (rain.zip pet)
      .ok { outputs := [res.2.map (·.actualET), res.2.map (·.runoff), res.2.map (·.imperviousRunoff),
                        res.2.map (·.surfaceRunoff), res.2.map (·.baseflow)],
            states := [res.1.uztwc, res.1.uzfwc, res.1.lztwc, res.1.lzfpc, res.1.lzfsc, res.1.adimc],
            tags := dedup (res.2.flatMap (·.tags)) }
    | _, _, _ => .error "arity"

end OW.Kernels.Sacramento
