import OW.Num
/-
Common shapes for kernel models (core Lean only).

A kernel model mirrors one Go kernel function: a forward loop over the time series that reads the inputs of
step `t`, updates a handful of locals and writes the outputs of step `t`. In Lean that loop is `scan step`.
`KModel` is the adapter used by the driver and by the wrapper model: flat parameter column of one cell,
the input series, the state row → output series, final state row, branch tags.
-/
namespace OW

/-- the forward loop: thread a state through a list, collecting one output per element -/
def scan {σ ι ο : Type} (step : σ → ι → σ × ο) : σ → List ι → σ × List ο
  | s, [] => (s, [])
  | s, x :: xs =>
    let r := step s x
    let rest := scan step r.1 xs
    (rest.1, r.2 :: rest.2)

theorem scan_append {σ ι ο : Type} (step : σ → ι → σ × ο) (s : σ) (a b : List ι) :
    scan step s (a ++ b) =
      ((scan step (scan step s a).1 b).1, (scan step s a).2 ++ (scan step (scan step s a).1 b).2) := by
  induction a generalizing s with
  | nil => simp [scan]
  | cons x xs ih => simp [scan, ih]

theorem scan_length {σ ι ο : Type} (step : σ → ι → σ × ο) (s : σ) (xs : List ι) :
    (scan step s xs).2.length = xs.length := by
  induction xs generalizing s with
  | nil => simp [scan]
  | cons x xs ih => simp [scan, ih]

def zip3 {α β γ} : List α → List β → List γ → List (α × β × γ)
  | a :: as, b :: bs, c :: cs => (a, b, c) :: zip3 as bs cs
  | _, _, _ => []

def zip4 {α β γ δ} : List α → List β → List γ → List δ → List (α × β × γ × δ)
  | a :: as, b :: bs, c :: cs, d :: ds => (a, b, c, d) :: zip4 as bs cs ds
  | _, _, _, _ => []

def zip5 {α β γ δ ε} : List α → List β → List γ → List δ → List ε → List (α × β × γ × δ × ε)
  | a :: as, b :: bs, c :: cs, d :: ds, e :: es => (a, b, c, d, e) :: zip5 as bs cs ds es
  | _, _, _, _, _ => []

/-- result of one kernel run on one cell -/
structure KOut (α : Type) where
  outputs : List (List α)
  states : List α
  tags : List String := []

/-- `panic <class>` of the Go code is `.error "<class>"` -/
abbrev KRes (α : Type) := Except String (KOut α)

structure KModel (α : Type) where
  name : String
  /-- the wrapper's InitialiseStates for ONE cell given its parameter column -/
  init : List α → Except String (List α)
  /-- parameter column, input series (one list per input), state row -/
  run : List α → List (List α) → List α → KRes α

/-- series of `n` zeros (Go arrays are zero-initialised) -/
def zeros {α} [Num α] (n : Nat) : List α := List.replicate n Num.zero

end OW
