import OW.Kernels.Basic
/- models/routing/lag.go — `lag`, `initLag`, loop by loop. Arrays are lists updated with `List.set`; each Go `for` loop
is a `forLoop` whose body carries the Go index expressions unchanged. The state row of the wrapper is the buffer
`lagged` (length `int(timeLag)` when it comes from `initLag`; a longer row keeps its extra cells untouched; a shorter
one makes the Go code index out of range → `.error`). -/
namespace OW.Kernels.Lag
open OW

/-- `for i := i0; i < i0 + n; i++ { a = body i a }` -/
def forLoop {β : Type} (body : Nat → β → β) : Nat → Nat → β → β
  | 0, _, a => a
  | n + 1, i, a => forLoop body n (i + 1) (body i a)

structure Out (α : Type) where
  outflow : List α
  lagged : List α

/-- `lag(inflow, lagged, timeLag, outflow)` for `lagSteps = int(timeLag) > 0`, `lagSteps ≤ len(lagged)`;
`outflow0` is the (zero-initialised) output array of length `len(inflow)`. -/
def lagCore {α} [Inhabited α] (lagSteps : Nat) (inflow lagged outflow0 : List α) : Out α :=
  let T := inflow.length
  -- for i := 0; i < MinInt(lagSteps, outflow.Len1()); i++ { outflow[i] = lagged[i] }
  let out1 := forLoop (fun i (o : List α) => o.set i (lagged.getD i default)) (Nat.min lagSteps T) 0 outflow0
  -- for i := lagSteps; i < outflow.Len1(); i++ { outflow[i] = inflow[i-lagSteps] }
  let out2 := forLoop (fun i (o : List α) => o.set i (inflow.getD (i - lagSteps) default)) (T - lagSteps) lagSteps out1
  if T < lagSteps then
    -- for i := inflow.Len1(); i < lagSteps; i++ { lagged[i-inflow.Len1()] = lagged[i] }
    let l1 := forLoop (fun i (l : List α) => l.set (i - T) (l.getD i default)) (lagSteps - T) T lagged
    -- for i := 0; i < inflow.Len1(); i++ { lagged[lagSteps-inflow.Len1()+i] = inflow[i] }
    let l2 := forLoop (fun i (l : List α) => l.set (lagSteps - T + i) (inflow.getD i default)) T 0 l1
    ⟨out2, l2⟩
  else
    -- for i := 0; i < lagSteps; i++ { lagged[i] = inflow[inflow.Len1()-lagSteps+i] }
    let l1 := forLoop (fun i (l : List α) => l.set i (inflow.getD (T - lagSteps + i) default)) lagSteps 0 lagged
    ⟨out2, l1⟩

/-- the whole kernel on one cell: `.error` = Go panic -/
def run {α} [Num α] (timeLag : α) (inflow lagged : List α) : Except String (Out α) :=
  let lagSteps := Num.toInt timeLag
  if lagSteps == 0 then .ok ⟨inflow, lagged⟩            -- outflow.CopyFrom(inflow); return lagged
  else if lagSteps < 0 then .error "index-out-of-range"  -- outflow.Set([lagSteps], …) with a negative index
  else if lagged.length < lagSteps.toNat then .error "index-out-of-range"   -- lagged[i] beyond the state row
  else .ok (lagCore lagSteps.toNat inflow lagged (zeros inflow.length))

def model {α} [Num α] : KModel α where
  name := "Lag"
  init := fun p =>
    match p with
    | [timeLag] =>
      let n := Num.toInt timeLag
      if n < 0 then .error "alloc" else .ok (zeros n.toNat)   -- make([]float64, int(timeLag))
    | _ => .error "arity"
  run := fun p ins st =>
    match p, ins with
    | [timeLag], [inflow] =>
      match run timeLag inflow st with
      | .error e => .error e
      | .ok o =>
        let lagSteps := Num.toInt timeLag
        .ok { outputs := [o.outflow], states := o.lagged,
              tags := [if lagSteps == 0 then "lag0" else if inflow.length < lagSteps.toNat then "lag>T"
                       else if inflow.length == lagSteps.toNat then "lag=T" else "lag<T"] }
    | _, _ => .error "arity"

end OW.Kernels.Lag
