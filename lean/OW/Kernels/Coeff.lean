import OW.Kernels.Basic
/- models/rr/coeff.go — runoffCoefficient. -/
namespace OW.Kernels.Coeff
open OW

def run {α} [Num α] (coeff : α) (rain : List α) : List α := rain.map (fun r => coeff * r)

def model {α} [Num α] : KModel α where
  name := "RunoffCoefficient"
  init := fun _ => .ok []
  run := fun p ins st =>
    match p, ins, st with
    | [coeff], [rain], [] => .ok { outputs := [run coeff rain], states := [] }
    | _, _, _ => .error "arity"

end OW.Kernels.Coeff
