import OW.Kernels.Basic
import OW.Kernels.LumpedConstituent
/- models/routing/instream_fine_sediment.go — instreamFineSediment, floodPlainDepositionEmperical, inChannelStorage,
line by line, AFTER two repairs (see /verif/fixes):
  * fine-sediment-lumped-branch-local-mass.diff — the `bankFullFlow <= 1e-8` branch routes lateral + reach-local
    mass (the code at the pinned commit silently drops `reachLocalMass` there);
  * fine-sediment-floodplain-zero-excess.diff — `floodPlainDepositionEmperical` returns 0 for
    `outflow <= bankFullFlow` (the pinned code divides by `Qf = 0` when `outflow == bankFullFlow`, which is NaN for a
    reach without floodplain, `fineSedSettVelocityFlood*floodPlainArea == 0`).
units.TONNES_TO_KG = 1e3, units.KG_TO_TONNES = 1e-3, units.SECONDS_PER_DAY = 24*60*60. -/
namespace OW.Kernels.InstreamFineSediment
open OW

structure Params (α : Type) where
  bankFullFlow : α
  fineSedSettVelocityFlood : α
  floodPlainArea : α
  linkWidth : α
  linkLength : α
  linkSlope : α
  bankHeight : α
  propBankHeightForFineDep : α
  sedBulkDensity : α
  manningsN : α
  fineSedSettVelocity : α
  fineSedReMobVelocity : α
  durationInSeconds : α

structure Out (α : Type) where
  loadDownstream : α
  loadToFloodplain : α
  loadToChannelDeposition : α
  floodplainDepositionFraction : α
  channelDepositionFraction : α
  /-- ghost: mass dropped by the `totalVolume <= 0` branch (main path) or by the lumped model's
  `workingVol < MINIMUM_VOLUME` branch (bank-full flow 0 path) -/
  flushed : α

def floodPlainDepositionEmperical {α} [Num α] (outflow totalDailyConstsituentMass bankFullFlow
    fineSedSettVelocityFlood floodPlainArea : α) : α :=
  if outflow ≤ bankFullFlow || Num.feq bankFullFlow 0.0 then 0.0
  else
    let qf := outflow - bankFullFlow
    let floodFlowProp := qf / outflow
    let expTerm := (-1) * ((fineSedSettVelocityFlood * floodPlainArea) / qf)
    let dep := totalDailyConstsituentMass * floodFlowProp * (1.0 - Num.exp expTerm)
    -- safety net, shouldn't happen given the eqn above
    if dep > totalDailyConstsituentMass then totalDailyConstsituentMass else dep

/-- sediment transport capacity threshold (t/d) for a settling/remobilisation velocity `v` -/
def stc {α} [Num α] (outflowVal linkSlope v linkWidth manningsN : α) : α :=
  (0.1 * (Num.pow outflowVal 1.4 * Num.pow linkSlope 1.3) /
    (v * Num.pow linkWidth 0.4 * Num.pow manningsN 0.6)) * 86400.0

def inChannelStorage {α} [Num α] (outflow totalVolume totalDailyConstsituentMass initialChannelStore
    linkWidth linkSlope manningsN fineSedSettVelocity fineSedReMobVelocity maxStorage : α) : α :=
  if totalVolume ≤ 0 then 0.0
  else
    let propTotalStreamFootprint : α := 1.0
    let loadInStreamBeforeDep_tons := totalDailyConstsituentMass * 0.001
    let loadInThisSegBeforeDep_tons := propTotalStreamFootprint * loadInStreamBeforeDep_tons
    let outflowVal := outflow * propTotalStreamFootprint
    let stcDep := stc outflowVal linkSlope fineSedSettVelocity linkWidth manningsN
    let stcMob := stc outflowVal linkSlope fineSedReMobVelocity linkWidth manningsN
    if loadInThisSegBeforeDep_tons > stcDep then
      let availDepFromStorage := (loadInThisSegBeforeDep_tons - stcDep) * 1000.0
      Num.gmin availDepFromStorage (maxStorage - (propTotalStreamFootprint * initialChannelStore))
    else if loadInThisSegBeforeDep_tons < stcMob then
      let availReMob := (stcMob - loadInThisSegBeforeDep_tons) * 1000.0
      Neg.neg (Num.gmin availReMob (propTotalStreamFootprint * initialChannelStore))
    else 0.0

def maxStorage {α} [Num α] (p : Params α) : α :=
  let linkArea := p.linkWidth * p.linkLength
  p.propBankHeightForFineDep * p.bankHeight * linkArea * p.sedBulkDensity * 1000.0

/-- "Treat initial value as proportion of maxStorage" (main path only) -/
def initStore {α} [Num α] (p : Params α) (channelStoreFine : α) : α :=
  if channelStoreFine < 0.0 then Num.abs channelStoreFine * maxStorage p else channelStoreFine

/-- main path (`bankFullFlow > 1e-8`), one loop iteration; state = (channelStoreFine, totalStoredMass);
inputs (upstreamMass, lateralMass, reachLocalMass, reachVolume, outflow) -/
def stepMain {α} [Num α] (p : Params α) (st : α × α) (i : α × α × α × α × α) : (α × α) × Out α :=
  let (channelStoreFine, totalStoredMass) := st
  let (upstreamMass, lateralMass, reachLocalMass, reachVolumeNow, outflowRate) := i
  let incomingMassNow := (upstreamMass + lateralMass + reachLocalMass) * p.durationInSeconds
  let outflowNow := outflowRate * p.durationInSeconds
  let totalDailyConstsituentMass := totalStoredMass + incomingMassNow
  let totalVolume := reachVolumeNow + outflowNow
  let combinedConstituentStorageBeforeDeposition := totalDailyConstsituentMass
  let floodPlainDepositionFine := floodPlainDepositionEmperical outflowRate totalDailyConstsituentMass
    p.bankFullFlow p.fineSedSettVelocityFlood p.floodPlainArea
  let totalDailyConstsituentMass := totalDailyConstsituentMass - floodPlainDepositionFine
  let proportionDepositedFloodplain :=
    if combinedConstituentStorageBeforeDeposition > 0 then
      floodPlainDepositionFine / combinedConstituentStorageBeforeDeposition
    else 0.0
  let netStreamDepositionFineSed := inChannelStorage outflowRate totalVolume totalDailyConstsituentMass
    channelStoreFine p.linkWidth p.linkSlope p.manningsN p.fineSedSettVelocity p.fineSedReMobVelocity (maxStorage p)
  let proportionDepositedChannel :=
    if combinedConstituentStorageBeforeDeposition > 0 then
      netStreamDepositionFineSed / combinedConstituentStorageBeforeDeposition
    else 0.0
  let channelStoreFine := channelStoreFine + netStreamDepositionFineSed
  let totalDailyConstsituentMass := totalDailyConstsituentMass - netStreamDepositionFineSed
  if totalVolume > 0 then
    let concentration := totalDailyConstsituentMass / totalVolume
    ((channelStoreFine, concentration * reachVolumeNow),
      ⟨concentration * outflowRate, floodPlainDepositionFine / p.durationInSeconds, netStreamDepositionFineSed,
       proportionDepositedFloodplain, proportionDepositedChannel, Num.zero⟩)
  else
    ((channelStoreFine, 0.0),
      ⟨0.0, floodPlainDepositionFine / p.durationInSeconds, netStreamDepositionFineSed,
       proportionDepositedFloodplain, proportionDepositedChannel, totalDailyConstsituentMass⟩)

/-- bank-full flow 0 path: LumpedConstituentTransport(upstream, lateral + reachLocal, outflow, reachVolume,
x = 0, pointInput = 0.0, Δt, loadDownstream, nil); the other four outputs are never written -/
def stepLumped {α} [Num α] (p : Params α) (st : α × α) (i : α × α × α × α × α) : (α × α) × Out α :=
  let (channelStoreFine, totalStoredMass) := st
  let (upstreamMass, lateralMass, reachLocalMass, reachVolumeNow, outflowRate) := i
  let r := LumpedConstituent.step 0.0 p.durationInSeconds totalStoredMass
    (upstreamMass, lateralMass + reachLocalMass, outflowRate, reachVolumeNow)
  ((channelStoreFine, r.1), ⟨r.2.outflowLoad, Num.zero, Num.zero, Num.zero, Num.zero, r.2.flushed⟩)

def lumped {α} [Num α] (p : Params α) : Bool := p.bankFullFlow ≤ 1e-8

def step {α} [Num α] (p : Params α) : α × α → α × α × α × α × α → (α × α) × Out α :=
  if lumped p then stepLumped p else stepMain p

/-- the state the loop starts from -/
def start {α} [Num α] (p : Params α) (st : α × α) : α × α :=
  if lumped p then st else (initStore p st.1, st.2)

def run {α} [Num α] (p : Params α) (st : α × α) (xs : List (α × α × α × α × α)) : (α × α) × List (Out α) :=
  scan (step p) (start p st) xs

/-! branch classification of one main-path step (for coverage tags only) -/
def classify {α} [Num α] (p : Params α) (st : α × α) (i : α × α × α × α × α) : List String :=
  let (channelStoreFine, totalStoredMass) := st
  let (upstreamMass, lateralMass, reachLocalMass, reachVolumeNow, outflowRate) := i
  let total := totalStoredMass + (upstreamMass + lateralMass + reachLocalMass) * p.durationInSeconds
  let totalVolume := reachVolumeNow + outflowRate * p.durationInSeconds
  let fp := floodPlainDepositionEmperical outflowRate total p.bankFullFlow p.fineSedSettVelocityFlood p.floodPlainArea
  let total := total - fp
  let flood := if outflowRate ≤ p.bankFullFlow then "fine:noflood" else "fine:flood"
  if totalVolume ≤ 0 then [flood, "fine:novolume"]
  else
    let load := (1.0 : α) * (total * 0.001)
    let q := outflowRate * 1.0
    let stcDep := stc q p.linkSlope p.fineSedSettVelocity p.linkWidth p.manningsN
    let stcMob := stc q p.linkSlope p.fineSedReMobVelocity p.linkWidth p.manningsN
    let ch :=
      if load > stcDep then
        (if (load - stcDep) * 1000.0 ≤ maxStorage p - 1.0 * channelStoreFine then "fine:deposit" else "fine:deposit-capped")
      else if load < stcMob then
        (if (stcMob - load) * 1000.0 ≤ 1.0 * channelStoreFine then "fine:remob" else "fine:remob-capped")
      else "fine:neither"
    [flood, ch]

def model {α} [Num α] : KModel α where
  name := "InstreamFineSediment"
  init := fun _ => .ok [Num.zero, Num.zero]
  run := fun p ins st =>
    match p, ins, st with
    | [bff, vfl, fpa, lw, ll, ls, bh, pbh, sbd, mn, vs, vr, dt], [a, b, c, d, e], [csf, tsm] =>
      let P : Params α := ⟨bff, vfl, fpa, lw, ll, ls, bh, pbh, sbd, mn, vs, vr, dt⟩
      let xs := zip5 a b c d e
      let r := run P (csf, tsm) xs
      let tags : List String :=
        if lumped P then ["fine:lumped"]
        else
          let cls := (scan (fun s i => ((stepMain P s i).1, classify P s i)) (start P (csf, tsm)) xs).2
          let all := ["fine:noflood", "fine:flood", "fine:novolume", "fine:deposit", "fine:deposit-capped",
                      "fine:remob", "fine:remob-capped", "fine:neither"]
          (if csf < 0.0 then ["fine:init-fraction"] else []) ++ all.filter (fun t => cls.any (·.contains t))
      .ok { outputs := [r.2.map (·.loadDownstream), r.2.map (·.loadToFloodplain), r.2.map (·.loadToChannelDeposition),
                        r.2.map (·.floodplainDepositionFraction), r.2.map (·.channelDepositionFraction)],
            states := [r.1.1, r.1.2], tags := tags }
    | _, _, _ => .error "arity"

end OW.Kernels.InstreamFineSediment
