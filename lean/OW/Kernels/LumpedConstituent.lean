import OW.Kernels.Basic
/- models/routing/lumpedconstituent.go — LumpedConstituentTransport, line by line. -/
namespace OW.Kernels.LumpedConstituent
open OW

/-- MINIMUM_VOLUME = 1e-2 -/
def minimumVolume {α} [Num α] : α := 0.01

structure Out (α : Type) where
  outflowLoad : α
  pointSourceLoad : α
  /-- ghost: mass dropped by the `workingVol < MINIMUM_VOLUME` branch (not an output of the code) -/
  flushed : α

/-- one iteration of the loop; state = storedMass; inputs (inflowLoad, lateralLoad, outflow, storage) -/
def step {α} [Num α] (pointInput deltaT : α) (storedMass : α) (i : α × α × α × α) : α × Out α :=
  let (inflowLoad, lateralLoad, outflowR, storedV) := i
  let totalLoadIn := (inflowLoad + lateralLoad + pointInput) * deltaT
  let outflowV := outflowR * deltaT
  let workingMass := storedMass + totalLoadIn
  let workingVol := outflowV + storedV
  if workingVol < minimumVolume then
    (Num.zero, ⟨Num.zero, Num.zero, workingMass⟩)
  else
    let concentration := workingMass / workingVol
    (concentration * storedV, ⟨concentration * outflowR, pointInput, Num.zero⟩)

def run {α} [Num α] (pointInput deltaT : α) (storedMass : α) (xs : List (α × α × α × α)) : α × List (Out α) :=
  scan (step pointInput deltaT) storedMass xs

def model {α} [Num α] : KModel α where
  name := "LumpedConstituentRouting"
  init := fun _ => .ok [Num.zero]
  run := fun p ins st =>
    match p, ins, st with
    | [_x, pointInput, deltaT], [a, b, c, d], [sm] =>
      let xs := zip4 a b c d
      let r := run pointInput deltaT sm xs
      let low := fun (i : α × α × α × α) => i.2.2.1 * deltaT + i.2.2.2 < minimumVolume
      .ok { outputs := [r.2.map (·.outflowLoad), r.2.map (·.pointSourceLoad)], states := [r.1],
            tags := (if xs.any low then ["lumped:flush"] else []) ++
                    (if xs.any (fun i => !low i) then ["lumped:normal"] else []) }
    | _, _, _ => .error "arity"

end OW.Kernels.LumpedConstituent
