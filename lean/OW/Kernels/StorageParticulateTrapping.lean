import OW.Kernels.Basic
/- models/storage/sediment_trapping.go — storageParticulateTrapping, line by line
(with the zero-working-volume guard of fix D11: an empty storage releases nothing). -/
namespace OW.Kernels.StorageParticulateTrapping
open OW

structure Params (α : Type) where
  deltaT : α
  reservoirCapacity : α
  reservoirLength : α
  subtractor : α
  multiplier : α
  lengthDischargeFactor : α
  lengthDischargePower : α

structure Out (α : Type) where
  trappedMass : α
  outflowLoad : α

/-- trapping efficiency in percent (Lewis et al. style length/discharge index), clipped to [0,100] -/
def damTrappingPC {α} [Num α] (p : Params α) (inflowRate : α) : α :=
  if inflowRate > 0 && p.reservoirLength > 0 then
    let sedimentationIndex := Num.pow p.reservoirCapacity 2.0 /
      (p.lengthDischargeFactor * p.reservoirLength * Num.pow inflowRate 2.0)
    let damTrappingPC := p.subtractor - (p.multiplier * Num.pow sedimentationIndex p.lengthDischargePower)
    Num.pmin 100.0 (Num.pmax 0.0 damTrappingPC)
  else 0.0

/-- state = storedMass; inputs (inflowMass, storageInflow, storageOutflow, storageVolume) -/
def step {α} [Num α] (p : Params α) (storedMass : α) (i : α × α × α × α) : α × Out α :=
  let (inflowMass, inflowRate, storageOutflowRate, storageVolume) := i
  let incomingMass := inflowMass * p.deltaT
  let damPC := damTrappingPC p inflowRate
  let dailyTrappedConstituentLoad := incomingMass * damPC / 100.0
  let storedMass := storedMass + incomingMass - dailyTrappedConstituentLoad
  let storageWorkingVolume := storageOutflowRate * p.deltaT + storageVolume
  let massOutRate :=
    if storageWorkingVolume > 0 then
      let concentration := storedMass / storageWorkingVolume
      storageOutflowRate * concentration
    else 0.0
  (Num.gmax (storedMass - (massOutRate * p.deltaT)) 0.0, ⟨dailyTrappedConstituentLoad, massOutRate⟩)

def run {α} [Num α] (p : Params α) (storedMass : α) (xs : List (α × α × α × α)) : α × List (Out α) :=
  scan (step p) storedMass xs

def model {α} [Num α] : KModel α where
  name := "StorageParticulateTrapping"
  init := fun _ => .ok [Num.zero]
  run := fun p ins st =>
    match p, ins, st with
    | [dt, cap, len, sub, mul, ldf, ldp], [a, b, c, d], [sm] =>
      let P : Params α := ⟨dt, cap, len, sub, mul, ldf, ldp⟩
      let xs := zip4 a b c d
      let r := run P sm xs
      let pcs := xs.map (fun i => (i.2.1 > 0 && len > 0, damTrappingPC P i.2.1))
      .ok { outputs := [r.2.map (·.trappedMass), r.2.map (·.outflowLoad)], states := [r.1],
            tags := (if pcs.any (fun q => !q.1) then ["trap:none"] else []) ++
                    (if pcs.any (fun q => q.1 && Num.feq q.2 0.0) then ["trap:clip0"] else []) ++
                    (if pcs.any (fun q => q.1 && Num.feq q.2 100.0) then ["trap:clip100"] else []) ++
                    (if pcs.any (fun q => q.1 && q.2 > 0 && q.2 < 100) then ["trap:partial"] else []) ++
                    (if xs.any (fun i => !(i.2.2.1 * dt + i.2.2.2 > 0)) then ["trap:empty"] else []) ++
                    (if xs.any (fun i => i.2.2.1 * dt + i.2.2.2 > 0) then ["trap:release"] else []) }
    | _, _, _ => .error "arity"

end OW.Kernels.StorageParticulateTrapping
