import OW.Kernels.Basic
/- models/routing/muskingum.go — muskingum, line by line (after fix D8 the carried inflow includes the lateral). -/
namespace OW.Kernels.Muskingum
open OW

structure Coef (α : Type) where
  a1 : α
  a2 : α
  a3 : α

def coef {α} [Num α] (k x deltaT : α) : Coef α :=
  let kx2 := 2 * k * x
  let denom := (2 * k * (1 - x) + deltaT)
  ⟨(deltaT - kx2) / denom, (deltaT + kx2) / denom, (2 * k * (1 - x) - deltaT) / denom⟩

/-- state = (prevInflow, prevOutflow); input = (inflow, lateral); output = outflow -/
def step {α} [Num α] (c : Coef α) (st : α × α) (i : α × α) : (α × α) × α :=
  let (prevInflow, prevOutflow) := st
  let (inflow, lateral) := i
  let outflow := c.a1 * (inflow + lateral) + c.a2 * prevInflow + c.a3 * prevOutflow
  ((inflow + lateral, outflow), outflow)

def run {α} [Num α] (k x deltaT : α) (st : α × α) (xs : List (α × α)) : (α × α) × List α :=
  scan (step (coef k x deltaT)) st xs

def model {α} [Num α] : KModel α where
  name := "Muskingum"
  init := fun _ => .ok [Num.zero, Num.zero, Num.zero]
  run := fun p ins st =>
    match p, ins, st with
    | [k, x, deltaT], [a, b], [s, pi, po] =>
      let r := run k x deltaT (pi, po) (a.zip b)
      .ok { outputs := [r.2], states := [s, r.1.1, r.1.2] }
    | _, _, _ => .error "arity"

end OW.Kernels.Muskingum
