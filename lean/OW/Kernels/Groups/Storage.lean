import OW.Kernels.Basic
import OW.Kernels.Storage
/- Kernel models of group Storage (one owner; see /verif/AGENTS.md). Add imports above and entries to `models`. -/
namespace OW.Kernels.Groups.Storage
open OW

def models {α} [Num α] : List (KModel α) := [ Kernels.Storage.model ]

end OW.Kernels.Groups.Storage
