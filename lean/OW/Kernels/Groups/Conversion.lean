import OW.Kernels.Basic
/- Kernel models of group Conversion (one owner; see /verif/AGENTS.md). Add imports above and entries to `models`. -/
namespace OW.Kernels.Groups.Conversion
open OW

def models {α} [Num α] : List (KModel α) := [ ]

end OW.Kernels.Groups.Conversion
