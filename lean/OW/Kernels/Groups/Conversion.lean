import OW.Kernels.Basic
import OW.Kernels.C16.Conversions
import OW.Kernels.C16.Partitions
import OW.Kernels.C16.LoadGen
import OW.Kernels.C16.BankErosion
import OW.Kernels.C16.UsleFine
import OW.Kernels.C16.SednetGully
/- Kernel models of group Conversion (one owner; see /verif/AGENTS.md). Add imports above and entries to `models`. -/
namespace OW.Kernels.Groups.Conversion
open OW

def models {α} [Num α] : List (KModel α) := [
  -- models/conversion
  Kernels.Scaling.model, Kernels.Scaling.deliveryRatio, Kernels.DepthToRate.model,
  Kernels.FixedPartition.model, Kernels.VariablePartition.model, Kernels.RatingCurvePartition.model,
  -- models/functions (dates.go is OW/Util/Dates.lean)
  Kernels.InputNode.model, Kernels.Sum.model, Kernels.Gate.model, Kernels.ComputeProportion.model,
  Kernels.BaseflowFilter.model, Kernels.PartitionDemand.model,
  -- models/generation
  Kernels.EmcDwc.model, Kernels.FixedConcentration.model, Kernels.PassLoadIfFlow.model,
  Kernels.DissolvedNutrients.model, Kernels.ParticulateNutrients.model, Kernels.BankErosion.model,
  Kernels.UsleFine.model, Kernels.SednetGully.model, Kernels.SednetGully.modelAlt ]

end OW.Kernels.Groups.Conversion
