import OW.Kernels.Basic
import OW.Kernels.Muskingum
import OW.Kernels.Lag
import OW.Kernels.StorageRouting
/- Kernel models of group FlowRouting (one owner; see /verif/AGENTS.md). Add imports above and entries to `models`. -/
namespace OW.Kernels.Groups.FlowRouting
open OW

def models {α} [Num α] : List (KModel α) :=
  [ Kernels.Muskingum.model, Kernels.Lag.model, Kernels.StorageRouting.model ]

end OW.Kernels.Groups.FlowRouting
