import OW.Kernels.Basic
import OW.Kernels.Coeff
/- Kernel models of group RR (one owner; see /verif/AGENTS.md). Add imports above and entries to `models`. -/
namespace OW.Kernels.Groups.RR
open OW

def models {α} [Num α] : List (KModel α) := [ Kernels.Coeff.model ]

end OW.Kernels.Groups.RR
