import OW.Kernels.Basic
import OW.Kernels.Coeff
import OW.Kernels.GR4J
import OW.Kernels.Simhyd
import OW.Kernels.Surm
import OW.Kernels.Sacramento
import OW.Spec.GR4J
/- Kernel models of group RR (one owner; see /verif/AGENTS.md). Add imports above and entries to `models`.
`GR4J#spec` / `GR4J#published` are not models of Go code: they are the independent specification OW/Spec/GR4J.lean
made runnable on the same protocol line as the GR4J kernel (family KSPEC, property C15). -/
namespace OW.Kernels.Groups.RR
open OW

def models {α} [Num α] : List (KModel α) :=
  [ Kernels.Coeff.model, Kernels.GR4J.model, Kernels.Simhyd.model, Kernels.Surm.model, Kernels.Sacramento.model,
    Spec.GR4J.model, Spec.GR4J.modelPublished ]

end OW.Kernels.Groups.RR
