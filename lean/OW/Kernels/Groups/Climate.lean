import OW.Kernels.Basic
import OW.Kernels.Climate
/- Kernel models of group Climate (one owner; see /verif/AGENTS.md). Add imports above and entries to `models`. -/
namespace OW.Kernels.Groups.Climate
open OW

def models {α} [Num α] : List (KModel α) := [ Kernels.Climate.model ]

end OW.Kernels.Groups.Climate
