import OW.Kernels.Basic
/- Kernel models of group Climate (one owner; see /verif/AGENTS.md). Add imports above and entries to `models`. -/
namespace OW.Kernels.Groups.Climate
open OW

def models {α} [Num α] : List (KModel α) := [ ]

end OW.Kernels.Groups.Climate
