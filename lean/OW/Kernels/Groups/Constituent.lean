import OW.Kernels.Basic
import OW.Kernels.LumpedConstituent
/- Kernel models of group Constituent (one owner; see /verif/AGENTS.md). Add imports above and entries to `models`. -/
namespace OW.Kernels.Groups.Constituent
open OW

def models {α} [Num α] : List (KModel α) := [ Kernels.LumpedConstituent.model ]

end OW.Kernels.Groups.Constituent
