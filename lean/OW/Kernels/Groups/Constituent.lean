import OW.Kernels.Basic
import OW.Kernels.LumpedConstituent
import OW.Kernels.ConstituentDecay
import OW.Kernels.InstreamCoarseSediment
import OW.Kernels.InstreamFineSediment
import OW.Kernels.InstreamParticulateNutrient
import OW.Kernels.StorageParticulateTrapping
import OW.Kernels.StorageTrapAll
import OW.Kernels.StorageDissolvedDecay
/- Kernel models of group Constituent (one owner; see /verif/AGENTS.md). Add imports above and entries to `models`.
The three storage/* constituent models (particulate trapping, trap-all, dissolved decay) are registered here too
(property C12 owns them; Groups/Storage.lean holds the reservoir water-balance model). -/
namespace OW.Kernels.Groups.Constituent
open OW

def models {α} [Num α] : List (KModel α) :=
  [ Kernels.LumpedConstituent.model, Kernels.ConstituentDecay.model, Kernels.InstreamCoarseSediment.model,
    Kernels.InstreamFineSediment.model, Kernels.InstreamParticulateNutrient.model,
    Kernels.StorageParticulateTrapping.model, Kernels.StorageTrapAll.model, Kernels.StorageDissolvedDecay.model ]

end OW.Kernels.Groups.Constituent
