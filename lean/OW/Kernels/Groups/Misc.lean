import OW.Kernels.Basic
import OW.Kernels.DateGenerator
import OW.Kernels.InstreamDissolvedNutrient
/- Kernel models owned by the coordinator. -/
namespace OW.Kernels.Groups.Misc
open OW

def models {α} [Num α] : List (KModel α) := [ Kernels.DateGenerator.model, Kernels.InstreamDissolvedNutrient.model ]

end OW.Kernels.Groups.Misc
