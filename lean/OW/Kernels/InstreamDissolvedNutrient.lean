import OW.Kernels.Basic
import OW.Kernels.LumpedConstituent
/- models/routing/instream_dissolved_nutrient.go — instreamDissolvedNutrient, line by line.
Note (known finding D14, C06): `prevVolume` is re-seeded from the first step of every call and is not a state. -/
namespace OW.Kernels.InstreamDissolvedNutrient
open OW

structure Out (α : Type) where
  decayed : Option α          -- none = the code does not write this output at this step (stays 0)
  downstream : α
  pointSource : Option α
  tag : String

/-- one iteration of the decay loop; state = prevVolume; input = (upstream, lateral, reachVolume, outflow) -/
def step {α} [Num α] (storedMass pointSourcePerSecond linkHeight linkWidth linkLength uptakeVelocity durationInSeconds timeStepInDays : α)
    (prevVolume : α) (i : α × α × α × α) : α × Out α :=
  let (up, lat, reachVolumeNow, outflowNow) := i
  let incomingMassNow := up + lat
  let totalConstsituentLoad := storedMass + incomingMassNow
  let pointSourceLoad_kg : α := if 0.0 < reachVolumeNow then pointSourcePerSecond else 0.0
  let constituentStoragePriorToInflows := totalConstsituentLoad - incomingMassNow
  let totalConstsituentLoad := totalConstsituentLoad + pointSourceLoad_kg
  let avStorage := (reachVolumeNow + prevVolume) / 2
  let waterDepth := Num.gmin linkHeight (avStorage / (linkLength * linkWidth))
  let crossAreaSection_m2 := waterDepth * linkWidth
  let outflowRate := outflowNow
  let flowVelocity : α :=
    if 0.0 < crossAreaSection_m2 then (if 0.0 < outflowRate then outflowRate / crossAreaSection_m2 else 0.0) else 0.0
  let travelTimeInSeconds : α :=
    if 0.0 < crossAreaSection_m2 then (if 0.0 < flowVelocity then linkLength / flowVelocity else 0.0) else 0.0
  let decayCoefficient : α := if 0.0 < waterDepth then uptakeVelocity / waterDepth else 1000.0
  let effectiveDecayCoefficient := Num.exp (-1 * decayCoefficient * timeStepInDays)
  let dailyLateral := lat + pointSourceLoad_kg
  let allAvailConstit := totalConstsituentLoad
  if effectiveDecayCoefficient ≤ 0.0 then
    (reachVolumeNow, ⟨none, totalConstsituentLoad, none, "no-decay-coefficient"⟩)
  else if travelTimeInSeconds ≤ durationInSeconds then
    let loadOut := allAvailConstit * effectiveDecayCoefficient
    let daily := allAvailConstit - loadOut
    (reachVolumeNow, ⟨none, allAvailConstit - daily, none, "short-travel"⟩)
  else
    let loadOut := (dailyLateral + constituentStoragePriorToInflows) * (durationInSeconds / travelTimeInSeconds) * effectiveDecayCoefficient
    let daily := allAvailConstit - loadOut
    (reachVolumeNow, ⟨some daily, allAvailConstit - daily, some pointSourceLoad_kg, "long-travel"⟩)

def model {α} [Num α] : KModel α where
  name := "InstreamDissolvedNutrientDecay"
  init := fun _ => .ok [Num.zero]
  run := fun p ins st =>
    match p, ins, st with
    | [doDecay, pointSourceLoad, linkHeight, linkWidth, linkLength, uptakeVelocity, durationInSeconds],
      [up, lat, vol, outflow, _fp], [storedMass] =>
      match vol with
      | [] => .error "index-out-of-range"   -- prevVolume := reachVolume.Get([0]) on an empty series
      | v0 :: _ =>
        let timeStepInDays : α := 86400 / durationInSeconds
        let pointSourcePerSecond : α := pointSourceLoad / 31557600
        let zs : List α := zeros up.length
        if doDecay < 0.5 then
          let r := LumpedConstituent.run pointSourcePerSecond durationInSeconds storedMass (zip4 up lat outflow vol)
          .ok { outputs := [zs, r.2.map (·.outflowLoad), zs, r.2.map (·.pointSourceLoad)], states := [r.1], tags := ["lumped"] }
        else
          let r := scan (step storedMass pointSourcePerSecond linkHeight linkWidth linkLength uptakeVelocity durationInSeconds timeStepInDays)
                     v0 (zip4 up lat vol outflow)
          .ok { outputs := [r.2.map (fun o => o.decayed.getD Num.zero), r.2.map (·.downstream), zs,
                            r.2.map (fun o => o.pointSource.getD Num.zero)],
                states := [storedMass], tags := (r.2.map (·.tag)).eraseDups }
    | _, _, _ => .error "arity"

end OW.Kernels.InstreamDissolvedNutrient
