import OW.Kernels.Basic
/- models/rr/simhyd.go — simhyd, expression by expression. State row: [SoilMoistureStore, Groundwater, TotalStore]. -/
namespace OW.Kernels.Simhyd
open OW

variable {α : Type} [Num α]

structure Params (α : Type) where
  baseflowCoefficient : α
  imperviousThreshold : α
  infiltrationCoefficient : α
  infiltrationShape : α
  interflowCoefficient : α
  perviousFraction : α
  risc : α
  rechargeCoefficient : α
  smsc : α

structure State (α : Type) where
  sms : α
  gw : α
  total : α

structure Out (α : Type) where
  runoff : α
  quickflow : α
  baseflow : α
  store : α
  /-- ghost: evapotranspiration per unit catchment area (the commented-out `totalEt`) -/
  aet : α
  tags : List String

/-- SOIL_ET_CONST = 10.0 -/
def soilEtConst : α := 10.0

def step (p : Params α) (st : State α) (i : α × α) : State α × Out α :=
  let rainToday := i.1
  let petToday := i.2
  let perviousIncident := rainToday
  let imperviousIncident := rainToday
  let imperviousEt := Num.gmin p.imperviousThreshold imperviousIncident
  let imperviousRunoff := imperviousIncident - imperviousEt
  let interceptionEt := Num.gmin perviousIncident (Num.gmin petToday p.risc)
  let throughfall := perviousIncident - interceptionEt
  let smf0 := st.sms / p.smsc
  let infiltrationCapacity := p.infiltrationCoefficient * Num.exp (-p.infiltrationShape * smf0)
  let infiltration := Num.gmin throughfall infiltrationCapacity
  let infiltrationXsRunoff := throughfall - infiltration
  let interflowRunoff := p.interflowCoefficient * smf0 * infiltration
  let infiltrationAfterInterflow := infiltration - interflowRunoff
  let recharge := p.rechargeCoefficient * smf0 * infiltrationAfterInterflow
  let soilInput := infiltrationAfterInterflow - recharge
  let sms1 := st.sms + soilInput
  let smf1 := sms1 / p.smsc
  let gw1 := st.gw + recharge
  let gw2 := if 1 < smf1 then gw1 + (sms1 - p.smsc) else gw1
  let sms2 := if 1 < smf1 then p.smsc else sms1
  let smf2 := if 1 < smf1 then 1 else smf1
  let baseflowRunoff := p.baseflowCoefficient * gw2
  let gw3 := gw2 - baseflowRunoff
  let soilEt := Num.gmin sms2 (Num.gmin (petToday - interceptionEt) (smf2 * soilEtConst))
  let sms3 := sms2 - soilEt
  let totalStore := (sms3 + gw3) * p.perviousFraction
  let eventRunoff := (1 - p.perviousFraction) * imperviousRunoff +
    p.perviousFraction * (infiltrationXsRunoff + interflowRunoff)
  let totalRunoff := eventRunoff + p.perviousFraction * baseflowRunoff
  (⟨sms3, gw3, totalStore⟩,
   ⟨totalRunoff, eventRunoff, baseflowRunoff * p.perviousFraction, sms3,
    (1 - p.perviousFraction) * imperviousEt + p.perviousFraction * (interceptionEt + soilEt),
    (if 1 < smf1 then ["sms_spill"] else ["sms_nospill"]) ++
    (if infiltrationCapacity < throughfall then ["inf_limited"] else ["inf_all"])⟩)

def run (p : Params α) (st : State α) (xs : List (α × α)) : State α × List (Out α) := scan (step p) st xs

def dedup (xs : List String) : List String :=
  xs.foldl (fun acc x => if acc.contains x then acc else acc ++ [x]) []

def model : KModel α where
  name := "Simhyd"
  init := fun _ => .ok [Num.zero, Num.zero, Num.zero]
  run := fun p ins st =>
    match p, ins, st with
    | [a, b, c, d, e, f, g, h, k], [rain, pet], [s, gw, tot] =>
      let res := run ⟨a, b, c, d, e, f, g, h, k⟩ ⟨s, gw, tot⟩ (rain.zip pet)
      .ok { outputs := [res.2.map (·.runoff), res.2.map (·.quickflow), res.2.map (·.baseflow), res.2.map (·.store)],
            states := [res.1.sms, res.1.gw, res.1.total], tags := dedup (res.2.flatMap (·.tags)) }
    | _, _, _ => .error "arity"

end OW.Kernels.Simhyd
