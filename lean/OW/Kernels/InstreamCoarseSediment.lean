import OW.Kernels.Basic
/- models/routing/instream_coarse_sediment.go — instreamCoarseSediment, line by line.
Everything that arrives (and everything stored) is deposited in the channel store each step; nothing goes downstream. -/
namespace OW.Kernels.InstreamCoarseSediment
open OW

structure Out (α : Type) where
  loadDownstream : α
  /-- ghost: `dailyCoarseSedDeposited_Kg` (mass moved to the channel store in this step) -/
  deposited : α

/-- state = (channelStore, storedMass); inputs (upstreamMass, lateralMass, reachLocalMass) -/
def step {α} [Num α] (deltaT : α) (st : α × α) (i : α × α × α) : (α × α) × Out α :=
  let (channelStore, storedMass) := st
  let (upstreamMass, lateralMass, reachLocalMass) := i
  let incomingMass := upstreamMass + lateralMass + reachLocalMass
  let incomingMass := incomingMass * deltaT
  let totalDailyConstituentMass := storedMass + incomingMass
  let dailyCoarseSedDeposited_Kg := totalDailyConstituentMass
  let channelStore := channelStore + dailyCoarseSedDeposited_Kg
  let totalDailyConstituentMass : α := 0.0
  ((channelStore, 0.0), ⟨totalDailyConstituentMass, dailyCoarseSedDeposited_Kg⟩)

def run {α} [Num α] (deltaT : α) (st : α × α) (xs : List (α × α × α)) : (α × α) × List (Out α) :=
  scan (step deltaT) st xs

def model {α} [Num α] : KModel α where
  name := "InstreamCoarseSediment"
  init := fun _ => .ok [Num.zero, Num.zero]
  run := fun p ins st =>
    match p, ins, st with
    | [deltaT], [a, b, c], [cs, sm] =>
      let r := run deltaT (cs, sm) (zip3 a b c)
      .ok { outputs := [r.2.map (·.loadDownstream)], states := [r.1.1, r.1.2],
            tags := if a.isEmpty then [] else ["coarse:deposit-all"] }
    | _, _, _ => .error "arity"

end OW.Kernels.InstreamCoarseSediment
