import OW.Kernels.Basic
import OW.Kernels.LumpedConstituent
/- models/routing/instream_particulate_nutrient.go — instreamParticulateNutrient, line by line. -/
namespace OW.Kernels.InstreamParticulateNutrient
open OW

structure In (α : Type) where
  incomingMassUpstream : α
  incomingMassLateral : α
  reachVolume : α
  outflow : α
  streamBankErosion : α
  lateralSediment : α
  floodplainDepositionFraction : α
  channelDepositionFraction : α

structure Out (α : Type) where
  loadDeposited : α
  loadFromStreambank : α
  loadDownstream : α
  loadToFloodplain : α
  /-- ghost: `bedExchange` (net mass moved to the channel store; negative = resuspension). Equal to `loadDeposited`
  except on flushed steps, where the code `continue`s before writing `loadDeposited` (it stays 0). -/
  bedExchange : α
  /-- ghost: mass dropped by the `workingVol < MINIMUM_VOLUME` branch -/
  flushed : α

/-- `totalDailyConstsituentMassForDepositionProcesses` before the stream-bank term: stored + upstream, plus the
lateral mass only when the catchment also supplied sediment, floored at 0 -/
def forDeposition {α} [Num α] (instreamStoredMass incomingUpstream incomingLateral lateralSediment : α) : α :=
  let forDep := instreamStoredMass + incomingUpstream
  let forDep := if lateralSediment > 0.0 then forDep + incomingLateral else forDep
  if forDep < 0.0 then 0.0 else forDep

/-- the `if bedDepositSignal >= 0 {…} else {…}` block: (bedExchange, channelStoredMass afterwards) -/
def bedExchange {α} [Num α] (bedDepositSignal forDep nutrientDailyDepositedFloodPlain channelStoredMass : α) : α × α :=
  if bedDepositSignal ≥ 0 then
    let bedExchange := Num.gmin (bedDepositSignal * forDep) (forDep - nutrientDailyDepositedFloodPlain)
    (bedExchange, channelStoredMass + bedExchange)
  else
    let resuspension := -bedDepositSignal * forDep
    (-resuspension, channelStoredMass - resuspension)

/-- state = (instreamStoredMass, channelStoredMass) -/
def step {α} [Num α] (particulateNutrientConcentration soilPercentFine durationInSeconds : α)
    (st : α × α) (i : In α) : (α × α) × Out α :=
  let (instreamStoredMass, channelStoredMass) := st
  let incomingUpstream := i.incomingMassUpstream * durationInSeconds
  let incomingLateral := i.incomingMassLateral * durationInSeconds
  let totalDailyConstsituentMass := instreamStoredMass + incomingUpstream + incomingLateral
  let forDep := forDeposition instreamStoredMass incomingUpstream incomingLateral i.lateralSediment
  -- stream bank generation
  let streamBankParticulate := i.streamBankErosion * particulateNutrientConcentration
  let loadFromStreambank := streamBankParticulate
  let streamBankParticulate := streamBankParticulate * durationInSeconds
  let totalDailyConstsituentMass := totalDailyConstsituentMass + streamBankParticulate
  let forDep := forDep + streamBankParticulate * (soilPercentFine / 100)
  -- deposition on floodplain
  let fpDepositionFraction := Num.gmin (Num.gmax i.floodplainDepositionFraction 0.0) 1.0
  let nutrientDailyDepositedFloodPlain := fpDepositionFraction * forDep
  let loadToFloodplain := nutrientDailyDepositedFloodPlain / durationInSeconds
  -- bed exchange (negative = resuspension)
  let be := bedExchange i.channelDepositionFraction forDep nutrientDailyDepositedFloodPlain channelStoredMass
  let bedExchange := be.1
  let channelStoredMass := be.2
  let netLoss := nutrientDailyDepositedFloodPlain + bedExchange
  let amountLeft := totalDailyConstsituentMass - netLoss
  let outflowRate := i.outflow
  let outflowV := outflowRate * durationInSeconds
  let storedV := i.reachVolume
  let workingVol := outflowV + storedV
  if workingVol < LumpedConstituent.minimumVolume then
    ((0.0, channelStoredMass), ⟨Num.zero, loadFromStreambank, 0.0, loadToFloodplain, bedExchange, amountLeft⟩)
  else
    let concentration := amountLeft / workingVol
    let outflowLoad := concentration * outflowRate
    ((concentration * storedV, channelStoredMass),
      ⟨bedExchange, loadFromStreambank, outflowLoad, loadToFloodplain, bedExchange, Num.zero⟩)

def run {α} [Num α] (pnc spf dt : α) (st : α × α) (xs : List (In α)) : (α × α) × List (Out α) :=
  scan (step pnc spf dt) st xs

def zipIn {α} : List α → List α → List α → List α → List α → List α → List α → List α → List (In α)
  | a :: as, b :: bs, c :: cs, d :: ds, e :: es, f :: fs, g :: gs, h :: hs =>
    ⟨a, b, c, d, e, f, g, h⟩ :: zipIn as bs cs ds es fs gs hs
  | _, _, _, _, _, _, _, _ => []

def model {α} [Num α] : KModel α where
  name := "InstreamParticulateNutrient"
  init := fun _ => .ok [Num.zero, Num.zero]
  run := fun p ins st =>
    match p, ins, st with
    | [pnc, spf, dt], [a, b, c, d, e, f, g, h], [ism, csm] =>
      let xs := zipIn a b c d e f g h
      let r := run pnc spf dt (ism, csm) xs
      let low := fun (i : In α) => i.outflow * dt + i.reachVolume < LumpedConstituent.minimumVolume
      .ok { outputs := [r.2.map (·.loadDeposited), r.2.map (·.loadFromStreambank), r.2.map (·.loadDownstream),
                        r.2.map (·.loadToFloodplain)],
            states := [r.1.1, r.1.2],
            tags := (if xs.any low then ["pn:flush"] else []) ++
                    (if xs.any (fun i => !low i) then ["pn:normal"] else []) ++
                    (if xs.any (fun i => i.channelDepositionFraction ≥ 0) then ["pn:deposit"] else []) ++
                    (if xs.any (fun i => !(i.channelDepositionFraction ≥ 0)) then ["pn:resuspend"] else []) ++
                    (if xs.any (fun i => i.lateralSediment > 0.0) then ["pn:latsed"] else []) ++
                    (if xs.any (fun i => !(i.lateralSediment > 0.0)) then ["pn:nolatsed"] else []) }
    | _, _, _ => .error "arity"

end OW.Kernels.InstreamParticulateNutrient
