import OW.Kernels.Basic
/- models/routing/decay.go — constituentDecay, line by line. -/
namespace OW.Kernels.ConstituentDecay
open OW

/-- `const MINIMUM_VOLUME=0.01` (local to the function) -/
def minimumVolume {α} [Num α] : α := 0.01

structure Out (α : Type) where
  decayedLoad : α
  outflowLoad : α
  /-- ghost: `decayedAmount` (mass removed by the half-life decay in this step) -/
  decayed : α
  /-- ghost: mass dropped by the `workingVol < MINIMUM_VOLUME` branch -/
  flushed : α

/-- the `if halflife > 0 {…}` block: (decayedAmount, value left in decayedLoad[i], storedMass after decay).
When `halflife ≤ 0` the output cell is not written (stays at the array's zero). -/
def decay {α} [Num α] (halflife deltaT storedMass : α) : α × α × α :=
  if halflife > 0 then
    let fraction := Num.pow 2.0 (-deltaT / halflife)
    let decayedAmount := (1 - fraction) * storedMass
    (decayedAmount, decayedAmount / deltaT, storedMass * fraction)
  else
    (0.0, Num.zero, storedMass)

/-- one iteration; state = storedMass; inputs (inflowLoad, lateralLoad, inflow, outflow, storage) -/
def step {α} [Num α] (halflife deltaT : α) (storedMass0 : α) (i : α × α × α × α × α) : α × Out α :=
  let (inflowLoadR, lateralLoadR, _inflow, outflowR, storedV) := i
  let d := decay halflife deltaT storedMass0
  let decayedAmount := d.1
  let decayedLoad := d.2.1
  let storedMass := d.2.2
  let inflowLoad := inflowLoadR * deltaT
  let lateralLoad := lateralLoadR * deltaT
  let workingMass := storedMass + inflowLoad + lateralLoad
  let outflowV := outflowR * deltaT
  let workingVol := outflowV + storedV
  if workingVol < minimumVolume then
    (0.0, ⟨decayedLoad, 0.0, decayedAmount, workingMass⟩)
  else
    let concentration := workingMass / workingVol
    let outflowLoad := concentration * outflowR
    (workingMass - outflowLoad * deltaT, ⟨decayedLoad, outflowLoad, decayedAmount, Num.zero⟩)

def run {α} [Num α] (halflife deltaT : α) (storedMass : α) (xs : List (α × α × α × α × α)) : α × List (Out α) :=
  scan (step halflife deltaT) storedMass xs

def model {α} [Num α] : KModel α where
  name := "ConstituentDecay"
  init := fun _ => .ok [Num.zero]
  run := fun p ins st =>
    match p, ins, st with
    | [_x, halflife, deltaT], [a, b, c, d, e], [sm] =>
      let xs := zip5 a b c d e
      let r := run halflife deltaT sm xs
      let flush := xs.any (fun i => i.2.2.2.1 * deltaT + i.2.2.2.2 < minimumVolume)
      let normal := xs.any (fun i => !(i.2.2.2.1 * deltaT + i.2.2.2.2 < minimumVolume))
      .ok { outputs := [r.2.map (·.decayedLoad), r.2.map (·.outflowLoad)], states := [r.1],
            tags := (if halflife > 0 then ["decay:on"] else ["decay:off"]) ++
                    (if flush then ["decay:flush"] else []) ++ (if normal then ["decay:normal"] else []) }
    | _, _, _ => .error "arity"

end OW.Kernels.ConstituentDecay
