import OW.Kernels.Basic
import OW.Util.Dates
/- models/functions/dates.go as a kernel model: float parameters are truncated with `int(x)`, results converted back. -/
namespace OW.Kernels.DateGenerator
open OW

def model {α} [Num α] : KModel α where
  name := "DateGenerator"
  init := fun _ => .ok []
  run := fun p ins st =>
    match p, ins, st with
    | [d, m, y], [tick], [] =>
      match Dates.run tick.length ⟨Num.toInt d, Num.toInt m, Num.toInt y⟩ with
      | none => .error "index-out-of-range"
      | some rows =>
        .ok { outputs := [rows.map (fun r => Num.ofInt r.date), rows.map (fun r => Num.ofInt r.month),
                          rows.map (fun r => Num.ofInt r.year), rows.map (fun r => Num.ofInt r.doy)], states := [] }
    | _, _, _ => .error "arity"

end OW.Kernels.DateGenerator
