import OW.Kernels.Basic
import OW.Util.FindRoot
/- models/routing/storage_routing.go — storageRouting / calcOutflow / runRouting, line by line.

Repairs modelled:
* fixes/storage_routing_zero_outflow.diff: the two exits of `calcOutflow` that set `outflow = 0`
  (`delta >= massBalanceLimit` at `minQI`, and `maxQI <= minQI`) report the water-balance storage
  `max(prevStorage + (inflow+lateral-netEvaporationFlux)*duration, 0)` instead of `SIndex(minQI)`;
* fixes/storage_routing_full_drain_lateral.diff: the `delta < massBalanceLimit` at `maxQI` exit drains the lateral
  inflow as well (`maxQI` is computed on that assumption);
* fixes/storage_routing_convergence_limit.diff: `convergenceLimit = 0` (FindRoot's exit on convergence in `x` returned
  index flows whose mass-balance residual was far above `massBalanceLimit` at low flows).

Every exit of `calcOutflow` carries a branch tag:
  zero-at-minqi | balanced-at-minqi | zero-maxqi-le-minqi | full-drain-at-maxqi | prev-qi | mid-qi | root -/
namespace OW.Kernels.StorageRouting
open OW

def massBalanceLimit {α} [Num α] : α := 1e-3
/-- REPAIRED (fixes/storage_routing_convergence_limit.diff): was `1e-8`; `0` disables FindRoot's exit on convergence in `x` -/
def convergenceLimit {α} [Num α] : α := 0.0
def maxIterations : Nat := 20

/-- locals fixed by the prologue of `storageRouting` -/
structure Setup (α : Type) where
  bias : α
  x : α          -- routingPower
  klimit : α
  qlimit : α
  koffset : α

def setup {α} [Num α] (bias k x deltaT : α) : Setup α :=
  if Num.abs bias < 0.001 then
    ⟨0.0, x, k, (if 1.0 < x then 1e37 else 0.0), 0.0⟩
  else if Num.abs (x - 1.0) < 0.001 then
    ⟨bias, 1.0, k, 0.0, 0.0⟩
  else
    let klimit := deltaT / bias
    let qlimit := Num.pow (klimit / (x * k)) (1.0 / (x - 1.0))
    ⟨bias, x, klimit, qlimit, (if x < 1.0 then qlimit * klimit * (1.0 - x) / x else 0.0)⟩

/-- constants of one `calcOutflow` call -/
structure Ctx (α : Type) where
  inflow : α
  lateral : α
  initialFluxMax : α
  storage : α        -- prevStorage
  area : α
  netEvapRate : α
  deadStorage : α
  duration : α
  bias : α
  routingPower : α
  routingConstant : α
  qlimit : α
  klimit : α
  koffset : α

/-- the linear-extension test shared by `runRouting` and `slopeOfMassBalance` -/
def linearZone {α} [Num α] (c : Ctx α) (q : α) : Prop :=
  (c.routingPower ≤ 1.0 ∧ q < c.qlimit) ∨ (1.0 < c.routingPower ∧ c.qlimit < q)

instance {α} [Num α] (c : Ctx α) (q : α) : Decidable (linearZone c q) := by unfold linearZone; exact inferInstance

def sIndex {α} [Num α] (c : Ctx α) (qIndex : α) : α :=
  if qIndex ≤ 0.0 then c.deadStorage
  else if linearZone c qIndex then c.klimit * qIndex + c.deadStorage
  else c.routingConstant * Num.pow qIndex c.routingPower - c.koffset + c.deadStorage

/-- `netEvaporationFlux := math.Min(fluxmax, area*netEvapRate)` -/
def netEvaporationFlux {α} [Num α] (c : Ctx α) : α := Num.gmin c.initialFluxMax (c.area * c.netEvapRate)

/-- `newStorage`: the water available at the end of the step before any outflow -/
def newStorage {α} [Num α] (c : Ctx α) : α :=
  Num.gmax (c.storage + (c.inflow + c.lateral - netEvaporationFlux c) * c.duration) 0.0

structure RR (α : Type) where
  massBalance : α
  outflow : α
  sIndex : α

/-- the arithmetic of `runRouting` -/
def rr {α} [Num α] (c : Ctx α) (qIndex : α) : RR α :=
  let s := sIndex c qIndex
  let ns := newStorage c
  let massBalance :=
    if c.bias < 0.999 then (qIndex - c.bias * (c.inflow + c.lateral)) * c.duration / (1.0 - c.bias) + s - ns
    else 0.0
  let outflow := Num.gmax 0 (ns - s) / c.duration
  ⟨massBalance, outflow, s⟩

/-- `runRouting`; `.error` = `panic("outflow is nan")` -/
def runRouting {α} [Num α] (c : Ctx α) (qIndex : α) : Except String (RR α) :=
  let r := rr c qIndex
  if Num.isNaN r.outflow then .error "other" else .ok r

/-- `evaluateRoutingMassBalance` as a total function for `FindRoot` (a panic inside it is detected separately:
the callback panics exactly when `runRouting` does) -/
def massBalanceFn {α} [Num α] (c : Ctx α) (q : α) : α :=
  match runRouting c q with
  | .ok r => r.massBalance
  | .error _ => Num.nan

def slopeOfMassBalance {α} [Num α] (c : Ctx α) (q : α) : α :=
  let d := c.duration / (1.0 - c.bias)
  if linearZone c q then d + c.klimit
  else if 0 < q then d + c.routingConstant * c.routingPower * Num.pow q (c.routingPower - 1.0)
  else d

structure CO (α : Type) where
  qi : α
  outflow : α
  storage : α
  tag : String

/-- the `Ctx` of one `calcOutflow` call -/
def mkCtx {α} [Num α] (inflow lateral bias prevStorage netEvapRate area deadStorage duration
    routingPower routingConstant qlimit klimit koffset : α) : Ctx α :=
  -- initialFluxMax := (math.Max(0.0, prevStorage) / duration) + inflow
  ⟨inflow, lateral, (Num.gmax 0.0 prevStorage / duration) + inflow, prevStorage, area, netEvapRate, deadStorage, duration,
    bias, routingPower, routingConstant, qlimit, klimit, koffset⟩

/-- `maxQI := minQI + (1.0-bias)*math.Max(0.0, fluxmax+lateral)` with `fluxmax = initialFluxMax - netEvaporationFlux` -/
def maxQI {α} [Num α] (c : Ctx α) (minQI : α) : α :=
  minQI + (1.0 - c.bias) * Num.gmax 0.0 (c.initialFluxMax - netEvaporationFlux c + c.lateral)

/-- the part of `calcOutflow` after the `maxQI <= minQI` test -/
def solve {α} [Num α] (c : Ctx α) (prevQi minQI mx : α) : Except String (CO α) :=
  match runRouting c mx with
  | .error e => .error e
  | .ok r =>
    if r.massBalance < massBalanceLimit then
      -- REPAIRED (fixes/storage_routing_full_drain_lateral.diff): `+ lateral` (the maximum index flow drains the lateral too)
      let outflow := Num.gmax 0.0 (c.initialFluxMax - netEvaporationFlux c + c.lateral)
      let storage := Num.gmax (c.storage + (c.inflow + c.lateral - netEvaporationFlux c - outflow) * c.duration) 0.0
      .ok ⟨mx, outflow, storage, "full-drain-at-maxqi"⟩
    else
      let reset : Bool := decide (prevQi ≤ minQI) || decide (mx ≤ prevQi)
      let qi := if reset then (minQI + mx) * 0.5 else prevQi
      match runRouting c qi with
      | .error e => .error e
      | .ok r =>
        if Num.abs r.massBalance < massBalanceLimit then
          .ok ⟨qi, r.outflow, r.sIndex, if reset then "mid-qi" else "prev-qi"⟩
        else
          match OW.Fn.findRoot (massBalanceFn c) (some (slopeOfMassBalance c)) minQI minQI mx massBalanceLimit
              convergenceLimit maxIterations with
          | .error e => .error e
          | .ok fr =>
            -- a panic of the callback inside FindRoot (outflow NaN at some evaluation point)
            if fr.evals.any (fun q => match runRouting c q with | .ok _ => false | .error _ => true) then .error "other"
            else if Num.isNaN fr.delta then .error "other"    -- panic("delta is NaN")
            else
              match runRouting c fr.x with
              | .error e => .error e
              | .ok r => .ok ⟨fr.x, r.outflow, r.sIndex, "root"⟩

/-- `calcOutflow` -/
def calcOutflow {α} [Num α] (inflow lateral bias prevQi _prevOutflow prevStorage netEvapRate area deadStorage duration
    routingPower routingConstant qlimit klimit koffset : α) : Except String (CO α) :=
  let c := mkCtx inflow lateral bias prevStorage netEvapRate area deadStorage duration routingPower routingConstant
    qlimit klimit koffset
  if Num.isNaN bias || Num.isNaN inflow || Num.isNaN lateral then .error "other"   -- panic("NAN!")
  else
    let minQI := bias * (inflow + lateral)
    match runRouting c minQI with
    | .error e => .error e
    | .ok r =>
      if massBalanceLimit ≤ r.massBalance then
        -- zero outflow; REPAIRED: the storage is the balance value, not SIndex(minQI)
        .ok ⟨minQI, 0.0, newStorage c, "zero-at-minqi"⟩
      else if -massBalanceLimit ≤ r.massBalance then
        match runRouting c minQI with
        | .error e => .error e
        | .ok r => .ok ⟨minQI, r.outflow, r.sIndex, "balanced-at-minqi"⟩
      else
        let mx := maxQI c minQI
        if mx ≤ minQI then
          -- REPAIRED likewise
          .ok ⟨minQI, 0.0, newStorage c, "zero-maxqi-le-minqi"⟩
        else solve c prevQi minQI mx

structure St (α : Type) where
  qi : α
  outflow : α
  storage : α
  inflow : α

structure Out (α : Type) where
  outflow : α
  storage : α
  tag : String

/-- loop state `.inl` = a panic has happened (class), later steps are not executed -/
def step {α} [Num α] (su : Setup α) (k area deadStorage deltaT : α) (st : Except String (St α)) (i : α × α × α × α) :
    Except String (St α) × Out α :=
  match st with
  | .error e => (.error e, ⟨Num.zero, Num.zero, ""⟩)
  | .ok s =>
    let (inflow, lateral, rainfall, evap) := i
    let evapRate := (evap - rainfall) / deltaT
    match calcOutflow inflow lateral su.bias s.qi s.outflow s.storage evapRate area deadStorage deltaT su.x k
        su.qlimit su.klimit su.koffset with
    | .error e => (.error e, ⟨Num.zero, Num.zero, ""⟩)
    | .ok r => (.ok ⟨r.qi, r.outflow, r.storage, inflow⟩, ⟨r.outflow, r.storage, r.tag⟩)

def run {α} [Num α] (bias k x area deadStorage deltaT s : α) (xs : List (α × α × α × α)) :
    Except String (St α) × List (Out α) :=
  scan (step (setup bias k x deltaT) k area deadStorage deltaT) (.ok ⟨0.0, 0.0, s, 0.0⟩) xs

def model {α} [Num α] : KModel α where
  name := "StorageRouting"
  init := fun _ => .ok [Num.zero, Num.zero, Num.zero]
  run := fun p ins st =>
    match p, ins, st with
    | [bias, k, x, area, deadStorage, deltaT], [a, b, c, d], [s, _pi, _po] =>
      match run bias k x area deadStorage deltaT s (zip4 a b c d) with
      | (.error e, _) => .error e
      | (.ok f, outs) =>
        .ok { outputs := [outs.map (·.outflow), outs.map (·.storage)], states := [f.storage, f.inflow, f.outflow],
              tags := (outs.map (·.tag)).eraseDups }
    | _, _, _ => .error "arity"

end OW.Kernels.StorageRouting
