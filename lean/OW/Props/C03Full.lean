import OW.Proofs.NdOffsetProg
import OW.Props.C03Bulk
/-!
C03 (full fragment) — the whole-program equivalence between Go-backed and C-backed arrays WITHOUT the exclusion of
`observational_equivalence_partial` (`OW/Props/C03Bulk.lean`): a successful `Reshape` of a CONTIGUOUS view with
`Start > 0` is in the fragment.

On the C side such a reshape returns `cAliasArr c s`: the same pointer with the root view `View.root s Start` — an
OFFSET ROOT, which is not `Reach` (roots of the frozen vocabulary start at 0). This file extends the vocabulary:

* `ReachOff st v` (`OW/Proofs/NdOffsetRoot.lean`) — like `Reach`, the root may start at `st ≥ 0`;
  `reachOff_translate`: `ReachOff st v ↔ 0 ≤ st ∧ Reach (shiftV v (-st))`;
* `unshift st c` — the view shifted back by `st` over the window `(sid, base + st, len - st)`: the NORMAL FORM of an
  offset-root array, which is in the domain of the frozen C01/C02/C03 theorems and denotes the same cells
  (`offset_cells`, `offset_index_inbounds`);
* `offset_transfer` — every operation of the program fragment on an offset-root array equals the same operation on its
  normal form; hence every frozen theorem transfers (`c_never_oob_off`);
* `rel_after_c_reshape`, `relO_*` — the simulation relation in the offset vocabulary (`RelO`) holds after a contiguous
  reshape and is preserved by the single operations;
* `observational_equivalence` — whole programs, every reshape request of the right size included.

Helpers: `OW/Proofs/NdOffset{Root,Bulk,Prog}.lean`.
-/
namespace OW.Props.C03
open OW.Nd OW.NdC02 OW.NdC03 OW.NdOff

variable {α : Type}

/-! ## the offset-root vocabulary -/

/-- **reachOff_translate.** A view is reachable from a root that starts at `st` iff `st ≥ 0` and the view with its `Start`
reduced by `st` is reachable from a root that starts at 0; `ReachOff 0` is `Reach`; the root view `Reshape` builds for a
contiguous C-backed view (`rootView s st`) is `ReachOff st`. -/
theorem reachOff_translate {st : Int} {v : View} :
    (ReachOff st v ↔ 0 ≤ st ∧ Reach (shiftV v (-st))) ∧ (ReachOff 0 v ↔ Reach v) ∧
    (∀ s : Idx, s ≠ [] → Pos s → 0 ≤ st → ReachOff st (rootView s st)) :=
  ⟨reachOff_iff, reachOff_zero, fun _ hs hp h0 => reachOff_rootView hs hp h0⟩

/-- **offset_index_inbounds** (`index_inbounds` for offset roots). In-bounds indices of a `ReachOff st` view are
addressed inside `[st, st + Π OriginalDims)`; `Index` does not panic; the address is `st` plus the address in the
shifted (`Reach`) view. -/
theorem offset_index_inbounds {st : Int} {v : View} (h : ReachOff st v) {i : Idx} (hi : InBounds i v.dims) :
    ∃ p, v.index i = .ok p ∧ st ≤ p ∧ p < st + product v.orig ∧ (shiftV v (-st)).index i = .ok (p - st) := by
  obtain ⟨p', hp', p0, p1⟩ := index_inbounds (reach_geo h.shift) (i := i) hi
  have hv : v = shiftV (shiftV v (-st)) st := (shiftV_neg_cancel v st).symm
  refine ⟨p' + st, ?_, by omega, ?_, ?_⟩
  · rw [hv, shiftV_index, hp']; rfl
  · have : product (shiftV v (-st)).orig = product v.orig := rfl
    omega
  · rw [hp']; congr 1; omega

/-- Window conditions of a C-backed offset-root array `c` (root offset `st`) in heap `h` — `ArrOK` generalised: the
storage exists and holds the window, and the addresses `st + [0, Π OriginalDims)` lie inside the window and below the
`1 << 30` bound of the C array type. -/
structure OffOK (h : Heap α) (st : Int) (c : Arr) : Prop where
  cBacked : c.isC = true
  reach : ReachOff st c.v
  store : ∃ s, h[c.sid]? = some s ∧ c.base + c.len ≤ s.length
  base_nonneg : 0 ≤ c.base
  fits : st + product c.v.orig ≤ c.len
  cfits : st + product c.v.orig ≤ 1073741824

/-- the normal form of an offset-root array satisfies the frozen hypotheses (`Reach`, `ArrOK`) and is in the
normal-form relation `Sh` -/
theorem OffOK.normal {h : Heap α} {st : Int} {c : Arr} (o : OffOK h st c) :
    Reach (unshift st c).v ∧ ArrOK h (unshift st c) ∧ Sh st c (unshift st c) ∧ (unshift st c).isC = true := by
  have h0 := o.reach.nonneg
  obtain ⟨s, hs, hl⟩ := o.store
  refine ⟨o.reach.shift, ⟨⟨s, hs, ?_⟩, ?_, ?_, fun _ => ?_⟩, ⟨o.cBacked, h0, rfl, o.cfits⟩, o.cBacked⟩
  · show c.base + st + (c.len - st) ≤ _
    omega
  · show 0 ≤ c.base + st
    have := o.base_nonneg; omega
  · show product c.v.orig ≤ c.len - st
    have := o.fits; omega
  · show product c.v.orig ≤ 1073741824
    have := o.cfits; omega

/-- **offset_cells.** `Impl[p + st]` of a C-backed array is `Impl[p]` of its `unshift` (reads and writes), for
`0 ≤ p`, `p + st < 1 << 30`: the translation between the two windows, cell by cell. -/
theorem offset_cells (h : Heap α) {c : Arr} {st p : Int} (hC : c.isC = true) (hst : 0 ≤ st) (p0 : 0 ≤ p)
    (p1 : p + st < 1073741824) :
    readAt h c (p + st) = readAt h (unshift st c) p ∧
    ∀ x, writeAt h c (p + st) x = writeAt h (unshift st c) p x :=
  ⟨readAt_unshift h hC hst p0 p1, writeAt_unshift h hC hst p0 p1⟩

/-- **offset_transfer.** Every operation of the program fragment on an offset-root array `c` (`OffOK h st c`) equals the
same operation on its normal form `unshift st c`, for in-domain requests; two-array operations with a second array `b`
that is itself an offset-root array or an array of the frozen vocabulary (`Norm b b'`, `Geo b'.v`). -/
theorem offset_transfer {h : Heap α} {st : Int} {c : Arr} (o : OffOK h st c) :
    (∀ i, InBounds i c.v.dims → get h c i = get h (unshift st c) i) ∧
    (∀ i x, InBounds i c.v.dims → set h c i x = set h (unshift st c) i x) ∧
    (∀ loc dims step w', slice (unshift st c) loc dims step = .ok w' →
      ∃ w, slice c loc dims step = .ok w ∧ Sh st w w') ∧
    (∀ (loc : Idx) (dim step : Int) (vals : List α), 0 ≤ dim → dim < c.v.dims.length →
      SliceOK c.v.dims loc (applyDims c dim vals.length) (applySteps c dim step) →
      apply h c loc dim step vals = apply h (unshift st c) loc dim step vals) ∧
    unroll h c = unroll h (unshift st c) ∧
    c.v.contiguous = (unshift st c).v.contiguous ∧
    (∀ better, extremum better h c = extremum better h (unshift st c)) ∧
    (∀ (b b' : Arr), Norm b b' → Geo b'.v →
      (∀ loc step, SliceOK c.v.dims loc b'.v.dims (stepOr c.v.dims.length step) →
        applySlice h c loc step b = applySlice h (unshift st c) loc step b') ∧
      (∀ loc step, SliceOK b'.v.dims loc c.v.dims (stepOr b'.v.dims.length step) →
        applySlice h b loc step c = applySlice h b' loc step (unshift st c)) ∧
      (b'.v.dims = c.v.dims → copyFrom h c b = copyFrom h (unshift st c) b' ∧
        copyFrom h b c = copyFrom h b' (unshift st c) ∧
        ∀ f, zipWithInto f h c b = zipWithInto f h (unshift st c) b' ∧
          zipWithInto f h b c = zipWithInto f h b' (unshift st c))) ∧
    (∀ shape, reshape h c shape = (reshape h (unshift st c) shape).map (reshiftRes st)) := by
  obtain ⟨hr, _, sh, _⟩ := o.normal
  have n : Norm c (unshift st c) := Or.inr ⟨st, sh⟩
  have g := reach_geo hr
  refine ⟨fun i hi => get_norm h n g hi, fun i x hi => set_norm h n g hi x, fun loc dims step w' hw => ?_,
    fun loc dim step vals h0 h1 hok => apply_norm h n g h0 h1 hok, unroll_norm h n g, n.contiguous,
    fun better => extremum_norm better h n g, fun b b' nb gb => ⟨fun loc step okS => ?_, fun loc step okS => ?_,
      fun hd => ⟨?_, ?_, fun f => ⟨?_, ?_⟩⟩⟩, fun shape => reshape_sh h sh g shape⟩
  · obtain ⟨w, hw1, nw, _⟩ := (slice_norm n loc dims step).2 w' hw
    refine ⟨w, hw1, ?_⟩
    obtain ⟨w2, hw2, rfl⟩ := slice_eq hw
    obtain ⟨w3, hw3, rfl⟩ := slice_eq hw1
    have hv : c.v = shiftV (unshift st c).v st := sh.view
    rw [hv, shiftV_sliceInto, hw2] at hw3
    simp only [Except.map, Except.ok.injEq] at hw3
    subst hw3
    refine ⟨o.cBacked, sh.nonneg, ?_, ?_⟩
    · simp [unshift, shiftV_cancel_neg]
    · have := (sliceInto_orig hw2).1
      show st + product (shiftV w2 st).orig ≤ _
      rw [shiftV_orig, this]
      exact o.cfits
  · exact applySlice_norm h n nb g gb okS
  · exact applySlice_norm h nb n gb g okS
  · exact copyFrom_norm h n nb g gb hd
  · exact copyFrom_norm h nb n gb g hd.symm
  · exact zipWithInto_norm f h n nb g gb hd
  · exact zipWithInto_norm f h nb n gb g hd.symm

/-- **c_never_oob_off.** Memory safety for offset-root arrays (the transfer of `c_never_oob`): none of `Get`, `Set`,
`Apply`, `Unroll`, `Maximum/Minimum` on a C-backed offset-root array can leave the caller's buffer under the in-bounds
hypotheses — each returns `.ok`, never the out-of-buffer verdict `oob-c`. -/
theorem c_never_oob_off {h : Heap α} {st : Int} {c : Arr} (o : OffOK h st c) :
    (∀ i, InBounds i c.v.dims → Succeeds (get h c i)) ∧
    (∀ i x, InBounds i c.v.dims → Succeeds (set h c i x)) ∧
    (∀ (loc : Idx) (dim step : Int) (vals : List α), 0 ≤ dim → dim < c.v.dims.length →
      SliceOK c.v.dims loc (applyDims c dim vals.length) (applySteps c dim step) →
      Succeeds (apply h c loc dim step vals)) ∧
    Succeeds (unroll h c) ∧
    (∀ better, Succeeds (extremum better h c)) := by
  obtain ⟨hr, ok, _, hC⟩ := o.normal
  obtain ⟨t1, t2, _, t4, t5, _, t7, _⟩ := offset_transfer o
  obtain ⟨s1, s2, s3, s4, s5, _⟩ := c_never_oob hC hr ok
  exact ⟨fun i hi => by rw [t1 i hi]; exact s1 i hi, fun i x hi => by rw [t2 i x hi]; exact s2 i x hi,
    fun loc dim step vals h0 h1 hok => by rw [t4 loc dim step vals h0 h1 hok]; exact s3 loc dim step vals h0 h1 hok,
    by rw [t5]; exact s4, fun b => by rw [t7 b]; exact s5 b⟩

/-! ## the simulation relation after a contiguous reshape -/

/-- the simulation relation in the offset-root vocabulary: the C-side array has a normal form (itself, or its `unshift`)
that is related (`RelW`: same view, reachable, both windows valid, cell-wise equal) to the Go-side array -/
def RelO (hg hc : Heap α) (g c : Arr) : Prop := ∃ c', Norm c c' ∧ RelW hg hc g c'

theorem Rel.toO {hg hc : Heap α} {g c : Arr} (r : Rel hg hc g c) : RelO hg hc g c := ⟨c, Norm.refl c, r.toW⟩

/-- **rel_after_c_reshape.** After a successful `Reshape` of a CONTIGUOUS view — ANY `Start` — on both sides of a related
pair (no heap change; Go: `aliasArr`, the slice re-based to `base + Start`; C: `cAliasArr`, the same pointer with a root
view starting at `Start`), the two results are in the simulation relation `RelO` again: the C-side result is an offset
root (`ReachOff Start`) whose normal form `unshift Start …` is `RelW`-related to the Go-side result. `RelO` is preserved by
every single operation (`relO_get`, `relO_set`, `relO_slice`, `relO_apply`, `relO_unroll`, `relO_extremum`,
`relO_reshape_contig`, two-array operations: `step_simO` / `observational_equivalence`). -/
theorem rel_after_c_reshape {hg hc : Heap α} {g c : Arr} (r : Rel hg hc g c) (hcg : g.v.contiguous = .ok true)
    {s : Idx} (hsz : product s = g.v.size) (hs : s ≠ []) (hp : Pos s) :
    reshape hg g s = .ok (hg, .inr (aliasArr g s)) ∧ reshape hc c s = .ok (hc, .inr (cAliasArr c s)) ∧
    RelO hg hc (aliasArr g s) (cAliasArr c s) ∧ ReachOff c.v.start (cAliasArr c s).v ∧
    RelW hg hc (aliasArr g s) (unshift c.v.start (cAliasArr c s)) := by
  have gg := reach_geo r.reach
  have gc := reach_geo r.toW.reachC
  obtain ⟨w0, w1⟩ := contig_window gg hcg
  have hszc : product s = c.v.size := by rw [← r.view]; exact hsz
  have hcc : c.v.contiguous = .ok true := by rw [← r.view]; exact hcg
  have e1 := reshape_go_alias (h := hg) gg r.okG hs hsz hcg r.goBacked
  have e2 := reshape_c_alias (h := hc) gc hs hszc hcc r.cBacked
  have hst : 0 ≤ c.v.start := by rw [← r.view]; exact w0
  have nb := norm_aliasN (Norm.refl c) gc r.okC hcc hszc
  rw [if_pos r.cBacked] at nb
  have hN : aliasN c s = unshift c.v.start (cAliasArr c s) := by
    unfold aliasN
    rw [if_pos r.cBacked]
    simp only [unshift, cAliasArr, shiftV_rootView, r.cBacked]
    congr 1
    congr 1; omega
  have okN := arrOK_aliasN gc r.okC hcc hszc
  have rN : RelW hg hc (aliasArr g s) (aliasN c s) := by
    have hview : (aliasN c s).v = rootView s 0 := by unfold aliasN; split <;> rfl
    have hsidN : (aliasN c s).sid = c.sid := by unfold aliasN; split <;> rfl
    have hbaseN : (aliasN c s).base = c.base + g.v.start := by rw [r.view]; unfold aliasN; split <;> rfl
    refine ⟨by rw [hview]; rfl, reach_rootView hs hp, arrOK_alias gg r.okG hcg hsz, okN, ?_⟩
    have hh := relHeaps_contig r.toW hcg
    intro p p0 p1
    have p1' : p < product s := p1
    have hsz' : product s = product g.v.dims := hsz
    have := hh p p0 (by omega)
    simp only [winOf, hsidN, hbaseN]
    exact this
  refine ⟨e1, e2, ⟨aliasN c s, nb, rN⟩, reachOff_rootView hs hp hst, by rw [← hN]; exact rN⟩

theorem relO_get {hg hc : Heap α} {g c : Arr} (r : RelO hg hc g c) {i : Idx} (hi : InBounds i g.v.dims) :
    ∃ x, get hg g i = .ok x ∧ get hc c i = .ok x := by
  obtain ⟨c', n, r⟩ := r
  obtain ⟨x, h1, h2⟩ := r.get hi
  exact ⟨x, h1, by rw [get_norm hc n (reach_geo r.reachC) (by rw [← r.view]; exact hi)]; exact h2⟩

theorem relO_set {hg hc : Heap α} {g c : Arr} (r : RelO hg hc g c) {i : Idx} (hi : InBounds i g.v.dims) (x : α) :
    ∃ hg' hc', set hg g i x = .ok hg' ∧ set hc c i x = .ok hc' ∧ RelO hg' hc' g c := by
  obtain ⟨c', n, r⟩ := r
  obtain ⟨p, _, _, _, h1, h2⟩ := paired_set r.view r.reach r.okG r.okC hi x
  have pw : Paired (winOf g c') hg hc _ _ := .step p x (by assumption) (.refl _ _)
  exact ⟨_, _, h1, by rw [set_norm hc n (reach_geo r.reachC) (by rw [← r.view]; exact hi)]; exact h2,
    c', n, r.paired_self pw⟩

theorem relO_slice {hg hc : Heap α} {g c : Arr} (r : RelO hg hc g c) {loc dims : Idx} {step : Option Idx}
    (hok : SliceOK g.v.dims loc dims (stepOr g.v.dims.length step)) :
    ∃ g' c', slice g loc dims step = .ok g' ∧ slice c loc dims step = .ok c' ∧ RelO hg hc g' c' := by
  obtain ⟨c', n, r⟩ := r
  obtain ⟨g', c'', h1, h2, r', _⟩ := r.slice hok
  obtain ⟨cs, h3, ncs, _⟩ := (slice_norm n loc dims step).2 _ h2
  exact ⟨g', cs, h1, h3, c'', ncs, r'⟩

theorem relO_apply {hg hc : Heap α} {g c : Arr} (r : RelO hg hc g c) {loc : Idx} {dim step : Int} {vals : List α}
    (h0 : 0 ≤ dim) (h1 : dim < g.v.dims.length)
    (hok : SliceOK g.v.dims loc (applyDims g dim vals.length) (applySteps g dim step)) :
    ∃ hg' hc', apply hg g loc dim step vals = .ok hg' ∧ apply hc c loc dim step vals = .ok hc' ∧ RelO hg' hc' g c := by
  obtain ⟨c', n, r⟩ := r
  obtain ⟨hg', hc', e1, e2, pw⟩ := r.apply h0 h1 hok
  have hok' : SliceOK c'.v.dims loc (applyDims c' dim vals.length) (applySteps c' dim step) := by
    have a1 : applyDims c' dim vals.length = applyDims g dim vals.length := by simp only [applyDims, r.view]
    have a2 : applySteps c' dim step = applySteps g dim step := by simp only [applySteps, r.view]
    rw [a1, a2, ← r.view]; exact hok
  exact ⟨hg', hc', e1, by rw [apply_norm hc n (reach_geo r.reachC) h0 (by rw [← r.view]; exact h1) hok']; exact e2,
    c', n, r.paired_self pw⟩

theorem relO_unroll {hg hc : Heap α} {g c : Arr} (r : RelO hg hc g c) :
    ∃ sg sc vals, unroll hg g = .ok sg ∧ unroll hc c = .ok sc ∧ sliceVals hg sg = .ok vals ∧
      sliceVals hc sc = .ok vals := by
  obtain ⟨c', n, r⟩ := r
  obtain ⟨sg, sc, vals, h1, h2, h3, h4, _⟩ := r.unroll
  exact ⟨sg, sc, vals, h1, by rw [unroll_norm hc n (reach_geo r.reachC)]; exact h2, h3, h4⟩

theorem relO_extremum {hg hc : Heap α} {g c : Arr} (r : RelO hg hc g c) (better : α → α → Bool) :
    ∃ x, extremum better hg g = .ok x ∧ extremum better hc c = .ok x := by
  obtain ⟨c', n, r⟩ := r
  obtain ⟨v0, rest, _, _, h1, h2⟩ := r.extremum better
  exact ⟨_, h1, by rw [extremum_norm better hc n (reach_geo r.reachC)]; exact h2⟩

/-- a contiguous reshape of a `RelO` pair (Go side Go-backed) gives a `RelO` pair again — reshapes can be iterated -/
theorem relO_reshape_contig {hg hc : Heap α} {g c : Arr} (r : RelO hg hc g c) (hgo : g.isC = false)
    (hcg : g.v.contiguous = .ok true) {s : Idx} (hsz : product s = g.v.size) (hs : s ≠ []) (hp : Pos s) :
    ∃ bc, reshape hg g s = .ok (hg, .inr (aliasArr g s)) ∧ reshape hc c s = .ok (hc, .inr bc) ∧
      RelO hg hc (aliasArr g s) bc := by
  obtain ⟨c', n, r⟩ := r
  -- a one-pair world
  have w : World (α := α) ⟨hg, [g]⟩ ⟨hc, [c']⟩ := by
    refine ⟨rfl, fun i a b h1 h2 => ?_, fun i j a b a' b' h1 h2 h3 h4 => ?_⟩
    · match i, h1, h2 with
      | 0, h1, h2 => simp at h1 h2; subst h1; subst h2; exact r
      | k + 1, h1, _ => simp at h1
    · match i, j, h1, h2, h3, h4 with
      | 0, 0, h1, h2, h3, h4 => simp at h1 h2 h3 h4; subst h1; subst h2; subst h3; subst h4; exact Compat.refl _
      | k + 1, _, h1, _, _, _ => simp at h1
      | 0, k + 1, _, _, h3, _ => simp at h3
  have ns : NormSt (α := α) ⟨hc, [c]⟩ ⟨hc, [c']⟩ := by
    refine ⟨rfl, rfl, fun i a b h1 h2 => ?_⟩
    match i, h1, h2 with
    | 0, h1, h2 => simp at h1 h2; subst h1; subst h2; exact n
    | k + 1, h1, _ => simp at h1
  obtain ⟨bc, e1, e2, wN, nN⟩ := reshape_contig_simO w ns (i := 0) (g := g) (c := c) (c' := c') rfl rfl rfl hgo hsz hs hp hcg
  refine ⟨bc, e1, e2, aliasN c' s, nN.norm 1 _ _ rfl rfl, wN.rel 1 _ _ rfl rfl⟩

/-! ## whole programs -/

/-- **B7 observational_equivalence.** Programs over the fragment
`slice / get / set / apply / applySlice / copyFrom / unroll / contiguous / extremum / zipWithInto / reshape /
reshapeFast`, interpreted by `NdC03.run` on a Go-side state and a C-side state in lock step up to normal forms
(`NdOff.WorldO`: the C-side state has a normal form — every offset-root array replaced by its `unshift` — that is in lock
step `World` with the Go-side state). If every request is in the domain when it is issued (`NdOff.ProgOK'` = `ProgOK`
with the reshape requests widened to EVERY request of the right size with a non-empty shape of extents ≥ 1: non-contiguous
views, contiguous views with `Start = 0` AND contiguous views with `Start > 0`), then both runs complete, return the SAME
observation list, and end in lock step up to normal forms; the C-side run never produces the out-of-buffer verdict
`oob-c`. This is the full statement announced in `observational_equivalence_partial`; `progOK_toOK'` shows the old
domain is contained in the new one. -/
theorem observational_equivalence {sg sc : St α} (w : WorldO sg sc) (prog : List (Op α)) (ok : ProgOK' sg prog) :
    ∃ sg' sc' obs, run sg prog = .ok (sg', obs) ∧ run sc prog = .ok (sc', obs) ∧ WorldO sg' sc' ∧
      run sc prog ≠ .error "oob-c" := by
  obtain ⟨sg', sc', obs, h1, h2, w'⟩ := run_simO prog w ok
  exact ⟨sg', sc', obs, h1, h2, w', by rw [h2]; intro e; cases e⟩

/-- **B7 observational_equivalence_roots.** The end-to-end form: any in-domain program of the FULL fragment run on
Go-allocated arrays and on arrays wrapped around caller-owned C memory of the same shapes and contents returns the same
observations, and the C-side run never leaves the callers' buffers. -/
theorem observational_equivalence_roots (bufs : Heap α) (shapes : List Idx) (ok : ShapesOK bufs shapes)
    (prog : List (Op α)) (pok : ProgOK' ⟨bufs, rootArrs bufs false shapes⟩ prog) :
    ∃ sg' sc' obs, run ⟨bufs, rootArrs bufs false shapes⟩ prog = .ok (sg', obs) ∧
      run ⟨bufs, rootArrs bufs true shapes⟩ prog = .ok (sc', obs) ∧ WorldO sg' sc' ∧
      run ⟨bufs, rootArrs bufs true shapes⟩ prog ≠ .error "oob-c" :=
  observational_equivalence (worldO_roots bufs shapes ok) prog pok

/-- the domain of `observational_equivalence_partial` is part of the domain of `observational_equivalence` -/
theorem progOK_widened {s : St α} (prog : List (Op α)) (h : ProgOK s prog) : ProgOK' s prog := progOK_toOK' prog h

/-- what lock step up to normal forms gives for each live pair: the Go-side array is Go-backed, and the C-side array is
related to it through its normal form (`RelO`) — so `relO_get`, …, apply to every live pair at the end of a run -/
theorem worldO_pairs {sg sc : St α} (w : WorldO sg sc) :
    sg.arrs.length = sc.arrs.length ∧
    ∀ (i : Nat) (g c : Arr), sg.arrs[i]? = some g → sc.arrs[i]? = some c → g.isC = false ∧ RelO sg.heap sc.heap g c := by
  obtain ⟨hgo, scN, w, ns⟩ := w
  refine ⟨by rw [w.len, ns.len], fun i g c hg hc => ⟨hgo i g hg, ?_⟩⟩
  obtain ⟨c', hc', r⟩ := w.partner hg
  refine ⟨c', ns.norm i c c' hc hc', ?_⟩
  rw [← ns.heap]; exact r

/-! ## Non-vacuity: a C-backed 3×4 buffer, contiguous rows 1..2 (`Start = 4`) reshaped to `[8]` -/
namespace ExFull

/-- buffer 0: a 3×4 array `0..11`; buffer 1: a 3×2 array `100..600` (as in `C03Bulk.Ex`) -/
def bufs : Heap Int := Ex.bufs
def shapes : List Idx := Ex.shapes
def sg0 : St Int := ⟨bufs, rootArrs bufs false shapes⟩
def sc0 : St Int := ⟨bufs, rootArrs bufs true shapes⟩

/-- the Go-side live arrays along the run -/
def g0 : Arr := rootArr bufs false 0 [3, 4]
def g1 : Arr := rootArr bufs false 1 [3, 2]
def g2 : Arr := { g0 with v := sliceView g0.v [1, 0] [2, 4] none }       -- rows 1..2: contiguous, Start = 4
def g3 : Arr := ⟨rootView [8] 0, 0, 4, 8, false⟩                          -- its reshape to [8]: Go slice re-based to 4
def g4 : Arr := { g3 with v := sliceView g3.v [1] [3] (some [2]) }        -- a stepped view of the reshaped array
def g5 : Arr := ⟨rootView [2, 4] 0, 0, 4, 8, false⟩                       -- the reshaped array reshaped again
def g6 : Arr := ⟨rootView [6] 0, 1, 0, 6, false⟩
def g7 : Arr := { g6 with v := sliceView g6.v [0] [3] none }
def g8 : Arr := ⟨rootView [8] 0, 0, 4, 8, false⟩

/-- the C-side counterparts of `g3`, `g4`: an OFFSET ROOT (same pointer, root view from `Start = 4`) and a view of it —
not `Reach` views -/
def c2 : Arr := { rootArr bufs true 0 [3, 4] with v := sliceView (rootView [3, 4] 0) [1, 0] [2, 4] none }
def c3 : Arr := ⟨rootView [8] 4, 0, 0, 12, true⟩
def c4 : Arr := { c3 with v := sliceView c3.v [1] [3] (some [2]) }

/-- a program of the full fragment: the reshape of the contiguous rows 1..2 (`Start = 4`), then every operation through
the reshaped pair and through views derived from it -/
def prog : List (Op Int) :=
  [ .slice 0 [1, 0] [2, 4] none,                 -- arrs[2] := rows 1..2 of the 3×4 root (contiguous, Start = 4)
    .reshape 2 [8],                              -- arrs[3] := reshaped to [8]: Go alias / C OFFSET ROOT
    .set 3 [5] 99,                               -- a write through the reshaped pair …
    .get 3 [5],
    .get 0 [2, 1],                               -- … is seen through the root pair
    .unroll 3,
    .slice 3 [1] [3] (some [2]),                 -- arrs[4] := a stepped view of the reshaped pair
    .unroll 4,
    .apply 3 [0] 0 1 [70, 80],
    .extremum (fun v r => decide (v > r)) 3,
    .contiguous 4,
    .reshape 3 [2, 4],                           -- arrs[5] := the reshaped pair reshaped again (Start = 4 once more)
    .get 5 [1, 1],
    .reshape 1 [6],                              -- arrs[6] := the 3×2 root flattened (Start = 0)
    .slice 6 [0] [3] none,                       -- arrs[7]
    .copyFrom 4 7,                               -- into the stepped view of the offset root
    .unroll 0,
    .zipWithInto (· + ·) 4 7,
    .unroll 3,
    .reshapeFast 5 [8],                          -- arrs[8]
    .applySlice 8 7 [2] none,
    .reshape 4 [3],                              -- arrs[9] := non-contiguous view of the offset root: fresh copies
    .reshapeFast 4 [3],                          -- not contiguous: error value
    .reshape 3 [7],                              -- size mismatch: error value
    .unroll 0 ]

def expected : List (Obs Int) :=
  [.unit, .unit, .unit, .val 99, .val 99, .vals [4, 5, 6, 7, 8, 99, 10, 11], .unit, .vals [5, 7, 99], .unit, .val 99,
   .flag false, .unit, .val 99, .unit, .unit, .unit, .vals [0, 1, 2, 3, 70, 100, 6, 200, 8, 300, 10, 11], .unit,
   .vals [70, 200, 6, 400, 8, 600, 10, 11], .unit, .unit, .unit, .err "not-contiguous", .err "size-mismatch",
   .vals [0, 1, 2, 3, 70, 200, 100, 200, 300, 600, 10, 11]]

-- evaluated: both back-ends return the same observations (the model is executable)
example : (run sg0 prog).map (·.2) = .ok expected ∧ (run sc0 prog).map (·.2) = .ok expected := by decide

-- the C-side reshape result IS an offset root, and it is not in the frozen vocabulary's shape (its root starts at 4)
example : reshape bufs c2 [8] = .ok (bufs, .inr c3) ∧ c3 = cAliasArr c2 [8] ∧ c3.v.start = 4 := by decide
example : ReachOff 4 c3.v := reachOff_rootView (by decide) (by intro x hx; simp at hx; omega) (by decide)
example : slice c3 [1] [3] (some [2]) = .ok c4 ∧ c4.v.start = 5 := by decide

theorem offOK3 : OffOK bufs 4 c3 :=
  ⟨rfl, reachOff_rootView (by decide) (by intro x hx; simp at hx; omega) (by decide), ⟨_, rfl, by decide⟩, by decide,
    by decide, by decide⟩

-- single operations through the offset root: equal to the operation on the normal form; memory safe
example := offset_transfer offOK3
example := c_never_oob_off offOK3
example : get bufs c3 [5] = get bufs (unshift 4 c3) [5] ∧ get bufs c3 [5] = .ok 9 ∧
    set bufs c3 [5] 99 = set bufs (unshift 4 c3) [5] 99 := by decide
/-- outside the hypotheses the two differ (index `-1`: the offset root reads the cell BEFORE its window — no bounds
check on C memory —, the normal form panics), which is why the transfer is stated for in-bounds requests -/
example : get bufs c3 [-1] = .ok 3 ∧ get bufs (unshift 4 c3) [-1] = .error "index-out-of-range" := by decide

-- `rel_after_c_reshape` on the contiguous rows 1..2 of the related root pair
theorem rel2 : Rel bufs bufs g2 c2 := by
  obtain ⟨g', c', h1, h2, r, _⟩ := Ex.rel0.toW.slice (loc := [1, 0]) (dims := [2, 4]) (step := none)
    (by simp [Ex.g0, rootArr, rootView, SliceOK, stepOr, uniform])
  have e1 : slice Ex.g0 [1, 0] [2, 4] none = .ok g2 := by decide
  have e2 : slice Ex.c0 [1, 0] [2, 4] none = .ok c2 := by decide
  rw [e1] at h1; rw [e2] at h2
  injection h1 with h1; injection h2 with h2
  subst h1; subst h2
  exact r.toRel rfl rfl

example := rel_after_c_reshape rel2 (by decide) (s := [8]) (by decide) (by decide) (by intro x hx; simp at hx; omega)

theorem relO3 : RelO bufs bufs (aliasArr g2 [8]) (cAliasArr c2 [8]) :=
  (rel_after_c_reshape rel2 (by decide) (s := [8]) (by decide) (by decide) (by intro x hx; simp at hx; omega)).2.2.1

example := relO_get relO3 (i := [5]) (by simp [aliasArr, rootView, InBounds])
example := relO_set relO3 (i := [5]) (by simp [aliasArr, rootView, InBounds]) 99
example := relO_unroll relO3
example := relO_extremum relO3 (fun v r => decide (v > r))
example := relO_slice relO3 (loc := [1]) (dims := [3]) (step := some [2])
  (by simp [aliasArr, rootView, SliceOK, stepOr])
example := relO_reshape_contig relO3 rfl (by decide) (s := [2, 4]) (by decide) (by decide)
  (by intro x hx; simp at hx; omega)

/-- the program is in the domain of the theorem -/
theorem progOK : ProgOK' sg0 prog := by
  refine progOK'_cons ⟨g0, by decide, by simp [g0, rootArr, rootView, SliceOK, stepOr, uniform]⟩ ?_
  refine progOK'_cons ⟨g2, by decide, Or.inr ⟨by decide, by decide, by intro x hx; simp at hx; omega⟩⟩ ?_
  refine progOK'_cons ⟨g3, by decide, by simp [g3, rootView, InBounds]⟩ ?_
  refine progOK'_cons ⟨g3, by decide, by simp [g3, rootView, InBounds]⟩ ?_
  refine progOK'_cons ⟨g0, by decide, by simp [g0, rootArr, rootView, InBounds]⟩ ?_
  refine progOK'_cons ⟨g3, by decide⟩ ?_
  refine progOK'_cons ⟨g3, by decide, by simp [g3, rootView, SliceOK, stepOr]⟩ ?_
  refine progOK'_cons ⟨g4, by decide⟩ ?_
  refine progOK'_cons ⟨g3, by decide, by decide, by decide,
    by simp [g3, rootView, NdC02.applyDims, NdC02.applySteps, uniform, SliceOK]⟩ ?_
  refine progOK'_cons ⟨g3, by decide⟩ ?_
  refine progOK'_cons ⟨g4, by decide⟩ ?_
  refine progOK'_cons ⟨g3, by decide, Or.inr ⟨by decide, by decide, by intro x hx; simp at hx; omega⟩⟩ ?_
  refine progOK'_cons ⟨g5, by decide, by simp [g5, rootView, InBounds]⟩ ?_
  refine progOK'_cons ⟨g1, by decide, Or.inr ⟨by decide, by decide, by intro x hx; simp at hx; omega⟩⟩ ?_
  refine progOK'_cons ⟨g6, by decide, by simp [g6, rootView, SliceOK, stepOr, uniform]⟩ ?_
  refine progOK'_cons ⟨g4, g7, by decide, by decide, by decide, by decide⟩ ?_
  refine progOK'_cons ⟨g0, by decide⟩ ?_
  refine progOK'_cons ⟨g4, g7, by decide, by decide, by decide, by decide⟩ ?_
  refine progOK'_cons ⟨g3, by decide⟩ ?_
  refine progOK'_cons ⟨g5, by decide, Or.inr (Or.inr ⟨by decide, by decide, by intro x hx; simp at hx; omega⟩)⟩ ?_
  refine progOK'_cons ⟨g8, g7, by decide, by decide, by decide,
    by simp [g8, g7, g6, rootView, sliceView, SliceOK, stepOr, uniform]⟩ ?_
  refine progOK'_cons ⟨g4, by decide, Or.inr ⟨by decide, by decide, by intro x hx; simp at hx; omega⟩⟩ ?_
  refine progOK'_cons ⟨g4, by decide, Or.inl (by decide)⟩ ?_
  refine progOK'_cons ⟨g3, by decide, Or.inl (by decide)⟩ ?_
  refine progOK'_cons ⟨g0, by decide⟩ ?_
  trivial

-- B7 instantiated: hypotheses discharged on the concrete program
example := observational_equivalence_roots bufs shapes Ex.shapesOK prog progOK

/-- this program is OUTSIDE the domain of `observational_equivalence_partial`: its second request is the reshape of a
contiguous view with `Start = 4` -/
example : ¬ ProgOK sg0 prog := by
  intro h
  have h2 := h.2 _ _ (by rfl : stepOp sg0 (.slice 0 [1, 0] [2, 4] none) = .ok (⟨bufs, sg0.arrs ++ [g2]⟩, .unit))
  obtain ⟨a, ha, hd⟩ := h2.1
  have : a = g2 := by
    have e : (sg0.arrs ++ [g2])[2]? = some g2 := by decide
    rw [e] at ha; injection ha with ha; exact ha.symm
  subst this
  rcases hd with hd | ⟨_, _, _, hd | hd⟩
  · exact hd (by decide)
  · exact absurd hd (by decide)
  · exact absurd hd (by decide)

end ExFull

end OW.Props.C03
