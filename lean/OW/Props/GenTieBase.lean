import OW.Num
import OW.Gen.Attr
/-!
# GenTieBase — the tactic and the literal identities shared by the tie theorems (`OW/Props/GenTie*.lean`)
-/
namespace OW.Props.GenTie
open OW

/-- the helper functions of the regenerated file are unfolded (`gen_unfold`: whichever helpers the source has at the moment),
then case analysis on every `if`, then definitional equality (extra rewrite rules for literal identities); cases in which the
two sides took contradictory branches (conditions spelled differently) are closed by `simp_all` -/
syntax "tie" (" [" Lean.Parser.Tactic.simpLemma,* "]")? : tactic
macro_rules
  | `(tactic| tie) => `(tactic| first
      | rfl
      | ((try simp only [gen_unfold]) <;> (try dsimp only) <;>
          (repeat' (split <;> rename_i h <;> (try simp only [h, ↓reduceIte]))) <;> (first | rfl | simp_all)))
  | `(tactic| tie [$ls,*]) => `(tactic|
      ((try simp only [gen_unfold]) <;> (try dsimp only) <;>
        (repeat' (split <;> rename_i h <;> (try simp only [h, ↓reduceIte, $ls,*]))) <;>
        (first | rfl | simp only [$ls,*] | simp_all)))

/-- the float literal `0.0` is the zero a fresh array holds -/
def LitZero (α : Type) [Num α] : Prop := (0.0 : α) = Num.zero
/-- the integer literal `0` (converted to float64 by Go) and the float literal `0.0` are the same number -/
def NatZero (α : Type) [Num α] : Prop := (0 : α) = 0.0

theorem litZero_float : LitZero Float := rfl

end OW.Props.GenTie
