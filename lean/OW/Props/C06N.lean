import OW.Props.C06Laws
import OW.Proofs.HotStartN
import OW.Proofs.HotStartStorageExample
/-!
C06, third part — N-way splits, split-pair non-vacuity, and what an empty part does.

`HotStart` (OW/Proofs/HotStart.lean) is the statement for ONE cut. The property quantifies over every way of cutting a period into
consecutive parts; `OW/Proofs/HotStartN.lean` lifts the two-way statement ONCE, by induction on the list of blocks:

* `HotStartN km` — if the split run `runBlocks km p b bs st` over a non-empty list of blocks `b :: bs` (one call per block, each
  from the state row the previous call returned; outputs concatenated; final states of the last call) succeeds, the one-call run
  over `catBlocks b bs` (series by series the blocks appended, `catBlocks_getD`) succeeds with the same outputs and final states.
  `HotStart.toN : HotStart km → HotStartN km`, `HotStartN.two` is the converse.
* `HotStartWhenN km C` — the same for the models that only have `HotStartWhen km C`: the side condition is a hypothesis at EVERY
  cut (`CutsOk km C p b bs st`: `C p (row a block started from) (row handed to the next block)` for every block but the last).
  `HotStartWhen.toN`. When `C` only constrains the parameter column it needs to be assumed once (`cutsOk_of_param`).

Below: the instances for the catalogue models that have a `hotstart_…` theorem in OW/Props/C06.lean / C06Laws.lean.
StorageRouting has no N-way instance: its partial two-way theorem `hotstart_StorageRouting_partial` is not of the `HotStartWhen`
form (its hypothesis is about the root-finder seed `qi`, which is not in the state row).
-/
set_option linter.unusedSimpArgs false
set_option linter.unusedVariables false
namespace OW.Props.C06
open OW OW.Kernels

variable {α : Type} [Num α]

/-! ### N-way hot-start continuity, any arithmetic -/

/-- Muskingum: any number of cuts (from `hotstart_Muskingum`). -/
theorem hotstartN_Muskingum : HotStartN (Muskingum.model (α := α)) := hotstart_Muskingum.toN
/-- LumpedConstituentRouting: any number of cuts. -/
theorem hotstartN_LumpedConstituentRouting : HotStartN (LumpedConstituent.model (α := α)) := hotstart_LumpedConstituentRouting.toN
/-- ConstituentDecay: any number of cuts. -/
theorem hotstartN_ConstituentDecay : HotStartN (ConstituentDecay.model (α := α)) := hotstart_ConstituentDecay.toN
/-- StorageDissolvedDecay: any number of cuts. -/
theorem hotstartN_StorageDissolvedDecay : HotStartN (StorageDissolvedDecay.model (α := α)) := hotstart_StorageDissolvedDecay.toN
/-- StorageParticulateTrapping: any number of cuts. -/
theorem hotstartN_StorageParticulateTrapping : HotStartN (StorageParticulateTrapping.model (α := α)) :=
  hotstart_StorageParticulateTrapping.toN
/-- InstreamCoarseSediment: any number of cuts. -/
theorem hotstartN_InstreamCoarseSediment : HotStartN (InstreamCoarseSediment.model (α := α)) := hotstart_InstreamCoarseSediment.toN
/-- InstreamParticulateNutrient: any number of cuts. -/
theorem hotstartN_InstreamParticulateNutrient : HotStartN (InstreamParticulateNutrient.model (α := α)) :=
  hotstart_InstreamParticulateNutrient.toN
/-- Simhyd: any number of cuts. -/
theorem hotstartN_Simhyd : HotStartN (Simhyd.model (α := α)) := hotstart_Simhyd.toN
/-- Surm: any number of cuts. -/
theorem hotstartN_Surm : HotStartN (Surm.model (α := α)) := hotstart_Surm.toN
/-- Lag: any number of cuts (parts shorter or longer than the lag, in any mixture). -/
theorem hotstartN_Lag : HotStartN (Lag.model (α := α)) := hotstart_Lag.toN
/-- Storage (reservoir water balance): any number of cuts. -/
theorem hotstartN_Storage : HotStartN (Storage.model (α := α)) := hotstart_Storage.toN

/-! ### N-way, one arithmetic law -/

/-- GR4J, every arithmetic with `IntRoundTripLaw` (instance at ℝ): any number of cuts. -/
theorem hotstartN_GR4J_lawful [IntRoundTripLaw α] : HotStartN (GR4J.model (α := α)) := hotstart_GR4J_lawful.toN
/-- StorageTrapAll, every arithmetic with `AddZeroLaw` (instance at ℝ): any number of cuts. -/
theorem hotstartN_StorageTrapAll_lawful [AddZeroLaw α] : HotStartN (StorageTrapAll.model (α := α)) :=
  hotstart_StorageTrapAll_lawful.toN

/-- GR4J, bounded law: any number of cuts, provided that at every cut the arithmetic round-trips the integers up to the length
of the state row the block STARTED from (`CutsOk`; the packed row never gets longer: 4 + n1 + n2 columns). -/
theorem hotstartN_GR4J_bounded :
    HotStartWhenN (GR4J.model (α := α)) (fun _ st _ => ∀ n : Nat, n ≤ st.length → Num.toInt (Num.ofNat n : α) = (n : Int)) :=
  hotstart_GR4J_bounded.toN

/-! ### N-way for the four `_partial` models: the side condition at every cut -/

/-- InstreamFineSediment: any number of cuts, provided `FineSedimentSplitOk` holds at EVERY cut (no bank-full flow, or the
channel store handed over is not negative) — assumed cut by cut (`CutsOk`). -/
theorem hotstartN_InstreamFineSediment_partial :
    HotStartWhenN (InstreamFineSediment.model (α := α)) FineSedimentSplitOk := hotstart_InstreamFineSediment_partial.toN

/-- InstreamFineSediment (ℝ): for a parameter column with maximum storage ≥ 0 the side condition is re-established at every
cut by the run itself (`OW.Proofs.FineHot.run_store_nonneg`, inside `hotstart_InstreamFineSediment_real`): any number of cuts,
no hypothesis on the intermediate state rows. -/
theorem hotstartN_InstreamFineSediment_real (p : List ℝ) (hp : FineSedimentMaxStorageNonneg p [] [])
    (b : List (List ℝ)) (bs : List (List (List ℝ))) (st : List ℝ) (k : Nat) (ns : List Nat) (o : KOut ℝ)
    (hok : BlocksOk k ns (b :: bs)) (hr : runBlocks InstreamFineSediment.model p b bs st = .ok o) :
    ∃ o', (InstreamFineSediment.model (α := ℝ)).run p (catBlocks b bs) st = .ok o' ∧ o'.outputs = o.outputs ∧ o'.states = o.states :=
  hotstart_InstreamFineSediment_real.toN p b bs st k ns o hok (cutsOk_of_param _ p (fun _ _ => hp) b bs st) hr

/-- InstreamDissolvedNutrientDecay with decay disabled (`doDecay < 0.5`, a condition on the parameter column only): any number
of cuts. (With decay enabled the two-way statement is already false: `hotstart_InstreamDissolvedNutrientDecay_counterexample`.) -/
theorem hotstartN_InstreamDissolvedNutrientDecay_partial (p : List α) (hp : DecayDisabled p [] [])
    (b : List (List α)) (bs : List (List (List α))) (st : List α) (k : Nat) (ns : List Nat) (o : KOut α)
    (hok : BlocksOk k ns (b :: bs)) (hr : runBlocks InstreamDissolvedNutrient.model p b bs st = .ok o) :
    ∃ o', (InstreamDissolvedNutrient.model (α := α)).run p (catBlocks b bs) st = .ok o' ∧ o'.outputs = o.outputs ∧
      o'.states = o.states :=
  hotstart_InstreamDissolvedNutrientDecay_partial.toN p b bs st k ns o hok (cutsOk_of_param _ p (fun _ _ => hp) b bs st) hr

/-- Sacramento (ℝ) without unit-hydrograph spreading (`SacramentoNoSpread`: uh2..uh5 = 0, uh1 ≠ 0, 1 + side ≠ 0, a condition on
the parameter column only): any number of cuts. (With spreading the two-way statement is false:
`hotstart_Sacramento_counterexample`.) -/
theorem hotstartN_Sacramento_partial (p : List ℝ) (hp : SacramentoNoSpread p [] [])
    (b : List (List ℝ)) (bs : List (List (List ℝ))) (st : List ℝ) (k : Nat) (ns : List Nat) (o : KOut ℝ)
    (hok : BlocksOk k ns (b :: bs)) (hr : runBlocks Sacramento.model p b bs st = .ok o) :
    ∃ o', (Sacramento.model (α := ℝ)).run p (catBlocks b bs) st = .ok o' ∧ o'.outputs = o.outputs ∧ o'.states = o.states :=
  hotstart_Sacramento_partial.toN p b bs st k ns o hok (cutsOk_of_param _ p (fun _ _ => hp) b bs st) hr

/-! ### an empty part -/

/-- InstreamDissolvedNutrientDecay reads `prevVolume := reachVolume.Get([0])` BEFORE the loop and before the `doDecay` test
(models/routing/instream_dissolved_nutrient.go:58): a call over zero timesteps panics with an index out of range, decay enabled
or not. `HotStart`/`HotStartN` assume that every call of the split run succeeds, so for this model a split with an EMPTY part is
outside the statements (all other stateful models accept an empty part; for them it is covered). -/
theorem instreamDissolvedNutrient_empty_part_errors (dd psl lh lw ll uv dur sm : α) (up lat out fp : List α) :
    (InstreamDissolvedNutrient.model (α := α)).run [dd, psl, lh, lw, ll, uv, dur] [up, lat, [], out, fp] [sm] =
      .error "index-out-of-range" := rfl

/-! ### non-vacuity -/

/-- Muskingum, split pair: a 2-step part, then a 1-step part started from the state row the first call returned -/
example : ∃ o₁ o₂, (Muskingum.model (α := Float)).run [86400, 0.25, 86400] [[1, 2], [0, 1]] [0, 0, 0] = .ok o₁ ∧
    (Muskingum.model (α := Float)).run [86400, 0.25, 86400] [[5], [3]] o₁.states = .ok o₂ := ⟨_, _, rfl, rfl⟩

/-- the blocks of the next example are well shaped: 2 series per block, block lengths 2, 1, 0, 1 (an empty part included) -/
example : BlocksOk (β := Float) 2 [2, 1, 0, 1] [[[1, 2], [0, 1]], [[5], [3]], [[], []], [[4], [0]]] := by
  refine ⟨rfl, ?_, rfl, ?_, rfl, ?_, rfl, ?_, trivial⟩ <;>
    (intro s hs; simp only [List.mem_cons, List.not_mem_nil, or_false] at hs; rcases hs with rfl | rfl <;> rfl)

/-- Muskingum, a 4-way split (lengths 2, 1, 0, 1): the split run of `hotstartN_Muskingum` succeeds -/
example : ∃ o, runBlocks (Muskingum.model (α := Float)) [86400, 0.25, 86400] [[1, 2], [0, 1]] [[[5], [3]], [[], []], [[4], [0]]]
    [0, 0, 0] = .ok o := ⟨_, rfl⟩

/-- and `catBlocks` of those blocks is the uninterrupted period -/
example : catBlocks [[1, 2], [0, 1]] [[[5], [3]], [[], []], [[4], [0]]] = [[1, 2, 5, 4], [0, 1, 3, 0]] := rfl

/-- `CutsOk` is satisfiable with a state-dependent condition: InstreamFineSediment on the lumped path (no bank-full flow),
three blocks -/
example (b b' b'' : List (List α)) (st : List α) (rest : List α) (bff : α) (h : bff ≤ (1e-8 : α)) :
    CutsOk (InstreamFineSediment.model (α := α)) FineSedimentSplitOk (bff :: rest) b [b', b''] st :=
  fun _ _ => ⟨Or.inl ⟨bff, rest, rfl, h⟩, fun _ _ => ⟨Or.inl ⟨bff, rest, rfl, h⟩, trivial⟩⟩

section NonVacuityReal
attribute [-simp] OW.RealNum.ofNat_eq

/-- GR4J (ℝ), split pair, x4 = 1 so that n1 = 1, n2 = 2: the first call succeeds on the row [S, R, 1, 2, q1a, q1b, q9a], and the
packed row it returns (`GR4J.pack`: [S', R', float 1, float 2] ++ q1 ++ q9, seven columns again) is re-accepted by the second
call — `int(float 1) = 1`, `int(float 2) = 2`, three store columns present. -/
example : ∃ o₁ o₂, (GR4J.model (α := ℝ)).run [350, 0, 90, 1] [[10, 0], [1, 2]] [100, 30, Num.ofNat 1, Num.ofNat 2, 0, 0, 0] = .ok o₁ ∧
    (GR4J.model (α := ℝ)).run [350, 0, 90, 1] [[5], [1]] o₁.states = .ok o₂ := by
  have e1 : Num.toInt (Num.ofNat 1 : ℝ) = 1 := intRoundTrip_real 1
  have e2 : Num.toInt (Num.ofNat 2 : ℝ) = 2 := intRoundTrip_real 2
  obtain ⟨l1, l9⟩ := OW.Proofs.GR4JHot.run_len (350 : ℝ) 0 90 1 1 2 (by omega) (by omega) ([10, 0].zip [1, 2])
    ⟨100, 30, [0, 0], [0]⟩ rfl rfl
  obtain ⟨m1, m2, rest, hpk, rfl, rfl, hrl, _⟩ := OW.Proofs.GR4JHot.roundtrip_GR4J _ 1 2 l1 l9
  have h1 : ∃ o₁, (GR4J.model (α := ℝ)).run [350, 0, 90, 1] [[10, 0], [1, 2]] [100, 30, Num.ofNat 1, Num.ofNat 2, 0, 0, 0] = .ok o₁ ∧
      o₁.states = GR4J.pack (GR4J.run (350 : ℝ) 0 90 1 1 2 ⟨100, 30, [0, 0], [0]⟩ ([10, 0].zip [1, 2])).1 1 2 := by
    simp [GR4J.model, e1, e2]
  obtain ⟨o₁, h1, hs⟩ := h1
  have h2 : ∃ o₂, (GR4J.model (α := ℝ)).run [350, 0, 90, 1] [[5], [1]] o₁.states = .ok o₂ := by
    rw [hs, hpk]
    simp [GR4J.model, e1, e2, hrl]
  obtain ⟨o₂, h2⟩ := h2
  exact ⟨o₁, o₂, h1, h2⟩

/-- Storage (ℝ), split pair on the MAIN path (valid configuration, the adaptive sub-stepping loop runs): the two-knot table of
`OW.Proofs.StorageExample.tEx` (volumes 0 / 1000 m³, levels 0 / 10 m, areas 0 / 100 m², releases 0), Δt = 1 s, inflow 1 m³/s.
The first call fills the empty storage to 1 m³ and returns the row [1, level, area]; the second call, started from THAT row,
succeeds as well and returns volume 2 (`OW.Proofs.StorageExampleHot.runGen_driver`, with the driver's fuel). The non-zero returned
volumes show that this is not the early-return path (which returns a zero row). -/
example : ∃ o₁ o₂,
    (Storage.model (α := ℝ)).run ((1 : ℝ) :: Num.ofNat 2 :: (OW.Proofs.StorageExample.tEx.levels ++ OW.Proofs.StorageExample.tEx.volumes ++
        OW.Proofs.StorageExample.tEx.areas ++ OW.Proofs.StorageExample.tEx.minRelease ++ OW.Proofs.StorageExample.tEx.maxRelease))
      [[0], [0], [1], [0], [0], [0]] [0, 0, 0] = .ok o₁ ∧
    (Storage.model (α := ℝ)).run ((1 : ℝ) :: Num.ofNat 2 :: (OW.Proofs.StorageExample.tEx.levels ++ OW.Proofs.StorageExample.tEx.volumes ++
        OW.Proofs.StorageExample.tEx.areas ++ OW.Proofs.StorageExample.tEx.minRelease ++ OW.Proofs.StorageExample.tEx.maxRelease))
      [[0], [0], [1], [0], [0], [0]] o₁.states = .ok o₂ ∧
    (∃ l a, o₁.states = [0 + 1, l, a]) ∧ (∃ l a, o₂.states = [0 + 1 + 1, l, a]) := by
  have e2 : Num.toInt (Num.ofNat 2 : ℝ) = 2 := intRoundTrip_real 2
  have hsp : Storage.splitTables 2 (OW.Proofs.StorageExample.tEx.levels ++ OW.Proofs.StorageExample.tEx.volumes ++
      OW.Proofs.StorageExample.tEx.areas ++ OW.Proofs.StorageExample.tEx.minRelease ++ OW.Proofs.StorageExample.tEx.maxRelease) =
      (OW.Proofs.StorageExample.tEx.levels, OW.Proofs.StorageExample.tEx.volumes, OW.Proofs.StorageExample.tEx.areas,
        OW.Proofs.StorageExample.tEx.minRelease, OW.Proofs.StorageExample.tEx.maxRelease) := rfl
  have hm : Storage.mkTables OW.Proofs.StorageExample.tEx.levels OW.Proofs.StorageExample.tEx.volumes
      OW.Proofs.StorageExample.tEx.areas OW.Proofs.StorageExample.tEx.minRelease OW.Proofs.StorageExample.tEx.maxRelease =
      .ok OW.Proofs.StorageExample.tEx := rfl
  have hc : Storage.checkConfig (2 : Int) OW.Proofs.StorageExample.tEx.volumes = .ok .ok := by
    have hv : OW.Proofs.StorageExample.tEx.volumes = [0, 1000] := rfl
    rw [hv]
    simp only [Storage.checkConfig, Storage.maximum, List.foldl]
    realnum
    norm_num
  have key : ∀ cv lv ar : ℝ, 0 ≤ cv → cv + 1 < 1000 → ∃ o,
      (Storage.model (α := ℝ)).run ((1 : ℝ) :: Num.ofNat 2 :: (OW.Proofs.StorageExample.tEx.levels ++ OW.Proofs.StorageExample.tEx.volumes ++
          OW.Proofs.StorageExample.tEx.areas ++ OW.Proofs.StorageExample.tEx.minRelease ++ OW.Proofs.StorageExample.tEx.maxRelease))
        [[0], [0], [1], [0], [0], [0]] [cv, lv, ar] = .ok o ∧ (∃ l a, o.states = [cv + 1, l, a]) := by
    intro cv lv ar h0 h1
    obtain ⟨r, hr, hv⟩ := OW.Proofs.StorageExampleHot.runGen_driver cv h0 h1
    have hlen : ((OW.Proofs.StorageExample.tEx.levels ++ OW.Proofs.StorageExample.tEx.volumes ++
        OW.Proofs.StorageExample.tEx.areas ++ OW.Proofs.StorageExample.tEx.minRelease ++ OW.Proofs.StorageExample.tEx.maxRelease).length
          != 5 * (2 : Int).toNat) = false := by decide
    have hneg : ¬ ((2 : Int) < 0) := by decide
    have htn : (2 : Int).toNat = 2 := rfl
    simp only [Storage.model, e2, if_neg hneg, hlen, Bool.false_eq_true, if_false, htn, hsp, hm, hc, zip4, hr]
    exact ⟨_, rfl, _, _, by rw [hv]⟩
  obtain ⟨o₁, h1, l1, a1, hs1⟩ := key 0 0 0 (le_refl _) (by norm_num)
  obtain ⟨o₂, h2, hs2⟩ := key (0 + 1) l1 a1 (by norm_num) (by norm_num)
  rw [← hs1] at h2
  exact ⟨o₁, o₂, h1, h2, ⟨l1, a1, hs1⟩, hs2⟩
end NonVacuityReal

end OW.Props.C06
