import OW.Props.C08
import OW.Proofs.C08Trace
/-!
C08, part 2 — SEQUENCES of io calls on one file, arrays with a zero extent, and concrete instances of T3/T4/T5.

* §8  every outcome of every operation keeps the file well-formed (`WF`: each dataset holds as many elements as its
      shape says — the standing hypothesis of T2/T3/T4), and ONE trace theorem over lists of operations: along every
      sequence of `Write / WriteSlice / Create / Load` calls, started on no file or on any well-formed file, the file is
      well-formed after every prefix and the per-operation statements T2–T5' hold at every position.
* §9  arrays with a zero extent (excluded from T3/T4 by `Reach ⇒ Pos`): what the model says — `Write` panics,
      `WriteSlice` is a no-op that returns nil, `Create` makes an empty dataset (T5' already allows extents 0).
* §10 concrete non-vacuity instances of T3, T4, T5, T5' (a heap, a stepped source view with `Reach` and `ArrOK`, a
      `Write` that returns nil, a `WriteSlice`, a `Create`).

Vocabulary (`Op`, `stepOp`, `applyOps`, `DiskWF`) and helper lemmas: `OW/Proofs/C08Trace.lean`.
-/
namespace OW.Props.C08
open OW.Nd OW.Sim.H5 OW.Proofs.C08H5

/-! ## 8. Sequences of calls -/

/-- T7a. `Write(data)` keeps the file well-formed WHATEVER its outcome (nil, returned error, panic — e.g. the file
was created and then `data.Get` panicked, or groups were created and then the library refused the dataset), for any
source array (no `Reach` hypothesis) and either element width. -/
theorem write_preserves_WF (narrow : Bool) (h : Heap Int) (a : Arr) (d : Disk) (path : String) (wf : DiskWF d) :
    DiskWF (write narrow h a d path).1 := write_wf narrow h a d path wf

/-- T7b. `WriteSlice(data, loc)` keeps the file well-formed whatever its outcome (including the swallowed library
error, a wrong rank, a missing dataset), for any source array and location. -/
theorem writeSlice_preserves_WF (narrow : Bool) (h : Heap Int) (a : Arr) (d : Disk) (path : String) (loc : Idx)
    (wf : DiskWF d) : DiskWF (writeSlice narrow h a d path loc).1 := writeSlice_wf narrow h a d path loc wf

/-- T7c. `Create(shape, …)` keeps the file well-formed whatever its outcome: dataset exists with the same shape (file
unchanged), with another shape (error), new dataset (zeros), groups made and dataset refused, panic on the path. -/
theorem create_preserves_WF (d : Disk) (path : String) (shape : Idx) (wf : DiskWF d) :
    DiskWF (create d path shape).1 := create_wf d path shape wf

/-- T7d. `Load` (and `Shape`, `Exists`, `GetDatasets`, `GetGroups`) are read-only: in the model they are functions of
the file that return no file, so a `load` step of a trace leaves the file as it is. -/
theorem load_readonly (narrow : Bool) (d : Disk) (path : String) (sel : Option Sel) :
    stepOp narrow d (.load path sel) = d := rfl

/-- What the property says about ONE call `op` made on the file `d`: the statements T2 (`load_selection`),
T3 (`write_load_roundtrip`), T4 (`writeSlice_footprint`), T5/T5' (`create_existing`, `create_new`) with their own
hypotheses on the ARGUMENTS of the call, but WITHOUT any hypothesis on the well-formedness of the file (for `load`,
"the dataset holds as many elements as its shape says" is a conclusion). -/
def OpSpec (d : Disk) : Op → Prop
  | .write h a path =>
    Reach a.v → ArrOK h a → ∀ d', write false h a d path = (d', .ok ()) →
      ∃ vals, OW.NdC02.getAll h a (OW.NdC02.rowMajor a.v.dims) = .ok vals ∧
        load false d' path none = .ok (a.v.dims, vals)
  | .writeSlice h a path loc =>
    Reach a.v → ArrOK h a → ∀ t p s v, d = some t → openDataset t path = .ok (p, s, v) →
      BlockIn (intsToUints loc) (intsToUints a.v.dims) s →
      ∃ vals v', OW.NdC02.getAll h a (OW.NdC02.rowMajor a.v.dims) = .ok vals ∧
        writeSlice false h a d path loc = (some (setVals t p v'), .ok ()) ∧
        find (setVals t p v') p = some (.ds s v') ∧ v'.length = v.length ∧
        (∀ c, CoordIn c s → v'[ravelN c s]? =
          if inBlock c (intsToUints loc) (intsToUints a.v.dims) = true
          then vals[ravelN (List.zipWith (· - ·) c (intsToUints loc)) (intsToUints a.v.dims)]?
          else v[ravelN c s]?) ∧
        (∀ q, q ≠ p → find (setVals t p v') q = find t q)
  | .create path shape =>
    ∀ t, d = some t →
      (∀ p s v, openDataset t path = .ok (p, s, v) →
        (uintsToInts s = shape → create d path shape = (d, .ok ())) ∧
        (uintsToInts s ≠ shape → create d path shape = (d, .err "shape"))) ∧
      ((∀ p s v, openDataset t path ≠ .ok (p, s, v)) → (∀ x ∈ shape, 0 ≤ x) →
        ∀ t', create d path shape = (some t', .ok ()) →
          load false (some t') path none = .ok (shape, List.replicate (product shape).toNat 0) ∧
          (∀ r, find t r ≠ none → find t' r = find t r))
  | .load path sel =>
    ∀ t p s v, d = some t → openDataset t path = .ok (p, s, v) →
      v.length = prodN s ∧
      load false d path none = .ok (uintsToInts s, v) ∧
      ∀ sl, sel = some sl → sl.length = s.length → sl.any Option.isSome = true → (∀ x ∈ sl, SelDimOK x) →
        load false d path (some sl) =
          .ok ((selIdx sl s).map (fun l => ((l.length : Nat) : Int)),
               (cartesian (selIdx sl s)).map (fun c => v.getD (ravelN c s) 0))

/-- on a well-formed file every call satisfies its statement -/
theorem opSpec_of_WF {d : Disk} (wf : DiskWF d) (op : Op) : OpSpec d op := by
  cases op with
  | write h a path =>
    intro hr ok d' hw
    obtain ⟨vals, h1, h2, -⟩ := write_load_roundtrip h a hr ok d d' path wf hw
    exact ⟨vals, h1, h2⟩
  | writeSlice h a path loc =>
    intro hr ok t p s v hd hod hb
    subst hd
    obtain ⟨vals, v', h1, h2, h3, h4, h5, h6, -⟩ := writeSlice_footprint h a hr ok hod (wf t rfl) loc hb
    exact ⟨vals, v', h1, h2, h3, h4, h5, h6⟩
  | create path shape =>
    intro t hd
    subst hd
    refine ⟨fun p s v hod => create_existing hod shape, ?_⟩
    intro hno hpos t' hc
    obtain ⟨h1, h2, -⟩ := create_new hpos hno hc
    exact ⟨h1, h2⟩
  | load path sel =>
    intro t p s v hd hod
    subst hd
    have hv : v.length = prodN s := by
      obtain ⟨_, hpne, hfind⟩ := openDataset_eq.mp hod
      exact wf_of_lookup (wf t rfl) (by simpa [find, hpne] using hfind)
    refine ⟨hv, load_full hod hv, ?_⟩
    intro sl _ hl hsome hok
    exact (load_selection hod hv sl hl hsome hok).2

/-- T7 (WF along every sequence, either element width). Started on no file (`none`) or on any well-formed file, after
EVERY sequence of `Write / WriteSlice / Create / Load` calls with ARBITRARY arguments and outcomes (errors and panics
included) the file is well-formed. -/
theorem ops_preserve_WF (narrow : Bool) (d0 : Disk) (wf0 : DiskWF d0) (ops : List Op) :
    DiskWF (applyOps narrow d0 ops) := applyOps_wf narrow ops wf0

/-- T7 (the trace theorem). For every sequence `ops` of calls started on no file or on a well-formed file `d0`
(element types with `narrow = false`):
1. after every prefix of the sequence the file is well-formed;
2. at every position — `ops = pre ++ op :: post` — the call `op`, made on the file `applyOps d0 pre` that the earlier
   calls left, satisfies its per-operation statement `OpSpec` (T2: Load with a selection returns exactly the selected
   elements and the dataset is as long as its shape says; T3: a Write that returns nil is read back by Load; T4:
   WriteSlice changes exactly the block; T5/T5': Create), and the file handed to the next call is `stepOp` of it.
The arguments of the calls are arbitrary; each statement carries only its own hypotheses on the arguments (`Reach`,
`ArrOK`, `BlockIn`, `SelDimOK`, non-negative shape). NOT stated: a relation between what an EARLIER Write/WriteSlice
stored and what a LATER Load at the same path returns across intervening calls on other paths (that follows from
the frame clauses `find … q = find t q` of T4/T5' one call at a time, but is not composed here). -/
theorem ops_trace (d0 : Disk) (wf0 : DiskWF d0) (ops : List Op) :
    (∀ k, DiskWF (applyOps false d0 (ops.take k))) ∧
    (∀ pre op post, ops = pre ++ op :: post →
      OpSpec (applyOps false d0 pre) op ∧
      applyOps false d0 (pre ++ [op]) = stepOp false (applyOps false d0 pre) op) := by
  refine ⟨fun k => applyOps_wf false _ wf0, ?_⟩
  intro pre op post _
  refine ⟨opSpec_of_WF (applyOps_wf false pre wf0) op, ?_⟩
  rw [applyOps_append]
  rfl

/-! ## 9. Arrays with a zero extent

`Reach` (the source views of T3/T4) has all extents ≥ 1. ow-sim does handle arrays with a zero extent: a model
without inputs gets `data.NewArray3DFloat64(0, 0, 0)` (cmd/ow-sim/simulation_model_reference.go:167), its dataset is
created with `Create([count, 0, 0])` (T5' covers it: `0 ≤ x`) and written with `WriteSlice(inputs, [loc, 0, 0])`.
The two theorems below say what the MODEL does for such sources. They are outside the H5 correspondence (its generator
draws no source view with a zero extent; `Create` with a zero extent IS drawn), so agreement with the Go code for these
two is not checked on every run; it rests on three hand-made programs replayed once through the real io + library
model and the compiled Lean model (0×0×0 and 2×0×3 sources: identical result lines) and on reading io/hdf5.go: `Write` evaluates `data.Get(data.NewIndex(0))` = `Impl[0]` on an empty slice before
`openOrCreateDataset`; `WriteSlice` passes a block with a 0 to `SelectHyperslab` (HDF5: selection "none") and writes 0
elements. -/

theorem product_zero_of_mem : ∀ (l : Idx), (0 : Int) ∈ l → product l = 0 := by
  intro l
  induction l with
  | nil => intro h; simp at h
  | cons x xs ih =>
    intro h
    rcases List.mem_cons.mp h with h | h
    · subst h; simp [product]
    · simp [product, ih h]

/-- T8a. `Write` of a freshly allocated Go-backed array (`NewArray(dims)`) with a zero extent PANICS with
index-out-of-range (at `data.Get(data.NewIndex(0))`), after the file has been opened — a file that did not exist has
been created (empty) — and before any dataset is opened or created: the file is otherwise untouched. -/
theorem write_empty_panics (narrow : Bool) (h h' : Heap Int) (dims : Idx) (a : Arr) (hne : dims ≠ [])
    (h0 : (0 : Int) ∈ dims) (hna : newArray 0 h dims = .ok (h', a)) (d : Disk) (path : String) :
    ∃ t0, openW d true = (some t0, .ok t0) ∧
      write narrow h' a d path = (some t0, .panic "index-out-of-range") := by
  have hp : product dims = 0 := product_zero_of_mem dims h0
  have hroot : View.root dims = .ok (rootView dims 0) := root_eq dims 0 hne
  have ha : a = { v := rootView dims 0, sid := h.length, base := 0, len := 0, isC := false } ∧ h' = h ++ [[]] := by
    simp only [newArray, hp, alloc, fromStore, storeOf, bind, Except.bind, pure, Except.pure] at hna
    simp [hroot] at hna
    exact ⟨hna.2.symm, hna.1.symm⟩
  obtain ⟨rfl, rfl⟩ := ha
  have hget : get (h ++ [[]]) { v := rootView dims 0, sid := h.length, base := 0, len := 0, isC := false }
      ((rootView dims 0).newIndex 0) = oob := by
    have hix : View.indexAux ((rootView dims 0).newIndex 0) (rootView dims 0).offStep =
        .ok (dot ((rootView dims 0).newIndex 0) (rootView dims 0).offStep) :=
      indexAux_ok _ _ (by simp [View.newIndex, View.ndims, rootView, uniform, offsetsT_length])
    unfold Nd.get
    simp [View.index, hix, readAt, storeOf, bind, Except.bind, pure, Except.pure]
  obtain ⟨t0, ht0⟩ : ∃ t0, openW d true = (some t0, .ok t0) := by
    cases d with
    | none => exact ⟨[], rfl⟩
    | some t => exact ⟨t, rfl⟩
  refine ⟨t0, ht0, ?_⟩
  unfold write
  rw [ht0]
  simp only [hget, oob]

/-- T8b. `WriteSlice(data, loc)` of ANY source whose shape has a zero extent (same rank as `loc` and as
the dataset at `path`) and whose `Unroll()` returns: the block contains a 0, the library selects nothing, 0 elements are
transferred — the call returns nil and the file is EXACTLY as before. (`Unroll()` does return for the root arrays
ow-sim uses: examples below.) -/
theorem writeSlice_empty_noop (narrow : Bool) (h : Heap Int) (a : Arr)
    (h0 : (0 : Int) ∈ a.v.dims) {vals : List Int} (hu : unrollVals h a = .ok vals)
    {t : Tree} {path : String} {p : Path} {s : List Nat} {v : List Int}
    (hod : openDataset t path = .ok (p, s, v)) (loc : Idx) (hl : loc.length = s.length)
    (hd : a.v.dims.length = s.length) :
    writeSlice narrow h a (some t) path loc = (some t, .ok ()) := by
  obtain ⟨_, hpne, hfind⟩ := openDataset_eq.mp hod
  have hlook : t.lookup p = some (.ds s v) := by simpa [find, hpne] using hfind
  have hrank : loc.length ≠ 0 := by
    intro e
    have : a.v.dims = [] := List.length_eq_zero_iff.mp (by omega)
    rw [this] at h0; simp at h0
  have hz : (0 : Nat) ∈ intsToUints a.v.dims := by
    simp only [intsToUints, List.mem_map]
    exact ⟨0, h0, by simp [toUint]⟩
  have hpz : prodN (intsToUints a.v.dims) = 0 := prodN_eq_zero _ hz
  have hsel : selectHyperslab s .all (intsToUints loc) (List.replicate loc.length 1) (List.replicate loc.length 1)
      (intsToUints a.v.dims) = .ok .none := by
    unfold selectHyperslab
    have hll : (intsToUints loc).length = loc.length := by simp [intsToUints]
    have hdl : (intsToUints a.v.dims).length = loc.length := by simp [intsToUints]; omega
    simp only [hll, List.length_replicate]
    rw [if_neg hrank, if_neg (by omega), if_neg (by omega)]
    have ht1 : (List.replicate loc.length 1).take loc.length = List.replicate loc.length 1 := by
      simp [List.take_replicate]
    have ht2 : (intsToUints a.v.dims).take loc.length = intsToUints a.v.dims := by
      rw [← hdl]; exact List.take_length
    simp only [ht1, ht2]
    have h1 : (List.replicate loc.length 1).any (· == 0) = false := by
      rw [List.any_eq_false]; intro x hx; simp [List.eq_of_mem_replicate hx]
    have h2 : (zip4 (intsToUints loc) (List.replicate loc.length 1) (List.replicate loc.length 1)
        (intsToUints a.v.dims)).any (fun (_, s, c, b) => decide (c > 1) && decide (s < b)) = false := by
      rw [List.any_eq_false]
      intro x hx
      have : x.2.2.1 = 1 := by
        have := (zip4_replicate_mem loc.length (intsToUints loc) (intsToUints a.v.dims) x (by rw [hll] at *; exact hx)).2
        exact this
      obtain ⟨x1, x2, x3, x4⟩ := x
      simp only at this
      subst this
      simp
    have h3 : (intsToUints a.v.dims).any (· == 0) = true := by
      rw [List.any_eq_true]; exact ⟨0, hz, by simp⟩
    simp only [h1, h2, h3, Bool.false_eq_true, if_false, Bool.or_true, if_true]
  unfold writeSlice
  simp only [openW, hod, hsel, hu, hpz]
  have hw : h5write v s .none 0 (packBuf narrow vals) = .ok v := by
    simp [h5write, npoints, selValid, linear, scatter]
  rw [hw]
  simp only [setVals_same hlook]

/-! ## 10. Non-vacuity: concrete instances of T3, T4, T5, T5', T7, T8 -/

namespace Ex
open OW.Props.C02.Ex

set_option linter.deprecated false in
/-- `strings.Split("a", "/")` (the string functions do not reduce in the kernel: unfolded by hand) -/
theorem split_a : "a".splitOn "/" = ["a"] := by
  have h1 : String.Pos.Raw.atEnd "a" 0 = false := by decide
  have h2 : ¬ (String.Pos.Raw.get "a" 0 = String.Pos.Raw.get "/" 0) := by decide
  have h3 : String.Pos.Raw.atEnd "a" (String.Pos.Raw.next "a" 0) = true := by decide
  have h4 : String.Pos.Raw.extract "a" 0 (String.Pos.Raw.next "a" 0) = "a" := by decide
  simp only [String.splitOn]
  rw [String.splitOnAux]
  simp [h1, h2]
  rw [String.splitOnAux]
  simp [h3, h4]

theorem splitPath_a : splitPath "a" = ["a"] := by
  simp only [splitPath, split_a]; decide

/-- the source of the examples: the stepped view `[0:3:2, 0:4:2]` (elements 0, 2, 8, 10) of the 3×4 root `0 … 11` of
`OW.Props.C02.Ex` — reachable, well-windowed, not contiguous -/
theorem ok_stepped : ArrOK heap stepped := ⟨⟨_, rfl, by decide⟩, by decide, by decide, by simp [stepped, root]⟩

/-- a `Write` that returns nil: the stepped view into the dataset "a" of a file that does not exist yet -/
theorem write_stepped :
    write false heap stepped none "a" = (some [(["a"], .ds [2, 2] [0, 2, 8, 10])], .ok ()) := by
  have hget : get heap stepped (stepped.v.newIndex 0) = .ok 0 := by decide
  have hun : unrollVals heap stepped = .ok [0, 2, 8, 10] := by decide
  have hdims : stepped.v.dims = [2, 2] := rfl
  have hcd : createDs [2, 2] [] [] ["a"] = ([(["a"], .ds [2, 2] [0, 0, 0, 0])], .ok ["a"]) := by
    rw [createDs]; decide
  have hoc : openOrCreate [] "a" [2, 2] = ([(["a"], .ds [2, 2] [0, 0, 0, 0])], .ok ["a"]) := by
    simp only [openOrCreate, openDataset, splitPath_a, split_a]
    rw [show intsToUints [2, 2] = [2, 2] by decide, hcd]
    decide
  simp only [write, openW, if_true, hget, hdims, hoc, hun]
  decide

/-- T3 instance: all hypotheses of `write_load_roundtrip` hold together (`Reach`, `ArrOK`, no file yet, `Write` returns
nil) and its conclusion is the concrete `Load` result: shape 2×2, elements 0, 2, 8, 10 -/
example : load false (some [(["a"], .ds [2, 2] [0, 2, 8, 10])]) "a" none = .ok ([2, 2], [0, 2, 8, 10]) := by
  obtain ⟨vals, h1, h2, -⟩ :=
    write_load_roundtrip heap stepped reach_stepped ok_stepped none _ "a" (fun _ h => by cases h) write_stepped
  have : vals = [0, 2, 8, 10] := by
    have h3 : OW.NdC02.getAll heap stepped (OW.NdC02.rowMajor stepped.v.dims) = .ok [0, 2, 8, 10] := by decide
    rw [h3] at h1; cases h1; rfl
  subst this
  exact h2

/-- a 3×4 dataset of zeros at "a" -/
def file34 : Tree := [(["a"], .ds [3, 4] (List.replicate 12 0))]

theorem open_file34 : openDataset file34 "a" = .ok (["a"], [3, 4], List.replicate 12 0) := by
  simp only [openDataset, splitPath_a]; decide

theorem wf_file34 : WF file34 := by
  intro p s v hm
  simp only [file34, List.mem_singleton, Prod.mk.injEq, Obj.ds.injEq] at hm
  obtain ⟨_, rfl, rfl⟩ := hm
  decide

/-- T4 instance: all hypotheses of `writeSlice_footprint` hold together (`Reach`, `ArrOK`, a well-formed file with a
3×4 dataset, the 2×2 block at (1,1) inside it), so its conclusion holds for this call … -/
theorem blockIn_ex : BlockIn (intsToUints [1, 1]) (intsToUints stepped.v.dims) [3, 4] := by
  have e1 : intsToUints [1, 1] = [1, 1] := by decide
  have e2 : intsToUints stepped.v.dims = [2, 2] := by decide
  rw [e1, e2]
  exact ⟨by omega, by omega, trivial⟩

example : ∃ vals v', OW.NdC02.getAll heap stepped (OW.NdC02.rowMajor stepped.v.dims) = .ok vals ∧
    writeSlice false heap stepped (some file34) "a" [1, 1] = (some (setVals file34 ["a"] v'), .ok ()) ∧
    WF (setVals file34 ["a"] v') := by
  obtain ⟨vals, v', h1, h2, -, -, -, -, h7⟩ :=
    writeSlice_footprint heap stepped reach_stepped ok_stepped open_file34 wf_file34 [1, 1] blockIn_ex
  exact ⟨vals, v', h1, h2, h7⟩

/-- … and evaluated: `WriteSlice` returns nil and the dataset holds the four elements 0, 2, 8, 10 of the view at
(1,1), (1,2), (2,1), (2,2) and zeros elsewhere -/
example : writeSlice false heap stepped (some file34) "a" [1, 1] =
    (some [(["a"], .ds [3, 4] [0, 0, 0, 0, 0, 0, 2, 0, 0, 8, 10, 0])], .ok ()) := by
  have hun : unrollVals heap stepped = .ok [0, 2, 8, 10] := by decide
  simp only [writeSlice, openW, open_file34, hun]
  decide

/-- T5 instance: `Create` on the existing 3×4 dataset — same shape: nil, file unchanged; other shape: error, file
unchanged -/
example : create (some file34) "a" [3, 4] = (some file34, .ok ()) ∧
    create (some file34) "a" [4, 3] = (some file34, .err "shape") :=
  ⟨(create_existing open_file34 [3, 4]).1 (by decide), (create_existing open_file34 [4, 3]).2 (by decide)⟩

/-- T5' instance: `Create` of "a" with shape 2 × 0 × 3 (a zero extent, as ow-sim does) in an existing empty file
returns nil … -/
theorem create_empty_shape : create (some []) "a" [2, 0, 3] = (some [(["a"], .ds [2, 0, 3] [])], .ok ()) := by
  have hcd : createDs [2, 0, 3] [] [] ["a"] = ([(["a"], .ds [2, 0, 3] [])], .ok ["a"]) := by
    rw [createDs]; decide
  simp only [create, openW, openOrCreate, openDataset, splitPath_a, split_a]
  rw [show intsToUints [2, 0, 3] = [2, 0, 3] by decide]
  simp only [hcd]
  decide

/-- … and the hypotheses of `create_new` hold for it: the dataset reads as the empty list and the file is well-formed -/
example : load false (some [(["a"], .ds [2, 0, 3] [])]) "a" none = .ok ([2, 0, 3], []) ∧
    WF [(["a"], .ds [2, 0, 3] [])] := by
  have hno : ∀ p s v, openDataset ([] : Tree) "a" ≠ .ok (p, s, v) := by
    intro p s v h
    simp [openDataset, splitPath_a, find] at h
  obtain ⟨h1, -, h3⟩ := create_new (shape := [2, 0, 3]) (by decide) hno create_empty_shape
  exact ⟨by simpa [product] using h1, h3 wf_nil⟩

/-- T7 instance: a sequence `Create; WriteSlice; Write; Load` on no file — the trace theorem applies to it -/
example : DiskWF (applyOps false none
    [.create "a" [3, 4], .writeSlice heap stepped "a" [1, 1], .write heap stepped "a", .load "a" none]) :=
  ops_preserve_WF false none diskWF_none _

/-- the Go-backed root array `NewArray([0, 0, 0])` on a heap of its own -/
def empty000 : Arr := { v := rootView [0, 0, 0] 0, sid := 0, base := 0, len := 0, isC := false }

theorem newArray_000 : newArray (0 : Int) [] [0, 0, 0] = .ok ([[]], empty000) := by decide

/-- T8a instance: `NewArray([0, 0, 0])` exists in the model and `Write` of it panics (the file has been created) -/
example : write false [[]] empty000 none "a" = (some [], .panic "index-out-of-range") := by
  obtain ⟨t0, h1, h2⟩ := write_empty_panics false [] [[]] [0, 0, 0] empty000 (by decide) (by decide)
    newArray_000 none "a"
  simp only [openW, if_true, Prod.mk.injEq, Option.some.injEq] at h1
  rw [h2, ← h1.1]

/-- T8b instance: `Unroll()` of the root arrays 0×0×0 and 2×0×3 returns the empty slice (hypothesis `hu` of
`writeSlice_empty_noop`), and `WriteSlice` of the 0×0×0 array into a 2×0×0 dataset leaves the file as it is -/
example : unrollVals ([[]] : Heap Int) empty000 = .ok [] ∧
    unrollVals ([[]] : Heap Int) { v := rootView [2, 0, 3] 0, sid := 0, base := 0, len := 0, isC := false } = .ok [] := by
  decide

example : writeSlice false ([[]] : Heap Int) empty000
    (some [(["a"], .ds [2, 0, 0] [])]) "a" [1, 0, 0] = (some [(["a"], .ds [2, 0, 0] [])], .ok ()) := by
  have hod : openDataset [(["a"], Obj.ds [2, 0, 0] [])] "a" = .ok (["a"], [2, 0, 0], []) := by
    simp only [openDataset, splitPath_a]; decide
  exact writeSlice_empty_noop false _ _ (by decide) (vals := []) (by decide) hod [1, 0, 0] rfl rfl

end Ex

/-! ## 11. What the lock check does NOT exclude (liveness) -/

/-- The lock check accepts a function that holds the SHARED lock and calls a function that takes the EXCLUSIVE lock
(here an exported reader `R` calling an unexported writer `W` that makes a mutating library call): T6 holds for it —
at the library call the exclusive lock "is held" — but with Go's non-reentrant `sync.RWMutex` the call `mu.Lock()`
inside `mu.RLock()` never returns (self-deadlock). The same goes for exclusive → exclusive and shared → shared
(with a writer queued in between). This is a LIVENESS defect, outside the stated safety clause "every library call is
made while holding the lock, writers exclusively"; no function of the current package io nests lock-taking functions
(`Exists` takes no lock itself and calls the shared-lock listers one after the other). -/
example : OW.Sim.LockCheck.lockCheck
    [{ name := "R", exported := true, lock := .shared, irregular := false, lib := [], calls := [1] },
     { name := "W", exported := false, lock := .exclusive, irregular := false, lib := [("Dataset.Write", true)], calls := [] }] = true := by
  decide

end OW.Props.C08
