import OW.Proofs.NdC01Ops
/-!
C03 — C-memory-backed arrays behave like the Go-native ones and stay inside the caller's buffer.
Theorems over the n-d array model (OW/Nd/Array.lean; `isC = true` is the C back-end of data/cdata/arrays_c.go).
The bulk operations of both back-ends are shown equal to the same element-wise definition in C02; here: the
memory-safety statement and the simulation relation for views, reads and writes.
-/
namespace OW.Props.C03
open OW.Nd

variable {α : Type}

/-- **c_inbounds (reads).** For a C-backed array whose buffer holds at least `Π OriginalDims` elements (`ArrOK`,
established by `fromC` on the caller's buffer) and ANY view reachable from it by in-bounds slicing, every element
read lies inside the caller's buffer: the address is in `[0, Π OriginalDims)` and the model's out-of-buffer
verdict `oob-c` cannot occur. -/
theorem c_inbounds_get {h : Heap α} {a : Arr} (hc : a.isC = true) (hr : Reach a.v) (ok : ArrOK h a)
    {i : Idx} (hi : InBounds i a.v.dims) :
    ∃ p x, a.v.index i = .ok p ∧ 0 ≤ p ∧ p < product a.v.orig ∧ product a.v.orig ≤ a.len ∧
      get h a i = .ok x ∧ get h a i ≠ .error "oob-c" := by
  obtain ⟨p, x, hp, h0, hlt, _, hg⟩ := get_eq hr ok hi
  exact ⟨p, x, hp, h0, hlt, ok.fits, hg, by rw [hg]; intro e; cases e⟩

/-- **c_inbounds (writes).** Same for every element written through a reachable view of a C-backed array: the
write lands at an address inside the caller's buffer and changes exactly that cell. -/
theorem c_inbounds_set {h : Heap α} {a : Arr} (hc : a.isC = true) (hr : Reach a.v) (ok : ArrOK h a)
    {i : Idx} (hi : InBounds i a.v.dims) (x : α) :
    ∃ p, a.v.index i = .ok p ∧ 0 ≤ p ∧ p < product a.v.orig ∧ product a.v.orig ≤ a.len ∧
      set h a i x = .ok (setStore h a.sid (a.base + p).toNat x) := by
  obtain ⟨p, hp, h0, hlt, hs⟩ := set_eq hr ok hi x
  exact ⟨p, hp, h0, hlt, ok.fits, hs⟩

/-- The simulation relation between a Go-backed array `g` (in heap `hg`) and a C-backed array `c` (in heap `hc`):
same view metadata, both windows valid, and the same element at every address of the allocated shape. -/
structure Rel (hg hc : Heap α) (g c : Arr) : Prop where
  goBacked : g.isC = false
  cBacked : c.isC = true
  view : g.v = c.v
  reach : Reach g.v
  okG : ArrOK hg g
  okC : ArrOK hc c
  same : ∀ p : Int, 0 ≤ p → p < product g.v.orig →
    cell hg g.sid (g.base + p).toNat = cell hc c.sid (c.base + p).toNat

/-- **c_go_bisim (views).** Slicing both arrays with the same request gives related arrays again (the C view and
the Go view carry identical metadata), and slicing fails on one side iff it fails on the other. -/
theorem rel_slice {hg hc : Heap α} {g c : Arr} (r : Rel hg hc g c) (loc dims : Idx) (step : Option Idx) :
    (∀ e, slice g loc dims step = .error e ↔ slice c loc dims step = .error e) ∧
    ∀ g', slice g loc dims step = .ok g' →
      SliceOK g.v.dims loc dims (stepOr g.v.dims.length step) →
      ∃ c', slice c loc dims step = .ok c' ∧ Rel hg hc g' c' := by
  have hv := r.view
  constructor
  · intro e
    unfold slice
    rw [hv]
    cases c.v.sliceInto loc dims step <;> simp [bind, Except.bind, pure, Except.pure]
  · intro g' hs hok
    obtain ⟨w, hw, rfl⟩ := slice_eq hs
    have hwc : c.v.sliceInto loc dims step = .ok w := by rw [← hv]; exact hw
    have hsc : slice c loc dims step = .ok { c with v := w } := by
      unfold slice; rw [hwc]; rfl
    refine ⟨{ c with v := w }, hsc, ?_⟩
    have ho := (sliceInto_orig hw).1
    refine ⟨r.goBacked, r.cBacked, rfl, Reach.slice r.reach hok hw, r.okG.slice hs, ?_, ?_⟩
    · exact r.okC.slice hsc
    · intro p h0 hp
      have : product w.orig = product g.v.orig := by rw [ho]
      exact r.same p h0 (by simpa [this] using hp)

/-- **c_go_bisim (reads).** Related arrays return the same element at every in-bounds index. -/
theorem rel_get {hg hc : Heap α} {g c : Arr} (r : Rel hg hc g c) {i : Idx} (hi : InBounds i g.v.dims) :
    ∃ x, get hg g i = .ok x ∧ get hc c i = .ok x := by
  obtain ⟨p, x, hp, h0, hlt, hcell, hget⟩ := get_eq r.reach r.okG hi
  have hrc : Reach c.v := by rw [← r.view]; exact r.reach
  have hic : InBounds i c.v.dims := by rw [← r.view]; exact hi
  obtain ⟨p', x', hp', _, _, hcell', hget'⟩ := get_eq hrc r.okC hic
  have hpp : p = p' := by
    rw [r.view] at hp; rw [hp] at hp'; injection hp'
  subst hpp
  have := r.same p h0 hlt
  rw [hcell, hcell'] at this
  injection this with this
  subst this
  exact ⟨x, hget, hget'⟩

/-- **c_go_bisim (writes).** Writing the same value at the same in-bounds index through related arrays leaves them
related (and any pair of arrays over the same two windows with the same allocated shape stays related, so every
other live view pair sees the write alike). -/
theorem rel_set {hg hc : Heap α} {g c : Arr} (r : Rel hg hc g c) {i : Idx} (hi : InBounds i g.v.dims) (x : α) :
    ∃ hg' hc', set hg g i x = .ok hg' ∧ set hc c i x = .ok hc' ∧ Rel hg' hc' g c := by
  obtain ⟨p, hp, h0, hlt, hs⟩ := set_eq r.reach r.okG hi x
  have hrc : Reach c.v := by rw [← r.view]; exact r.reach
  have hic : InBounds i c.v.dims := by rw [← r.view]; exact hi
  obtain ⟨p', hp', h0', hlt', hs'⟩ := set_eq hrc r.okC hic x
  have hpp : p = p' := by
    rw [r.view] at hp; rw [hp] at hp'; injection hp'
  subst hpp
  refine ⟨_, _, hs, hs', r.goBacked, r.cBacked, r.view, r.reach,
    r.okG.sameShape (sameShape_setStore _ _ _ _), r.okC.sameShape (sameShape_setStore _ _ _ _), ?_⟩
  intro q hq0 hq
  rw [cell_setStore, cell_setStore]
  have hbg := r.okG.base_nonneg
  have hbc := r.okC.base_nonneg
  by_cases e : q = p
  · subst e
    simp only [and_self, if_true]
    rw [r.same q hq0 hq]
  · have e1 : ¬ (g.base + q).toNat = (g.base + p).toNat := by omega
    have e2 : ¬ (c.base + q).toNat = (c.base + p).toNat := by omega
    simp only [e1, e2, and_false, if_false]
    exact r.same q hq0 hq

/-- `Contiguous()` is a function of the view metadata only, so related arrays agree on it. -/
theorem rel_contiguous {hg hc : Heap α} {g c : Arr} (r : Rel hg hc g c) : g.v.contiguous = c.v.contiguous := by
  rw [r.view]

/-- Related arrays exist: wrapping two buffers with the same contents, one as a Go slice and one as C memory. -/
theorem rel_roots (vals : List α) (dims : Idx) (hne : dims ≠ []) (hpos : Pos dims) (hlen : product dims ≤ vals.length)
    (hsmall : product dims ≤ 1073741824) :
    ∃ g c, fromStore [vals, vals] 0 dims = .ok g ∧ fromC [vals, vals] 1 dims = .ok c ∧ Rel [vals, vals] [vals, vals] g c := by
  have hv : View.root dims = .ok (rootView dims 0) := root_eq dims 0 hne
  refine ⟨{ v := rootView dims 0, sid := 0, base := 0, len := vals.length, isC := false },
          { v := rootView dims 0, sid := 1, base := 0, len := vals.length, isC := true }, ?_, ?_, ?_⟩
  · simp [fromStore, storeOf, hv, bind, Except.bind, pure, Except.pure]
  · simp [fromC, storeOf, hv, bind, Except.bind, pure, Except.pure]
  · refine ⟨rfl, rfl, rfl, reach_root hne hpos, ?_, ?_, ?_⟩
    · exact ⟨⟨vals, rfl, by simp⟩, by simp, by simpa [rootView] using hlen, by intro h; cases h⟩
    · exact ⟨⟨vals, rfl, by simp⟩, by simp, by simpa [rootView] using hlen, by intro _; simpa [rootView] using hsmall⟩
    · intro p _ _; simp [cell]

/-- non-vacuity: a 2×3 buffer wrapped both ways is related, and a stepped column view of both reads alike -/
example : ∃ g c, fromStore [[1, 2, 3, 4, 5, 6], [1, 2, 3, 4, 5, 6]] 0 [2, 3] = .ok g ∧
    fromC [[1, 2, 3, 4, 5, 6], [1, 2, 3, 4, 5, 6]] 1 [2, 3] = .ok c ∧
    Rel [[1, 2, 3, 4, 5, 6], [1, 2, 3, 4, 5, 6]] [[1, 2, 3, 4, 5, 6], [1, 2, 3, 4, 5, 6]] g c :=
  rel_roots [1, 2, 3, 4, 5, 6] [2, 3] (by decide) (by intro x hx; simp at hx; omega) (by decide) (by decide)

end OW.Props.C03
