import OW.Kernels.Climate
import OW.Proofs.RealNum
import OW.Proofs.Climate
import Mathlib.Tactic.Linarith
import Mathlib.Tactic.Positivity
import Mathlib.Tactic.NormNum
/-!
C20 — derived climate variables are physically ordered.

Theorems over the kernel model `OW/Kernels/Climate.lean` at `α := ℝ` (exact real arithmetic).
* `vp_pos`                — saturation vapour pressure is positive for every temperature
* `bisect_between`, `wetbulb_between` — for ANY function searched by the bisection (any enthalpy / pressure / vapour
  pressure functions) the returned wet bulb lies between dew point and dry bulb in the order-free sense
* `deltaT_def`            — the reported depression is dry bulb − wet bulb
* `vp_strictMono_ice`     — strictly increasing on (−273.16, 0]   (⊇ [−40, 0])
* `vp_strictMono_water`   — strictly increasing on (0, 100]       (⊇ (0, 55])
* `dewpoint_mono_humidity`— dew point strictly increasing in relative humidity
NOT proved (listed as such in checks/C20.py): monotonicity across the freezing point (needs verified numerics of
transcendental constants, margin ≈ 5·10⁻⁵ in log₁₀), convergence of the bisection to the enthalpy match, finiteness
in IEEE arithmetic (ℝ has no non-finite values; finiteness is checked by the oracle on the real code).
-/
namespace OW.Props.C20
open OW OW.Kernels.Climate OW.Proofs.Climate

/-! ### the bisection bracket -/

/-- Bracket invariant of the wet-bulb bisection, for an arbitrary function `f` and level `h`:
with a non-negative initial width the result stays in `[rtb, rtb + dx]`. -/
theorem bisect_between_nonneg (f : ℝ → ℝ) (h : ℝ) (n : Nat) (rtb dx : ℝ) (hdx : 0 ≤ dx) :
    rtb ≤ bisect f h n rtb dx ∧ bisect f h n rtb dx ≤ rtb + dx := by
  induction n generalizing rtb dx with
  | zero => simp only [bisect]; constructor <;> linarith
  | succ n ih =>
    simp only [bisect]
    have h2 : (0:ℝ) ≤ dx * 0.5 := by positivity
    have h3 : dx * 0.5 ≤ dx := by nlinarith
    have ih1 := ih (rtb + dx * 0.5) (dx * 0.5) h2
    have ih2 := ih rtb (dx * 0.5) h2
    split_ifs <;> constructor <;> linarith [ih1.1, ih1.2, ih2.1, ih2.2]

/-- … and with a non-positive initial width it stays in `[rtb + dx, rtb]`. -/
theorem bisect_between_nonpos (f : ℝ → ℝ) (h : ℝ) (n : Nat) (rtb dx : ℝ) (hdx : dx ≤ 0) :
    rtb + dx ≤ bisect f h n rtb dx ∧ bisect f h n rtb dx ≤ rtb := by
  induction n generalizing rtb dx with
  | zero => simp only [bisect]; constructor <;> linarith
  | succ n ih =>
    simp only [bisect]
    have h2 : dx * 0.5 ≤ (0:ℝ) := by nlinarith
    have h3 : dx ≤ dx * 0.5 := by nlinarith
    have ih1 := ih (rtb + dx * 0.5) (dx * 0.5) h2
    have ih2 := ih rtb (dx * 0.5) h2
    split_ifs <;> constructor <;> linarith [ih1.1, ih1.2, ih2.1, ih2.2]

/-- **bracket invariant**, order-free: for ANY function `f`, level `h` and number of iterations, the bisection started at
`rtb` with width `dx` returns a value between `rtb` and `rtb + dx`. -/
theorem bisect_between (f : ℝ → ℝ) (h : ℝ) (n : Nat) (rtb dx : ℝ) :
    min rtb (rtb + dx) ≤ bisect f h n rtb dx ∧ bisect f h n rtb dx ≤ max rtb (rtb + dx) := by
  rcases le_total 0 dx with hdx | hdx
  · obtain ⟨a, b⟩ := bisect_between_nonneg f h n rtb dx hdx
    exact ⟨le_trans (min_le_left _ _) a, le_trans b (le_max_right _ _)⟩
  · obtain ⟨a, b⟩ := bisect_between_nonpos f h n rtb dx hdx
    exact ⟨le_trans (min_le_right _ _) a, le_trans b (le_max_left _ _)⟩

/-- **wetbulb_between.** For any dry bulb, dew point, enthalpy and pressure — hence for ANY enthalpy, humidity-ratio and
vapour-pressure functions feeding them — `calcWetBulb` returns a value between the dew point and the dry bulb
(`min ≤ wet ≤ max`: the dew point may exceed the dry bulb, see DESIGN §6 C20). -/
theorem wetbulb_between (tDryBulb tDewPoint hEnthalpy pAtmosphere : ℝ) :
    min tDewPoint tDryBulb ≤ wetBulb tDryBulb tDewPoint hEnthalpy pAtmosphere ∧
    wetBulb tDryBulb tDewPoint hEnthalpy pAtmosphere ≤ max tDewPoint tDryBulb := by
  have := bisect_between (satEnthalpy pAtmosphere) hEnthalpy 40 tDewPoint (tDryBulb - tDewPoint)
  simpa [wetBulb] using this

/-- the same for the values the kernel reports for one sample -/
theorem sample_wetbulb_between (pa t rh : ℝ) :
    min (sample pa t rh).dewPoint t ≤ (sample pa t rh).wetBulb ∧
    (sample pa t rh).wetBulb ≤ max (sample pa t rh).dewPoint t :=
  wetbulb_between t (dewPoint t rh) _ pa

/-- **deltaT_def.** The reported wet-bulb depression is dry bulb minus wet bulb. -/
theorem deltaT_def (pa t rh : ℝ) : (sample pa t rh).deltaT = t - (sample pa t rh).wetBulb := rfl

/-! ### vapour pressure -/

/-- **vp_pos.** Saturation vapour pressure is positive at every temperature (both Goff-Gratch branches). -/
theorem vp_pos (t : ℝ) : 0 < vaporPressure t := by
  unfold vaporPressure
  simp only [RealNum.pow_eq, RealNum.ofNat_eq]
  split_ifs <;>
  · apply mul_pos (by norm_num)
    exact Real.rpow_pos_of_pos (by norm_num) _

/-- **vp_strictMono_ice.** Below freezing (the `else` branch: T ≤ 0) the Goff-Gratch vapour pressure over ice is strictly
increasing in temperature, on the whole branch down to absolute zero of the formula (⊇ [−40, 0]). -/
theorem vp_strictMono_ice (t1 t2 : ℝ) (h0 : -273.16 < t1) (h12 : t1 < t2) (h2 : t2 ≤ 0) :
    vaporPressure t1 < vaporPressure t2 := by
  rw [vp_ice t1 (by linarith), vp_ice t2 (by linarith)]
  have ha1 : 0 < t1 + 273.16 := by linarith
  have ha2 : 0 < t2 + 273.16 := by linarith
  have hz2 : 1 ≤ 273.16 / (t2 + 273.16) := by rw [le_div_iff₀ ha2]; linarith
  have hz : 273.16 / (t2 + 273.16) < 273.16 / (t1 + 273.16) :=
    div_lt_div_of_pos_left (by norm_num) ha1 (by linarith)
  have := expIce_strictAnti hz2 hz
  have hp : (10:ℝ) ^ expIce (273.16 / (t1 + 273.16)) < (10:ℝ) ^ expIce (273.16 / (t2 + 273.16)) :=
    Real.rpow_lt_rpow_of_exponent_lt (by norm_num) this
  linarith

/-- **vp_strictMono_water.** Above freezing (the `if temperature > 0` branch) the Goff-Gratch vapour pressure over water is
strictly increasing in temperature up to the boiling point (⊇ (0, 55]). -/
theorem vp_strictMono_water (t1 t2 : ℝ) (h0 : 0 < t1) (h12 : t1 < t2) (h2 : t2 ≤ 100) :
    vaporPressure t1 < vaporPressure t2 := by
  rw [vp_water t1 h0, vp_water t2 (by linarith)]
  have ha1 : 0 < t1 + 273.16 := by linarith
  have ha2 : 0 < t2 + 273.16 := by linarith
  have hz2 : 1 ≤ 373.16 / (t2 + 273.16) := by rw [le_div_iff₀ ha2]; linarith
  have hz : 373.16 / (t2 + 273.16) < 373.16 / (t1 + 273.16) :=
    div_lt_div_of_pos_left (by norm_num) ha1 (by linarith)
  have := expWater_strictAnti hz2 hz
  have hp : (10:ℝ) ^ expWater (373.16 / (t1 + 273.16)) < (10:ℝ) ^ expWater (373.16 / (t2 + 273.16)) :=
    Real.rpow_lt_rpow_of_exponent_lt (by norm_num) this
  linarith

/-! ### dew point -/

/-- `calcDewPoint` for a positive humidity, in closed form -/
theorem dewPoint_eq (t rh : ℝ) (hrh : 0 < rh) :
    dewPoint t rh = 237.3 * Real.log (vaporPressure t * rh / 100 / 0.6108) /
      (17.27 - Real.log (vaporPressure t * rh / 100 / 0.6108)) := by
  unfold dewPoint
  simp only [zero_lit, ofNat_lit 100]
  have h1 : ¬ rh ≤ 0 := not_le.mpr hrh
  have h2 : 0 < vaporPressure t * rh / 100 := by
    have := vp_pos t
    positivity
  rw [if_neg h1, if_pos h2]
  rfl

/-- **dewpoint_mono_humidity.** At a fixed temperature the dew point is strictly increasing in relative humidity, as long as
the Magnus denominator `17.27 − ln(ea/0.6108)` stays positive at the larger humidity (i.e. `ea < 0.6108·e^17.27 ≈ 1.9·10⁷ kPa`,
true for every meteorological input: `ea ≤ vp(55 °C) ≈ 15.7 kPa`). -/
theorem dewpoint_mono_humidity (t rh1 rh2 : ℝ) (h1 : 0 < rh1) (h12 : rh1 < rh2)
    (hden : Real.log (vaporPressure t * rh2 / 100 / 0.6108) < 17.27) :
    dewPoint t rh1 < dewPoint t rh2 := by
  rw [dewPoint_eq t rh1 h1, dewPoint_eq t rh2 (by linarith)]
  have hv := vp_pos t
  have e1 : 0 < vaporPressure t * rh1 / 100 / 0.6108 := by positivity
  have e12 : vaporPressure t * rh1 / 100 / 0.6108 < vaporPressure t * rh2 / 100 / 0.6108 := by
    apply div_lt_div_of_pos_right _ (by norm_num)
    apply div_lt_div_of_pos_right _ (by norm_num)
    exact mul_lt_mul_of_pos_left h12 hv
  have hF : Real.log (vaporPressure t * rh1 / 100 / 0.6108) < Real.log (vaporPressure t * rh2 / 100 / 0.6108) :=
    Real.log_lt_log e1 e12
  generalize Real.log (vaporPressure t * rh1 / 100 / 0.6108) = F1 at hF ⊢
  generalize Real.log (vaporPressure t * rh2 / 100 / 0.6108) = F2 at hF hden ⊢
  rw [div_lt_div_iff₀ (by linarith) (by linarith)]
  nlinarith

/-! ### non-vacuity -/

/-- the bisection does move: with `f = id` and level 3 in the bracket [0, 8] two steps give 2 -/
example : bisect (fun x : ℝ => x) 3 2 0 8 = 2 := by
  simp only [bisect, acc, RealNum.abs_eq]
  simp only [RealNum.ofNat_eq, Nat.cast_zero]
  norm_num

example : 0 < vaporPressure (20 : ℝ) := vp_pos 20
example : vaporPressure (-40 : ℝ) < vaporPressure (0 : ℝ) := vp_strictMono_ice (-40) 0 (by norm_num) (by norm_num) (le_refl _)
example : vaporPressure (1 : ℝ) < vaporPressure (55 : ℝ) := vp_strictMono_water 1 55 (by norm_num) (by norm_num) (by norm_num)

/-- at 0 °C the ice branch gives exactly 101.325 × 0.0060273 kPa, so at 50 % and 100 % humidity `ea/0.6108 < 1` and the
hypothesis of `dewpoint_mono_humidity` holds -/
example : dewPoint (0:ℝ) 50 < dewPoint (0:ℝ) 100 := by
  apply dewpoint_mono_humidity 0 50 100 (by norm_num) (by norm_num)
  have hvp : vaporPressure (0:ℝ) = 101.325 * 0.0060273 := by
    rw [vp_ice 0 (lt_irrefl _)]
    unfold expIce
    have z : (273.16:ℝ) / (0 + 273.16) = 1 := by norm_num
    rw [z]
    have : (-9.09718:ℝ) * (1 - 1) + -3.56654 * Real.logb 10 1 + 0.876793 * (1 - 1 / 1) + Real.logb 10 0.0060273
        = Real.logb 10 0.0060273 := by
      rw [Real.logb_one]; norm_num
    rw [this, Real.rpow_logb (by norm_num) (by norm_num) (by norm_num)]
  rw [hvp]
  have : Real.log (101.325 * 0.0060273 * 100 / 100 / 0.6108) < 0 := by
    apply Real.log_neg (by norm_num) (by norm_num)
  linarith

end OW.Props.C20

