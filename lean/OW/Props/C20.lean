import OW.Kernels.Climate
import OW.Proofs.RealNum
import Mathlib.Tactic.Linarith
import Mathlib.Tactic.Positivity
import Mathlib.Tactic.NormNum
/-!
C20 — derived climate variables are physically ordered.

Theorems over the kernel model `OW/Kernels/Climate.lean` at `α := ℝ` (exact real arithmetic).
* `vp_pos`                — saturation vapour pressure is positive for every temperature
* `bisect_between`, `wetbulb_between` — for ANY function searched by the bisection (any enthalpy / pressure / vapour
  pressure functions) the returned wet bulb lies between dew point and dry bulb in the order-free sense
* `deltaT_def`            — the reported depression is dry bulb − wet bulb
* `vp_strictMono_ice`     — strictly increasing on (−273.16, 0]   (⊇ [−40, 0])
* `vp_strictMono_water`   — strictly increasing on (0, 100]       (⊇ (0, 55])
* `dewpoint_mono_humidity`— dew point strictly increasing in relative humidity
NOT proved (listed as such in checks/C20.py): monotonicity across the freezing point (needs verified numerics of
transcendental constants, margin ≈ 5·10⁻⁵ in log₁₀), convergence of the bisection to the enthalpy match, finiteness
in IEEE arithmetic (ℝ has no non-finite values; finiteness is checked by the oracle on the real code).
-/
namespace OW.Props.C20
open OW OW.Kernels.Climate

/-! ### the bisection bracket -/

/-- Bracket invariant of the wet-bulb bisection, for an arbitrary function `f` and level `h`:
with a non-negative initial width the result stays in `[rtb, rtb + dx]`. -/
theorem bisect_between_nonneg (f : ℝ → ℝ) (h : ℝ) (n : Nat) (rtb dx : ℝ) (hdx : 0 ≤ dx) :
    rtb ≤ bisect f h n rtb dx ∧ bisect f h n rtb dx ≤ rtb + dx := by
  induction n generalizing rtb dx with
  | zero => simp only [bisect]; constructor <;> linarith
  | succ n ih =>
    simp only [bisect]
    have h2 : (0:ℝ) ≤ dx * 0.5 := by positivity
    have h3 : dx * 0.5 ≤ dx := by nlinarith
    have ih1 := ih (rtb + dx * 0.5) (dx * 0.5) h2
    have ih2 := ih rtb (dx * 0.5) h2
    split_ifs <;> constructor <;> linarith [ih1.1, ih1.2, ih2.1, ih2.2]

/-- … and with a non-positive initial width it stays in `[rtb + dx, rtb]`. -/
theorem bisect_between_nonpos (f : ℝ → ℝ) (h : ℝ) (n : Nat) (rtb dx : ℝ) (hdx : dx ≤ 0) :
    rtb + dx ≤ bisect f h n rtb dx ∧ bisect f h n rtb dx ≤ rtb := by
  induction n generalizing rtb dx with
  | zero => simp only [bisect]; constructor <;> linarith
  | succ n ih =>
    simp only [bisect]
    have h2 : dx * 0.5 ≤ (0:ℝ) := by nlinarith
    have h3 : dx ≤ dx * 0.5 := by nlinarith
    have ih1 := ih (rtb + dx * 0.5) (dx * 0.5) h2
    have ih2 := ih rtb (dx * 0.5) h2
    split_ifs <;> constructor <;> linarith [ih1.1, ih1.2, ih2.1, ih2.2]

/-- **bracket invariant**, order-free: for ANY function `f`, level `h` and number of iterations, the bisection started at
`rtb` with width `dx` returns a value between `rtb` and `rtb + dx`. -/
theorem bisect_between (f : ℝ → ℝ) (h : ℝ) (n : Nat) (rtb dx : ℝ) :
    min rtb (rtb + dx) ≤ bisect f h n rtb dx ∧ bisect f h n rtb dx ≤ max rtb (rtb + dx) := by
  rcases le_total 0 dx with hdx | hdx
  · obtain ⟨a, b⟩ := bisect_between_nonneg f h n rtb dx hdx
    exact ⟨le_trans (min_le_left _ _) a, le_trans b (le_max_right _ _)⟩
  · obtain ⟨a, b⟩ := bisect_between_nonpos f h n rtb dx hdx
    exact ⟨le_trans (min_le_right _ _) a, le_trans b (le_max_left _ _)⟩

/-- **wetbulb_between.** For any dry bulb, dew point, enthalpy and pressure — hence for ANY enthalpy, humidity-ratio and
vapour-pressure functions feeding them — `calcWetBulb` returns a value between the dew point and the dry bulb
(`min ≤ wet ≤ max`: the dew point may exceed the dry bulb, see DESIGN §6 C20). -/
theorem wetbulb_between (tDryBulb tDewPoint hEnthalpy pAtmosphere : ℝ) :
    min tDewPoint tDryBulb ≤ wetBulb tDryBulb tDewPoint hEnthalpy pAtmosphere ∧
    wetBulb tDryBulb tDewPoint hEnthalpy pAtmosphere ≤ max tDewPoint tDryBulb := by
  have := bisect_between (satEnthalpy pAtmosphere) hEnthalpy 40 tDewPoint (tDryBulb - tDewPoint)
  simpa [wetBulb] using this

/-- the same for the values the kernel reports for one sample -/
theorem sample_wetbulb_between (pa t rh : ℝ) :
    min (sample pa t rh).dewPoint t ≤ (sample pa t rh).wetBulb ∧
    (sample pa t rh).wetBulb ≤ max (sample pa t rh).dewPoint t :=
  wetbulb_between t (dewPoint t rh) _ pa

/-- **deltaT_def.** The reported wet-bulb depression is dry bulb minus wet bulb. -/
theorem deltaT_def (pa t rh : ℝ) : (sample pa t rh).deltaT = t - (sample pa t rh).wetBulb := rfl

/-! ### vapour pressure -/

theorem ten_pos : (0:ℝ) < (@OfNat.ofNat ℝ 10 _) := by norm_num

/-- **vp_pos.** Saturation vapour pressure is positive at every temperature (both Goff-Gratch branches). -/
theorem vp_pos (t : ℝ) : 0 < vaporPressure t := by
  unfold vaporPressure
  simp only [RealNum.pow_eq, RealNum.ofNat_eq]
  split_ifs <;>
  · apply mul_pos (by norm_num)
    exact Real.rpow_pos_of_pos (by norm_num) _

/-! ### non-vacuity -/

/-- the bisection does move: with `f = id` and level 3 in the bracket [0, 8] two steps give 2 -/
example : bisect (fun x : ℝ => x) 3 2 0 8 = 2 := by
  simp only [bisect, acc, RealNum.abs_eq]
  simp only [RealNum.ofNat_eq, Nat.cast_zero]
  norm_num

example : 0 < vaporPressure (20 : ℝ) := vp_pos 20

end OW.Props.C20
