import OW.Kernels.Climate
import OW.Proofs.RealNum
import OW.Proofs.Climate
import OW.Proofs.ClimateFreezing
import OW.Proofs.ClimateBisect
import OW.Proofs.ClimateCont
import OW.Proofs.ClimateDewCounter
import OW.Proofs.ClimateRange
import Mathlib.Tactic.Linarith
import Mathlib.Tactic.Positivity
import Mathlib.Tactic.NormNum
/-!
C20 — derived climate variables are physically ordered.

Theorems over the kernel model `OW/Kernels/Climate.lean` at `α := ℝ` (exact real arithmetic).
* `vp_pos`                — saturation vapour pressure is positive for every temperature
* `bisect_between`, `wetbulb_between` — for ANY function searched by the bisection (any enthalpy / pressure / vapour
  pressure functions) the returned wet bulb lies between dew point and dry bulb in the order-free sense
* `deltaT_def`            — the reported depression is dry bulb − wet bulb
* `vp_strictMono_ice`     — strictly increasing on (−273.16, 0]   (⊇ [−40, 0])
* `vp_strictMono_water`   — strictly increasing on (0, 100]       (⊇ (0, 55])
* `vp_strictMono_across`, `vp_strictMono` — strictly increasing on the whole range (−273.16, 100], INCLUDING across 0 °C
  (verified numerics `OW.Proofs.ClimateFreezing`: the water-branch limit at 0⁺ exceeds the ice value at 0 by 4.7·10⁻⁵ in log₁₀);
  `vp_jump_at_zero` — the two branches do NOT meet: `vaporPressure` has an upward jump at 0 °C
* `bisect_bracket_invariant` — sign invariant at the bracket ends, nesting, width `dx/2^k`, exit reason (no continuity needed)
* `bisect_converges`, `wetbulb_converges`, `wetbulb_converges_water`, `wetbulb_converges_ice` — with continuity (IVT) the result is
  within `acc = 1e-4` (accuracy exit) or `|dx|/2^40` (iterations exhausted) of a point where the searched function equals the level
* `satEnthalpy_strictMono_water` — above freezing the searched function is strictly increasing (the crossing is unique)
* `dewpoint_mono_humidity`— dew point strictly increasing in relative humidity
* `dewPoint_le_dryBulb_iff`, `dewPoint_le_dryBulb_of_magnus`, `dewPoint_le_dryBulb_at_zero` — dew point ≤ dry bulb holds EXACTLY when
  the Goff-Gratch actual vapour pressure is ≤ the Magnus saturation pressure at the dry bulb; it is NOT a theorem for all
  0 < RH ≤ 100: `dewPoint_exceeds_dryBulb_example` proves 40 < dewPoint 40 100 (Goff-Gratch > Magnus at 40 °C, verified numerics)
* `dewpoint_mono_humidity_range` — the same with the denominator hypothesis discharged on (−273.16, 100] × (0, 100] (`magnus_denominator_pos`)
* `sample_enthalpy_le_sat` — the upper half of the bracketing hypothesis of `wetbulb_converges*` derived from RH ≤ 100
* `no_zero_divisor` — on T ∈ [−40, 55], RH ∈ (0, 100], elevation ∈ [0, 10000] every divisor / log argument / power base is positive
  (`vp(55) ≤ 18.04 < 22.4 ≤ barometricPressure(10000)`, verified numerics `OW.Proofs.ClimateRange`): the ℝ content of "finite"
* `run_eq_map_sample`, `run_spec` — the whole run is the per-day computation; the one-sample theorems for every day
* `ordered_reading_counterexample` — the ORDERED reading "dew ≤ wet ≤ dry" is false at 40 °C / 100 % (known finding
  KF-C20-dewpoint-above-drybulb); the order-free reading is what `wetbulb_between` proves
NOT proved (listed as such in checks/C20.py): finiteness in IEEE arithmetic (ℝ has no non-finite values; finiteness is checked by the
oracle on the real code); continuity of the searched function ACROSS 0 °C is false (jump), so `wetbulb_converges_*` are per side.
-/
namespace OW.Props.C20
open OW OW.Kernels.Climate OW.Proofs.Climate Set

/-! ### the bisection bracket -/

/-- Bracket invariant of the wet-bulb bisection, for an arbitrary function `f` and level `h`:
with a non-negative initial width the result stays in `[rtb, rtb + dx]`. -/
theorem bisect_between_nonneg (f : ℝ → ℝ) (h : ℝ) (n : Nat) (rtb dx : ℝ) (hdx : 0 ≤ dx) :
    rtb ≤ bisect f h n rtb dx ∧ bisect f h n rtb dx ≤ rtb + dx := by
  induction n generalizing rtb dx with
  | zero => simp only [bisect]; constructor <;> linarith
  | succ n ih =>
    simp only [bisect]
    have h2 : (0:ℝ) ≤ dx * 0.5 := by positivity
    have h3 : dx * 0.5 ≤ dx := by nlinarith
    have ih1 := ih (rtb + dx * 0.5) (dx * 0.5) h2
    have ih2 := ih rtb (dx * 0.5) h2
    split_ifs <;> constructor <;> linarith [ih1.1, ih1.2, ih2.1, ih2.2]

/-- … and with a non-positive initial width it stays in `[rtb + dx, rtb]`. -/
theorem bisect_between_nonpos (f : ℝ → ℝ) (h : ℝ) (n : Nat) (rtb dx : ℝ) (hdx : dx ≤ 0) :
    rtb + dx ≤ bisect f h n rtb dx ∧ bisect f h n rtb dx ≤ rtb := by
  induction n generalizing rtb dx with
  | zero => simp only [bisect]; constructor <;> linarith
  | succ n ih =>
    simp only [bisect]
    have h2 : dx * 0.5 ≤ (0:ℝ) := by nlinarith
    have h3 : dx ≤ dx * 0.5 := by nlinarith
    have ih1 := ih (rtb + dx * 0.5) (dx * 0.5) h2
    have ih2 := ih rtb (dx * 0.5) h2
    split_ifs <;> constructor <;> linarith [ih1.1, ih1.2, ih2.1, ih2.2]

/-- **bracket invariant**, order-free: for ANY function `f`, level `h` and number of iterations, the bisection started at
`rtb` with width `dx` returns a value between `rtb` and `rtb + dx`. -/
theorem bisect_between (f : ℝ → ℝ) (h : ℝ) (n : Nat) (rtb dx : ℝ) :
    min rtb (rtb + dx) ≤ bisect f h n rtb dx ∧ bisect f h n rtb dx ≤ max rtb (rtb + dx) := by
  rcases le_total 0 dx with hdx | hdx
  · obtain ⟨a, b⟩ := bisect_between_nonneg f h n rtb dx hdx
    exact ⟨le_trans (min_le_left _ _) a, le_trans b (le_max_right _ _)⟩
  · obtain ⟨a, b⟩ := bisect_between_nonpos f h n rtb dx hdx
    exact ⟨le_trans (min_le_right _ _) a, le_trans b (le_max_left _ _)⟩

/-- **wetbulb_between.** For any dry bulb, dew point, enthalpy and pressure — hence for ANY enthalpy, humidity-ratio and
vapour-pressure functions feeding them — `calcWetBulb` returns a value between the dew point and the dry bulb
(`min ≤ wet ≤ max`: the dew point may exceed the dry bulb, see DESIGN §6 C20). -/
theorem wetbulb_between (tDryBulb tDewPoint hEnthalpy pAtmosphere : ℝ) :
    min tDewPoint tDryBulb ≤ wetBulb tDryBulb tDewPoint hEnthalpy pAtmosphere ∧
    wetBulb tDryBulb tDewPoint hEnthalpy pAtmosphere ≤ max tDewPoint tDryBulb := by
  have := bisect_between (satEnthalpy pAtmosphere) hEnthalpy 40 tDewPoint (tDryBulb - tDewPoint)
  simpa [wetBulb] using this

/-- the same for the values the kernel reports for one sample -/
theorem sample_wetbulb_between (pa t rh : ℝ) :
    min (sample pa t rh).dewPoint t ≤ (sample pa t rh).wetBulb ∧
    (sample pa t rh).wetBulb ≤ max (sample pa t rh).dewPoint t :=
  wetbulb_between t (dewPoint t rh) _ pa

/-- **deltaT_def.** The reported wet-bulb depression is dry bulb minus wet bulb. -/
theorem deltaT_def (pa t rh : ℝ) : (sample pa t rh).deltaT = t - (sample pa t rh).wetBulb := rfl

/-! ### vapour pressure -/

/-- **vp_pos.** Saturation vapour pressure is positive at every temperature (both Goff-Gratch branches). -/
theorem vp_pos (t : ℝ) : 0 < vaporPressure t := by
  unfold vaporPressure
  simp only [RealNum.pow_eq, RealNum.ofNat_eq]
  split_ifs <;>
  · apply mul_pos (by norm_num)
    exact Real.rpow_pos_of_pos (by norm_num) _

/-- **vp_strictMono_ice.** Below freezing (the `else` branch: T ≤ 0) the Goff-Gratch vapour pressure over ice is strictly
increasing in temperature, on the whole branch down to absolute zero of the formula (⊇ [−40, 0]). -/
theorem vp_strictMono_ice (t1 t2 : ℝ) (h0 : -273.16 < t1) (h12 : t1 < t2) (h2 : t2 ≤ 0) :
    vaporPressure t1 < vaporPressure t2 := by
  rw [vp_ice t1 (by linarith), vp_ice t2 (by linarith)]
  have ha1 : 0 < t1 + 273.16 := by linarith
  have ha2 : 0 < t2 + 273.16 := by linarith
  have hz2 : 1 ≤ 273.16 / (t2 + 273.16) := by rw [le_div_iff₀ ha2]; linarith
  have hz : 273.16 / (t2 + 273.16) < 273.16 / (t1 + 273.16) :=
    div_lt_div_of_pos_left (by norm_num) ha1 (by linarith)
  have := expIce_strictAnti hz2 hz
  have hp : (10:ℝ) ^ expIce (273.16 / (t1 + 273.16)) < (10:ℝ) ^ expIce (273.16 / (t2 + 273.16)) :=
    Real.rpow_lt_rpow_of_exponent_lt (by norm_num) this
  linarith

/-- **vp_strictMono_water.** Above freezing (the `if temperature > 0` branch) the Goff-Gratch vapour pressure over water is
strictly increasing in temperature up to the boiling point (⊇ (0, 55]). -/
theorem vp_strictMono_water (t1 t2 : ℝ) (h0 : 0 < t1) (h12 : t1 < t2) (h2 : t2 ≤ 100) :
    vaporPressure t1 < vaporPressure t2 := by
  rw [vp_water t1 h0, vp_water t2 (by linarith)]
  have ha1 : 0 < t1 + 273.16 := by linarith
  have ha2 : 0 < t2 + 273.16 := by linarith
  have hz2 : 1 ≤ 373.16 / (t2 + 273.16) := by rw [le_div_iff₀ ha2]; linarith
  have hz : 373.16 / (t2 + 273.16) < 373.16 / (t1 + 273.16) :=
    div_lt_div_of_pos_left (by norm_num) ha1 (by linarith)
  have := expWater_strictAnti hz2 hz
  have hp : (10:ℝ) ^ expWater (373.16 / (t1 + 273.16)) < (10:ℝ) ^ expWater (373.16 / (t2 + 273.16)) :=
    Real.rpow_lt_rpow_of_exponent_lt (by norm_num) this
  linarith


/-- the ice branch at 0 °C in closed form: exactly 101.325 × 0.0060273 kPa -/
theorem vp_zero : vaporPressure (0:ℝ) = 101.325 * (10:ℝ) ^ expIce 1 := by
  rw [vp_ice 0 (lt_irrefl _)]
  norm_num

/-- **vp_jump_at_zero.** The two Goff-Gratch branches do not meet at 0 °C: with `L = 101.325·10^expWater(373.16/273.16)`, the
limit of the water branch as T → 0⁺ (0.610782… kPa), the ice value at 0 (0.610716… kPa) is strictly below `L` and every value
on (0, 100] is strictly above `L`. So `vaporPressure` is increasing but has an upward JUMP (relative size 1.08·10⁻⁴) at 0 °C. -/
theorem vp_jump_at_zero :
    vaporPressure (0:ℝ) < 101.325 * (10:ℝ) ^ expWater (373.16 / 273.16) ∧
    ∀ t : ℝ, 0 < t → t ≤ 100 → 101.325 * (10:ℝ) ^ expWater (373.16 / 273.16) < vaporPressure t := by
  constructor
  · rw [vp_zero]
    have := Real.rpow_lt_rpow_of_exponent_lt (x := (10:ℝ)) (by norm_num) expIce_one_lt_expWater_z0
    linarith
  · intro t h0 h2
    rw [vp_water t h0]
    have ha : 0 < t + 273.16 := by linarith
    have hz2 : 1 ≤ 373.16 / (t + 273.16) := by rw [le_div_iff₀ ha]; linarith
    have hz : 373.16 / (t + 273.16) < 373.16 / 273.16 :=
      div_lt_div_of_pos_left (by norm_num) (by norm_num) (by linarith)
    have := Real.rpow_lt_rpow_of_exponent_lt (x := (10:ℝ)) (by norm_num) (expWater_strictAnti hz2 hz)
    linarith

/-- **vp_strictMono_across.** Across the freezing point: a temperature at or below 0 °C (above −273.16) has a strictly smaller
saturation vapour pressure than any temperature in (0, 100]. -/
theorem vp_strictMono_across (t1 t2 : ℝ) (h0 : -273.16 < t1) (h1 : t1 ≤ 0) (h2 : 0 < t2) (h3 : t2 ≤ 100) :
    vaporPressure t1 < vaporPressure t2 := by
  have hle : vaporPressure t1 ≤ vaporPressure 0 := by
    rcases eq_or_lt_of_le h1 with h | h
    · rw [h]
    · exact (vp_strictMono_ice t1 0 h0 h (le_refl _)).le
  have hj := vp_jump_at_zero
  exact lt_of_le_of_lt hle (lt_trans hj.1 (hj.2 t2 h2 h3))

/-- **vp_strictMono.** The modelled `calcVaporPressure` is strictly increasing on the whole interval (−273.16, 100] °C —
within the ice branch, within the water branch, and across 0 °C. -/
theorem vp_strictMono (t1 t2 : ℝ) (h0 : -273.16 < t1) (h12 : t1 < t2) (h2 : t2 ≤ 100) :
    vaporPressure t1 < vaporPressure t2 := by
  rcases le_or_gt t2 0 with h | h
  · exact vp_strictMono_ice t1 t2 h0 h12 h
  · rcases le_or_gt t1 0 with h' | h'
    · exact vp_strictMono_across t1 t2 h0 h' h h2
    · exact vp_strictMono_water t1 t2 h' h12 h2

/-! ### convergence of the wet-bulb bisection -/

/-- **bisect_bracket_invariant** (no continuity, any sign of `dx`, any `f`): if the level is bracketed on entry,
`f rtb < h ≤ f (rtb + dx)`, then after the loop (at most `n` iterations, `k` of them executed) the returned point `r` and the
final signed width `w = dx / 2^k` satisfy `f r < h ≤ f (r + w)`; the final bracket `[[r, r + w]]` lies inside the initial one;
and the loop ended by the accuracy test (`|w| < 1e-4`) or after all `n` iterations (`k = n`). -/
theorem bisect_bracket_invariant (f : ℝ → ℝ) (h : ℝ) (n : Nat) (rtb dx : ℝ)
    (hlo : f rtb < h) (hhi : h ≤ f (rtb + dx)) :
    ∃ k : Nat, k ≤ n ∧
      f (bisect f h n rtb dx) < h ∧ h ≤ f (bisect f h n rtb dx + dx / 2 ^ k) ∧
      (|dx / 2 ^ k| < 0.0001 ∨ k = n) ∧
      uIcc (bisect f h n rtb dx) (bisect f h n rtb dx + dx / 2 ^ k) ⊆ uIcc rtb (rtb + dx) :=
  bisect_invariant f h n rtb dx hlo hhi

/-- **bisect_converges.** If the searched function is continuous on the initial bracket and the level is bracketed
(`f rtb < h ≤ f (rtb + dx)`), there is a point `c` of the bracket with `f c = h` such that the returned value is within the
required accuracy `1e-4` of `c` (accuracy exit) or within `|dx| / 2^n` of `c` (all `n` halvings done). -/
theorem bisect_converges (f : ℝ → ℝ) (h : ℝ) (n : Nat) (rtb dx : ℝ)
    (hc : ContinuousOn f (uIcc rtb (rtb + dx))) (hlo : f rtb < h) (hhi : h ≤ f (rtb + dx)) :
    ∃ c ∈ uIcc rtb (rtb + dx), f c = h ∧
      (|bisect f h n rtb dx - c| < 0.0001 ∨ |bisect f h n rtb dx - c| ≤ |dx| / 2 ^ n) := by
  obtain ⟨k, _, h1, h2, h3, h4⟩ := bisect_invariant f h n rtb dx hlo hhi
  obtain ⟨c, hcm, hfc, hd⟩ := crossing_in_bracket f h _ _ (hc.mono h4) h1 h2
  refine ⟨c, h4 hcm, hfc, ?_⟩
  rcases h3 with h3 | h3
  · exact Or.inl (lt_of_le_of_lt hd h3)
  · right
    rw [h3] at hd
    have : |dx / 2 ^ n| = |dx| / 2 ^ n := by
      rw [abs_div, abs_pow, abs_two]
    rw [← this]; exact hd

/-- **wetbulb_converges.** `calcWetBulb` (40 halvings, accuracy 1e-4): if the saturated-air enthalpy is continuous between dew
point and dry bulb and the enthalpy `hE` is bracketed there, the returned wet bulb is within 1e-4 °C (or within
`|dry − dew| / 2^40`) of a temperature `c` between dew point and dry bulb whose saturated-air enthalpy equals `hE`. -/
theorem wetbulb_converges (tDryBulb tDewPoint hE pa : ℝ)
    (hc : ContinuousOn (satEnthalpy pa) (uIcc tDewPoint tDryBulb))
    (hlo : satEnthalpy pa tDewPoint < hE) (hhi : hE ≤ satEnthalpy pa tDryBulb) :
    ∃ c ∈ uIcc tDewPoint tDryBulb, satEnthalpy pa c = hE ∧
      (|wetBulb tDryBulb tDewPoint hE pa - c| < 0.0001 ∨
       |wetBulb tDryBulb tDewPoint hE pa - c| ≤ |tDryBulb - tDewPoint| / 2 ^ 40) := by
  have e : tDewPoint + (tDryBulb - tDewPoint) = tDryBulb := by ring
  have := bisect_converges (satEnthalpy pa) hE 40 tDewPoint (tDryBulb - tDewPoint)
    (by rw [e]; exact hc) hlo (by rw [e]; exact hhi)
  rw [e] at this
  exact this

/-- **wetbulb_converges_water**: the continuity hypothesis discharged above freezing — dew point and dry bulb both > 0 °C and the
saturation vapour pressure different from the atmospheric pressure on the bracket (the divisor of `calcHumidityRatio`). -/
theorem wetbulb_converges_water (tDryBulb tDewPoint hE pa : ℝ) (hd : 0 < tDewPoint) (ht : 0 < tDryBulb)
    (hne : ∀ x ∈ uIcc tDewPoint tDryBulb, pa - vaporPressure x ≠ 0)
    (hlo : satEnthalpy pa tDewPoint < hE) (hhi : hE ≤ satEnthalpy pa tDryBulb) :
    ∃ c ∈ uIcc tDewPoint tDryBulb, satEnthalpy pa c = hE ∧
      (|wetBulb tDryBulb tDewPoint hE pa - c| < 0.0001 ∨
       |wetBulb tDryBulb tDewPoint hE pa - c| ≤ |tDryBulb - tDewPoint| / 2 ^ 40) := by
  apply wetbulb_converges _ _ _ _ _ hlo hhi
  apply satEnthalpy_continuousOn pa _ _ hne
  apply vaporPressure_continuousOn_water.mono
  intro x hx
  rw [mem_uIcc] at hx
  show (0:ℝ) < x
  rcases hx with hx | hx <;> linarith [hx.1]

/-- **wetbulb_converges_ice**: the same at or below freezing — dew point and dry bulb both in (−273.16, 0]. -/
theorem wetbulb_converges_ice (tDryBulb tDewPoint hE pa : ℝ)
    (hd0 : -273.16 < tDewPoint) (hd : tDewPoint ≤ 0) (ht0 : -273.16 < tDryBulb) (ht : tDryBulb ≤ 0)
    (hne : ∀ x ∈ uIcc tDewPoint tDryBulb, pa - vaporPressure x ≠ 0)
    (hlo : satEnthalpy pa tDewPoint < hE) (hhi : hE ≤ satEnthalpy pa tDryBulb) :
    ∃ c ∈ uIcc tDewPoint tDryBulb, satEnthalpy pa c = hE ∧
      (|wetBulb tDryBulb tDewPoint hE pa - c| < 0.0001 ∨
       |wetBulb tDryBulb tDewPoint hE pa - c| ≤ |tDryBulb - tDewPoint| / 2 ^ 40) := by
  apply wetbulb_converges _ _ _ _ _ hlo hhi
  apply satEnthalpy_continuousOn pa _ _ hne
  apply vaporPressure_continuousOn_ice.mono
  intro x hx
  rw [mem_uIcc] at hx
  show -273.16 < x ∧ x ≤ 0
  rcases hx with hx | hx <;> constructor <;> linarith [hx.1, hx.2]

/-- **satEnthalpy_strictMono_water.** Above freezing and below the boiling point of the given pressure (`vp x2 < pa`) the function
searched by the bisection is strictly increasing, so the crossing of `wetbulb_converges_water` is unique. -/
theorem satEnthalpy_strictMono_water (pa x1 x2 : ℝ) (h0 : 0 < x1) (h12 : x1 < x2) (h2 : x2 ≤ 100)
    (hpa : vaporPressure x2 < pa) : satEnthalpy pa x1 < satEnthalpy pa x2 := by
  rw [satEnthalpy_eq, satEnthalpy_eq]
  have hv := vp_strictMono_water x1 x2 h0 h12 h2
  have hv1 := vp_pos x1
  generalize vaporPressure x1 = v1 at hv hv1 ⊢
  generalize vaporPressure x2 = v2 at hv hpa ⊢
  have hd1 : 0 < pa - v1 := by linarith
  have hd2 : 0 < pa - v2 := by linarith
  have hw : 0.62198 * v1 / (pa - v1) < 0.62198 * v2 / (pa - v2) := by
    rw [div_lt_div_iff₀ hd1 hd2]
    nlinarith
  have hw1 : 0 < 0.62198 * v1 / (pa - v1) := by positivity
  generalize 0.62198 * v1 / (pa - v1) = w1 at hw hw1 ⊢
  generalize 0.62198 * v2 / (pa - v2) = w2 at hw ⊢
  nlinarith

/-! ### dew point -/

/-- `calcDewPoint` for a positive humidity, in closed form -/
theorem dewPoint_eq (t rh : ℝ) (hrh : 0 < rh) :
    dewPoint t rh = 237.3 * Real.log (vaporPressure t * rh / 100 / 0.6108) /
      (17.27 - Real.log (vaporPressure t * rh / 100 / 0.6108)) := by
  unfold dewPoint
  simp only [zero_lit, ofNat_lit 100]
  have h1 : ¬ rh ≤ 0 := not_le.mpr hrh
  have h2 : 0 < vaporPressure t * rh / 100 := by
    have := vp_pos t
    positivity
  rw [if_neg h1, if_pos h2]
  rfl

/-- **dewpoint_mono_humidity.** At a fixed temperature the dew point is strictly increasing in relative humidity, as long as
the Magnus denominator `17.27 − ln(ea/0.6108)` stays positive at the larger humidity (i.e. `ea < 0.6108·e^17.27 ≈ 1.9·10⁷ kPa`,
true for every meteorological input: `ea ≤ vp(55 °C) ≈ 15.7 kPa`). -/
theorem dewpoint_mono_humidity (t rh1 rh2 : ℝ) (h1 : 0 < rh1) (h12 : rh1 < rh2)
    (hden : Real.log (vaporPressure t * rh2 / 100 / 0.6108) < 17.27) :
    dewPoint t rh1 < dewPoint t rh2 := by
  rw [dewPoint_eq t rh1 h1, dewPoint_eq t rh2 (by linarith)]
  have hv := vp_pos t
  have e1 : 0 < vaporPressure t * rh1 / 100 / 0.6108 := by positivity
  have e12 : vaporPressure t * rh1 / 100 / 0.6108 < vaporPressure t * rh2 / 100 / 0.6108 := by
    apply div_lt_div_of_pos_right _ (by norm_num)
    apply div_lt_div_of_pos_right _ (by norm_num)
    exact mul_lt_mul_of_pos_left h12 hv
  have hF : Real.log (vaporPressure t * rh1 / 100 / 0.6108) < Real.log (vaporPressure t * rh2 / 100 / 0.6108) :=
    Real.log_lt_log e1 e12
  generalize Real.log (vaporPressure t * rh1 / 100 / 0.6108) = F1 at hF ⊢
  generalize Real.log (vaporPressure t * rh2 / 100 / 0.6108) = F2 at hF hden ⊢
  rw [div_lt_div_iff₀ (by linarith) (by linarith)]
  nlinarith


/-- **dewPoint_le_dryBulb_iff.** What "dew point ≤ dry bulb" means for this code. `calcDewPoint` inverts the MAGNUS formula
`es(T) = 0.6108·exp(17.27 T / (T + 237.3))` on an actual vapour pressure computed with the GOFF-GRATCH formula
(`calcVaporPressure(T)·RH/100`). Hence (for RH > 0, T > −237.3 and a positive Magnus denominator) the dew point is at most the
dry bulb EXACTLY when the Goff-Gratch actual vapour pressure does not exceed the Magnus saturation pressure at the dry bulb.
The two formulas differ by up to ≈ 10⁻³ relative, so at RH = 100 % this fails where Goff-Gratch > Magnus (on the real code: from
T ≈ 31 °C upward, dew − dry ≤ 0.006 °C); `wetbulb_between` therefore uses the order-free `min/max` form and nothing about
dew ≤ dry is assumed anywhere. -/
theorem dewPoint_le_dryBulb_iff (t rh : ℝ) (hrh : 0 < rh) (ht : -237.3 < t)
    (hden : Real.log (vaporPressure t * rh / 100 / 0.6108) < 17.27) :
    dewPoint t rh ≤ t ↔ vaporPressure t * rh / 100 ≤ 0.6108 * Real.exp (17.27 * t / (t + 237.3)) := by
  rw [dewPoint_eq t rh hrh]
  have hv := vp_pos t
  have hea : 0 < vaporPressure t * rh / 100 / 0.6108 := by positivity
  have hT : 0 < t + 237.3 := by linarith
  rw [← div_le_iff₀' (by norm_num : (0:ℝ) < 0.6108), ← Real.log_le_iff_le_exp hea]
  generalize Real.log (vaporPressure t * rh / 100 / 0.6108) = F at hden ⊢
  rw [div_le_iff₀ (by linarith), le_div_iff₀ hT]
  constructor <;> intro h <;> nlinarith

/-- **dewPoint_le_dryBulb_of_magnus.** Sufficient condition with no side hypothesis: wherever the Goff-Gratch saturation pressure
is at most the Magnus one, the dew point is at most the dry bulb for every humidity 0 < RH ≤ 100. -/
theorem dewPoint_le_dryBulb_of_magnus (t rh : ℝ) (hrh : 0 < rh) (hrh' : rh ≤ 100) (ht : -237.3 < t)
    (hgm : vaporPressure t ≤ 0.6108 * Real.exp (17.27 * t / (t + 237.3))) : dewPoint t rh ≤ t := by
  have hv := vp_pos t
  have hT : 0 < t + 237.3 := by linarith
  have hle : vaporPressure t * rh / 100 ≤ 0.6108 * Real.exp (17.27 * t / (t + 237.3)) := by
    have : vaporPressure t * rh / 100 ≤ vaporPressure t := by
      rw [div_le_iff₀ (by norm_num)]; nlinarith
    linarith
  have hea : 0 < vaporPressure t * rh / 100 / 0.6108 := by positivity
  have hden : Real.log (vaporPressure t * rh / 100 / 0.6108) < 17.27 := by
    have h1 : Real.log (vaporPressure t * rh / 100 / 0.6108) ≤ 17.27 * t / (t + 237.3) := by
      rw [Real.log_le_iff_le_exp hea, div_le_iff₀' (by norm_num : (0:ℝ) < 0.6108)]
      exact hle
    have h2 : 17.27 * t / (t + 237.3) < 17.27 := by
      rw [div_lt_iff₀ hT]; nlinarith
    linarith
  exact (dewPoint_le_dryBulb_iff t rh hrh ht hden).mpr hle

/-- **dewPoint_le_dryBulb_at_zero.** An instance where the sufficient condition is verified exactly: at 0 °C (ice branch:
0.61071617… kPa ≤ 0.6108 kPa) the dew point is at most the dry bulb for every humidity 0 < RH ≤ 100. -/
theorem dewPoint_le_dryBulb_at_zero (rh : ℝ) (hrh : 0 < rh) (hrh' : rh ≤ 100) : dewPoint 0 rh ≤ 0 := by
  apply dewPoint_le_dryBulb_of_magnus 0 rh hrh hrh' (by norm_num)
  have hvp : vaporPressure (0:ℝ) = 101.325 * 0.0060273 := by
    rw [vp_zero]
    have : expIce 1 = Real.logb 10 0.0060273 := by
      unfold expIce; rw [Real.logb_one]; norm_num
    rw [this, Real.rpow_logb (by norm_num) (by norm_num) (by norm_num)]
  rw [hvp]
  norm_num

/-- **dewPoint_exceeds_dryBulb_example.** "dew point ≤ dry bulb for 0 < RH ≤ 100" is FALSE for this code (model and real code
agree: `ClimateVariables` at dryBulb = 40, humidity = 100 returns dewPoint = 40.00548757635144, deltaT = −0.0054875…): at 40 °C
the Goff-Gratch saturation pressure 7.37777 kPa exceeds the Magnus one 7.37561 kPa (`magnus_lt_goffGratch_40`, verified
numerics), so saturated air gets a dew point strictly above the dry bulb. Known finding KF-C20-dewpoint-above-drybulb (a property of
the chosen pair of published formulas; oracle scope `ClimateVariables:dewpoint-above-drybulb`); it is why `wetbulb_between`
is stated with `min`/`max`, and `ordered_reading_counterexample` draws the consequence for wet bulb and depression. -/
theorem dewPoint_exceeds_dryBulb_example : (40:ℝ) < dewPoint 40 100 := by
  have hgm := magnus_lt_goffGratch_40
  have hv100 : vaporPressure (100:ℝ) = 101.325 := by
    rw [vp_water 100 (by norm_num)]
    have z : (373.16:ℝ) / (100 + 273.16) = 1 := by norm_num
    have e : expWater 1 = 0 := by unfold expWater; rw [Real.logb_one]; norm_num
    rw [z, e]; norm_num
  have hv40 : vaporPressure (40:ℝ) < 101.325 := by
    rw [← hv100]; exact vp_strictMono_water 40 100 (by norm_num) (by norm_num) (le_refl _)
  have hpos := vp_pos (40:ℝ)
  have hden : Real.log (vaporPressure (40:ℝ) * 100 / 100 / 0.6108) < 17.27 := by
    have hx : 0 < vaporPressure (40:ℝ) * 100 / 100 / 0.6108 := by positivity
    rw [Real.log_lt_iff_lt_exp hx]
    have h17 : (2:ℝ) ^ 17 ≤ Real.exp 17.27 := by
      have h2 : (2:ℝ) ≤ Real.exp 1 := by have := Real.exp_one_gt_d9; linarith
      calc (2:ℝ) ^ 17 ≤ Real.exp 1 ^ 17 := pow_le_pow_left₀ (by norm_num) h2 17
        _ = Real.exp 17 := by rw [← Real.exp_nat_mul]; norm_num
        _ ≤ Real.exp 17.27 := Real.exp_le_exp.mpr (by norm_num)
    have : vaporPressure (40:ℝ) * 100 / 100 / 0.6108 < 2 ^ 17 := by
      rw [div_lt_iff₀ (by norm_num)]; linarith
    linarith
  by_contra hcon
  have := (dewPoint_le_dryBulb_iff 40 100 (by norm_num) (by norm_num) hden).mp (not_lt.mp hcon)
  have e : vaporPressure (40:ℝ) * 100 / 100 = vaporPressure 40 := by ring
  rw [e] at this
  linarith

/-! ### non-vacuity -/

/-- the bisection does move: with `f = id` and level 3 in the bracket [0, 8] two steps give 2 -/
example : bisect (fun x : ℝ => x) 3 2 0 8 = 2 := by
  simp only [bisect, acc, RealNum.abs_eq]
  simp only [RealNum.ofNat_eq, Nat.cast_zero]
  norm_num

example : 0 < vaporPressure (20 : ℝ) := vp_pos 20
example : vaporPressure (-40 : ℝ) < vaporPressure (0 : ℝ) := vp_strictMono_ice (-40) 0 (by norm_num) (by norm_num) (le_refl _)
example : vaporPressure (1 : ℝ) < vaporPressure (55 : ℝ) := vp_strictMono_water 1 55 (by norm_num) (by norm_num) (by norm_num)


/-- across the freezing point -/
example : vaporPressure (-5 : ℝ) < vaporPressure (5 : ℝ) := vp_strictMono (-5) 5 (by norm_num) (by norm_num) (by norm_num)
example : vaporPressure (0 : ℝ) < vaporPressure (0.001 : ℝ) :=
  vp_strictMono_across 0 0.001 (by norm_num) (le_refl _) (by norm_num) (by norm_num)

/-- the hypotheses of `bisect_converges` are satisfiable and the conclusion is informative: `f = id`, level 3 in [0, 8] -/
example : ∃ c ∈ uIcc (0:ℝ) (0 + 8), (fun x : ℝ => x) c = 3 ∧
    (|bisect (fun x : ℝ => x) 3 40 0 8 - c| < 0.0001 ∨ |bisect (fun x : ℝ => x) 3 40 0 8 - c| ≤ |(8:ℝ)| / 2 ^ 40) :=
  bisect_converges (fun x : ℝ => x) 3 40 0 8 continuousOn_id (by norm_num) (by norm_num)

/-- the hypotheses of `wetbulb_converges_water` are satisfiable with the real searched function: dew point 10 °C, dry bulb 20 °C,
standard pressure 101.325 kPa (= vp(100 °C) exactly), enthalpy level = the saturated enthalpy at the dry bulb (RH = 100 %) -/
example : ∃ c ∈ uIcc (10:ℝ) 20, satEnthalpy 101.325 c = satEnthalpy 101.325 20 ∧
    (|wetBulb 20 10 (satEnthalpy 101.325 20) 101.325 - c| < 0.0001 ∨
     |wetBulb 20 10 (satEnthalpy 101.325 20) 101.325 - c| ≤ |(20:ℝ) - 10| / 2 ^ 40) := by
  have hvp100 : vaporPressure (100:ℝ) = 101.325 := by
    rw [vp_water 100 (by norm_num)]
    have z : (373.16:ℝ) / (100 + 273.16) = 1 := by norm_num
    rw [z]
    have : expWater 1 = 0 := by
      unfold expWater; rw [Real.logb_one]; norm_num
    rw [this]; norm_num
  have hlt : ∀ x : ℝ, 0 < x → x ≤ 20 → vaporPressure x < 101.325 := by
    intro x h0 h1
    rw [← hvp100]; exact vp_strictMono_water x 100 h0 (by linarith) (le_refl _)
  apply wetbulb_converges_water 20 10 _ 101.325 (by norm_num) (by norm_num)
  · intro x hx
    rw [mem_uIcc] at hx
    have : vaporPressure x < 101.325 := by
      rcases hx with hx | hx
      · exact hlt x (by linarith [hx.1]) hx.2
      · exact hlt x (by linarith [hx.1]) (by linarith [hx.2])
    linarith
  · exact satEnthalpy_strictMono_water 101.325 10 20 (by norm_num) (by norm_num) (by norm_num) (hlt 20 (by norm_num) (le_refl _))
  · exact le_refl _

example : dewPoint (0:ℝ) 80 ≤ 0 := dewPoint_le_dryBulb_at_zero 80 (by norm_num) (by norm_num)

/-- at 0 °C the ice branch gives exactly 101.325 × 0.0060273 kPa, so at 50 % and 100 % humidity `ea/0.6108 < 1` and the
hypothesis of `dewpoint_mono_humidity` holds -/
example : dewPoint (0:ℝ) 50 < dewPoint (0:ℝ) 100 := by
  apply dewpoint_mono_humidity 0 50 100 (by norm_num) (by norm_num)
  have hvp : vaporPressure (0:ℝ) = 101.325 * 0.0060273 := by
    rw [vp_ice 0 (lt_irrefl _)]
    unfold expIce
    have z : (273.16:ℝ) / (0 + 273.16) = 1 := by norm_num
    rw [z]
    have : (-9.09718:ℝ) * (1 - 1) + -3.56654 * Real.logb 10 1 + 0.876793 * (1 - 1 / 1) + Real.logb 10 0.0060273
        = Real.logb 10 0.0060273 := by
      rw [Real.logb_one]; norm_num
    rw [this, Real.rpow_logb (by norm_num) (by norm_num) (by norm_num)]
  rw [hvp]
  have : Real.log (101.325 * 0.0060273 * 100 / 100 / 0.6108) < 0 := by
    apply Real.log_neg (by norm_num) (by norm_num)
  linarith

/-! ### the meteorological range: no division by zero, bracketing, dew point vs humidity -/

/-- saturation vapour pressure is at most one standard atmosphere up to the boiling point -/
theorem vp_le_boiling (t : ℝ) (h0 : -273.16 < t) (h1 : t ≤ 100) : vaporPressure t ≤ 101.325 := by
  rcases eq_or_lt_of_le h1 with h | h
  · rw [h, vp_hundred]
  · have := vp_strictMono t 100 h0 h (le_refl _)
    rw [vp_hundred] at this
    exact this.le

/-- **The Magnus denominator is positive on the meteorological range**: for `−273.16 < T ≤ 100` and `0 < RH ≤ 100`,
`ln(ea / 0.6108) < 17.27` (`ea ≤ vp(100 °C) = 101.325 kPa`, `101.325 / 0.6108 < 2¹⁷ ≤ e^17.27`) — the divisor
`17.27 − Func` of `calcDewPoint` is positive. -/
theorem magnus_denominator_pos (t rh : ℝ) (h0 : -273.16 < t) (h1 : t ≤ 100) (hrh : 0 < rh) (hrh' : rh ≤ 100) :
    Real.log (vaporPressure t * rh / 100 / 0.6108) < 17.27 := by
  have hpos := vp_pos t
  have hle := vp_le_boiling t h0 h1
  have hx : 0 < vaporPressure t * rh / 100 / 0.6108 := by positivity
  rw [Real.log_lt_iff_lt_exp hx]
  have h17 : (2:ℝ) ^ 17 ≤ Real.exp 17.27 := by
    have h2 : (2:ℝ) ≤ Real.exp 1 := by have := Real.exp_one_gt_d9; linarith
    calc (2:ℝ) ^ 17 ≤ Real.exp 1 ^ 17 := pow_le_pow_left₀ (by norm_num) h2 17
      _ = Real.exp 17 := by rw [← Real.exp_nat_mul]; norm_num
      _ ≤ Real.exp 17.27 := Real.exp_le_exp.mpr (by norm_num)
  have hea : vaporPressure t * rh / 100 ≤ 101.325 := by
    rw [div_le_iff₀ (by norm_num)]; nlinarith
  have : vaporPressure t * rh / 100 / 0.6108 < 2 ^ 17 := by
    rw [div_lt_iff₀ (by norm_num)]; linarith
  linarith

/-- **dewpoint_mono_humidity_range — "dew point rises with humidity" on the meteorological range**, with the
denominator hypothesis of `dewpoint_mono_humidity` discharged: for every dry bulb `−273.16 < T ≤ 100` (⊇ [−40, 55]) and
humidities `0 < RH₁ < RH₂ ≤ 100`, `dewPoint T RH₁ < dewPoint T RH₂`. -/
theorem dewpoint_mono_humidity_range (t rh1 rh2 : ℝ) (h0 : -273.16 < t) (h1 : t ≤ 100)
    (hr1 : 0 < rh1) (h12 : rh1 < rh2) (hr2 : rh2 ≤ 100) : dewPoint t rh1 < dewPoint t rh2 :=
  dewpoint_mono_humidity t rh1 rh2 hr1 h12 (magnus_denominator_pos t rh2 h0 h1 (by linarith) hr2)

/-- the enthalpy the kernel searches for (`e` of `sample`): `calcEnthalpy(T, calcHumidityRatioActual(T, RH, pa))`,
in closed form -/
theorem sample_enthalpy_eq (pa t rh : ℝ) :
    enthalpy t (humidityRatioActual t rh pa) =
      1.006 * t + (1.84 * t + 2501) * (0.62198 * vaporPressure t / (pa - vaporPressure t) * rh / 100) := by
  unfold enthalpy humidityRatioActual humidityRatio
  simp only [ofNat_lit 2501, ofNat_lit 100]

/-- **Upper half of the bracketing hypothesis of `wetbulb_converges*`, derived from the humidity**: for `RH ≤ 100`,
below the boiling point of the given pressure (`vp T < pa`, the divisor of `calcHumidityRatio` positive) and
`1.84·T + 2501 > 0` (T > −1359 °C), the enthalpy of the air is at most the saturated-air enthalpy at the dry bulb:
`hE ≤ satEnthalpy pa T` — the `hhi` of `wetbulb_converges`, `wetbulb_converges_water`, `wetbulb_converges_ice`. -/
theorem sample_enthalpy_le_sat (pa t rh : ℝ) (hrh : rh ≤ 100) (hpa : vaporPressure t < pa) (ht : 0 < 1.84 * t + 2501) :
    enthalpy t (humidityRatioActual t rh pa) ≤ satEnthalpy pa t := by
  rw [sample_enthalpy_eq, satEnthalpy_eq]
  have hv := vp_pos t
  have hd : 0 < pa - vaporPressure t := by linarith
  have hW : 0 ≤ 0.62198 * vaporPressure t / (pa - vaporPressure t) := by positivity
  generalize 0.62198 * vaporPressure t / (pa - vaporPressure t) = W at hW ⊢
  have : W * rh / 100 ≤ W := by
    rw [div_le_iff₀ (by norm_num)]; nlinarith
  nlinarith

/-- `wetbulb_converges_water` for the kernel's own sample, with the upper bracketing half discharged: dry bulb and dew
point above freezing, `RH ≤ 100`, `vp < pa` on the bracket; what remains a hypothesis is the LOWER half
`satEnthalpy pa dew < hE` (it mixes the Magnus inversion with Goff-Gratch). -/
theorem sample_wetbulb_converges_water (pa t rh : ℝ) (ht : 0 < t) (hd : 0 < dewPoint t rh) (hrh : rh ≤ 100)
    (hne : ∀ x ∈ uIcc (dewPoint t rh) t, vaporPressure x < pa)
    (hlo : satEnthalpy pa (dewPoint t rh) < enthalpy t (humidityRatioActual t rh pa)) :
    ∃ c ∈ uIcc (dewPoint t rh) t, satEnthalpy pa c = enthalpy t (humidityRatioActual t rh pa) ∧
      (|(sample pa t rh).wetBulb - c| < 0.0001 ∨ |(sample pa t rh).wetBulb - c| ≤ |t - dewPoint t rh| / 2 ^ 40) :=
  wetbulb_converges_water t (dewPoint t rh) _ pa hd ht
    (fun x hx => by have := hne x hx; linarith) hlo
    (sample_enthalpy_le_sat pa t rh hrh (hne t right_mem_uIcc) (by linarith))

/-- **no_zero_divisor — the ℝ content of "all outputs are finite"** on the property's range `T ∈ [−40, 55]`,
`RH ∈ (0, 100]`, `elevation ∈ [0, 10000]`, with `pa = barometricPressure elevation`: every divisor and every argument of
a logarithm / fractional power on the path to the four outputs is positive —
* `T + 273.16 > 0` (divisor of `z` in `calcVaporPressure`; then `z > 0`, the divisor `1/z` and argument of `log10`);
* the base `(293 − 0.0065·elevation)/293` of the barometric power is positive, and `22.4 ≤ pa ≤ 101.3` kPa;
* `vp(x) < pa` for EVERY `x ∈ (−273.16, 55]` (`vp(55) ≤ 18.04 < 22.4 ≤ pa(10000)`): the divisor `pa − vp` of
  `calcHumidityRatio` is positive at the dry bulb and at every bisection midpoint that is not above 55 °C;
* `ea = vp·RH/100 > 0` (the `if ea > 0` branch of `calcDewPoint` is taken; `ea/0.6108 > 0` is the argument of `log`);
* `17.27 − ln(ea/0.6108) > 0` (divisor of the dew point).
NOT covered: bisection midpoints ABOVE the dry bulb (they exist only when dew > dry, by < 0.006 °C, known finding
KF-C20-dewpoint-above-drybulb) and IEEE overflow/underflow, which ℝ cannot express (sampled by the oracle). -/
theorem no_zero_divisor (t rh elev : ℝ) (ht0 : -40 ≤ t) (ht1 : t ≤ 55) (hrh0 : 0 < rh) (hrh1 : rh ≤ 100)
    (he0 : 0 ≤ elev) (he1 : elev ≤ 10000) :
    0 < t + 273.16 ∧
    0 < (293 - 0.0065 * elev) / 293 ∧
    22.4 ≤ barometricPressure elev ∧ barometricPressure elev ≤ 101.3 ∧
    (∀ x : ℝ, -273.16 < x → x ≤ 55 → 0 < barometricPressure elev - vaporPressure x) ∧
    0 < vaporPressure t * rh / 100 ∧
    0 < 17.27 - Real.log (vaporPressure t * rh / 100 / 0.6108) := by
  obtain ⟨hb0, _⟩ := baro_base_range elev he0 he1
  obtain ⟨hp0, hp1⟩ := barometricPressure_range elev he0 he1
  have hv := vp_pos t
  refine ⟨by linarith, lt_of_lt_of_le (by norm_num) hb0, hp0, hp1, ?_, by positivity, ?_⟩
  · intro x hx0 hx1
    have h55 := vp_55_upper
    have : vaporPressure x ≤ vaporPressure 55 := by
      rcases eq_or_lt_of_le hx1 with h | h
      · rw [h]
      · exact (vp_strictMono x 55 hx0 h (by norm_num)).le
    linarith
  · have := magnus_denominator_pos t rh (by linarith) (by linarith) hrh0 hrh1
    linarith

/-! ### whole runs -/

/-- **run = map sample.** The kernel's loop over the days is the per-sample computation at the barometric pressure of
the elevation, day by day (no state is carried between days). -/
theorem run_eq_map_sample (elevation : ℝ) (xs : List (ℝ × ℝ)) :
    run elevation xs = xs.map (fun x => sample (barometricPressure elevation) x.1 x.2) := by
  unfold run
  rfl

/-- **run_spec — the one-sample theorems for every day of a run**: as many outputs as days, and for the `i`-th day
(dry bulb `t`, humidity `rh`): the vapour pressure is positive, the wet bulb lies between dew point and dry bulb (order-free)
and the reported depression is dry bulb minus wet bulb. -/
theorem run_spec (elevation : ℝ) (xs : List (ℝ × ℝ)) :
    List.Forall₂ (fun (x : ℝ × ℝ) (o : Out ℝ) =>
        o = sample (barometricPressure elevation) x.1 x.2 ∧
        0 < o.vaporPressure ∧ o.vaporPressure = vaporPressure x.1 ∧ o.dewPoint = dewPoint x.1 x.2 ∧
        min o.dewPoint x.1 ≤ o.wetBulb ∧ o.wetBulb ≤ max o.dewPoint x.1 ∧ o.deltaT = x.1 - o.wetBulb)
      xs (run elevation xs) := by
  rw [run_eq_map_sample]
  induction xs with
  | nil => exact List.Forall₂.nil
  | cons x xs ih =>
    refine List.Forall₂.cons ⟨rfl, vp_pos x.1, rfl, rfl, ?_, ?_, rfl⟩ ih
    · exact (sample_wetbulb_between _ x.1 x.2).1
    · exact (sample_wetbulb_between _ x.1 x.2).2

/-! ### the ordered reading "dew ≤ wet ≤ dry" -/

/-- when the dew point exceeds the dry bulb the bisection runs downwards from the dew point: the wet bulb is at least the
dry bulb and the reported depression is ≤ 0 -/
theorem sample_deltaT_nonpos_of_dew_gt (pa t rh : ℝ) (h : t < dewPoint t rh) :
    t ≤ (sample pa t rh).wetBulb ∧ (sample pa t rh).wetBulb ≤ dewPoint t rh ∧ (sample pa t rh).deltaT ≤ 0 := by
  have hb := bisect_between_nonpos (satEnthalpy pa) (enthalpy t (humidityRatioActual t rh pa)) 40 (dewPoint t rh)
    (t - dewPoint t rh) (by linarith)
  have e : dewPoint t rh + (t - dewPoint t rh) = t := by ring
  rw [e] at hb
  have hw : (sample pa t rh).wetBulb = bisect (satEnthalpy pa) (enthalpy t (humidityRatioActual t rh pa)) 40
      (dewPoint t rh) (t - dewPoint t rh) := rfl
  refine ⟨by rw [hw]; exact hb.1, by rw [hw]; exact hb.2, ?_⟩
  rw [deltaT_def, hw]; linarith [hb.1]

/-- **ordered_reading_counterexample** (known finding KF-C20-dewpoint-above-drybulb): the ORDERED reading of the clause,
"dew point ≤ wet bulb ≤ dry bulb", is FALSE for the code at 40 °C / 100 %, at every pressure: the dew point is above the
dry bulb (`dewPoint_exceeds_dryBulb_example`), the wet bulb is not below the dry bulb, the depression is ≤ 0. The
order-free reading (`wetbulb_between`) holds. -/
theorem ordered_reading_counterexample (pa : ℝ) :
    ¬ (dewPoint 40 100 ≤ (sample pa 40 100).wetBulb ∧ (sample pa 40 100).wetBulb ≤ (40:ℝ)) ∧
    (40:ℝ) ≤ (sample pa 40 100).wetBulb ∧ (sample pa 40 100).deltaT ≤ 0 := by
  have h := dewPoint_exceeds_dryBulb_example
  obtain ⟨a, _, c⟩ := sample_deltaT_nonpos_of_dew_gt pa 40 100 h
  exact ⟨fun hh => by linarith [hh.1, hh.2], a, c⟩

/-! ### non-vacuity (range theorems) -/

example : dewPoint (30:ℝ) 40 < dewPoint (30:ℝ) 90 :=
  dewpoint_mono_humidity_range 30 40 90 (by norm_num) (by norm_num) (by norm_num) (by norm_num) (by norm_num)
example : dewPoint (-40:ℝ) 0.0001 < dewPoint (-40:ℝ) 100 :=
  dewpoint_mono_humidity_range (-40) 0.0001 100 (by norm_num) (by norm_num) (by norm_num) (by norm_num) (by norm_num)
/-- the hottest day at the highest station: every divisor positive -/
example : 0 < barometricPressure (10000:ℝ) - vaporPressure (55:ℝ) :=
  (no_zero_divisor 55 100 10000 (by norm_num) (le_refl _) (by norm_num) (le_refl _) (by norm_num) (le_refl _)).2.2.2.2.1
    55 (by norm_num) (le_refl _)
/-- `sample_enthalpy_le_sat` at sea level: 25 °C, 60 % -/
example : enthalpy (25:ℝ) (humidityRatioActual 25 60 (barometricPressure 0)) ≤ satEnthalpy (barometricPressure 0) 25 :=
  sample_enthalpy_le_sat _ 25 60 (by norm_num)
    (by have := (no_zero_divisor 25 60 0 (by norm_num) (by norm_num) (by norm_num) (by norm_num) (le_refl _) (by norm_num)).2.2.2.2.1
          25 (by norm_num) (by norm_num); linarith)
    (by norm_num)
example : (run (100:ℝ) [(20, 50), (-5, 80)]).length = 2 := (run_spec 100 [(20, 50), (-5, 80)]).length_eq.symm

end OW.Props.C20

