import OW.Props.C16.Conversion
import OW.Props.C16.Partition
/-!
C16 — partition, conversion and generation models satisfy their algebraic identities.
The theorems live in `OW/Props/C16/{Conversion,Partition,Generation}.lean`.
-/
