import OW.Props.C16.Conversion
import OW.Props.C16.Partition
import OW.Props.C16.LoadGen
import OW.Props.C16.Sediment
import OW.Props.C16.Usle
/-!
C16 — partition, conversion and generation models satisfy their algebraic identities.
The theorems live in `OW/Props/C16/{Conversion,Partition,LoadGen,Sediment,Usle}.lean` (helpers in `OW/Proofs/C16Lemmas.lean`).
-/
