import OW.Proofs.NdC01Ops
import OW.Proofs.NdC01Apply
import OW.Proofs.NdC01Slice
import OW.Proofs.NdC01Seq
/-!
C01 — array slices are live strided views that compose, with exact write footprints.

Theorems about the model `OW/Nd` of /repo/data/arrays.go, arrays_go.go, data/cdata/arrays_c.go (Go and C storage
back-ends), for every rank, every chain of nested in-bounds slices (stepped or not) and every element type `α`.
Go `int` is `Int` (overflow out of scope). Vocabulary: `OW/Nd/WF.lean` (`Reach`, `SliceOK`, `InBounds`, `affine`,
`stepOr`), `OW/Proofs/NdGeo.lean` (`Geo`, `dot`, `mulL`), `OW/Proofs/NdC01.lean` (`ArrOK`, `cell`, `SameShape`,
`sliceChain`, `ChainOK`, `chainIndex`).
-/
namespace OW.Props.C01
open OW.Nd

/-! ### T1 — a slice is an affine re-indexing of its parent -/

/-- **slice_index.** For a reachable view `v` and an in-bounds slice request, `SliceInto` does not panic and
element `i` of the slice is element `loc + i ⊙ step` of the parent — as an identity between addresses, for EVERY
index `i` of the slice's rank (in bounds or not), any rank, `step = nil` meaning all ones. -/
theorem slice_index {v w : View} {loc dims : Idx} {step : Option Idx} (hv : Reach v)
    (ok : SliceOK v.dims loc dims (stepOr v.dims.length step))
    (h : v.sliceInto loc dims step = .ok w) (i : Idx) (hi : i.length = dims.length) :
    w.index i = v.index (affine loc i (stepOr v.dims.length step)) :=
  sliceInto_index (reach_geo hv) ok h i hi

/-- **slice_total.** An in-bounds slice request on a reachable view never panics; the result is reachable, has the
requested extents, and keeps the allocated shape. -/
theorem slice_total {v : View} {loc dims : Idx} {step : Option Idx} (hv : Reach v)
    (ok : SliceOK v.dims loc dims (stepOr v.dims.length step)) :
    ∃ w, v.sliceInto loc dims step = .ok w ∧ Reach w ∧ w.dims = dims ∧ w.orig = v.orig := by
  obtain ⟨w, hw, hr⟩ := reach_slice_ok hv ok
  exact ⟨w, hw, hr, (sliceInto_orig hw).2, (sliceInto_orig hw).1⟩

/-- **slice_index_inbounds.** In-bounds indices of the slice are mapped to in-bounds indices of the parent, and both
address the same element (neither `Index` panics). -/
theorem slice_index_inbounds {v w : View} {loc dims : Idx} {step : Option Idx} (hv : Reach v)
    (ok : SliceOK v.dims loc dims (stepOr v.dims.length step))
    (h : v.sliceInto loc dims step = .ok w) {i : Idx} (hi : InBounds i dims) :
    InBounds (affine loc i (stepOr v.dims.length step)) v.dims ∧
      ∃ p, w.index i = .ok p ∧ v.index (affine loc i (stepOr v.dims.length step)) = .ok p ∧
        0 ≤ p ∧ p < product v.orig := by
  have hb := ok.inBounds hi
  obtain ⟨p, hp, h0, hlt⟩ := index_inbounds (reach_geo hv) hb
  exact ⟨hb, p, by rw [slice_index hv ok h i hi.length, hp], hp, h0, hlt⟩

/-- **chain_index.** For every chain of nested in-bounds slices (any depth, stepped or not) of a reachable view:
no step of the chain panics, the innermost view is reachable with the extents of the last request, and its element
`i` is the element of the outermost parent at the composed affine index `chainIndex` — for every `i` of the rank. -/
theorem chain_index {v : View} (hv : Reach v) (c : List SliceReq) (ok : ChainOK v.dims c) :
    ∃ w, sliceChain v c = .ok w ∧ Reach w ∧ w.dims = chainDims v.dims c ∧
      ∀ i : Idx, i.length = v.dims.length → w.index i = v.index (chainIndex v.dims.length c i) := by
  induction c generalizing v with
  | nil => exact ⟨v, rfl, hv, rfl, fun i _ => rfl⟩
  | cons r rest ih =>
    obtain ⟨loc, dims, step⟩ := r
    obtain ⟨ok1, ok2⟩ := ok
    obtain ⟨w1, hw1, hr1, hd1, _⟩ := slice_total hv ok1
    obtain ⟨w, hw, hr, hd, hidx⟩ := ih hr1 (by rw [hd1]; exact ok2)
    have hlen : dims.length = v.dims.length := ok1.lengths.2.1
    refine ⟨w, ?_, hr, by rw [hd, hd1]; rfl, fun i hi => ?_⟩
    · simp only [sliceChain, hw1, bind, Except.bind]
      exact hw
    · rw [hidx i (by rw [hd1, hlen, hi]), hd1, hlen]
      have hl := chainIndex_length dims rest i ok2 (by rw [hlen, hi])
      rw [hlen] at hl
      exact slice_index hv ok1 hw1 _ (by rw [hl, hlen])

/-! ### addresses: `Index` is a bijection on a root and injective into the root's range on every reachable view -/

/-- **index_closed_form.** For a reachable view and any `loc` of the view's rank, `Index` does not panic and equals
`Start + Σ locᵢ·Stepᵢ·Offsetᵢ`, where `Offset` are the row-major strides of the allocated shape. -/
theorem index_closed_form {v : View} (hv : Reach v) (loc : Idx) (hloc : loc.length = v.dims.length) :
    v.index loc = .ok (v.start + dot loc (mulL v.step v.offset)) ∧ v.offset = offsetsT v.orig :=
  ⟨index_eq (reach_geo hv) loc (by omega), (reach_geo hv).offset_eq⟩

/-- **root_index_bijection.** For a root array of shape `D` (non-empty, extents ≥ 1), `idx ↦ Index(idx)` is a
bijection between the in-bounds multi-indices and `[0, Π D)`: it is the row-major rank `ravel idx D` (in range), it is
injective, and every `k` in range is the address of the in-bounds index `unravel k D`. -/
theorem root_index_bijection {D : Idx} {v : View} (hne : D ≠ []) (hpos : Pos D) (h : View.root D = .ok v) :
    (∀ idx, InBounds idx D → v.index idx = .ok (ravel idx D) ∧ 0 ≤ ravel idx D ∧ ravel idx D < product D) ∧
    (∀ i j, InBounds i D → InBounds j D → v.index i = v.index j → i = j) ∧
    (∀ k, 0 ≤ k → k < product D → InBounds (unravel k D) D ∧ v.index (unravel k D) = .ok k) := by
  refine ⟨fun idx hi => ⟨root_index hne h idx hi.length, ravel_bounds hi⟩, fun i j hi hj e => ?_,
    fun k h0 hlt => root_index_unravel hne hpos h k h0 hlt⟩
  rw [root_index hne h i hi.length, root_index hne h j hj.length] at e
  injection e with e
  exact ravel_inj hi hj e

/-- **index_inbounds.** In-bounds indices of a reachable view (any chain of slices) are addressed, without panic,
inside the root's range `[0, Π OriginalDims)`. -/
theorem index_inbounds {v : View} (hv : Reach v) {i : Idx} (hi : InBounds i v.dims) :
    ∃ p, v.index i = .ok p ∧ 0 ≤ p ∧ p < product v.orig :=
  OW.Nd.index_inbounds (reach_geo hv) hi

/-- **index_inj.** Distinct in-bounds indices of a reachable view address distinct storage positions. -/
theorem index_inj {v : View} (hv : Reach v) {i j : Idx} (hi : InBounds i v.dims) (hj : InBounds j v.dims)
    (h : v.index i = v.index j) : i = j :=
  OW.Nd.index_inj (reach_geo hv) hi hj h

/-! ### T2 — reading through a slice -/

/-- **get_slice.** "Element `i` of `slice(loc, dims, step)` is element `loc + i*step` of its parent": for an array
`a` of either back-end whose view is reachable, in the same heap, `Get` through the slice at `i` and `Get` through
the parent at `loc + i ⊙ step` are the same computation (same value, or the same panic), for every `i` of the
rank. The slice shares the parent's storage (`sid`, window, back-end), it is not a copy. -/
theorem get_slice {α : Type} (h : Heap α) {a b : Arr} {loc dims : Idx} {step : Option Idx} (hr : Reach a.v)
    (ok : SliceOK a.v.dims loc dims (stepOr a.v.dims.length step))
    (hs : slice a loc dims step = .ok b) (i : Idx) (hi : i.length = dims.length) :
    get h b i = get h a (affine loc i (stepOr a.v.dims.length step)) ∧
      b.sid = a.sid ∧ b.base = a.base ∧ b.len = a.len ∧ b.isC = a.isC := by
  obtain ⟨w, hw, rfl⟩ := slice_eq hs
  refine ⟨?_, rfl, rfl, rfl, rfl⟩
  unfold Nd.get
  rw [show ({ a with v := w } : Arr).v.index i = w.index i from rfl, slice_index hr ok hw i hi]
  rfl

/-- **get_slice_inbounds.** For an array satisfying the window conditions and an in-bounds `i`, neither side panics:
both return the storage cell at `base + Index_a(loc + i ⊙ step)`. -/
theorem get_slice_inbounds {α : Type} {h : Heap α} {a b : Arr} {loc dims : Idx} {step : Option Idx}
    (hr : Reach a.v) (hok : ArrOK h a) (ok : SliceOK a.v.dims loc dims (stepOr a.v.dims.length step))
    (hs : slice a loc dims step = .ok b) {i : Idx} (hi : InBounds i dims) :
    ∃ p x, a.v.index (affine loc i (stepOr a.v.dims.length step)) = .ok p ∧
      cell h a.sid (a.base + p).toNat = some x ∧ get h b i = .ok x ∧
      get h a (affine loc i (stepOr a.v.dims.length step)) = .ok x := by
  obtain ⟨p, x, hp, _, _, hc, hg⟩ := get_eq hr hok (ok.inBounds hi)
  exact ⟨p, x, hp, hc, by rw [(get_slice h hr ok hs i hi.length).1, hg], hg⟩

/-- **get_reads_cell.** `Get` through a reachable array at an in-bounds index never panics and returns the storage cell
`base + Index(i)` of storage `sid` — so every footprint theorem below, stated on storage cells, says what every view
overlapping the written cells reads afterwards. -/
theorem get_reads_cell {α : Type} {h : Heap α} {a : Arr} (hr : Reach a.v) (hok : ArrOK h a) {i : Idx}
    (hi : InBounds i a.v.dims) :
    ∃ p x, a.v.index i = .ok p ∧ 0 ≤ p ∧ p < product a.v.orig ∧
      cell h a.sid (a.base + p).toNat = some x ∧ get h a i = .ok x :=
  get_eq hr hok hi

/-- **slice_arr_total.** `Slice` with an in-bounds request never panics and preserves reachability and the window
conditions. -/
theorem slice_arr_total {α : Type} {h : Heap α} {a : Arr} {loc dims : Idx} {step : Option Idx}
    (hr : Reach a.v) (hok : ArrOK h a) (ok : SliceOK a.v.dims loc dims (stepOr a.v.dims.length step)) :
    ∃ b, slice a loc dims step = .ok b ∧ Reach b.v ∧ ArrOK h b ∧ b.v.dims = dims := by
  obtain ⟨w, hw, hrw, hd, _⟩ := slice_total hr ok
  have hs : slice a loc dims step = .ok { a with v := w } := by
    simp [slice, hw, bind, Except.bind, pure, Except.pure]
  exact ⟨_, hs, hrw, hok.slice hs, hd⟩

/-! ### T3 — write footprints -/

/-- **set_footprint.** `Set` through a reachable view at an in-bounds index never panics; afterwards the storage
`a.sid` equals the old one updated at position `base + Index(loc)` (an existing position) with `x`, every other
storage is unchanged, and the number of storages is unchanged. -/
theorem set_footprint {α : Type} {h : Heap α} {a : Arr} (hr : Reach a.v) (hok : ArrOK h a) {loc : Idx}
    (hloc : InBounds loc a.v.dims) (x : α) :
    ∃ p s h', a.v.index loc = .ok p ∧ 0 ≤ p ∧ h[a.sid]? = some s ∧ (a.base + p).toNat < s.length ∧
      set h a loc x = .ok h' ∧
      h'[a.sid]? = some (s.set (a.base + p).toNat x) ∧ (∀ t : Nat, t ≠ a.sid → h'[t]? = h[t]?) ∧
      h'.length = h.length := by
  obtain ⟨p, hp, h0, hlt, hset⟩ := set_eq hr hok hloc x
  obtain ⟨s, hs, hl⟩ := hok.store
  have hb := hok.base_nonneg
  have hf := hok.fits
  refine ⟨p, s, _, hp, h0, hs, by omega, hset, ?_, fun t ht => ?_, (sameShape_setStore _ _ _ _).1⟩
  · rw [getElem?_setStore]; simp [hs]
  · rw [getElem?_setStore, if_neg (fun e : a.sid = t => ht e.symm)]

/-- **set_preserves.** `Set` (whenever it does not panic — no hypotheses) keeps the shape of the heap, hence the window
conditions of every array. -/
theorem set_preserves {α : Type} {h h' : Heap α} {a : Arr} {loc : Idx} {x : α} (hs : set h a loc x = .ok h') :
    SameShape h h' ∧ ∀ c : Arr, ArrOK h c → ArrOK h' c :=
  ⟨set_sameShape hs, fun _ hc => hc.sameShape (set_sameShape hs)⟩

/-- **apply_paths_agree.** `Apply(loc, dim, step, vals)` — the 1-D run write — on a reachable array satisfying the
window conditions, for an in-bounds run (`loc` in bounds, `step ≥ 1`, `vals` non-empty, last element
`loc[dim] + (len-1)·step` inside the extent): on EVERY path (contiguous fast path `copy(Impl[start:start+len], vals)` of
the Go back-end, element loop of the Go back-end, element loop of the C back-end) the result is that of the element
loop `Set(loc + k·step·e_dim, vals[k])`, `k = 0 … len-1` — the fast path never changes the answer. -/
theorem apply_paths_agree {α : Type} {h : Heap α} {a : Arr} (hr : Reach a.v) (hok : ArrOK h a) {loc : Idx} {d : Nat}
    {step : Int} {vals : List α} {D l : Int} (hloc : InBounds loc a.v.dims) (hD : a.v.dims[d]? = some D)
    (hl : loc[d]? = some l) (hne : vals ≠ []) (hstep : 1 ≤ step)
    (hlast : l + ((vals.length : Int) - 1) * step < D) :
    apply h a loc (d : Int) step vals = setSeq h a (runPairs loc d l step 0 vals) ∧
      ∃ h', apply h a loc (d : Int) step vals = .ok h' := by
  have r : RunOK a.v.dims loc d step vals.length D l :=
    ⟨hloc, hD, hl, by cases vals with | nil => exact absurd rfl hne | cons _ _ => simp, hstep, hlast⟩
  have g := reach_geo hr
  rw [apply_eq g hok r]
  refine ⟨?_, _, rfl⟩
  rw [setSeq_eq g _ h hok]
  intro w hw
  obtain ⟨j, hj, rfl⟩ := (mem_runPairs loc d l step vals 0 w).mp hw
  exact r.inBounds (by omega) (by omega)

/-- **apply_footprint.** Under the hypotheses of `apply_paths_agree`, `Apply` never panics and changes exactly the
addressed elements: the heap keeps its shape; for every `k < len(vals)` the index `loc + k·step·e_dim` is in bounds and
the storage cell it addresses (`base + Index(·)` of storage `a.sid`) holds `vals[k]` afterwards; every other cell of
every storage is unchanged. Holds on the fast path, the loop path and for the C back-end alike. -/
theorem apply_footprint {α : Type} {h : Heap α} {a : Arr} (hr : Reach a.v) (hok : ArrOK h a) {loc : Idx} {d : Nat}
    {step : Int} {vals : List α} {D l : Int} (hloc : InBounds loc a.v.dims) (hD : a.v.dims[d]? = some D)
    (hl : loc[d]? = some l) (hne : vals ≠ []) (hstep : 1 ≤ step)
    (hlast : l + ((vals.length : Int) - 1) * step < D) :
    ∃ h', apply h a loc (d : Int) step vals = .ok h' ∧ SameShape h h' ∧
      (∀ (k : Nat) (hk : k < vals.length), InBounds (loc.set d (l + k * step)) a.v.dims ∧
        ∃ p, a.v.index (loc.set d (l + k * step)) = .ok p ∧
          cell h' a.sid (a.base + p).toNat = some vals[k]) ∧
      (∀ t q : Nat, (t ≠ a.sid ∨ ∀ k : Nat, k < vals.length →
          ∀ p, a.v.index (loc.set d (l + k * step)) = .ok p → q ≠ (a.base + p).toNat) →
        cell h' t q = cell h t q) := by
  have r : RunOK a.v.dims loc d step vals.length D l :=
    ⟨hloc, hD, hl, by cases vals with | nil => exact absurd rfl hne | cons _ _ => simp, hstep, hlast⟩
  have g := reach_geo hr
  have hdl : d < loc.length := by rw [hloc.length]; exact r.d_lt
  have hib : ∀ w ∈ runPairs loc d l step 0 vals, InBounds w.1 a.v.dims := by
    intro w hw
    obtain ⟨j, hj, rfl⟩ := (mem_runPairs loc d l step vals 0 w).mp hw
    exact r.inBounds (by omega) (by omega)
  obtain ⟨h', _, rfl, hsh, hin, hout⟩ :=
    setSeq_footprint g hok (runPairs loc d l step 0 vals) hib (runPairs_nodup hdl l hstep vals 0)
  refine ⟨_, apply_eq g hok r, hsh, fun k hk => ?_, fun t q hne => ?_⟩
  · have hk' : InBounds (loc.set d (l + k * step)) a.v.dims := r.inBounds (k := (k : Int)) (by omega) (by omega)
    have hm : (runLoc loc d l step (0 + (k : Int)), vals[k]) ∈ runPairs loc d l step 0 vals :=
      (mem_runPairs loc d l step vals 0 _).mpr ⟨k, hk, rfl⟩
    have := hin _ hm
    simp only [runLoc, Int.zero_add] at this
    exact ⟨hk', _, index_addr g _ (by rw [hk'.length]), this⟩
  · apply hout
    rcases hne with h1 | h2
    · exact Or.inl h1
    · refine Or.inr (fun w hw => ?_)
      obtain ⟨j, hj, rfl⟩ := (mem_runPairs loc d l step vals 0 w).mp hw
      have hj' : InBounds (loc.set d (l + j * step)) a.v.dims := r.inBounds (k := (j : Int)) (by omega) (by omega)
      have := h2 j hj _ (index_addr g _ (by rw [hj'.length]))
      simpa [runLoc] using this

/-- **apply_empty.** `Apply` with no values at an in-bounds `loc` (any `step`) changes nothing and does not panic, on
every path (the slice it builds has a zero extent; `Contiguous()` is total on it). -/
theorem apply_empty {α : Type} {h : Heap α} {a : Arr} (hr : Reach a.v) (hok : ArrOK h a) {loc : Idx} {d : Nat}
    (step : Int) (hloc : InBounds loc a.v.dims) (hd : d < a.v.dims.length) :
    apply h a loc (d : Int) step ([] : List α) = .ok h :=
  apply_nil (reach_geo hr) hok step hloc hd

/-- **applySlice_footprint.** `ApplySlice(loc, step, src)` — the sub-array write — for a reachable destination `a`
and a reachable source `src`, both satisfying the window conditions, an in-bounds request
(`SliceOK a.dims loc src.dims step`) and **source and destination in different storages (`src.sid ≠ a.sid`; the
overlapping case is excluded: there the fast path is a `memmove` and the loop a sequential copy, which differ)**:
on every path (Go contiguous fast path `copy(slice.Unroll(), vals.Unroll())` with either an aliasing or a gathered
source, Go element loop, C element loop) `ApplySlice` never panics, the heap keeps its shape, and afterwards
* for every in-bounds `i` of the source, the destination cell addressed by `loc + i ⊙ step` holds the source's element
  `i` (as read before the call),
* every other cell of every storage — in particular the whole source storage — is unchanged. -/
theorem applySlice_footprint {α : Type} {h : Heap α} {a src : Arr} (hr : Reach a.v) (hok : ArrOK h a)
    (hrs : Reach src.v) (hoks : ArrOK h src) (hdisj : src.sid ≠ a.sid) {loc : Idx} {step : Option Idx}
    (okS : SliceOK a.v.dims loc src.v.dims (stepOr a.v.dims.length step)) :
    ∃ h', applySlice h a loc step src = .ok h' ∧ SameShape h h' ∧
      (∀ i, InBounds i src.v.dims → ∃ p x, a.v.index (affine loc i (stepOr a.v.dims.length step)) = .ok p ∧
        get h src i = .ok x ∧ cell h' a.sid (a.base + p).toNat = some x) ∧
      (∀ t q : Nat, (t ≠ a.sid ∨ ∀ i, InBounds i src.v.dims →
          ∀ p, a.v.index (affine loc i (stepOr a.v.dims.length step)) = .ok p → q ≠ (a.base + p).toNat) →
        cell h' t q = cell h t q) := by
  have g := reach_geo hr
  have gs := reach_geo hrs
  obtain ⟨hl1, hl2, hl3⟩ := okS.lengths
  have hsl := sliceInto_eq g loc src.v.dims step hl1 hl3
  have gS : Geo (dstSlice a loc src.v.dims step).v := geo_slice g okS hsl
  have okSl : ArrOK h (dstSlice a loc src.v.dims step) := ⟨hok.store, hok.base_nonneg, hok.fits, hok.cfits⟩
  obtain ⟨vals, hv, hvl⟩ := OW.NdC02.elems_ok gs hoks
  have hlen : (OW.NdC02.rowMajor src.v.dims).length ≤ vals.length := by
    rw [hvl, OW.NdC02.rowMajor_length]
  have hib : ∀ w ∈ (OW.NdC02.rowMajor src.v.dims).zip vals, InBounds w.1 (dstSlice a loc src.v.dims step).v.dims :=
    fun w hw => OW.NdC02.rowMajor_inBounds gs.pos_dims _ (List.of_mem_zip hw).1
  have hnd : (((OW.NdC02.rowMajor src.v.dims).zip vals).map Prod.fst).Nodup := by
    rw [List.map_fst_zip hlen]; exact rowMajor_nodup gs.dims_ne
  obtain ⟨h', _, rfl, hsh, hin, hout⟩ := setSeq_footprint gS okSl _ hib hnd
  -- address of index `i` of the destination sub-array, in the parent
  have haddr : ∀ i, InBounds i src.v.dims →
      a.v.index (affine loc i (stepOr a.v.dims.length step)) = .ok (addr (dstSlice a loc src.v.dims step).v i) := by
    intro i hi
    rw [← sliceInto_index g okS hsl i hi.length]
    exact index_addr gS i (by rw [hi.length]; exact Nat.le_refl _)
  refine ⟨_, applySlice_eq g hok gs hoks hdisj okS hv, hsh, fun i hi => ?_, fun t q hne => ?_⟩
  · have hk := rowMajor_getElem?_ravel gs.dims_ne hi
    obtain ⟨x, hx, hgx⟩ := OW.NdC02.getAll_getElem hv _ i hk
    have hm : (i, x) ∈ (OW.NdC02.rowMajor src.v.dims).zip vals :=
      List.mem_of_getElem? (List.getElem?_zip_eq_some.mpr ⟨hk, hx⟩)
    exact ⟨_, x, haddr i hi, hgx, hin _ hm⟩
  · apply hout
    rcases hne with h1 | h2
    · exact Or.inl h1
    · refine Or.inr (fun w hw => ?_)
      have hi := hib w hw
      exact h2 w.1 hi _ (haddr w.1 hi)

/-- **applySlice_source_unchanged.** Under the hypotheses of `applySlice_footprint`, every element of the source reads
the same after the call as before. -/
theorem applySlice_source_unchanged {α : Type} {h : Heap α} {a src : Arr} (hr : Reach a.v) (hok : ArrOK h a)
    (hrs : Reach src.v) (hoks : ArrOK h src) (hdisj : src.sid ≠ a.sid) {loc : Idx} {step : Option Idx}
    (okS : SliceOK a.v.dims loc src.v.dims (stepOr a.v.dims.length step)) :
    ∃ h', applySlice h a loc step src = .ok h' ∧ ∀ i, InBounds i src.v.dims → get h' src i = get h src i := by
  obtain ⟨h', he, hsh, _, hout⟩ := applySlice_footprint hr hok hrs hoks hdisj okS
  refine ⟨h', he, fun i hi => ?_⟩
  obtain ⟨x, c, gx⟩ := get_addr (reach_geo hrs) hoks hi
  obtain ⟨x', c', gx'⟩ := get_addr (reach_geo hrs) (hoks.sameShape hsh) hi
  rw [hout _ _ (Or.inl hdisj), c] at c'
  injection c' with c'
  rw [gx, gx', c']

/-- **copyFrom_footprint.** `CopyFrom(other)` for two reachable arrays of the same shape in different storages
(**overlapping storages excluded by hypothesis**): never panics, keeps the heap's shape, afterwards element `i` of
the destination's storage cell (`base + Index_a(i)`) holds element `i` of `other` for every in-bounds `i`, and every
other cell of every storage (in particular all of `other`'s storage) is unchanged. -/
theorem copyFrom_footprint {α : Type} {h : Heap α} {a src : Arr} (hr : Reach a.v) (hok : ArrOK h a)
    (hrs : Reach src.v) (hoks : ArrOK h src) (hdisj : src.sid ≠ a.sid) (hshape : src.v.dims = a.v.dims) :
    ∃ h', copyFrom h a src = .ok h' ∧ SameShape h h' ∧
      (∀ i, InBounds i a.v.dims → ∃ p x, a.v.index i = .ok p ∧ get h src i = .ok x ∧
        cell h' a.sid (a.base + p).toNat = some x) ∧
      (∀ t q : Nat, (t ≠ a.sid ∨ ∀ i, InBounds i a.v.dims → ∀ p, a.v.index i = .ok p → q ≠ (a.base + p).toNat) →
        cell h' t q = cell h t q) := by
  have g := reach_geo hr
  have okS : SliceOK a.v.dims (a.v.newIndex 0) src.v.dims (stepOr a.v.dims.length none) := by
    rw [hshape]; exact sliceOK_zero_ones a.v.dims g.pos_dims
  have haff : ∀ i : Idx, i.length = a.v.dims.length →
      affine (a.v.newIndex 0) i (stepOr a.v.dims.length none) = i := by
    intro i hi
    simp only [View.newIndex, View.ndims, stepOr, ← hi]
    clear hi
    induction i with
    | nil => simp [affine]
    | cons x xs ih => simp [uniform_succ, ih]
  obtain ⟨h', he, hsh, hin, hout⟩ := applySlice_footprint hr hok hrs hoks hdisj okS
  refine ⟨h', he, hsh, fun i hi => ?_, fun t q hne => ?_⟩
  · obtain ⟨p, x, h1, h2, h3⟩ := hin i (by rw [hshape]; exact hi)
    rw [haff i hi.length] at h1
    exact ⟨p, x, h1, h2, h3⟩
  · apply hout
    rcases hne with h1 | h2
    · exact Or.inl h1
    · refine Or.inr (fun i hi p hp => ?_)
      rw [hshape] at hi
      rw [haff i hi.length] at hp
      exact h2 i hi p hp

/-! ### T4 — a write is visible through every overlapping view -/

/-- **write_visible.** After `Set(loc, x)` through view `a`, `Get(j)` through ANY reachable array `b` on the same
storage (any chain of slices, any window) at an in-bounds `j` returns `x` if `j` addresses the written storage
position (`b.base + Index_b(j) = a.base + Index_a(loc)`) and the value it returned before the write otherwise.
Nothing panics. -/
theorem write_visible {α : Type} {h : Heap α} {a b : Arr} (ha : Reach a.v) (hb : Reach b.v)
    (oka : ArrOK h a) (okb : ArrOK h b) (hsid : b.sid = a.sid) {loc j : Idx}
    (hloc : InBounds loc a.v.dims) (hj : InBounds j b.v.dims) (x : α) :
    ∃ h' pa pb, set h a loc x = .ok h' ∧ a.v.index loc = .ok pa ∧ b.v.index j = .ok pb ∧
      get h' b j = if b.base + pb = a.base + pa then .ok x else get h b j := by
  obtain ⟨pa, hpa, a0, _, hset⟩ := set_eq ha oka hloc x
  obtain ⟨pb, y, hpb, b0, _, hcy, hgy⟩ := get_eq hb okb hj
  have okb' : ArrOK (setStore h a.sid (a.base + pa).toNat x) b := okb.sameShape (sameShape_setStore _ _ _ _)
  obtain ⟨pb', z, hpb', _, _, hcz, hgz⟩ := get_eq hb okb' hj
  rw [hpb] at hpb'
  injection hpb' with e
  subst e
  refine ⟨_, pa, pb, hset, hpa, hpb, ?_⟩
  rw [hgz, hgy]
  rw [cell_setStore, hcy] at hcz
  have na := oka.base_nonneg
  have nb := okb.base_nonneg
  by_cases e : b.base + pb = a.base + pa
  · have c : b.sid = a.sid ∧ (b.base + pb).toNat = (a.base + pa).toNat := ⟨hsid, by rw [e]⟩
    simp only [c, and_self, if_true, Option.map_some, Option.some.injEq] at hcz
    simp [e, hcz]
  · have c : ¬ (b.sid = a.sid ∧ (b.base + pb).toNat = (a.base + pa).toNat) := by
      intro c; apply e; have := c.2; omega
    simp only [c, if_false, Option.some.injEq] at hcz
    simp [e, hcz]

/-- **write_visible_same_window.** The usual case: `b` has the same `Impl` window as `a` (both were sliced, through
any chains, from one array). Then `Get_b(j)` after `Set_a(loc, x)` is `x` iff `Index_b(j) = Index_a(loc)`. -/
theorem write_visible_same_window {α : Type} {h : Heap α} {a b : Arr} (ha : Reach a.v) (hb : Reach b.v)
    (oka : ArrOK h a) (okb : ArrOK h b) (hsid : b.sid = a.sid) (hbase : b.base = a.base) {loc j : Idx}
    (hloc : InBounds loc a.v.dims) (hj : InBounds j b.v.dims) (x : α) :
    ∃ h' pa pb, set h a loc x = .ok h' ∧ a.v.index loc = .ok pa ∧ b.v.index j = .ok pb ∧
      get h' b j = if pb = pa then .ok x else get h b j := by
  obtain ⟨h', pa, pb, h1, h2, h3, h4⟩ := write_visible ha hb oka okb hsid hloc hj x
  refine ⟨h', pa, pb, h1, h2, h3, ?_⟩
  rw [h4, hbase]
  by_cases e : pb = pa
  · simp [e]
  · have : ¬ a.base + pb = a.base + pa := by omega
    simp [e, this]

/-- **write_visible_self.** Reading back through the writing view: `Get_a(j)` after `Set_a(loc, x)` is `x` iff
`j = loc` (uses injectivity of `Index` on in-bounds indices). -/
theorem write_visible_self {α : Type} {h : Heap α} {a : Arr} (ha : Reach a.v) (oka : ArrOK h a) {loc j : Idx}
    (hloc : InBounds loc a.v.dims) (hj : InBounds j a.v.dims) (x : α) [DecidableEq Idx] :
    ∃ h', set h a loc x = .ok h' ∧ get h' a j = if j = loc then .ok x else get h a j := by
  obtain ⟨h', pa, pb, h1, h2, h3, h4⟩ := write_visible_same_window ha ha oka oka rfl rfl hloc hj x
  refine ⟨h', h1, ?_⟩
  rw [h4]
  by_cases e : j = loc
  · subst e
    rw [h2] at h3; injection h3 with h3
    simp [h3]
  · have : ¬ pb = pa := by
      intro e'; subst e'
      exact e (index_inj ha hj hloc (by rw [h2, h3]))
    simp [e, this]

/-- **interleaved_writes_visible_partial.** (`_partial`: the histories are sequences of `Set` ONLY — `WriteOp` is one `Set`
request. The full statement, not proved: the same conclusion for histories whose writes are any of
`Set | Apply | ApplySlice | CopyFrom`, i.e. `get h' b j` = the value the LAST operation of the history wrote to that storage
cell, else the old value; for a single bulk operation this follows cell by cell from `apply_footprint` /
`applySlice_footprint` / `copyFrom_footprint` with `get_reads_cell`, the composition over histories is missing.)
All interleavings of reads and `Set`s through any views: after ANY sequence of
`Set`s, each through its own reachable array (any chain of slices, any storage, either back-end) at an in-bounds
index, nothing has panicked, the heap has kept its shape (so every array keeps its window conditions), and a `Get`
through ANY reachable array `b` at an in-bounds `j` returns the value of the LAST write of the sequence that addressed
the same storage cell (`sameCell`: same storage and `b.base + Index_b(j) = a.base + Index_a(loc)`), or — if there is
none — what it returned before the sequence. Reads do not change the heap, so this covers reads placed after every
prefix of the writes. -/
theorem interleaved_writes_visible_partial {α : Type} (ops : List (WriteOp α)) (h : Heap α)
    (hops : ∀ op ∈ ops, Reach op.arr.v ∧ ArrOK h op.arr ∧ InBounds op.loc op.arr.v.dims) :
    ∃ h', setMany h ops = .ok h' ∧ SameShape h h' ∧
      ∀ (b : Arr) (j : Idx), Reach b.v → ArrOK h b → InBounds j b.v.dims →
        get h' b j = readBack ops b j (get h b j) := by
  obtain ⟨h', h1, h2, h3⟩ := setMany_readBack ops h (fun op ho =>
    let ⟨r, ok, ib⟩ := hops op ho
    ⟨reach_geo r, ok, ib⟩)
  exact ⟨h', h1, h2, fun b j rb okb hj => h3 b j (reach_geo rb) okb hj⟩

/-- the address used by `sameCell` is the one `Index` returns -/
theorem sameCell_iff {α : Type} (op : WriteOp α) (b : Arr) (j : Idx) (ha : Reach op.arr.v) (hb : Reach b.v)
    (hloc : InBounds op.loc op.arr.v.dims) (hj : InBounds j b.v.dims) :
    sameCell op b j ↔ b.sid = op.arr.sid ∧
      ∃ pa pb, op.arr.v.index op.loc = .ok pa ∧ b.v.index j = .ok pb ∧ b.base + pb = op.arr.base + pa := by
  have e1 := index_addr (reach_geo ha) op.loc (by rw [hloc.length])
  have e2 := index_addr (reach_geo hb) j (by rw [hj.length])
  constructor
  · rintro ⟨h1, h2⟩; exact ⟨h1, _, _, e1, e2, h2⟩
  · rintro ⟨h1, pa, pb, h2, h3, h4⟩
    rw [e1] at h2; rw [e2] at h3
    injection h2 with h2; injection h3 with h3
    subst h2 h3
    exact ⟨h1, h4⟩

/-! ### window conditions: established by the constructors, preserved by every operation -/

/-- **window_conditions_preserved.** The window conditions `ArrOK` of an array depend on the heap only through its
shape (number and lengths of storages): they are preserved by `Slice` (same heap, new view), and — for every array —
by any heap change that keeps the shape, which `Set` always does (`set_preserves`) and `Apply`, `ApplySlice`,
`CopyFrom` do under the hypotheses of their footprint theorems (`SameShape` is part of each conclusion). -/
theorem window_conditions_preserved {α : Type} {h h' : Heap α} {a b : Arr} {loc dims : Idx} {step : Option Idx} :
    (ArrOK h a → slice a loc dims step = .ok b → ArrOK h b) ∧ (SameShape h h' → ArrOK h a → ArrOK h' a) :=
  ⟨fun ok hs => ok.slice hs, fun s ok => ok.sameShape s⟩


/-- **constructors_ok.** The arrays made by `NewArray`, `arrayFromSlice` (Go back-end) and `New<T>CArray` (C back-end)
on a non-empty shape with extents ≥ 1 are reachable roots satisfying the window conditions (for the two `from…`
constructors: provided the given storage holds `Π dims` elements; for C additionally `Π dims ≤ 1<<30`). -/
theorem constructors_ok {α : Type} (zero : α) (h : Heap α) {dims : Idx} (hne : dims ≠ []) (hpos : Pos dims) :
    (∃ a, newArray zero h dims = .ok (h ++ [List.replicate (product dims).toNat zero], a) ∧ a.sid = h.length ∧
        a.v.dims = dims ∧ Reach a.v ∧ ArrOK (h ++ [List.replicate (product dims).toNat zero]) a) ∧
    (∀ sid s, h[sid]? = some s → product dims ≤ s.length →
        ∃ a, fromStore h sid dims = .ok a ∧ a.sid = sid ∧ a.v.dims = dims ∧ Reach a.v ∧ ArrOK h a) ∧
    (∀ sid s, h[sid]? = some s → product dims ≤ s.length → product dims ≤ 1073741824 →
        ∃ a, fromC h sid dims = .ok a ∧ a.sid = sid ∧ a.v.dims = dims ∧ Reach a.v ∧ ArrOK h a) := by
  refine ⟨?_, fun sid s hs hf => ?_, fun sid s hs hf hb => ?_⟩
  · obtain ⟨a, h1, rfl, h3, h4⟩ := arrOK_newArray zero h hne hpos
    exact ⟨_, h1, rfl, rfl, h3, h4⟩
  · obtain ⟨a, h1, rfl, h3, h4⟩ := arrOK_fromStore hne hpos hs hf
    exact ⟨_, h1, rfl, rfl, h3, h4⟩
  · obtain ⟨a, h1, rfl, h3, h4⟩ := arrOK_fromC hne hpos hs hf hb
    exact ⟨_, h1, rfl, rfl, h3, h4⟩

/-! ### Non-vacuity: `arange(24)` → `slice([1],[10],[2])` → `slice([2],[3],[3])`, and a stepped 2-D chain -/

section Examples

/-- storage 0 = `arange(24)` -/
def h24 : Heap Int := [(List.range 24).map Int.ofNat]
def a24 : Arr := ⟨rootView [24] 0, 0, 0, 24, false⟩
/-- `a24.slice([1],[10],[2])`: elements 1,3,…,19 -/
def s1 : Arr := { a24 with v := ⟨[24], [10], 1, [1], [2], [2]⟩ }
/-- `s1.slice([2],[3],[3])`: elements 5,11,17 -/
def s2 : Arr := { a24 with v := ⟨[24], [3], 5, [1], [6], [6]⟩ }

example : fromStore h24 0 [24] = .ok a24 := by decide
example : slice a24 [1] [10] (some [2]) = .ok s1 ∧ slice s1 [2] [3] (some [3]) = .ok s2 := by decide

theorem ok1 : SliceOK a24.v.dims [1] [10] (stepOr a24.v.dims.length (some [2])) := by simp [a24, rootView, stepOr]
theorem ok2 : SliceOK s1.v.dims [2] [3] (stepOr s1.v.dims.length (some [3])) := by simp [s1, stepOr]
theorem reach_a24 : Reach a24.v := .root (dims := [24]) (by simp) (by simp [Pos]) rfl
theorem reach_s1 : Reach s1.v := .slice reach_a24 ok1 rfl
theorem reach_s2 : Reach s2.v := .slice reach_s1 ok2 rfl
theorem arrOK_a24 : ArrOK h24 a24 := ⟨⟨_, rfl, by decide⟩, by decide, by decide, by decide⟩
theorem arrOK_s1 : ArrOK h24 s1 := arrOK_a24.slice (loc := [1]) (dims := [10]) (step := some [2]) rfl
theorem arrOK_s2 : ArrOK h24 s2 := arrOK_s1.slice (loc := [2]) (dims := [3]) (step := some [3]) rfl

/-- `slice_index` instantiated on the nested stepped slice: element 2 of `s2` is element `2 + 2·3 = 8` of `s1`,
which is element `1 + 8·2 = 17` of the root -/
example : s2.v.index [2] = s1.v.index (affine [2] [2] [3]) := slice_index reach_s1 ok2 rfl [2] rfl
example : s2.v.index [2] = .ok 17 ∧ s1.v.index [8] = .ok 17 ∧ affine [2] [2] [3] = [8] := by decide

/-- `chain_index` instantiated: the chain does not panic, ends in `s2.v`, and the composed index of `[2]` is `[17]` -/
example : ChainOK a24.v.dims [([1], [10], some [2]), ([2], [3], some [3])] := ⟨ok1, ok2, trivial⟩
example : sliceChain a24.v [([1], [10], some [2]), ([2], [3], some [3])] = .ok s2.v ∧
    chainIndex 1 [([1], [10], some [2]), ([2], [3], some [3])] [2] = [17] ∧
    (∀ k ∈ [0, 1, 2], s2.v.index [k] = a24.v.index (chainIndex 1 [([1], [10], some [2]), ([2], [3], some [3])] [k])) := by
  decide

/-- `get_slice` instantiated: the slice reads 5, 11, 17 — the parent's elements at 2, 5, 8 -/
example : (get h24 s2 [1]) = get h24 s1 (affine [2] [1] [3]) :=
  (get_slice h24 reach_s1 ok2 (by decide) [1] rfl).1
example : [get h24 s2 [0], get h24 s2 [1], get h24 s2 [2]] = [.ok 5, .ok 11, .ok 17] ∧
    [get h24 s1 [2], get h24 s1 [5], get h24 s1 [8]] = [.ok 5, .ok 11, .ok 17] := by decide

/-- `set_footprint` / `write_visible` instantiated: writing 99 at `s2[1]` changes exactly storage position 11;
it is seen through `a24` at `[11]` and through `s1` at `[5]`, and nowhere else -/
example : set h24 s2 [1] 99 = .ok [((List.range 24).map Int.ofNat).set 11 99] := by decide
example : ∃ h', set h24 s2 [1] 99 = .ok h' ∧ get h' a24 [11] = .ok 99 ∧ get h' s1 [5] = .ok 99 ∧
    get h' s1 [4] = .ok 9 ∧ get h' s2 [0] = .ok 5 ∧ get h' s2 [2] = .ok 17 := ⟨_, rfl, by decide⟩
example : ∃ h' pa pb, set h24 s2 [1] 99 = .ok h' ∧ s2.v.index [1] = .ok pa ∧ s1.v.index [5] = .ok pb ∧
    get h' s1 [5] = if pb = pa then .ok 99 else get h24 s1 [5] :=
  write_visible_same_window reach_s2 reach_s1 arrOK_s2 arrOK_s1 rfl rfl (by simp [s2]) (by simp [s1]) 99

/-- `root_index_bijection` on the shape `[2, 3]` (the constructor's root view) -/
example := root_index_bijection (D := [2, 3]) (v := rootView [2, 3] 0) (by simp) (by simp [Pos]) rfl
example : (rootView [2, 3] 0).index [1, 2] = .ok 5 ∧ ravel [1, 2] [2, 3] = 5 ∧ unravel 5 [2, 3] = [1, 2] := by decide

/-- `index_inbounds` / `index_inj` / `get_reads_cell` on the nested stepped slice `s2` (elements 5, 11, 17 of 24) -/
example : ∃ p, s2.v.index [2] = .ok p ∧ 0 ≤ p ∧ p < product s2.v.orig := index_inbounds reach_s2 (by simp [s2])
example (h : s2.v.index [0] = s2.v.index [2]) : ([0] : Idx) = [2] := index_inj reach_s2 (by simp [s2]) (by simp [s2]) h
example : s2.v.index [0] ≠ s2.v.index [2] := by decide
example : ∃ p x, s2.v.index [1] = .ok p ∧ 0 ≤ p ∧ p < product s2.v.orig ∧
    cell h24 s2.sid (s2.base + p).toNat = some x ∧ get h24 s2 [1] = .ok x :=
  get_reads_cell reach_s2 arrOK_s2 (by simp [s2])

/-- `set_preserves` on the write of 99 at `s2[1]`; `apply_empty` on `s1` (no values, any step: nothing changes) -/
example := set_preserves (h := h24) (a := s2) (loc := [1]) (x := (99 : Int)) (h' := [((List.range 24).map Int.ofNat).set 11 99])
  (by decide)
example : apply h24 s1 [3] ((0 : Nat) : Int) 7 ([] : List Int) = .ok h24 :=
  apply_empty reach_s1 arrOK_s1 7 (by simp [s1]) (by simp [s1])

/-- `constructors_ok` on the shape `[2, 3]` over the heap `h24` (a fresh zero storage; the existing storage 0 as a Go
slice and as a C buffer) -/
example := constructors_ok (0 : Int) h24 (dims := [2, 3]) (by simp) (by simp [Pos])
example : ∃ a, fromC h24 0 [2, 3] = .ok a ∧ a.sid = 0 ∧ a.v.dims = [2, 3] ∧ Reach a.v ∧ ArrOK h24 a :=
  (constructors_ok (0 : Int) h24 (dims := [2, 3]) (by simp) (by simp [Pos])).2.2 0 _ rfl (by decide) (by decide)

/-- The composition of `SliceInto` before the repair (`Start` from `Offset` instead of `OffsetStep`; the parent's
step multiplied into `Offset` as well as into `Step`, hence applied twice). -/
def sliceIntoOld (v : View) (loc dims : Idx) (step : Option Idx) : R View := do
  let d ← dotProduct loc v.offset
  let off ← multiply v.offset v.step
  let st ← match step with
    | none => pure v.step
    | some s => multiply v.step s
  let os ← multiply st off
  pure { orig := v.orig, dims := dims, start := v.start + d, offset := off, step := st, offStep := os }

/-- **old_composition_counterexample.** With the pre-repair composition the same nested slice addresses element 27 of a
24-element array (a panic in Go), where the affine law requires element 17. -/
theorem old_composition_counterexample :
    (do let w1 ← sliceIntoOld a24.v [1] [10] (some [2])
        let w2 ← sliceIntoOld w1 [2] [3] (some [3])
        w2.index [2]) = .ok 27 ∧
    (do let w1 ← a24.v.sliceInto [1] [10] (some [2])
        let w2 ← w1.sliceInto [2] [3] (some [3])
        w2.index [2]) = .ok 17 := by decide

/-- a rank-2 instance with `step = nil` on the inner slice: `[4,6]` → `slice([1,0],[2,3],[1,2])` → `slice([0,1],[2,2],nil)`;
element `[1,1]` of the innermost view is root element `[2,4]` = address 16 -/
example : ∃ r w1 w2, View.root [4, 6] = .ok r ∧ r.sliceInto [1, 0] [2, 3] (some [1, 2]) = .ok w1 ∧
    w1.sliceInto [0, 1] [2, 2] none = .ok w2 ∧ SliceOK r.dims [1, 0] [2, 3] (stepOr 2 (some [1, 2])) ∧
    SliceOK w1.dims [0, 1] [2, 2] (stepOr 2 none) ∧
    w2.index [1, 1] = .ok 16 ∧ r.index [2, 4] = .ok 16 ∧
    chainIndex 2 [([1, 0], [2, 3], some [1, 2]), ([0, 1], [2, 2], none)] [1, 1] = [2, 4] :=
  ⟨_, _, _, rfl, rfl, rfl, by simp [stepOr], by simp [stepOr, uniform], by decide, by decide, by decide⟩

/-- `interleaved_writes_visible_partial` instantiated: three writes through three different views of one storage; position 11
is written twice (through `s2[1]` then through `s1[5]`) — every view reads the last value -/
def ops3 : List (WriteOp Int) := [⟨s2, [1], 99⟩, ⟨s1, [5], 77⟩, ⟨a24, [3], 55⟩]
example : ∃ h', setMany h24 ops3 = .ok h' ∧ SameShape h24 h' ∧
    ∀ (b : Arr) (j : Idx), Reach b.v → ArrOK h24 b → InBounds j b.v.dims →
      get h' b j = readBack ops3 b j (get h24 b j) :=
  interleaved_writes_visible_partial ops3 h24 (by
    intro op ho
    simp only [ops3, List.mem_cons, List.not_mem_nil, or_false] at ho
    rcases ho with rfl | rfl | rfl
    · exact ⟨reach_s2, arrOK_s2, by simp [s2]⟩
    · exact ⟨reach_s1, arrOK_s1, by simp [s1]⟩
    · exact ⟨reach_a24, arrOK_a24, by simp [a24, rootView]⟩)
example : ∃ h', setMany h24 ops3 = .ok h' ∧ get h' a24 [11] = .ok 77 ∧ get h' s2 [1] = .ok 77 ∧
    get h' s1 [1] = .ok 55 ∧ get h' s1 [4] = .ok 9 ∧
    readBack ops3 s2 [1] (get h24 s2 [1]) = .ok 77 ∧ readBack ops3 s1 [4] (get h24 s1 [4]) = .ok 9 :=
  ⟨_, rfl, by decide⟩

/-! #### bulk writes -/

/-- a `4 × 6` array of zeros in storage 0, and a `2 × 3` source `[[1,2,3],[4,5,6]]` in storage 1 -/
def hB : Heap Int := [List.replicate 24 0, [1, 2, 3, 4, 5, 6]]
def a46 : Arr := ⟨rootView [4, 6] 0, 0, 0, 24, false⟩
def c46 : Arr := { a46 with isC := true }
def src23 : Arr := ⟨rootView [2, 3] 0, 1, 0, 6, false⟩

theorem reach_a46 : Reach a46.v := .root (dims := [4, 6]) (by simp) (by simp [Pos]) rfl
theorem reach_src23 : Reach src23.v := .root (dims := [2, 3]) (by simp) (by simp [Pos]) rfl
theorem arrOK_a46 : ArrOK hB a46 := ⟨⟨_, rfl, by decide⟩, by decide, by decide, by decide⟩
theorem arrOK_c46 : ArrOK hB c46 := ⟨⟨_, rfl, by decide⟩, by decide, by decide, by decide⟩
theorem arrOK_src23 : ArrOK hB src23 := ⟨⟨_, rfl, by decide⟩, by decide, by decide, by decide⟩

/-- `apply_footprint` / `apply_paths_agree` instantiated: a stepped run along the last axis (loop path), a unit-step run
along the last axis (contiguous fast path) and a run along the first axis; Go and C back-ends give the same heap -/
example : ∃ h', apply hB a46 [1, 1] (1 : Nat) 2 [7, 8, 9] = .ok h' ∧ SameShape hB h' :=
  let ⟨h', e, s, _⟩ := apply_footprint (l := 1) (D := 6) reach_a46 arrOK_a46 (by simp [a46, rootView]) rfl rfl
    (by simp) (by decide) (by decide)
  ⟨h', e, s⟩
example : apply hB a46 [1, 1] 1 2 [7, 8, 9] =
    .ok [[0,0,0,0,0,0, 0,7,0,8,0,9, 0,0,0,0,0,0, 0,0,0,0,0,0], [1, 2, 3, 4, 5, 6]] ∧
    apply hB a46 [2, 1] 1 1 [7, 8, 9] =
    .ok [[0,0,0,0,0,0, 0,0,0,0,0,0, 0,7,8,9,0,0, 0,0,0,0,0,0], [1, 2, 3, 4, 5, 6]] ∧
    apply hB a46 [0, 2] 0 1 [7, 8, 9, 6] =
    .ok [[0,0,7,0,0,0, 0,0,8,0,0,0, 0,0,9,0,0,0, 0,0,6,0,0,0], [1, 2, 3, 4, 5, 6]] ∧
    apply hB c46 [1, 1] 1 2 [7, 8, 9] = apply hB a46 [1, 1] 1 2 [7, 8, 9] ∧
    apply hB c46 [2, 1] 1 1 [7, 8, 9] = apply hB a46 [2, 1] 1 1 [7, 8, 9] := by decide

/-- the hypothesis `1 ≤ step` of `apply_paths_agree` is needed: for `step = -1` (or `0`) `Contiguous()` only tests
`Step > 1`, so the Go back-end takes the fast path and writes FORWARD from `loc`, while the element loop (C back-end)
writes backward (or, for `step = 0`, repeatedly at `loc`). Outside the property's quantifier (steps ≥ 1). -/
example : apply h24 a24 [5] 0 (-1) [100, 101, 102] =
      .ok [((((List.range 24).map Int.ofNat).set 5 100).set 6 101).set 7 102] ∧
    apply h24 { a24 with isC := true } [5] 0 (-1) [100, 101, 102] =
      .ok [((((List.range 24).map Int.ofNat).set 5 100).set 4 101).set 3 102] := by decide

/-- `applySlice_footprint` instantiated: the `2 × 3` source written at `loc = [1,0]`, `step = [2,2]` lands at
`(1,0),(1,2),(1,4),(3,0),(3,2),(3,4)`; with `step = nil` at `loc = [2,3]` it is contiguous row by row only (loop path);
Go and C back-ends agree; the source storage is untouched -/
theorem okS_B : SliceOK a46.v.dims [1, 0] src23.v.dims (stepOr a46.v.dims.length (some [2, 2])) := by
  simp [a46, src23, rootView, stepOr]
example : ∃ h', applySlice hB a46 [1, 0] (some [2, 2]) src23 = .ok h' ∧ SameShape hB h' :=
  let ⟨h', e, s, _⟩ := applySlice_footprint reach_a46 arrOK_a46 reach_src23 arrOK_src23 (by decide) okS_B
  ⟨h', e, s⟩
example : applySlice hB a46 [1, 0] (some [2, 2]) src23 =
    .ok [[0,0,0,0,0,0, 1,0,2,0,3,0, 0,0,0,0,0,0, 4,0,5,0,6,0], [1, 2, 3, 4, 5, 6]] ∧
    applySlice hB a46 [2, 3] none src23 =
    .ok [[0,0,0,0,0,0, 0,0,0,0,0,0, 0,0,0,1,2,3, 0,0,0,4,5,6], [1, 2, 3, 4, 5, 6]] ∧
    applySlice hB c46 [1, 0] (some [2, 2]) src23 = applySlice hB a46 [1, 0] (some [2, 2]) src23 ∧
    applySlice hB c46 [2, 3] none src23 = applySlice hB a46 [2, 3] none src23 := by decide

/-- the fast path of `ApplySlice` (destination contiguous: a full-width block of rows) with a contiguous (aliased) and
with a gathered source: `[4,6]` ← rows 1..2 from a `2 × 6` source -/
example : let hS : Heap Int := [List.replicate 24 0, (List.range 12).map Int.ofNat]
    let s26 : Arr := ⟨rootView [2, 6] 0, 1, 0, 12, false⟩
    applySlice hS a46 [1, 0] none s26 =
      .ok [[0,0,0,0,0,0, 0,1,2,3,4,5, 6,7,8,9,10,11, 0,0,0,0,0,0], (List.range 12).map Int.ofNat] ∧
    applySlice hS c46 [1, 0] none s26 = applySlice hS a46 [1, 0] none s26 ∧
    applySlice hS a46 [1, 0] none { s26 with isC := true } = applySlice hS a46 [1, 0] none s26 := by decide

/-- `copyFrom_footprint` instantiated on two `2 × 3` arrays in different storages -/
example : let hC : Heap Int := [List.replicate 6 0, [1, 2, 3, 4, 5, 6]]
    let d23 : Arr := ⟨rootView [2, 3] 0, 0, 0, 6, false⟩
    copyFrom hC d23 src23 = .ok [[1, 2, 3, 4, 5, 6], [1, 2, 3, 4, 5, 6]] := by decide

/-- the exclusion `src.sid ≠ a.sid` of `applySlice_footprint` is needed: copying elements `0..2` of a storage onto
elements `1..3` of the SAME storage, the Go fast path (`copy` = memmove) gives `0 0 1 2`, the element loop of the C
back-end gives `0 0 0 0` -/
example : let a : Arr := ⟨rootView [6] 0, 0, 0, 24, false⟩
    let s : Arr := ⟨⟨[6], [3], 0, [1], [1], [1]⟩, 0, 0, 24, false⟩
    (do let h' ← applySlice h24 a [1] none s; (List.range 4).mapM (fun k => get h' a [Int.ofNat k])) = .ok [0, 0, 1, 2] ∧
    (do let h' ← applySlice h24 { a with isC := true } [1] none s
        (List.range 4).mapM (fun k => get h' a [Int.ofNat k])) = .ok [0, 0, 0, 0] := by decide

end Examples

end OW.Props.C01
