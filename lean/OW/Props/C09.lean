import OW.Gen.Catalog
/-!
C09 — catalogue part: every OW-SPEC model is registered in the catalogue under its name and its Description lists
the spec's parameters (defaults, ranges, dimensions), inputs, states and outputs in spec order.

This is a finite fact about the present tree (level translation_validation, not proof): `OW/Gen/Catalog.lean` is
REGENERATED from the working tree on every run of `bin/check C09` (spec side by the independent extractor
`owextract`, catalogue side by `owharness catalog` on the real code) and the comparison is evaluated by the Lean
kernel there. The byte-for-byte part of C09 (generated files = generator output) is checked outside Lean
(`vlib/c09.py`). Exempt from the range comparison: spec ranges with an open end (`[0,]`), which the present generator
cannot express — a known finding reported by the check's oracle channel.
-/
namespace OW.Props.C09
open OW.Spec.Catalog OW.Gen.Catalog

/-- The Boolean comparison of the regenerated data (kernel-evaluated in `OW.Gen.Catalog`). -/
theorem catalog_matches : checkCatalog specs descs = true := OW.Gen.Catalog.catalog_matches

/-- Every spec model of the present tree has a catalogue entry under its name, built from the Go type of that name in
the spec's package, whose Description lists the spec's parameters (same order; same dimensions, default and closed
range), inputs, states and outputs, in spec order. -/
theorem catalogue_lists_every_spec : ∀ s ∈ specs, ∃ d ∈ descs, Agrees s d :=
  checkCatalog_sound catalog_matches

/-- Consequence in terms of names: the catalogue's parameter names are the spec's, in order. -/
theorem catalogue_parameter_names : ∀ s ∈ specs, ∃ d ∈ descs, d.name = s.name ∧
    d.params.map (·.name) = s.params.map (·.name) ∧ d.inputs = s.inputs ∧ d.states = s.states ∧ d.outputs = s.outputs := by
  intro s hs
  obtain ⟨d, hd, a⟩ := catalogue_lists_every_spec s hs
  exact ⟨d, hd, a.name, a.params.names_eq, a.inputs, a.states, a.outputs⟩

/-- Non-vacuity: the regenerated data is not empty and the check can fail (a spec model absent from an empty
catalogue; a changed default). -/
example : specs ≠ [] ∧ descs ≠ [] := by decide
example : checkCatalog [⟨"M", "M", "p", [], [], [], []⟩] [] = false := by decide
example : checkCatalog [⟨"M", "M", "p", [⟨"k", [], 1, 0, 0, false, false⟩], [], [], []⟩]
    [⟨"M", "M", "p", [⟨"k", [], 0, 0, 0, false, false⟩], [], [], []⟩] = false := by decide
example : checkCatalog [⟨"M", "M", "p", [], ["a", "b"], [], []⟩] [⟨"M", "M", "p", [], ["b", "a"], [], []⟩] = false := by decide

end OW.Props.C09
