import OW.Proofs.SacramentoInvCex
/-!
C10 for Sacramento — beyond the channel stage (`sacramento_channel_nonneg`, OW/Props/C10.lean): the state invariant through the
drainage-and-percolation loop, non-negativity of every output, and the water budget for every prefix of every run.

Kernel model: OW/Kernels/Sacramento.lean (mirror of models/rr/sacramento.go as repaired by the ratio clamp and the
fracp clamp). Theorems are over exact real arithmetic (`Num ℝ`). Proof structure (OW/Proofs/SacramentoInv*.lean):
the kernel is cut into named zones (each cut is `rfl`), every zone has its own lemma, one pass of the loop
(`incBody_spec`) keeps a loop invariant and moves water without creating any, `incLoop_spec` is the induction over
the `ninc` passes, `step_spec` assembles one time step, and `RR.scan_budget_le` / `RR.prefix_budget` lift it to runs.

Hypotheses (`RR.Sac.ParamsOk`): capacities > 0, `5 ≤ lztwm`, rates/fractions in [0,1], `pctim + adimp ≤ 1`,
`side, ssout, sarva, zperc ≥ 0`, unit-hydrograph proportions ≥ 0 with positive sum; NO condition on `rexp`.
Inputs: rain ≥ 0, 0 ≤ PET ≤ uztwm + lztwm for the invariant and the budget; for e5 ≥ 0 (hence reported actual
evapotranspiration ≥ 0) additionally PET·uzfwm ≤ lztwm·(uztwm + uzfwm) (`RR.Sac.PetOk`; both follow from PET ≤ lztwm).
Both restrictions are needed: see the counter-examples at the end of this file.
-/
namespace OW.Props.C10Sacramento
open OW OW.Kernels OW.RR.Sac

/-! ## Divisors -/

/-- Every divisor of a time step is non-zero under `ParamsOk`: `uztwm`, `uzfwm`, `lztwm`, `uztwm + uzfwm`,
`uztwm + lztwm`, `alzfpm`, `alzfsm`, `alzfpm + alzfsm`, `alzfpm + alzfsm + lztwm`, `alzfpm + alzfsm − saved + lztwm`,
`1 + side`, the unit-hydrograph sum (the remaining ones are proved where they occur: `ninc ≥ 1` in `ninc_spec`,
`pinc > 0` in `addro_form`, `pav > 5.08` in `adj_spec`, `ratlp + ratls > 0` in `ratl_sum_pos`,
`flwbf + flwsf > 0` by the guard of the code). -/
theorem sacramento_divisors_pos (p : Sacramento.Params ℝ) (hp : ParamsOk p) :
    p.uztwm ≠ 0 ∧ p.uzfwm ≠ 0 ∧ p.lztwm ≠ 0 ∧ p.uztwm + p.uzfwm ≠ 0 ∧ p.uztwm + p.lztwm ≠ 0 ∧
    (Sacramento.consts p).alzfpm ≠ 0 ∧ (Sacramento.consts p).alzfsm ≠ 0 ∧
    (Sacramento.consts p).alzfpm + (Sacramento.consts p).alzfsm ≠ 0 ∧
    (Sacramento.consts p).alzfpm + (Sacramento.consts p).alzfsm + p.lztwm ≠ 0 ∧
    (Sacramento.consts p).alzfpm + (Sacramento.consts p).alzfsm - (Sacramento.consts p).saved + p.lztwm ≠ 0 ∧
    1 + p.side ≠ 0 ∧ p.uh1 + p.uh2 + p.uh3 + p.uh4 + p.uh5 ≠ 0 := by
  have hc := consts_ok p hp
  have h1 := hp.uztwm
  have h2 := hp.uzfwm
  have h3 := hp.lztwm_pos
  have h4 := hc.pm
  have h5 := hc.sm
  have h6 := hc.saved1
  have h7 := hp.side0
  exact ⟨h1.ne', h2.ne', h3.ne', by positivity, by positivity, h4.ne', h5.ne', by positivity, by positivity,
    by linarith, by linarith, hp.uhs.ne'⟩

/-! ## S1 + S2: invariant and non-negative outputs -/

/-- the bounds of the reported stores that the oracle checks, and the bound on the additional impervious store -/
theorem sacramento_store_bounds (p : Sacramento.Params ℝ) (hp : ParamsOk p) (st : Sacramento.State ℝ)
    (hs : SacInv p st) :
    (0 ≤ st.uztwc ∧ st.uztwc ≤ p.uztwm) ∧ (0 ≤ st.uzfwc ∧ st.uzfwc ≤ p.uzfwm) ∧
    (0 ≤ st.lztwc ∧ st.lztwc ≤ p.lztwm) ∧ (0 ≤ st.lzfpc ∧ st.lzfpc ≤ p.lzfpm) ∧
    (0 ≤ st.lzfsc ∧ st.lzfsc ≤ p.lzfsm) ∧ (0 ≤ st.adimc ∧ st.adimc ≤ p.uztwm + 5 / 4 * p.lztwm) := by
  have hside : 0 < 1 + p.side := by linarith [hp.side0]
  have h1 : 0 ≤ st.lzfpc := by
    have : 0 ≤ st.lzfpc * (1 + p.side) := by rw [hs.cp]; exact hs.p0
    exact nonneg_of_mul_nonneg_left this hside
  have h2 : st.lzfpc ≤ p.lzfpm := by
    have : st.lzfpc * (1 + p.side) ≤ p.lzfpm * (1 + p.side) := by rw [hs.cp]; exact hs.p1
    exact le_of_mul_le_mul_right this hside
  have h3 : 0 ≤ st.lzfsc := by
    have : 0 ≤ st.lzfsc * (1 + p.side) := by rw [hs.cs]; exact hs.s0
    exact nonneg_of_mul_nonneg_left this hside
  have h4 : st.lzfsc ≤ p.lzfsm := by
    have : st.lzfsc * (1 + p.side) ≤ p.lzfsm * (1 + p.side) := by rw [hs.cs]; exact hs.s1
    exact le_of_mul_le_mul_right this hside
  exact ⟨⟨hs.tw0, hs.tw1⟩, ⟨hs.fw0, hs.fw1⟩, ⟨hs.lt0, hs.lt1⟩, ⟨h1, h2⟩, ⟨h3, h4⟩, hs.a0,
    by linarith [hs.a1, hs.tw1]⟩

/-- **Invariant (S1, S2).** Parameters in range, rain ≥ 0 and 0 ≤ PET ≤ uztwm + lztwm, initial state within the
invariant: after every run the state is within the invariant (every store between zero and its capacity, see
`sacramento_store_bounds`), and on every step runoff, baseflow, surfaceRunoff, imperviousRunoff and the evaporation
parts e1…e4 are non-negative, runoff = surfaceRunoff + baseflow and actualET = e1 + e2 + e3 + e4 + e5. -/
theorem sacramento_invariant (p : Sacramento.Params ℝ) (hp : ParamsOk p) (s : Sacramento.State ℝ)
    (hs : SacInv p s) (xs : List (ℝ × ℝ)) (hx : ∀ x ∈ xs, InOk p x) :
    SacInv p (Sacramento.run p s xs).1 ∧ ∀ o ∈ (Sacramento.run p s xs).2, OutOk o := by
  have h := RR.scan_budget_le (Sacramento.step p (Sacramento.consts p)) (SacInv p) (InOk p) (stor p)
    (fun x => x.1) (fun o => o.runoff + o.actualET) OutOk (fun s x hs hx => hstep p hp s x hs hx) xs s hs hx
  exact ⟨h.1, h.2.2⟩

/-- **All outputs non-negative (S2).** If moreover PET·uzfwm ≤ lztwm·(uztwm + uzfwm) on every step (e.g. PET ≤ lztwm),
the fifth evaporation part e5 and the reported actual evapotranspiration are non-negative as well. -/
theorem sacramento_outputs_nonneg (p : Sacramento.Params ℝ) (hp : ParamsOk p) (s : Sacramento.State ℝ)
    (hs : SacInv p s) (xs : List (ℝ × ℝ)) (hx : ∀ x ∈ xs, InOkPet p x) :
    ∀ o ∈ (Sacramento.run p s xs).2, OutOk o ∧ 0 ≤ o.e5 ∧ 0 ≤ o.actualET :=
  (RR.scan_budget_le (Sacramento.step p (Sacramento.consts p)) (SacInv p) (InOkPet p) (stor p)
    (fun x => x.1) (fun o => o.runoff + o.actualET) (fun o => OutOk o ∧ 0 ≤ o.e5 ∧ 0 ≤ o.actualET)
    (fun s x hs hx => hstepPet p hp s x hs hx) xs s hs hx).2.2

/-- **Nominal capacity of the additional impervious store.** With `lztwm ≥ 10` (every rain increment of the drainage
loop, below 5 mm, is then at most `lztwm/2`) the excess `adimc − uztwc` never exceeds `lztwm`: the saturation ratio of
the ADIMP area stays ≤ 1 and `adimc ≤ uztwm + lztwm`. For `5 ≤ lztwm < 10` only `adimc ≤ uztwm + 5/4·lztwm`
(`sacramento_store_bounds`) holds: with uztwm 1, lztwm 5, uzk 1 and rain [3.5, 0, 4.9] mm from the empty state the Go
code ends with AdditionalImperviousStore = 7.175 > 6. -/
theorem sacramento_adimc_capacity (p : Sacramento.Params ℝ) (hp : ParamsOk p) (h10 : 10 ≤ p.lztwm)
    (s : Sacramento.State ℝ) (hs : SacInv p s) (hG : s.adimc - s.uztwc ≤ p.lztwm) (xs : List (ℝ × ℝ))
    (hx : ∀ x ∈ xs, InOk p x) :
    (Sacramento.run p s xs).1.adimc - (Sacramento.run p s xs).1.uztwc ≤ p.lztwm ∧
    (Sacramento.run p s xs).1.adimc ≤ p.uztwm + p.lztwm := by
  have h := (RR.scan_budget_le (Sacramento.step p (Sacramento.consts p))
    (fun s => SacInv p s ∧ s.adimc - s.uztwc ≤ p.lztwm) (InOk p) (fun _ => 0) (fun _ => 0) (fun _ => 0)
    (fun _ => True)
    (fun s x hs hx => ⟨⟨(hstep p hp s x hs.1 hx).1, step_G p hp h10 s x hs.1 hx.1 hx.2.1 hx.2.2 hs.2⟩,
      le_refl _, trivial⟩) xs s ⟨hs, hG⟩ hx).1
  unfold Sacramento.run
  exact ⟨h.2, by linarith [h.2, h.1.tw1]⟩

/-! ## S3: the water budget -/

/-- **Budget invariant (S3).** Σ runoff + Σ reported actual evapotranspiration + water held at the end
≤ Σ rainfall + water held initially, where water held = (1 − pctim − adimp)·(uztwc + uzfwc + lztwc +
(1+side)·(lzfpc + lzfsc)) + adimp·adimc + water in transit in the unit hydrograph. (Not an equality: the code loses
the `side/(1+side)` share of the baseflow and the channel loss `min(ssout, ·)`.) -/
theorem sacramento_budget (p : Sacramento.Params ℝ) (hp : ParamsOk p) (s : Sacramento.State ℝ)
    (hs : SacInv p s) (xs : List (ℝ × ℝ)) (hx : ∀ x ∈ xs, InOk p x) :
    ((Sacramento.run p s xs).2.map (fun o => o.runoff + o.actualET)).sum + stor p (Sacramento.run p s xs).1 ≤
      (xs.map (·.1)).sum + stor p s :=
  (RR.scan_budget_le (Sacramento.step p (Sacramento.consts p)) (SacInv p) (InOk p) (stor p)
    (fun x => x.1) (fun o => o.runoff + o.actualET) OutOk (fun s x hs hx => hstep p hp s x hs hx) xs s hs hx).2.1

/-- **No water created (S3), every prefix**: Σ_{t<n} (runoff + actualET) ≤ Σ_{t<n} rain + water held initially. -/
theorem sacramento_no_water_created_from (p : Sacramento.Params ℝ) (hp : ParamsOk p) (s : Sacramento.State ℝ)
    (hs : SacInv p s) (xs : List (ℝ × ℝ)) (hx : ∀ x ∈ xs, InOk p x) (n : ℕ) :
    (((Sacramento.run p s xs).2.take n).map (fun o => o.runoff + o.actualET)).sum ≤
      ((xs.take n).map (·.1)).sum + stor p s :=
  RR.prefix_budget (Sacramento.step p (Sacramento.consts p)) (SacInv p) (InOk p) (stor p)
    (fun x => x.1) (fun o => o.runoff + o.actualET) OutOk (fun s x hs hx => hstep p hp s x hs hx)
    (fun s hs => stor_nonneg p hp s hs) xs s hs hx n

/-! ## Runs as the model performs them: from a state row, with an empty unit-hydrograph buffer -/

/-- **The oracle's end-of-run budget.** For a call of the model on a state row within the invariant:
Σ (runoff + actualET) + held(final reported state) ≤ Σ rain + held(initial state row) — exactly the inequality
`endBudget` of harness/cmd/owharness/oracle_C10.go evaluates on the implementation (the water still in the
unit-hydrograph buffer at the end of the call is dropped by the code and only lowers the left-hand side). -/
theorem sacramento_oracle_end_budget (p : Sacramento.Params ℝ) (hp : ParamsOk p) (s0 s1 s2 s3 s4 s5 : ℝ)
    (h : RowInv p s0 s1 s2 s3 s4 s5) (xs : List (ℝ × ℝ)) (hx : ∀ x ∈ xs, InOk p x) :
    ((Sacramento.run p (stateOfRow p s0 s1 s2 s3 s4 s5) xs).2.map (fun o => o.runoff + o.actualET)).sum +
        held p (Sacramento.run p (stateOfRow p s0 s1 s2 s3 s4 s5) xs).1 ≤
      (xs.map (·.1)).sum + held p (stateOfRow p s0 s1 s2 s3 s4 s5) := by
  have hs := stateOfRow_inv p hp s0 s1 s2 s3 s4 s5 h
  have hb := sacramento_budget p hp _ hs xs hx
  have hi := (sacramento_invariant p hp _ hs xs hx).1
  rw [stor_eq_held p _ hi, stateOfRow_stor p hp s0 s1 s2 s3 s4 s5 h] at hb
  have := uhStor_nonneg p hp _ hi
  linarith

/-- **The oracle's prefix budget**: for every n, Σ_{t<n} (runoff + actualET) ≤ Σ_{t<n} rain + held(initial state row). -/
theorem sacramento_oracle_prefix_budget (p : Sacramento.Params ℝ) (hp : ParamsOk p) (s0 s1 s2 s3 s4 s5 : ℝ)
    (h : RowInv p s0 s1 s2 s3 s4 s5) (xs : List (ℝ × ℝ)) (hx : ∀ x ∈ xs, InOk p x) (n : ℕ) :
    (((Sacramento.run p (stateOfRow p s0 s1 s2 s3 s4 s5) xs).2.take n).map (fun o => o.runoff + o.actualET)).sum ≤
      ((xs.take n).map (·.1)).sum + held p (stateOfRow p s0 s1 s2 s3 s4 s5) := by
  have hs := stateOfRow_inv p hp s0 s1 s2 s3 s4 s5 h
  have hb := sacramento_no_water_created_from p hp _ hs xs hx n
  rw [stateOfRow_stor p hp s0 s1 s2 s3 s4 s5 h] at hb
  exact hb

/-! ## S4: runs from the model's own initial state -/

/-- **No water created (S4).** From the model's own initial state (all stores empty — `InitialiseStates` returns
zeros), for every prefix of every run with rain ≥ 0 and 0 ≤ PET ≤ uztwm + lztwm:
cumulative runoff + cumulative reported actual evapotranspiration ≤ cumulative rainfall. -/
theorem sacramento_no_water_created (p : Sacramento.Params ℝ) (hp : ParamsOk p) (xs : List (ℝ × ℝ))
    (hx : ∀ x ∈ xs, InOk p x) (n : ℕ) :
    (((Sacramento.run p (stateOfRow p 0 0 0 0 0 0) xs).2.take n).map (fun o => o.runoff + o.actualET)).sum ≤
      ((xs.take n).map (·.1)).sum := by
  have h := sacramento_oracle_prefix_budget p hp 0 0 0 0 0 0 (zeroRow_inv p hp) xs hx n
  rw [zeroRow_held, add_zero] at h
  exact h

/-- in particular cumulative runoff alone, when the reported evapotranspiration is non-negative (`InOkPet`) -/
theorem sacramento_runoff_le_rain (p : Sacramento.Params ℝ) (hp : ParamsOk p) (xs : List (ℝ × ℝ))
    (hx : ∀ x ∈ xs, InOkPet p x) (n : ℕ) :
    (((Sacramento.run p (stateOfRow p 0 0 0 0 0 0) xs).2.take n).map (·.runoff)).sum ≤
      ((xs.take n).map (·.1)).sum := by
  have h := sacramento_no_water_created p hp xs (fun x hx' => (hx x hx').1) n
  have hpos := sacramento_outputs_nonneg p hp _ (stateOfRow_inv p hp 0 0 0 0 0 0 (zeroRow_inv p hp)) xs hx
  have hle : ∀ l : List (Sacramento.Out ℝ), (∀ o ∈ l, 0 ≤ o.actualET) →
      (l.map (·.runoff)).sum ≤ (l.map (fun o => o.runoff + o.actualET)).sum := by
    intro l hl
    induction l with
    | nil => simp
    | cons o os ih =>
      have h0 := hl o (List.mem_cons_self ..)
      have := ih (fun o' ho' => hl o' (List.mem_cons_of_mem _ ho'))
      simp only [List.map_cons, List.sum_cons]
      linarith
  exact le_trans (hle _ (fun o ho => (hpos o (List.mem_of_mem_take ho)).2.2)) h

/-- the runs of these theorems are the runs of the catalogued model: `Sacramento.model.run` on a parameter column, the
two input series and a state row is `Sacramento.run` from `stateOfRow` on the zipped inputs (outputs in the order
actualET, runoff, imperviousRunoff, surfaceRunoff, baseflow; reported states as in the state row) -/
theorem sacramento_model_run (p : Sacramento.Params ℝ) (rain pet : List ℝ) (s0 s1 s2 s3 s4 s5 : ℝ) :
    (Sacramento.model (α := ℝ)).run
      [p.lzpk, p.lzsk, p.uzk, p.uztwm, p.uzfwm, p.lztwm, p.lzfsm, p.lzfpm, p.pfree, p.rexp, p.zperc, p.side, p.ssout,
        p.pctim, p.adimp, p.sarva, p.rserv, p.uh1, p.uh2, p.uh3, p.uh4, p.uh5] [rain, pet] [s0, s1, s2, s3, s4, s5] =
    .ok { outputs := [(Sacramento.run p (stateOfRow p s0 s1 s2 s3 s4 s5) (rain.zip pet)).2.map (·.actualET),
                      (Sacramento.run p (stateOfRow p s0 s1 s2 s3 s4 s5) (rain.zip pet)).2.map (·.runoff),
                      (Sacramento.run p (stateOfRow p s0 s1 s2 s3 s4 s5) (rain.zip pet)).2.map (·.imperviousRunoff),
                      (Sacramento.run p (stateOfRow p s0 s1 s2 s3 s4 s5) (rain.zip pet)).2.map (·.surfaceRunoff),
                      (Sacramento.run p (stateOfRow p s0 s1 s2 s3 s4 s5) (rain.zip pet)).2.map (·.baseflow)],
          states := [(Sacramento.run p (stateOfRow p s0 s1 s2 s3 s4 s5) (rain.zip pet)).1.uztwc,
                     (Sacramento.run p (stateOfRow p s0 s1 s2 s3 s4 s5) (rain.zip pet)).1.uzfwc,
                     (Sacramento.run p (stateOfRow p s0 s1 s2 s3 s4 s5) (rain.zip pet)).1.lztwc,
                     (Sacramento.run p (stateOfRow p s0 s1 s2 s3 s4 s5) (rain.zip pet)).1.lzfpc,
                     (Sacramento.run p (stateOfRow p s0 s1 s2 s3 s4 s5) (rain.zip pet)).1.lzfsc,
                     (Sacramento.run p (stateOfRow p s0 s1 s2 s3 s4 s5) (rain.zip pet)).1.adimc],
          tags := Sacramento.dedup ((Sacramento.run p (stateOfRow p s0 s1 s2 s3 s4 s5) (rain.zip pet)).2.flatMap
            (·.tags)) } := rfl

/-! ## Non-vacuity -/

/-- the documented default parameter set -/
noncomputable def defaults : Sacramento.Params ℝ :=
  ⟨0.01, 0.05, 0.3, 50, 40, 130, 25, 60, 0.06, 1, 40, 0, 0, 0.01, 0, 0, 0.3, 0.8, 0.1, 0.05, 0.03, 0.02⟩

/-- a wet day with PET, a dry day, a storm -/
def demoSeries : List (ℝ × ℝ) := [(10, 2), (0, 3), (120, 1)]

/-- the hypotheses are satisfiable: the default parameters are within `ParamsOk`, the model's own initial state
is within the invariant and holds no water, the demo inputs are admissible (even for `InOkPet`) -/
example : ParamsOk defaults ∧ SacInv defaults (stateOfRow defaults 0 0 0 0 0 0) ∧
    stor defaults (stateOfRow defaults 0 0 0 0 0 0) = 0 ∧ ∀ x ∈ demoSeries, InOkPet defaults x := by
  have hp : ParamsOk defaults := by constructor <;> norm_num [defaults]
  refine ⟨hp, stateOfRow_inv _ hp _ _ _ _ _ _ (zeroRow_inv _ hp), ?_, ?_⟩
  · rw [stateOfRow_stor _ hp _ _ _ _ _ _ (zeroRow_inv _ hp), zeroRow_held]
  · intro x hx
    simp only [demoSeries, List.mem_cons, List.not_mem_nil, or_false] at hx
    rcases hx with rfl | rfl | rfl <;> norm_num [InOkPet, InOk, PetOk, defaults]

/-- the demo inputs are admissible -/
theorem demoSeries_ok : ∀ x ∈ demoSeries, InOkPet defaults x := by
  intro x hx
  simp only [demoSeries, List.mem_cons, List.not_mem_nil, or_false] at hx
  rcases hx with rfl | rfl | rfl <;> norm_num [InOkPet, InOk, PetOk, defaults]

/-- the theorems applied to a concrete run from the model's own initial state (all three prefixes) -/
example : (((Sacramento.run defaults (stateOfRow defaults 0 0 0 0 0 0) demoSeries).2.take 3).map
      (fun o => o.runoff + o.actualET)).sum ≤ ((demoSeries.take 3).map (·.1)).sum :=
  sacramento_no_water_created defaults (by constructor <;> norm_num [defaults]) demoSeries
    (fun x hx => (demoSeries_ok x hx).1) 3

/-- … and every output of that run is non-negative -/
example : ∀ o ∈ (Sacramento.run defaults (stateOfRow defaults 0 0 0 0 0 0) demoSeries).2,
    OutOk o ∧ 0 ≤ o.e5 ∧ 0 ≤ o.actualET :=
  sacramento_outputs_nonneg defaults (by constructor <;> norm_num [defaults]) _
    (stateOfRow_inv _ (by constructor <;> norm_num [defaults]) _ _ _ _ _ _
      (zeroRow_inv _ (by constructor <;> norm_num [defaults]))) demoSeries demoSeries_ok

/-- a non-trivial state row within the invariant (half-full stores, side = 0.2 would scale the lower free stores) -/
example : RowInv defaults 25 10 60 30 12 70 := by constructor <;> norm_num [defaults]

/-! ## Counter-examples: the restrictions are needed -/

/-- **Counter-example (the PET bound of `sacramento_outputs_nonneg` cannot be dropped).** Parameters within
`ParamsOk` (uztwm 20, uzfwm 60, lztwm 10, adimp 0.96, no drainage), state row [2, 6, 0, 0, 0, 0] within the invariant,
one dry day with PET = 20 mm ≤ uztwm + lztwm but 20·60 > 10·(20+60): the ADIMP evaporation e5 = −0.096 mm and the
REPORTED actual evapotranspiration is −0.016 mm. (The free-to-tension transfer raises uztwc above adimc, the term
`(adimc − e1 − uztwc)` of e5 goes negative and `min(·, adimc)` passes it through.) Replayed on the Go code:
actualET[0] = −0.016000000000000014. From the model's own initial state the same happens after a storm and a dry
spell for adimp ≳ 0.6 (see the final report of this proof: 17-day series, PET ≤ 25, actualET[16] = −0.00146). -/
theorem sacramento_negative_aet_counterexample :
    ParamsOk pA ∧ RowInv pA 2 6 0 0 0 0 ∧ InOk pA (0, 20) ∧ ¬ PetOk pA 20 ∧
    (Sacramento.step pA (Sacramento.consts pA) (stateOfRow pA 2 6 0 0 0 0) (0, 20)).2.e5 = -(12 / 125) ∧
    (Sacramento.step pA (Sacramento.consts pA) (stateOfRow pA 2 6 0 0 0 0) (0, 20)).2.actualET = -(2 / 125) := cexA_values

/-- **Counter-example (`5 ≤ lztwm` cannot be dropped).** All of `ParamsOk` except `lztwm = 0.1 mm` (inside the
OW-SPEC range [0,300]); state row [1, 0, 0, 0, 0, 1.125] within the invariant; one day with 4 mm of rain and no PET:
the rain increment (4 mm) exceeds lztwm, the saturation ratio is 1.25, `addro = pinc·ratio² = 6.25 mm` and the
additional impervious store ends at −1.125 mm. Replayed on the Go code (final AdditionalImperviousStore = −1.125).
From the model's own initial state, same parameters with rain [3, 2] mm: the Go code reports 400 mm of runoff on day 2
out of 5 mm of rain and ends with AdditionalImperviousStore = −795 (the oracle's budget and state checks fire). -/
theorem sacramento_small_lztwm_counterexample :
    ParamsOk { pB with lztwm := 5 } ∧ pB.lztwm = 1 / 10 ∧ RowInv pB 1 0 0 0 0 (9 / 8) ∧ InOkPet pB (4, 0) ∧
    (Sacramento.step pB (Sacramento.consts pB) (stateOfRow pB 1 0 0 0 0 (9 / 8)) (4, 0)).1.adimc = -(9 / 8) := cexB_values

end OW.Props.C10Sacramento
