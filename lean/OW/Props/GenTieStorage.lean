import OW.Gen.Kernels
import OW.Kernels.Storage
import OW.Props.GenTieBase
namespace OW.Props.GenTie
open OW OW.Kernels OW.Gen.K OW.Gen.Prelude

/-! ### models/storage/storage.go -/

/-- a panic of the Go code: `.error` of the hand-written model, `none` of the regenerated definitions -/
def exceptToOption {ε β : Type} : Except ε β → Option β
  | .ok b => some b
  | .error _ => none

/-- the instantiation of the abstract `fn.Piecewise` (util/fn/piecewise.go; NOT translated by owtranslate) in the tie of
`storageWaterBalance`: the hand-written model `OW.Fn.piecewise`; `none` = its error result is non-nil or it panics (the
code panics in both cases) -/
def piecewiseArg {α} [Num α] (x : α) (xs ys : List α) : Option α :=
  match Fn.piecewise x xs ys with
  | .val v => some v
  | .err => none
  | .panic _ => none

section StorageClosures
variable {α : Type} [Num α] (t : Storage.Tables α)

theorem tableGet_zero (ys : List α) : tableGet ys 0 = exceptToOption (Storage.getAt ys 0) := by
  unfold tableGet Storage.getAt
  simp only [Int.lt_irrefl, ↓reduceIte, Int.toNat_zero]
  cases ys[0]? <;> rfl

theorem tableGet_last (ys : List α) (n : Nat) (hn : 0 < n) :
    tableGet ys ((n : Int) - 1) = exceptToOption (Storage.getAt ys (n - 1)) := by
  unfold tableGet Storage.getAt
  have h1 : ¬ ((n : Int) - 1 < 0) := by omega
  have h2 : ((n : Int) - 1).toNat = n - 1 := by omega
  simp only [h1, ↓reduceIte, h2]
  cases ys[n - 1]? <;> rfl

/-- the function literal `cappedPiecewise` = `Storage.cappedPiecewise` -/
theorem gen_eq_Storage_cappedPiecewise (hn : 0 < t.volumes.length) (vol : α) (ys : List α) :
    storageWaterBalance.cappedPiecewise piecewiseArg t.volumes 0 ((t.volumes.length : Int) - 1) t.volCurveMin t.volCurveMax vol ys =
      exceptToOption (Storage.cappedPiecewise t vol ys) := by
  unfold storageWaterBalance.cappedPiecewise Storage.cappedPiecewise
  split
  · exact tableGet_zero ys
  · have hgt : ∀ a b : α, (a > b) = (b < a) := fun _ _ => rfl
    simp only [hgt]
    split
    · exact tableGet_last ys _ hn
    · unfold piecewiseArg
      cases Fn.piecewise vol t.volumes ys <;> rfl

/-- the function literal `releaseRate` = `Storage.releaseRate` -/
theorem gen_eq_Storage_releaseRate (hn : 0 < t.volumes.length) (demand vol : α) :
    storageWaterBalance.releaseRate piecewiseArg t.volumes t.minRelease t.maxRelease 0 ((t.volumes.length : Int) - 1)
        t.volCurveMin t.volCurveMax demand vol =
      exceptToOption (Storage.releaseRate t demand vol) := by
  unfold storageWaterBalance.releaseRate Storage.releaseRate
  simp only [gen_eq_Storage_cappedPiecewise t hn]
  cases Storage.cappedPiecewise t vol t.minRelease with
  | error e => rfl
  | ok minRel =>
    simp only [exceptToOption, bind, Except.bind, pure, Except.pure]
    split
    · rfl
    · cases Storage.cappedPiecewise t vol t.maxRelease with
      | error e => rfl
      | ok maxRel =>
        simp only [exceptToOption]
        have hgt : ∀ a b : α, (a > b) = (b < a) := fun _ _ => rfl
        simp only [hgt]
        split <;> rfl

/-- the function literal `releaseRatesCloseEnough` = `Storage.releaseRatesCloseEnough` -/
theorem gen_eq_Storage_closeEnough (a b : α) :
    storageWaterBalance.releaseRatesCloseEnough a b = Storage.releaseRatesCloseEnough a b := by
  unfold storageWaterBalance.releaseRatesCloseEnough Storage.releaseRatesCloseEnough Storage.allowedAbs Storage.allowedRel
  rfl

/-- the integer literal `2` (converted to float64 by Go) and the float literal `2.0` are the same number -/
def NatTwo (α : Type) [Num α] : Prop := (2 : α) = 2.0

/-- the inner trial loop `for { … }` (lifted: `loopBody2`, `loopCond2`) = `Storage.trial`, for every fuel; the carried
values are `(subtimestep, testVol, avgOutflow, avgArea)` -/
theorem gen_eq_Storage_trial (h0 : NatZero α) (h2 : NatTwo α) (hn : 0 < t.volumes.length)
    (inflow demand netFlux volume estOutflow area : α) :
    ∀ (fuel : Nat) (sub tv ao aa : α) (tags : List String),
      whileLoop storageWaterBalance.loopCond2
          (storageWaterBalance.loopBody2 piecewiseArg t.volumes t.areas t.minRelease t.maxRelease volume area 0
            ((t.volumes.length : Int) - 1) t.volCurveMin t.volCurveMax inflow demand netFlux estOutflow)
          fuel (sub, tv, ao, aa) =
        (exceptToOption (Storage.trial t inflow demand netFlux volume estOutflow area fuel sub tags)).map
          (fun a => (a.sub, a.testVol, a.avgOutflow, a.avgArea)) := by
  unfold NatZero at h0
  unfold NatTwo at h2
  intro fuel
  induction fuel with
  | zero => intros; rfl
  | succ fuel ih =>
    have ih' := ih
    unfold storageWaterBalance.loopBody2 at ih'
    simp only [gen_eq_Storage_cappedPiecewise t hn, gen_eq_Storage_releaseRate t hn, gen_eq_Storage_closeEnough, h0, h2] at ih'
    intro sub tv ao aa tags
    unfold whileLoop Storage.trial
    simp only [storageWaterBalance.loopCond2, ↓reduceIte]
    unfold storageWaterBalance.loopBody2
    simp only [gen_eq_Storage_cappedPiecewise t hn, gen_eq_Storage_releaseRate t hn, gen_eq_Storage_closeEnough,
      Storage.minStepNeg, Storage.minStepPos, h0, h2]
    have hge : ∀ a b : α, (a ≥ b) = (b ≤ a) := fun _ _ => rfl
    simp only [hge]
    by_cases hneg : volume + (inflow - estOutflow + netFlux * area) * sub < 0.0
    · simp only [hneg, ↓reduceIte]
      by_cases hs : sub ≤ 6
      · simp only [hs, ↓reduceIte]; rfl
      · simp only [hs, ↓reduceIte, Bool.false_eq_true]
        exact ih' _ _ _ _ _
    · simp only [hneg, ↓reduceIte]
      cases Storage.cappedPiecewise t ((volume + (inflow - estOutflow + netFlux * area) * sub + volume) / 2.0) t.areas with
      | error e => rfl
      | ok avgArea =>
        simp only [exceptToOption, bind, Except.bind]
        cases Storage.releaseRate t demand (volume + (inflow - estOutflow + netFlux * avgArea) * sub) with
        | error e => rfl
        | ok after =>
          simp only [exceptToOption]
          by_cases hpos : 0.0 ≤ volume + (inflow - (after + estOutflow) / 2.0 + netFlux * avgArea) * sub
          · simp only [hpos, ↓reduceIte]
            by_cases hc : Storage.releaseRatesCloseEnough estOutflow ((after + estOutflow) / 2.0) = true
            · simp only [hc, ↓reduceIte]; rfl
            · simp only [hc, ↓reduceIte]
              by_cases h60 : sub ≤ 60
              · simp only [h60, ↓reduceIte]; rfl
              · simp only [h60, ↓reduceIte, Bool.false_eq_true]
                exact ih' _ _ _ _ _
          · simp only [hpos, ↓reduceIte]
            by_cases hs : sub ≤ 6
            · simp only [hs, ↓reduceIte]; rfl
            · simp only [hs, ↓reduceIte, Bool.false_eq_true]
              exact ih' _ _ _ _ _

/-- `x + Num.zero = x`: the hand model adds the (zero) spill volume also when nothing spills, the code does not. True at
`ℝ`; at `Float` for every `x` except `-0.0` (where the sum is `+0.0`: equal as numbers, not as bit patterns). -/
def AddZero (α : Type) [Num α] : Prop := ∀ x : α, x + Num.zero = x

/-- what the hand model's loop record and the carried values of the regenerated outer loop have in common (the carried
`area`, `nSubtimeSteps`, `demand` are recomputed / only counted by the code and are not part of the hand model's record) -/
def projCarried (c : α × α × Int × α × α × α × α × α × α) : α × α × α × α × α × α :=
  (c.1, c.2.2.2.1, c.2.2.2.2.1, c.2.2.2.2.2.1, c.2.2.2.2.2.2.2.1, c.2.2.2.2.2.2.2.2)
def projLoop (s : Storage.Loop α) : α × α × α × α × α × α :=
  (s.volume, s.timeRemaining, s.subtimestep, s.outflowVolume, s.rainfallVol, s.evaporationVol)

/-- one accepted sub-step: the lifted body `loopBody1` of `for timeRemaining > 0 { … }` = `Storage.outerBody` -/
theorem gen_eq_Storage_outerBody (h0 : NatZero α) (h2 : NatTwo α) (hadd : AddZero α) (hn : 0 < t.volumes.length) (keep : Bool)
    (fi : Nat) (inflow demand rps pps netFlux tmv : α) (s : Storage.Loop α) (area : α) (nsub : Int) (dem : α) :
    match Storage.outerBody t keep fi inflow demand rps pps netFlux s with
    | .error _ =>
      storageWaterBalance.loopBody1 piecewiseArg fi t.volumes t.areas t.minRelease t.maxRelease 0
          ((t.volumes.length : Int) - 1) t.volCurveMin t.volCurveMax t.maxSpill tmv inflow demand rps pps netFlux
          (s.volume, area, nsub, s.timeRemaining, s.subtimestep, s.outflowVolume, dem, s.rainfallVol, s.evaporationVol) = none
    | .ok s' => ∃ a' : α,
      storageWaterBalance.loopBody1 piecewiseArg fi t.volumes t.areas t.minRelease t.maxRelease 0
          ((t.volumes.length : Int) - 1) t.volCurveMin t.volCurveMax t.maxSpill tmv inflow demand rps pps netFlux
          (s.volume, area, nsub, s.timeRemaining, s.subtimestep, s.outflowVolume, dem, s.rainfallVol, s.evaporationVol) =
        some ((s'.volume, a', nsub + 1, s'.timeRemaining, s'.subtimestep, s'.outflowVolume, demand, s'.rainfallVol,
          s'.evaporationVol), false) := by
  unfold storageWaterBalance.loopBody1 Storage.outerBody
  simp only [gen_eq_Storage_cappedPiecewise t hn, gen_eq_Storage_releaseRate t hn, Bool.false_and, Bool.false_eq_true, ↓reduceIte,
    fun v e a sub tv ao aa => gen_eq_Storage_trial t h0 h2 hn inflow demand netFlux v e a fi sub tv ao aa s.tags]
  cases Storage.releaseRate t demand s.volume with
  | error e => rfl
  | ok est =>
    simp only [exceptToOption, bind, Except.bind]
    cases Storage.cappedPiecewise t s.volume t.areas with
    | error e => rfl
    | ok ar =>
      simp only [exceptToOption]
      cases Storage.trial t inflow demand netFlux s.volume est ar fi (Num.gmin s.timeRemaining (s.subtimestep * 2)) s.tags with
      | error e => rfl
      | ok a =>
        simp only [exceptToOption, Option.map_some]
        unfold NatZero at h0
        unfold NatTwo at h2
        have hgt : ∀ a b : α, (a > b) = (b < a) := fun _ _ => rfl
        by_cases hv : s.volume + (inflow + netFlux * a.avgArea - a.avgOutflow) * a.sub < 0
        · simp only [hv, ↓reduceIte]
        · simp only [hv, ↓reduceIte, pure, Except.pure]
          refine ⟨ar, ?_⟩
          unfold Storage.spill Storage.mmToM
          simp only [hgt]
          by_cases hs : t.volCurveMax < s.volume + (inflow + netFlux * a.avgArea - a.avgOutflow) * a.sub
          · simp only [hs, ↓reduceIte, h0, h2]
          · simp only [hs, ↓reduceIte, hadd _]

/-- the sub-step loop `for timeRemaining > 0 { … }` (lifted: `loopBody1`, `loopCond1`) = `Storage.outer`, for every fuel
of the two loops -/
theorem gen_eq_Storage_outer (h0 : NatZero α) (h2 : NatTwo α) (hadd : AddZero α) (hn : 0 < t.volumes.length) (keep : Bool)
    (fi : Nat) (inflow demand rps pps netFlux tmv : α) :
    ∀ (fo : Nat) (s : Storage.Loop α) (area : α) (nsub : Int) (dem : α),
      (whileLoop storageWaterBalance.loopCond1
          (storageWaterBalance.loopBody1 piecewiseArg fi t.volumes t.areas t.minRelease t.maxRelease 0
            ((t.volumes.length : Int) - 1) t.volCurveMin t.volCurveMax t.maxSpill tmv inflow demand rps pps netFlux)
          fo (s.volume, area, nsub, s.timeRemaining, s.subtimestep, s.outflowVolume, dem, s.rainfallVol, s.evaporationVol)).map
          projCarried =
        (exceptToOption (Storage.outer t keep fi inflow demand rps pps netFlux fo s)).map projLoop := by
  intro fo
  induction fo with
  | zero => intros; rfl
  | succ fo ih =>
    intro s area nsub dem
    unfold whileLoop Storage.outer
    simp only [storageWaterBalance.loopCond1]
    have hgt : ∀ a b : α, (a > b) = (b < a) := fun _ _ => rfl
    simp only [hgt, decide_eq_true_eq]
    by_cases htr : 0 < s.timeRemaining
    · simp only [htr, ↓reduceIte]
      have hb := gen_eq_Storage_outerBody t h0 h2 hadd hn keep fi inflow demand rps pps netFlux tmv s area nsub dem
      cases hOB : Storage.outerBody t keep fi inflow demand rps pps netFlux s with
      | error e =>
        rw [hOB] at hb
        simp only at hb
        rw [hb]
        rfl
      | ok s' =>
        rw [hOB] at hb
        obtain ⟨a', ha⟩ := hb
        rw [ha]
        simp only [Bool.false_eq_true, ↓reduceIte]
        exact ih s' a' (nsub + 1) demand
    · simp only [htr, ↓reduceIte]
      rfl

/-- one time step: the regenerated `step` (its sub-step loops run with fuels `fo`, `fi`) = `Storage.step`: the new volume
state and the four outputs; the state `level` passes through; the states `area`, `nSubtimeSteps` are recomputed / counted
by the code and are not part of the hand model's step (the incoming values of `level`, `area`, `nSubtimeSteps` are not
read before they are overwritten: the statement holds for all of them). `chk`, `iv`, `il`, `ia`, `nLVA`, `tmc` (the
`targetMinimumCapacity` input, read only by the dead `autoAdjustDemand` branch) do not influence the result. -/
theorem gen_eq_Storage_step (h0 : NatZero α) (h2 : NatTwo α) (hadd : AddZero α) (hn : 0 < t.volumes.length) (keep : Bool)
    (fo fi : Nat) (iv il ia deltaT : α) (nLVA : Int) (chk : Int → List α → Bool) (volume level area : α) (nsub : Int)
    (tags : List String) (rain pet inflow demand tmc : α) :
    (storageWaterBalance.step piecewiseArg fo fi iv il ia deltaT nLVA t.levels t.volumes t.areas t.minRelease t.maxRelease chk
        0 ((t.volumes.length : Int) - 1) t.volCurveMin t.volCurveMax t.maxSpill volume level area nsub rain pet inflow demand
        tmc).map (fun r => (r.1.1, r.1.2.1, r.2)) =
      (exceptToOption (Storage.step t keep fo fi deltaT volume tags (rain, pet, inflow, demand))).map
        (fun r => (r.1, level, (r.2.2.volume, r.2.2.outflow, r.2.2.rainfallVolume, r.2.2.evaporationVolume))) := by
  unfold storageWaterBalance.step Storage.step
  have h0' := h0
  unfold NatZero at h0'
  simp only [Storage.mmToM, bind, Except.bind, pure, Except.pure]
  have hW := gen_eq_Storage_outer t h0 h2 hadd hn keep fi inflow demand (rain / deltaT) (pet / deltaT)
    ((rain / deltaT - pet / deltaT) * 1e-3) (t.volCurveMax - tmc) fo
    { timeRemaining := deltaT, subtimestep := deltaT, volume := volume, outflowVolume := 0, rainfallVol := 0,
      evaporationVol := 0, tags := tags, trace := [] } area nsub demand
  simp only [h0'] at hW ⊢
  generalize whileLoop storageWaterBalance.loopCond1
      (storageWaterBalance.loopBody1 piecewiseArg fi t.volumes t.areas t.minRelease t.maxRelease 0
        ((t.volumes.length : Int) - 1) t.volCurveMin t.volCurveMax t.maxSpill (t.volCurveMax - tmc) inflow demand
        (rain / deltaT) (pet / deltaT) ((rain / deltaT - pet / deltaT) * 1e-3))
      fo (volume, area, nsub, deltaT, deltaT, 0.0, demand, 0.0, 0.0) = W at hW ⊢
  generalize Storage.outer t keep fi inflow demand (rain / deltaT) (pet / deltaT) ((rain / deltaT - pet / deltaT) * 1e-3) fo
      { timeRemaining := deltaT, subtimestep := deltaT, volume := volume, outflowVolume := 0.0, rainfallVol := 0.0,
        evaporationVol := 0.0, tags := tags, trace := [] } = O at hW ⊢
  cases W with
  | none =>
    cases O with
    | error e => rfl
    | ok v => simp [exceptToOption] at hW
  | some c =>
    cases O with
    | error e => simp [exceptToOption] at hW
    | ok v =>
      simp only [exceptToOption, Option.map_some, Option.some.injEq, projCarried, projLoop, Prod.mk.injEq] at hW
      obtain ⟨e1, e2, e3, e4, e5, e6⟩ := hW
      simp only [exceptToOption, Option.map_some, e1, e4, e5, e6]

/-- the statements after the loop (`level = cappedPiecewise(volume, levels)`, `area = cappedPiecewise(volume, areas)`):
the regenerated `final` = the tail of `Storage.run` -/
theorem gen_eq_Storage_final (hn : 0 < t.volumes.length) (iv il ia deltaT : α) (nLVA : Int) (chk : Int → List α → Bool)
    (volume level area : α) (nsub : Int) :
    storageWaterBalance.final piecewiseArg iv il ia deltaT nLVA t.levels t.volumes t.areas t.minRelease t.maxRelease chk
        0 ((t.volumes.length : Int) - 1) t.volCurveMin t.volCurveMax t.maxSpill volume level area nsub =
      exceptToOption (do
        let level ← Storage.cappedPiecewise t volume t.levels
        let area ← Storage.cappedPiecewise t volume t.areas
        pure (volume, level, area)) := by
  unfold storageWaterBalance.final
  simp only [gen_eq_Storage_cappedPiecewise t hn]
  cases Storage.cappedPiecewise t volume t.levels with
  | error e => rfl
  | ok l =>
    simp only [exceptToOption, bind, Except.bind]
    cases Storage.cappedPiecewise t volume t.areas <;> rfl

end StorageClosures

/-- the three table reads before the loop (`volumes[0]`, `volumes[nLVA-1]`, `minRelease[nLVA-1]`; out of range = panic =
`none`) are `Storage.mkTables` (with `nLVA` the table length, as the wrapper passes it); the guard is the (NOT translated)
configuration check; the loop starts from the initial volume with `level = area = 0` and the sub-step counter 0 -/
theorem gen_eq_Storage_pre {α} [Num α] (iv il ia deltaT : α) (levels volumes areas minRelease maxRelease : List α)
    (chk : Int → List α → Bool) :
    storageWaterBalance.pre iv il ia deltaT (volumes.length : Int) levels volumes areas minRelease maxRelease chk =
      (exceptToOption (Storage.mkTables levels volumes areas minRelease maxRelease)).map
        (fun t => (0, (volumes.length : Int) - 1, t.volCurveMin, t.volCurveMax, t.maxSpill)) ∧
    storageWaterBalance.init iv il ia deltaT (volumes.length : Int) levels volumes areas minRelease maxRelease chk =
      (exceptToOption (Storage.mkTables levels volumes areas minRelease maxRelease)).map
        (fun _ => (iv, Num.zero, Num.zero, 0)) ∧
    storageWaterBalance.guard iv il ia deltaT (volumes.length : Int) levels volumes areas minRelease maxRelease chk =
      (exceptToOption (Storage.mkTables levels volumes areas minRelease maxRelease)).map
        (fun _ => chk (volumes.length : Int) volumes) := by
  unfold storageWaterBalance.pre storageWaterBalance.init storageWaterBalance.guard Storage.mkTables
  by_cases hn : 0 < volumes.length
  · simp only [tableGet_zero, tableGet_last _ _ hn]
    cases Storage.getAt volumes 0 with
    | error e => exact ⟨rfl, rfl, rfl⟩
    | ok v0 =>
      simp only [exceptToOption, bind, Except.bind]
      cases Storage.getAt volumes (volumes.length - 1) with
      | error e => exact ⟨rfl, rfl, rfl⟩
      | ok vN =>
        simp only [exceptToOption]
        cases Storage.getAt minRelease (volumes.length - 1) with
        | error e => exact ⟨rfl, rfl, rfl⟩
        | ok sp => exact ⟨rfl, rfl, rfl⟩
  · have hnil : volumes = [] := List.eq_nil_of_length_eq_zero (by omega)
    subst hnil
    exact ⟨rfl, rfl, rfl⟩


/-- `storageWaterBalance` (models/storage/storage.go), all of it except the two functions it calls in other packages:
* before the loop: the three table reads = `Storage.mkTables` (`gen_eq_Storage_pre`); the early return is the configuration
  check `checkStorageConfiguration` (NOT translated: the abstract argument `chk`; the run returns zero values when it holds);
* the function literals `cappedPiecewise`, `releaseRate`, `releaseRatesCloseEnough` (lambda-lifted, captured tables and
  bounds as parameters) = the hand model's functions, with `fn.Piecewise` (NOT translated) instantiated by the hand model
  `OW.Fn.piecewise` (`piecewiseArg`);
* one time step, with the two sub-step loops `for timeRemaining > 0 { … for { … } … }` as fuelled loops (for every fuel) =
  `Storage.step` (`outer`, `trial`): the new volume and the four outputs (`gen_eq_Storage_step`);
* after the loop: `level`, `area` from the final volume = the tail of `Storage.run` (`gen_eq_Storage_final`).
Literal identities `NatZero`, `NatTwo` (`0`/`0.0`, `2`/`2.0`) and the law `AddZero` (the hand model adds the zero spill
volume when nothing spills). -/
theorem gen_eq_Storage {α} [Num α] (h0 : NatZero α) (h2 : NatTwo α) (hadd : AddZero α) (t : Storage.Tables α)
    (hn : 0 < t.volumes.length) (keep : Bool) (fo fi : Nat) (iv il ia deltaT : α) (nLVA : Int) (chk : Int → List α → Bool)
    (volume level area : α) (nsub : Int) (tags : List String) (rain pet inflow demand tmc : α) :
    ((storageWaterBalance.step piecewiseArg fo fi iv il ia deltaT nLVA t.levels t.volumes t.areas t.minRelease t.maxRelease chk
        0 ((t.volumes.length : Int) - 1) t.volCurveMin t.volCurveMax t.maxSpill volume level area nsub rain pet inflow demand
        tmc).map (fun r => (r.1.1, r.1.2.1, r.2)) =
      (exceptToOption (Storage.step t keep fo fi deltaT volume tags (rain, pet, inflow, demand))).map
        (fun r => (r.1, level, (r.2.2.volume, r.2.2.outflow, r.2.2.rainfallVolume, r.2.2.evaporationVolume)))) ∧
    (storageWaterBalance.final piecewiseArg iv il ia deltaT nLVA t.levels t.volumes t.areas t.minRelease t.maxRelease chk
        0 ((t.volumes.length : Int) - 1) t.volCurveMin t.volCurveMax t.maxSpill volume level area nsub =
      exceptToOption (do
        let level ← Storage.cappedPiecewise t volume t.levels
        let area ← Storage.cappedPiecewise t volume t.areas
        pure (volume, level, area))) :=
  ⟨gen_eq_Storage_step t h0 h2 hadd hn keep fo fi iv il ia deltaT nLVA chk volume level area nsub tags rain pet inflow demand tmc,
   gen_eq_Storage_final t hn iv il ia deltaT nLVA chk volume level area nsub⟩

end OW.Props.GenTie
