import OW.Proofs.WrapperNdRun
import OW.Kernels.Muskingum
import OW.Kernels.Coeff
/-!
C04 (n-d level) — the view algebra of the wrapper template yields the cell views the list-level semantics assumes.

The model `OW/Sim/WrapperNd.lean` performs the template's `Slice … MustReshape` chains on the verified n-d array
model `OW/Nd` (C01/C02). The theorems are about ROOT arrays (`RootOn h a D`: Go-backed, root view of shape `D`,
extents ≥ 1, window conditions — what `arrayFromSlice`/`NewArray` return, `rootOn_fromStore`, `rootOn_newArray`):
`inputs [nIn, nI, T]`, `states [N, nS]`, `outputs [M, nO, T']`, `parameters [rows, nSets]`.
Storage positions are `a.base + …`; for the arrays made by the constructors `a.base = 0`.

All statements are derived from the C01/C02 theorems (`slice_arr_total`, `contiguous_dense`, `reshape_spec` via
`reshape_go_alias`, `get_reads_cell`) — helper lemmas in `OW/Proofs/WrapperNd.lean`.
-/
namespace OW.Props.C04Nd
open OW OW.Nd OW.Sim OW.Sim.WrapperNd OW.WrapperNd

section
variable {α : Type}

/-! ### what "the view is an alias" means -/

/-- `v` is the flat (1-D, root, Go-backed) view of the `n` storage positions `[base, base+n)` of storage `sid`:
`Impl = storage[base : base+n]` — an alias, not a copy. -/
def IsWindow (v : Arr) (sid : Nat) (base n : Int) : Prop := v = flat sid base n

theorem isWindow_iff (v : Arr) (sid : Nat) (base n : Int) :
    IsWindow v sid base n ↔ v.sid = sid ∧ v.base = base ∧ v.len = n ∧ v.isC = false ∧ v.v = rootView [n] 0 := by
  obtain ⟨vv, s, b, l, c⟩ := v
  simp [IsWindow, flat]
  constructor
  · rintro ⟨rfl, rfl, rfl, rfl, rfl⟩; simp
  · rintro ⟨rfl, rfl, rfl, rfl, rfl⟩; simp

/-! ### T2 — the state view -/

/-- **cell_views_states.** For a root `states [N, nS]` and a cell `0 ≤ i < N`:
`states.Slice([i,0],[1,nS],nil).MustReshape([nS])` does not panic; the reshape is applied to a contiguous view, so
the heap is unchanged (no copy) and the result ALIASES the states storage: it is the flat view of positions
`[base + i·nS, base + i·nS + nS)`.
* Element `s` (`0 ≤ s < nS`) of the view is storage cell `base + i·nS + s`, the same element as `states[i, s]`.
* `Set1(s, v)` through the view does not panic and changes exactly that storage cell; afterwards `states[i, s]`
  reads `v` — the kernel's state write-back reaches the caller's array, and touches only row `i`.
* `Set1` outside `[0, nS)` panics: the view cannot be used to reach another row. -/
theorem cell_views_states {h : Heap α} {states : Arr} {N nS i : Int} (r : RootOn h states [N, nS])
    (hi0 : 0 ≤ i) (hi : i < N) :
    ∃ sv, stateView h states i nS = .ok (h, sv) ∧
      (sliceView states.v [i, 0] [1, nS] none).contiguous = .ok true ∧
      IsWindow sv states.sid (states.base + i * nS) nS ∧
      (∀ s, 0 ≤ s → s < nS → ∃ x, cell h states.sid (states.base + (i * nS + s)).toNat = some x ∧
          get1 h sv s = .ok x ∧ Nd.get h states [i, s] = .ok x) ∧
      (∀ s, 0 ≤ s → s < nS → ∀ v : α, ∃ h', set1 h sv s v = .ok h' ∧
          h' = setStore h states.sid (states.base + (i * nS + s)).toNat v ∧
          cell h' states.sid (states.base + (i * nS + s)).toNat = some v ∧
          (∀ u q : Nat, (u ≠ states.sid ∨ q ≠ (states.base + (i * nS + s)).toNat) → cell h' u q = cell h u q) ∧
          Nd.get h' states [i, s] = .ok v ∧ RootOn h' states [N, nS]) ∧
      (∀ s, (s < 0 ∨ nS ≤ s) → ∀ v : α, set1 h sv s v = .error "index-out-of-range") := by
  obtain ⟨hN, hnS⟩ := pos2 r.pos
  obtain ⟨e, hc, rv⟩ := stateView_eq r hi0 hi
  have hib : ∀ s, 0 ≤ s → s < nS → InBounds [i, s] [N, nS] := fun s s0 s1 => by simp; omega
  have hrav : ∀ s, ravel [i, s] [N, nS] = i * nS + s := fun s => by simp [ravel, product]
  refine ⟨_, e, hc, rfl, fun s s0 s1 => ?_, fun s s0 s1 v => ?_, fun s hs v => ?_⟩
  · obtain ⟨x, hx, _, hg1⟩ := rv.flat_get s0 s1
    obtain ⟨y, hy, hgy, _⟩ := r.get (hib s s0 s1)
    rw [hrav, ← Int.add_assoc, hx] at hy
    injection hy with hy
    subst hy
    exact ⟨x, by rw [← Int.add_assoc]; exact hx, hg1, hgy⟩
  · obtain ⟨hset, hcell, hframe, hss⟩ := rv.flat_set1 s0 s1 v
    have r' := r.sameShape hss
    obtain ⟨y, hy, hgy, _⟩ := r'.get (hib s s0 s1)
    rw [hrav, ← Int.add_assoc, hcell] at hy
    injection hy with hy
    subst hy
    rw [Int.add_assoc] at hset hcell hframe hgy r'
    exact ⟨_, hset, rfl, hcell, hframe, hgy, r'⟩
  · obtain ⟨st, hs', _⟩ := rv.flat_store
    exact flat_set1_oob hs' hs v

/-! ### T3 — the output views, and the frame of `Run` -/

/-- **cell_views_outputs.** For a root `outputs [M, nO, T']` — possibly OVERSIZED: `M` ≥ the number of cells, `T' ≥ T`
— a cell `0 ≤ i < M`, an output `0 ≤ o < nO` and a series length `1 ≤ T ≤ T'`:
`outputs.Slice([i,o,0],[1,1,T],[1,1,1]).MustReshape([T])` does not panic; the slice (the first `T` elements of one
row) is contiguous, so the heap is unchanged and the result ALIASES the outputs storage: it is the flat view of
positions `[base + (i·nO+o)·T', … + T)`.
* Element `t < T` of the view is storage cell `base + (i·nO + o)·T' + t`, the same element as `outputs[i, o, t]`.
* `Set1(t, v)`, `t < T`, through the view changes exactly that cell; afterwards `outputs[i, o, t]` reads `v`.
* `Set1(t, ·)` with `t ≥ T` (or `< 0`) panics. Hence a kernel writing through the views of cells `i < N` can only change
  positions `{(i, o, t) | i < N, t < T}`: rows `≥ N` and timesteps `≥ T` of an oversized array are untouched
  (`run_frame`). -/
theorem cell_views_outputs {h : Heap α} {outputs : Arr} {M nO T' T i o : Int} (r : RootOn h outputs [M, nO, T'])
    (hi0 : 0 ≤ i) (hi : i < M) (ho0 : 0 ≤ o) (ho : o < nO) (hT0 : 1 ≤ T) (hT : T ≤ T') :
    ∃ ov, outputView h outputs i o T = .ok (h, ov) ∧
      (sliceView outputs.v [i, o, 0] [1, 1, T] (some [1, 1, 1])).contiguous = .ok true ∧
      IsWindow ov outputs.sid (outputs.base + (i * nO + o) * T') T ∧
      (∀ t, 0 ≤ t → t < T → ∃ x, cell h outputs.sid (outputs.base + ((i * nO + o) * T' + t)).toNat = some x ∧
          get1 h ov t = .ok x ∧ Nd.get h outputs [i, o, t] = .ok x) ∧
      (∀ t, 0 ≤ t → t < T → ∀ v : α, ∃ h', set1 h ov t v = .ok h' ∧
          h' = setStore h outputs.sid (outputs.base + ((i * nO + o) * T' + t)).toNat v ∧
          cell h' outputs.sid (outputs.base + ((i * nO + o) * T' + t)).toNat = some v ∧
          (∀ u q : Nat, (u ≠ outputs.sid ∨ q ≠ (outputs.base + ((i * nO + o) * T' + t)).toNat) →
            cell h' u q = cell h u q) ∧
          Nd.get h' outputs [i, o, t] = .ok v ∧ RootOn h' outputs [M, nO, T']) ∧
      (∀ t, (t < 0 ∨ T ≤ t) → ∀ v : α, set1 h ov t v = .error "index-out-of-range") := by
  obtain ⟨e, hc, rv⟩ := outputView_eq r hi0 hi ho0 ho hT0 hT
  have hib : ∀ t, 0 ≤ t → t < T → InBounds [i, o, t] [M, nO, T'] := fun t t0 t1 => by simp; omega
  have hrav : ∀ t, ravel [i, o, t] [M, nO, T'] = (i * nO + o) * T' + t := fun t => by simp [ravel, product]; ring
  refine ⟨_, e, hc, rfl, fun t t0 t1 => ?_, fun t t0 t1 v => ?_, fun t ht v => ?_⟩
  · obtain ⟨x, hx, _, hg1⟩ := rv.flat_get t0 t1
    obtain ⟨y, hy, hgy, _⟩ := r.get (hib t t0 t1)
    rw [hrav, ← Int.add_assoc, hx] at hy
    injection hy with hy
    subst hy
    exact ⟨x, by rw [← Int.add_assoc]; exact hx, hg1, hgy⟩
  · obtain ⟨hset, hcell, hframe, hss⟩ := rv.flat_set1 t0 t1 v
    have r' := r.sameShape hss
    obtain ⟨y, hy, hgy, _⟩ := r'.get (hib t t0 t1)
    rw [hrav, ← Int.add_assoc, hcell] at hy
    injection hy with hy
    subst hy
    rw [Int.add_assoc] at hset hcell hframe hgy r'
    exact ⟨_, hset, rfl, hcell, hframe, hgy, r'⟩
  · obtain ⟨st, hs', _⟩ := rv.flat_store
    exact flat_set1_oob hs' ht v

/-! ### T1 — the input views -/

/-- **cell_views_inputs.** For a root `inputs [nIn, nI, T]`, a cell `i ≥ 0` (ANY cell number: blocks are reused
cyclically) and an input `0 ≤ k < nI`: the two-level chain
`inputs.Slice([i % nIn,0,0],[1,nI,T],nil).MustReshape([nI,T])` then `.Slice([k,0],[1,T],nil).MustReshape([T])` does not
panic; both reshapes are applied to contiguous views (no copy, heap unchanged); the result ALIASES the inputs storage:
it is the flat view of positions `[base + ((i % nIn)·nI + k)·T, … + T)`, and element `t < T` is storage cell
`base + ((i % nIn)·nI + k)·T + t`, the same element as `inputs[i % nIn, k, t]`. -/
theorem cell_views_inputs {h : Heap α} {inputs : Arr} {nIn nI T i k : Int} (r : RootOn h inputs [nIn, nI, T])
    (hi0 : 0 ≤ i) (hk0 : 0 ≤ k) (hk : k < nI) :
    ∃ iv, inputView h inputs i k nIn nI T = .ok (h, iv) ∧
      (sliceView inputs.v [i % nIn, 0, 0] [1, nI, T] none).contiguous = .ok true ∧
      (sliceView (rootView [nI, T] 0) [k, 0] [1, T] none).contiguous = .ok true ∧
      iv.v.contiguous = .ok true ∧
      IsWindow iv inputs.sid (inputs.base + ((i % nIn) * nI + k) * T) T ∧
      (∀ t, 0 ≤ t → t < T → ∃ x, cell h inputs.sid (inputs.base + (((i % nIn) * nI + k) * T + t)).toNat = some x ∧
          get1 h iv t = .ok x ∧ Nd.get h inputs [i % nIn, k, t] = .ok x) := by
  obtain ⟨hnIn, hnI, hT⟩ := pos3 r.pos
  have hc0 : 0 ≤ i % nIn := Int.emod_nonneg _ (by omega)
  have hc1 : i % nIn < nIn := Int.emod_lt_of_pos _ (by omega)
  obtain ⟨_, hcA, rci⟩ := cellInputs_eq r hi0
  obtain ⟨_, hcB, _⟩ := inputOf_eq rci hk0 hk
  obtain ⟨e, rv⟩ := inputView_eq r hi0 hk0 hk
  have hib : ∀ t, 0 ≤ t → t < T → InBounds [i % nIn, k, t] [nIn, nI, T] := fun t t0 t1 => by simp; omega
  have hrav : ∀ t, ravel [i % nIn, k, t] [nIn, nI, T] = ((i % nIn) * nI + k) * T + t :=
    fun t => by simp [ravel, product]; ring
  refine ⟨_, e, hcA, hcB, ?_, rfl, fun t t0 t1 => ?_⟩
  · exact (C02.contiguous_dense rv.reach).1 (by simp [flat, rootView, uniform, NdC02.Dense])
  · obtain ⟨x, hx, _, hg1⟩ := rv.flat_get t0 t1
    obtain ⟨y, hy, hgy, _⟩ := r.get (hib t t0 t1)
    rw [hrav, ← Int.add_assoc, hx] at hy
    injection hy with hy
    subst hy
    exact ⟨x, by rw [← Int.add_assoc]; exact hx, hg1, hgy⟩

/-! ### T4 — parameter decoding -/

/-- **param_decoding (scalar).** For a root `parameters [rows, nSets]`, a parameter stored in row `0 ≤ row < rows` and a
cell `i ≥ 0`: the `ApplyParameters` view (`Slice([row,0],[1,nSets],nil).MustReshape([nSets])`, contiguous, no copy)
followed by `Get1(i % Len1())` does not panic and returns `parameters[row, i % nSets]`, storage cell
`base + row·nSets + i % nSets` (parameter sets are reused cyclically). -/
theorem param_decoding_scalar {h : Heap α} {parameters : Arr} {rows nSets row i : Int}
    (r : RootOn h parameters [rows, nSets]) (h0 : 0 ≤ row) (h1 : row < rows) (hi0 : 0 ≤ i) :
    (sliceView parameters.v [row, 0] [1, nSets] none).contiguous = .ok true ∧
    ∃ x, scalarParam h parameters row i = .ok x ∧
      cell h parameters.sid (parameters.base + (row * nSets + i % nSets)).toNat = some x ∧
      Nd.get h parameters [row, i % nSets] = .ok x := by
  obtain ⟨_, hnS⟩ := pos2 r.pos
  have hc0 : 0 ≤ i % nSets := Int.emod_nonneg _ (by omega)
  have hc1 : i % nSets < nSets := Int.emod_lt_of_pos _ (by omega)
  obtain ⟨e, hc, rv⟩ := paramView_scalar_eq r h0 h1
  obtain ⟨x, hx, _, hg1⟩ := rv.flat_get hc0 hc1
  obtain ⟨y, hy, hgy, _⟩ := r.get (idx := [row, i % nSets]) (by simp; omega)
  have hrav : ravel [row, i % nSets] [rows, nSets] = row * nSets + i % nSets := by simp [ravel, product]
  rw [hrav, ← Int.add_assoc, hx] at hy
  injection hy with hy
  subst hy
  refine ⟨hc, x, ?_, by rw [← Int.add_assoc]; exact hx, hgy⟩
  unfold scalarParam
  simp only [len_rootView r.view (k := 1) (d := nSets) rfl, e, bind, Except.bind]
  have : (flat parameters.sid (parameters.base + row * nSets) nSets).v.len 0 = .ok nSets := by
    simp [View.len, flat, rootView]
  simp only [this, goMod_eq hi0 hnS]
  exact hg1

/-- **param_decoding (table).** For a root `parameters [rows, nSets]`, a table parameter stored in rows
`row … row+maxLen-1` (`0 ≤ row`, `1 ≤ maxLen`, `row + maxLen ≤ rows`), a cell `i ≥ 0` whose own table length is
`ownLen ≤ maxLen`: the `ApplyParameters` view (`Slice([row,0],[maxLen,nSets],nil).MustReshape([maxLen,nSets])`,
contiguous, no copy) followed by `Slice([]int{0, i % nSets}, []int{ownLen}, nil)` — rank-1 extents on a rank-2 array,
not a view of the `Reach` vocabulary — does not panic and yields a view `t` on the parameters storage with
`Len1() = ownLen` whose `Index([r])` is `i % nSets + r·nSets` (for EVERY `r`: `Index` loops over `len(loc) = 1`), and
whose element `r`, `0 ≤ r < ownLen`, is `parameters[row + r, i % nSets]`, storage cell
`base + (row + r)·nSets + i % nSets`: column `i % nSets` of the table, top `ownLen` rows. -/
theorem param_decoding_table {h : Heap α} {parameters : Arr} {rows nSets row maxLen ownLen i : Int}
    (r : RootOn h parameters [rows, nSets]) (h0 : 0 ≤ row) (hm : 1 ≤ maxLen) (h1 : row + maxLen ≤ rows)
    (hi0 : 0 ≤ i) (hown : ownLen ≤ maxLen) :
    (sliceView parameters.v [row, 0] [1 * maxLen, nSets] none).contiguous = .ok true ∧
    ∃ t, tableParam h parameters row maxLen ownLen i = .ok (h, t) ∧ t.sid = parameters.sid ∧ t.isC = false ∧
      t.v.len 0 = .ok ownLen ∧
      (∀ q : Int, t.v.index [q] = .ok (i % nSets + q * nSets)) ∧
      (∀ q, 0 ≤ q → q < ownLen → ∃ x, get1 h t q = .ok x ∧ Nd.get h t [q] = .ok x ∧
        cell h parameters.sid (parameters.base + ((row + q) * nSets + i % nSets)).toNat = some x ∧
        Nd.get h parameters [row + q, i % nSets] = .ok x) := by
  obtain ⟨_, hnS⟩ := pos2 r.pos
  have hc0 : 0 ≤ i % nSets := Int.emod_nonneg _ (by omega)
  have hc1 : i % nSets < nSets := Int.emod_lt_of_pos _ (by omega)
  obtain ⟨_, hc, rt⟩ := paramView_table_eq r h0 hm h1
  refine ⟨hc, _, tableParam_eq r h0 hm h1 hi0, rfl, rfl, by simp [View.len, tableArr], fun q => tableArr_index _ _ _ _ _ _ _,
    fun q q0 q1 => ?_⟩
  obtain ⟨x, hx, hg, hg1⟩ := tableArr_get (ownLen := ownLen) rt hc0 hc1 q0 (by omega) q1
  obtain ⟨y, hy, hgy, _⟩ := r.get (idx := [row + q, i % nSets]) (by simp; omega)
  have hrav : ravel [row + q, i % nSets] [rows, nSets] = (row + q) * nSets + i % nSets := by simp [ravel, product]
  have hpos : parameters.base + row * nSets + (i % nSets + q * nSets) =
      parameters.base + ((row + q) * nSets + i % nSets) := by ring
  rw [hpos] at hx
  rw [hrav, hx] at hy
  injection hy with hy
  subst hy
  exact ⟨x, hg1, hg, hx, hgy⟩

/-! ### T5 — footprints of different cells are disjoint -/

/-- the storage positions cell `i` may WRITE: row `i` of `states [·, nS]` and the rows `(i, ·, ·)` of
`outputs [·, nO, T']` (whole rows — a superset of the `t < T` actually written, `cell_views_outputs`) -/
def WriteFoot (states outputs : Arr) (nS nO T' i : Int) (u q : Nat) : Prop :=
  (u = states.sid ∧ ∃ s, 0 ≤ s ∧ s < nS ∧ q = (states.base + (i * nS + s)).toNat) ∨
  (u = outputs.sid ∧ ∃ o t, 0 ≤ o ∧ o < nO ∧ 0 ≤ t ∧ t < T' ∧ q = (outputs.base + ((i * nO + o) * T' + t)).toNat)

/-- the storages every cell only READS: parameters and inputs (all of them: input blocks and parameter sets are shared
between cells when `nIn < N` or `nSets < N`) -/
def ReadOnlyFoot (parameters inputs : Arr) (u : Nat) : Prop := u = parameters.sid ∨ u = inputs.sid

/-- every position the views of cell `i` touch in `states`/`outputs` (theorems `cell_views_states`,
`cell_views_outputs`) lies in `WriteFoot … i` -/
theorem stateView_pos_in_foot (states outputs : Arr) {nS nO T' i s : Int} (s0 : 0 ≤ s) (s1 : s < nS) :
    WriteFoot states outputs nS nO T' i states.sid (states.base + (i * nS + s)).toNat :=
  Or.inl ⟨rfl, s, s0, s1, rfl⟩

theorem outputView_pos_in_foot (states outputs : Arr) {nS nO T' T i o t : Int} (o0 : 0 ≤ o) (o1 : o < nO)
    (t0 : 0 ≤ t) (t1 : t < T) (hT : T ≤ T') :
    WriteFoot states outputs nS nO T' i outputs.sid (outputs.base + ((i * nO + o) * T' + t)).toNat :=
  Or.inr ⟨rfl, o, t, o0, o1, t0, by omega, rfl⟩

/-- **views_disjoint.** For cells `i ≠ j` (`i, j ≥ 0`), arrays `states [·, nS]`, `outputs [·, nO, T']` with
non-negative `Impl` offsets, held in storages different from each other and from those of `parameters` and `inputs`:
the write footprint of cell `i` (state row `i`, output rows `(i,·,·)`) contains no position of the write footprint of
cell `j` — which is also everything cell `j` reads in `states`/`outputs` — and no position of the read-only storages.
So the only storage shared between two cells is read-only: the footprint fact assumed by the schedule-independence
instance of C05 (`OW.Sim.CellTasks`: addresses `st i`, `out i` are distinct memory for distinct `i`). -/
theorem views_disjoint {states outputs parameters inputs : Arr} {nS nO T' i j : Int}
    (hsb : 0 ≤ states.base) (hob : 0 ≤ outputs.base) (hnS : 1 ≤ nS) (hnO : 1 ≤ nO) (hT' : 1 ≤ T')
    (hso : states.sid ≠ outputs.sid) (hsp : states.sid ≠ parameters.sid) (hsi : states.sid ≠ inputs.sid)
    (hop : outputs.sid ≠ parameters.sid) (hoi : outputs.sid ≠ inputs.sid)
    (hi0 : 0 ≤ i) (hj0 : 0 ≤ j) (hij : i ≠ j) (u q : Nat) (hw : WriteFoot states outputs nS nO T' i u q) :
    ¬ WriteFoot states outputs nS nO T' j u q ∧ ¬ ReadOnlyFoot parameters inputs u := by
  constructor
  · intro hw'
    rcases hw with ⟨rfl, s, s0, s1, rfl⟩ | ⟨rfl, o, t, o0, o1, t0, t1, rfl⟩
    · rcases hw' with ⟨_, s', s0', s1', e⟩ | ⟨e, _⟩
      · have := row_ne hnS hij s0 s1 s0' s1'
        have := row_nonneg hnS hi0 s0
        have := row_nonneg hnS hj0 s0'
        omega
      · exact hso e
    · rcases hw' with ⟨e, _⟩ | ⟨_, o', t', o0', o1', t0', t1', e⟩
      · exact hso e.symm
      · have h1 := row_ne hnO hij o0 o1 o0' o1'
        have h2 := row_ne hT' h1 t0 t1 t0' t1'
        have h3 := row_nonneg hT' (row_nonneg hnO hi0 o0) t0
        have h4 := row_nonneg hT' (row_nonneg hnO hj0 o0') t0'
        omega
  · intro hr
    rcases hw with ⟨rfl, _⟩ | ⟨rfl, _⟩ <;> rcases hr with e | e
    · exact hsp e
    · exact hsi e
    · exact hop e
    · exact hoi e

/-- **write_invisible_to_other_cells.** On root arrays in pairwise different storages, a write of cell `i` — any
storage update inside `WriteFoot … i`, which is where `Set1` through its state view and output views lands — leaves
every value cell `j ≠ i` reads unchanged: through its state view, its output views, its input views and its scalar
parameter decoding. (With `views_disjoint`: cells communicate through nothing.) -/
theorem write_invisible_to_other_cells {h : Heap α} {parameters inputs states outputs : Arr}
    {rows nSets nIn nI T N nS M nO T' i j : Int}
    (rp : RootOn h parameters [rows, nSets]) (ri : RootOn h inputs [nIn, nI, T]) (rs : RootOn h states [N, nS])
    (ro : RootOn h outputs [M, nO, T'])
    (hso : states.sid ≠ outputs.sid) (hsp : states.sid ≠ parameters.sid) (hsi : states.sid ≠ inputs.sid)
    (hop : outputs.sid ≠ parameters.sid) (hoi : outputs.sid ≠ inputs.sid)
    (hi0 : 0 ≤ i) (hj0 : 0 ≤ j) (hjN : j < N) (hjM : j < M) (hij : i ≠ j) (hT0 : 1 ≤ T) (hT : T ≤ T')
    (u q : Nat) (v : α) (hw : WriteFoot states outputs nS nO T' i u q) :
    (∀ s, 0 ≤ s → s < nS → ∃ sv, stateView (setStore h u q v) states j nS = .ok (setStore h u q v, sv) ∧
        stateView h states j nS = .ok (h, sv) ∧ get1 (setStore h u q v) sv s = get1 h sv s) ∧
    (∀ o t, 0 ≤ o → o < nO → 0 ≤ t → t < T → ∃ ov, outputView (setStore h u q v) outputs j o T = .ok (setStore h u q v, ov) ∧
        outputView h outputs j o T = .ok (h, ov) ∧ get1 (setStore h u q v) ov t = get1 h ov t) ∧
    (∀ k t, 0 ≤ k → k < nI → 0 ≤ t → t < T → ∃ iv, inputView (setStore h u q v) inputs j k nIn nI T = .ok (setStore h u q v, iv) ∧
        inputView h inputs j k nIn nI T = .ok (h, iv) ∧ get1 (setStore h u q v) iv t = get1 h iv t) ∧
    (∀ row, 0 ≤ row → row < rows → scalarParam (setStore h u q v) parameters row j = scalarParam h parameters row j) := by
  have ss := sameShape_setStore h u q v
  obtain ⟨_, hnS⟩ := pos2 rs.pos
  obtain ⟨_, hnO, hT'⟩ := pos3 ro.pos
  obtain ⟨hnd, hro⟩ := views_disjoint rs.ok.base_nonneg ro.ok.base_nonneg hnS hnO hT' hso hsp hsi hop hoi hi0 hj0 hij u q hw
  refine ⟨fun s s0 s1 => ?_, fun o t o0 o1 t0 t1 => ?_, fun k t k0 k1 t0 t1 => ?_, fun row r0 r1 => ?_⟩
  · obtain ⟨e, _, rv⟩ := stateView_eq rs hj0 hjN
    obtain ⟨e', _, _⟩ := stateView_eq (rs.sameShape ss) hj0 hjN
    refine ⟨_, e', e, flat_get1_frame rv s0 s1 u q v ?_⟩
    by_cases hu : u = states.sid
    · right; intro hq
      exact hnd (Or.inl ⟨hu, s, s0, s1, by rw [hq, Int.add_assoc]⟩)
    · exact Or.inl hu
  · obtain ⟨e, _, rv⟩ := outputView_eq ro hj0 hjM o0 o1 hT0 hT
    obtain ⟨e', _, _⟩ := outputView_eq (ro.sameShape ss) hj0 hjM o0 o1 hT0 hT
    refine ⟨_, e', e, flat_get1_frame rv t0 t1 u q v ?_⟩
    by_cases hu : u = outputs.sid
    · right; intro hq
      exact hnd (Or.inr ⟨hu, o, t, o0, o1, t0, by omega, by rw [hq, Int.add_assoc]⟩)
    · exact Or.inl hu
  · obtain ⟨e, rv⟩ := inputView_eq ri hj0 k0 k1
    obtain ⟨e', _⟩ := inputView_eq (ri.sameShape ss) hj0 k0 k1
    exact ⟨_, e', e, flat_get1_frame rv t0 t1 u q v (Or.inl (fun hu => hro (Or.inr hu)))⟩
  · obtain ⟨_, x, hx, hc, _⟩ := param_decoding_scalar rp r0 r1 hj0
    obtain ⟨_, x', hx', hc', _⟩ := param_decoding_scalar (rp.sameShape ss) r0 r1 hj0
    rw [cell_setStore, if_neg (by rintro ⟨e1, _⟩; exact hro (Or.inl e1.symm)), hc] at hc'
    injection hc' with hc'
    rw [hx, hx', hc']

/-! ### the template's own index vectors -/

/-- **runDims_roots.** The preamble of `Run` on root arrays `inputs [nIn,nI,T]`, `states [N,nS]`, `outputs [M,nO,T']`
does not panic and computes the numbers and shared index vectors used above: `statesSizeSlice = [1,nS]`,
`inputsSizeSlice = [1,nI,T]`, `cellInputsShape = [nI,T]`, `outputSizeSlice = [1,1,T]`, `outputStepSlice = [1,1,1]`
(`inputLen = T` is taken from the INPUTS, also for the output views). -/
theorem runDims_roots {inputs states outputs : Arr} {nIn nI T N nS M nO T' : Int}
    (hi : inputs.v = rootView [nIn, nI, T] 0) (hs : states.v = rootView [N, nS] 0)
    (ho : outputs.v = rootView [M, nO, T'] 0) :
    runDims inputs states outputs = .ok
      { numCells := N, numStates := nS, numInputSequences := nIn, inputLen := T, cellInputsShape := [nI, T],
        outputStepSlice := [1, 1, 1], outputSizeSlice := [1, 1, T], statesSizeSlice := [1, nS],
        inputsSizeSlice := [1, nI, T] } :=
  runDims_eq hi hs ho

/-- **template_views.** With the vectors of `runDims` and the per-goroutine position vectors
(`X.NewIndex(0)` with the cell / output number stored into it), the views the template builds are the ones the
theorems above are about. -/
theorem template_views {h : Heap α} {inputs states outputs : Arr} {nIn nI T N nS M nO T' : Int} {rd : RunDims}
    (hi : inputs.v = rootView [nIn, nI, T] 0) (hs : states.v = rootView [N, nS] 0)
    (ho : outputs.v = rootView [M, nO, T'] 0) (hrd : runDims inputs states outputs = .ok rd) (i k o : Int) :
    tplStateView h states rd i = stateView h states i nS ∧
    tplInputView h inputs rd i k = inputView h inputs i k nIn nI T ∧
    tplOutputView h outputs rd i o = outputView h outputs i o T := by
  rw [runDims_roots hi hs ho] at hrd
  injection hrd with hrd
  subst hrd
  refine ⟨?_, ?_, ?_⟩
  · simp [tplStateView, stateView, setAt, View.newIndex, View.ndims, hs, rootView, uniform, bind, Except.bind]
  · unfold tplInputView inputView cellInputs inputOf goMod
    by_cases h0 : nIn = 0
    · simp [h0, bind, Except.bind]
    · simp [h0, setAt, View.newIndex, View.ndims, hi, rootView, uniform, bind, Except.bind, pure, Except.pure]
      generalize slice inputs [i.tmod nIn, 0, 0] [1, nI, T] none = e
      cases e <;> rfl
  · simp [tplOutputView, outputView, setAt, View.newIndex, View.ndims, ho, rootView, uniform, bind, Except.bind,
      pure, Except.pure]

end

/-! ### T6 — one cell step through the views is `cellStep` of the list-level semantics -/

section Refine
variable {α : Type} [Num α]

/-- **wrapperNd_refines** (specs with scalar parameters only). Root arrays `parameters [rows, nSets]`,
`inputs [nIn, nI, T]`, `states [N, nS]`, `outputs [M, nO, T']` (`T ≤ T'`, oversized allowed) on storages `pst, ist, sst,
ost`, states and outputs in different storages; a cell `i < N`, `i < M`; a model with `nP ≤ rows` scalar parameters
(rows `0 … nP-1`) and ANY kernel function `km.run` on lists whose results fit the arrays WHEN IT IS CALLED ON ARGUMENTS OF
THE SHAPE THE WRAPPER PASSES (`hK`: on `nI` input series of exactly `T` values and a state row of exactly `nS` values it
returns at most `nO` series of at most `T` values and at most `nS` states — otherwise the Go code panics where the
list-level `overwrite` truncates). The hypothesis is met by the registry kernels (`ExRefine.muskingum_fits`,
`ExRefine.coeff_fits`); quantified over ALL inputs it would be met by no real kernel (`ExRefine.unrestricted_fit_is_unsatisfiable`:
a kernel returns series as long as its inputs).
Let `paramsL`, `inputsL`, `st`, `orow` be the row-major list denotations of the storages (`mat`/`cube`/`rowAt` =
`chunks`, `mat_eq_chunks`). Then the goroutine body on the template's views (`cellStepNd`: decode the parameters through
the `ApplyParameters` views, read the states and the input series through the state/input views, run the kernel, write
the series through the output views and the states through the state view):
* fails with the same error whenever `OW.Sim.cellStep` fails (only the kernel can);
* otherwise does not panic, keeps the heap's shape, and the resulting heap holds exactly `cellStep`'s result: state
  row `i` is `s'`, output rows `(i, o, ·)` are `o'[o]` (all `T'` positions: the first `T` written, the rest as
  before), and every other cell of every storage — other cells' rows, rows `≥ N`, inputs, parameters — is unchanged. -/
theorem wrapperNd_refines (km : KModel α) {h : Heap α} {parameters inputs states outputs : Arr}
    {rows nSets nIn nI T N nS M nO T' nP i pb ib sb ob : Nat} {pst ist sst ost : List α}
    (rp : RootOn h parameters [(rows : Int), (nSets : Int)])
    (ri : RootOn h inputs [(nIn : Int), (nI : Int), (T : Int)])
    (rs : RootOn h states [(N : Int), (nS : Int)])
    (ro : RootOn h outputs [(M : Int), (nO : Int), (T' : Int)])
    (hpb : parameters.base = (pb : Int)) (hib : inputs.base = (ib : Int)) (hsb : states.base = (sb : Int))
    (hob : outputs.base = (ob : Int))
    (hp : h[parameters.sid]? = some pst) (hi : h[inputs.sid]? = some ist)
    (hs : h[states.sid]? = some sst) (ho : h[outputs.sid]? = some ost)
    (hso : states.sid ≠ outputs.sid)
    (hnP : nP ≤ rows) (hiN : i < N) (hiM : i < M) (hT : T ≤ T')
    {rd : RunDims} (hrd : runDims inputs states outputs = .ok rd)
    (hK : ∀ p ins st r, ins.length = nI → (∀ s ∈ ins, s.length = T) → st.length = nS → km.run p ins st = .ok r →
      r.outputs.length ≤ nO ∧ (∀ ser ∈ r.outputs, ser.length ≤ T) ∧ r.states.length ≤ nS) :
    (∀ e, cellStep km (List.replicate nP none) ((List.range nP).map fun j => (j, 1)) (mat pst pb rows nSets)
          (cube ist ib nIn nI T) i (rowAt sst (sb + i * nS) nS) (mat ost (ob + i * (nO * T')) nO T') = .error e →
        cellStepNd km.run nP nI h parameters inputs states outputs rd (i : Int) = .error e) ∧
    (∀ s' o', cellStep km (List.replicate nP none) ((List.range nP).map fun j => (j, 1)) (mat pst pb rows nSets)
          (cube ist ib nIn nI T) i (rowAt sst (sb + i * nS) nS) (mat ost (ob + i * (nO * T')) nO T') = .ok (s', o') →
      ∃ h', cellStepNd km.run nP nI h parameters inputs states outputs rd (i : Int) = .ok h' ∧ SameShape h h' ∧
        (∀ s, s < nS → cell h' states.sid (sb + i * nS + s) = s'[s]?) ∧
        (∀ o t, o < nO → t < T' → cell h' outputs.sid (ob + (i * nO + o) * T' + t) = (o'[o]?).bind (·[t]?)) ∧
        (∀ u q, ¬ (u = states.sid ∧ ∃ s, s < nS ∧ q = sb + i * nS + s) →
                ¬ (u = outputs.sid ∧ ∃ o t, o < nO ∧ t < T' ∧ q = ob + (i * nO + o) * T' + t) →
                cell h' u q = cell h u q)) :=
  cellStepNd_refines km rp ri rs ro hpb hib hsb hob hp hi hs ho hso hnP hiN hiM hT hrd hK

/-- **runNd_refines** (specs with scalar parameters only; the cells executed one after the other — C05 is about why
the order does not matter). Root arrays `parameters [rows, nSets]`, `inputs [nIn, nI, T]`, `states [N, nS]`,
`outputs [M, nO, T']` with `N ≤ M`, `T ≤ T'`, in pairwise different storages (parameters and inputs may share one); a
kernel whose results fit the arrays. If the list-level vectorised run `runCells` on the row-major denotations of the
storages succeeds with `(ss, os)`, then `Run` through the template's views (`runNd`: the preamble, then `cellStepNd` for
`i = 0 … N-1`) does not panic, keeps the heap's shape, and afterwards
* the states storage denotes `ss` and the outputs storage denotes `os` (ALL `M` rows and `T'` timesteps: rows `≥ N` and
  timesteps `≥ T` as before, by `C04.runCells_spec` / `C04.cellStep_frame`);
* every other storage (parameters, inputs, anything else in the heap) is the same list as before, and the states and
  outputs storages are unchanged outside the windows of the two arrays (`run_frame`). -/
theorem runNd_refines (km : KModel α) {h : Heap α} {parameters inputs states outputs : Arr}
    {rows nSets nIn nI T N nS M nO T' nP pb ib sb ob : Nat} {pst ist sst ost : List α}
    (rp : RootOn h parameters [(rows : Int), (nSets : Int)])
    (ri : RootOn h inputs [(nIn : Int), (nI : Int), (T : Int)])
    (rs : RootOn h states [(N : Int), (nS : Int)])
    (ro : RootOn h outputs [(M : Int), (nO : Int), (T' : Int)])
    (hpb : parameters.base = (pb : Int)) (hib : inputs.base = (ib : Int)) (hsb : states.base = (sb : Int))
    (hob : outputs.base = (ob : Int))
    (hp : h[parameters.sid]? = some pst) (hi : h[inputs.sid]? = some ist)
    (hs : h[states.sid]? = some sst) (ho : h[outputs.sid]? = some ost)
    (hso : states.sid ≠ outputs.sid) (hps : parameters.sid ≠ states.sid) (hpo : parameters.sid ≠ outputs.sid)
    (his : inputs.sid ≠ states.sid) (hio : inputs.sid ≠ outputs.sid)
    (hnP : nP ≤ rows) (hNM : N ≤ M) (hT : T ≤ T')
    (hK : ∀ p ins st r, ins.length = nI → (∀ s ∈ ins, s.length = T) → st.length = nS → km.run p ins st = .ok r →
      r.outputs.length ≤ nO ∧ (∀ ser ∈ r.outputs, ser.length ≤ T) ∧ r.states.length ≤ nS)
    {ss : List (List α)} {os : List (List (List α))}
    (hrun : runCells km (List.replicate nP none) ((List.range nP).map fun j => (j, 1)) (mat pst pb rows nSets)
      (cube ist ib nIn nI T) 0 (mat sst sb N nS) (cube ost ob M nO T') = .ok (ss, os)) :
    ∃ h' sst' ost', runNd km.run nP nI h parameters inputs states outputs = .ok h' ∧ SameShape h h' ∧
      h'[states.sid]? = some sst' ∧ h'[outputs.sid]? = some ost' ∧
      (∀ u, u ≠ states.sid → u ≠ outputs.sid → h'[u]? = h[u]?) ∧
      mat sst' sb N nS = ss ∧ cube ost' ob M nO T' = os ∧
      (∀ q, (q < sb ∨ sb + N * nS ≤ q) → sst'[q]? = sst[q]?) ∧
      (∀ q, (q < ob ∨ ob + N * (nO * T') ≤ q) → ost'[q]? = ost[q]?) :=
  runNd_eq_runCells km rp ri rs ro hpb hib hsb hob hp hi hs ho hso hps hpo his hio hnP hNM hT hK hrun

end Refine

section
variable {α : Type}

/-! ### the lemma DESIGN §6 C03 asks for: every reshape of the template is applied to a contiguous view -/

/-- **reshapes_on_contiguous_views.** On root arrays (any extents ≥ 1, oversized outputs allowed), for every cell,
input, output and parameter row in range, EVERY view the template passes to `MustReshape` — the state row, the input
block, the input series inside the reshaped block, the output series, a scalar parameter row, a table parameter's rows —
is contiguous. So (C02 `reshape_spec`) each of these reshapes aliases the storage of the array it was sliced from
(Go back-end: re-based `Impl`; C back-end: root view from `Start`), never copies, and the non-contiguous-C-view defect
of `Reshape` (D3) is not reachable from the wrappers. -/
theorem reshapes_on_contiguous_views {h : Heap α} {parameters inputs states outputs : Arr}
    {rows nSets nIn nI T N nS M nO T' : Int}
    (rp : RootOn h parameters [rows, nSets]) (ri : RootOn h inputs [nIn, nI, T]) (rs : RootOn h states [N, nS])
    (ro : RootOn h outputs [M, nO, T']) (hT : T ≤ T') {i : Int} (hi0 : 0 ≤ i) (hiN : i < N) (hiM : i < M) :
    (sliceView states.v [i, 0] [1, nS] none).contiguous = .ok true ∧
    (sliceView inputs.v [i % nIn, 0, 0] [1, nI, T] none).contiguous = .ok true ∧
    (∀ k, 0 ≤ k → k < nI → (sliceView (rootView [nI, T] 0) [k, 0] [1, T] none).contiguous = .ok true) ∧
    (∀ o, 0 ≤ o → o < nO → (sliceView outputs.v [i, o, 0] [1, 1, T] (some [1, 1, 1])).contiguous = .ok true) ∧
    (∀ row, 0 ≤ row → row < rows → (sliceView parameters.v [row, 0] [1, nSets] none).contiguous = .ok true) ∧
    (∀ row maxLen, 0 ≤ row → 1 ≤ maxLen → row + maxLen ≤ rows →
      (sliceView parameters.v [row, 0] [1 * maxLen, nSets] none).contiguous = .ok true) := by
  obtain ⟨_, _, hT0⟩ := pos3 ri.pos
  obtain ⟨_, h2, rci⟩ := cellInputs_eq ri hi0
  exact ⟨(stateView_eq rs hi0 hiN).2.1, h2, fun k k0 k1 => (inputOf_eq rci k0 k1).2.1,
    fun o o0 o1 => (outputView_eq ro hi0 hiM o0 o1 hT0 hT).2.1,
    fun row r0 r1 => (paramView_scalar_eq rp r0 r1).2.1,
    fun row maxLen r0 m1 r1 => (paramView_table_eq rp r0 m1 r1).2.1⟩

/-! ## Non-vacuity: parameters 3×2, inputs 2×2×3, states 3×2, outputs 4×1×5 (oversized: 4 > 3 cells, 5 > 3 steps) -/
namespace Ex

/-- storage 0: parameters `[[10,11],[20,21],[30,31]]`; storage 1: inputs `100 … 111`; storage 2: states `1 … 6`;
storage 3: outputs, 20 sentinels `-1` -/
def heap : Heap Int :=
  [[10, 11, 20, 21, 30, 31], (List.range 12).map (fun k => 100 + Int.ofNat k), [1, 2, 3, 4, 5, 6], List.replicate 20 (-1)]
def pA : Arr := rootArr 0 [3, 2] 6
def iA : Arr := rootArr 1 [2, 2, 3] 12
def sA : Arr := rootArr 2 [3, 2] 6
def oA : Arr := rootArr 3 [4, 1, 5] 20

-- the arrays are what the constructor returns, and they satisfy the hypotheses of the theorems
example : fromStore heap 0 [3, 2] = .ok pA ∧ fromStore heap 1 [2, 2, 3] = .ok iA ∧ fromStore heap 2 [3, 2] = .ok sA ∧
    fromStore heap 3 [4, 1, 5] = .ok oA := by decide
theorem rp : RootOn heap pA [3, 2] := (rootOn_rootArr (st := heap[0]) (by simp) (by simp [Pos]) rfl (by decide)).2
theorem ri : RootOn heap iA [2, 2, 3] := (rootOn_rootArr (st := heap[1]) (by simp) (by simp [Pos]) rfl (by decide)).2
theorem rs : RootOn heap sA [3, 2] := (rootOn_rootArr (st := heap[2]) (by simp) (by simp [Pos]) rfl (by decide)).2
theorem ro : RootOn heap oA [4, 1, 5] := (rootOn_rootArr (st := heap[3]) (by simp) (by simp [Pos]) rfl (by decide)).2

-- the preamble of `Run`, and the template's views = the explicit ones
example : runDims iA sA oA = .ok ⟨3, 2, 2, 3, [2, 3], [1, 1, 1], [1, 1, 3], [1, 2], [1, 2, 3]⟩ := by decide
example : (do let rd ← runDims iA sA oA; tplStateView heap sA rd 2) = stateView heap sA 2 2 ∧
    (do let rd ← runDims iA sA oA; tplInputView heap iA rd 3 1) = inputView heap iA 3 1 2 2 3 ∧
    (do let rd ← runDims iA sA oA; tplOutputView heap oA rd 2 0) = outputView heap oA 2 0 3 := by decide

-- T2 on cell 2: the state view is the window [4, 6) of storage 2; `Set1(1, 99)` changes exactly position 5
example : stateView heap sA 2 2 = .ok (heap, flat 2 4 2) := by decide
example := cell_views_states rs (i := 2) (by decide) (by decide)
example : (do let (h1, sv) ← stateView heap sA 2 2; readView h1 sv) = .ok [5, 6] := by decide
example : (do let (h1, sv) ← stateView heap sA 2 2; set1 h1 sv 1 99) =
    .ok [heap[0], heap[1], [1, 2, 3, 4, 5, 99], heap[3]] := by decide
example : (do let (h1, sv) ← stateView heap sA 2 2; set1 h1 sv 2 99) = .error "index-out-of-range" := by decide

-- T1 on cell 3 (block 3 % 2 = 1), input 1: the window [9, 12) of storage 1 = inputs[1, 1, ·]
example : inputView heap iA 3 1 2 2 3 = .ok (heap, flat 1 9 3) := by decide
example := cell_views_inputs ri (i := 3) (k := 1) (by decide) (by decide) (by decide)
example : (do let (h1, v) ← inputView heap iA 3 1 2 2 3; readView h1 v) = .ok [109, 110, 111] ∧
    (do let (h1, v) ← inputView heap iA 3 1 2 2 3; unrollVals h1 v) = .ok [109, 110, 111] ∧
    [Nd.get heap iA [1, 1, 0], Nd.get heap iA [1, 1, 1], Nd.get heap iA [1, 1, 2]] = [.ok 109, .ok 110, .ok 111] := by
  decide

-- T3 on cell 2, output 0, T = 3 < T' = 5: the window [10, 13) of storage 3; a kernel writing the series changes
-- exactly positions 10, 11, 12 — timesteps 3, 4 of the row and row 3 (no cell) keep their sentinels
example : outputView heap oA 2 0 3 = .ok (heap, flat 3 10 3) := by decide
example := cell_views_outputs ro (i := 2) (o := 0) (T := 3) (by decide) (by decide) (by decide) (by decide) (by decide)
  (by decide)
example : (do let (h1, ov) ← outputView heap oA 2 0 3; writeView h1 ov [7, 8, 9]) =
    .ok [heap[0], heap[1], heap[2],
      [-1, -1, -1, -1, -1,  -1, -1, -1, -1, -1,  7, 8, 9, -1, -1,  -1, -1, -1, -1, -1]] := by decide
example : (do let (h1, ov) ← outputView heap oA 2 0 3; set1 h1 ov 3 99) = .error "index-out-of-range" := by decide

-- T4: scalar parameter in row 1 for cell 3 is parameters[1, 3 % 2] = 21; a table parameter in rows 1..2
-- (maxLen = 2) for cell 3 with own length 2 is column 1: [21, 31]; with own length 1: [21]
example : scalarParam heap pA 1 3 = .ok 21 := by decide
example := param_decoding_scalar rp (row := 1) (i := 3) (by decide) (by decide) (by decide)
example : (do let (h1, t) ← tableParam heap pA 1 2 2 3; readTable h1 t 2) = .ok [21, 31] ∧
    (do let (h1, t) ← tableParam heap pA 1 2 1 3; readTable h1 t 1) = .ok [21] ∧
    (do let (_, t) ← tableParam heap pA 1 2 2 3; t.v.len 0) = .ok 2 := by decide
example := param_decoding_table rp (row := 1) (maxLen := 2) (ownLen := 2) (i := 3) (by decide) (by decide) (by decide)
  (by decide) (by decide)
/-- the table view is not a view of the `Reach` vocabulary (rank-1 extents, rank-2 strides) -/
example : (do let (_, t) ← tableParam heap pA 1 2 2 3; pure t.v) =
    .ok ⟨[2, 2], [2], 1, [2, 1], [1, 1], [2, 1]⟩ := by decide

-- T5: footprints of cells 0 and 2
example := views_disjoint (states := sA) (outputs := oA) (parameters := pA) (inputs := iA) (nS := 2) (nO := 1) (T' := 5)
  (i := 0) (j := 2) (by decide) (by decide) (by decide) (by decide) (by decide) (by decide) (by decide) (by decide)
  (by decide) (by decide) (by decide) (by decide) (by decide)

-- every reshape is on a contiguous view
example := reshapes_on_contiguous_views rp ri rs ro (i := 2) (by decide) (by decide) (by decide) (by decide)

/-- a toy kernel: the output series is the first input series plus the first parameter; the new states are the old
ones swapped -/
def toyKernel (p : List Int) (ins : List (List Int)) (st : List Int) : KRes Int :=
  .ok { outputs := [(ins.headD []).map (· + p.headD 0)], states := st.reverse }

-- one whole cell step (cell 2: block 0, parameter set 0) through the views: output row (2,0,·) gets the series in
-- its first 3 positions, state row 2 is swapped, nothing else changes
example : (do let rd ← runDims iA sA oA; cellStepNd toyKernel 3 2 heap pA iA sA oA rd 2) =
    .ok [heap[0], heap[1], [1, 2, 3, 4, 6, 5],
      [-1, -1, -1, -1, -1,  -1, -1, -1, -1, -1,  110, 111, 112, -1, -1,  -1, -1, -1, -1, -1]] := by decide

-- the whole `Run` (3 cells; 2 parameter sets and 2 input blocks reused cyclically) through the views: output rows
-- 0..2 receive their series in the first 3 timesteps, row 3 and timesteps 3, 4 keep the sentinels; inputs and
-- parameters are untouched
example : runNd toyKernel 3 2 heap pA iA sA oA =
    .ok [heap[0], heap[1], [2, 1, 4, 3, 6, 5],
      [110, 111, 112, -1, -1,  117, 118, 119, -1, -1,  110, 111, 112, -1, -1,  -1, -1, -1, -1, -1]] := by decide

/-! ### observations on the template's view algebra (hypotheses that are needed; a dead branch that is wrong) -/

/-- `T ≤ T'` is needed (the template takes `inputLen` from the INPUTS and `Slice` checks no bounds): with outputs
`3×1×2` and series length 3, the output views of cells 0 and 1 are the windows `[0,3)` and `[2,5)` of the same storage —
they OVERLAP at position 2 (no panic; `Contiguous()` is true, the reshape aliases across the row boundary), and only
the last cell panics (slice bounds). -/
example : let hO : Heap Int := [List.replicate 6 0]
    let o32 : Arr := rootArr 0 [3, 1, 2] 6
    outputView hO o32 0 0 3 = .ok (hO, flat 0 0 3) ∧ outputView hO o32 1 0 3 = .ok (hO, flat 0 2 3) ∧
    outputView hO o32 2 0 3 = .error "index-out-of-range" := by decide

/-- The template's write-back of packed states (`GR4J`, `Lag`) passes the STEP vector `[0,1]`
(`states.ApplySlice([]int{i,0}, []int{0,1}, pack(…))`): a zero step, outside the `SliceOK` vocabulary of C01 (steps ≥ 1).
It is harmless only because the packed array has extent 1 on that axis — same result as step `[1,1]`. -/
example : let hS : Heap Int := [[1, 2, 3, 4, 5, 6], [70, 80]]
    let packed : Arr := rootArr 1 [1, 2] 2
    applySlice hS (rootArr 0 [3, 2] 6) [2, 0] (some [0, 1]) packed = .ok [[1, 2, 3, 4, 70, 80], [70, 80]] ∧
    applySlice hS (rootArr 0 [3, 2] 6) [2, 0] (some [0, 1]) packed =
      applySlice hS (rootArr 0 [3, 2] 6) [2, 0] (some [1, 1]) packed := by decide

/-- The branch of the template for kernels that RETURN their outputs (`PassOutputsAsParams = false`; used by none of
the 41 catalogued models) reshapes a series to `[1, len, 1]` and `ApplySlice`s it at `[i, o, 0]`: with the dimension
order `[cell, output, timestep]` that writes along the OUTPUT axis (positions `0, 3, 6` of a `2×2×3` array — the third in
the next cell's rows), not along the timestep axis (`[1, 1, len]`: positions `0, 1, 2`). -/
example : let hO : Heap Int := [List.replicate 12 0, [7, 8, 9]]
    let o223 : Arr := rootArr 0 [2, 2, 3] 12
    applySlice hO o223 [0, 0, 0] (some [1, 1, 1]) (rootArr 1 [1, 3, 1] 3) =
      .ok [[7, 0, 0, 8, 0, 0, 9, 0, 0, 0, 0, 0], [7, 8, 9]] ∧
    applySlice hO o223 [0, 0, 0] (some [1, 1, 1]) (rootArr 1 [1, 1, 3] 3) =
      .ok [[7, 8, 9, 0, 0, 0, 0, 0, 0, 0, 0, 0], [7, 8, 9]] := by decide

end Ex

end

/-! ### T6 instantiated: all hypotheses of `wrapperNd_refines` are met on a concrete heap, for any element type -/
namespace ExRefine
variable {α : Type} [Num α]

/-- parameters 3×2, inputs 2×2×3, states 3×2, outputs 4×1×5, all filled with `z` -/
def heap (z : α) : Heap α := [List.replicate 6 z, List.replicate 12 z, List.replicate 6 z, List.replicate 20 z]
/-- a kernel whose results fit the arrays: the first input series (at most 3 values), at most 2 states -/
def toyKm : KModel α :=
  { name := "toy", init := fun _ => .ok [],
    run := fun _ ins st => .ok { outputs := [(ins.headD []).take 3], states := st.take 2 } }

example (z : α) :=
  wrapperNd_refines (toyKm (α := α)) (h := heap z) (rows := 3) (nSets := 2) (nIn := 2) (nI := 2) (T := 3) (N := 3) (nS := 2)
    (M := 4) (nO := 1) (T' := 5) (nP := 3) (i := 2) (pb := 0) (ib := 0) (sb := 0) (ob := 0)
    (parameters := rootArr 0 [((3 : Nat) : Int), ((2 : Nat) : Int)] 6)
    (inputs := rootArr 1 [((2 : Nat) : Int), ((2 : Nat) : Int), ((3 : Nat) : Int)] 12)
    (states := rootArr 2 [((3 : Nat) : Int), ((2 : Nat) : Int)] 6)
    (outputs := rootArr 3 [((4 : Nat) : Int), ((1 : Nat) : Int), ((5 : Nat) : Int)] 20)
    (rootOn_rootArr (st := List.replicate 6 z) (by simp) (by simp [Pos]) rfl (by simp [product])).2
    (rootOn_rootArr (st := List.replicate 12 z) (by simp) (by simp [Pos]) rfl (by simp [product])).2
    (rootOn_rootArr (st := List.replicate 6 z) (by simp) (by simp [Pos]) rfl (by simp [product])).2
    (rootOn_rootArr (st := List.replicate 20 z) (by simp) (by simp [Pos]) rfl (by simp [product])).2
    rfl rfl rfl rfl rfl rfl rfl rfl (by decide) (by decide) (by decide) (by decide) (by decide)
    (runDims_roots rfl rfl rfl)
    (by
      intro p ins st r _ _ _ hr
      simp only [toyKm, Except.ok.injEq] at hr
      subst hr
      refine ⟨by simp, fun ser hs => ?_, by simp⟩
      simp only [List.mem_singleton] at hs
      subst hs
      simp)

/-- the hypothesis of `runNd_refines` (the list-level run succeeds) is met … -/
theorem toy_runCells (z : α) : runCells (toyKm (α := α)) (List.replicate 3 none)
    ((List.range 3).map fun j => (j, 1)) (mat (List.replicate 6 z) 0 3 2) (cube (List.replicate 12 z) 0 2 2 3) 0
    (mat (List.replicate 6 z) 0 3 2) (cube (List.replicate 20 z) 0 4 1 5) =
    .ok ([[z, z], [z, z], [z, z]], List.replicate 4 [List.replicate 5 z]) := by
  have r3 : List.range 3 = [0, 1, 2] := by decide
  have r2 : List.range 2 = [0, 1] := by decide
  have r4 : List.range 4 = [0, 1, 2, 3] := by decide
  have r1 : List.range 1 = [0] := by decide
  simp [runCells, cellStep, cellParams, cellParams.go, toyKm, overwrite, mat, cube, rowAt, r1, r2, r3, r4,
    List.replicate, bind, Except.bind, pure, Except.pure]

/-- … and the theorem applies: `Run` through the views succeeds and the storages denote the list-level result -/
example (z : α) :=
  runNd_refines (toyKm (α := α)) (h := heap z) (rows := 3) (nSets := 2) (nIn := 2) (nI := 2)
    (T := 3) (N := 3) (nS := 2) (M := 4) (nO := 1) (T' := 5) (nP := 3) (pb := 0) (ib := 0) (sb := 0) (ob := 0)
    (parameters := rootArr 0 [((3 : Nat) : Int), ((2 : Nat) : Int)] 6)
    (inputs := rootArr 1 [((2 : Nat) : Int), ((2 : Nat) : Int), ((3 : Nat) : Int)] 12)
    (states := rootArr 2 [((3 : Nat) : Int), ((2 : Nat) : Int)] 6)
    (outputs := rootArr 3 [((4 : Nat) : Int), ((1 : Nat) : Int), ((5 : Nat) : Int)] 20)
    (rootOn_rootArr (st := List.replicate 6 z) (by simp) (by simp [Pos]) rfl (by simp [product])).2
    (rootOn_rootArr (st := List.replicate 12 z) (by simp) (by simp [Pos]) rfl (by simp [product])).2
    (rootOn_rootArr (st := List.replicate 6 z) (by simp) (by simp [Pos]) rfl (by simp [product])).2
    (rootOn_rootArr (st := List.replicate 20 z) (by simp) (by simp [Pos]) rfl (by simp [product])).2
    rfl rfl rfl rfl rfl rfl rfl rfl (by decide) (by decide) (by decide) (by decide) (by decide) (by decide) (by decide)
    (by decide)
    (by
      intro p ins st r _ _ _ hr
      simp only [toyKm, Except.ok.injEq] at hr
      subst hr
      refine ⟨by simp, fun ser hs => ?_, by simp⟩
      simp only [List.mem_singleton] at hs
      subst hs
      simp) (toy_runCells z)


/-! #### the same on REGISTRY kernels (`OW.Kernels.Muskingum.model`, `OW.Kernels.Coeff.model`), not a toy -/

/-- `Muskingum.model` meets the kernel-fit hypothesis `hK` for every series length `T`: on 2 input series of `T` values and
3 states it returns 1 series of `T` values and 3 states. -/
theorem muskingum_fits (T : Nat) : ∀ (p : List α) ins st r, ins.length = 2 → (∀ s ∈ ins, s.length = T) → st.length = 3 →
    (Kernels.Muskingum.model (α := α)).run p ins st = .ok r →
    r.outputs.length ≤ 1 ∧ (∀ ser ∈ r.outputs, ser.length ≤ T) ∧ r.states.length ≤ 3 := by
  intro p ins st r _ hT _ hr
  simp only [Kernels.Muskingum.model] at hr
  split at hr
  · injection hr with hr
    subst hr
    refine ⟨by simp, fun ser hs => ?_, by simp⟩
    simp only [List.mem_singleton] at hs
    subst hs
    simp only [Kernels.Muskingum.run, scan_length, List.length_zip]
    have := hT _ (List.mem_cons_self)
    omega
  · cases hr

/-- `RunoffCoefficient` (`Coeff.model`) meets `hK`: 1 input series of `T` values, no states → 1 series of `T` values -/
theorem coeff_fits (T : Nat) : ∀ (p : List α) ins st r, ins.length = 1 → (∀ s ∈ ins, s.length = T) → st.length = 0 →
    (Kernels.Coeff.model (α := α)).run p ins st = .ok r →
    r.outputs.length ≤ 1 ∧ (∀ ser ∈ r.outputs, ser.length ≤ T) ∧ r.states.length ≤ 0 := by
  intro p ins st r _ hT _ hr
  simp only [Kernels.Coeff.model] at hr
  split at hr
  · injection hr with hr
    subst hr
    refine ⟨by simp, fun ser hs => ?_, by simp⟩
    simp only [List.mem_singleton] at hs
    subst hs
    simp only [Kernels.Coeff.run, List.length_map]
    exact Nat.le_of_eq (hT _ (List.mem_cons_self))
  · cases hr

/-- why `hK` must be restricted to the shapes the wrapper passes: quantified over ALL inputs (the earlier form of the
hypothesis) it is FALSE for `Muskingum.model` at `T = 3` — on 5-step inputs the kernel returns a 5-step series. -/
theorem unrestricted_fit_is_unsatisfiable (z : α) :
    ¬ (∀ (p : List α) ins st r, (Kernels.Muskingum.model (α := α)).run p ins st = .ok r →
      r.outputs.length ≤ 1 ∧ (∀ ser ∈ r.outputs, ser.length ≤ 3) ∧ r.states.length ≤ 3) := by
  intro hall
  have h := (hall [z, z, z] [List.replicate 5 z, List.replicate 5 z] [z, z, z] _ rfl).2.1 _ (List.mem_cons_self)
  simp [Kernels.Muskingum.run, scan_length] at h

/-- parameters 3×2 (k, x, deltaT for 2 sets), inputs 2×2×3 (2 blocks of inflow + lateral, 3 steps), states 3×3,
outputs 4×1×5 (oversized), all filled with `z` -/
def heapM (z : α) : Heap α := [List.replicate 6 z, List.replicate 12 z, List.replicate 9 z, List.replicate 20 z]

/-- `wrapperNd_refines` instantiated on the registry kernel `Muskingum.model` (cell 2 of 3) -/
example (z : α) :=
  wrapperNd_refines (Kernels.Muskingum.model (α := α)) (h := heapM z) (rows := 3) (nSets := 2) (nIn := 2) (nI := 2) (T := 3)
    (N := 3) (nS := 3) (M := 4) (nO := 1) (T' := 5) (nP := 3) (i := 2) (pb := 0) (ib := 0) (sb := 0) (ob := 0)
    (parameters := rootArr 0 [((3 : Nat) : Int), ((2 : Nat) : Int)] 6)
    (inputs := rootArr 1 [((2 : Nat) : Int), ((2 : Nat) : Int), ((3 : Nat) : Int)] 12)
    (states := rootArr 2 [((3 : Nat) : Int), ((3 : Nat) : Int)] 9)
    (outputs := rootArr 3 [((4 : Nat) : Int), ((1 : Nat) : Int), ((5 : Nat) : Int)] 20)
    (rootOn_rootArr (st := List.replicate 6 z) (by simp) (by simp [Pos]) rfl (by simp [product])).2
    (rootOn_rootArr (st := List.replicate 12 z) (by simp) (by simp [Pos]) rfl (by simp [product])).2
    (rootOn_rootArr (st := List.replicate 9 z) (by simp) (by simp [Pos]) rfl (by simp [product])).2
    (rootOn_rootArr (st := List.replicate 20 z) (by simp) (by simp [Pos]) rfl (by simp [product])).2
    rfl rfl rfl rfl rfl rfl rfl rfl (by decide) (by decide) (by decide) (by decide) (by decide)
    (runDims_roots rfl rfl rfl) (muskingum_fits 3)

end ExRefine

end OW.Props.C04Nd
