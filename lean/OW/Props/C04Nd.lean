import OW.Proofs.WrapperNd
import OW.Props.C04
/-!
C04 (n-d level) — the view algebra of the wrapper template yields the cell views the list-level semantics assumes.

The model `OW/Sim/WrapperNd.lean` performs the template's `Slice … MustReshape` chains on the verified n-d array
model `OW/Nd` (C01/C02). The theorems are about ROOT arrays (`RootOn h a D`: Go-backed, root view of shape `D`,
extents ≥ 1, window conditions — what `arrayFromSlice`/`NewArray` return, `rootOn_fromStore`, `rootOn_newArray`):
`inputs [nIn, nI, T]`, `states [N, nS]`, `outputs [M, nO, T']`, `parameters [rows, nSets]`.
Storage positions are `a.base + …`; for the arrays made by the constructors `a.base = 0`.

All statements are derived from the C01/C02 theorems (`slice_arr_total`, `contiguous_dense`, `reshape_spec` via
`reshape_go_alias`, `get_reads_cell`) — helper lemmas in `OW/Proofs/WrapperNd.lean`.
-/
namespace OW.Props.C04Nd
open OW OW.Nd OW.Sim OW.Sim.WrapperNd OW.WrapperNd

section
variable {α : Type}

/-! ### what "the view is an alias" means -/

/-- `v` is the flat (1-D, root, Go-backed) view of the `n` storage positions `[base, base+n)` of storage `sid`:
`Impl = storage[base : base+n]` — an alias, not a copy. -/
def IsWindow (v : Arr) (sid : Nat) (base n : Int) : Prop := v = flat sid base n

theorem isWindow_iff (v : Arr) (sid : Nat) (base n : Int) :
    IsWindow v sid base n ↔ v.sid = sid ∧ v.base = base ∧ v.len = n ∧ v.isC = false ∧ v.v = rootView [n] 0 := by
  obtain ⟨vv, s, b, l, c⟩ := v
  simp [IsWindow, flat]
  constructor
  · rintro ⟨rfl, rfl, rfl, rfl, rfl⟩; simp
  · rintro ⟨rfl, rfl, rfl, rfl, rfl⟩; simp

/-! ### T2 — the state view -/

/-- **cell_views_states.** For a root `states [N, nS]` and a cell `0 ≤ i < N`:
`states.Slice([i,0],[1,nS],nil).MustReshape([nS])` does not panic; the reshape is applied to a contiguous view, so
the heap is unchanged (no copy) and the result ALIASES the states storage: it is the flat view of positions
`[base + i·nS, base + i·nS + nS)`.
* Element `s` (`0 ≤ s < nS`) of the view is storage cell `base + i·nS + s`, the same element as `states[i, s]`.
* `Set1(s, v)` through the view does not panic and changes exactly that storage cell; afterwards `states[i, s]`
  reads `v` — the kernel's state write-back reaches the caller's array, and touches only row `i`.
* `Set1` outside `[0, nS)` panics: the view cannot be used to reach another row. -/
theorem cell_views_states {h : Heap α} {states : Arr} {N nS i : Int} (r : RootOn h states [N, nS])
    (hi0 : 0 ≤ i) (hi : i < N) :
    ∃ sv, stateView h states i nS = .ok (h, sv) ∧
      (sliceView states.v [i, 0] [1, nS] none).contiguous = .ok true ∧
      IsWindow sv states.sid (states.base + i * nS) nS ∧
      (∀ s, 0 ≤ s → s < nS → ∃ x, cell h states.sid (states.base + (i * nS + s)).toNat = some x ∧
          get1 h sv s = .ok x ∧ Nd.get h states [i, s] = .ok x) ∧
      (∀ s, 0 ≤ s → s < nS → ∀ v : α, ∃ h', set1 h sv s v = .ok h' ∧
          h' = setStore h states.sid (states.base + (i * nS + s)).toNat v ∧
          cell h' states.sid (states.base + (i * nS + s)).toNat = some v ∧
          (∀ u q : Nat, (u ≠ states.sid ∨ q ≠ (states.base + (i * nS + s)).toNat) → cell h' u q = cell h u q) ∧
          Nd.get h' states [i, s] = .ok v ∧ RootOn h' states [N, nS]) ∧
      (∀ s, (s < 0 ∨ nS ≤ s) → ∀ v : α, set1 h sv s v = .error "index-out-of-range") := by
  obtain ⟨hN, hnS⟩ := pos2 r.pos
  obtain ⟨e, hc, rv⟩ := stateView_eq r hi0 hi
  have hib : ∀ s, 0 ≤ s → s < nS → InBounds [i, s] [N, nS] := fun s s0 s1 => by simp; omega
  have hrav : ∀ s, ravel [i, s] [N, nS] = i * nS + s := fun s => by simp [ravel, product]
  refine ⟨_, e, hc, rfl, fun s s0 s1 => ?_, fun s s0 s1 v => ?_, fun s hs v => ?_⟩
  · obtain ⟨x, hx, _, hg1⟩ := rv.flat_get s0 s1
    obtain ⟨y, hy, hgy, _⟩ := r.get (hib s s0 s1)
    rw [hrav, ← Int.add_assoc, hx] at hy
    injection hy with hy
    subst hy
    exact ⟨x, by rw [← Int.add_assoc]; exact hx, hg1, hgy⟩
  · obtain ⟨hset, hcell, hframe, hss⟩ := rv.flat_set1 s0 s1 v
    have r' := r.sameShape hss
    obtain ⟨y, hy, hgy, _⟩ := r'.get (hib s s0 s1)
    rw [hrav, ← Int.add_assoc, hcell] at hy
    injection hy with hy
    subst hy
    rw [Int.add_assoc] at hset hcell hframe hgy r'
    exact ⟨_, hset, rfl, hcell, hframe, hgy, r'⟩
  · obtain ⟨st, hs', _⟩ := rv.flat_store
    exact flat_set1_oob hs' hs v

/-! ### T3 — the output views, and the frame of `Run` -/

/-- **cell_views_outputs.** For a root `outputs [M, nO, T']` — possibly OVERSIZED: `M` ≥ the number of cells, `T' ≥ T`
— a cell `0 ≤ i < M`, an output `0 ≤ o < nO` and a series length `1 ≤ T ≤ T'`:
`outputs.Slice([i,o,0],[1,1,T],[1,1,1]).MustReshape([T])` does not panic; the slice (the first `T` elements of one
row) is contiguous, so the heap is unchanged and the result ALIASES the outputs storage: it is the flat view of
positions `[base + (i·nO+o)·T', … + T)`.
* Element `t < T` of the view is storage cell `base + (i·nO + o)·T' + t`, the same element as `outputs[i, o, t]`.
* `Set1(t, v)`, `t < T`, through the view changes exactly that cell; afterwards `outputs[i, o, t]` reads `v`.
* `Set1(t, ·)` with `t ≥ T` (or `< 0`) panics. Hence a kernel writing through the views of cells `i < N` can only change
  positions `{(i, o, t) | i < N, t < T}`: rows `≥ N` and timesteps `≥ T` of an oversized array are untouched
  (`run_frame`). -/
theorem cell_views_outputs {h : Heap α} {outputs : Arr} {M nO T' T i o : Int} (r : RootOn h outputs [M, nO, T'])
    (hi0 : 0 ≤ i) (hi : i < M) (ho0 : 0 ≤ o) (ho : o < nO) (hT0 : 1 ≤ T) (hT : T ≤ T') :
    ∃ ov, outputView h outputs i o T = .ok (h, ov) ∧
      (sliceView outputs.v [i, o, 0] [1, 1, T] (some [1, 1, 1])).contiguous = .ok true ∧
      IsWindow ov outputs.sid (outputs.base + (i * nO + o) * T') T ∧
      (∀ t, 0 ≤ t → t < T → ∃ x, cell h outputs.sid (outputs.base + ((i * nO + o) * T' + t)).toNat = some x ∧
          get1 h ov t = .ok x ∧ Nd.get h outputs [i, o, t] = .ok x) ∧
      (∀ t, 0 ≤ t → t < T → ∀ v : α, ∃ h', set1 h ov t v = .ok h' ∧
          h' = setStore h outputs.sid (outputs.base + ((i * nO + o) * T' + t)).toNat v ∧
          cell h' outputs.sid (outputs.base + ((i * nO + o) * T' + t)).toNat = some v ∧
          (∀ u q : Nat, (u ≠ outputs.sid ∨ q ≠ (outputs.base + ((i * nO + o) * T' + t)).toNat) →
            cell h' u q = cell h u q) ∧
          Nd.get h' outputs [i, o, t] = .ok v ∧ RootOn h' outputs [M, nO, T']) ∧
      (∀ t, (t < 0 ∨ T ≤ t) → ∀ v : α, set1 h ov t v = .error "index-out-of-range") := by
  obtain ⟨e, hc, rv⟩ := outputView_eq r hi0 hi ho0 ho hT0 hT
  have hib : ∀ t, 0 ≤ t → t < T → InBounds [i, o, t] [M, nO, T'] := fun t t0 t1 => by simp; omega
  have hrav : ∀ t, ravel [i, o, t] [M, nO, T'] = (i * nO + o) * T' + t := fun t => by simp [ravel, product]; ring
  refine ⟨_, e, hc, rfl, fun t t0 t1 => ?_, fun t t0 t1 v => ?_, fun t ht v => ?_⟩
  · obtain ⟨x, hx, _, hg1⟩ := rv.flat_get t0 t1
    obtain ⟨y, hy, hgy, _⟩ := r.get (hib t t0 t1)
    rw [hrav, ← Int.add_assoc, hx] at hy
    injection hy with hy
    subst hy
    exact ⟨x, by rw [← Int.add_assoc]; exact hx, hg1, hgy⟩
  · obtain ⟨hset, hcell, hframe, hss⟩ := rv.flat_set1 t0 t1 v
    have r' := r.sameShape hss
    obtain ⟨y, hy, hgy, _⟩ := r'.get (hib t t0 t1)
    rw [hrav, ← Int.add_assoc, hcell] at hy
    injection hy with hy
    subst hy
    rw [Int.add_assoc] at hset hcell hframe hgy r'
    exact ⟨_, hset, rfl, hcell, hframe, hgy, r'⟩
  · obtain ⟨st, hs', _⟩ := rv.flat_store
    exact flat_set1_oob hs' ht v

/-! ### T1 — the input views -/

/-- **cell_views_inputs.** For a root `inputs [nIn, nI, T]`, a cell `i ≥ 0` (ANY cell number: blocks are reused
cyclically) and an input `0 ≤ k < nI`: the two-level chain
`inputs.Slice([i % nIn,0,0],[1,nI,T],nil).MustReshape([nI,T])` then `.Slice([k,0],[1,T],nil).MustReshape([T])` does not
panic; both reshapes are applied to contiguous views (no copy, heap unchanged); the result ALIASES the inputs storage:
it is the flat view of positions `[base + ((i % nIn)·nI + k)·T, … + T)`, and element `t < T` is storage cell
`base + ((i % nIn)·nI + k)·T + t`, the same element as `inputs[i % nIn, k, t]`. -/
theorem cell_views_inputs {h : Heap α} {inputs : Arr} {nIn nI T i k : Int} (r : RootOn h inputs [nIn, nI, T])
    (hi0 : 0 ≤ i) (hk0 : 0 ≤ k) (hk : k < nI) :
    ∃ iv, inputView h inputs i k nIn nI T = .ok (h, iv) ∧
      (sliceView inputs.v [i % nIn, 0, 0] [1, nI, T] none).contiguous = .ok true ∧
      (sliceView (rootView [nI, T] 0) [k, 0] [1, T] none).contiguous = .ok true ∧
      iv.v.contiguous = .ok true ∧
      IsWindow iv inputs.sid (inputs.base + ((i % nIn) * nI + k) * T) T ∧
      (∀ t, 0 ≤ t → t < T → ∃ x, cell h inputs.sid (inputs.base + (((i % nIn) * nI + k) * T + t)).toNat = some x ∧
          get1 h iv t = .ok x ∧ Nd.get h inputs [i % nIn, k, t] = .ok x) := by
  obtain ⟨hnIn, hnI, hT⟩ := pos3 r.pos
  have hc0 : 0 ≤ i % nIn := Int.emod_nonneg _ (by omega)
  have hc1 : i % nIn < nIn := Int.emod_lt_of_pos _ (by omega)
  obtain ⟨_, hcA, rci⟩ := cellInputs_eq r hi0
  obtain ⟨_, hcB, _⟩ := inputOf_eq rci hk0 hk
  obtain ⟨e, rv⟩ := inputView_eq r hi0 hk0 hk
  have hib : ∀ t, 0 ≤ t → t < T → InBounds [i % nIn, k, t] [nIn, nI, T] := fun t t0 t1 => by simp; omega
  have hrav : ∀ t, ravel [i % nIn, k, t] [nIn, nI, T] = ((i % nIn) * nI + k) * T + t :=
    fun t => by simp [ravel, product]; ring
  refine ⟨_, e, hcA, hcB, ?_, rfl, fun t t0 t1 => ?_⟩
  · exact (C02.contiguous_dense rv.reach).1 (by simp [flat, rootView, uniform, NdC02.Dense])
  · obtain ⟨x, hx, _, hg1⟩ := rv.flat_get t0 t1
    obtain ⟨y, hy, hgy, _⟩ := r.get (hib t t0 t1)
    rw [hrav, ← Int.add_assoc, hx] at hy
    injection hy with hy
    subst hy
    exact ⟨x, by rw [← Int.add_assoc]; exact hx, hg1, hgy⟩

/-! ### T4 — parameter decoding -/

/-- **param_decoding (scalar).** For a root `parameters [rows, nSets]`, a parameter stored in row `0 ≤ row < rows` and a
cell `i ≥ 0`: the `ApplyParameters` view (`Slice([row,0],[1,nSets],nil).MustReshape([nSets])`, contiguous, no copy)
followed by `Get1(i % Len1())` does not panic and returns `parameters[row, i % nSets]`, storage cell
`base + row·nSets + i % nSets` (parameter sets are reused cyclically). -/
theorem param_decoding_scalar {h : Heap α} {parameters : Arr} {rows nSets row i : Int}
    (r : RootOn h parameters [rows, nSets]) (h0 : 0 ≤ row) (h1 : row < rows) (hi0 : 0 ≤ i) :
    (sliceView parameters.v [row, 0] [1, nSets] none).contiguous = .ok true ∧
    ∃ x, scalarParam h parameters row i = .ok x ∧
      cell h parameters.sid (parameters.base + (row * nSets + i % nSets)).toNat = some x ∧
      Nd.get h parameters [row, i % nSets] = .ok x := by
  obtain ⟨_, hnS⟩ := pos2 r.pos
  have hc0 : 0 ≤ i % nSets := Int.emod_nonneg _ (by omega)
  have hc1 : i % nSets < nSets := Int.emod_lt_of_pos _ (by omega)
  obtain ⟨e, hc, rv⟩ := paramView_scalar_eq r h0 h1
  obtain ⟨x, hx, _, hg1⟩ := rv.flat_get hc0 hc1
  obtain ⟨y, hy, hgy, _⟩ := r.get (idx := [row, i % nSets]) (by simp; omega)
  have hrav : ravel [row, i % nSets] [rows, nSets] = row * nSets + i % nSets := by simp [ravel, product]
  rw [hrav, ← Int.add_assoc, hx] at hy
  injection hy with hy
  subst hy
  refine ⟨hc, x, ?_, by rw [← Int.add_assoc]; exact hx, hgy⟩
  unfold scalarParam
  simp only [len_rootView r.view (k := 1) (d := nSets) rfl, e, bind, Except.bind]
  have : (flat parameters.sid (parameters.base + row * nSets) nSets).v.len 0 = .ok nSets := by
    simp [View.len, flat, rootView]
  simp only [this, goMod_eq hi0 hnS]
  exact hg1

/-- **param_decoding (table).** For a root `parameters [rows, nSets]`, a table parameter stored in rows
`row … row+maxLen-1` (`0 ≤ row`, `1 ≤ maxLen`, `row + maxLen ≤ rows`), a cell `i ≥ 0` whose own table length is
`ownLen ≤ maxLen`: the `ApplyParameters` view (`Slice([row,0],[maxLen,nSets],nil).MustReshape([maxLen,nSets])`,
contiguous, no copy) followed by `Slice([]int{0, i % nSets}, []int{ownLen}, nil)` — rank-1 extents on a rank-2 array,
not a view of the `Reach` vocabulary — does not panic and yields a view `t` on the parameters storage with
`Len1() = ownLen` whose `Index([r])` is `i % nSets + r·nSets` (for EVERY `r`: `Index` loops over `len(loc) = 1`), and
whose element `r`, `0 ≤ r < ownLen`, is `parameters[row + r, i % nSets]`, storage cell
`base + (row + r)·nSets + i % nSets`: column `i % nSets` of the table, top `ownLen` rows. -/
theorem param_decoding_table {h : Heap α} {parameters : Arr} {rows nSets row maxLen ownLen i : Int}
    (r : RootOn h parameters [rows, nSets]) (h0 : 0 ≤ row) (hm : 1 ≤ maxLen) (h1 : row + maxLen ≤ rows)
    (hi0 : 0 ≤ i) (hown : ownLen ≤ maxLen) :
    (sliceView parameters.v [row, 0] [1 * maxLen, nSets] none).contiguous = .ok true ∧
    ∃ t, tableParam h parameters row maxLen ownLen i = .ok (h, t) ∧ t.sid = parameters.sid ∧ t.isC = false ∧
      t.v.len 0 = .ok ownLen ∧
      (∀ q : Int, t.v.index [q] = .ok (i % nSets + q * nSets)) ∧
      (∀ q, 0 ≤ q → q < ownLen → ∃ x, get1 h t q = .ok x ∧ Nd.get h t [q] = .ok x ∧
        cell h parameters.sid (parameters.base + ((row + q) * nSets + i % nSets)).toNat = some x ∧
        Nd.get h parameters [row + q, i % nSets] = .ok x) := by
  obtain ⟨_, hnS⟩ := pos2 r.pos
  have hc0 : 0 ≤ i % nSets := Int.emod_nonneg _ (by omega)
  have hc1 : i % nSets < nSets := Int.emod_lt_of_pos _ (by omega)
  obtain ⟨_, hc, rt⟩ := paramView_table_eq r h0 hm h1
  refine ⟨hc, _, tableParam_eq r h0 hm h1 hi0, rfl, rfl, by simp [View.len, tableArr], fun q => tableArr_index _ _ _ _ _ _ _,
    fun q q0 q1 => ?_⟩
  obtain ⟨x, hx, hg, hg1⟩ := tableArr_get (ownLen := ownLen) rt hc0 hc1 q0 (by omega) q1
  obtain ⟨y, hy, hgy, _⟩ := r.get (idx := [row + q, i % nSets]) (by simp; omega)
  have hrav : ravel [row + q, i % nSets] [rows, nSets] = (row + q) * nSets + i % nSets := by simp [ravel, product]
  have hpos : parameters.base + row * nSets + (i % nSets + q * nSets) =
      parameters.base + ((row + q) * nSets + i % nSets) := by ring
  rw [hpos] at hx
  rw [hrav, hx] at hy
  injection hy with hy
  subst hy
  exact ⟨x, hg1, hg, hx, hgy⟩

/-! ### T5 — footprints of different cells are disjoint -/

/-- the storage positions cell `i` may WRITE: row `i` of `states [·, nS]` and the rows `(i, ·, ·)` of
`outputs [·, nO, T']` (whole rows — a superset of the `t < T` actually written, `cell_views_outputs`) -/
def WriteFoot (states outputs : Arr) (nS nO T' i : Int) (u q : Nat) : Prop :=
  (u = states.sid ∧ ∃ s, 0 ≤ s ∧ s < nS ∧ q = (states.base + (i * nS + s)).toNat) ∨
  (u = outputs.sid ∧ ∃ o t, 0 ≤ o ∧ o < nO ∧ 0 ≤ t ∧ t < T' ∧ q = (outputs.base + ((i * nO + o) * T' + t)).toNat)

/-- the storages every cell only READS: parameters and inputs (all of them: input blocks and parameter sets are shared
between cells when `nIn < N` or `nSets < N`) -/
def ReadOnlyFoot (parameters inputs : Arr) (u : Nat) : Prop := u = parameters.sid ∨ u = inputs.sid

theorem row_lt {n a b s s' : Int} (hn : 1 ≤ n) (hab : a < b) (hs : s < n) (hs' : 0 ≤ s') : a * n + s < b * n + s' := by
  have h1 : (a + 1) * n ≤ b * n := Int.mul_le_mul_of_nonneg_right (by omega) (by omega)
  have e : (a + 1) * n = a * n + n := by ring
  omega

theorem row_ne {n a b s s' : Int} (hn : 1 ≤ n) (hab : a ≠ b) (hs0 : 0 ≤ s) (hs : s < n) (hs0' : 0 ≤ s') (hs' : s' < n) :
    a * n + s ≠ b * n + s' := by
  rcases Int.lt_or_gt_of_ne hab with h | h
  · have := row_lt hn h hs hs0'; omega
  · have := row_lt hn h hs' hs0; omega

theorem row_nonneg {n a s : Int} (hn : 1 ≤ n) (ha : 0 ≤ a) (hs : 0 ≤ s) : 0 ≤ a * n + s := by
  have := Int.mul_nonneg ha (by omega : (0 : Int) ≤ n); omega

/-- every position the views of cell `i` touch in `states`/`outputs` (theorems `cell_views_states`,
`cell_views_outputs`) lies in `WriteFoot … i` -/
theorem stateView_pos_in_foot (states outputs : Arr) {nS nO T' i s : Int} (s0 : 0 ≤ s) (s1 : s < nS) :
    WriteFoot states outputs nS nO T' i states.sid (states.base + (i * nS + s)).toNat :=
  Or.inl ⟨rfl, s, s0, s1, rfl⟩

theorem outputView_pos_in_foot (states outputs : Arr) {nS nO T' T i o t : Int} (o0 : 0 ≤ o) (o1 : o < nO)
    (t0 : 0 ≤ t) (t1 : t < T) (hT : T ≤ T') :
    WriteFoot states outputs nS nO T' i outputs.sid (outputs.base + ((i * nO + o) * T' + t)).toNat :=
  Or.inr ⟨rfl, o, t, o0, o1, t0, by omega, rfl⟩

/-- **views_disjoint.** For cells `i ≠ j` (`i, j ≥ 0`), arrays `states [·, nS]`, `outputs [·, nO, T']` with
non-negative `Impl` offsets, held in storages different from each other and from those of `parameters` and `inputs`:
the write footprint of cell `i` (state row `i`, output rows `(i,·,·)`) contains no position of the write footprint of
cell `j` — which is also everything cell `j` reads in `states`/`outputs` — and no position of the read-only storages.
So the only storage shared between two cells is read-only: the footprint fact assumed by the schedule-independence
instance of C05 (`OW.Sim.CellTasks`: addresses `st i`, `out i` are distinct memory for distinct `i`). -/
theorem views_disjoint {states outputs parameters inputs : Arr} {nS nO T' i j : Int}
    (hsb : 0 ≤ states.base) (hob : 0 ≤ outputs.base) (hnS : 1 ≤ nS) (hnO : 1 ≤ nO) (hT' : 1 ≤ T')
    (hso : states.sid ≠ outputs.sid) (hsp : states.sid ≠ parameters.sid) (hsi : states.sid ≠ inputs.sid)
    (hop : outputs.sid ≠ parameters.sid) (hoi : outputs.sid ≠ inputs.sid)
    (hi0 : 0 ≤ i) (hj0 : 0 ≤ j) (hij : i ≠ j) (u q : Nat) (hw : WriteFoot states outputs nS nO T' i u q) :
    ¬ WriteFoot states outputs nS nO T' j u q ∧ ¬ ReadOnlyFoot parameters inputs u := by
  constructor
  · intro hw'
    rcases hw with ⟨rfl, s, s0, s1, rfl⟩ | ⟨rfl, o, t, o0, o1, t0, t1, rfl⟩
    · rcases hw' with ⟨_, s', s0', s1', e⟩ | ⟨e, _⟩
      · have := row_ne hnS hij s0 s1 s0' s1'
        have := row_nonneg hnS hi0 s0
        have := row_nonneg hnS hj0 s0'
        omega
      · exact hso e
    · rcases hw' with ⟨e, _⟩ | ⟨_, o', t', o0', o1', t0', t1', e⟩
      · exact hso e.symm
      · have h1 := row_ne hnO hij o0 o1 o0' o1'
        have h2 := row_ne hT' h1 t0 t1 t0' t1'
        have h3 := row_nonneg hT' (row_nonneg hnO hi0 o0) t0
        have h4 := row_nonneg hT' (row_nonneg hnO hj0 o0') t0'
        omega
  · intro hr
    rcases hw with ⟨rfl, _⟩ | ⟨rfl, _⟩ <;> rcases hr with e | e
    · exact hsp e
    · exact hsi e
    · exact hop e
    · exact hoi e

/-- reading element `t` of a flat view is unaffected by a storage write anywhere else -/
theorem flat_get1_frame {h : Heap α} {sid : Nat} {base n : Int} (rv : RootOn h (flat sid base n) [n]) {t : Int}
    (t0 : 0 ≤ t) (t1 : t < n) (u q : Nat) (v : α) (hne : u ≠ sid ∨ q ≠ (base + t).toNat) :
    get1 (setStore h u q v) (flat sid base n) t = get1 h (flat sid base n) t := by
  obtain ⟨x, hx, _, hg⟩ := rv.flat_get t0 t1
  obtain ⟨x', hx', _, hg'⟩ := (rv.sameShape (sameShape_setStore h u q v)).flat_get t0 t1
  rw [cell_setStore, if_neg (by rintro ⟨e1, e2⟩; rcases hne with e | e; exact e e1.symm; exact e e2.symm), hx] at hx'
  injection hx' with hx'
  rw [hg, hg', hx']

/-- **write_invisible_to_other_cells.** On root arrays in pairwise different storages, a write of cell `i` — any
storage update inside `WriteFoot … i`, which is where `Set1` through its state view and output views lands — leaves
every value cell `j ≠ i` reads unchanged: through its state view, its output views, its input views and its scalar
parameter decoding. (With `views_disjoint`: cells communicate through nothing.) -/
theorem write_invisible_to_other_cells {h : Heap α} {parameters inputs states outputs : Arr}
    {rows nSets nIn nI T N nS M nO T' i j : Int}
    (rp : RootOn h parameters [rows, nSets]) (ri : RootOn h inputs [nIn, nI, T]) (rs : RootOn h states [N, nS])
    (ro : RootOn h outputs [M, nO, T'])
    (hso : states.sid ≠ outputs.sid) (hsp : states.sid ≠ parameters.sid) (hsi : states.sid ≠ inputs.sid)
    (hop : outputs.sid ≠ parameters.sid) (hoi : outputs.sid ≠ inputs.sid)
    (hi0 : 0 ≤ i) (hj0 : 0 ≤ j) (hjN : j < N) (hjM : j < M) (hij : i ≠ j) (hT0 : 1 ≤ T) (hT : T ≤ T')
    (u q : Nat) (v : α) (hw : WriteFoot states outputs nS nO T' i u q) :
    (∀ s, 0 ≤ s → s < nS → ∃ sv, stateView (setStore h u q v) states j nS = .ok (setStore h u q v, sv) ∧
        stateView h states j nS = .ok (h, sv) ∧ get1 (setStore h u q v) sv s = get1 h sv s) ∧
    (∀ o t, 0 ≤ o → o < nO → 0 ≤ t → t < T → ∃ ov, outputView (setStore h u q v) outputs j o T = .ok (setStore h u q v, ov) ∧
        outputView h outputs j o T = .ok (h, ov) ∧ get1 (setStore h u q v) ov t = get1 h ov t) ∧
    (∀ k t, 0 ≤ k → k < nI → 0 ≤ t → t < T → ∃ iv, inputView (setStore h u q v) inputs j k nIn nI T = .ok (setStore h u q v, iv) ∧
        inputView h inputs j k nIn nI T = .ok (h, iv) ∧ get1 (setStore h u q v) iv t = get1 h iv t) ∧
    (∀ row, 0 ≤ row → row < rows → scalarParam (setStore h u q v) parameters row j = scalarParam h parameters row j) := by
  have ss := sameShape_setStore h u q v
  obtain ⟨_, hnS⟩ := pos2 rs.pos
  obtain ⟨_, hnO, hT'⟩ := pos3 ro.pos
  obtain ⟨hnd, hro⟩ := views_disjoint rs.ok.base_nonneg ro.ok.base_nonneg hnS hnO hT' hso hsp hsi hop hoi hi0 hj0 hij u q hw
  refine ⟨fun s s0 s1 => ?_, fun o t o0 o1 t0 t1 => ?_, fun k t k0 k1 t0 t1 => ?_, fun row r0 r1 => ?_⟩
  · obtain ⟨e, _, rv⟩ := stateView_eq rs hj0 hjN
    obtain ⟨e', _, _⟩ := stateView_eq (rs.sameShape ss) hj0 hjN
    refine ⟨_, e', e, flat_get1_frame rv s0 s1 u q v ?_⟩
    by_cases hu : u = states.sid
    · right; intro hq
      exact hnd (Or.inl ⟨hu, s, s0, s1, by rw [hq, Int.add_assoc]⟩)
    · exact Or.inl hu
  · obtain ⟨e, _, rv⟩ := outputView_eq ro hj0 hjM o0 o1 hT0 hT
    obtain ⟨e', _, _⟩ := outputView_eq (ro.sameShape ss) hj0 hjM o0 o1 hT0 hT
    refine ⟨_, e', e, flat_get1_frame rv t0 t1 u q v ?_⟩
    by_cases hu : u = outputs.sid
    · right; intro hq
      exact hnd (Or.inr ⟨hu, o, t, o0, o1, t0, by omega, by rw [hq, Int.add_assoc]⟩)
    · exact Or.inl hu
  · obtain ⟨e, rv⟩ := inputView_eq ri hj0 k0 k1
    obtain ⟨e', _⟩ := inputView_eq (ri.sameShape ss) hj0 k0 k1
    exact ⟨_, e', e, flat_get1_frame rv t0 t1 u q v (Or.inl (fun hu => hro (Or.inr hu)))⟩
  · obtain ⟨_, x, hx, hc, _⟩ := param_decoding_scalar rp r0 r1 hj0
    obtain ⟨_, x', hx', hc', _⟩ := param_decoding_scalar (rp.sameShape ss) r0 r1 hj0
    rw [cell_setStore, if_neg (by rintro ⟨e1, _⟩; exact hro (Or.inl e1.symm)), hc] at hc'
    injection hc' with hc'
    rw [hx, hx', hc']

end
end OW.Props.C04Nd
