import OW.Props.GenTie
import OW.Props.GenTieReal
import OW.Props.GenTieWhole
import OW.Props.GenTieStateful
import OW.Props.GenTieGR4J
import OW.Props.GenTieDates
import OW.Props.GenTieStorage
import OW.Props.GenTieSacramento
/-! all tie theorems `gen_eq_*` (regenerated kernel definitions = hand-written models); the module `vlib/gentie.py` audits -/
