import OW.Props.C08Seq
import OW.Proofs.C08Frame
/-!
C08, part 4 — what an earlier call stored is what a later `Load` returns, ACROSS any sequence of intervening calls on
other datasets (the composition that `ops_trace` left unstated).

`ops_trace` gives per-position statements; the frame clauses of T4/T5' cover only successful calls. Here the frame is
proved for EVERY outcome of every call (nil, returned error, panic; `OW/Proofs/C08Frame.lean`: `Write` that created
groups and then failed, `WriteSlice` whose selection was refused, `Create` with a shape mismatch …) and composed over
lists of calls:

* T9  `stored_object_persists` — an object (dataset with its shape and elements, or group) that exists at path `r`
      is found unchanged after any sequence of calls none of which names `r`;
* T9a `load_across` — hence `Load` at that path, with or without a selection, returns after the sequence exactly what it
      returned before it;
* T9b `write_then_load_across` — T3 across a history: `Write(data)` returned nil, then any calls on other paths, then
      `Load()` returns the shape and the row-major elements of the source view as they were at the time of the Write;
* T9d `history_last_write_wins`, T9e `history_last_writeSlice` — over WHOLE histories with any number of earlier writers
      to the same path: the last `Write` (resp. `WriteSlice`) of a path determines what is found there at the end;
* T9f `writeSlices_last_block_wins` — any number of `WriteSlice` calls to ONE dataset, blocks overlapping in any way: every
      element is that of the last request whose block covers its coordinate, else the original;
* T9g `write_then_writeSlices` — a `Write` that returned nil followed by any number of `WriteSlice` calls to the same path;
* T9c `writeSlice_then_load_across` — T4 across a history: the dataset after `WriteSlice` + any calls on other paths
      differs from the dataset before exactly on the block.

"Names" is `splitPath op.path` (the components of the `Dataset` string: "a", "/a", "a/", "./a" name the same object).
Calls that name the SAME path are not excluded by the model for any deep reason: they change the object (that is what
T3/T4 say), so the statement is about the last such call; histories with several writers to one path are handled by
applying T9b/T9c at the last of them.
-/
namespace OW.Props.C08
open OW.Nd OW.Sim.H5 OW.Proofs.C08H5

/-- T9. An object that exists at `r` (dataset with shape and elements, or group) is unchanged by ANY sequence of
`Write / WriteSlice / Create / Load` calls with arbitrary arguments and outcomes, either element width, provided no call
names the path `r`. The file still exists afterwards. -/
theorem stored_object_persists (narrow : Bool) (t : Tree) (r : Path) (o : Obj) (ops : List Op)
    (h : find t r = some o) (hother : ∀ op ∈ ops, r ≠ splitPath op.path) :
    ∃ t', applyOps narrow (some t) ops = some t' ∧ find t' r = some o := by
  obtain ⟨t', h1, h2⟩ := applyOps_frame narrow ops t (r := r) (by rw [h]; simp) hother
  exact ⟨t', h1, by rw [h2, h]⟩

/-- T9a. `Load` of a dataset that exists, with or without a selection, returns after any sequence of calls on other paths
exactly what it returned before the sequence. -/
theorem load_across (narrow : Bool) (t : Tree) (path : String) (sel : Option Sel) (ops : List Op)
    (hex : find t (splitPath path) ≠ none) (hother : ∀ op ∈ ops, splitPath path ≠ splitPath op.path) :
    load narrow (applyOps narrow (some t) ops) path sel = load narrow (some t) path sel := by
  obtain ⟨t', h1, h2⟩ := applyOps_frame narrow ops t hex hother
  rw [h1]
  exact load_congr narrow path sel h2

/-- T9b (T3 across a history). For every reachable source view on a well-windowed storage and every well-formed file
state (or no file): if `Write(data)` returns nil, then after ANY sequence of further calls that name other paths
(arbitrary arguments, arbitrary outcomes) `Load()` of the same reference returns the shape of the view and exactly the
elements it had, in row-major order. -/
theorem write_then_load_across (h : Heap Int) (a : Arr) (hr : Reach a.v) (ok : ArrOK h a)
    (d d' : Disk) (path : String) (wf : DiskWF d) (hw : write false h a d path = (d', .ok ()))
    (ops : List Op) (hother : ∀ op ∈ ops, splitPath path ≠ splitPath op.path) :
    ∃ vals, OW.NdC02.getAll h a (OW.NdC02.rowMajor a.v.dims) = .ok vals ∧
      load false (applyOps false d' ops) path none = .ok (a.v.dims, vals) := by
  obtain ⟨vals, h1, h2, -⟩ := write_load_roundtrip h a hr ok d d' path wf hw
  refine ⟨vals, h1, ?_⟩
  cases d' with
  | none => simp [load] at h2
  | some t1 =>
    have hex : find t1 (splitPath path) ≠ none := by
      intro hn
      have hod : openDataset t1 path = .error "notfound" := by
        simp only [openDataset, hn]; split <;> rfl
      simp [load, hod] at h2
    rw [load_across false t1 path none ops hex hother]
    exact h2

/-- T9c (T4 across a history). On a well-formed file with a dataset at `path`, after `WriteSlice(data, loc)` with the
block inside the dataset and then ANY sequence of calls that name other paths, the dataset found at `path` has the same
shape, and its elements are those of the source inside the block and the old ones outside. -/
theorem writeSlice_then_load_across (h : Heap Int) (a : Arr) (hr : Reach a.v) (ok : ArrOK h a)
    {t : Tree} {path : String} {p : Path} {s : List Nat} {v : List Int}
    (hod : openDataset t path = .ok (p, s, v)) (wf : WF t)
    (loc : Idx) (hb : BlockIn (intsToUints loc) (intsToUints a.v.dims) s)
    (ops : List Op) (hother : ∀ op ∈ ops, splitPath path ≠ splitPath op.path) :
    ∃ vals v' t', OW.NdC02.getAll h a (OW.NdC02.rowMajor a.v.dims) = .ok vals ∧
      applyOps false (writeSlice false h a (some t) path loc).1 ops = some t' ∧
      find t' p = some (.ds s v') ∧ v'.length = v.length ∧
      (∀ c, CoordIn c s → v'[ravelN c s]? =
        if inBlock c (intsToUints loc) (intsToUints a.v.dims) = true
        then vals[ravelN (List.zipWith (· - ·) c (intsToUints loc)) (intsToUints a.v.dims)]?
        else v[ravelN c s]?) := by
  obtain ⟨vals, v', h1, h2, h3, h4, h5, -, -⟩ := writeSlice_footprint h a hr ok hod wf loc hb
  have hp : p = splitPath path := (openDataset_eq.mp hod).1
  obtain ⟨t', h6, h7⟩ := stored_object_persists false (setVals t p v') p _ ops h3 (by rw [hp]; exact hother)
  refine ⟨vals, v', t', h1, ?_, h7, h4, h5⟩
  rw [h2]
  exact h6

/-- T9d (the LAST writer of a path wins, over whole histories). Started on no file or on any well-formed file, for EVERY
history `pre ++ Write(data → path) :: post` in which that `Write` returned nil and no LATER call names `path` — the calls
in `pre` are arbitrary and may include any number of earlier `Write / WriteSlice / Create` calls on the same path —
`Load()` at the end returns the shape and the row-major elements of that last written view. -/
theorem history_last_write_wins (d0 : Disk) (wf0 : DiskWF d0) (pre post : List Op)
    (h : Heap Int) (a : Arr) (path : String) (hr : Reach a.v) (ok : ArrOK h a)
    (hw : (write false h a (applyOps false d0 pre) path).2 = .ok ())
    (hother : ∀ op ∈ post, splitPath path ≠ splitPath op.path) :
    ∃ vals, OW.NdC02.getAll h a (OW.NdC02.rowMajor a.v.dims) = .ok vals ∧
      load false (applyOps false d0 (pre ++ .write h a path :: post)) path none = .ok (a.v.dims, vals) := by
  have hw' : write false h a (applyOps false d0 pre) path = ((write false h a (applyOps false d0 pre) path).1, .ok ()) := by
    rw [← hw]
  obtain ⟨vals, h1, h2⟩ := write_then_load_across h a hr ok _ _ path (ops_preserve_WF false d0 wf0 pre) hw' post hother
  refine ⟨vals, h1, ?_⟩
  rw [applyOps_append]
  exact h2

/-- T9e (the last `WriteSlice` of a path, over whole histories). For every history `pre ++ WriteSlice(data, loc → path)
:: post` started on no file or a well-formed file, where the dataset exists at that point with the block inside it and no
later call names `path`: at the end the dataset has the shape it had just before that call, the elements of the source
inside the block and the elements it had just before that call outside. -/
theorem history_last_writeSlice (d0 : Disk) (wf0 : DiskWF d0) (pre post : List Op)
    (h : Heap Int) (a : Arr) (path : String) (loc : Idx) (hr : Reach a.v) (ok : ArrOK h a)
    {t : Tree} {p : Path} {s : List Nat} {v : List Int}
    (hd : applyOps false d0 pre = some t) (hod : openDataset t path = .ok (p, s, v))
    (hb : BlockIn (intsToUints loc) (intsToUints a.v.dims) s)
    (hother : ∀ op ∈ post, splitPath path ≠ splitPath op.path) :
    ∃ vals v' t', OW.NdC02.getAll h a (OW.NdC02.rowMajor a.v.dims) = .ok vals ∧
      applyOps false d0 (pre ++ .writeSlice h a path loc :: post) = some t' ∧
      find t' p = some (.ds s v') ∧ v'.length = v.length ∧
      (∀ c, CoordIn c s → v'[ravelN c s]? =
        if inBlock c (intsToUints loc) (intsToUints a.v.dims) = true
        then vals[ravelN (List.zipWith (· - ·) c (intsToUints loc)) (intsToUints a.v.dims)]?
        else v[ravelN c s]?) := by
  have wf : WF t := ops_preserve_WF false d0 wf0 pre t hd
  obtain ⟨vals, v', t', h1, h2, h3, h4, h5⟩ := writeSlice_then_load_across h a hr ok hod wf loc hb post hother
  refine ⟨vals, v', t', h1, ?_, h3, h4, h5⟩
  rw [applyOps_append, hd]
  exact h2

/-! ### several `WriteSlice` calls to ONE dataset: the last block that covers a coordinate wins -/

/-- one `WriteSlice(data, loc)` request: the source array (in its heap) and the location -/
structure SliceReq where
  h : Heap Int
  a : Arr
  loc : Idx

/-- the hypotheses T4 puts on the ARGUMENTS of one request against a dataset of shape `s` -/
def SliceReq.OK (s : List Nat) (q : SliceReq) : Prop :=
  Reach q.a.v ∧ ArrOK q.h q.a ∧ BlockIn (intsToUints q.loc) (intsToUints q.a.v.dims) s

/-- the row-major elements of the request's source view (`[]` if a `Get` panics; not the case under `OK`) -/
def SliceReq.vals (q : SliceReq) : List Int :=
  match OW.NdC02.getAll q.h q.a (OW.NdC02.rowMajor q.a.v.dims) with
  | .ok vals => vals
  | .error _ => []

/-- what one request makes of the expected element at coordinate `c`: inside its block the source element, outside what
was there -/
def expectAfter (cur : List Nat → Option Int) (q : SliceReq) : List Nat → Option Int := fun c =>
  if inBlock c (intsToUints q.loc) (intsToUints q.a.v.dims) = true
  then q.vals[ravelN (List.zipWith (· - ·) c (intsToUints q.loc)) (intsToUints q.a.v.dims)]?
  else cur c

theorem foldl_expectAfter_pointwise (reqs : List SliceReq) (f g : List Nat → Option Int) (c : List Nat)
    (hfg : f c = g c) : (reqs.foldl expectAfter f) c = (reqs.foldl expectAfter g) c := by
  induction reqs generalizing f g with
  | nil => exact hfg
  | cons q rest ih =>
    simp only [List.foldl_cons]
    apply ih
    simp only [expectAfter, hfg]

/-- T9f (any number of `WriteSlice` calls to one dataset). On a well-formed file with a dataset of shape `s` and elements
`v` at `path`, after ANY list of `WriteSlice` requests to that path — each with a reachable source on a well-windowed
storage and its block inside the dataset, blocks overlapping in any way — the dataset still has shape `s`, as many
elements, and the element at every coordinate is the source element of the LAST request whose block covers the
coordinate, else the original element (`foldl expectAfter`). -/
theorem writeSlices_last_block_wins (path : String) : ∀ (reqs : List SliceReq) (t : Tree) (p : Path) (s : List Nat)
    (v : List Int), WF t → openDataset t path = .ok (p, s, v) → (∀ q ∈ reqs, q.OK s) →
    ∃ t' v', applyOps false (some t) (reqs.map fun q => Op.writeSlice q.h q.a path q.loc) = some t' ∧ WF t' ∧
      find t' p = some (.ds s v') ∧ v'.length = v.length ∧
      ∀ c, CoordIn c s → v'[ravelN c s]? = (reqs.foldl expectAfter (fun c => v[ravelN c s]?)) c := by
  intro reqs
  induction reqs with
  | nil =>
    intro t p s v wf hod _
    exact ⟨t, v, rfl, wf, (openDataset_eq.mp hod).2.2, rfl, fun _ _ => rfl⟩
  | cons q rest ih =>
    intro t p s v wf hod hall
    obtain ⟨hr, hok, hb⟩ := hall q (by simp)
    obtain ⟨vals, v1, h1, h2, h3, h4, h5, -, wf1⟩ := writeSlice_footprint q.h q.a hr hok hod wf q.loc hb
    obtain ⟨hp, hpne, -⟩ := openDataset_eq.mp hod
    have hod1 : openDataset (setVals t p v1) path = .ok (p, s, v1) := openDataset_eq.mpr ⟨hp, hpne, h3⟩
    obtain ⟨t', v', g1, g2, g3, g4, g5⟩ :=
      ih (setVals t p v1) p s v1 wf1 hod1 (fun q' hq' => hall q' (List.mem_cons_of_mem _ hq'))
    refine ⟨t', v', ?_, g2, g3, by rw [g4, h4], ?_⟩
    · simp only [List.map_cons, applyOps, List.foldl_cons, stepOp] at g1 ⊢
      rw [h2]
      exact g1
    · intro c hc
      rw [g5 c hc]
      simp only [List.foldl_cons]
      apply foldl_expectAfter_pointwise
      rw [h5 c hc]
      have hv : q.vals = vals := by simp only [SliceReq.vals, h1]
      simp only [expectAfter, hv]

/-- T9g (a `Write` followed by any number of `WriteSlice` calls to the same path). If `Write(data)` returns nil on a
well-formed file (or no file), then after ANY list of `WriteSlice` requests to that path — each reachable, well-windowed,
its block inside the written shape — the dataset found there has the written shape and, at every coordinate, the source
element of the last request whose block covers it, else the element the `Write` stored. -/
theorem write_then_writeSlices (h : Heap Int) (a : Arr) (hr : Reach a.v) (ok : ArrOK h a)
    (d d' : Disk) (path : String) (wf : DiskWF d) (hw : write false h a d path = (d', .ok ()))
    (reqs : List SliceReq) :
    ∃ vals t1 p s, OW.NdC02.getAll h a (OW.NdC02.rowMajor a.v.dims) = .ok vals ∧ d' = some t1 ∧
      openDataset t1 path = .ok (p, s, vals) ∧ uintsToInts s = a.v.dims ∧
      ((∀ q ∈ reqs, q.OK s) →
        ∃ t' v', applyOps false d' (reqs.map fun q => Op.writeSlice q.h q.a path q.loc) = some t' ∧ WF t' ∧
          find t' p = some (.ds s v') ∧ v'.length = vals.length ∧
          ∀ c, CoordIn c s → v'[ravelN c s]? = (reqs.foldl expectAfter (fun c => vals[ravelN c s]?)) c) := by
  obtain ⟨vals, h1, h2, hwf⟩ := write_load_roundtrip h a hr ok d d' path wf hw
  cases d' with
  | none => simp [load] at h2
  | some t1 =>
    have wf1 : WF t1 := hwf t1 rfl
    cases hod : openDataset t1 path with
    | error e => simp [load, hod] at h2
    | ok r =>
      obtain ⟨p, s, v⟩ := r
      have hv : v.length = prodN s := by
        obtain ⟨_, hpne, hfind⟩ := openDataset_eq.mp hod
        exact wf_of_lookup wf1 (by simpa [find, hpne] using hfind)
      rw [load_full hod hv] at h2
      simp only [Res.ok.injEq, Prod.mk.injEq] at h2
      obtain ⟨hs, rfl⟩ := h2
      refine ⟨v, t1, p, s, h1, rfl, hod, hs, ?_⟩
      intro hall
      exact writeSlices_last_block_wins path reqs t1 p s v wf1 hod hall

/-! ### non-vacuity -/
namespace Ex
open OW.Props.C02.Ex

set_option linter.deprecated false in
theorem split_b : "b".splitOn "/" = ["b"] := by
  have h1 : String.Pos.Raw.atEnd "b" 0 = false := by decide
  have h2 : ¬ (String.Pos.Raw.get "b" 0 = String.Pos.Raw.get "/" 0) := by decide
  have h3 : String.Pos.Raw.atEnd "b" (String.Pos.Raw.next "b" 0) = true := by decide
  have h4 : String.Pos.Raw.extract "b" 0 (String.Pos.Raw.next "b" 0) = "b" := by decide
  simp only [String.splitOn]
  rw [String.splitOnAux]
  simp [h1, h2]
  rw [String.splitOnAux]
  simp [h3, h4]

theorem splitPath_b : splitPath "b" = ["b"] := by
  simp only [splitPath, split_b]; decide

/-- T9b instance: the stepped view is written to "a" of a new file (returns nil); then a `Create` of "b", a `Write` of the
same view to "b", a `WriteSlice` to "b" and a `Load` of "b" — all naming another path — and `Load` of "a" still returns
shape 2×2, elements 0, 2, 8, 10. -/
example : load false (applyOps false (some [(["a"], .ds [2, 2] [0, 2, 8, 10])])
      [.create "b" [2, 2], .write heap stepped "b", .writeSlice heap stepped "b" [0, 0], .load "b" none]) "a" none
    = .ok ([2, 2], [0, 2, 8, 10]) := by
  obtain ⟨vals, h1, h2⟩ :=
    write_then_load_across heap stepped reach_stepped ok_stepped none _ "a" (fun _ h => by cases h) write_stepped
      [.create "b" [2, 2], .write heap stepped "b", .writeSlice heap stepped "b" [0, 0], .load "b" none]
      (by
        intro op hop
        simp only [List.mem_cons, List.not_mem_nil, or_false] at hop
        rcases hop with rfl | rfl | rfl | rfl <;> simp [Op.path, splitPath_a, splitPath_b])
  have : vals = [0, 2, 8, 10] := by
    have h3 : OW.NdC02.getAll heap stepped (OW.NdC02.rowMajor stepped.v.dims) = .ok [0, 2, 8, 10] := by decide
    rw [h3] at h1; cases h1; rfl
  subst this
  exact h2

/-- T9d instance: hypotheses of `history_last_write_wins` hold together (a history whose earlier calls leave no file,
the `Write` of the stepped view returns nil, later calls name "b") -/
example : ∃ vals, OW.NdC02.getAll heap stepped (OW.NdC02.rowMajor stepped.v.dims) = .ok vals ∧
    load false (applyOps false none ([.load "a" none, .load "b" none] ++ .write heap stepped "a" ::
      [.create "b" [2, 2], .writeSlice heap stepped "b" [0, 0]])) "a" none = .ok (stepped.v.dims, vals) :=
  history_last_write_wins none (fun _ h => by cases h) [.load "a" none, .load "b" none]
    [.create "b" [2, 2], .writeSlice heap stepped "b" [0, 0]] heap stepped "a" reach_stepped ok_stepped
    (by
      show (write false heap stepped none "a").2 = .ok ()
      rw [write_stepped])
    (by
      intro op hop
      simp only [List.mem_cons, List.not_mem_nil, or_false] at hop
      rcases hop with rfl | rfl <;> simp [Op.path, splitPath_a, splitPath_b])

theorem blockIn_ex0 : BlockIn (intsToUints [0, 1]) (intsToUints stepped.v.dims) [3, 4] := by
  have e1 : intsToUints [0, 1] = [0, 1] := by decide
  have e2 : intsToUints stepped.v.dims = [2, 2] := by decide
  rw [e1, e2]
  exact ⟨by omega, by omega, trivial⟩

/-- T9f instance: two OVERLAPPING 2×2 blocks, at (1,1) and then at (0,1), of the 3×4 dataset of zeros: all hypotheses hold
together; at coordinate (1,1) — covered by both — the expected element is the one of the SECOND request (element (1,0) of
the view = 8), at (2,2) — covered by the first only — element (1,1) of the view = 10, at (0,0) the original 0. -/
example : ∃ t' v', applyOps false (some file34)
      [.writeSlice heap stepped "a" [1, 1], .writeSlice heap stepped "a" [0, 1]] = some t' ∧ WF t' ∧
    find t' ["a"] = some (.ds [3, 4] v') ∧ v'.length = 12 ∧
    v'[ravelN [1, 1] [3, 4]]? = some 8 ∧ v'[ravelN [2, 2] [3, 4]]? = some 10 ∧ v'[ravelN [0, 0] [3, 4]]? = some 0 := by
  obtain ⟨t', v', h1, h2, h3, h4, h5⟩ := writeSlices_last_block_wins "a"
    [⟨heap, stepped, [1, 1]⟩, ⟨heap, stepped, [0, 1]⟩] file34 ["a"] [3, 4] (List.replicate 12 0) wf_file34 open_file34
    (by
      intro q hq
      simp only [List.mem_cons, List.not_mem_nil, or_false] at hq
      rcases hq with rfl | rfl
      · exact ⟨reach_stepped, ok_stepped, blockIn_ex⟩
      · exact ⟨reach_stepped, ok_stepped, blockIn_ex0⟩)
  have hv : (⟨heap, stepped, [1, 1]⟩ : SliceReq).vals = [0, 2, 8, 10] ∧
      (⟨heap, stepped, [0, 1]⟩ : SliceReq).vals = [0, 2, 8, 10] := by
    have h3 : OW.NdC02.getAll heap stepped (OW.NdC02.rowMajor stepped.v.dims) = .ok [0, 2, 8, 10] := by decide
    simp only [SliceReq.vals, h3, and_self]
  have e1 : intsToUints [1, 1] = [1, 1] := by decide
  have e0 : intsToUints [0, 1] = [0, 1] := by decide
  have e2 : intsToUints stepped.v.dims = [2, 2] := by decide
  refine ⟨t', v', h1, h2, h3, by rw [h4]; rfl, ?_, ?_, ?_⟩
  · rw [h5 [1, 1] (by simp [CoordIn])]
    simp only [List.foldl_cons, List.foldl_nil, expectAfter, hv.1, hv.2, e1, e0, e2]
    decide
  · rw [h5 [2, 2] (by simp [CoordIn])]
    simp only [List.foldl_cons, List.foldl_nil, expectAfter, hv.1, hv.2, e1, e0, e2]
    decide
  · rw [h5 [0, 0] (by simp [CoordIn])]
    simp only [List.foldl_cons, List.foldl_nil, expectAfter, hv.1, hv.2, e1, e0, e2]
    decide

/-- T9g instance: the `Write` of the stepped view to "a" of a new file returns nil (`write_stepped`); the shape found is
2×2, and the request "the same view at (0,0)" meets `SliceReq.OK` for it, so the conclusion applies to a non-empty list -/
example : ∃ (t' : Tree) (v' : List Int), applyOps false (some [(["a"], .ds [2, 2] [0, 2, 8, 10])])
      [.writeSlice heap stepped "a" [0, 0]] = some t' ∧ WF t' ∧ find t' ["a"] = some (.ds [2, 2] v') ∧ v'.length = 4 := by
  obtain ⟨vals, t1, p, s, h1, h2, h3, h4, h5⟩ :=
    write_then_writeSlices heap stepped reach_stepped ok_stepped none _ "a" (fun _ h => by cases h) write_stepped
      [⟨heap, stepped, [0, 0]⟩]
  cases h2
  have hod : openDataset [(["a"], Obj.ds [2, 2] [0, 2, 8, 10])] "a" = .ok (["a"], [2, 2], [0, 2, 8, 10]) := by
    simp only [openDataset, splitPath_a]; decide
  rw [hod] at h3
  simp only [Except.ok.injEq, Prod.mk.injEq] at h3
  obtain ⟨rfl, rfl, rfl⟩ := h3
  obtain ⟨t', v', g1, g2, g3, g4, -⟩ := h5 (by
    intro q hq
    simp only [List.mem_singleton] at hq
    subst hq
    refine ⟨reach_stepped, ok_stepped, ?_⟩
    have e1 : intsToUints [0, 0] = [0, 0] := by decide
    have e2 : intsToUints stepped.v.dims = [2, 2] := by decide
    show BlockIn (intsToUints [0, 0]) (intsToUints stepped.v.dims) [2, 2]
    rw [e1, e2]
    exact ⟨by omega, by omega, trivial⟩)
  exact ⟨t', v', g1, g2, g3, g4⟩

end Ex
end OW.Props.C08
